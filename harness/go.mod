module verif

go 1.23.0

require (
	github.com/anishathalye/porcupine v1.3.0
	github.com/wader/fq v0.0.0
)

require (
	github.com/creasty/defaults v1.8.0 // indirect
	github.com/itchyny/timefmt-go v0.1.6 // indirect
	github.com/mitchellh/mapstructure v1.5.0 // indirect
	github.com/wader/gojq v0.12.1-0.20250208151254-0aa7b87b2c2b // indirect
)

replace github.com/wader/fq => /repo
