package gen

import (
	"math"
	"math/big"
)

// JSONOpts bounds the generated values.
type JSONOpts struct {
	MaxDepth  int
	MaxWidth  int
	BigInts   bool // allow *big.Int beyond int range (gojq represents them as *big.Int)
	Floats    bool
	NoNull    bool
	OnlyASCII bool
}

var interestingInts = []int{0, 1, -1, 2, 7, 10, 127, 128, 255, 256, 65535, 65536, 1 << 31, -(1 << 31), 1<<53 - 1, 1 << 53, 1<<53 + 1, math.MaxInt64, math.MinInt64}
var interestingFloats = []float64{0.5, -0.5, 1.5, 1e308, -1e308, 5e-324, 1e-7, 3.141592653589793, 1e21, 123456789.125}
var interestingStrings = []string{"", "a", "abc", "A b", "ä", "日本語", "😀", "é", "a\x00b", "\"q\"", "back\\slash", "line\nbreak", "tab\t", "null", "true", "1", "-", "a,b", "a.b", "$x", "_u", "0x10", "~", " lead", "trail ", "<tag>&amp;"}

func (r *Rand) String(onlyASCII bool) string {
	if r.Intn(3) == 0 {
		for {
			s := Pick(r, interestingStrings)
			if !onlyASCII || isASCII(s) {
				return s
			}
		}
	}
	n := r.Intn(12)
	rs := make([]rune, n)
	for i := range rs {
		switch k := r.Intn(10); {
		case k < 6 || onlyASCII:
			rs[i] = rune(0x20 + r.Intn(0x5f))
		case k < 8:
			rs[i] = rune(0xa0 + r.Intn(0x500))
		case k < 9:
			rs[i] = rune(0x4e00 + r.Intn(0x1000))
		default:
			rs[i] = rune(0x1f600 + r.Intn(0x40))
		}
	}
	return string(rs)
}

func isASCII(s string) bool {
	for i := 0; i < len(s); i++ {
		if s[i] >= 0x80 || s[i] < 0x20 {
			return false
		}
	}
	return true
}

// JSON generates a gojq-style value: nil, bool, int, float64, *big.Int, string, []any, map[string]any.
func (r *Rand) JSON(o JSONOpts) any { return r.json(o, o.MaxDepth) }

func (r *Rand) json(o JSONOpts, depth int) any {
	k := r.Intn(10)
	if depth <= 0 && k >= 7 {
		k = r.Intn(7)
	}
	switch k {
	case 0:
		if o.NoNull {
			return r.Bool()
		}
		return nil
	case 1:
		return r.Bool()
	case 2, 3:
		return r.Number(o)
	case 4, 5, 6:
		return r.String(o.OnlyASCII)
	case 7, 8:
		n := r.Intn(o.MaxWidth + 1)
		a := make([]any, n)
		for i := range a {
			a[i] = r.json(o, depth-1)
		}
		return a
	default:
		n := r.Intn(o.MaxWidth + 1)
		m := make(map[string]any, n)
		for i := 0; i < n; i++ {
			m[r.String(o.OnlyASCII)] = r.json(o, depth-1)
		}
		return m
	}
}

func (r *Rand) Number(o JSONOpts) any {
	switch r.Intn(8) {
	case 0, 1:
		return Pick(r, interestingInts)
	case 2:
		return r.Intn(2000) - 1000
	case 3:
		return int(int64(r.U64()))
	case 4:
		if o.BigInts {
			b := new(big.Int).SetUint64(r.U64())
			b.Lsh(b, uint(r.Intn(80)))
			if r.Bool() {
				b.Neg(b)
			}
			if b.IsInt64() {
				return int(b.Int64())
			}
			return b
		}
		return r.Intn(100)
	case 5, 6:
		if o.Floats {
			if r.Bool() {
				return Pick(r, interestingFloats)
			}
			f := math.Float64frombits(r.U64())
			if math.IsNaN(f) || math.IsInf(f, 0) {
				return 0.25
			}
			return f
		}
		return r.Intn(100)
	default:
		return r.Intn(256)
	}
}
