// Package gen: deterministic PRNG and generic value generators.
package gen

import "math/bits"

// Rand is splitmix64; every random choice in the harness derives from VERIF_SEED through it.
type Rand struct{ s uint64 }

func New(seed uint64) *Rand { return &Rand{s: seed*0x9E3779B97F4A7C15 + 0x1234567} }

// Fork derives an independent stream identified by id (so case k is reproducible alone).
func (r *Rand) Fork(id uint64) *Rand {
	return &Rand{s: mix(r.s ^ mix(id+0x632BE59BD9B4E019))}
}

func mix(z uint64) uint64 {
	z = (z ^ (z >> 30)) * 0xBF58476D1CE4E5B9
	z = (z ^ (z >> 27)) * 0x94D049BB133111EB
	return z ^ (z >> 31)
}

func (r *Rand) U64() uint64 {
	r.s += 0x9E3779B97F4A7C15
	return mix(r.s)
}

// Intn returns a value in [0,n); n<=0 gives 0.
func (r *Rand) Intn(n int) int {
	if n <= 0 {
		return 0
	}
	hi, _ := bits.Mul64(r.U64(), uint64(n))
	return int(hi)
}
func (r *Rand) Int63n(n int64) int64 {
	if n <= 0 {
		return 0
	}
	hi, _ := bits.Mul64(r.U64(), uint64(n))
	return int64(hi)
}

// Range returns a value in [lo,hi] inclusive.
func (r *Rand) Range(lo, hi int) int { return lo + r.Intn(hi-lo+1) }
func (r *Rand) Bool() bool           { return r.U64()&1 == 1 }
func (r *Rand) Chance(num, den int) bool {
	return r.Intn(den) < num
}
func (r *Rand) Bytes(n int) []byte {
	b := make([]byte, n)
	for i := 0; i < n; i += 8 {
		v := r.U64()
		for j := 0; j < 8 && i+j < n; j++ {
			b[i+j] = byte(v >> (8 * j))
		}
	}
	return b
}
func Pick[T any](r *Rand, xs []T) T { return xs[r.Intn(len(xs))] }
func Shuffle[T any](r *Rand, xs []T) {
	for i := len(xs) - 1; i > 0; i-- {
		j := r.Intn(i + 1)
		xs[i], xs[j] = xs[j], xs[i]
	}
}
