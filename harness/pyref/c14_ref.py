#!/usr/bin/env python3
"""C14 reference helper: independent hash and TOML implementations (Python stdlib).

Protocol: one JSON object per line on stdin, one JSON object per line on stdout.
  {"op":"hash","hex":"<bytes as hex>"}  -> {"md4":..,"md5":..,"sha1":..,...}
  {"op":"toml","text":"..."}            -> {"ok":true,"json":"<JSON text of the value>"} | {"ok":false,"error":".."}
"""
import sys, json, hashlib, struct, math, datetime

try:
    import tomllib
except ImportError:  # pragma: no cover
    tomllib = None


def md4(data: bytes) -> str:
    """RFC 1320, written from the specification (hashlib's md4 depends on OpenSSL legacy providers)."""
    def rol(x, n):
        x &= 0xFFFFFFFF
        return ((x << n) | (x >> (32 - n))) & 0xFFFFFFFF
    def F(x, y, z): return (x & y) | (~x & z)
    def G(x, y, z): return (x & y) | (x & z) | (y & z)
    def H(x, y, z): return x ^ y ^ z
    ml = len(data) * 8
    data = data + b"\x80"
    data += b"\x00" * ((56 - len(data) % 64) % 64)
    data += struct.pack("<Q", ml & 0xFFFFFFFFFFFFFFFF)
    a, b, c, d = 0x67452301, 0xEFCDAB89, 0x98BADCFE, 0x10325476
    for off in range(0, len(data), 64):
        X = struct.unpack("<16I", data[off:off + 64])
        aa, bb, cc, dd = a, b, c, d
        s = (3, 7, 11, 19)
        for i in range(16):
            k = i
            if i % 4 == 0: a = rol(a + F(b, c, d) + X[k], s[0])
            elif i % 4 == 1: d = rol(d + F(a, b, c) + X[k], s[1])
            elif i % 4 == 2: c = rol(c + F(d, a, b) + X[k], s[2])
            else: b = rol(b + F(c, d, a) + X[k], s[3])
        s = (3, 5, 9, 13)
        for i in range(16):
            k = (i % 4) * 4 + i // 4
            if i % 4 == 0: a = rol(a + G(b, c, d) + X[k] + 0x5A827999, s[0])
            elif i % 4 == 1: d = rol(d + G(a, b, c) + X[k] + 0x5A827999, s[1])
            elif i % 4 == 2: c = rol(c + G(d, a, b) + X[k] + 0x5A827999, s[2])
            else: b = rol(b + G(c, d, a) + X[k] + 0x5A827999, s[3])
        s = (3, 9, 11, 15)
        order = (0, 8, 4, 12, 2, 10, 6, 14, 1, 9, 5, 13, 3, 11, 7, 15)
        for i in range(16):
            k = order[i]
            if i % 4 == 0: a = rol(a + H(b, c, d) + X[k] + 0x6ED9EBA1, s[0])
            elif i % 4 == 1: d = rol(d + H(a, b, c) + X[k] + 0x6ED9EBA1, s[1])
            elif i % 4 == 2: c = rol(c + H(d, a, b) + X[k] + 0x6ED9EBA1, s[2])
            else: b = rol(b + H(c, d, a) + X[k] + 0x6ED9EBA1, s[3])
        a = (a + aa) & 0xFFFFFFFF
        b = (b + bb) & 0xFFFFFFFF
        c = (c + cc) & 0xFFFFFFFF
        d = (d + dd) & 0xFFFFFFFF
    return struct.pack("<4I", a, b, c, d).hex()


assert md4(b"") == "31d6cfe0d16ae931b73c59d7e0c089c0"
assert md4(b"abc") == "a448017aaf21d8525fc10ae87aa6729d"
assert md4(b"12345678901234567890123456789012345678901234567890123456789012345678901234567890") == "e33b4ddc9c38f2199c3e7b164fcc0536"

ALGS = ["md5", "sha1", "sha256", "sha512", "sha3_224", "sha3_256", "sha3_384", "sha3_512"]


def plain(v):
    if isinstance(v, dict):
        return {k: plain(e) for k, e in v.items()}
    if isinstance(v, list):
        return [plain(e) for e in v]
    if isinstance(v, float) and (math.isinf(v) or math.isnan(v)):
        return "<float %r>" % v
    if isinstance(v, (datetime.datetime, datetime.date, datetime.time)):
        return "<datetime %s>" % v
    return v


def main():
    for line in sys.stdin:
        line = line.strip()
        if not line:
            continue
        req = json.loads(line)
        if req["op"] == "hash":
            data = bytes.fromhex(req["hex"])
            out = {"md4": md4(data)}
            for a in ALGS:
                out[a] = hashlib.new(a, data).hexdigest()
        elif req["op"] == "toml":
            try:
                if tomllib is None:
                    raise RuntimeError("tomllib unavailable")
                v = tomllib.loads(req["text"])
                out = {"ok": True, "json": json.dumps(plain(v), ensure_ascii=True)}
            except Exception as e:  # noqa
                out = {"ok": False, "error": "%s: %s" % (type(e).__name__, e)}
        elif req["op"] == "ping":
            out = {"ok": True, "tomllib": tomllib is not None}
        else:
            out = {"ok": False, "error": "unknown op"}
        sys.stdout.write(json.dumps(out) + "\n")
        sys.stdout.flush()


if __name__ == "__main__":
    main()
