#!/usr/bin/env python3
"""C15 helper: second, Go-independent family of container writers and readers (Python 3 stdlib only).

Protocol: one JSON object per line on stdin, one JSON object per line on stdout.
  {"op":"write","format":F,"spec":{...}}  -> {"data": <base64>, "info": {...}}
  {"op":"check","format":F,"files":[<base64>,...]} -> {"err":[null | "message", ...]}
  {"op":"ping"} -> {"ok":true}
Payloads always come from the Go side (generated from VERIF_SEED) so that the Go side knows what was stored.
"""
import sys, json, base64, io, gzip, zipfile, tarfile, bz2, wave, zlib, struct


def b64d(s):
    return base64.b64decode(s)


def b64e(b):
    return base64.b64encode(b).decode("ascii")


class NoSeek:
    """write-only, unseekable sink: makes zipfile emit data descriptors (streaming mode)"""

    def __init__(self):
        self.buf = io.BytesIO()

    def write(self, b):
        return self.buf.write(b)

    def flush(self):
        pass


def write_gzip(spec):
    out = io.BytesIO()
    for m in spec["members"]:
        with gzip.GzipFile(filename=m.get("name", ""), mode="wb", fileobj=out,
                           compresslevel=m["level"], mtime=m["mtime"]) as g:
            g.write(b64d(m["data"]))
    return out.getvalue(), {}


def write_zip(spec):
    stream = spec.get("stream", False)
    sink = NoSeek() if stream else io.BytesIO()
    infos = []
    with zipfile.ZipFile(sink, "w") as z:
        for m in spec["members"]:
            zi = zipfile.ZipInfo(m["name"], date_time=tuple(m["date_time"]))
            zi.compress_type = zipfile.ZIP_DEFLATED if m["method"] == 8 else zipfile.ZIP_STORED
            if m.get("comment"):
                zi.comment = m["comment"].encode("utf-8")
            zi.external_attr = m.get("external_attr", 0o644 << 16)
            lvl = m.get("level")
            if lvl is not None:
                zi._compresslevel = lvl  # used by ZipFile.open(zinfo, "w") (streaming mode)
            if stream:
                with z.open(zi, "w") as f:
                    # compresslevel for open(): taken from zinfo._compresslevel
                    f.write(b64d(m["data"]))
            else:
                z.writestr(zi, b64d(m["data"]), compress_type=zi.compress_type, compresslevel=lvl)
        if spec.get("comment"):
            z.comment = spec["comment"].encode("utf-8")
        for zi in z.infolist():
            infos.append({"name": zi.filename, "crc": zi.CRC, "csize": zi.compress_size, "usize": zi.file_size,
                          "offset": zi.header_offset, "flags": zi.flag_bits, "method": zi.compress_type})
    data = sink.buf.getvalue() if stream else sink.getvalue()
    return data, {"members": infos}


def write_tar(spec):
    out = io.BytesIO()
    fmt = {"ustar": tarfile.USTAR_FORMAT, "gnu": tarfile.GNU_FORMAT, "pax": tarfile.PAX_FORMAT}[spec["tarformat"]]
    with tarfile.open(fileobj=out, mode="w", format=fmt) as t:
        for m in spec["members"]:
            ti = tarfile.TarInfo(m["name"])
            data = b64d(m["data"])
            ti.size = len(data)
            ti.mode = m["mode"]
            ti.uid = m["uid"]
            ti.gid = m["gid"]
            ti.uname = m["uname"]
            ti.gname = m["gname"]
            ti.mtime = m["mtime"]
            if m.get("type") == "dir":
                ti.type = tarfile.DIRTYPE
                ti.size = 0
                t.addfile(ti)
            elif m.get("type") == "symlink":
                ti.type = tarfile.SYMTYPE
                ti.linkname = m["linkname"]
                ti.size = 0
                t.addfile(ti)
            else:
                t.addfile(ti, io.BytesIO(data))
    return out.getvalue(), {}


def write_bzip2(spec):
    return bz2.compress(b64d(spec["data"]), spec["level"]), {}


def write_wav(spec):
    out = io.BytesIO()
    with wave.open(out, "wb") as w:
        w.setnchannels(spec["channels"])
        w.setsampwidth(spec["sampwidth"])
        w.setframerate(spec["rate"])
        w.writeframes(b64d(spec["data"]))
    return out.getvalue(), {}


def write_zlib(spec):
    return zlib.compress(b64d(spec["data"]), spec["level"]), {}


WRITERS = {"gzip": write_gzip, "zip": write_zip, "tar": write_tar, "bzip2": write_bzip2, "wav": write_wav,
           "zlib": write_zlib}


def check_gzip(b):
    gzip.decompress(b)  # all members, crc32 and isize verified


def check_zip(b):
    with zipfile.ZipFile(io.BytesIO(b)) as z:
        for zi in z.infolist():
            with z.open(zi) as f:
                while f.read(1 << 16):
                    pass  # crc verified at EOF


def check_tar(b):
    # ignore_zeros=False, default errorlevel: a bad header checksum raises ReadError for the first member and
    # silently ends the archive for later ones -> compare the number of bytes consumed as well
    with tarfile.open(fileobj=io.BytesIO(b), mode="r:") as t:
        n = 0
        for ti in t:
            if ti.isreg():
                f = t.extractfile(ti)
                f.read()
            n += 1
        return n


def check_bzip2(b):
    bz2.decompress(b)


CHECKERS = {"gzip": check_gzip, "zip": check_zip, "tar": check_tar, "bzip2": check_bzip2}


def main():
    for line in sys.stdin:
        line = line.strip()
        if not line:
            continue
        try:
            req = json.loads(line)
            op = req["op"]
            if op == "ping":
                resp = {"ok": True}
            elif op == "write":
                data, info = WRITERS[req["format"]](req["spec"])
                resp = {"data": b64e(data), "info": info}
            elif op == "check":
                errs = []
                vals = []
                fn = CHECKERS[req["format"]]
                for f in req["files"]:
                    try:
                        v = fn(b64d(f))
                        errs.append(None)
                        vals.append(v)
                    except Exception as e:  # any rejection counts
                        errs.append(type(e).__name__ + ": " + str(e)[:200])
                        vals.append(None)
                resp = {"err": errs, "val": vals}
            else:
                resp = {"fatal": "unknown op"}
        except Exception as e:
            resp = {"fatal": type(e).__name__ + ": " + str(e)}
        sys.stdout.write(json.dumps(resp) + "\n")
        sys.stdout.flush()


if __name__ == "__main__":
    main()
