package main

// C20 — an interrupt cancels exactly the innermost running evaluation, safely.
// Layer 1: ctxstack against a stack model, exhaustively (sequential, handshaked interrupts).
// Layer 2: concurrent histories (interrupter vs evaluator vs observers) checked for linearizability
//          against the same model with porcupine; race detector on (the binary is built with -race).
// Layer 3: the interpreter (c20_interp.go): nested REPLs, interrupts at boundary moments.
// The parent process runs a child with GORACE=log_path=… and turns race reports into violations.

import (
	"context"
	"fmt"
	"os"
	"os/exec"
	"path/filepath"
	"regexp"
	"sort"
	"strings"
	"sync"
	"sync/atomic"
	"time"

	"github.com/anishathalye/porcupine"
	"github.com/wader/fq/pkg/verifx"

	"verif/ev"
	"verif/gen"
)

func init() { register("C20", c20Main) }

// ---- the sequential model ----

type c20Model struct {
	stack     []int
	cancelled map[int]bool
	stopped   bool
}

func (m *c20Model) clone() *c20Model {
	n := &c20Model{stack: append([]int(nil), m.stack...), cancelled: map[int]bool{}, stopped: m.stopped}
	for k, v := range m.cancelled {
		n.cancelled[k] = v
	}
	return n
}
func (m *c20Model) push(id int) {
	m.stack = append(m.stack, id)
	m.cancelled[id] = m.cancelled[id] || false
}
func (m *c20Model) finish(id int) {
	for p, x := range m.stack {
		if x == id {
			for _, y := range m.stack[p:] {
				m.cancelled[y] = true
			}
			m.stack = m.stack[:p]
			return
		}
	}
	// not live: it was finished (explicitly or by an outer finish) before; its own context is cancelled anyway
	m.cancelled[id] = true
}
func (m *c20Model) interrupt() {
	if len(m.stack) > 0 {
		m.cancelled[m.stack[len(m.stack)-1]] = true
	}
}
func (m *c20Model) stop() {
	for _, y := range m.stack {
		m.cancelled[y] = true
	}
	m.stopped = true
}

// ---- driving the real stack with a handshaked trigger ----

type c20Real struct {
	s         *verifx.CtxStack
	fire      chan struct{}
	reentered chan struct{}
	ctxs      map[int]context.Context
	fins      map[int]func()
}

func c20NewReal() *c20Real {
	r := &c20Real{fire: make(chan struct{}), reentered: make(chan struct{}), ctxs: map[int]context.Context{}, fins: map[int]func(){}}
	r.s = verifx.NewCtxStack(func(stopCh chan struct{}) {
		select {
		case r.reentered <- struct{}{}: // previous interrupt fully handled, waiting again
		case <-stopCh:
			return
		}
		select {
		case <-stopCh:
		case <-r.fire:
		}
	})
	<-r.reentered
	return r
}
func (r *c20Real) push(id int) {
	ctx, fin := r.s.Push(context.Background())
	r.ctxs[id] = ctx
	r.fins[id] = fin
}
func (r *c20Real) finish(id int) { r.fins[id]() }
func (r *c20Real) interrupt() {
	r.fire <- struct{}{}
	<-r.reentered
}
func (r *c20Real) stop() { r.s.Stop() }

type c20Op struct {
	kind string // push finish interrupt stop
	id   int
}

func (o c20Op) String() string {
	if o.kind == "push" || o.kind == "finish" {
		return fmt.Sprintf("%s(%d)", o.kind, o.id)
	}
	return o.kind
}

func c20SeqString(seq []c20Op) string {
	var ss []string
	for _, o := range seq {
		ss = append(ss, o.String())
	}
	return strings.Join(ss, " ")
}

// c20Exec runs seq on a fresh real stack, comparing every context with the model after every op.
func c20Exec(run *ev.Run, seq []c20Op) {
	real := c20NewReal()
	m := &c20Model{cancelled: map[int]bool{}}
	stopped := false
	defer func() {
		if !stopped {
			real.stop()
		}
	}()
	for i, o := range seq {
		var pi any
		func() {
			defer func() { pi = recover() }()
			switch o.kind {
			case "push":
				real.push(o.id)
				m.push(o.id)
			case "finish":
				real.finish(o.id)
				m.finish(o.id)
			case "interrupt":
				real.interrupt()
				m.interrupt()
			case "stop":
				real.stop()
				m.stop()
				stopped = true
			}
		}()
		if pi != nil {
			run.Violation("ctxstack:panic:"+o.kind, fmt.Sprintf("panic %v at op %d of [%s]", pi, i, c20SeqString(seq)), map[string]any{"seq": c20SeqString(seq)})
			stopped = true // state unknown
			return
		}
		run.Count("seq:op:"+o.kind, 1)
		for id, ctx := range real.ctxs {
			got := ctx.Err() != nil
			if got != m.cancelled[id] {
				what := "cancelled but should be live"
				if !got {
					what = "live but should be cancelled"
				}
				run.Violation("ctxstack:seq:"+o.kind+":"+strings.ReplaceAll(what, " ", "-"),
					fmt.Sprintf("after op %d (%s) of [%s]: context %d is %s (model stack %v)", i, o, c20SeqString(seq), id, what, m.stack),
					map[string]any{"seq": c20SeqString(seq)})
				return
			}
		}
	}
}

// c20Enumerate: all sequences over {push, finish(any closure created so far), interrupt, stop} up to
// maxLen ops and maxPush pushes (depth <= maxPush). Returns number of sequences executed.
func c20Enumerate(run *ev.Run, maxLen, maxPush int) int64 {
	var n int64
	seq := make([]c20Op, 0, maxLen)
	// precondition kept from fq's usage (iterators are owned by their parent evaluation): a closure that
	// was implicitly finished by an outer finish is never invoked afterwards. Repeated calls of a closure
	// that was itself called before are included.
	m := &c20Model{cancelled: map[int]bool{}}
	explicit := map[int]bool{}
	var rec func(pushes int, ended bool)
	rec = func(pushes int, ended bool) {
		if len(seq) > 0 {
			c20Exec(run, seq)
			n++
			if pushes >= 2 {
				run.Distinct(c20SeqString(seq))
			}
		}
		if len(seq) == maxLen || ended {
			return
		}
		saved := m
		if pushes < maxPush {
			seq = append(seq, c20Op{"push", pushes})
			m = saved.clone()
			m.push(pushes)
			rec(pushes+1, false)
			seq = seq[:len(seq)-1]
		}
		for id := 0; id < pushes; id++ {
			live := false
			for _, x := range saved.stack {
				if x == id {
					live = true
				}
			}
			if !live && !explicit[id] {
				continue
			}
			seq = append(seq, c20Op{"finish", id})
			m = saved.clone()
			m.finish(id)
			was := explicit[id]
			explicit[id] = true
			rec(pushes, false)
			explicit[id] = was
			seq = seq[:len(seq)-1]
		}
		seq = append(seq, c20Op{"interrupt", 0})
		m = saved.clone()
		m.interrupt()
		rec(pushes, false)
		seq = seq[:len(seq)-1]
		seq = append(seq, c20Op{"stop", 0})
		m = saved.clone()
		rec(pushes, true)
		seq = seq[:len(seq)-1]
		m = saved
	}
	rec(0, false)
	return n
}

// ---- layer 2: concurrent histories + porcupine ----

type c20In struct {
	Kind string // push finish interrupt observe
	ID   int
}
type c20State struct {
	stack     string // ids joined
	cancelled string // sorted ids joined
}

func c20ModelPorcupine() porcupine.Model {
	type st struct {
		stack     []int
		cancelled []int
	}
	has := func(s []int, x int) bool {
		for _, y := range s {
			if y == x {
				return true
			}
		}
		return false
	}
	add := func(s []int, x int) []int {
		if has(s, x) {
			return s
		}
		n := append(append([]int(nil), s...), x)
		sort.Ints(n)
		return n
	}
	return porcupine.Model{
		Init: func() any { return st{} },
		Step: func(state, input, output any) (bool, any) {
			s := state.(st)
			in := input.(c20In)
			switch in.Kind {
			case "push":
				return true, st{stack: append(append([]int(nil), s.stack...), in.ID), cancelled: s.cancelled}
			case "finish":
				for p, x := range s.stack {
					if x == in.ID {
						c := s.cancelled
						for _, y := range s.stack[p:] {
							c = add(c, y)
						}
						return true, st{stack: append([]int(nil), s.stack[:p]...), cancelled: c}
					}
				}
				return true, st{stack: s.stack, cancelled: add(s.cancelled, in.ID)}
			case "interrupt":
				if len(s.stack) > 0 {
					return true, st{stack: s.stack, cancelled: add(s.cancelled, s.stack[len(s.stack)-1])}
				}
				return true, s
			case "observe":
				return output.(bool) == has(s.cancelled, in.ID), s
			}
			return false, s
		},
		Equal: func(a, b any) bool {
			return fmt.Sprint(a) == fmt.Sprint(b)
		},
		DescribeOperation: func(input, output any) string {
			in := input.(c20In)
			if in.Kind == "observe" {
				return fmt.Sprintf("observe(%d)=%v", in.ID, output)
			}
			return fmt.Sprintf("%s(%d)", in.Kind, in.ID)
		},
	}
}

// one concurrent history: evaluator goroutine pushes/finishes nested contexts, interrupter fires at PRNG
// moments, observer reads ctx.Err(). All operations are recorded at the client boundary.
func c20Concurrent(run *ev.Run, id uint64, model porcupine.Model) {
	rng := gen.New(run.Seed).Fork(0xC2000000 + id)
	real := c20NewReal()
	var mu sync.Mutex
	var ops []porcupine.Operation
	var clock int64
	now := func() int64 { return atomic.AddInt64(&clock, 1) }
	rec := func(client int, in c20In, call int64, out any) {
		ret := now()
		mu.Lock()
		ops = append(ops, porcupine.Operation{ClientId: client, Input: in, Call: call, Output: out, Return: ret})
		mu.Unlock()
	}
	var ctxMu sync.Mutex
	ctxs := map[int]context.Context{}
	nEval := 4 + rng.Intn(8)
	nInt := 1 + rng.Intn(4)
	nObs := 2 + rng.Intn(6)
	evalPlan := make([]int, nEval) // 0 push, 1 finish-top, 2 finish-random-live, 3 finish-stale
	for i := range evalPlan {
		evalPlan[i] = rng.Intn(4)
	}
	yields := make([]int, nEval+nInt+nObs)
	for i := range yields {
		yields[i] = rng.Intn(4)
	}
	var wg sync.WaitGroup
	start := make(chan struct{})
	var panicked atomic.Value
	guard := func(fn func()) {
		defer func() {
			if r := recover(); r != nil {
				panicked.Store(fmt.Sprint(r))
			}
		}()
		fn()
	}
	wg.Add(3)
	go func() { // evaluator
		defer wg.Done()
		<-start
		guard(func() {
			var live []int
			var all []int
			var done []int
			fins := map[int]func(){}
			next := 0
			for i, p := range evalPlan {
				for y := 0; y < yields[i]; y++ {
					time.Sleep(0)
				}
				switch {
				case p == 0 || len(all) == 0:
					if len(live) >= 4 {
						continue
					}
					idn := next
					next++
					c := now()
					ctx, fin := real.s.Push(context.Background())
					ctxMu.Lock()
					ctxs[idn] = ctx
					ctxMu.Unlock()
					fins[idn] = fin
					rec(0, c20In{"push", idn}, c, nil)
					live = append(live, idn)
					all = append(all, idn)
				default:
					var target int
					switch {
					case p == 1 && len(live) > 0:
						target = live[len(live)-1]
					case p == 2 && len(live) > 0:
						target = live[len(all)%len(live)]
					default:
						if len(done) == 0 {
							continue
						}
						target = done[i%len(done)] // repeated call of a closure that was called before
					}
					c := now()
					fins[target]()
					rec(0, c20In{"finish", target}, c, nil)
					done = append(done, target)
					for pidx, x := range live {
						if x == target {
							live = live[:pidx]
							break
						}
					}
				}
			}
		})
	}()
	go func() { // interrupter
		defer wg.Done()
		<-start
		guard(func() {
			for i := 0; i < nInt; i++ {
				for y := 0; y < yields[nEval+i]*3; y++ {
					time.Sleep(0)
				}
				c := now()
				real.interrupt()
				rec(1, c20In{"interrupt", 0}, c, nil)
			}
		})
	}()
	go func() { // observer
		defer wg.Done()
		<-start
		guard(func() {
			for i := 0; i < nObs; i++ {
				for y := 0; y < yields[nEval+nInt+i]*2; y++ {
					time.Sleep(0)
				}
				ctxMu.Lock()
				var ids []int
				for k := range ctxs {
					ids = append(ids, k)
				}
				ctxMu.Unlock()
				if len(ids) == 0 {
					continue
				}
				sort.Ints(ids)
				k := ids[i%len(ids)]
				ctxMu.Lock()
				ctx := ctxs[k]
				ctxMu.Unlock()
				c := now()
				v := ctx.Err() != nil
				rec(2, c20In{"observe", k}, c, v)
			}
		})
	}()
	close(start)
	done := make(chan struct{})
	go func() { wg.Wait(); close(done) }()
	select {
	case <-done:
	case <-time.After(20 * time.Second):
		run.Inconclusive("concurrent-history-watchdog")
		return
	}
	defer real.stop() // after the final observations
	if p := panicked.Load(); p != nil {
		run.Violation("ctxstack:concurrent:panic", fmt.Sprintf("panic in concurrent history %d: %v", id, p), map[string]any{"history": id})
		return
	}
	// final observation of every context (quiescent): append as sequential ops
	ctxMu.Lock()
	for k, ctx := range ctxs {
		c := now()
		ops = append(ops, porcupine.Operation{ClientId: 3, Input: c20In{"observe", k}, Call: c, Output: ctx.Err() != nil, Return: now()})
	}
	ctxMu.Unlock()
	// finish(k) cancels several contexts one after the other (top first): it is not atomic for an observer that
	// reads ctx.Err() without the stack's lock, and the property does not ask for that. Observations that overlap
	// a finish in real time are therefore dropped (counted); all others must linearize.
	{
		var kept []porcupine.Operation
		for _, o := range ops {
			drop := false
			if o.Input.(c20In).Kind == "observe" {
				for _, f := range ops {
					if f.Input.(c20In).Kind == "finish" && o.Call < f.Return && f.Call < o.Return {
						drop = true
						break
					}
				}
			}
			if drop {
				run.Count("conc:observations-overlapping-a-finish (dropped)", 1)
			} else {
				kept = append(kept, o)
			}
		}
		ops = kept
	}
	run.Count("conc:operations", int64(len(ops)))
	res, info := porcupine.CheckOperationsVerbose(model, ops, 30*time.Second)
	_ = info
	switch res {
	case porcupine.Ok:
		run.Count("conc:linearizable", 1)
	case porcupine.Unknown:
		run.Inconclusive("porcupine-timeout")
	case porcupine.Illegal:
		var ss []string
		sort.Slice(ops, func(i, j int) bool { return ops[i].Call < ops[j].Call })
		for _, o := range ops {
			ss = append(ss, fmt.Sprintf("c%d %s [%d,%d]", o.ClientId, model.DescribeOperation(o.Input, o.Output), o.Call, o.Return))
		}
		run.Violation("ctxstack:concurrent:not-linearizable", fmt.Sprintf("history %d is not linearizable w.r.t. the stack model:\n    %s", id, strings.Join(ss, "\n    ")), map[string]any{"history": id, "ops": ss})
	}
	// overlap statistics: did an interrupt overlap a push/finish?
	for _, a := range ops {
		if a.Input.(c20In).Kind != "interrupt" {
			continue
		}
		for _, b := range ops {
			k := b.Input.(c20In).Kind
			if (k == "push" || k == "finish") && a.Call < b.Return && b.Call < a.Return {
				run.Count("conc:interrupt-overlapping-"+k, 1)
			}
		}
	}
	run.Eval(1)
	run.Distinct(fmt.Sprintf("conc:%v:%d:%d", evalPlan, nInt, nObs))
}

var c20RaceRe = regexp.MustCompile(`(?s)WARNING: DATA RACE.*?={18}`)

// ---- layer 2b: interrupt storm ----
// The linearizability histories are short (porcupine's cost) and overlap an interrupt with the END of an
// evaluation only a few thousand times per run; a window of a few instructions between two critical sections of
// the trigger goroutine (length read under one lock, element used under the next: seed C20-D) needs millions.
// The storm runs push/finish pairs (depth 1..3) as fast as the evaluator goroutine can while an interrupter
// fires through the handshaked trigger without pause. Oracle: no panic on any goroutine (a panic on the
// stack's own trigger goroutine kills the child: reported by the parent as child-died with the crash log),
// every context finished by its closure is cancelled, every interrupt delivered was taken.
func c20Storm(run *ev.Run) {
	nIter := run.Pick(400000, 6000000)
	for round := 0; round < 4; round++ {
		real := c20NewReal()
		var stopI atomic.Bool
		var delivered, cancelledLive int64
		var wg sync.WaitGroup
		wg.Add(1)
		go func() {
			defer wg.Done()
			for !stopI.Load() {
				real.interrupt()
				delivered++
			}
		}()
		depthMax := 1 + round%3
		bad := int64(0)
		for i := 0; i < nIter/4; i++ {
			var ctxs [3]context.Context
			var fins [3]func()
			d := 1 + i%depthMax
			for k := 0; k < d; k++ {
				ctxs[k], fins[k] = real.s.Push(context.Background())
			}
			if ctxs[d-1].Err() != nil {
				cancelledLive++
			}
			if round == 3 && i%2 == 0 {
				fins[0]() // outer finish pops the nested ones too
				for k := 0; k < d; k++ {
					if ctxs[k].Err() == nil {
						bad++
					}
				}
				continue
			}
			for k := d - 1; k >= 0; k-- {
				fins[k]()
				if ctxs[k].Err() == nil {
					bad++
				}
			}
		}
		stopI.Store(true)
		wg.Wait()
		real.stop()
		run.Eval(int64(nIter / 4))
		run.Count("storm:push-finish-groups", int64(nIter/4))
		run.Count("storm:interrupts-delivered", delivered)
		run.Count("storm:interrupts-that-hit-a-live-context-before-its-finish", cancelledLive)
		if bad > 0 {
			run.Violation("storm:finished-context-not-cancelled", fmt.Sprintf("%d contexts were still alive after their finish closure returned (round %d)", bad, round), nil)
		}
	}
}

func c20Main(args []string) {
	run := ev.NewRun("C20")
	run.Rule = "layer 1: every sequence over {push, finish(any closure ever created, also stale ones), interrupt, stop} up to length 7/pushes 4 (quick) or 8/5 (thorough) executed on the real ctxstack with a handshaked trigger, all contexts compared with the stack model after every op; layer 2: randomized concurrent histories (evaluator/interrupter/observer goroutines) recorded at the client boundary and checked for linearizability against the same model with porcupine, under the race detector; layer 3: interp.Main with nested REPLs and interrupts delivered at event-driven boundary moments. non-trivial = sequence with >=2 pushes / concurrent history; distinct = op sequence / plan"
	run.Assumptions = []string{"a closure implicitly finished by an outer finish is not invoked later (fq: iterators are owned by their parent evaluation); repeated calls of an explicitly finished closure are included", "binary built with -race; race reports are read from GORACE log_path by the parent process and are violations"}
	if os.Getenv("VERIF_C20_CHILD") == "" {
		run.Require("storm:interrupts-delivered", 1000)
		run.Require("interp:failed-nested-eval-scenarios", 5)
		run.Require("interp:blocked-io-scenarios", 2)
		c20Parent(run)
		return
	}
	// ---- child: does the work under the race detector ----
	nSeq := c20Enumerate(run, run.Pick(7, 8), run.Pick(4, 5))
	run.Eval(nSeq)
	run.Count("seq:sequences", nSeq)
	run.Sample(map[string]any{"layer": 1, "example": "push(0) push(1) interrupt finish(0) finish(1) push(2) interrupt stop"})
	model := c20ModelPorcupine()
	nConc := run.Pick(3000, 300000)
	ch := make(chan uint64, 64)
	var wg sync.WaitGroup
	for w := 0; w < 8; w++ {
		wg.Add(1)
		go func() {
			defer wg.Done()
			for id := range ch {
				c20Concurrent(run, id, model)
			}
		}()
	}
	for id := 0; id < nConc; id++ {
		ch <- uint64(id)
	}
	close(ch)
	wg.Wait()
	c20Storm(run)
	c20Interp(run)
	if err := run.WritePart(os.Getenv("VERIF_PART")); err != nil {
		fmt.Fprintln(os.Stderr, err)
		os.Exit(2)
	}
	os.Exit(0)
}

func c20Parent(run *ev.Run) {
	raceParent(run, "VERIF_C20_CHILD")
	run.Finish()
}

// raceParent re-executes this binary as a child with GORACE=log_path, merges its part file and turns
// race reports (de-duplicated by the pair of top fq frames, line numbers stripped) into violations.
func raceParent(run *ev.Run, childEnv string) {
	dir, err := os.MkdirTemp("", "verif-race-"+run.ID+"-")
	if err != nil {
		panic(err)
	}
	defer os.RemoveAll(dir)
	part := filepath.Join(dir, "part.json")
	cmd := exec.Command(os.Args[0], run.ID)
	cmd.Env = append(os.Environ(), childEnv+"=1", "VERIF_PART="+part,
		"GORACE=halt_on_error=0 exitcode=0 log_path="+filepath.Join(dir, "race"))
	cmd.Stdout = os.Stdout
	cmd.Stderr = os.Stderr
	werr := cmd.Run()
	if err := run.MergePart(part); err != nil {
		run.Inconclusive("child-wrote-no-part")
	}
	if werr != nil {
		// a crash of the child (panic / deadlock "all goroutines are asleep" / fatal error) is a violation
		run.Violation("child-died", fmt.Sprintf("the workload process died: %v", werr), map[string]any{"error": werr.Error()})
	}
	files, _ := filepath.Glob(filepath.Join(dir, "race*"))
	nReports := 0
	seen := map[string]bool{}
	for _, f := range files {
		b, err := os.ReadFile(f)
		if err != nil {
			continue
		}
		for _, rep := range c20RaceRe.FindAllString(string(b), -1) {
			nReports++
			sig := raceSig(rep)
			if seen[sig] {
				continue
			}
			seen[sig] = true
			keep := filepath.Join(ev.VerifDir(), "replays", run.ID)
			_ = os.MkdirAll(keep, 0o755)
			run.Violation("race:"+sig, "data race reported by the Go race detector:\n"+trunc(rep, 3000), map[string]any{"report": rep})
		}
	}
	run.Count("race:reports", int64(nReports))
	run.Count("race:distinct", int64(len(seen)))
	if !strings.Contains(strings.Join(os.Args, " "), "vcheck-race") {
		run.Count("race:WARNING-binary-not-built-with-race", 1)
	}
}

var raceFrameRe = regexp.MustCompile(`(?m)^\s+(github\.com/wader/fq/[^\s(]+)`)
var raceLineRe = regexp.MustCompile(`:\d+`)

// raceSig: the first fq frame of each of the two conflicting accesses
func raceSig(rep string) string {
	parts := strings.Split(rep, "Previous ")
	var fs []string
	for i, p := range parts {
		if i > 1 {
			break
		}
		if m := raceFrameRe.FindStringSubmatch(p); m != nil {
			fs = append(fs, raceLineRe.ReplaceAllString(strings.TrimPrefix(m[1], "github.com/wader/fq/"), ""))
		}
	}
	sort.Strings(fs)
	if len(fs) == 0 {
		return "unknown"
	}
	return strings.Join(fs, "<>")
}

func trunc(s string, n int) string {
	if len(s) > n {
		return s[:n] + "…"
	}
	return s
}
