package main

// C07: grammar-based, type-guided generator of STANDARD jq.
// Loop safety (by construction): range only with small constants, limit/nth/skip with small constants,
// repeat only under limit with a body that always outputs, until/while/recurse only as counter templates,
// recursion in local functions only on a decreasing counter; update paths only use small constant indices.

import (
	"regexp"
	"sort"
	"strconv"
	"strings"

	"verif/gen"
)

type c07Var struct {
	name string
	sh   c07Shape
}

type c07Gen struct {
	r      *gen.Rand
	vars   []c07Var
	funs   []string // local 0-ary functions in scope
	labels []string
	seq    int
	tbl    []c07Builtin
	tblW   int
	byOut  map[c07T][]int
}

func c07NewGen(r *gen.Rand, tbl []c07Builtin) *c07Gen {
	g := &c07Gen{r: r, tbl: tbl, byOut: map[c07T][]int{}}
	for i, b := range tbl {
		g.tblW += b.w
		g.byOut[b.out] = append(g.byOut[b.out], i)
	}
	return g
}

func (g *c07Gen) ch(num, den int) bool  { return g.r.Intn(den) < num }
func (g *c07Gen) ps(xs []string) string { return xs[g.r.Intn(len(xs))] }

func (g *c07Gen) fresh(prefix string) string {
	g.seq++
	return prefix + strconv.Itoa(g.seq)
}

var c07IdentRe = regexp.MustCompile(`^[a-zA-Z_][a-zA-Z0-9_]*$`)

var c07Keywords = map[string]bool{"if": true, "then": true, "else": true, "elif": true, "end": true, "and": true, "or": true, "not": false, "as": true, "def": true,
	"reduce": true, "foreach": true, "try": true, "catch": true, "label": true, "import": true, "include": true, "__loc__": true}

// ---- literals ----

func (g *c07Gen) litValue(v any) (*c07Node, c07Shape) {
	txt := c07JSON(v)
	atomic := !(len(txt) > 0 && txt[0] == '-')
	return c07N("literal", atomic, txt), c07ShapeOf(v)
}

func (g *c07Gen) literal(t c07T) (*c07Node, c07Shape) {
	if t == c07Any {
		t = c07T(g.r.Intn(6))
	}
	switch t {
	case c07Null:
		return g.litValue(nil)
	case c07Bool:
		return g.litValue(g.r.Bool())
	case c07Num:
		if g.ch(1, 8) {
			return c07Leaf("literal", g.ps([]string{"1.0", "1e1000", "1E2", "0e0", "1.000000000000000000001", "0.10", "100000000000000000000", "1e-400", "3.0e0"})), c07S(c07Num)
		}
		if g.ch(1, 2) {
			return g.litValue(g.r.Intn(6))
		}
		return g.litValue(c07Copy(gen.Pick(g.r, c07NumPool)))
	case c07Str:
		if g.ch(1, 5) {
			return g.litValue(g.r.String(false))
		}
		return g.litValue(g.ps(c07StrPool))
	case c07Arr:
		switch g.r.Intn(4) {
		case 0:
			return g.litValue([]any{})
		case 1:
			return g.litValue(c07Copy(gen.Pick(g.r, []any{
				[]any{1, 2, 3}, []any{"a", "b"}, []any{3, 1, 2}, []any{[]any{1, 2}, []any{3}}, []any{nil, true, "a", 1, []any{}, map[string]any{}},
				[]any{map[string]any{"a": 1, "b": 2}, map[string]any{"a": 1, "b": 3}, map[string]any{"a": 2}}, []any{1, 1.0, "1"}, []any{65, 128512, 769},
				[]any{"a,b", "c d"}, []any{c07BigPow64, 1e308, 0.5},
			})))
		default:
			n := g.r.Intn(4)
			a := make([]any, n)
			for i := range a {
				a[i] = c07InputLeaf(g.r)
			}
			return g.litValue(a)
		}
	default:
		switch g.r.Intn(3) {
		case 0:
			return g.litValue(map[string]any{})
		case 1:
			return g.litValue(c07Copy(gen.Pick(g.r, []any{
				map[string]any{"a": 1}, map[string]any{"a": 1, "b": []any{1, 2}, "c": map[string]any{"d": nil}}, map[string]any{"b": 2, "a": 1},
				map[string]any{"key": "k", "value": 1}, map[string]any{"a b": 1, "😀": 2}, map[string]any{"a": map[string]any{"a": "x"}},
			})))
		default:
			n := g.r.Intn(4)
			m := map[string]any{}
			for i := 0; i < n; i++ {
				m[g.ps(c07KeyPool)] = c07InputLeaf(g.r)
			}
			return g.litValue(m)
		}
	}
}

// ---- leaves ----

func (g *c07Gen) leaf(in c07Shape) (*c07Node, c07Shape) {
	switch k := g.r.Intn(20); {
	case k < 6:
		return c07Leaf("identity", "."), in
	case k < 10:
		return g.literal(c07Any)
	case k < 13 && len(g.vars) > 0:
		v := g.vars[g.r.Intn(len(g.vars))]
		return c07Leaf("var", v.name), v.sh
	case k < 15 && len(g.funs) > 0:
		return c07Leaf("localcall", g.funs[g.r.Intn(len(g.funs))]), c07S(c07Any)
	case k < 16 && len(g.labels) > 0:
		return c07N("break", false, "break "+g.labels[g.r.Intn(len(g.labels))]), c07S(c07Any)
	case k < 17 && g.ch(1, 3):
		return c07Leaf("empty", "empty"), c07S(c07Any)
	default:
		return g.path(0, in, nil)
	}
}

// ---- paths ----

// childShapes of an example value
func c07Keys(m map[string]any) []string {
	ks := make([]string, 0, len(m))
	for k := range m {
		ks = append(ks, k)
	}
	sort.Strings(ks)
	return ks
}

func (g *c07Gen) keyStep(key string) string {
	if c07IdentRe.MatchString(key) && !c07Keywords[key] && g.ch(3, 4) {
		return "." + key
	}
	if g.ch(1, 2) {
		return "." + c07Quote(key)
	}
	return "[" + c07Quote(key) + "]"
}

// one path step in suffix form plus the shape it leads to
func (g *c07Gen) step(cur c07Shape, forUpdate bool) (string, c07Shape) {
	t := cur.t
	if t == c07Any || g.ch(1, 10) {
		t = gen.Pick(g.r, []c07T{c07Arr, c07Obj, c07Obj, c07Arr, c07Str})
	}
	switch t {
	case c07Obj:
		m, _ := cur.ex.(map[string]any)
		if g.ch(1, 6) {
			return "[]", c07S(c07Any)
		}
		if len(m) > 0 && g.ch(4, 5) {
			ks := c07Keys(m)
			k := ks[g.r.Intn(len(ks))]
			return g.keyStep(k), c07ShapeOf(m[k])
		}
		return g.keyStep(g.ps(c07KeyPool)), c07S(c07Any)
	case c07Arr:
		a, _ := cur.ex.([]any)
		switch k := g.r.Intn(10); {
		case k < 2:
			if len(a) > 0 {
				return "[]", c07ShapeOf(a[g.r.Intn(len(a))])
			}
			return "[]", c07S(c07Any)
		case k < 7:
			i := g.r.Intn(4)
			if len(a) > 0 && g.ch(3, 4) {
				i = g.r.Intn(len(a))
				if g.ch(1, 4) {
					return "[" + strconv.Itoa(i-len(a)) + "]", c07ShapeOf(a[i])
				}
				return "[" + strconv.Itoa(i) + "]", c07ShapeOf(a[i])
			}
			if g.ch(1, 4) {
				i = -i - 1
			}
			return "[" + strconv.Itoa(i) + "]", c07S(c07Any)
		default:
			return g.slice(), c07S(c07Arr)
		}
	case c07Str:
		if forUpdate {
			return "[0]", c07S(c07Any)
		}
		return g.slice(), c07S(c07Str)
	default:
		if g.ch(1, 2) {
			return g.keyStep(g.ps(c07KeyPool)), c07S(c07Any)
		}
		return "[" + strconv.Itoa(g.r.Intn(3)) + "]", c07S(c07Any)
	}
}

func (g *c07Gen) slice() string {
	b := func() string {
		switch g.r.Intn(6) {
		case 0:
			return ""
		case 1:
			return strconv.Itoa(-1 - g.r.Intn(3))
		case 2:
			return g.ps([]string{"null", "1.5", "0.2", "100"})
		}
		return strconv.Itoa(g.r.Intn(5))
	}
	lo, hi := b(), b()
	if lo == "" && hi == "" {
		lo = "1"
	}
	return "[" + lo + ":" + hi + "]"
}

// path builds `.a[0].b?` style paths from `.` (base nil) or from an atomic base
func (g *c07Gen) path(d int, in c07Shape, base *c07Node) (*c07Node, c07Shape) {
	cur := in
	n := 1 + g.r.Intn(3)
	if base == nil && g.ch(1, 14) {
		base = c07Leaf("recurse-default", "..")
		return base, c07S(c07Any)
	}
	node := base
	for i := 0; i < n; i++ {
		mismatch := cur.t != c07Arr && cur.t != c07Obj && cur.t != c07Str
		s, next := g.step(cur, false)
		if (mismatch && g.ch(2, 3)) || g.ch(1, 8) {
			s += "?"
		}
		if node == nil {
			if s[0] == '[' {
				s = "." + s
			}
			node = c07N("index", true, s)
		} else {
			node = c07N("index", true, node, s)
		}
		cur = next
	}
	return node, cur
}

// lhs: a path expression for update/del/path()
func (g *c07Gen) lhs(d int, in c07Shape) *c07Node {
	simple := func() *c07Node {
		cur := in
		var node *c07Node
		n := 1 + g.r.Intn(2)
		for i := 0; i < n; i++ {
			s, next := g.step(cur, true)
			if s[0] == '[' && len(s) > 2 && s[1] != '"' && s != "[]" {
				// numeric index or slice: keep small (constants generated above are already < 5)
				if cur.t != c07Arr && cur.t != c07Any && cur.t != c07Null {
					s = "[0]"
				}
			}
			if g.ch(1, 10) {
				s += "?"
			}
			if node == nil {
				if s[0] == '[' {
					s = "." + s
				}
				node = c07N("index", true, s)
			} else {
				node = c07N("index", true, node, s)
			}
			cur = next
		}
		return node
	}
	switch k := g.r.Intn(20); {
	case k < 11 || d <= 0:
		return simple()
	case k < 12:
		return c07N("comma", false, simple(), ", ", simple())
	case k < 14:
		c, _ := g.typed(d-1, c07S(c07Any), c07Bool)
		return c07N("pipe", false, ".[]", " | ", c07N("call", true, "select(", c, ")"))
	case k < 15:
		return c07Leaf("recurse-default", "..")
	case k < 16:
		return c07N("pipe", false, "..", " | ", g.ps([]string{"numbers", "strings", "arrays", "objects", "nulls", "scalars", "booleans"}))
	case k < 17:
		return c07N("call", true, "first(", g.ps([]string{".[]", ".[]?", ".."}), ")")
	case k < 18:
		return c07N("call", true, "getpath(", g.pathArr(in), ")")
	case k < 19:
		return c07N("alt", false, simple(), " // ", simple())
	default:
		c, _ := g.typed(d-1, in, c07Bool)
		return c07N("if", true, "if ", c, " then ", simple(), " else ", simple(), " end")
	}
}

// pathArr: a constant path array such as ["a",0]
func (g *c07Gen) pathArr(in c07Shape) *c07Node {
	var path []any
	cur := in
	n := g.r.Intn(3)
	if g.ch(1, 10) {
		n = 3
	}
	for i := 0; i < n; i++ {
		switch cur.t {
		case c07Obj:
			m, _ := cur.ex.(map[string]any)
			if len(m) > 0 && g.ch(4, 5) {
				ks := c07Keys(m)
				k := ks[g.r.Intn(len(ks))]
				path = append(path, k)
				cur = c07ShapeOf(m[k])
				continue
			}
			path = append(path, g.ps(c07KeyPool))
			cur = c07S(c07Any)
		case c07Arr:
			a, _ := cur.ex.([]any)
			if len(a) > 0 && g.ch(4, 5) {
				i := g.r.Intn(len(a))
				path = append(path, i)
				cur = c07ShapeOf(a[i])
				continue
			}
			path = append(path, g.r.Intn(4)-1)
			cur = c07S(c07Any)
		default:
			if g.ch(1, 2) {
				path = append(path, g.ps(c07KeyPool))
			} else {
				path = append(path, g.r.Intn(3))
			}
			cur = c07S(c07Any)
		}
	}
	if path == nil {
		path = []any{}
	}
	if g.ch(1, 25) {
		return c07Leaf("literal", g.ps([]string{`[null]`, `[{"start":1,"end":2}]`, `"a"`, `[[0]]`, `[true]`, `null`, `[1.5]`}))
	}
	return c07Leaf("literal", c07JSON(path))
}

// ---- bounded generators ----

func (g *c07Gen) stream(d int, in c07Shape) (*c07Node, c07Shape) {
	switch k := g.r.Intn(12); {
	case k < 3 && (in.t == c07Arr || in.t == c07Obj):
		sh := c07S(c07Any)
		if a, ok := in.ex.([]any); ok && len(a) > 0 {
			sh = c07ShapeOf(a[g.r.Intn(len(a))])
		}
		return c07Leaf("iterate", ".[]"), sh
	case k < 4:
		return c07Leaf("iterate", ".[]?"), c07S(c07Any)
	case k < 6:
		return g.rangeCall(), c07S(c07Num)
	case k < 8:
		a, sa := g.expr(d-1, in)
		b, _ := g.expr(d-1, in)
		return c07N("comma", false, c07P(a), ", ", c07P(b)), c07Shape{t: sa.t}
	case k < 9:
		return c07Leaf("recurse-default", ".."), c07S(c07Any)
	default:
		return g.expr(d-1, in)
	}
}

func (g *c07Gen) rangeCall() *c07Node {
	si := func(lo, hi int) string {
		v := lo + g.r.Intn(hi-lo+1)
		return strconv.Itoa(v)
	}
	var n *c07Node
	switch g.r.Intn(6) {
	case 0, 1, 2:
		n = c07N("call", true, "range(", g.ps([]string{"0", "1", "2", "3", "4", "5", "-1", "2.5", "(1,2)"}), ")")
		n.fn = "range/1"
	case 3, 4:
		n = c07N("call", true, "range(", si(-2, 3), "; ", si(0, 6), ")")
		n.fn = "range/2"
	default:
		n = c07N("call", true, "range(", si(-3, 5), "; ", si(-3, 8), "; ", g.ps([]string{"1", "2", "3", "-1", "-2", "0.5", "1.5", "-0.5"}), ")")
		n.fn = "range/3"
	}
	return n
}

func (g *c07Gen) pushVar(name string, sh c07Shape) { g.vars = append(g.vars, c07Var{name, sh}) }
func (g *c07Gen) popVars(n int)                    { g.vars = g.vars[:len(g.vars)-n] }

// ---- typed expressions ----

// typed: an expression that (probably) yields a value of type want
func (g *c07Gen) typed(d int, in c07Shape, want c07T) (*c07Node, c07Shape) {
	if want == c07Any {
		return g.expr(d, in)
	}
	for try := 0; try < 6; try++ {
		switch k := g.r.Intn(16); {
		case k < 3:
			if in.t == want {
				return c07Leaf("identity", "."), in
			}
		case k < 5:
			var cands []c07Var
			for _, v := range g.vars {
				if v.sh.t == want {
					cands = append(cands, v)
				}
			}
			if len(cands) > 0 {
				v := cands[g.r.Intn(len(cands))]
				return c07Leaf("var", v.name), v.sh
			}
		case k < 8:
			// a child of the example of the wanted type
			switch ex := in.ex.(type) {
			case map[string]any:
				for _, key := range c07Keys(ex) {
					if c07TypeOf(ex[key]) == want && g.ch(1, 2) {
						s := g.keyStep(key)
						if s[0] == '[' {
							s = "." + s
						}
						return c07N("index", true, s), c07ShapeOf(ex[key])
					}
				}
			case []any:
				for i, e := range ex {
					if c07TypeOf(e) == want && g.ch(1, 2) {
						return c07N("index", true, ".["+strconv.Itoa(i)+"]"), c07ShapeOf(e)
					}
				}
			}
		case k < 11 || d <= 0:
			return g.literal(want)
		case k < 14:
			// through a built-in that yields the wanted type
			if idx := g.byOut[want]; len(idx) > 0 {
				b := g.tbl[idx[g.r.Intn(len(idx))]]
				return g.call(d, in, b)
			}
		default:
			if n, sh, ok := g.construct(d, in, want); ok {
				return n, sh
			}
		}
	}
	return g.literal(want)
}

// construct: operators/constructions producing a given type
func (g *c07Gen) construct(d int, in c07Shape, want c07T) (*c07Node, c07Shape, bool) {
	bin := func(kind string, lt c07T, op string, rt c07T) *c07Node {
		a, _ := g.typed(d-1, in, lt)
		b, _ := g.typed(d-1, in, rt)
		return c07N(kind, false, c07P(a), " "+op+" ", c07P(b))
	}
	switch want {
	case c07Num:
		switch g.r.Intn(4) {
		case 0:
			return bin("arith", c07Num, g.ps([]string{"+", "-", "*", "/", "%"}), c07Num), c07S(c07Num), true
		case 1:
			a, _ := g.typed(d-1, in, gen.Pick(g.r, []c07T{c07Str, c07Arr, c07Obj}))
			n := c07N("pipe", false, c07P(a), " | ", c07Call0("length"))
			return n, c07S(c07Num), true
		case 2:
			a, _ := g.typed(d-1, in, c07Num)
			return c07N("neg", false, "-", c07P(a)), c07S(c07Num), true
		}
	case c07Str:
		switch g.r.Intn(3) {
		case 0:
			return bin("arith", c07Str, "+", c07Str), c07S(c07Str), true
		case 1:
			n, sh := g.interp(d, in)
			return n, sh, true
		}
	case c07Arr:
		switch g.r.Intn(3) {
		case 0:
			n, sh := g.arrayCons(d, in)
			return n, sh, true
		case 1:
			return bin("arith", c07Arr, g.ps([]string{"+", "-"}), c07Arr), c07S(c07Arr), true
		}
	case c07Obj:
		switch g.r.Intn(3) {
		case 0, 1:
			n, sh := g.objectCons(d, in)
			return n, sh, true
		default:
			return bin("arith", c07Obj, g.ps([]string{"+", "*"}), c07Obj), c07S(c07Obj), true
		}
	case c07Bool:
		switch g.r.Intn(4) {
		case 0:
			t := c07T(g.r.Intn(6))
			return bin("compare", t, g.ps([]string{"==", "!=", "<", "<=", ">", ">="}), t), c07S(c07Bool), true
		case 1:
			return bin("logic", c07Bool, g.ps([]string{"and", "or"}), c07Bool), c07S(c07Bool), true
		case 2:
			a, _ := g.expr(d-1, in)
			return c07N("pipe", false, c07P(a), " | ", c07Call0("not")), c07S(c07Bool), true
		}
	}
	return nil, c07Shape{}, false
}

// ---- constructions ----

func (g *c07Gen) arrayCons(d int, in c07Shape) (*c07Node, c07Shape) {
	switch g.r.Intn(5) {
	case 0:
		return c07Leaf("array", "[]"), c07ShapeOf([]any{})
	case 1, 2:
		a, _ := g.stream(d, in)
		return c07N("array", true, "[", a, "]"), c07S(c07Arr)
	default:
		a, _ := g.expr(d-1, in)
		b, _ := g.expr(d-1, in)
		if g.ch(1, 3) {
			c, _ := g.expr(d-1, in)
			return c07N("array", true, "[", c07P(a), ", ", c07P(b), ", ", c07P(c), "]"), c07S(c07Arr)
		}
		return c07N("array", true, "[", c07P(a), ", ", c07P(b), "]"), c07S(c07Arr)
	}
}

func (g *c07Gen) objectCons(d int, in c07Shape) (*c07Node, c07Shape) {
	n := g.r.Intn(4)
	parts := []any{"{"}
	for i := 0; i < n; i++ {
		if i > 0 {
			parts = append(parts, ", ")
		}
		val := func() *c07Node {
			v, _ := g.expr(d-1, in)
			// object values bind tighter than pipe/comma: always parenthesise non-atomic values
			return c07P(v)
		}
		switch k := g.r.Intn(14); {
		case k < 4:
			key := g.ps(c07KeyPool)
			if !c07IdentRe.MatchString(key) || c07Keywords[key] {
				key = c07Quote(key)
			}
			parts = append(parts, key+": ", val())
		case k < 6:
			parts = append(parts, c07Quote(g.ps(c07KeyPool))+": ", val())
		case k < 8:
			kx, _ := g.typed(d-1, in, c07Str)
			parts = append(parts, "(", kx, "): ", val())
		case k < 9 && len(g.vars) > 0:
			parts = append(parts, g.vars[g.r.Intn(len(g.vars))].name)
		case k < 10:
			// {a} shorthand: {a: .a}
			key := g.ps([]string{"a", "b", "key", "x", "\"a b\""})
			if m, ok := in.ex.(map[string]any); ok && len(m) > 0 {
				ks := c07Keys(m)
				kk := ks[g.r.Intn(len(ks))]
				if c07IdentRe.MatchString(kk) && !c07Keywords[kk] {
					key = kk
				} else {
					key = c07Quote(kk)
				}
			}
			parts = append(parts, key)
		case k < 11:
			kx, _ := g.expr(d-1, in)
			parts = append(parts, "\"k\\(", kx, ")\": ", val())
		case k < 12 && len(g.vars) > 0:
			// $var as computed key
			parts = append(parts, "(", g.vars[g.r.Intn(len(g.vars))].name, " | tostring): ", val())
		case k < 13:
			parts = append(parts, "("+c07Quote(g.ps(c07KeyPool))+", "+c07Quote(g.ps(c07KeyPool))+"): ", val())
		default:
			parts = append(parts, "\"\\(", val(), ")\": ", val())
		}
	}
	parts = append(parts, "}")
	return c07N("object", true, parts...), c07S(c07Obj)
}

var c07Formats = []string{"@json", "@text", "@csv", "@tsv", "@html", "@uri", "@sh", "@base64", "@base64d", "@base32", "@base32d", "@urid"}

func (g *c07Gen) interp(d int, in c07Shape) (*c07Node, c07Shape) {
	scalarArr := func() *c07Node {
		if g.ch(1, 2) {
			return c07Leaf("literal", g.ps([]string{`[1,"a b",null,true]`, `["a,b","c\"d","e\tf"]`, `[1.5,10000000000000000000000,"it's"]`, `["\\","\n","\u0000"]`, `[]`, `[[1]]`, `[{"a":1}]`, `["😀",-0.0,1e308]`}))
		}
		a, _ := g.typed(d-1, in, c07Arr)
		return a
	}
	inner := func(f string) *c07Node {
		if f == "@csv" || f == "@tsv" || (f == "@sh" && g.ch(1, 2)) {
			if g.ch(3, 4) {
				return scalarArr()
			}
		}
		if f == "@base64d" || f == "@base32d" || f == "@urid" {
			if g.ch(3, 4) {
				return c07Leaf("literal", c07Quote(g.ps([]string{"aGVsbG8=", "aGVsbG8", "8J+YgA==", "/w==", "gICA", "!!", "", "YQ", "NBSWY3DP", "MFRGG===", "%41%zz", "%F0%9F%98%80", "%ff", "a+b", "YWJj\n"})))
			}
		}
		a, _ := g.expr(d-1, in)
		return a
	}
	switch g.r.Intn(6) {
	case 0, 1:
		parts := []any{`"` + c07InterpLit(g.ps([]string{"", "a", "x=", "<", "é"}))}
		n := 1 + g.r.Intn(2)
		for i := 0; i < n; i++ {
			parts = append(parts, `\(`, inner(""), `)`+c07InterpLit(g.ps([]string{"", "-", " ", ">", "\\n", "😀"})))
		}
		parts = append(parts, `"`)
		return c07N("interpolation", true, parts...), c07S(c07Str)
	case 2, 3:
		f := g.ps(c07Formats)
		parts := []any{f + ` "` + c07InterpLit(g.ps([]string{"", "a", "x=<&>'", "é "}))}
		n := 1 + g.r.Intn(2)
		for i := 0; i < n; i++ {
			parts = append(parts, `\(`, inner(f), `)`+c07InterpLit(g.ps([]string{"", "-", " & ", "\\t"})))
		}
		parts = append(parts, `"`)
		nd := c07N("format-string", true, parts...)
		nd.fn = f
		return nd, c07S(c07Str)
	default:
		f := g.ps(c07Formats)
		nd := c07N("format", false, c07P(inner(f)), " | ", f)
		nd.fn = f
		return nd, c07S(c07Str)
	}
}

// literal fragments inside a string literal (already escaped for jq)
func c07InterpLit(s string) string { return s }

// ---- main expression production ----

func (g *c07Gen) expr(d int, in c07Shape) (*c07Node, c07Shape) {
	if d <= 0 {
		return g.leaf(in)
	}
	switch k := g.r.Intn(150); {
	case k < 5:
		return g.leaf(in)
	case k < 14:
		return g.path(d, in, nil)
	case k < 25: // pipe
		a, sa := g.expr(d-1, in)
		b, sb := g.expr(d-1, sa)
		return c07N("pipe", false, c07P(a), " | ", c07P(b)), sb
	case k < 29:
		a, sa := g.expr(d-1, in)
		b, _ := g.expr(d-1, in)
		return c07N("comma", false, c07P(a), ", ", c07P(b)), c07S(sa.t)
	case k < 37:
		return g.arith(d, in)
	case k < 41:
		var a, b *c07Node
		if g.ch(1, 2) {
			t := c07T(g.r.Intn(6))
			a, _ = g.typed(d-1, in, t)
			b, _ = g.typed(d-1, in, t)
		} else {
			a, _ = g.expr(d-1, in)
			b, _ = g.expr(d-1, in)
		}
		return c07N("compare", false, c07P(a), " "+g.ps([]string{"==", "!=", "<", "<=", ">", ">="})+" ", c07P(b)), c07S(c07Bool)
	case k < 45:
		a, _ := g.expr(d-1, in)
		if g.ch(1, 4) {
			return c07N("pipe", false, c07P(a), " | ", c07Call0("not")), c07S(c07Bool)
		}
		b, _ := g.expr(d-1, in)
		return c07N("logic", false, c07P(a), " "+g.ps([]string{"and", "or"})+" ", c07P(b)), c07S(c07Bool)
	case k < 49:
		return g.alt(d, in)
	case k < 56:
		return g.try(d, in)
	case k < 62:
		return g.fold(d, in)
	case k < 67:
		return g.ifx(d, in)
	case k < 70:
		return g.label(d, in)
	case k < 77:
		return g.loop(d, in)
	case k < 81:
		return g.arrayCons(d, in)
	case k < 87:
		return g.objectCons(d, in)
	case k < 94:
		return g.interp(d, in)
	case k < 101:
		return g.bind(d, in)
	case k < 108:
		return g.funcdef(d, in)
	case k < 116:
		return g.update(d, in)
	case k < 124:
		return g.fromjsonChain(d, in)
	default:
		return g.callAny(d, in)
	}
}

func (g *c07Gen) arith(d int, in c07Shape) (*c07Node, c07Shape) {
	op := g.ps([]string{"+", "+", "-", "*", "/", "%"})
	type pr struct{ l, r, o c07T }
	var valid []pr
	switch op {
	case "+":
		valid = []pr{{c07Num, c07Num, c07Num}, {c07Str, c07Str, c07Str}, {c07Arr, c07Arr, c07Arr}, {c07Obj, c07Obj, c07Obj}, {c07Null, c07Any, c07Any}, {c07Any, c07Null, c07Any}}
	case "-":
		valid = []pr{{c07Num, c07Num, c07Num}, {c07Arr, c07Arr, c07Arr}}
	case "*":
		valid = []pr{{c07Num, c07Num, c07Num}, {c07Str, c07Num, c07Str}, {c07Num, c07Str, c07Str}, {c07Obj, c07Obj, c07Obj}}
	case "/":
		valid = []pr{{c07Num, c07Num, c07Num}, {c07Str, c07Str, c07Arr}}
	default:
		valid = []pr{{c07Num, c07Num, c07Num}}
	}
	if g.ch(1, 10) {
		a, _ := g.typed(d-1, in, c07Num)
		return c07N("neg", false, "-", c07P(a)), c07S(c07Num)
	}
	if g.ch(3, 4) {
		p := valid[g.r.Intn(len(valid))]
		var a, b *c07Node
		// prefer an operand built from the input when its type fits
		a, _ = g.typed(d-1, in, p.l)
		b, _ = g.typed(d-1, in, p.r)
		if op == "*" && p.l == c07Str {
			b = c07Leaf("literal", g.ps([]string{"0", "1", "2", "3", "0.5", "1.5", "-1", "null"}))
		}
		if op == "*" && p.r == c07Str {
			a = c07Leaf("literal", g.ps([]string{"0", "1", "2", "3", "0.5"}))
		}
		return c07N("arith", false, c07P(a), " "+op+" ", c07P(b)), c07S(p.o)
	}
	a, _ := g.expr(d-1, in)
	b, _ := g.expr(d-1, in)
	return c07N("arith", false, c07P(a), " "+op+" ", c07P(b)), c07S(c07Any)
}

func (g *c07Gen) alt(d int, in c07Shape) (*c07Node, c07Shape) {
	var a *c07Node
	switch g.r.Intn(6) {
	case 0:
		a = c07Leaf("literal", g.ps([]string{"empty", "null", "false", "(null, 1)", "(false, null)", "(1, null, 2)", "error(\"x\")", "(null, error(\"x\"))", "(1, error(\"x\"))"}))
	case 1, 2:
		a, _ = g.path(d-1, in, nil)
	default:
		a, _ = g.expr(d-1, in)
	}
	b, sb := g.expr(d-1, in)
	return c07N("alt", false, c07P(a), " // ", c07P(b)), c07S(sb.t)
}

// errorExpr: something that (often) raises an error. userOnly reports that the only error it can raise is a
// user error whose value is a literal or the input: only then may a catch handler look at the caught value
// (the TEXT of engine errors is not part of the property: fq's overrides word errors differently).
func (g *c07Gen) errorExpr(d int, in c07Shape) (n *c07Node, userOnly bool) {
	switch g.r.Intn(6) {
	case 0:
		n := c07Leaf("call", "error")
		n.fn = "error/0"
		return n, true
	case 1:
		n := c07Leaf("call", "error("+g.ps([]string{`"x"`, `null`, `{"a":1}`, `[1]`, `1`, `"break"`, `"a\u0000b"`, `true`, `{}`, `"\(.)"`})+")")
		n.fn = "error/1"
		return n, true
	case 2:
		m, _ := g.expr(d-1, in)
		n := c07N("call", true, "error(", m, ")")
		n.fn = "error/1"
		return n, false
	case 3:
		a, _ := g.expr(d-1, in)
		return c07N("comma", false, c07P(a), ", ", "error(\"e\")", ", ", "3"), false
	default:
		a, _ := g.expr(d-1, in)
		return a, false
	}
}

func (g *c07Gen) try(d int, in c07Shape) (*c07Node, c07Shape) {
	body, userOnly := g.errorExpr(d, in)
	handler := func() *c07Node {
		if userOnly {
			if g.ch(1, 2) {
				h, _ := g.expr(d-1, c07S(c07Any))
				return c07P(h)
			}
			return g.lit(g.ps([]string{".", "type", "tojson", "error", "error(.)", "length", "[.]", "empty", `"caught: \(.)"`, ".a?", "tostring"}))
		}
		if g.ch(1, 3) {
			h, _ := g.expr(d-1, c07S(c07Str))
			return c07N("paren", true, "(\"caught\" | ", h, ")")
		}
		return g.lit(g.ps([]string{`"caught"`, "type", "empty", "error", "error(.)", "(type | length)", "1", "null", "[type]"}))
	}
	switch g.r.Intn(6) {
	case 0, 1, 2:
		return c07N("try-catch", false, "try ", c07P(body), " catch ", handler()), c07S(c07Any)
	case 3:
		return c07N("try", false, "try ", c07P(body)), c07S(c07Any)
	case 4:
		return c07N("optional", true, c07P(body), "?"), c07S(c07Any)
	default:
		// error raised under a pipe after some outputs
		a, _ := g.stream(d, in)
		return c07N("try-catch", false, "try (", c07P(a), " | if ", g.ps([]string{". == null", "type == \"string\"", ". == 1", "length > 1", "false", "true"}), " then error else . end) catch ", g.ps([]string{"type", `"c"`, "empty", "[type]"})), c07S(c07Any)
	}
}

func (g *c07Gen) initFor(sh c07Shape) (*c07Node, c07Shape) {
	switch g.r.Intn(8) {
	case 0:
		return c07Leaf("literal", "0"), c07ShapeOf(0)
	case 1:
		return c07Leaf("literal", `""`), c07ShapeOf("")
	case 2:
		return c07Leaf("literal", "[]"), c07ShapeOf([]any{})
	case 3:
		return c07Leaf("literal", "{}"), c07ShapeOf(map[string]any{})
	case 4:
		return c07Leaf("literal", "null"), c07ShapeOf(nil)
	case 5:
		return c07Leaf("identity", "."), sh
	default:
		return g.literal(c07Any)
	}
}

func (g *c07Gen) pattern(sh c07Shape, depth int) (string, []c07Var) {
	v := func() string { return "$" + g.fresh("v") }
	switch k := g.r.Intn(10); {
	case k < 3 || depth <= 0:
		n := v()
		return n, []c07Var{{n, sh}}
	case k < 6:
		// array pattern
		cnt := 1 + g.r.Intn(3)
		s := "["
		var vars []c07Var
		a, _ := sh.ex.([]any)
		for i := 0; i < cnt; i++ {
			if i > 0 {
				s += ", "
			}
			es := c07S(c07Any)
			if i < len(a) {
				es = c07ShapeOf(a[i])
			}
			p, vs := g.pattern(es, depth-1)
			s += p
			vars = append(vars, vs...)
		}
		return s + "]", vars
	default:
		cnt := 1 + g.r.Intn(2)
		s := "{"
		var vars []c07Var
		m, _ := sh.ex.(map[string]any)
		ks := c07Keys(m)
		for i := 0; i < cnt; i++ {
			if i > 0 {
				s += ", "
			}
			key := g.ps([]string{"a", "b", "key", "value", "c"})
			es := c07S(c07Any)
			if len(ks) > 0 && g.ch(3, 4) {
				key = ks[g.r.Intn(len(ks))]
				es = c07ShapeOf(m[key])
			}
			ident := c07IdentRe.MatchString(key) && !c07Keywords[key]
			switch kk := g.r.Intn(8); {
			case kk < 2 && ident:
				// {$name}
				n := "$" + key
				s += n
				vars = append(vars, c07Var{n, es})
			case kk < 3 && ident:
				// {$name: pattern}
				n := "$" + key
				p, vs := g.pattern(es, depth-1)
				s += n + ": " + p
				vars = append(vars, c07Var{n, es})
				vars = append(vars, vs...)
			case kk < 4:
				p, vs := g.pattern(es, depth-1)
				s += "(" + c07Quote(key) + "): " + p
				vars = append(vars, vs...)
			case kk < 5 && len(g.vars) > 0:
				p, vs := g.pattern(c07S(c07Any), depth-1)
				s += "(" + g.vars[g.r.Intn(len(g.vars))].name + " | tostring): " + p
				vars = append(vars, vs...)
			default:
				p, vs := g.pattern(es, depth-1)
				if ident && g.ch(1, 2) {
					s += key + ": " + p
				} else {
					s += c07Quote(key) + ": " + p
				}
				vars = append(vars, vs...)
			}
		}
		return s + "}", vars
	}
}

// dedupe variable names (a later binding of the same name wins; the generator only needs the set)
func c07Dedupe(vs []c07Var) []c07Var {
	seen := map[string]bool{}
	var out []c07Var
	for i := len(vs) - 1; i >= 0; i-- {
		if !seen[vs[i].name] {
			seen[vs[i].name] = true
			out = append(out, vs[i])
		}
	}
	return out
}

func (g *c07Gen) fold(d int, in c07Shape) (*c07Node, c07Shape) {
	src, ssh := g.stream(d, in)
	pat, vars := g.pattern(ssh, 1)
	vars = c07Dedupe(vars)
	init, ish := g.initFor(in)
	for _, v := range vars {
		g.pushVar(v.name, v.sh)
	}
	defer g.popVars(len(vars))
	x := vars[0].name
	update := func() *c07Node {
		if g.ch(1, 2) {
			switch ish.t {
			case c07Num:
				return c07Leaf("template", g.ps([]string{". + 1", ". + (" + x + " | length)", ". + (" + x + " | tonumber? // 0)", ". * 2 + 1"}))
			case c07Str:
				return c07Leaf("template", g.ps([]string{". + (" + x + " | tostring)", ". + (" + x + " | tojson) + \",\"", "\"\\(.)\\(" + x + ")\""}))
			case c07Arr:
				return c07Leaf("template", g.ps([]string{". + [" + x + "]", "[" + x + "] + .", ". + [" + x + " | type]", ".[length] = " + x}))
			case c07Obj:
				return c07Leaf("template", g.ps([]string{".[" + x + " | tostring] = " + x, ". + {(" + x + " | tojson): 1}", ".[" + x + " | type] += 1"}))
			}
		}
		u, _ := g.expr(d-1, ish)
		return u
	}
	switch g.r.Intn(5) {
	case 0, 1:
		n := c07N("reduce", true, "reduce ", c07P(src), " as "+pat+" (", init, "; ", update(), ")")
		return n, c07S(ish.t)
	case 2:
		return c07N("foreach2", true, "foreach ", c07P(src), " as "+pat+" (", init, "; ", update(), ")"), c07S(ish.t)
	default:
		ext, es := g.expr(d-1, ish)
		if g.ch(1, 3) {
			ext = c07Leaf("template", g.ps([]string{"[" + x + ", .]", "select(" + x + " != null)", ".", "empty", x, "if . then " + x + " else empty end"}))
		}
		return c07N("foreach3", true, "foreach ", c07P(src), " as "+pat+" (", init, "; ", update(), "; ", ext, ")"), c07S(es.t)
	}
}

func (g *c07Gen) ifx(d int, in c07Shape) (*c07Node, c07Shape) {
	cond := func() *c07Node {
		switch g.r.Intn(5) {
		case 0, 1, 2:
			c, _ := g.typed(d-1, in, c07Bool)
			return c
		case 3:
			return c07Leaf("literal", g.ps([]string{"(true, false)", "null", "empty", "0", "(false, true, null)", ".", "error(\"c\")"}))
		}
		c, _ := g.expr(d-1, in)
		return c
	}
	a, sa := g.expr(d-1, in)
	switch g.r.Intn(5) {
	case 0:
		return c07N("if", true, "if ", cond(), " then ", a, " end"), c07S(c07Any)
	case 1, 2:
		b, _ := g.expr(d-1, in)
		return c07N("if", true, "if ", cond(), " then ", a, " else ", b, " end"), c07S(sa.t)
	case 3:
		b, _ := g.expr(d-1, in)
		c, _ := g.expr(d-1, in)
		return c07N("if-elif", true, "if ", cond(), " then ", a, " elif ", cond(), " then ", b, " else ", c, " end"), c07S(sa.t)
	default:
		b, _ := g.expr(d-1, in)
		return c07N("if-elif", true, "if ", cond(), " then ", a, " elif ", cond(), " then ", b, " end"), c07S(c07Any)
	}
}

func (g *c07Gen) label(d int, in c07Shape) (*c07Node, c07Shape) {
	l := "$" + g.fresh("l")
	g.labels = append(g.labels, l)
	defer func() { g.labels = g.labels[:len(g.labels)-1] }()
	switch g.r.Intn(5) {
	case 0:
		a, _ := g.expr(d-1, in)
		b, _ := g.expr(d-1, in)
		return c07N("label", false, "label "+l+" | (", c07P(a), ", break "+l+", ", c07P(b), ")"), c07S(c07Any)
	case 1:
		s, _ := g.stream(d, in)
		c, _ := g.typed(d-1, c07S(c07Any), c07Bool)
		return c07N("label", false, "label "+l+" | ", c07P(s), " | if ", c, " then break "+l+" else . end"), c07S(c07Any)
	case 2:
		s, _ := g.stream(d, in)
		return c07N("label", false, "label "+l+" | (", c07P(s), " | ., break "+l+")"), c07S(c07Any)
	case 3:
		// break from inside a try: must not be caught
		a, _ := g.expr(d-1, in)
		return c07N("label", false, "label "+l+" | try (", c07P(a), ", break "+l+") catch \"caught\""), c07S(c07Any)
	default:
		a, sa := g.expr(d-1, in)
		return c07N("label", false, "label "+l+" | ", c07P(a)), sa
	}
}

func (g *c07Gen) safeBody() string {
	return g.ps([]string{".", "1", `"x"`, "tojson", "type", "[.]", "(1, 2)", "(length? // 0)", "tostring", "{a: .}"})
}

func (g *c07Gen) loop(d int, in c07Shape) (*c07Node, c07Shape) {
	n0 := strconv.Itoa(g.r.Intn(4))
	nm := g.ps([]string{"0", "1", "2", "3", "1", "2", "-1", "5"})
	mk := func(fn string, parts ...any) *c07Node {
		n := c07N("call", true, parts...)
		n.fn = fn
		n.atomic = c07TopLevelAtomic(n.String())
		return n
	}
	switch g.r.Intn(22) {
	case 0, 1:
		s, sh := g.stream(d, in)
		return mk("limit/2", "limit("+nm+"; ", s, ")"), sh
	case 2:
		s, sh := g.stream(d, in)
		return mk("first/1", "first(", s, ")"), sh
	case 3:
		s, sh := g.stream(d, in)
		return mk("last/1", "last(", s, ")"), sh
	case 4:
		s, sh := g.stream(d, in)
		return mk("nth/2", "nth("+nm+"; ", s, ")"), sh
	case 5:
		s, _ := g.stream(d, in)
		return mk("isempty/1", "isempty(", s, ")"), c07S(c07Bool)
	case 6:
		return g.rangeCall(), c07S(c07Num)
	case 7:
		k := strconv.Itoa(1 + g.r.Intn(4))
		return mk("until/2", n0+" | until(. >= "+k+"; . + "+g.ps([]string{"1", "2", "0.5"})+")"), c07S(c07Num)
	case 8:
		f, _ := g.expr(d-1, in)
		k := strconv.Itoa(1 + g.r.Intn(2))
		return mk("until/2", "{v: ., n: 0} | until(.n >= "+k+"; {v: [.v | ", f, "], n: (.n + 1)}) | .v"), c07S(c07Any)
	case 9:
		k := strconv.Itoa(1 + g.r.Intn(5))
		return mk("while/2", n0+" | [while(. < "+k+"; . + "+g.ps([]string{"1", "2", "1.5"})+")]"), c07S(c07Arr)
	case 10:
		f, _ := g.expr(d-1, in)
		k := strconv.Itoa(1 + g.r.Intn(2))
		return mk("while/2", "{v: ., n: 0} | [while(.n < "+k+"; {v: [.v | ", f, "], n: (.n + 1)}) | .v]"), c07S(c07Arr)
	case 11:
		return mk("repeat/1", "[limit("+strconv.Itoa(g.r.Intn(4))+"; repeat("+g.safeBody()+"))]"), c07S(c07Arr)
	case 12:
		return mk("recurse/1", g.ps([]string{
			n0 + " | [recurse(if . < 3 then . + 1 else empty end)]", "[recurse(.[]?)]", "[recurse]", "2 | [recurse(. * .; . < 100)]",
			"[recurse(.[]?; . != null)]", "[recurse(.a[]?, .[0][]?)] | length", "[.. | scalars]", "[recurse(if type == \"array\" then .[] else empty end)]"})), c07S(c07Arr)
	case 13:
		s, _ := g.stream(d, in)
		return mk("skip/2", "skip("+nm+"; ", s, ")"), c07S(c07Any)
	case 14:
		s, _ := g.stream(d, in)
		c, _ := g.typed(d-1, c07S(c07Any), c07Bool)
		fn := g.ps([]string{"any", "all"})
		return mk(fn+"/2", fn+"(", s, "; ", c, ")"), c07S(c07Bool)
	case 15:
		s, _ := g.stream(d, in)
		return mk("add/1", "add(", s, ")"), c07S(c07Any)
	case 16:
		s, _ := g.stream(d, in)
		if g.ch(1, 2) {
			a, _ := g.expr(d-1, in)
			return mk("IN/2", "IN(", a, "; ", s, ")"), c07S(c07Bool)
		}
		return mk("IN/1", "IN(", s, ")"), c07S(c07Bool)
	case 17:
		s, _ := g.stream(d, in)
		return mk("INDEX/2", "INDEX(", s, "; "+g.ps([]string{".", ".a?", "type", "tojson", "length?", ".[0]?"})+")"), c07S(c07Obj)
	case 18:
		return mk("combinations/0", g.ps([]string{"[[1,2],[3,4]]", "[[1,2],[]]", "[]", "[[\"a\"],[1,2],[null]]"})+" | [combinations]"), c07S(c07Arr)
	case 19:
		return mk("combinations/1", g.ps([]string{"[0,1]", "[]", "[\"a\"]"})+" | [combinations("+g.ps([]string{"0", "1", "2", "3"})+")]"), c07S(c07Arr)
	case 20:
		s, _ := g.stream(d, in)
		return mk("limit/2", "[limit("+nm+"; ", s, ")]"), c07S(c07Arr)
	default:
		s, _ := g.stream(d, in)
		return mk("first/1", "[first(", s, "), last(", c07CloneNode(s), ")]"), c07S(c07Arr)
	}
}

func c07CloneNode(n *c07Node) *c07Node {
	m := &c07Node{kind: n.kind, fn: n.fn, atomic: n.atomic}
	for _, p := range n.parts {
		if c, ok := p.(*c07Node); ok {
			m.parts = append(m.parts, c07CloneNode(c))
		} else {
			m.parts = append(m.parts, p)
		}
	}
	return m
}

func (g *c07Gen) bind(d int, in c07Shape) (*c07Node, c07Shape) {
	var src *c07Node
	var ssh c07Shape
	switch g.r.Intn(6) {
	case 0:
		src, ssh = c07Leaf("identity", "."), in
	case 1:
		src, ssh = g.typed(d-1, in, c07Arr)
	case 2:
		src, ssh = g.typed(d-1, in, c07Obj)
	case 3:
		src, ssh = g.stream(d, in)
	default:
		src, ssh = g.expr(d-1, in)
	}
	var pat string
	var vars []c07Var
	kind := "bind"
	if g.ch(1, 3) {
		n := "$" + g.fresh("v")
		if g.ch(1, 6) {
			n = "$" + g.ps([]string{"in", "x", "ENV2", "__prog_name", "v1", "opts"})
		}
		pat, vars = n, []c07Var{{n, ssh}}
	} else {
		kind = "destructure"
		pat, vars = g.pattern(ssh, 2)
		if g.ch(1, 3) {
			kind = "destructure-alt"
			alts := 1 + g.r.Intn(2)
			for i := 0; i < alts; i++ {
				p2, v2 := g.pattern(ssh, 1)
				pat += " ?// " + p2
				// variables of every alternative are visible in the body (null when not bound)
				for i := range v2 {
					v2[i].sh = c07S(c07Any)
				}
				vars = append(vars, v2...)
			}
			for i := range vars {
				vars[i].sh = c07S(c07Any)
			}
		}
	}
	vars = c07Dedupe(vars)
	for _, v := range vars {
		g.pushVar(v.name, v.sh)
	}
	var body *c07Node
	var bsh c07Shape
	if kind == "destructure-alt" && g.ch(1, 3) {
		// an error in the body makes ?// try the next alternative
		v := vars[g.r.Intn(len(vars))].name
		body, bsh = c07Leaf("template", "if ("+v+" | type) == \""+g.ps([]string{"array", "object", "number", "null", "string"})+"\" then error(\"next\") else ["+v+"] end"), c07S(c07Arr)
	} else if g.ch(1, 4) {
		parts := []any{"["}
		for i, v := range vars {
			if i > 0 {
				parts = append(parts, ", ")
			}
			parts = append(parts, v.name)
		}
		parts = append(parts, "]")
		body, bsh = c07N("array", true, parts...), c07S(c07Arr)
	} else {
		body, bsh = g.expr(d-1, in)
	}
	g.popVars(len(vars))
	return c07N(kind, false, c07P(src), " as "+pat+" | ", c07P(body)), bsh
}

func (g *c07Gen) funcdef(d int, in c07Shape) (*c07Node, c07Shape) {
	name := g.ps(c07PlainNames)
	if g.ch(3, 5) {
		name = g.ps(c07CollideNames)
	}
	nv := len(g.vars)
	_ = nv
	switch g.r.Intn(10) {
	case 0, 1, 2:
		// def NAME: BODY; REST   (REST may call NAME)
		body, _ := g.expr(d-1, c07S(c07Any))
		body = g.safeDefBody(name, body)
		g.funs = append(g.funs, name)
		rest, rsh := g.expr(d-1, in)
		g.funs = g.funs[:len(g.funs)-1]
		if g.ch(1, 2) {
			rest = c07N("pipe", false, c07P(rest), " | ", c07Leaf("localcall", name))
			rsh = c07S(c07Any)
		}
		return c07N("def0", false, "def "+name+": ", body, "; ", rest), rsh
	case 3:
		// closure parameter
		arg, _ := g.expr(d-1, in)
		if name == "first" || name == "reduce" {
			name = "f"
		}
		tmpl := g.ps([]string{"f | f", "[f, f]", ". as $x | f | [$x, .]", "[.[]? | f]", "if f then 1 else 2 end", "def inner: f; inner", "reduce f as $i (0; . + 1)", "first(f)", "try f catch \"c\"", "f as $a | f as $b | [$a, $b]"})
		return c07N("def1", false, "def "+name+"(f): "+tmpl+"; "+name+"(", arg, ")"), c07S(c07Any)
	case 4:
		a, _ := g.expr(d-1, in)
		b, _ := g.expr(d-1, in)
		tmpl := g.ps([]string{"[$a, $b, .]", "$a + $b", "{a: $a, b: $b}", "if $a == $b then . else [$a, $b] end", "[a, b, $a]"})
		return c07N("def2", false, "def "+name+"($a; $b): "+tmpl+"; "+name+"(", a, "; ", b, ")"), c07S(c07Any)
	case 5:
		// recursion on a decreasing counter
		tmpl := g.ps([]string{
			"def NAME: if . <= 0 then 0 else . + (. - 1 | NAME) end; " + strconv.Itoa(g.r.Intn(6)) + " | NAME",
			"def NAME: if . <= 1 then 1 else . * (. - 1 | NAME) end; " + strconv.Itoa(g.r.Intn(25)) + " | NAME",
			"def NAME($n): if $n <= 0 then [] else [$n] + NAME($n - 1) end; NAME(" + strconv.Itoa(g.r.Intn(5)) + ")",
			"def NAME: if type == \"array\" then map(NAME) | add elif type == \"object\" then [.[] | NAME] | add elif type == \"number\" then . else 0 end; NAME",
			"def NAME: if type == \"array\" or type == \"object\" then 1 + ([.[] | NAME] | max // 0) else 0 end; NAME",
			"def NAME(f): if . >= 3 then . else (. + 1 | f | NAME(f)) end; 0 | NAME(.)",
		})
		if regexp.MustCompile(`\b` + regexp.QuoteMeta(name) + `\b`).MatchString(strings.ReplaceAll(tmpl, "NAME", "")) {
			name = "f"
		}
		return c07Leaf("def-recursive", "("+strings.ReplaceAll(tmpl, "NAME", name)+")"), c07S(c07Any)
	case 6:
		body, _ := g.expr(d-1, in)
		body = g.safeDefBody(name, body)
		k := strconv.Itoa(g.r.Intn(3))
		return c07N("def-recursive", false, "def "+name+"($n): if $n <= 0 then . else (", body, " | "+name+"($n - 1)) end; "+name+"("+k+")"), c07S(c07Any)
	case 7:
		// closure over a variable and over an outer definition
		v := "$" + g.fresh("c")
		g.pushVar(v, in)
		body, _ := g.expr(d-1, c07S(c07Any))
		g.popVars(1)
		other := g.ps(c07CollideNames)
		body = g.safeDefBody(name, g.safeDefBody(other, body))
		return c07N("def-closure", false, ". as "+v+" | def "+other+": "+v+"; def "+name+": ", body, "; [", c07Leaf("localcall", name), ", ", c07Leaf("localcall", other), "]"), c07S(c07Arr)
	case 8:
		// shadowing: later definition wins; arities are separate
		a, _ := g.literal(c07Any)
		b, _ := g.literal(c07Any)
		return c07N("def-shadow", false, "def "+name+": ", a, "; def "+name+"(x): [x]; def "+name+": ", b, "; ["+name+", "+name+"("+name+")]"), c07S(c07Arr)
	default:
		// a local definition with the name of a helper that fq's own overrides use must not leak into them
		helper := g.ps([]string{"_re_quote_meta", "splits($v)", "_orig_split($v)", "_binary_or_orig(a; b)", "_bytes_or_orig(a; b)", "_exttype", "_orig_explode", "tojson", "_to_json($o)", "_orig_splits($v)",
			"_orig_test($v)", "_orig_match($v)", "match($a; $b)", "_match_binary($a; $b)", "tobytesrange", "decode($f)", "printerrln", "_stderr", "tostring", "split($a; $b)", "_input_filename", "from_entries", "to_entries", "map(f)", "_capture", "_match($a; $b; $c)"})
		rest, rsh := g.callOver(d-1, in)
		return c07N("def-helper-collision", false, "def "+helper+": \"LOCAL\"; ", rest), rsh
	}
}

func (g *c07Gen) update(d int, in c07Shape) (*c07Node, c07Shape) {
	mk := func(fn string, parts ...any) *c07Node {
		n := c07N("call", true, parts...)
		n.fn = fn
		n.atomic = c07TopLevelAtomic(n.String())
		return n
	}
	switch k := g.r.Intn(24); {
	case k < 4:
		rhs, _ := g.expr(d-1, in)
		return c07N("assign", false, c07P(g.lhs(d, in)), " = ", c07P(rhs)), c07S(in.t)
	case k < 8:
		rhs, _ := g.expr(d-1, c07S(c07Any))
		return c07N("update", false, c07P(g.lhs(d, in)), " |= ", c07P(rhs)), c07S(in.t)
	case k < 11:
		op := g.ps([]string{"+=", "-=", "*=", "/=", "%=", "//="})
		var rhs *c07Node
		if g.ch(1, 2) {
			rhs = c07Leaf("literal", g.ps([]string{"1", "2", `"s"`, "[1]", "{\"z\":1}", "null", "0", "0.5", "10000000000000000000000"}))
		} else {
			rhs, _ = g.expr(d-1, in)
		}
		return c07N("update-arith", false, c07P(g.lhs(d, in)), " "+op+" ", c07P(rhs)), c07S(in.t)
	case k < 13:
		return mk("del/1", "del(", g.lhs(d, in), ")"), c07S(in.t)
	case k < 14:
		return mk("delpaths/1", "delpaths([", g.pathArr(in), ", ", g.pathArr(in), "])"), c07S(in.t)
	case k < 16:
		v, _ := g.expr(d-1, in)
		return mk("setpath/2", "setpath(", g.pathArr(in), "; ", v, ")"), c07S(in.t)
	case k < 17:
		return mk("pick/1", "pick(", g.lhs(0, in), ")"), c07S(in.t)
	case k < 19:
		return mk("path/1", "[path(", g.lhs(d, in), ")]"), c07S(c07Arr)
	case k < 20:
		return mk("tostream/0", g.ps([]string{"[tostream]", "fromstream(tostream)", "[tostream] | fromstream(.[])", "[1 | truncate_stream([[0],1],[[1,0],2],[[1,0]],[[1]])]",
			". as $d | [1 | truncate_stream($d | tostream)]", "[tostream | select(length == 2) | .[0] |= map(tostring)]", "fromstream(([[0],1],[[1],2],[[1]]))", "[.[]? | tostream]"})), c07S(c07Any)
	case k < 21:
		return mk("getpath/1", "[paths] | map(tojson)"), c07S(c07Arr)
	case k < 22:
		return mk("getpath/1", ". as $d | [paths | . as $p | $d | getpath($p)]"), c07S(c07Arr)
	case k < 23:
		return mk("setpath/2", "reduce path(..) as $p (.; setpath($p; getpath($p) | "+g.ps([]string{"type", "tojson", "length?", "."})+"))"), c07S(c07Any)
	default:
		f, _ := g.expr(d-1, c07S(c07Any))
		return mk("to_entries/0", "to_entries | map(", f, ")"), c07S(c07Arr)
	}
}

// c07TopLevelAtomic: no pipe/comma/as/def outside brackets and strings (template text used as an operand)
func c07TopLevelAtomic(s string) bool {
	if strings.HasPrefix(s, "def ") || strings.HasPrefix(s, "-") {
		return false
	}
	depth := 0
	inStr := false
	for i := 0; i < len(s); i++ {
		c := s[i]
		if inStr {
			if c == '\\' {
				i++
			} else if c == '"' {
				inStr = false
			}
			continue
		}
		switch c {
		case '"':
			inStr = true
		case '(', '[', '{':
			depth++
		case ')', ']', '}':
			depth--
		case '|', ',', ';':
			if depth == 0 {
				return false
			}
		case ' ':
			if depth == 0 && (strings.HasPrefix(s[i:], " as ") || strings.HasPrefix(s[i:], " and ") || strings.HasPrefix(s[i:], " or ")) {
				return false
			}
		}
	}
	return true
}

// safeDefBody: a local definition is in scope in its own body, so a body that mentions the name it is bound
// to (or reaches it implicitly: string interpolation and @text call tostring, @json calls tojson, `..` calls
// recurse) would recurse without bound. Such bodies are replaced by a literal.
func (g *c07Gen) safeDefBody(name string, body *c07Node) *c07Node {
	txt := body.String()
	bad := regexp.MustCompile(`\b` + regexp.QuoteMeta(name) + `\b`).MatchString(txt)
	switch name {
	case "tostring":
		bad = bad || strings.Contains(txt, `\(`) || strings.Contains(txt, "@text")
	case "tojson":
		bad = bad || strings.Contains(txt, "@json")
	case "recurse":
		bad = bad || strings.Contains(txt, "..")
	}
	if bad {
		n, _ := g.literal(c07Any)
		return n
	}
	return body
}

// fromjsonChain: standard operations applied to what fromjson returns (in fq that is not a plain value but a
// value of its JSON decoder, which has to behave like one)
func (g *c07Gen) fromjsonChain(d int, in c07Shape) (*c07Node, c07Shape) {
	var src *c07Node
	sh := c07S(c07Any)
	switch g.r.Intn(5) {
	case 0, 1:
		txt := g.ps(c07JSONTextPool)
		if g.ch(2, 3) {
			txt = g.ps([]string{"null", "true", "false", "1", "1.5", "-0", "10000000000000000000000", "\"a,b c\"", "\"\"", "[]", "{}", "[3,1,2]", "[1,[2,[3]]]", "[null,false,\"a\",1.5]",
				"{\"a\":1}", "{\"b\":1,\"a\":{\"c\":[1,2]}}", "[{\"a\":1,\"b\":2},{\"a\":0}]", "{\"key\":\"k\",\"value\":null}", "\"\\u00e9\\ud83d\\ude00\"", "[\"b\",\"a\"]", "[[1,2],[3,4]]", "1e308", "9007199254740993"})
		}
		if v, err := c07DecodeJSON(txt); err == nil {
			sh = c07ShapeOf(c07Normalize(v))
		}
		src = g.lit(c07Quote(txt))
	case 2, 3:
		// round trip of the input itself: the example value is known
		src = c07N("call", true, "tojson")
		src.fn = "tojson/0"
		sh = in
	default:
		a, sa := g.expr(d-1, in)
		src = c07N("pipe", false, c07P(a), " | ", c07Call0("tojson"))
		sh = c07S(sa.t)
	}
	fj := c07N("call", true, "fromjson")
	fj.fn = "fromjson/0"
	var op *c07Node
	var osh c07Shape
	switch g.r.Intn(6) {
	case 0:
		op, osh = g.path(d-1, sh, nil)
	case 1:
		op, osh = g.callAny(d-1, sh)
	case 2:
		op, osh = g.update(d-1, sh)
	default:
		op, osh = g.expr(d-1, sh)
	}
	return c07N("fromjson-chain", false, c07P(src), " | ", fj, " | ", c07P(op)), osh
}
