package main

// C13 — every function fq adds is total over jq values.
// The functions are enumerated at run time (`scope - builtins`, public names, all arities); each is
// evaluated as `try (IN | limit(3; F(ARGS)) | "ok") catch "caught"` with IN/ARGS from a boundary pool,
// batched per Eval, in isolated worker processes. Event: a Go panic reaching the harness boundary or the
// death of the worker through a Go fatal error. Results, empty and caught errors are all fine.

import (
	"fmt"
	"os"
	"regexp"
	"sort"
	"strings"
	"sync"

	"github.com/wader/gojq"

	"verif/ev"
	"verif/fqx"
	"verif/gen"
)

func init() { register("C13", c13Main) }

// the boundary pool: jq expressions (evaluated once per batch into $pool)
var c13PoolExprs = []string{
	`null`, `true`, `false`, `0`, `-1`, `1`, `2`, `7`, `8`, `64`, `255`, `256`, `65536`,
	`2147483648`, `9007199254740992`, `9223372036854775807`, `9223372036854775808`, `18446744073709551616`, `-9223372036854775808`, `-9223372036854775809`,
	`100000000000000000000000000000000000000`,
	`1e308`, `-1e308`, `5e-324`, `nan`, `infinite`, `-infinite`, `0.5`, `-0.5`, `1e18`,
	`""`, `"a"`, `"abc"`, `"0"`, `"-1"`, `"1e999"`, `"\u0000"`, `"日本😀"`, `"%"`, `"[("`, `"probe"`, `"mp3"`, `"nope"`, `("ab" * 32768)`,
	`("ff80fe" | from_hex)`, `("ff80fe" | from_hex | tobits | .[1:14])`, `("a" | tobits | .[0:1])`, `("" | tobytes)`, `("abcd" | tobytes)`,
	`[]`, `[[]]`, `[0,256]`, `[null]`, `[1,2,3]`, `["a","b"]`, `[[0,1],[2]]`, `[-1]`, `[1e308]`, `[{}]`,
	`{}`, `{"a":1}`, `{"a":{"b":[1,"x",null]}}`, `{"":null}`, `{"":"a"}`, `{"a":{"b":1}}`,
	// query-AST shaped objects with the value for their type missing (functions that take an AST: a nil member
	// deep inside the parsed structure)
	`{"term":{"type":"TermTypeFunc"}}`, `{"term":{"type":"TermTypeObject"}}`, `{"term":{"type":"TermTypeIf"}}`, `{"term":{"type":"TermTypeReduce"}}`, `{"op":"+"}`, `{"func_defs":[{}]}`,
	`$dv`, `$dv.headers`, `$dv.frames[0].header.bitrate`, `$dv.frames[0].audio_data`, `$dv.frames[0].header`, `first($dv | .. | select(type=="boolean"))`,
}

// option objects with missing, mistyped, negative, zero and huge members
var c13OptExprs = []string{
	`{indent:-1}`, `{indent:-3}`, `{indent:0}`, `{indent:1048576}`, `{indent:1e18}`, `{indent:"x"}`, `{indent:1.5}`, `{indent:null}`,
	`{comma:""}`, `{comma:"ab"}`, `{comma:1}`, `{comment:""}`, `{comment:"##"}`,
	`{bits_format:"x"}`, `{bits_format:1}`, `{bits_format:"md5"}`,
	`{line_bytes:-5}`, `{line_bytes:0}`, `{line_bytes:100000}`, `{display_bytes:-1}`, `{display_bytes:1e18}`,
	`{unit:0}`, `{unit:-1}`, `{depth:-1}`, `{depth:1e18}`, `{array_truncate:-1}`, `{string_truncate:-1}`, `{width:-1}`, `{width:0}`,
	`{addrbase:1}`, `{addrbase:0}`, `{addrbase:-2}`, `{addrbase:99}`, `{sizebase:0}`, `{sizebase:1}`, `{sizebase:37}`,
	`{force:"x"}`, `{seq:1}`, `{array:"x"}`, `{attribute_prefix:""}`, `{skip_gaps:1}`, `{encoding:"nope"}`, `{encoding:1}`, `{multi_document:"x"}`,
	`{bits_format:"snippet", sizebase:1}`, `{bits_format:"snippet", sizebase:37}`, `{bits_format:"snippet", sizebase:-1, addrbase:99}`, `{bits_format:"truncate", sizebase:0, line_bytes:-1}`,
	`{bits_format:"md5", display_bytes:-1, depth:-1}`, `{bits_format:"base64", addrbase:1, width:-1}`, `{bits_format:"byte_array", array_truncate:-1, string_truncate:-1}`,
	`{color:true, byte_colors:[{ranges:[[0,256]], value:"red"}]}`, `{color:true, byte_colors:[{ranges:[[-1,5]], value:"red"}]}`,
	`{color:true, colors: {}}`, `{colors: 1}`, `{byte_colors: [{ranges:[[5,1]], value:"x"}]}`, `{byte_colors: 1}`, `{unicode:"x"}`, `{verbose:1}`,
	`{keep_range:1, unit:3, pad_to_units:-1}`, `{unit:0, keep_range:false, pad_to_units:0}`, `{unit:8, keep_range:true, pad_to_units:-5}`, `{unit:-8, keep_range:false, pad_to_units:1e18}`, `{flags:"x"}`, `{max_array_size:-1}`,
}

var c13Excluded = map[string]string{
	"repl": "starts an interactive REPL", "slurp": "REPL variable binding by design", "help": "interactive help", "paste": "reads stdin until EOF",
	"input": "consumes inputs", "inputs": "consumes inputs", "open": "opens files (C01/C05)", "halt": "terminates by design", "halt_error": "terminates by design",
	"_global_state": "replaces the interpreter-global state (option stack) by design", "_readline": "interactive", "_registry": "huge constant output",
	"debug": "standard jq (not added by fq)", "stderr": "standard jq", "input_filename": "standard jq",
}

var c13NameRe = regexp.MustCompile(`^([a-zA-Z_][a-zA-Z0-9_]*)/(\d+)$`)

type c13Fn struct {
	Name  string
	Arity int
}

func (f c13Fn) String() string { return fmt.Sprintf("%s/%d", f.Name, f.Arity) }

func c13Functions(s *fqx.Session) ([]c13Fn, []string, error) {
	// everything in scope (jq definitions and Go registrations) minus what VANILLA gojq provides
	// (fq's own `builtins` also lists the Go functions fq registers, so it cannot be used to subtract)
	outs, err := s.Eval(nil, `scope`)
	if err != nil || len(outs) != 1 {
		return nil, nil, fmt.Errorf("scope: %v", err)
	}
	vanilla := map[string]bool{}
	q, err := gojq.Parse("builtins")
	if err != nil {
		return nil, nil, err
	}
	it := q.Run(nil)
	if v, ok := it.Next(); ok {
		if a, ok := v.([]any); ok {
			for _, x := range a {
				vanilla[fmt.Sprint(x)] = true
			}
		}
	}
	if len(vanilla) < 100 {
		return nil, nil, fmt.Errorf("vanilla builtins: only %d", len(vanilla))
	}
	// Go registrations (the property quantifies over ALL functions fq registers in Go, also the
	// underscore-prefixed ones; jq-defined functions only when public)
	goRegistered := map[string]bool{}
	for _, fn := range fqx.Registry().EnvFuncFns {
		f := fn(s.I)
		goRegistered[f.Name] = true
	}
	var fns []c13Fn
	var skipped []string
	seen := map[string]bool{}
	for _, x := range outs[0].([]any) {
		n, _ := x.(string)
		if vanilla[n] || seen[n] {
			continue
		}
		seen[n] = true
		m := c13NameRe.FindStringSubmatch(n)
		if m == nil {
			continue
		}
		if strings.HasPrefix(n, "_") && !goRegistered[m[1]] {
			continue
		}
		if why, ok := c13Excluded[m[1]]; ok {
			skipped = append(skipped, n+" ("+why+")")
			continue
		}
		var a int
		fmt.Sscan(m[2], &a)
		fns = append(fns, c13Fn{m[1], a})
	}
	sort.Slice(fns, func(i, j int) bool { return fns[i].String() < fns[j].String() })
	return fns, skipped, nil
}

type c13Sub struct {
	Fn   c13Fn
	In   int   // index into pool
	Args []int // indices into pool (>= len(c13PoolExprs) means option pool)
}

func c13PoolAll() []string { return append(append([]string{}, c13PoolExprs...), c13OptExprs...) }

func (c c13Sub) Expr() string {
	call := c.Fn.Name
	if len(c.Args) > 0 {
		var as []string
		for _, a := range c.Args {
			as = append(as, fmt.Sprintf("$pool[%d]", a))
		}
		call += "(" + strings.Join(as, "; ") + ")"
	}
	return fmt.Sprintf(`(try ($pool[%d] | [limit(3; %s)] | "ok") catch "caught")`, c.In, call)
}

func (c c13Sub) Readable() string {
	pool := c13PoolAll()
	call := c.Fn.Name
	if len(c.Args) > 0 {
		var as []string
		for _, a := range c.Args {
			as = append(as, pool[a])
		}
		call += "(" + strings.Join(as, "; ") + ")"
	}
	return fmt.Sprintf("%s | %s", pool[c.In], call)
}

// c13Cases: the deterministic sub-case list of one function
func c13Cases(run *ev.Run, f c13Fn) []c13Sub {
	nIn := len(c13PoolExprs)
	nAll := nIn + len(c13OptExprs)
	rng := gen.New(run.Seed).Fork(0xC13000 + uint64(len(f.Name))*131 + uint64(f.Arity))
	for _, ch := range f.Name {
		rng = rng.Fork(uint64(ch))
	}
	var out []c13Sub
	switch f.Arity {
	case 0:
		for i := 0; i < nIn; i++ {
			out = append(out, c13Sub{Fn: f, In: i})
		}
	case 1:
		if run.Thorough() {
			for i := 0; i < nIn; i++ {
				for a := 0; a < nAll; a++ {
					out = append(out, c13Sub{Fn: f, In: i, Args: []int{a}})
				}
			}
		} else {
			// every arg value with 3 PRNG inputs (option objects: with every container input, so that the
			// option is actually reached by serialisers/displayers), every input with 2 PRNG args
			for a := 0; a < nAll; a++ {
				if a >= nIn {
					for i, e := range c13PoolExprs {
						if strings.HasPrefix(e, "[") || strings.HasPrefix(e, "{") || strings.HasPrefix(e, "$dv") || strings.HasPrefix(e, "(\"") {
							out = append(out, c13Sub{Fn: f, In: i, Args: []int{a}})
						}
					}
					continue
				}
				for r := 0; r < 3; r++ {
					out = append(out, c13Sub{Fn: f, In: rng.Intn(nIn), Args: []int{a}})
				}
			}
			for i := 0; i < nIn; i++ {
				for r := 0; r < 2; r++ {
					out = append(out, c13Sub{Fn: f, In: i, Args: []int{rng.Intn(nAll)}})
				}
			}
		}
	default:
		n := run.Pick(600, 20000)
		for r := 0; r < n; r++ {
			c := c13Sub{Fn: f, In: rng.Intn(nIn)}
			for a := 0; a < f.Arity; a++ {
				c.Args = append(c.Args, rng.Intn(nAll))
			}
			out = append(out, c)
		}
		// the cases named by the property
		if f.Name == "bsl" || f.Name == "bsr" {
			one, neg := indexOf(c13PoolExprs, "1"), indexOf(c13PoolExprs, "-1")
			out = append(out, c13Sub{Fn: f, In: 0, Args: []int{one, neg}})
		}
	}
	return out
}

func indexOf(xs []string, s string) int {
	for i, x := range xs {
		if x == s {
			return i
		}
	}
	return 0
}

var (
	c13SessOnce sync.Once
	c13Sess     *fqx.Session
)

func c13Session(fresh bool) *fqx.Session {
	if fresh || c13Sess == nil {
		if c13Sess != nil {
			c13Sess.Close()
		}
		c13Sess = fqx.NewSession()
		b, err := os.ReadFile("/repo/pkg/interp/testdata/test.mp3")
		if err != nil {
			panic(err)
		}
		c13Sess.OS.Files["tiny.mp3"] = b
	}
	return c13Sess
}

func c13Prelude() string {
	return `("tiny.mp3" | open | decode("mp3")) as $dv | [` + strings.Join(c13PoolAll(), ", ") + `] as $pool | `
}

// c13RunBatch evaluates subs in one Eval; on a panic it re-runs them one by one to isolate the case.
func c13RunBatch(run *ev.Run, subs []c13Sub) {
	s := c13Session(false)
	s.OS.StdoutV.Buf.Reset()
	s.OS.StderrV.Buf.Reset()
	var exprs []string
	for _, c := range subs {
		exprs = append(exprs, c.Expr())
	}
	var outs []any
	var err error
	pi := guardStack(func() { outs, err = s.Eval(nil, c13Prelude()+"["+strings.Join(exprs, ", ")+"]") })
	if pi == nil && err == nil && len(outs) == 1 {
		res, _ := outs[0].([]any)
		for i, r := range res {
			if i < len(subs) {
				run.Eval(1)
				if r == "ok" {
					run.Count("outcome:results", 1)
				} else {
					run.Count("outcome:caught-error", 1)
				}
			}
		}
		return
	}
	if pi == nil && err != nil && len(subs) > 1 {
		// an error escaped a try (e.g. a compile error for an arity that does not exist): isolate
		run.Count("batch:error-escaped-try", 1)
	}
	if len(subs) == 1 {
		c := subs[0]
		run.Eval(1)
		if pi != nil {
			run.Violation("panic:"+c.Fn.String()+":"+panicSig(pi), fmt.Sprintf("%s  panicked: %v\n%s", c.Readable(), pi.Value, trunc(pi.Stack, 2500)), map[string]any{"expr": c.Readable()})
			c13Session(true)
			return
		}
		// a non-catchable error (halt, compile error): not a runtime fault; count it
		run.Count("outcome:uncatchable-error", 1)
		run.Count("uncatchable:"+c.Fn.String(), 1)
		return
	}
	if pi != nil {
		c13Session(true)
	}
	// split
	mid := len(subs) / 2
	c13RunBatch(run, subs[:mid])
	c13RunBatch(run, subs[mid:])
}

func c13Main(args []string) {
	run := ev.NewRun("C13")
	run.Rule = fmt.Sprintf("functions enumerated at run time from `scope - builtins` (public names, all arities, %d excluded by name because they block or terminate by design); input and argument values from a pool of %d boundary values + %d hostile option objects; arity 0: every pool value as input; arity 1: quick = every argument value x 3 PRNG inputs + every input x 2 PRNG arguments, thorough = full product; arity >=2: PRNG tuples. Each case is `try (IN | [limit(3; F(ARGS))] | \"ok\") catch \"caught\"`. Event = Go panic or worker death by a Go fatal error. non-trivial = every case (a function applied to a boundary value); distinct = (function/arity, input index, argument indices)", len(c13Excluded), len(c13PoolExprs), len(c13OptExprs))
	run.Assumptions = []string{"watchdog/out-of-memory kills are inconclusive and listed per function", "outputs are limited to 3 per case (limit/2)"}
	s := c13Session(false)
	fns, skipped, err := c13Functions(s)
	if err != nil || len(fns) < 100 {
		fmt.Println("cannot enumerate functions:", err, len(fns))
		run.Finish()
	}
	// the job list: batches of <= 150 sub-cases of one function
	type job struct {
		fn     c13Fn
		lo, hi int
	}
	var jobs []job
	cases := map[string][]c13Sub{}
	total := 0
	only := os.Getenv("C13_ONLY")
	for _, f := range fns {
		if only != "" && !strings.Contains(","+only+",", ","+f.Name+",") {
			continue
		}
		cs := c13Cases(run, f)
		cases[f.String()] = cs
		total += len(cs)
		for lo := 0; lo < len(cs); lo += 60 {
			jobs = append(jobs, job{f, lo, min(lo+60, len(cs))})
		}
	}
	if !run.IsWorker() {
		// the prelude (decode value + pool) must itself evaluate, otherwise every case would fail vacuously
		if outs, err := s.Eval(nil, c13Prelude()+"$pool | length"); err != nil || len(outs) != 1 || outs[0] != len(c13PoolAll()) {
			fmt.Printf("BROKEN property=C13: prelude does not evaluate: %v %v\n", outs, err)
			os.Exit(3)
		}
		run.Require("outcome:results", int64(total/20))
		run.Require("outcome:caught-error", int64(total/20))
		run.Count("functions:enumerated", int64(len(fns)))
		run.Count("functions:excluded-by-name", int64(len(skipped)))
		run.Count("cases:planned", int64(total))
		run.Extra["excluded"] = skipped
		for _, f := range fns {
			run.Count(fmt.Sprintf("functions:arity%d", f.Arity), 1)
		}
	}
	isoRun(run, isoSpec{
		NJobs:       len(jobs),
		WatchdogSec: 30,
		MaxRSS:      2 << 30,
		Do: func(run *ev.Run, k int) {
			j := jobs[k]
			cs := cases[j.fn.String()][j.lo:j.hi]
			c13RunBatch(run, cs)
			for _, c := range cs {
				run.Distinct(fmt.Sprintf("%s|%d|%v", c.Fn, c.In, c.Args))
			}
			run.Count("functions-batches:"+fmt.Sprint(j.fn.Arity), 1)
		},
		OnDeath: func(run *ev.Run, k int, kind string, tail string) {
			j := jobs[k]
			switch {
			case kind == "oom" || kind == "watchdog" || kind == "killed":
				run.Inconclusive(kind + ":" + j.fn.String())
			default:
				run.Violation("fatal:"+j.fn.String()+":"+kind, fmt.Sprintf("evaluating %s (cases %d..%d) killed the process: %s\n%s", j.fn, j.lo, j.hi, kind, tail), map[string]any{"function": j.fn.String()})
			}
		},
	})
	run.Sample(map[string]any{"example": c13Sub{Fn: c13Fn{"bsl", 2}, In: 0, Args: []int{5, 4}}.Readable(), "program_form": c13Sub{Fn: c13Fn{"to_toml", 1}, In: 60, Args: []int{len(c13PoolExprs)}}.Expr()})
	run.Finish()
}
