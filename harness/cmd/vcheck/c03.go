package main

// C03 — every decode tree is structurally sound (ranges, order, names, links).
// Invariant walker at the API boundary over corpus decodes, forced decodes and a PRNG slice of the
// truncation/corruption family (partial trees), plus generated decoder programs run against a
// reference interpreter (c03_gendec.go).

import (
	"strings"

	"verif/ev"
)

func init() { register("C03", c03Main) }

func c03Main(args []string) {
	run := ev.NewRun("C03")
	run.Rule = "walker invariants I1..I6 (range inside buffer, children inside parent, unique names + ByName, struct order by start, array indices, parent links) on every *decode.Value returned by decode.Decode for corpus x {own formats, probe} x force and a PRNG slice of the mutation family; plus generated decoder programs (public decode API combinators) whose expected tree comes from a reference interpreter. non-trivial = tree with a compound below the root and one of {nested root, error, unaligned leaf}; distinct = (file, format, mutation kind) or program shape"
	run.Assumptions = []string{
		"a nested buffer root's Range.Start is its position in the parent buffer and its Len its own length (InnerRange = 0:Len), as decode.go documents",
		"synthetic values and nested roots are exempt from the children-inside-parent rule (postProcess skips them)",
	}
	if !run.IsWorker() {
		c03Gendec(run)
	}
	jobs := treeJobs(run.Seed, run.Thorough(), run.Pick(6000, 1000000))
	forEachTree(run, jobs, func(j treeJob, res decodeResult) {
		if res.V == nil || res.Panic != nil {
			return
		}
		var st treeStats
		issues := checkTree(res.V, &st)
		run.Count("walk:values", int64(st.Values))
		run.Count("walk:compounds", int64(st.Compounds))
		run.Count("walk:nested-roots", int64(st.NestedRoots))
		run.Count("walk:values-with-error", int64(st.Errors))
		run.Count("walk:unaligned-values", int64(st.Unaligned))
		run.Count("walk:gap-fields", int64(st.Gaps))
		run.Count("walk:synthetic", int64(st.Synthetic))
		run.Count("walk:values-with-range-view-reader (content compared with buffer root)", int64(st.ViewReaders))
		for _, is := range issues {
			run.Violation(is.Sig, j.Label+": "+is.Desc, map[string]any{"case": j.Label})
		}
		if st.Compounds > 1 && (st.NestedRoots > 0 || st.Errors > 0 || st.Unaligned > 0) {
			parts := strings.Split(j.Label, "|")
			key := j.Label
			if len(parts) >= 3 {
				key = parts[0] + "|" + parts[1] + "|" + strings.SplitN(parts[2], "(", 2)[0]
			}
			run.Distinct(key)
		}
	})
	run.Sample(map[string]any{"jobs": len(jobs), "first": jobs[0].Label, "last": jobs[len(jobs)-1].Label})
	run.Finish()
}
