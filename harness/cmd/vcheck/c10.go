package main

// C10 — displayed bytes, addresses, ranges and JSON numbers are true.
//
// Parse-back monitor. Part 1 runs fq's real CLI in-process with the display commands
// (d dd dv ddv hd/hexdump) under many option combinations, parses the text back into rows
// (address | hex cells | ascii cells | tree text) and compares every cell with an independent
// reading of the same buffers: the harness decodes the same input through the Go API, does its own
// pre-order walk (same depth / array truncation) and so knows for the i-th field line which value,
// which buffer root and which bit range it must show. Part 2 (c10_json.go) prints generated JSON
// values through the CLI and parses the output back with encoding/json (UseNumber).
//
// What was learnt while building it (oracle notes):
//   - the verbose range is "start-stopExclusive (len)", each as bytes[.bits], the bits part is also
//     rendered in the base (".101" for 5 bits in base 2);
//   - the "until" marker prints the INCLUSIVE last bit and the size in whole bytes (rounded up);
//   - the byte cells show whole buffer bytes (bits outside an unaligned value included), a buffer
//     that ends inside a byte is zero padded;
//   - the end-of-buffer marker is one column separator right after the last byte in the hex and the
//     ascii column, absent when the last byte sits in the last column of the line;
//   - Binary values (hd, or d/dd/dv on a binary) are always displayed verbosely;
//   - dd/ddv/hd override display_bytes given with -o, an option object argument overrides both.

import (
	"context"
	"encoding/hex"
	"fmt"
	"os"
	"path/filepath"
	"runtime"
	"sort"
	"strconv"
	"strings"
	"sync"

	"github.com/wader/fq/pkg/bitio"
	"github.com/wader/fq/pkg/decode"

	"verif/ev"
	"verif/fqx"
	"verif/gen"
	"verif/vos"
)

func init() { register("C10", c10Main) }

type c10SampleSpec struct{ format, file string }

var c10SampleSpecs = []c10SampleSpec{
	{"mp3", "mp3/testdata/header-zeros-frames.mp3"},
	{"mp3", "mp3/testdata/headerfooter.mp3"},
	{"gzip", "gzip/testdata/test.gz"},
	{"gzip", "gzip/testdata/multi_members.gz"},
	{"png", "png/testdata/4x4.png"},
	{"png", "png/testdata/4x4_palette.png"},
	{"zip", "zip/testdata/test0.zip"},
	{"zip", "zip/testdata/zip64-offset-not-ffffffff.zip"},
	{"msgpack", "msgpack/testdata/types.msgpack"},
	{"msgpack", "msgpack/testdata/arrays.msgpack"},
	{"msgpack", "msgpack/testdata/objects.msgpack"},
	{"pcap", "pcap/testdata/http_gzip.cap"},
	{"pcap", "pcap/testdata/ns.pcap"},
	{"pcap", "pcap/testdata/sll2_tcp.pcap"},
	{"pcapng", "pcap/testdata/dhcp_big_endian.pcapng"},
	{"bson", "bson/testdata/test.bson"},
	{"bzip2", "bzip2/testdata/test.bz2"},
	{"wav", "riff/testdata/end-of-file.wav"},
	{"avro_ocf", "avro/testdata/allDataTypes.avro"},
	{"asn1_ber", "asn1/testdata/letsencrypt-x3.cer"},
	{"tzif", "tzif/testdata/Andorra"},
	{"mp4", "mp4/testdata/dash_audio_1.m4s"},
	{"pcap", "dns/testdata/dns-tcp.pcap"},
}

type c10Tree struct {
	name   string // sample name (+ variant)
	format string
	file   []byte
	top    *c10Node
	starts []*c10Node // values that may be displayed on their own (top first)
	nested int        // number of nested buffer roots
}

type c10Config struct {
	cmd          string // d dd dv ddv hd
	lineBytes    int
	addrbase     int
	sizebase     int
	displayBytes int // -1 = not given
	verboseOpt   bool
	color        bool
	colorFlag    bool // -C instead of color option
	unicode      bool
	depth        int // 0 = not given
	arrayTrunc   int // -1 = not given
	viaArg       bool
	point        int // index into the configuration product
}

var c10Bases = []int{2, 8, 10, 16, 36}
var c10DisplayBytes = []int{0, 1, 7, 16, 100}

const c10Product = 64 * 5 * 5 * 5 * 2 * 2

// c10ConfigFor: the product line_bytes x addrbase x sizebase x display_bytes x verbose x colour is
// enumerated by id with a stride coprime to its size, the remaining dimensions are random.
func c10ConfigFor(id int, rng *gen.Rand, binary bool) c10Config {
	p := int((int64(id) * 7919) % c10Product)
	c := c10Config{point: p}
	c.lineBytes = 1 + p%64
	p /= 64
	c.addrbase = c10Bases[p%5]
	p /= 5
	c.sizebase = c10Bases[p%5]
	p /= 5
	c.displayBytes = c10DisplayBytes[p%5]
	p /= 5
	verbose := p%2 == 1
	p /= 2
	c.color = p%2 == 1
	c.colorFlag = rng.Bool()
	c.unicode = rng.Chance(1, 8)
	c.viaArg = rng.Bool()
	if binary {
		c.cmd = gen.Pick(rng, []string{"hd", "hexdump", "dd", "d", "dv", "ddv"})
	} else {
		if verbose {
			c.cmd = gen.Pick(rng, []string{"dv", "ddv", "d", "dd"})
			c.verboseOpt = c.cmd == "d" || c.cmd == "dd"
		} else {
			c.cmd = gen.Pick(rng, []string{"d", "dd", "d"})
		}
		if rng.Chance(1, 12) {
			c.cmd = "hd"
		}
		if rng.Chance(1, 3) {
			c.depth = rng.Range(1, 4)
		}
		switch rng.Intn(6) {
		case 0:
			c.arrayTrunc = 0
		case 1:
			c.arrayTrunc = 1
		case 2:
			c.arrayTrunc = 3
		default:
			c.arrayTrunc = -1
		}
	}
	if c.displayBytes == 16 && rng.Bool() {
		c.displayBytes = -1 // default is 16 for the 135 column virtual terminal
	}
	return c
}

// effective options as documented: defaults <- -o options <- the command's own object <- argument object
func (c c10Config) effective(binary bool) c10Opts {
	o := c10Opts{lineBytes: c.lineBytes, addrbase: c.addrbase, sizebase: c.sizebase, unicode: c.unicode,
		displayBytes: 16, arrayTruncate: 50, depth: c.depth, verbose: c.verboseOpt}
	if c.displayBytes >= 0 {
		o.displayBytes = c.displayBytes
	}
	if c.arrayTrunc >= 0 {
		o.arrayTruncate = c.arrayTrunc
	}
	if !c.viaArg || c.displayBytes < 0 {
		switch c.cmd {
		case "dd", "ddv", "hd", "hexdump":
			o.displayBytes = 0
		}
	}
	if !c.viaArg || c.arrayTrunc < 0 {
		switch c.cmd {
		case "dd", "ddv", "dv":
			o.arrayTruncate = 0
		}
	}
	switch c.cmd {
	case "dv", "ddv", "hd", "hexdump":
		o.verbose = true
	}
	if binary {
		o.verbose = true
	}
	return o
}

// cliArgs builds the option flags and the display expression.
func (c c10Config) cliArgs(color bool) (flags []string, expr string) {
	kv := [][2]string{
		{"line_bytes", strconv.Itoa(c.lineBytes)},
		{"addrbase", strconv.Itoa(c.addrbase)},
		{"sizebase", strconv.Itoa(c.sizebase)},
	}
	if c.displayBytes >= 0 {
		kv = append(kv, [2]string{"display_bytes", strconv.Itoa(c.displayBytes)})
	}
	if c.verboseOpt {
		kv = append(kv, [2]string{"verbose", "true"})
	}
	if c.depth > 0 {
		kv = append(kv, [2]string{"depth", strconv.Itoa(c.depth)})
	}
	if c.arrayTrunc >= 0 {
		kv = append(kv, [2]string{"array_truncate", strconv.Itoa(c.arrayTrunc)})
	}
	if c.unicode {
		kv = append(kv, [2]string{"unicode", "true"})
	}
	if c.colorFlag {
		if color {
			flags = append(flags, "-C")
		} else {
			flags = append(flags, "-M")
		}
	} else {
		kv = append(kv, [2]string{"color", strconv.FormatBool(color)})
	}
	if c.viaArg {
		var parts []string
		for _, e := range kv {
			parts = append(parts, e[0]+": "+e[1])
		}
		expr = c.cmd + "({" + strings.Join(parts, ", ") + "})"
	} else {
		for _, e := range kv {
			flags = append(flags, "-o", e[0]+"="+e[1])
		}
		expr = c.cmd
	}
	return flags, expr
}

func (c c10Config) key() string {
	return fmt.Sprintf("%s lb%d ab%d sb%d db%d v%v c%v u%v d%d at%d arg%v", c.cmd, c.lineBytes, c.addrbase, c.sizebase, c.displayBytes, c.verboseOpt, c.color, c.unicode, c.depth, c.arrayTrunc, c.viaArg)
}

// ---- building the trees ----

func c10Decode(format string, file []byte) (*c10Node, error) {
	var top *c10Node
	var err error
	pi := fqx.Guard(func() {
		g, gerr := fqx.Registry().Group(format)
		if gerr != nil {
			err = gerr
			return
		}
		var v *decode.Value
		v, _, err = decode.Decode(context.Background(), bitio.NewBitReader(file, -1), g, decode.Options{IsRoot: true, FillGaps: true})
		if v == nil {
			if err == nil {
				err = fmt.Errorf("no value")
			}
			return
		}
		// a value together with an error is what the CLI displays too (error lines in the tree)
		top, err = c10Snapshot(v, file)
	})
	if pi != nil {
		return nil, pi
	}
	return top, err
}

func c10BuildTrees(run *ev.Run) []*c10Tree {
	var trees []*c10Tree
	rng := gen.New(run.Seed).Fork(0xC10)
	for _, s := range c10SampleSpecs {
		b, err := os.ReadFile(filepath.Join("/repo/format", s.file))
		if err != nil {
			run.Count("sample-unreadable:"+s.file, 1)
			continue
		}
		variants := []struct {
			name string
			data []byte
		}{{filepath.Base(s.file), b}}
		// generated variants: truncated copies (gaps, errors, buffers that end early)
		for k := 0; k < 2 && len(b) > 16; k++ {
			n := 8 + rng.Intn(len(b)-8)
			variants = append(variants, struct {
				name string
				data []byte
			}{fmt.Sprintf("%s[:%d]", filepath.Base(s.file), n), b[:n]})
		}
		for vi, vr := range variants {
			top, err := c10Decode(s.format, vr.data)
			if err != nil || top == nil {
				if vi == 0 {
					run.Count("sample-undecodable:"+s.format+":"+vr.name, 1)
				} else {
					run.Count("variant-undecodable", 1)
				}
				continue
			}
			if top.nodes > 6000 {
				run.Count("sample-too-large:"+vr.name, 1)
				continue
			}
			t := &c10Tree{name: vr.name, format: s.format, file: vr.data, top: top}
			all := top.all(nil)
			t.starts = append(t.starts, top)
			var cand []*c10Node
			for _, n := range all[1:] {
				if n.path == "" {
					continue
				}
				if n.isRoot {
					t.nested++
				}
				cand = append(cand, n)
			}
			// nested roots and values inside nested buffers first, then random values
			picked := map[*c10Node]bool{}
			for _, n := range cand {
				if len(t.starts) < 6 && (n.isRoot || !n.root.top) && !picked[n] {
					picked[n] = true
					t.starts = append(t.starts, n)
				}
			}
			for k := 0; k < 8 && len(cand) > 0; k++ {
				n := cand[rng.Intn(len(cand))]
				if !picked[n] {
					picked[n] = true
					t.starts = append(t.starts, n)
				}
			}
			trees = append(trees, t)
			run.Count("trees", 1)
			run.Count("tree-start-values", int64(len(t.starts)))
			if t.nested > 0 {
				run.Count("trees-with-nested-buffers", 1)
			}
		}
	}
	return trees
}

// ---- one dump case ----

type c10Case struct {
	id     int
	cfg    c10Config
	args   []string
	input  []byte // file content, nil for -n cases
	inName string
	format string // -d FORMAT
	sel    string // jq path selecting the displayed value ("." = whole file)
	prog   string // -n cases: jq expression producing the binary
	shown  string // path text fq prints for the depth-0 value
	items  []c10Item
	opts   c10Opts
}

func (cs *c10Case) argv(flags []string, expr string) []string {
	a := append([]string{}, flags...)
	if cs.input != nil {
		a = append(a, "-d", cs.format)
		prog := expr
		if cs.sel != "." {
			prog = cs.sel + " | " + expr
		}
		return append(a, prog, "f")
	}
	return append(a, "-n", cs.prog+" | "+expr)
}

func c10RunCLI(args []string, file []byte) (res vos.Result, pi *fqx.PanicInfo) {
	pi = fqx.Guard(func() {
		o := vos.New(args...)
		if file != nil {
			o.Files["f"] = file
		}
		res = o.RunMain(context.Background(), fqx.Registry())
	})
	return res, pi
}

func c10Quote(args []string) string {
	var sb strings.Builder
	sb.WriteString("fq")
	for _, a := range args {
		sb.WriteString(" '")
		sb.WriteString(strings.ReplaceAll(a, "'", `'\''`))
		sb.WriteString("'")
	}
	return sb.String()
}

func (cs *c10Case) replay(extra map[string]any) map[string]any {
	m := map[string]any{"id": cs.id, "command": c10Quote(cs.args), "args": cs.args, "config": cs.cfg.key()}
	if cs.input != nil {
		m["input_name"] = cs.inName
		if len(cs.input) <= 4096 {
			m["input_hex"] = hex.EncodeToString(cs.input)
		}
	}
	for k, v := range extra {
		m[k] = v
	}
	return m
}

func c10DumpCase(run *ev.Run, cs *c10Case, agg *c10Agg) {
	run.Eval(1)
	res, pi := c10RunCLI(cs.args, cs.input)
	if pi != nil {
		run.Violation("panic:dump:"+c10PanicSite(pi.Value), fmt.Sprintf("%s\npanic: %v\n%s", c10Quote(cs.args), pi.Value, pi.Stack), cs.replay(nil))
		return
	}
	if res.Exit != 0 || len(res.Stderr) != 0 {
		run.Violation("cli-error:dump", fmt.Sprintf("%s\nexit=%d stderr=%q", c10Quote(cs.args), res.Exit, string(res.Stderr)), cs.replay(nil))
		return
	}
	out := string(res.Stdout)
	if cs.cfg.color {
		// the colour-off twin must be identical after removing SGR sequences
		flags, expr := cs.cfg.cliArgs(false)
		twin := cs.argv(flags, expr)
		res2, pi2 := c10RunCLI(twin, cs.input)
		if pi2 != nil || res2.Exit != 0 {
			run.Violation("cli-error:dump", fmt.Sprintf("%s\nexit=%d stderr=%q panic=%v", c10Quote(twin), res2.Exit, string(res2.Stderr), pi2), cs.replay(nil))
			return
		}
		if !strings.Contains(out, "\x1b[") {
			run.Violation("color:no-sgr", c10Quote(cs.args)+"\ncolour requested but the output has no SGR sequence", cs.replay(nil))
		}
		stripped := c10SGR.ReplaceAllString(out, "")
		agg.add("colour-pairs-compared", 1)
		if stripped != string(res2.Stdout) {
			a, b := c10FirstDiffLine(stripped, string(res2.Stdout))
			run.Violation("color-strip-differs", fmt.Sprintf("%s\ncolour on (SGR removed): %q\ncolour off:              %q", c10Quote(cs.args), a, b), cs.replay(nil))
		}
		out = stripped
	} else if strings.Contains(out, "\x1b") {
		run.Violation("color:sgr-in-monochrome", c10Quote(cs.args), cs.replay(nil))
		return
	}

	sep := '|'
	if cs.opts.unicode {
		sep = '│'
	}
	rows, w, perr := c10ParseRows(out, cs.opts.lineBytes, sep)
	if perr != "" {
		run.Violation("parse:row-shape", c10Quote(cs.args)+"\n"+perr, cs.replay(nil))
		return
	}
	v := &c10Verifier{o: cs.opts, sep: sep}
	v.verify(rows, w, cs.items, cs.shown)
	if v.amb {
		run.Inconclusive("ambiguous-error-line")
		return
	}
	for _, f := range v.fails {
		run.Violation(f.sig, c10Quote(cs.args)+"\n"+f.desc, cs.replay(map[string]any{"signature": f.sig}))
	}
	agg.merge(&v.st, cs)
}

func c10FirstDiffLine(a, b string) (string, string) {
	la, lb := strings.Split(a, "\n"), strings.Split(b, "\n")
	for i := 0; i < len(la) && i < len(lb); i++ {
		if la[i] != lb[i] {
			return la[i], lb[i]
		}
	}
	return fmt.Sprintf("<%d lines>", len(la)), fmt.Sprintf("<%d lines>", len(lb))
}

// ---- aggregation of observations ----

type c10Agg struct {
	mu      sync.Mutex
	st      c10Stats
	counts  map[string]int64
	lbSeen  map[int]bool
	abSeen  map[int]bool
	sbSeen  map[int]bool
	dbSeen  map[int]bool
	points  map[int]bool
	cmdSeen map[string]int64
}

func c10NewAgg() *c10Agg {
	return &c10Agg{counts: map[string]int64{}, lbSeen: map[int]bool{}, abSeen: map[int]bool{}, sbSeen: map[int]bool{}, dbSeen: map[int]bool{}, points: map[int]bool{}, cmdSeen: map[string]int64{}}
}

func (a *c10Agg) add(k string, n int64) {
	a.mu.Lock()
	a.counts[k] += n
	a.mu.Unlock()
}

func (a *c10Agg) merge(s *c10Stats, cs *c10Case) {
	a.mu.Lock()
	defer a.mu.Unlock()
	t := &a.st
	t.rows += s.rows
	t.dataRows += s.dataRows
	t.hexCells += s.hexCells
	t.asciiCells += s.asciiCells
	t.ranges += s.ranges
	t.headers += s.headers
	t.nestedRows += s.nestedRows
	t.truncValues += s.truncValues
	t.completeValues += s.completeValues
	t.markerCut += s.markerCut
	t.d16Rows += s.d16Rows
	t.endMarkers += s.endMarkers
	t.arrayTruncLines += s.arrayTruncLines
	t.errLines += s.errLines
	t.valuesMatched += s.valuesMatched
	t.partialLast += s.partialLast
	t.unalignedValues += s.unalignedValues
	a.lbSeen[cs.opts.lineBytes] = true
	a.abSeen[cs.opts.addrbase] = true
	a.sbSeen[cs.opts.sizebase] = true
	a.dbSeen[cs.opts.displayBytes] = true
	a.points[cs.cfg.point] = true
	a.cmdSeen[cs.cfg.cmd]++
	a.counts["dumps-parsed"]++
	if cs.cfg.color {
		a.counts["dumps-colour"]++
	}
	if cs.opts.verbose {
		a.counts["dumps-verbose"]++
	}
	if cs.opts.unicode {
		a.counts["dumps-unicode"]++
	}
	if cs.cfg.viaArg {
		a.counts["options-via-argument"]++
	} else {
		a.counts["options-via-cli"]++
	}
	if cs.cfg.depth > 0 {
		a.counts["dumps-depth-limited"]++
	}
	switch {
	case cs.input == nil:
		a.counts["dumps-of-generated-binaries"]++
	case cs.sel != ".":
		a.counts["dumps-of-sub-values"]++
		a.counts["format:"+cs.format]++
	default:
		a.counts["dumps-of-whole-files"]++
		a.counts["format:"+cs.format]++
	}
}

func c10Keys(m map[int]bool) []int {
	var ks []int
	for k := range m {
		ks = append(ks, k)
	}
	sort.Ints(ks)
	return ks
}

func (a *c10Agg) flush(run *ev.Run) {
	t := a.st
	for k, n := range map[string]int64{
		"rows-parsed": t.rows, "data-rows": t.dataRows, "hex-cells-compared": t.hexCells, "ascii-cells-compared": t.asciiCells,
		"ranges-compared": t.ranges, "headers-compared": t.headers, "nested-root-rows": t.nestedRows,
		"truncated-values": t.truncValues, "complete-values": t.completeValues, "until-markers-cut-by-column": t.markerCut,
		"nested-rows-with-cut-address": t.d16Rows, "end-of-buffer-markers": t.endMarkers, "array-truncate-lines": t.arrayTruncLines,
		"error-lines": t.errLines, "values-matched-to-lines": t.valuesMatched, "cells-in-zero-padded-last-byte": t.partialLast,
		"unaligned-values-with-bytes": t.unalignedValues,
	} {
		run.Count(k, n)
	}
	for k, n := range a.counts {
		run.Count(k, n)
	}
	for k, n := range a.cmdSeen {
		run.Count("cmd:"+k, n)
	}
	run.Count("line_bytes-values-seen", int64(len(a.lbSeen)))
	run.Count("config-product-points-seen", int64(len(a.points)))
	run.Extra["line_bytes_seen"] = c10Keys(a.lbSeen)
	run.Extra["addrbase_seen"] = c10Keys(a.abSeen)
	run.Extra["sizebase_seen"] = c10Keys(a.sbSeen)
	run.Extra["display_bytes_effective_seen"] = c10Keys(a.dbSeen)
	run.Extra["config_product_size"] = c10Product
}

// ---- main ----

func c10Main(args []string) {
	run := ev.NewRun("C10")
	run.Rule = "dump cases: id enumerates the product line_bytes(1..64) x addrbase x sizebase{2,8,10,16,36} x display_bytes{0,1,7,16,100} x verbose x colour " +
		"with a coprime stride (thorough: 96000 dumps = every point of the 32000 three times, each time on another tree / sub-value / binary); command (d dd dv ddv hd), depth, " +
		"array_truncate, unicode and option passing (-o vs argument object) are random. 70% display a decoded sample tree (real files of /repo/format/*/testdata and truncated copies; " +
		"the whole tree or a sub-value incl. nested buffer roots), 30% a generated binary slice (every start alignment 0..7 x bit length 0..40 first, then random long ones, sizes around powers of the bases). " +
		"A dump is distinct by (input, start value, configuration). JSON cases: generated values (big integers, extreme floats, control/astral strings, deep nesting) printed by " +
		"default display, -c, tojson, -r, colour on/off, via jq literal or --argjson; distinct by (shape, mode)."
	run.Assumptions = []string{
		"reference bytes for the top-level buffer are the input file; for nested buffers (decompressed data ...) the bits of that root's own reader (bitio.ReadAtFull), i.e. the decoder's buffer is trusted, the display is not",
		"the harness decodes with decode.Decode(IsRoot, FillGaps) and the CLI with -d FORMAT: both must give the same tree (a difference shows as parse:desync)",
		"the address column width is fq's presentation choice; checked is that the cell is indent + base prefix + digits filling the column and that the digits are the row address",
		"truncation by display_bytes: any prefix ending between the display_bytes-th byte and the end of its line is accepted, the marker numbers are exact; marker and header are compared with the text cut at the hex column width (documented tolerance)",
		"a header label is expected in the two-character cell of its column; with addrbase 2 and line_bytes > 4 that is impossible in fq's layout (reported as header-misaligned:addrbase2)",
		"JSON: integers must come back as plain digit strings equal to the original (math/big), floats must parse to the identical float64 (-0 == 0)",
	}
	run.MinDistinct = 50

	trees := c10BuildTrees(run)
	if len(trees) < 10 {
		fmt.Printf("BROKEN property=C10: only %d sample trees decodable\n", len(trees))
	}
	agg := c10NewAgg()

	nDump := run.Pick(3000, 96000)
	nJSON := run.Pick(1100, 20000) // runs; 5 values each (1 in raw-string mode)
	for _, a := range args {       // "div=N": smaller run for the monitor's own sanity checks (mutants)
		if strings.HasPrefix(a, "div=") {
			if d, err := strconv.Atoi(a[4:]); err == nil && d > 0 {
				nDump, nJSON = nDump/d, nJSON/d
			}
		}
	}
	type job struct {
		id   int
		json bool
	}
	jobs := make(chan job, 256)
	var wg sync.WaitGroup
	for w := 0; w < runtime.NumCPU(); w++ {
		wg.Add(1)
		go func() {
			defer wg.Done()
			for j := range jobs {
				if j.json {
					c10JSONCase(run, j.id, agg)
					continue
				}
				rng := gen.New(run.Seed).Fork(uint64(j.id))
				binary := j.id%10 >= 7
				cfg := c10ConfigFor(j.id, rng, binary)
				var cs *c10Case
				if binary {
					cs = c10BinaryCase(j.id, j.id/10*3+(j.id%10-7), rng, cfg)
				} else {
					cs = c10TreeCase(j.id, rng, cfg, trees)
				}
				flags, expr := cfg.cliArgs(cfg.color)
				cs.args = cs.argv(flags, expr)
				if j.id < 6 || (binary && j.id < 40 && j.id%10 == 7) {
					run.Sample(map[string]any{"command": c10Quote(cs.args), "input": cs.inName, "values_expected": len(cs.items)})
				}
				run.Distinct(cs.inName + "|" + cs.sel + "|" + cs.prog + "|" + cfg.key())
				c10DumpCase(run, cs, agg)
			}
		}()
	}
	for id := 0; id < nDump; id++ {
		jobs <- job{id: id}
	}
	for id := 0; id < nJSON; id++ {
		jobs <- job{id: id, json: true}
	}
	close(jobs)
	wg.Wait()
	agg.flush(run)
	if run.Counter("dumps-parsed") < int64(nDump)/2 {
		run.MinDistinct = 1 << 30 // observed too little: force BROKEN
	}
	run.Finish()
}

func c10TreeCase(id int, rng *gen.Rand, cfg c10Config, trees []*c10Tree) *c10Case {
	t := trees[rng.Intn(len(trees))]
	start := t.top
	if rng.Chance(2, 5) {
		start = t.starts[rng.Intn(len(t.starts))]
	}
	opts := cfg.effective(false)
	cs := &c10Case{id: id, cfg: cfg, input: t.file, inName: t.name, format: t.format, sel: start.path, shown: start.path, opts: opts}
	if cfg.cmd == "hd" || cfg.cmd == "hexdump" {
		// hexdump of a decode value: one binary covering the value's range in its buffer,
		// displayed as "." and always verbosely
		if start.synthetic {
			start = t.top
			cs.sel = "."
		}
		fake := &c10Node{start: start.start, length: start.length, root: start.root}
		if start.isRoot {
			fake.root = start.own
		}
		cs.items = []c10Item{{n: fake, root: fake.root}}
		cs.shown = "."
		cs.opts.verbose = true
		cs.opts.depth = 0
		return cs
	}
	cs.items = c10Walk(start, opts.depth, opts.arrayTruncate)
	return cs
}

func c10PanicSite(r any) string {
	s := fmt.Sprint(r)
	if len(s) > 60 {
		s = s[:60]
	}
	return s
}
