package main

// C19 packet builders: hand-written, spec-level (RFC 791 IPv4, RFC 9293 TCP, IEEE 802.3 / 802.1Q,
// LINKTYPE_LINUX_SLL / LINUX_SLL2 / NULL / RAW / IPV4 from the tcpdump link-type registry, libpcap
// savefile format, pcapng draft). Nothing here uses gopacket or fq: these are the independent writer side.

import (
	"encoding/binary"
)

// ---- link types (tcpdump.org/linktypes.html) ----

const (
	c19LinkNull     = 0
	c19LinkEthernet = 1
	c19LinkRaw      = 101
	c19LinkSLL      = 113
	c19LinkIPv4     = 228
	c19LinkSLL2     = 276
)

type c19Link struct {
	name string
	typ  int
	vlan bool // ethernet with one 802.1Q tag
	be   bool // null: family word big-endian
}

var c19Links = []c19Link{
	{name: "ethernet", typ: c19LinkEthernet},
	{name: "ethernet-vlan", typ: c19LinkEthernet, vlan: true},
	{name: "raw", typ: c19LinkRaw},
	{name: "ipv4", typ: c19LinkIPv4},
	{name: "sll", typ: c19LinkSLL},
	{name: "sll2", typ: c19LinkSLL2},
	{name: "null-le", typ: c19LinkNull},
	{name: "null-be", typ: c19LinkNull, be: true},
}

// c19Frame wraps one IPv4 packet in the link-layer framing. toServer only varies addresses /
// packet-type fields that a real capture would vary too.
func c19Frame(l c19Link, ip []byte, outgoing bool) []byte {
	switch l.typ {
	case c19LinkEthernet:
		a := []byte{0x02, 0x00, 0x00, 0x00, 0x00, 0x01}
		b := []byte{0x02, 0x00, 0x00, 0x00, 0x00, 0x02}
		if !outgoing {
			a, b = b, a
		}
		f := make([]byte, 0, 18+len(ip))
		f = append(f, b...) // destination
		f = append(f, a...) // source
		if l.vlan {
			f = append(f, 0x81, 0x00, 0x00, 0x2a) // TPID 0x8100, PCP 0, VID 42
		}
		f = append(f, 0x08, 0x00) // EtherType IPv4
		return append(f, ip...)
	case c19LinkRaw, c19LinkIPv4:
		return append([]byte(nil), ip...)
	case c19LinkSLL:
		// packet type(2) ARPHRD(2) addr len(2) addr(8) protocol(2)
		f := make([]byte, 16, 16+len(ip))
		if outgoing {
			binary.BigEndian.PutUint16(f[0:], 4) // sent by us
		}
		binary.BigEndian.PutUint16(f[2:], 1) // ARPHRD_ETHER
		binary.BigEndian.PutUint16(f[4:], 6)
		copy(f[6:], []byte{0x02, 0, 0, 0, 0, 0x01})
		binary.BigEndian.PutUint16(f[14:], 0x0800)
		return append(f, ip...)
	case c19LinkSLL2:
		// protocol(2) reserved(2) ifindex(4) ARPHRD(2) packet type(1) addr len(1) addr(8)
		f := make([]byte, 20, 20+len(ip))
		binary.BigEndian.PutUint16(f[0:], 0x0800)
		binary.BigEndian.PutUint32(f[4:], 2)
		binary.BigEndian.PutUint16(f[8:], 1)
		if outgoing {
			f[10] = 4
		}
		f[11] = 6
		copy(f[12:], []byte{0x02, 0, 0, 0, 0, 0x01})
		return append(f, ip...)
	case c19LinkNull:
		f := make([]byte, 4, 4+len(ip))
		if l.be {
			binary.BigEndian.PutUint32(f, 2) // AF_INET
		} else {
			binary.LittleEndian.PutUint32(f, 2)
		}
		return append(f, ip...)
	}
	panic("c19: unknown link type")
}

// ---- internet checksum (RFC 1071) ----

func c19Sum16(acc uint32, b []byte) uint32 {
	for i := 0; i+1 < len(b); i += 2 {
		acc += uint32(b[i])<<8 | uint32(b[i+1])
	}
	if len(b)%2 == 1 {
		acc += uint32(b[len(b)-1]) << 8
	}
	return acc
}

func c19Fold(acc uint32) uint16 {
	for acc>>16 != 0 {
		acc = acc&0xffff + acc>>16
	}
	return ^uint16(acc)
}

// ---- IPv4 ----

type c19IP struct {
	src, dst [4]byte
	id       uint16
	ttl      byte
	proto    byte
	df       bool
	mf       bool
	fragOff  int // in bytes, multiple of 8
	payload  []byte
}

func c19IPv4(h c19IP) []byte {
	b := make([]byte, 20, 20+len(h.payload))
	b[0] = 0x45
	b[1] = 0
	binary.BigEndian.PutUint16(b[2:], uint16(20+len(h.payload)))
	binary.BigEndian.PutUint16(b[4:], h.id)
	ff := uint16(h.fragOff / 8)
	if h.df {
		ff |= 0x4000
	}
	if h.mf {
		ff |= 0x2000
	}
	binary.BigEndian.PutUint16(b[6:], ff)
	b[8] = h.ttl
	b[9] = h.proto
	copy(b[12:], h.src[:])
	copy(b[16:], h.dst[:])
	binary.BigEndian.PutUint16(b[10:], c19Fold(c19Sum16(0, b[:20])))
	return append(b, h.payload...)
}

// c19Fragment splits the IP payload at the given cut points (bytes, multiples of 8, ascending,
// strictly inside the payload) into fragments of the same datagram.
func c19Fragment(h c19IP, cuts []int) [][]byte {
	var out [][]byte
	prev := 0
	for i := 0; i <= len(cuts); i++ {
		end := len(h.payload)
		if i < len(cuts) {
			end = cuts[i]
		}
		f := h
		f.df = false
		f.fragOff = prev
		f.mf = i < len(cuts)
		f.payload = h.payload[prev:end]
		out = append(out, c19IPv4(f))
		prev = end
	}
	return out
}

// ---- TCP ----

const (
	c19FIN = 0x01
	c19SYN = 0x02
	c19RST = 0x04
	c19PSH = 0x08
	c19ACK = 0x10
)

type c19TCP struct {
	src, dst     [4]byte // for the pseudo header
	sport, dport uint16
	seq, ack     uint32
	flags        byte
	window       uint16
	options      []byte // already padded to a multiple of 4
	payload      []byte
}

func c19TCPSegment(t c19TCP) []byte {
	hl := 20 + len(t.options)
	b := make([]byte, hl, hl+len(t.payload))
	binary.BigEndian.PutUint16(b[0:], t.sport)
	binary.BigEndian.PutUint16(b[2:], t.dport)
	binary.BigEndian.PutUint32(b[4:], t.seq)
	binary.BigEndian.PutUint32(b[8:], t.ack)
	b[12] = byte(hl/4) << 4
	b[13] = t.flags
	binary.BigEndian.PutUint16(b[14:], t.window)
	copy(b[20:], t.options)
	b = append(b, t.payload...)
	// pseudo header: src, dst, zero, protocol 6, TCP length
	var ph [12]byte
	copy(ph[0:], t.src[:])
	copy(ph[4:], t.dst[:])
	ph[9] = 6
	binary.BigEndian.PutUint16(ph[10:], uint16(len(b)))
	binary.BigEndian.PutUint16(b[16:], c19Fold(c19Sum16(c19Sum16(0, ph[:]), b)))
	return b
}

// MSS 1460, SACK permitted, window scale 7, padded with NOPs: what a SYN usually carries
var c19SynOptions = []byte{2, 4, 0x05, 0xb4, 4, 2, 1, 3, 3, 7, 1, 1}

// ---- capture file writers ----

type c19Variant struct {
	name   string
	pcapng bool
	be     bool
	nsec   bool
}

var c19Variants = []c19Variant{
	{name: "pcap-le"},
	{name: "pcap-be", be: true},
	{name: "pcap-le-ns", nsec: true},
	{name: "pcap-be-ns", be: true, nsec: true},
	{name: "pcapng-le", pcapng: true},
	{name: "pcapng-be", pcapng: true, be: true},
}

func c19Order(be bool) binary.ByteOrder {
	if be {
		return binary.BigEndian
	}
	return binary.LittleEndian
}

// c19WritePcap: libpcap savefile. magic 0xa1b2c3d4 (usec) / 0xa1b23c4d (nsec) written in the
// writer's byte order, version 2.4.
func c19WritePcap(v c19Variant, linkType int, frames [][]byte) []byte {
	bo := c19Order(v.be)
	out := make([]byte, 24)
	magic := uint32(0xa1b2c3d4)
	if v.nsec {
		magic = 0xa1b23c4d
	}
	bo.PutUint32(out[0:], magic)
	bo.PutUint16(out[4:], 2)
	bo.PutUint16(out[6:], 4)
	bo.PutUint32(out[16:], 262144)
	bo.PutUint32(out[20:], uint32(linkType))
	for i, f := range frames {
		var h [16]byte
		bo.PutUint32(h[0:], uint32(1700000000+i/1000))
		bo.PutUint32(h[4:], uint32(i%1000)*1000)
		bo.PutUint32(h[8:], uint32(len(f)))
		bo.PutUint32(h[12:], uint32(len(f)))
		out = append(out, h[:]...)
		out = append(out, f...)
	}
	return out
}

func c19NgBlock(bo binary.ByteOrder, typ uint32, body []byte) []byte {
	for len(body)%4 != 0 {
		body = append(body, 0)
	}
	total := uint32(12 + len(body))
	b := make([]byte, 8, total)
	bo.PutUint32(b[0:], typ)
	bo.PutUint32(b[4:], total)
	b = append(b, body...)
	var t [4]byte
	bo.PutUint32(t[:], total)
	return append(b, t[:]...)
}

// c19WritePcapng: one section: SHB, IDB, one EPB per frame (packet data padded to 32 bits).
func c19WritePcapng(v c19Variant, linkType int, frames [][]byte) []byte {
	bo := c19Order(v.be)
	shb := make([]byte, 16)
	bo.PutUint32(shb[0:], 0x1a2b3c4d)
	bo.PutUint16(shb[4:], 1)
	bo.PutUint16(shb[6:], 0)
	bo.PutUint64(shb[8:], 0xffffffffffffffff) // section length unknown
	out := c19NgBlock(bo, 0x0a0d0d0a, shb)
	idb := make([]byte, 8)
	bo.PutUint16(idb[0:], uint16(linkType))
	bo.PutUint32(idb[4:], 262144)
	out = append(out, c19NgBlock(bo, 1, idb)...)
	for i, f := range frames {
		epb := make([]byte, 20, 20+len(f)+3)
		bo.PutUint32(epb[0:], 0) // interface 0
		ts := uint64(1700000000)*1000000 + uint64(i)
		bo.PutUint32(epb[4:], uint32(ts>>32))
		bo.PutUint32(epb[8:], uint32(ts))
		bo.PutUint32(epb[12:], uint32(len(f)))
		bo.PutUint32(epb[16:], uint32(len(f)))
		epb = append(epb, f...)
		out = append(out, c19NgBlock(bo, 6, epb)...)
	}
	return out
}

func c19WriteCapture(v c19Variant, linkType int, frames [][]byte) []byte {
	if v.pcapng {
		return c19WritePcapng(v, linkType, frames)
	}
	return c19WritePcap(v, linkType, frames)
}
