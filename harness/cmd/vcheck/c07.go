package main

// C07 — standard jq programs behave in fq as in the reference jq engine.
// Oracle: the gojq fork of fq's go.mod used VANILLA (Parse -> Compile -> Run, no fq functions, no module
// loader; debug/stderr/input_filename supplied as gojq's own cli package does). System under test: fq's
// Interp.Eval (all init modules and overrides) and, for a fifth of the programs, the CLI in-process
// (`fq -nc --argjson in V -- '$in | (P)'`). Compared: the sequence of output values and whether/where it
// ends in an error; error text is not compared.
//
// Things learnt while triaging disagreements on the unchanged tree (flaws of the monitor, now fixed):
//   - a catch handler that looks at the caught value compares error TEXT through the back door
//     (`try (.[0]) catch .`): handlers may only use the caught value when the body can raise nothing but a
//     user error with a literal/input value (c07Gen.errorExpr / try);
//   - fq's module loader checks the context while compiling: a deadline hit there is a timeout, not a
//     compile error of fq;
//   - vanilla gojq itself panics on `. == (label $l | .)` and emits a Go struct as a value for
//     `"a" | index(true)`: the reference has no behaviour there, such runs are inconclusive;
//   - what fq hands back may be a gojq.JQValue (fromjson returns a value of fq's JSON decoder): it is
//     converted with JQValueToGoJQ, the very conversion fq's own output path applies;
//   - a local `def tostring`/`def tojson`/`def recurse` is reached implicitly by string interpolation,
//     @json and `..`: bodies that would recurse without bound are replaced (c07Gen.safeDefBody); a
//     replacement filter with several outputs under gsub multiplies the work per match;
//   - while shrinking, a literal must not be replaced by `.` (it only moves the data into the input and
//     blurs the signature).

import (
	"context"
	"crypto/sha256"
	"encoding/hex"
	"encoding/json"
	"fmt"
	"os"
	"regexp"
	"runtime"
	"sort"
	"strings"
	"sync"
	"sync/atomic"
	"time"

	"github.com/wader/fq/pkg/interp"
	"github.com/wader/gojq"

	"verif/ev"
	"verif/fqx"
	"verif/gen"
	"verif/vos"
)

func init() { register("C07", c07Main) }

const (
	c07MaxOutputs = 3000
	c07Timeout    = 30 * time.Second
)

// reference host functions, exactly the semantics of gojq's cli package (cli.go funcDebug/funcStderr:
// write to stderr and pass the value through; input_filename: null when there is no input file)
func c07RefOptions(withIn bool) []gojq.CompilerOption {
	opts := []gojq.CompilerOption{
		gojq.WithFunction("debug", 0, 0, func(v any, _ []any) any { return v }),
		gojq.WithFunction("stderr", 0, 0, func(v any, _ []any) any { return v }),
		gojq.WithFunction("input_filename", 0, 0, func(any, []any) any { return nil }),
	}
	if withIn {
		opts = append(opts, gojq.WithVariables([]string{"$in"}))
	}
	return opts
}

// c07Res: one evaluation seen from outside
type c07Res struct {
	outs      []any
	errored   bool // the sequence ends in an error
	errText   string
	compile   bool // failed before running
	timeout   bool
	truncated bool
	panicked  string
	exit      int // CLI only
	cliRaw    string
}

type c07Worker struct {
	run  *ev.Run
	sess *fqx.Session
	tbl  []c07Builtin
}

func c07Drain(ctx context.Context, cancel context.CancelFunc, iter gojq.Iter, plain bool) (res c07Res) {
	for {
		v, ok := iter.Next()
		if !ok {
			break
		}
		if e, isErr := v.(error); isErr {
			if ctx.Err() != nil {
				if !res.truncated {
					res.timeout = true
				}
				break
			}
			res.errored = true
			res.errText = e.Error()
			break
		}
		if res.truncated {
			continue
		}
		if plain {
			v = c07Plain(v)
		}
		res.outs = append(res.outs, v)
		if len(res.outs) >= c07MaxOutputs {
			res.truncated = true
			cancel() // then drain until the engine notices
		}
	}
	return res
}

func (w *c07Worker) evalFq(prog string, input any) (res c07Res) {
	ctx, cancel := context.WithTimeout(context.Background(), c07Timeout)
	defer cancel()
	w.sess.OS.StderrV = &vos.Out{}
	w.sess.OS.StdoutV = &vos.Out{W: 135, H: 25}
	pi := fqx.Guard(func() {
		iter, err := w.sess.I.Eval(ctx, c07Copy(input), prog, interp.NewEvalOpts("", w.sess.OS.StdoutV))
		if err != nil {
			if ctx.Err() != nil { // fq's module loader checks the context while compiling
				res.timeout = true
				return
			}
			res.compile = true
			res.errored = true
			res.errText = err.Error()
			return
		}
		res = c07Drain(ctx, cancel, iter, true)
	})
	if pi != nil {
		res.panicked = fmt.Sprint(pi.Value)
	}
	return res
}

func c07EvalRef(code *gojq.Code, input any, vars ...any) (res c07Res) {
	ctx, cancel := context.WithTimeout(context.Background(), c07Timeout)
	defer cancel()
	pi := fqx.Guard(func() {
		res = c07Drain(ctx, cancel, code.RunWithContext(ctx, input, vars...), false)
	})
	if pi != nil {
		res.panicked = fmt.Sprint(pi.Value)
	}
	return res
}

func c07CompileRef(prog string, withIn bool) (*gojq.Code, error) {
	q, err := gojq.Parse(prog)
	if err != nil {
		return nil, err
	}
	return gojq.Compile(q, c07RefOptions(withIn)...)
}

func c07EvalCLI(prog string, inputJSON string) (res c07Res) {
	ctx, cancel := context.WithTimeout(context.Background(), c07Timeout)
	defer cancel()
	o := vos.New("-nc", "--argjson", "in", inputJSON, "--", "$in | ("+prog+")")
	var r vos.Result
	pi := fqx.Guard(func() { r = o.RunMain(ctx, fqx.Registry()) })
	if pi != nil {
		res.panicked = fmt.Sprint(pi.Value)
		return res
	}
	if ctx.Err() != nil {
		res.timeout = true
		return res
	}
	res.exit = r.Exit
	res.cliRaw = r.String()
	outs, derr := c07DecodeStream(r.Stdout)
	res.outs = outs
	if len(res.outs) > c07MaxOutputs {
		res.outs = res.outs[:c07MaxOutputs]
		res.truncated = true
	}
	switch {
	case derr != nil:
		res.errored = true
		res.errText = "stdout is not a JSON stream: " + derr.Error()
		res.exit = -2
	case r.Exit == 0:
	case r.Exit == 5:
		res.errored = true
		res.errText = string(r.Stderr)
	case r.Exit == 3:
		res.errored = true
		res.compile = true
		res.errText = string(r.Stderr)
	default:
		res.errored = true
		res.errText = fmt.Sprintf("exit %d: %s", r.Exit, r.Stderr)
	}
	return res
}

// c07Compare returns "" when both agree, else the kind of disagreement and a description
func c07Compare(ref, fq c07Res, cli bool) (kind, desc string) {
	eq := c07Equal
	if cli {
		eq = c07EqualCLI
	}
	if ref.compile || fq.compile {
		switch {
		case ref.compile && fq.compile:
			return "", ""
		case fq.compile:
			return "fq-compile-error", "fq rejects a program the reference compiles: " + fq.errText
		default:
			return "ref-compile-error", "the reference rejects a program fq compiles: " + ref.errText
		}
	}
	if cli && fq.exit != 0 && fq.exit != 5 {
		return fmt.Sprintf("cli-exit-%d", fq.exit), fq.errText
	}
	n := min(len(ref.outs), len(fq.outs))
	for i := 0; i < n; i++ {
		if !eq(ref.outs[i], fq.outs[i]) {
			return "value-mismatch", fmt.Sprintf("output #%d: reference %s, fq %s", i, c07Show(ref.outs[i]), c07Show(fq.outs[i]))
		}
	}
	if ref.truncated || fq.truncated {
		if ref.truncated && fq.truncated || len(fq.outs) >= len(ref.outs) && ref.truncated {
			return "", ""
		}
		return "output-count", fmt.Sprintf("reference gave >= %d outputs, fq %d", len(ref.outs), len(fq.outs))
	}
	tail := func(r c07Res, i int) string {
		switch {
		case i < len(r.outs):
			return "value " + c07Show(r.outs[i])
		case r.errored:
			return "error (" + strings.TrimSpace(c07Trunc(r.errText, 200)) + ")"
		}
		return "end of output"
	}
	switch {
	case len(ref.outs) == len(fq.outs):
		switch {
		case ref.errored == fq.errored:
			return "", ""
		case fq.errored:
			return "fq-errors-ref-succeeds", fmt.Sprintf("after %d equal outputs: reference %s, fq %s", n, tail(ref, n), tail(fq, n))
		default:
			return "ref-errors-fq-succeeds", fmt.Sprintf("after %d equal outputs: reference %s, fq %s", n, tail(ref, n), tail(fq, n))
		}
	case len(fq.outs) < len(ref.outs):
		if fq.errored {
			return "fq-errors-ref-succeeds", fmt.Sprintf("after %d equal outputs: reference %s, fq %s", n, tail(ref, n), tail(fq, n))
		}
		return "output-count", fmt.Sprintf("after %d equal outputs: reference %s, fq %s", n, tail(ref, n), tail(fq, n))
	default:
		if ref.errored {
			return "ref-errors-fq-succeeds", fmt.Sprintf("after %d equal outputs: reference %s, fq %s", n, tail(ref, n), tail(fq, n))
		}
		return "output-count", fmt.Sprintf("after %d equal outputs: reference %s, fq %s", n, tail(ref, n), tail(fq, n))
	}
}

func c07Trunc(s string, n int) string {
	if len(s) > n {
		return s[:n] + "…"
	}
	return s
}

type c07Outcome struct {
	kind, desc string
	ref, fq    c07Res
	inconcl    string
}

// check runs program text on one input through one boundary and compares
func (w *c07Worker) check(prog string, input any, cli bool) c07Outcome {
	var o c07Outcome
	if cli {
		txt := c07JSON(input)
		code, err := c07CompileRef("$in | ("+prog+")", true)
		if err != nil {
			o.ref = c07Res{compile: true, errored: true, errText: err.Error()}
		} else {
			// the reference reads the same JSON text as gojq's own CLI would (json.Number -> NormalizeNumbers in Run)
			v, derr := c07DecodeJSON(txt)
			if derr != nil {
				panic("c07: input text does not decode: " + txt)
			}
			o.ref = c07EvalRef(code, nil, v)
		}
		o.fq = c07EvalCLI(prog, txt)
	} else {
		code, err := c07CompileRef(prog, false)
		if err != nil {
			o.ref = c07Res{compile: true, errored: true, errText: err.Error()}
		} else {
			o.ref = c07EvalRef(code, c07Copy(input))
		}
		o.fq = w.evalFq(prog, input)
	}
	switch {
	case !c07AllJSON(o.ref.outs):
		// e.g. `"a" | index(true)`: vanilla gojq emits its internal func1TypeError struct as a VALUE (a defect of
		// the shared engine, present in both; printing it panics in gojq's encoder and in fq's alike): there
		// is no reference behaviour to compare with
		o.inconcl = "reference-emits-non-json-value"
	case o.fq.panicked != "" && o.ref.panicked != "":
		// the shared engine panics by itself (vanilla gojq too): no difference between fq and the reference
		o.inconcl = "both-engines-panic"
	case o.fq.panicked != "":
		o.kind, o.desc = "fq-panic", o.fq.panicked
	case o.ref.panicked != "":
		o.inconcl = "reference-panic"
	case o.ref.timeout || o.fq.timeout:
		o.inconcl = "timeout"

	default:
		o.kind, o.desc = c07Compare(o.ref, o.fq, cli)
	}
	return o
}

// ---- shrinking ----

type c07Shrinker struct {
	w      *c07Worker
	cli    bool
	kind   string
	budget int
}

func (s *c07Shrinker) still(prog string, input any) bool {
	if s.budget <= 0 {
		return false
	}
	s.budget--
	if _, err := gojq.Parse(prog); err != nil {
		return false
	}
	// a shrink step that drops a local `def env: ...;` turns a call of it into the environment-dependent built-in
	// of the same name, which is outside the domain (harness flaw found by the thorough tier: reported `(env)`)
	if c07UsesExcludedBuiltin(prog) {
		return false
	}
	o := s.w.check(prog, input, s.cli)
	return o.inconcl == "" && c07KindGroup(o.kind) == c07KindGroup(s.kind)
}

// while shrinking, the four behavioural kinds may turn into one another (removing a wrapper such as
// [ ... ] or try turns a wrong value into a wrong count or a one-sided error); compile errors, panics
// and CLI exit codes stay what they are. The reported kind is the one of the final program.
func c07KindGroup(kind string) string {
	switch kind {
	case "value-mismatch", "output-count", "fq-errors-ref-succeeds", "ref-errors-fq-succeeds":
		return "behaviour"
	}
	return kind
}

func c07InputCandidates(v any) []any {
	var c []any
	switch v := v.(type) {
	case []any:
		for _, e := range v {
			c = append(c, e)
		}
		for i := range v {
			c = append(c, append(append([]any{}, v[:i]...), v[i+1:]...))
		}
		for i, e := range v {
			for _, ec := range c07InputCandidates(e) {
				nv := append([]any{}, v...)
				nv[i] = ec
				c = append(c, nv)
				if len(c) > 40 {
					return c
				}
			}
		}
	case map[string]any:
		ks := c07Keys(v)
		for _, k := range ks {
			c = append(c, v[k])
		}
		for _, k := range ks {
			nv := map[string]any{}
			for _, k2 := range ks {
				if k2 != k {
					nv[k2] = v[k2]
				}
			}
			c = append(c, nv)
		}
		for _, k := range ks {
			for _, ec := range c07InputCandidates(v[k]) {
				nv := map[string]any{}
				for _, k2 := range ks {
					nv[k2] = v[k2]
				}
				nv[k] = ec
				c = append(c, nv)
				if len(c) > 40 {
					return c
				}
			}
		}
	case string:
		rs := []rune(v)
		if len(rs) > 1 {
			c = append(c, string(rs[:len(rs)/2]), string(rs[len(rs)/2:]), string(rs[1:]), string(rs[:len(rs)-1]))
		}
		if v != "" && v != "a" {
			c = append(c, "a")
		}
	case int:
		if v != 0 && v != 1 {
			c = append(c, 0, 1)
		}
	case float64:
		c = append(c, 1, 0.5)
	}
	return c
}

func (s *c07Shrinker) shrink(root *c07Node, input any) (*c07Node, any) {
	super := c07N("root", false, root)
	render := func() string { return super.String() }
	for progress := true; progress && s.budget > 0; {
		progress = false
		// input first: a small input makes every later step cheaper to read
		for again := true; again && s.budget > 0; {
			again = false
			for _, cand := range c07InputCandidates(input) {
				if s.still(render(), cand) {
					input = cand
					again, progress = true, true
					break
				}
			}
		}
		// program: replace a node by one of its children, or by `.`
		var visit func(parent *c07Node) bool
		visit = func(parent *c07Node) bool {
			for i, p := range parent.parts {
				n, ok := p.(*c07Node)
				if !ok {
					continue
				}
				var cands []*c07Node
				for _, cp := range n.parts {
					if c, ok := cp.(*c07Node); ok {
						cands = append(cands, c07P(c))
					}
				}
				if n.kind != "identity" && n.kind != "literal" { // a literal replaced by `.` would only move data into the input
					cands = append(cands, c07Leaf("identity", "."))
				}
				for _, c := range cands {
					if c.count() >= n.count() && c.kind != "identity" {
						continue
					}
					parent.parts[i] = c
					if s.still(render(), input) {
						return true
					}
					parent.parts[i] = n
					if s.budget <= 0 {
						return false
					}
				}
				if visit(n) {
					return true
				}
			}
			return false
		}
		for s.budget > 0 && visit(super) {
			progress = true
		}
	}
	out := super.parts[0].(*c07Node)
	return out, input
}

// blame: built-ins and value-level constructs left in the (shrunk) program. Plumbing (pipes, parentheses,
// literals, commas, collections) is not named.
var c07Plumbing = map[string]bool{"paren": true, "identity": true, "literal": true, "call": true, "pipe": true, "comma": true, "fromjson-chain": true,
	"var": true, "localcall": true, "root": true, "empty": true}

func c07Blame(n *c07Node) string {
	names := map[string]bool{}
	cnt := map[string]int{}
	n.walk(func(m *c07Node) {
		if m.fn != "" {
			name := m.fn
			if name == "split/1" || name == "splits/1" {
				name += c07SepClass(m)
			}
			names[name] = true
			cnt[name]++
		} else if !c07Plumbing[m.kind] {
			names[m.kind] = true
		}
	})
	if cnt["fromjson/0"] > 1 { // fromjson applied to what fromjson returned
		delete(names, "fromjson/0")
		names["fromjson/0*2"] = true
	}
	other := 0
	for k := range names {
		if k != "array" && k != "object" && k != "fromjson/0" && k != "tojson/0" {
			other++
		}
	}
	if other > 0 {
		// collections only matter when nothing else is left
		delete(names, "array")
		delete(names, "object")
	}
	if len(names) == 0 {
		return "plain"
	}
	var ks []string
	for k := range names {
		ks = append(ks, k)
	}
	sort.Strings(ks)
	if len(ks) > 4 {
		// a program the shrinker could not reduce names many built-ins: keep the ones fq redefines (they are what
		// the property is about and what listed findings are keyed on — a fromjson finding was reported under a
		// signature that had lost "fromjson/0" to the cut, thorough tier) in front of the cut
		pri := func(k string) bool {
			for _, p := range []string{"fromjson", "tojson", "split", "test/", "match/", "capture/", "scan/", "sub/", "gsub/", "explode", "implode", "tostring", "ascii", "getpath", "paths", "to_entries", "from_entries", "with_entries", "group_by", "unique_by", "debug", "stderr", "input_filename", "ltrimstr", "rtrimstr", "@json", "@text"} {
				if strings.HasPrefix(k, p) {
					return true
				}
			}
			return false
		}
		sort.SliceStable(ks, func(i, j int) bool { return pri(ks[i]) && !pri(ks[j]) })
		ks = append(ks[:4], "more")
	}
	return strings.Join(ks, "+")
}

// c07SepClass narrows split/1 signatures by the class of the literal separator
func c07SepClass(call *c07Node) string {
	for _, p := range call.parts {
		arg, ok := p.(*c07Node)
		if !ok {
			continue
		}
		if arg.kind == "literal" && len(arg.parts) == 1 {
			var sep string
			if txt, ok := arg.parts[0].(string); ok && json.Unmarshal([]byte(txt), &sep) == nil {
				switch {
				case strings.ContainsRune(sep, '\\'):
					return "[sep:backslash]"
				case sep == "":
					return "[sep:empty]"
				default:
					return "[sep:plain]"
				}
			}
			return "[sep:non-string]"
		}
		return "[sep:computed]"
	}
	return ""
}

// c07SubjectType: the type of the value the disagreement is about: the program input, or, when the program
// applies fromjson to a literal JSON text, the type of that text's value.
func c07SubjectType(n *c07Node, input any) string {
	usesFromjson := false
	lit := ""
	n.walk(func(m *c07Node) {
		if m.fn == "fromjson/0" {
			usesFromjson = true
		}
		if m.kind == "literal" && len(m.parts) == 1 && lit == "" {
			if txt, ok := m.parts[0].(string); ok && strings.HasPrefix(txt, `"`) {
				var inner string
				if json.Unmarshal([]byte(txt), &inner) == nil {
					if v, err := c07DecodeJSON(inner); err == nil {
						lit = c07TypeName(v)
					}
				}
			}
		}
	})
	if usesFromjson && lit != "" {
		return "json-" + lit
	}
	return c07TypeName(input)
}

var c07ShrinkCount atomic.Int64

func (w *c07Worker) report(id int, root *c07Node, input any, cli bool, o c07Outcome) {
	run := w.run
	origProg, origInput := root.String(), c07JSON(input)
	boundary := "eval"
	if cli {
		boundary = "cli"
	}
	maxShrinks := int64(run.Pick(600, 30000))
	sig := ""
	prog, in := root, input
	if c07ShrinkCount.Add(1) <= maxShrinks {
		sh := &c07Shrinker{w: w, cli: cli, kind: o.kind, budget: 200}
		prog, in = sh.shrink(c07CloneNode(root), c07Copy(input))
		o2 := w.check(prog.String(), in, cli)
		if o2.kind != "" && c07KindGroup(o2.kind) == c07KindGroup(o.kind) {
			o = o2
		} else { // flaky shrink result: fall back to the original
			prog, in = root, input
		}
		if cli {
			// is the Eval boundary affected as well? then it is not a CLI-only matter
			if oe := w.check(prog.String(), in, false); oe.kind == "" && oe.inconcl == "" {
				boundary = "cli-only"
			}
		}
		sig = fmt.Sprintf("%s:%s:%s", c07Blame(prog), c07SubjectType(prog, in), o.kind)
	} else {
		sig = fmt.Sprintf("unshrunk:%s:%s:%s", c07Blame(root), c07SubjectType(root, input), o.kind)
	}
	if boundary == "cli-only" {
		sig = "cli/" + sig
	}
	desc := fmt.Sprintf("boundary=%s\n  minimised program: %s\n  minimised input:   %s\n  %s\n  reference: %s\n  fq:        %s\n  original program (case %d): %s\n  original input: %s",
		boundary, prog.String(), c07JSON(in), o.desc, c07ResText(o.ref), c07ResText(o.fq), id, c07Trunc(origProg, 600), c07Trunc(origInput, 300))
	if os.Getenv("VERIF_VERBOSE") != "" {
		fmt.Printf("C07-DISAGREEMENT sig=%s | boundary=%s | prog=%s | input=%s | ref=%s | fq=%s\n", sig, boundary, prog.String(), c07Trunc(c07JSON(in), 200), c07ResText(o.ref), c07ResText(o.fq))
	}
	run.Violation(sig, desc, map[string]any{"case": id, "seed": run.Seed, "boundary": boundary, "program": origProg, "input": origInput,
		"min_program": prog.String(), "min_input": c07JSON(in), "replay": "vcheck C07 --one '<program>' '<input json>' [cli]"})
}

func c07ResText(r c07Res) string {
	var sb strings.Builder
	for i, v := range r.outs {
		if i >= 6 {
			fmt.Fprintf(&sb, "… (%d outputs)", len(r.outs))
			break
		}
		sb.WriteString(c07Show(v))
		sb.WriteString(" ")
	}
	switch {
	case r.panicked != "":
		sb.WriteString("PANIC " + c07Trunc(r.panicked, 200))
	case r.compile:
		sb.WriteString("COMPILE-ERROR " + c07Trunc(strings.TrimSpace(r.errText), 200))
	case r.errored:
		sb.WriteString("ERROR " + c07Trunc(strings.TrimSpace(r.errText), 200))
	default:
		sb.WriteString("END")
	}
	return sb.String()
}

// ---- one case ----

func (w *c07Worker) one(id int, depth int, ninputs int) {
	run := w.run
	rng := gen.New(run.Seed).Fork(uint64(id))
	in0 := c07Input(rng, c07Any)
	g := c07NewGen(rng, w.tbl)
	d := 2 + rng.Intn(depth-1)
	root, _ := g.expr(d, c07ShapeOf(in0))
	prog := root.String()
	if _, err := gojq.Parse(prog); err != nil {
		run.Count("gen:parse-error", 1)
		if run.Counter("gen:parse-error") <= 5 {
			fmt.Printf("note: generator produced an unparsable program (case %d): %s: %v\n", id, prog, err)
		}
		return
	}
	cli := id%5 == 0
	nodes := root.count()
	run.Count("top:"+root.top(), 1)
	fnSeen := map[string]bool{}
	root.walk(func(n *c07Node) {
		if n.fn != "" && !fnSeen[n.fn] {
			fnSeen[n.fn] = true
			run.Count("builtin:"+n.fn, 1)
		} else if n.fn == "" && n.kind != "paren" && !fnSeen["k:"+n.kind] {
			fnSeen["k:"+n.kind] = true
			run.Count("construct:"+n.kind, 1)
		}
	})
	inputs := []any{in0}
	for len(inputs) < ninputs {
		want := c07Any
		if rng.Intn(2) == 0 {
			want = c07TypeOf(in0)
		}
		inputs = append(inputs, c07Input(rng, want))
	}
	nontrivial := false
	for k, input := range inputs {
		o := w.check(prog, input, cli)
		run.Eval(1)
		if cli {
			run.Count("boundary:cli", 1)
		} else {
			run.Count("boundary:eval", 1)
		}
		run.Count("input:"+c07TypeName(input), 1)
		if o.inconcl != "" {
			run.Inconclusive(o.inconcl)
			if run.Counter("inconclusive:"+o.inconcl) <= 8 || o.ref.timeout {
				fmt.Printf("note: inconclusive (%s, ref timeout=%v fq timeout=%v) case %d: %s   input: %s\n", o.inconcl, o.ref.timeout, o.fq.timeout, id, c07Trunc(prog, 500), c07Trunc(c07JSON(input), 200))
			}
			continue
		}
		if o.ref.compile && o.fq.compile {
			run.Count("gen:compile-error-both", 1)
			if run.Counter("gen:compile-error-both") <= 5 {
				fmt.Printf("note: program rejected by both engines (case %d): %s: %s\n", id, prog, o.ref.errText)
			}
			break
		}
		if o.kind != "" {
			run.Count("disagreement:"+o.kind, 1)
			w.report(id, root, input, cli, o)
			continue
		}
		run.Count("outputs-compared", int64(len(o.ref.outs)))
		switch {
		case o.ref.errored && len(o.ref.outs) > 0:
			run.Count("runs:error-after-outputs-both", 1)
		case o.ref.errored:
			run.Count("runs:error-both", 1)
		case len(o.ref.outs) == 0:
			run.Count("runs:empty-both", 1)
		default:
			run.Count("runs:values-only", 1)
		}
		if o.ref.truncated {
			run.Count("runs:truncated", 1)
		}
		if nodes >= 3 && (len(o.ref.outs) > 0 || o.ref.errored) {
			nontrivial = true
		}
		if id < 6 && k == 0 {
			run.Sample(map[string]any{"case": id, "boundary": map[bool]string{true: "cli", false: "eval"}[cli], "program": prog, "input": c07JSON(input), "reference_and_fq": c07ResText(o.ref)})
		}
	}
	if nontrivial {
		h := sha256.Sum256([]byte(prog))
		run.Distinct(hex.EncodeToString(h[:]))
		run.Count("programs:non-trivial", 1)
	}
}

func c07Main(args []string) {
	run := ev.NewRun("C07")
	run.Rule = "programs come from a depth-bounded (quick <=5, thorough <=8), type-guided grammar of standard jq (paths, arithmetic/comparison on all type pairs, //, and/or/not, try/catch/?, reduce/foreach, if/elif, label/break, limit/first/until/while/range/repeat, array/object construction, interpolation and @formats, destructuring and ?//, local defs incl. recursion/closures/names colliding with fq's, update operators, and a table of built-ins weighted towards those fq redefines); each program runs on 2 (quick) or 3 (thorough) generated JSON inputs through fq (Interp.Eval, every 5th program through the in-process CLI with --argjson) and through vanilla gojq; output sequences and error positions are compared as values. non-trivial = program with >= 3 AST nodes that gave >= 1 output or a matched error on some input; distinct = sha256 of the program text. In addition a fixed sweep applies every redefined string built-in with every pooled separator/regex/flag combination to a fixed set of strings, and the JSON conversions to special numbers (one evaluation per combination)"
	run.Assumptions = []string{
		"error text is not compared (only whether and where the output sequence ends in an error)",
		"excluded as environment dependent or terminating by design: now localtime strflocaltime mktime-of-now input inputs $ENV env builtins halt halt_error $__loc__ input_line_number get_search_list scope scopedump modulemeta, module directives",
		"debug/0, stderr/0, input_filename/0 are host functions in gojq: the reference gets pass-through/null versions as gojq's own cli package defines them; what they write to stderr is not compared",
		"numbers are compared by exact numeric value irrespective of int/float/big representation; NaN equals NaN; on the CLI boundary the reference value is compared with fq's printed JSON the way gojq's own encoder would print it (NaN as null, infinities as ±MaxFloat64, invalid UTF-8 as U+FFFD)",
		"on the CLI boundary the reference reads the same --argjson text with encoding/json UseNumber + gojq.NormalizeNumbers (as gojq's CLI does)",
		"a context deadline (30 s) or the 3000-output cap ends an evaluation as inconclusive/truncated, never as a violation",
		"every disagreement is shrunk (program and input) before it is reported, and the signature is taken from the shrunk case; shrinking is capped (600 quick / 30000 thorough disagreements, 200 evaluations each); disagreements beyond the cap are reported with an 'unshrunk:' signature; while shrinking, the four behavioural kinds may turn into one another",
		"vanilla gojq itself panics (env.index) on a label inside an operand of a binary operator, e.g. `. == (label $l | .)`, and emits an internal error struct as a value for `\"a\" | index(true)`: both engines share this, such runs are counted inconclusive",
	}
	tbl, missing := c07ValidateTable(c07Table(), c07RefOptions(false))
	run.Extra["builtins_not_in_reference"] = missing

	if len(args) >= 2 && args[0] == "--one" {
		c07One(run, tbl, args[1:])
		return
	}

	n := run.Pick(4000, 300000)
	if len(args) >= 2 && args[0] == "--n" { // smoke runs of a tier with fewer programs (not a verdict)
		fmt.Sscan(args[1], &n)
		run.Extra["programs_overridden_by_flag"] = n
	}
	depth := run.Pick(5, 8)
	ninputs := run.Pick(2, 3)
	sweep := c07BuildSweep()
	ids := make(chan int, 256)
	var wg sync.WaitGroup
	for i := 0; i < runtime.NumCPU(); i++ {
		wg.Add(1)
		go func() {
			defer wg.Done()
			w := &c07Worker{run: run, sess: fqx.NewSession(), tbl: tbl}
			defer w.sess.Close()
			for id := range ids {
				func() {
					defer func() {
						if r := recover(); r != nil {
							run.Violation("harness-panic", fmt.Sprintf("case %d: %v", id, r), map[string]any{"case": id})
						}
					}()
					if id >= n {
						w.sweepCase(id, sweep[id-n])
					} else {
						w.one(id, depth, ninputs)
					}
				}()
			}
		}()
	}
	for id := 0; id < n+len(sweep); id++ {
		ids <- id
	}
	close(ids)
	wg.Wait()
	run.Finish()
}

// c07One: `vcheck C07 --one PROGRAM INPUTJSON [cli]` prints both results (triage / replay)
func c07One(run *ev.Run, tbl []c07Builtin, args []string) {
	w := &c07Worker{run: run, sess: fqx.NewSession(), tbl: tbl}
	v, err := c07DecodeJSON(args[1])
	if err != nil {
		fmt.Println("input:", err)
		os.Exit(2)
	}
	input := gojq.NormalizeNumbers(v)
	cli := len(args) > 2 && args[2] == "cli"
	o := w.check(args[0], input, cli)
	fmt.Printf("program:   %s\ninput:     %s\nreference: %s\nfq:        %s\nverdict:   %s %s %s\n", args[0], c07JSON(input), c07ResText(o.ref), c07ResText(o.fq), o.kind, o.desc, o.inconcl)
	if cli {
		fmt.Println("cli raw:  ", o.fq.cliRaw)
	}
	os.Exit(0)
}

var c07ExcludedNames = []string{"env", "halt", "halt_error", "input", "inputs", "now", "localtime", "strflocaltime", "mktime", "input_line_number", "builtins", "get_search_list", "scope", "scopedump", "modulemeta", "input_filename"}

var c07ExcludedRes = func() map[string][2]*regexp.Regexp {
	m := map[string][2]*regexp.Regexp{}
	for _, n := range c07ExcludedNames {
		m[n] = [2]*regexp.Regexp{regexp.MustCompile(`(^|[^A-Za-z0-9_$.:"])` + n + `($|[^A-Za-z0-9_"])`), regexp.MustCompile(`def\s+` + n + `\s*[:(]`)}
	}
	return m
}()

var c07EnvVarRe = regexp.MustCompile(`\$ENV($|[^A-Za-z0-9_])`) // ($ENV2 is a user variable)

// c07UsesExcludedBuiltin: the program text calls one of the excluded built-ins without defining a function of that name
func c07UsesExcludedBuiltin(prog string) bool {
	if c07EnvVarRe.MatchString(prog) || strings.Contains(prog, "$__loc__") {
		return true
	}
	for _, res := range c07ExcludedRes {
		if res[0].MatchString(prog) && !res[1].MatchString(prog) {
			return true
		}
	}
	return false
}
