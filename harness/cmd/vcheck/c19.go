package main

// C19 — TCP streams and IPv4 datagrams are reassembled exactly.
//
// Writer side: c19_pkt.go (hand-written framing, IPv4, TCP, pcap, pcapng). This file: the conversation
// model (connections, segments, capture-level operations), the oracle (pure interval arithmetic over
// the packets that ended up in the capture) and the driver that decodes every capture with the real fq
// (jq: `open | decode("pcap"|"pcapng")`) and compares .tcp_connections / .ipv4_reassembled.

import (
	"bytes"
	"encoding/hex"
	"fmt"
	"os"
	"runtime"
	"runtime/debug"
	"sort"
	"strconv"
	"strings"
	"sync"
	"sync/atomic"

	"verif/ev"
	"verif/fqx"
)

func init() { register("C19", c19Main) }

var c19MinBudget atomic.Int64

// ---------------------------------------------------------------- model

type c19EP struct {
	ip   [4]byte
	port uint16
}

func (e c19EP) ipString() string {
	return fmt.Sprintf("%d.%d.%d.%d", e.ip[0], e.ip[1], e.ip[2], e.ip[3])
}
func (e c19EP) String() string { return fmt.Sprintf("%s:%d", e.ipString(), e.port) }

// c19Seg is one TCP packet as sent (before IP fragmentation).
type c19Seg struct {
	conn  *c19Conn
	dir   int    // 0 = client->server, 1 = server->client
	kind  string // syn synack ack data fin rst
	flags byte
	off   int // stream offset of the first payload byte; for FIN/RST without data: bytes sent so far
	data  []byte
	opts  []byte
	ack   uint32
	// capture-level decoration
	dup    string // "" or the kind of retransmission
	cuts   []int  // IP fragmentation cut points (offsets into the IP payload), nil = one datagram
	forder []int  // order in which the fragments appear in the capture
	df     bool
	ipid   uint16
}

func (s *c19Seg) seq() uint32 {
	c := s.conn
	switch s.kind {
	case "syn", "synack":
		return c.isn[s.dir]
	}
	return c.isn[s.dir] + 1 + uint32(s.off)
}
func (s *c19Seg) hasFin() bool { return s.flags&c19FIN != 0 }
func (s *c19Seg) String() string {
	d := ">"
	if s.dir == 1 {
		d = "<"
	}
	x := fmt.Sprintf("%s%s", d, s.kind)
	if len(s.data) > 0 || s.kind == "data" {
		x += fmt.Sprintf("[%d+%d]", s.off, len(s.data))
	}
	if s.hasFin() && s.kind != "fin" {
		x += "+F"
	}
	if s.dup != "" {
		x += "(" + s.dup + ")"
	}
	if s.cuts != nil {
		x += fmt.Sprintf("{frag%v order%v}", s.cuts, s.forder)
	}
	return x
}

type c19Conn struct {
	idx  int
	ep   [2]c19EP // 0 client (SYN sender), 1 server
	isn  [2]uint32
	data [2][]byte
	pkts []*c19Seg          // this connection's packets in capture order
	ops  [2]map[string]bool // operations that touched each direction
	cops map[string]bool    // operations on the connection as a whole
}

func (c *c19Conn) op(dir int, name string) {
	if dir < 0 {
		c.cops[name] = true
		return
	}
	c.ops[dir][name] = true
}

func (c *c19Conn) opString(dir int) string {
	m := map[string]bool{}
	for k := range c.cops {
		m[k] = true
	}
	for k := range c.ops[dir] {
		m[k] = true
	}
	if len(m) == 0 {
		return "plain"
	}
	ks := make([]string, 0, len(m))
	for k := range m {
		ks = append(ks, k)
	}
	sort.Strings(ks)
	return strings.Join(ks, "+")
}

// c19Payload: every byte position of every (connection, direction) is identifiable:
// 4-byte groups [tag, group hi, group lo, check] with tag = 0xA0 | conn<<1 | dir.
func c19Payload(conn, dir, n int) []byte {
	b := make([]byte, n)
	tag := byte(0xA0 | (conn&7)<<1 | dir&1)
	for i := range b {
		g := i / 4
		switch i % 4 {
		case 0:
			b[i] = tag
		case 1:
			b[i] = byte(g >> 8)
		case 2:
			b[i] = byte(g)
		case 3:
			b[i] = byte(g*7+conn) ^ 0x5a
		}
	}
	return b
}

// c19Attribute says where a run of received bytes comes from according to the pattern.
func c19Attribute(b []byte) string {
	for i := 0; i+3 <= len(b) && i < 8; i++ {
		if b[i]&0xF0 == 0xA0 {
			g := int(b[i+1])<<8 | int(b[i+2])
			return fmt.Sprintf("bytes look like conn %d dir %d stream offset %d", (b[i]>>1)&7, b[i]&1, g*4-i)
		}
	}
	return "bytes not attributable"
}

type c19ConnSpec struct {
	cl, sv    c19EP
	isn       [2]uint32
	size      [2]int
	cuts      [2][]int // segment boundaries, ascending, strictly inside (0,size)
	order     []int    // direction of each data packet in send order; nil = all of dir 0 then dir 1
	close     string   // "fin", "rst", "none"
	closer    int
	halfClose bool // closer's FIN directly follows its own last segment, the peer continues sending
	finOnData bool // closer's FIN rides on its last data segment (implies halfClose placement)
}

func c19BuildConn(idx int, sp c19ConnSpec) *c19Conn {
	c := &c19Conn{idx: idx, ep: [2]c19EP{sp.cl, sp.sv}, isn: sp.isn, cops: map[string]bool{}}
	c.ops[0], c.ops[1] = map[string]bool{}, map[string]bool{}
	for d := 0; d < 2; d++ {
		c.data[d] = c19Payload(idx, d, sp.size[d])
	}
	mk := func(dir int, kind string, flags byte, off int, data []byte) *c19Seg {
		return &c19Seg{conn: c, dir: dir, kind: kind, flags: flags, off: off, data: data}
	}
	syn := mk(0, "syn", c19SYN, 0, nil)
	syn.opts = c19SynOptions
	synack := mk(1, "synack", c19SYN|c19ACK, 0, nil)
	synack.opts = c19SynOptions
	c.pkts = append(c.pkts, syn, synack, mk(0, "ack", c19ACK, 0, nil))

	var segs [2][]*c19Seg
	for d := 0; d < 2; d++ {
		prev := 0
		bounds := append(append([]int{}, sp.cuts[d]...), sp.size[d])
		for _, e := range bounds {
			if e <= prev {
				continue
			}
			fl := byte(c19ACK)
			if e == sp.size[d] || e%3 == 0 {
				fl |= c19PSH
			}
			segs[d] = append(segs[d], mk(d, "data", fl, prev, c.data[d][prev:e]))
			prev = e
		}
	}
	order := append([]int{}, sp.order...)
	{ // normalise: the order covers every segment of both directions
		var n [2]int
		for _, d := range order {
			n[d]++
		}
		for d := 0; d < 2; d++ {
			for ; n[d] < len(segs[d]); n[d]++ {
				order = append(order, d)
			}
		}
	}
	x, y := sp.closer, 1-sp.closer
	var next [2]int
	finPlaced := false
	placeFin := func() {
		// FIN of x and the peer's ACK of it
		if sp.finOnData && len(segs[x]) > 0 {
			segs[x][len(segs[x])-1].flags |= c19FIN
		} else {
			c.pkts = append(c.pkts, mk(x, "fin", c19FIN|c19ACK, sp.size[x], nil))
		}
		c.pkts = append(c.pkts, mk(y, "ack", c19ACK, c19SentSoFar(segs[y], next[y]), nil))
		finPlaced = true
	}
	early := sp.close == "fin" && (sp.halfClose || sp.finOnData)
	if early && len(segs[x]) == 0 {
		placeFin()
	}
	for _, d := range order {
		if next[d] >= len(segs[d]) {
			continue
		}
		c.pkts = append(c.pkts, segs[d][next[d]])
		next[d]++
		if early && !finPlaced && d == x && next[x] == len(segs[x]) {
			placeFin()
		}
	}
	switch sp.close {
	case "fin":
		if !finPlaced {
			placeFin()
		}
		c.pkts = append(c.pkts, mk(y, "fin", c19FIN|c19ACK, sp.size[y], nil), mk(x, "ack", c19ACK, sp.size[x]+1, nil))
	case "rst":
		c.pkts = append(c.pkts, mk(x, "rst", c19RST|c19ACK, sp.size[x], nil))
	}
	c.fixAcks()
	return c
}

func c19SentSoFar(segs []*c19Seg, n int) int {
	t := 0
	for i := 0; i < n && i < len(segs); i++ {
		t += len(segs[i].data)
	}
	return t
}

// fixAcks gives every packet the acknowledgement number its sender would have used at that point
// of the (base) conversation.
func (c *c19Conn) fixAcks() {
	var nxt [2]uint32
	var seen [2]bool
	for _, p := range c.pkts {
		peer := 1 - p.dir
		if p.flags&c19ACK != 0 && seen[peer] {
			p.ack = nxt[peer]
		}
		end := p.seq() + uint32(len(p.data))
		if p.flags&(c19SYN|c19FIN) != 0 {
			end++
		}
		if !seen[p.dir] || int32(end-nxt[p.dir]) > 0 {
			nxt[p.dir] = end
		}
		seen[p.dir] = true
	}
}

// ---------------------------------------------------------------- capture

type c19FragDatagram struct {
	src, dst [4]byte
	id       uint16
	payload  []byte
	swapped  bool
	nfrag    int
	conn     int
	dir      int
}

type c19Capture struct {
	id      int
	class   string // "exact" or "omit"
	link    c19Link
	variant c19Variant
	conns   []*c19Conn
	order   []*c19Seg
	frames  [][]byte
	file    []byte
	frags   []c19FragDatagram
	omitted string
}

// assemble numbers the IP datagrams, expands fragments, frames and writes the file.
func (cp *c19Capture) assemble(ipid uint16) {
	cp.frames = nil
	cp.frags = nil
	for _, s := range cp.order {
		c := s.conn
		src, dst := c.ep[s.dir], c.ep[1-s.dir]
		ipid++
		s.ipid = ipid
		tcp := c19TCPSegment(c19TCP{src: src.ip, dst: dst.ip, sport: src.port, dport: dst.port,
			seq: s.seq(), ack: s.ack, flags: s.flags, window: 0xfaf0, options: s.opts, payload: s.data})
		h := c19IP{src: src.ip, dst: dst.ip, id: ipid, ttl: 64, proto: 6, df: s.df && s.cuts == nil, payload: tcp}
		if s.cuts == nil {
			cp.frames = append(cp.frames, c19Frame(cp.link, c19IPv4(h), s.dir == 0))
			continue
		}
		fr := c19Fragment(h, s.cuts)
		swapped := false
		for i, k := range s.forder {
			if i != k {
				swapped = true
			}
			cp.frames = append(cp.frames, c19Frame(cp.link, fr[k], s.dir == 0))
		}
		cp.frags = append(cp.frags, c19FragDatagram{src: src.ip, dst: dst.ip, id: ipid, payload: tcp, swapped: swapped, nfrag: len(fr), conn: c.idx, dir: s.dir})
	}
	cp.file = c19WriteCapture(cp.variant, cp.link.typ, cp.frames)
}

func (cp *c19Capture) describe() string {
	var sb strings.Builder
	fmt.Fprintf(&sb, "capture %d class=%s link=%s variant=%s conns=%d frames=%d bytes=%d", cp.id, cp.class, cp.link.name, cp.variant.name, len(cp.conns), len(cp.frames), len(cp.file))
	if cp.omitted != "" {
		fmt.Fprintf(&sb, " omitted=%s", cp.omitted)
	}
	for _, c := range cp.conns {
		fmt.Fprintf(&sb, "\n  conn %d %s -> %s isn=%#x/%#x sizes=%d/%d ops=%s|%s:", c.idx, c.ep[0], c.ep[1], c.isn[0], c.isn[1], len(c.data[0]), len(c.data[1]), c.opString(0), c.opString(1))
		for i, p := range c.pkts {
			if i >= 80 {
				fmt.Fprintf(&sb, " …(%d more)", len(c.pkts)-i)
				break
			}
			sb.WriteString(" " + p.String())
		}
	}
	return sb.String()
}

// ---------------------------------------------------------------- oracle

type c19Want struct {
	stream   []byte
	start    int
	hasSyn   bool
	holeAt   int    // -1 = no hole in what was captured
	holeKind string // "", "data" (a later data segment was captured), "fin" (only FIN/RST beyond the hole)
	captured int    // payload bytes of this direction present in the capture (with duplicates)
}

// c19Oracle: the packets of one direction that are in the capture, as byte intervals of the sent
// stream. Order does not matter (the property quantifies over duplicates and local reordering):
// the expected stream is the longest run of captured bytes starting at the first byte the capture
// can know about (offset 0 when the SYN was captured, else the lowest captured offset).
func c19Oracle(c *c19Conn, dir int) c19Want {
	w := c19Want{holeAt: -1}
	type iv struct{ a, b int }
	var ivs []iv
	endMark := -1 // highest sequence position proven by a FIN/RST
	for _, p := range c.pkts {
		if p.dir != dir {
			continue
		}
		if p.flags&c19SYN != 0 {
			w.hasSyn = true
		}
		if len(p.data) > 0 {
			ivs = append(ivs, iv{p.off, p.off + len(p.data)})
			w.captured += len(p.data)
		}
		if p.flags&(c19FIN|c19RST) != 0 {
			if e := p.off + len(p.data); e > endMark {
				endMark = e
			}
		}
	}
	sort.Slice(ivs, func(i, j int) bool { return ivs[i].a < ivs[j].a })
	if !w.hasSyn {
		if len(ivs) == 0 {
			return w
		}
		w.start = ivs[0].a
	}
	end := w.start
	maxEnd := end
	for _, v := range ivs {
		if v.a <= end && v.b > end {
			end = v.b
		}
		if v.b > maxEnd {
			maxEnd = v.b
		}
	}
	w.stream = c.data[dir][w.start:end]
	switch {
	case maxEnd > end:
		w.holeAt, w.holeKind = end, "data"
	case endMark > end:
		w.holeAt, w.holeKind = end, "fin"
	}
	return w
}

// ---------------------------------------------------------------- fq side

const c19JQDefs = `def c19dir: {ip: (.ip|tovalue), port: (.port|toactual), skipped_bytes: (.skipped_bytes|tovalue), has_start: (.has_start|tovalue), has_end: (.has_end|tovalue), stream: (.stream|tobytes|to_hex)};
def c19x: {tcp: [.tcp_connections[] | {client: (.client|c19dir), server: (.server|c19dir)}], ip4: [.ipv4_reassembled[] | tobytes | to_hex]};
`

type c19GotDir struct {
	ip       string
	port     int
	skipped  int64
	hasStart bool
	hasEnd   bool
	stream   []byte
}
type c19GotConn struct{ d [2]c19GotDir }
type c19Got struct {
	err   string
	conns []c19GotConn
	ip4   [][]byte
}

func c19Int(v any) int64 {
	switch x := v.(type) {
	case int:
		return int64(x)
	case float64:
		return int64(x)
	}
	if s, ok := v.(fmt.Stringer); ok { // *big.Int
		n, _ := strconv.ParseInt(s.String(), 10, 64)
		return n
	}
	return -1
}

func c19ParseDir(v any) c19GotDir {
	m, _ := v.(map[string]any)
	var g c19GotDir
	g.ip, _ = m["ip"].(string)
	g.port = int(c19Int(m["port"]))
	g.skipped = c19Int(m["skipped_bytes"])
	g.hasStart, _ = m["has_start"].(bool)
	g.hasEnd, _ = m["has_end"].(bool)
	hs, _ := m["stream"].(string)
	g.stream, _ = hex.DecodeString(hs)
	return g
}

// c19Decode runs a batch of captures through one Eval.
func c19Decode(s *fqx.Session, caps []*c19Capture) []c19Got {
	var sb strings.Builder
	sb.WriteString(c19JQDefs)
	sb.WriteString("[")
	for i, cp := range caps {
		name := fmt.Sprintf("c19_%d.cap", i)
		s.OS.Files[name] = cp.file
		if i > 0 {
			sb.WriteString(",")
		}
		if cp.variant.pcapng {
			fmt.Fprintf(&sb, `(try (%q | open | decode("pcapng") | .[0] | c19x) catch {error: tostring})`, name)
		} else {
			fmt.Fprintf(&sb, `(try (%q | open | decode("pcap") | c19x) catch {error: tostring})`, name)
		}
	}
	sb.WriteString("]")
	out := make([]c19Got, len(caps))
	var res []any
	var err error
	pi := fqx.Guard(func() { res, err = s.Eval(nil, sb.String()) })
	for i := range caps {
		delete(s.OS.Files, fmt.Sprintf("c19_%d.cap", i))
	}
	if pi != nil || err != nil || len(res) != 1 {
		msg := fmt.Sprintf("eval failed: err=%v outputs=%d", err, len(res))
		if pi != nil {
			msg = fmt.Sprintf("panic: %v\n%s", pi.Value, pi.Stack)
		}
		for i := range out {
			out[i].err = msg
		}
		return out
	}
	arr, _ := res[0].([]any)
	for i := range out {
		if i >= len(arr) {
			out[i].err = "no output"
			continue
		}
		m, _ := arr[i].(map[string]any)
		if m == nil {
			out[i].err = fmt.Sprintf("unexpected output %T", arr[i])
			continue
		}
		if e, ok := m["error"]; ok {
			out[i].err = fmt.Sprint(e)
			continue
		}
		tcp, _ := m["tcp"].([]any)
		for _, t := range tcp {
			tm, _ := t.(map[string]any)
			out[i].conns = append(out[i].conns, c19GotConn{d: [2]c19GotDir{c19ParseDir(tm["client"]), c19ParseDir(tm["server"])}})
		}
		ip4, _ := m["ip4"].([]any)
		for _, x := range ip4 {
			hs, _ := x.(string)
			b, _ := hex.DecodeString(hs)
			out[i].ip4 = append(out[i].ip4, b)
		}
	}
	return out
}

// ---------------------------------------------------------------- comparison

// c19Finding is one disagreement between fq and the oracle, before it is minimised and named.
type c19Finding struct {
	kind string // decode-error connection-missing connection-extra client-server-swapped stream-mismatch skipped-bytes-nonzero skipped-bytes-zero ipv4-reassembled
	sub  string // hole-before-data, missing:swapped, …
	conn int    // connection index (-1: whole capture)
	dir  int
	desc string
	ipid uint16 // ipv4-reassembled: the datagram
}

type c19Checker struct {
	run   *ev.Run
	quiet bool // no counters (used while minimising)
}

func (ck *c19Checker) count(name string, n int64) {
	if !ck.quiet {
		ck.run.Count(name, n)
	}
}

func c19Head(b []byte, n int) string {
	if len(b) > n {
		return hex.EncodeToString(b[:n]) + "…"
	}
	return hex.EncodeToString(b)
}

// check compares one decoded capture with the oracle.
func (ck *c19Checker) check(cp *c19Capture, got c19Got) (fs []c19Finding) {
	add := func(kind, sub string, conn, dir int, format string, a ...any) {
		fs = append(fs, c19Finding{kind: kind, sub: sub, conn: conn, dir: dir, desc: fmt.Sprintf(format, a...)})
	}
	if got.err != "" {
		add("decode-error", cp.variant.name, -1, 0, "fq failed to decode the capture: %s", got.err)
		return
	}
	used := make([]bool, len(got.conns))
	for _, c := range cp.conns {
		if len(c.pkts) == 0 {
			continue
		}
		w := [2]c19Want{c19Oracle(c, 0), c19Oracle(c, 1)}
		// find fq's connection for this 4-tuple, either orientation
		gi, flipped := -1, false
		for i, g := range got.conns {
			if used[i] {
				continue
			}
			m := func(d c19GotDir, e c19EP) bool { return d.ip == e.ipString() && d.port == int(e.port) }
			if m(g.d[0], c.ep[0]) && m(g.d[1], c.ep[1]) {
				gi = i
				break
			}
			if m(g.d[1], c.ep[0]) && m(g.d[0], c.ep[1]) {
				gi, flipped = i, true
				break
			}
		}
		if gi < 0 {
			var have []string
			for _, g := range got.conns {
				have = append(have, fmt.Sprintf("%s:%d->%s:%d", g.d[0].ip, g.d[0].port, g.d[1].ip, g.d[1].port))
			}
			add("connection-missing", "", c.idx, 0, "no tcp_connection for %s -> %s; fq reports %v", c.ep[0], c.ep[1], have)
			continue
		}
		used[gi] = true
		if w[0].hasSyn {
			ck.count("checked:client-attribution", 1)
			if flipped {
				add("client-server-swapped", "", c.idx, 0, "conn %d: SYN sender %s must be the client, fq reports client %s:%d", c.idx, c.ep[0], got.conns[gi].d[0].ip, got.conns[gi].d[0].port)
			}
		} else {
			ck.count("observed:midstream-orientation:"+map[bool]string{false: "client-kept", true: "first-sender-is-client"}[flipped], 1)
		}
		for dir := 0; dir < 2; dir++ {
			gd := got.conns[gi].d[dir]
			if flipped {
				gd = got.conns[gi].d[1-dir]
			}
			ck.count("checked:stream-bytes", int64(len(w[dir].stream)))
			ck.count("checked:directions", 1)
			if gd.hasStart {
				ck.count("observed:has_start", 1)
			}
			if gd.hasEnd {
				ck.count("observed:has_end", 1)
			}
			if !bytes.Equal(gd.stream, w[dir].stream) {
				i := 0
				for i < len(gd.stream) && i < len(w[dir].stream) && gd.stream[i] == w[dir].stream[i] {
					i++
				}
				how := "differs"
				switch {
				case i == len(gd.stream):
					how = "is truncated"
				case i == len(w[dir].stream):
					how = "has extra bytes"
				}
				attr := ""
				if i < len(gd.stream) {
					attr = "; got " + c19Head(gd.stream[i:], 8) + " (" + c19Attribute(gd.stream[i:]) + ")"
				}
				add("stream-mismatch", "", c.idx, dir,
					"conn %d dir %d (%s): stream %s at byte %d: got %d bytes, want %d bytes (sent bytes [%d,%d) of %d)%s; skipped_bytes=%d has_start=%v has_end=%v expected hole=%q@%d",
					c.idx, dir, c.ep[dir], how, i, len(gd.stream), len(w[dir].stream), w[dir].start, w[dir].start+len(w[dir].stream), len(c.data[dir]), attr, gd.skipped, gd.hasStart, gd.hasEnd, w[dir].holeKind, w[dir].holeAt)
				continue // the skip accounting of a wrong stream is not judged separately
			}
			switch w[dir].holeKind {
			case "":
				if gd.skipped != 0 {
					add("skipped-bytes-nonzero", "no-hole", c.idx, dir, "conn %d dir %d: nothing is missing from the capture but skipped_bytes=%d", c.idx, dir, gd.skipped)
				}
			case "data":
				ck.count("checked:hole-before-data", 1)
				if gd.skipped == 0 {
					add("skipped-bytes-zero", "hole-before-data", c.idx, dir, "conn %d dir %d: bytes from offset %d are missing and later data was captured, but skipped_bytes=0", c.idx, dir, w[dir].holeAt)
				}
			case "fin":
				ck.count("checked:hole-before-fin", 1)
				if gd.skipped == 0 {
					add("skipped-bytes-zero", "hole-before-fin", c.idx, dir, "conn %d dir %d: bytes from offset %d are missing and a FIN/RST beyond the hole was captured, but skipped_bytes=0 (has_end=%v)", c.idx, dir, w[dir].holeAt, gd.hasEnd)
				}
			}
		}
	}
	for i, g := range got.conns {
		if !used[i] {
			add("connection-extra", "", -1, 0, "fq reports a tcp_connection %s:%d -> %s:%d (%d/%d bytes) that is not in the capture", g.d[0].ip, g.d[0].port, g.d[1].ip, g.d[1].port, len(g.d[0].stream), len(g.d[1].stream))
		}
	}
	// IPv4 reassembly: every fragmented datagram exactly once, payload intact
	seen := make([]int, len(cp.frags))
	for _, b := range got.ip4 {
		if len(b) < 20 || b[0]>>4 != 4 {
			add("ipv4-reassembled", "malformed", -1, 0, "ipv4_reassembled entry is not an IPv4 datagram: %s", c19Head(b, 24))
			continue
		}
		ihl := int(b[0]&0xf) * 4
		id := uint16(b[4])<<8 | uint16(b[5])
		k := -1
		for i, f := range cp.frags {
			if f.id == id && bytes.Equal(b[12:16], f.src[:]) && bytes.Equal(b[16:20], f.dst[:]) {
				k = i
			}
		}
		if k < 0 {
			add("ipv4-reassembled", "unexpected", -1, 0, "ipv4_reassembled has a datagram id=%#x %v->%v that was not fragmented in the capture", id, b[12:16], b[16:20])
			continue
		}
		seen[k]++
		f := cp.frags[k]
		ord := map[bool]string{false: "inorder", true: "swapped"}[f.swapped]
		tl := int(b[2])<<8 | int(b[3])
		ck.count("checked:ipv4-reassembled-bytes", int64(len(f.payload)))
		if ihl > len(b) || !bytes.Equal(b[ihl:], f.payload) || b[9] != 6 || tl != len(b) || b[6]&0x3f != 0 || b[7] != 0 {
			add("ipv4-reassembled", "payload-mismatch:"+ord, f.conn, f.dir, "datagram id=%#x (%d fragments): reassembled %d bytes (total_length %d, flags/offset %02x%02x) want payload of %d bytes; got %s want %s", id, f.nfrag, len(b), tl, b[6], b[7], len(f.payload), c19Head(b[min(ihl, len(b)):], 32), c19Head(f.payload, 32))
		}
	}
	for i, n := range seen {
		f := cp.frags[i]
		ord := map[bool]string{false: "inorder", true: "swapped"}[f.swapped]
		ck.count("checked:fragmented-datagram:"+ord, 1)
		if n == 0 {
			add("ipv4-reassembled", "missing:"+ord, f.conn, f.dir, "fragmented datagram id=%#x of conn %d dir %d (%d fragments, payload %d bytes) is not in ipv4_reassembled", f.id, f.conn, f.dir, f.nfrag, len(f.payload))
			fs[len(fs)-1].ipid = f.id
		} else if n > 1 {
			add("ipv4-reassembled", "duplicate:"+ord, f.conn, f.dir, "fragmented datagram id=%#x appears %d times in ipv4_reassembled", f.id, n)
		}
	}
	return fs
}

// ---------------------------------------------------------------- main

func c19Main(args []string) {
	run := ev.NewRun("C19")
	run.Rule = "each case is one capture file written by hand-made encoders (no gopacket): 1..5 TCP connections (full handshake; FIN, half-close, FIN-on-data, RST or no close), counter-pattern payloads keyed by connection and direction (quick <= 4 KiB, thorough <= 64 KiB per direction), random segmentation and interleaving, then per connection a random subset of {midstream cut, truncated tail, dup, redup (retransmission with other boundaries), swap, swapfin, frag (fragments in order / swapped), seqwrap} and, in the omit class (every 4th case), one omitted data segment; link type (ethernet, ethernet+vlan, raw, ipv4, sll, sll2, null le/be) x file variant (pcap le/be/ns, pcapng le/be) drawn per capture; 9 pinned hand-made captures run first. fq's .tcp_connections / .ipv4_reassembled (jq through a live interpreter) are compared with an interval oracle over the packets present in the capture. Every disagreement is minimised (packet removal sweeps, un-reordering, un-fragmenting, plain ISNs, ethernet/pcap-le) and named after what is structurally left. non-trivial = >=2 connections or >=1 operation applied; distinct = (link, variant, class, #connections, set of operations)"
	run.Assumptions = c19Assumptions
	if len(args) >= 1 && args[0] == "--calib" {
		c19Calib()
		return
	}
	thorough := run.Thorough()
	if os.Getenv("GOGC") == "" {
		// every Eval re-parses fq's init module: garbage heavy; fewer collections help 16 workers a lot
		debug.SetGCPercent(200)
	}
	// minimisation budget: far above what the unchanged tree needs; a build that fails everywhere
	// must not spend hours minimising thousands of identical findings
	c19MinBudget.Store(int64(run.Pick(600, 40000)))
	if len(args) >= 2 && args[0] == "--case" {
		id, _ := strconv.Atoi(args[1])
		cp := c19Generate(run.Seed, id, thorough)
		s := fqx.NewSession()
		got := c19Decode(s, []*c19Capture{cp})[0]
		fmt.Println(cp.describe())
		c19PrintGot(cp, got)
		if len(cp.file) <= 1<<16 {
			fmt.Printf("capture hex (%s):\n%s\n", map[bool]string{false: "pcap", true: "pcapng"}[cp.variant.pcapng], hex.EncodeToString(cp.file))
		}
		if len(args) >= 3 {
			_ = os.WriteFile(args[2], cp.file, 0o644)
		}
		sh := &c19Shrinker{s: s, ck: &c19Checker{run: run, quiet: true}}
		for _, f := range (&c19Checker{run: run}).check(cp, got) {
			c19Report(run, sh, cp, f)
		}
		run.Eval(1)
		run.Distinct("case")
		run.Distinct("case2")
		run.Finish()
		return
	}

	ck := &c19Checker{run: run}
	// pinned hand-made captures first (calibration cases kept as regression witnesses)
	{
		s := fqx.NewSession()
		pins := c19Pinned()
		gots := c19Decode(s, pins)
		sh := &c19Shrinker{s: s, ck: &c19Checker{run: run, quiet: true}}
		for i, cp := range pins {
			for _, f := range ck.check(cp, gots[i]) {
				c19Report(run, sh, cp, f)
			}
			run.Eval(1)
			run.Count("pinned", 1)
		}
		s.Close()
	}

	n := run.Pick(1500, 150000)
	if len(args) >= 2 && args[0] == "--n" { // smaller sweeps for mutation runs
		n, _ = strconv.Atoi(args[1])
	}
	const chunk = 8
	starts := make(chan int, 64)
	var wg sync.WaitGroup
	for w := 0; w < runtime.NumCPU(); w++ {
		wg.Add(1)
		go func() {
			defer wg.Done()
			s := fqx.NewSession()
			defer s.Close()
			sh := &c19Shrinker{s: s, ck: &c19Checker{run: run, quiet: true}}
			for st := range starts {
				var caps []*c19Capture
				for id := st; id < st+chunk && id < n; id++ {
					caps = append(caps, c19Generate(run.Seed, id, thorough))
				}
				gots := c19Decode(s, caps)
				for i, cp := range caps {
					c19Observe(run, cp)
					for _, f := range ck.check(cp, gots[i]) {
						c19Report(run, sh, cp, f)
						run.Count("minimised-findings", 1)
					}
					run.Eval(1)
				}
			}
		}()
	}
	for st := 0; st < n; st += chunk {
		starts <- st
	}
	close(starts)
	wg.Wait()
	run.Finish()
}

func c19PrintGot(cp *c19Capture, got c19Got) {
	if got.err != "" {
		fmt.Printf("  ERROR %s\n", got.err)
		return
	}
	for _, g := range got.conns {
		for d := 0; d < 2; d++ {
			fmt.Printf("  fq %s %s:%d skipped=%d start=%v end=%v stream(%d)=%s\n", []string{"client", "server"}[d], g.d[d].ip, g.d[d].port, g.d[d].skipped, g.d[d].hasStart, g.d[d].hasEnd, len(g.d[d].stream), c19Head(g.d[d].stream, 40))
		}
	}
	for _, c := range cp.conns {
		for d := 0; d < 2; d++ {
			w := c19Oracle(c, d)
			fmt.Printf("  want conn %d dir%d %s start=%d len=%d hole=%q@%d syn=%v\n", c.idx, d, c.ep[d], w.start, len(w.stream), w.holeKind, w.holeAt, w.hasSyn)
		}
	}
	for _, b := range got.ip4 {
		fmt.Printf("  ip4 reassembled (%d) %s\n", len(b), c19Head(b, 48))
	}
}

// c19Observe records what the capture contains (so that a generator that silently stops emitting
// a variant is visible in the evidence).
func c19Observe(run *ev.Run, cp *c19Capture) {
	run.Count("class:"+cp.class, 1)
	run.Count("link:"+cp.link.name, 1)
	run.Count("variant:"+cp.variant.name, 1)
	run.Count(fmt.Sprintf("connections:%d", len(cp.conns)), 1)
	run.Count("frames", int64(len(cp.frames)))
	run.Count("capture-bytes", int64(len(cp.file)))
	all := map[string]bool{}
	for _, c := range cp.conns {
		for d := 0; d < 2; d++ {
			for k := range c.ops[d] {
				all[k] = true
				run.Count("op-directions:"+k, 1)
			}
		}
		for k := range c.cops {
			all[k] = true
			run.Count("op-connections:"+k, 1)
		}
	}
	ks := make([]string, 0, len(all))
	for k := range all {
		ks = append(ks, k)
		run.Count("op-captures:"+k, 1)
	}
	sort.Strings(ks)
	for _, f := range cp.frags {
		run.Count(fmt.Sprintf("frag:nfrag:%d", min(f.nfrag, 5)), 1)
	}
	if len(ks) > 0 || len(cp.conns) >= 2 {
		run.Distinct(fmt.Sprintf("%s|%s|%s|%d|%s", cp.link.name, cp.variant.name, cp.class, len(cp.conns), strings.Join(ks, "+")))
	}
	if cp.id < 6 {
		run.Sample(map[string]any{"case": cp.id, "capture": cp.describe()})
	}
}
