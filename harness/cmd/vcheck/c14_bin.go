package main

// C14: hex, base64 ×4, text encodings, hashes.

import (
	"bytes"
	"crypto/md5"
	"crypto/sha1"
	"crypto/sha256"
	"crypto/sha512"
	"encoding/base64"
	"encoding/hex"
	"fmt"
	"hash"
	"strings"
	"unicode/utf16"
	"unicode/utf8"

	"golang.org/x/crypto/md4"
	"golang.org/x/crypto/sha3"

	"verif/gen"
)

// c14Bin describes how a binary is built inside jq and which bytes a byte-oriented consumer must see.
type c14Bin struct {
	in    map[string]any
	expr  string // jq expression over the sub-case input giving the binary
	bytes []byte // byte view: bits zero-padded on the right
	bits  int
	class string
}

func c14Bytes(r *gen.Rand, max int) []byte {
	var n int
	switch r.Intn(8) {
	case 0:
		n = 0
	case 1:
		n = 1 + r.Intn(3)
	case 2:
		n = gen.Pick(r, []int{55, 56, 57, 63, 64, 65, 71, 72, 103, 104, 111, 112, 119, 120, 127, 128, 129, 135, 136, 137, 143, 144, 145, 255, 256})
		if n > max {
			n = max
		}
	default:
		n = r.Intn(max + 1)
	}
	b := r.Bytes(n)
	switch r.Intn(10) {
	case 0:
		for i := range b {
			b[i] = 0xff
		}
	case 1:
		for i := range b {
			b[i] = 0
		}
	case 2:
		for i := range b {
			b[i] = byte(0xf8 + r.Intn(8)) // base64 '+' '/' '-' '_' rich
		}
	case 3:
		for i := range b {
			b[i] = byte(0x20 + r.Intn(0x5f))
		}
	}
	return b
}

func c14ByteArr(b []byte) []any {
	a := make([]any, len(b))
	for i, x := range b {
		a[i] = int(x)
	}
	return a
}

// c14GenBin picks one of the ways fq can be handed a binary.
func c14GenBin(r *gen.Rand, max int) c14Bin {
	b := c14Bytes(r, max)
	switch r.Intn(10) {
	case 0, 1, 2: // from_hex
		return c14Bin{in: map[string]any{"h": hex.EncodeToString(b)}, expr: "(.h | from_hex)", bytes: b, bits: len(b) * 8, class: "bytes:from_hex"}
	case 3, 4: // binary array
		return c14Bin{in: map[string]any{"a": c14ByteArr(b)}, expr: "(.a | tobytes)", bytes: b, bits: len(b) * 8, class: "bytes:array"}
	case 5: // string input (UTF-8 bytes of the text)
		s := c14UniString(r, 40)
		return c14Bin{in: map[string]any{"s": s}, expr: ".s", bytes: []byte(s), bits: len(s) * 8, class: "string"}
	default: // bit slice, start and length not byte aligned
		total := len(b) * 8
		off := 0
		n := total
		if total > 0 {
			off = r.Intn(min(total, 17))
			n = r.Intn(total - off + 1)
			if r.Intn(3) == 0 {
				n = total - off
			}
		}
		out := make([]byte, (n+7)/8)
		for i := 0; i < n; i++ {
			bit := (b[(off+i)>>3] >> (7 - uint((off+i)&7))) & 1
			out[i>>3] |= bit << (7 - uint(i&7))
		}
		cl := "bits:unaligned"
		if off%8 == 0 && n%8 == 0 {
			cl = "bits:aligned-slice"
		}
		return c14Bin{in: map[string]any{"a": c14ByteArr(b), "o": off, "e": off + n}, expr: "(. as $c | $c.a | tobits | .[$c.o:$c.e])", bytes: out, bits: n, class: cl}
	}
}

func c14B64(enc string) *base64.Encoding {
	switch enc {
	case "url":
		return base64.URLEncoding
	case "rawstd":
		return base64.RawStdEncoding
	case "rawurl":
		return base64.RawURLEncoding
	}
	return base64.StdEncoding
}

// c14B64Arg: "" is the arity-0 form (documented default std)
func c14B64Arg(enc string) string {
	if enc == "" {
		return ""
	}
	return fmt.Sprintf("({encoding: %q})", enc)
}

func c14BytesOfResult(v any) ([]byte, bool) {
	a, ok := v.([]any)
	if !ok {
		return nil, false
	}
	b := make([]byte, len(a))
	for i, x := range a {
		n, ok := c14BigOf(x) // indexing a binary gives a *big.Int
		if !ok || n.Sign() < 0 || n.BitLen() > 8 {
			return nil, false
		}
		b[i] = byte(n.Int64())
	}
	return b, true
}

// decoded binary result [bytes, bitlength]
func c14CheckDecoded(t *c14T, o c14Out, sigBase string, want []byte) {
	if !o.ok {
		t.fail(sigBase+":valid-rejected", "valid text rejected: %s", o.err)
		return
	}
	f, ok := c14Fields(o, 2)
	if !ok {
		t.fail(sigBase+":shape", "unexpected result %s", c14Trunc(c14JSON(o.v), 200))
		return
	}
	got, ok := c14BytesOfResult(f[0])
	if !ok || !bytes.Equal(got, want) {
		t.fail(sigBase+":mismatch", "decoded bytes %s want %x", c14Trunc(c14JSON(f[0]), 200), want)
		return
	}
	if n, _ := f[1].(int); n != len(want)*8 {
		t.fail(sigBase+":bitlength", "decoded binary has %v bits, want %d", f[1], len(want)*8)
	}
}

var c14B64Encs = []string{"", "std", "url", "rawstd", "rawurl"}

func c14GenHexB64(w *c14Worker, r *gen.Rand, b *c14Batch, n int) {
	for i := 0; i < n; i++ {
		switch k := r.Intn(20); {
		case k < 4: // to_hex + inverse
			bin := c14GenBin(r, 300)
			want := hex.EncodeToString(bin.bytes)
			b.add(bin.expr+" | to_hex as $t | [$t, ($t | from_hex | c14b)]", &c14Case{pair: "hex", class: "enc:" + bin.class, size: len(bin.bytes), in: bin.in, conv: 2,
				check: func(t *c14T, o c14Out) {
					f, ok := c14Fields(o, 2)
					if !ok {
						t.fail("to_hex:error", "to_hex|from_hex failed: %s %s", o.err, c14Trunc(c14JSON(o.v), 100))
						return
					}
					if s, _ := f[0].(string); s != want {
						t.fail("to_hex:mismatch:"+c14AlignSig(bin), "to_hex of %d bits gave %q want %q", bin.bits, f[0], want)
						return
					}
					if got, ok := c14BytesOfResult(f[1]); !ok || !bytes.Equal(got, bin.bytes) {
						t.fail("hex:roundtrip", "to_hex|from_hex gave %s want %x", c14Trunc(c14JSON(f[1]), 200), bin.bytes)
					}
				}})
		case k < 6: // from_hex of valid text (upper/mixed case)
			raw := c14Bytes(r, 300)
			txt := hex.EncodeToString(raw)
			cl := "dec:lower"
			switch r.Intn(3) {
			case 0:
				txt = strings.ToUpper(txt)
				cl = "dec:upper"
			case 1:
				bs := []byte(txt)
				for j := range bs {
					if r.Bool() {
						bs[j] = strings.ToUpper(string(bs[j]))[0]
					}
				}
				txt = string(bs)
				cl = "dec:mixed"
			}
			b.add("from_hex | [c14b, (tobits | length)]", &c14Case{pair: "hex", class: cl, size: len(raw), in: txt,
				check: func(t *c14T, o c14Out) { c14CheckDecoded(t, o, "from_hex", raw) }})
		case k < 8: // malformed hex
			raw := c14Bytes(r, 40)
			txt := hex.EncodeToString(raw)
			var cl, sig string
			switch r.Intn(4) {
			case 0:
				txt += string("0123456789abcdefABCDEF"[r.Intn(22)])
				cl, sig = "bad:odd-length", "from_hex:odd-length-accepted"
			case 1:
				bad := gen.Pick(r, []string{"g", "G", " ", "x", "-", "\n", "é", "０", ":", "/", "@", "`"})
				p := r.Intn(len(txt) + 1)
				txt = txt[:p] + bad + txt[p:]
				if len(txt)%2 == 1 { // keep the length even so that only the digit is wrong
					txt += "0"
				}
				cl, sig = "bad:digit", "from_hex:bad-digit-accepted"
			case 2:
				txt = "0x" + txt
				cl, sig = "bad:0x-prefix", "from_hex:bad-digit-accepted"
			default:
				bad := gen.Pick(r, []string{"zz", "  ", "0g", "g0", "\t\t"})
				txt = txt + bad
				cl, sig = "bad:digit-pair", "from_hex:bad-digit-accepted"
			}
			b.add("from_hex | [c14b, (tobits | length)]", &c14Case{pair: "hex", class: cl, size: len(txt), in: txt, wantErr: true, check: c14MustErr(sig)})
		case k < 13: // to_base64 + inverse, per encoding
			enc := gen.Pick(r, c14B64Encs)
			bin := c14GenBin(r, 300)
			want := c14B64(enc).EncodeToString(bin.bytes)
			name := enc
			if name == "" {
				name = "default"
			}
			b.add(fmt.Sprintf("%s | to_base64%s as $t | [$t, ($t | from_base64%s | c14b)]", bin.expr, c14B64Arg(enc), c14B64Arg(enc)),
				&c14Case{pair: "base64:" + name, class: fmt.Sprintf("enc:%s:rem%d", bin.class, len(bin.bytes)%3), size: len(bin.bytes), in: bin.in, conv: 2,
					check: func(t *c14T, o c14Out) {
						f, ok := c14Fields(o, 2)
						if !ok {
							t.fail("base64:"+name+":error", "to_base64|from_base64 failed: %s %s", o.err, c14Trunc(c14JSON(o.v), 100))
							return
						}
						if s, _ := f[0].(string); s != want {
							t.fail("base64:"+name+":mismatch", "to_base64 of %d bits (%x) gave %q want %q", bin.bits, bin.bytes, f[0], want)
							return
						}
						if got, ok := c14BytesOfResult(f[1]); !ok || !bytes.Equal(got, bin.bytes) {
							t.fail("base64:"+name+":roundtrip", "to_base64|from_base64 gave %s want %x", c14Trunc(c14JSON(f[1]), 200), bin.bytes)
						}
					}})
		case k < 15: // from_base64 of valid text
			enc := gen.Pick(r, c14B64Encs)
			name := enc
			if name == "" {
				name = "default"
			}
			raw := c14Bytes(r, 300)
			txt := c14B64(enc).EncodeToString(raw)
			b.add(fmt.Sprintf("from_base64%s | [c14b, (tobits | length)]", c14B64Arg(enc)), &c14Case{pair: "base64:" + name, class: fmt.Sprintf("dec:rem%d", len(raw)%3), size: len(raw), in: txt,
				check: func(t *c14T, o c14Out) { c14CheckDecoded(t, o, "from_base64:"+name, raw) }})
		default: // malformed / borderline base64
			c14GenBadB64(r, b)
		}
	}
}

func c14AlignSig(bin c14Bin) string {
	if bin.bits%8 != 0 {
		return "unaligned"
	}
	return "aligned"
}

func c14GenBadB64(r *gen.Rand, b *c14Batch) {
	enc := gen.Pick(r, c14B64Encs)
	name := enc
	if name == "" {
		name = "default"
	}
	e := c14B64(enc)
	isURL := enc == "url" || enc == "rawurl"
	isRaw := enc == "rawstd" || enc == "rawurl"
	filter := fmt.Sprintf("from_base64%s | [c14b, (tobits | length)]", c14B64Arg(enc))
	pair := "base64:" + name
	addBad := func(cl, txt, what string) {
		b.add(filter, &c14Case{pair: pair, class: "bad:" + cl, size: len(txt), in: txt, wantErr: true, check: c14MustErr("from_base64:" + name + ":" + what)})
	}
	raw := c14Bytes(r, 60)
	switch r.Intn(9) {
	case 0: // characters of the other alphabet
		raw = append([]byte{0xfb, 0xff, 0xfe}, raw...) // "+//+" resp. "-__-"
		var txt string
		if isURL {
			txt = c14B64(map[bool]string{true: "rawstd", false: "std"}[isRaw]).EncodeToString(raw)
		} else {
			txt = c14B64(map[bool]string{true: "rawurl", false: "url"}[isRaw]).EncodeToString(raw)
		}
		addBad("other-alphabet", txt, "other-alphabet-accepted")
	case 1: // padding missing in a padded variant / present in a raw variant
		for len(raw)%3 == 0 {
			raw = append(raw, byte(r.Intn(256)))
		}
		if isRaw {
			txt := c14B64(map[bool]string{true: "url", false: "std"}[isURL]).EncodeToString(raw)
			addBad("padding-in-raw", txt, "padding-accepted")
		} else {
			txt := c14B64(map[bool]string{true: "rawurl", false: "rawstd"}[isURL]).EncodeToString(raw)
			addBad("padding-missing", txt, "missing-padding-accepted")
		}
	case 2: // one padding char where two are needed (padded variants)
		raw = append(raw[:len(raw)/3*3], 0x41) // one leftover byte -> "QQ=="
		txt := e.EncodeToString(raw)
		if isRaw {
			txt += "="
			addBad("padding-in-raw", txt, "padding-accepted")
		} else {
			txt = txt[:len(txt)-1]
			addBad("padding-short", txt, "missing-padding-accepted")
		}
	case 3: // a character outside every alphabet
		txt := e.EncodeToString(raw)
		bad := gen.Pick(r, []string{" ", "*", "!", "@", "#", "$", "%", "^", "&", "(", "\t", "\x00", "é", ".", ",", "~"})
		p := r.Intn(len(txt) + 1)
		if strings.HasSuffix(txt, "=") && p > strings.IndexByte(txt, '=') {
			p = 0
		}
		addBad("bad-char", txt[:p]+bad+txt[p:], "bad-char-accepted")
	case 4: // length ≡ 1 mod 4: no byte string encodes to it
		raw = raw[:len(raw)/3*3]
		txt := e.EncodeToString(raw) + "Q"
		addBad("length-1-mod-4", txt, "impossible-length-accepted")
	case 5: // excess padding / data after padding
		raw = append(raw[:len(raw)/3*3], 0x41)
		txt := c14B64(map[bool]string{true: "url", false: "std"}[isURL]).EncodeToString(raw) // "...QQ=="
		if r.Bool() {
			txt += "="
			addBad("excess-padding", txt, "excess-padding-accepted")
		} else {
			txt += "QUJD"
			addBad("data-after-padding", txt, "data-after-padding-accepted")
		}
	case 6: // only padding
		addBad("only-padding", gen.Pick(r, []string{"=", "==", "===", "===="}), "only-padding-accepted")
	case 7: // RFC 4648 §3.3: line feeds may be ignored: error or the canonical value
		txt := e.EncodeToString(raw)
		p := r.Intn(len(txt) + 1)
		nl := gen.Pick(r, []string{"\n", "\r\n", "\r"})
		in := txt[:p] + nl + txt[p:]
		b.add(filter, &c14Case{pair: pair, class: "lenient:newline", size: len(in), in: in, check: func(t *c14T, o c14Out) {
			if o.ok {
				c14CheckDecoded(t, o, "from_base64:"+name+":newline", raw)
			}
		}})
	default: // non-zero trailing bits (§3.5): error or the value of the leading bits
		raw = append(raw[:len(raw)/3*3], byte(r.Intn(256)))
		if r.Bool() {
			raw = append(raw, byte(r.Intn(256)))
		}
		txt := []byte(c14B64(map[bool]string{true: "rawurl", false: "rawstd"}[isURL]).EncodeToString(raw))
		alpha := "ABCDEFGHIJKLMNOPQRSTUVWXYZabcdefghijklmnopqrstuvwxyz0123456789+/"
		if isURL {
			alpha = "ABCDEFGHIJKLMNOPQRSTUVWXYZabcdefghijklmnopqrstuvwxyz0123456789-_"
		}
		last := strings.IndexByte(alpha, txt[len(txt)-1])
		mask := 0xf
		if len(raw)%3 == 2 {
			mask = 0x3
		}
		txt[len(txt)-1] = alpha[last|(1+r.Intn(mask))]
		in := string(txt)
		if !isRaw {
			in += strings.Repeat("=", 3-len(raw)%3)
		}
		b.add(filter, &c14Case{pair: pair, class: "lenient:trailing-bits", size: len(in), in: in, check: func(t *c14T, o c14Out) {
			if o.ok {
				c14CheckDecoded(t, o, "from_base64:"+name+":trailing-bits", raw)
			}
		}})
	}
}

// ---- strings ----

var c14Runes = []rune{0, 1, 9, 10, 13, 0x1f, 0x20, '"', '\\', 0x7e, 0x7f, 0x80, 0x85, 0xa0, 0xe9, 0xff, 0x100, 0x17f, 0x7ff, 0x800, 0x2028, 0x20ac, 0xd7ff, 0xe000, 0xfeff, 0xfffd, 0xfffe, 0xffff, 0x10000, 0x1f600, 0x10ffff}

// c14UniString: valid unicode text over every code-point class (ASCII, Latin-1, BMP, astral = surrogate pairs
// in UTF-16, BOM, noncharacters, NUL).
func c14UniString(r *gen.Rand, max int) string {
	n := r.Intn(max + 1)
	if r.Intn(6) == 0 {
		n = r.Intn(3)
	}
	rs := make([]rune, n)
	mode := r.Intn(6)
	for i := range rs {
		k := r.Intn(12)
		if mode == 0 {
			k = 0
		}
		if mode == 1 {
			k = 9 + r.Intn(3)
		}
		switch {
		case k < 4:
			rs[i] = rune(0x20 + r.Intn(0x5f))
		case k < 6:
			rs[i] = rune(0x80 + r.Intn(0x80))
		case k < 7:
			rs[i] = rune(0x100 + r.Intn(0x700))
		case k < 8:
			rs[i] = rune(0x800 + r.Intn(0xd000))
		case k < 9:
			rs[i] = rune(0xe000 + r.Intn(0x2000))
		case k < 10:
			rs[i] = rune(0x10000 + r.Intn(0x100000))
		default:
			rs[i] = gen.Pick(r, c14Runes)
		}
	}
	if n > 0 && r.Intn(8) == 0 {
		rs[0] = 0xfeff
	}
	return string(rs)
}

func c14Latin1String(r *gen.Rand, max int) string {
	n := r.Intn(max + 1)
	rs := make([]rune, n)
	for i := range rs {
		rs[i] = rune(r.Intn(256))
	}
	return string(rs)
}

func c14StrClass(s string) string {
	astral, bmp, latin, bom := false, false, false, false
	for i, c := range s {
		switch {
		case c == 0xfeff && i == 0:
			bom = true
		case c >= 0x10000:
			astral = true
		case c >= 0x100:
			bmp = true
		case c >= 0x80:
			latin = true
		}
	}
	cl := "ascii"
	switch {
	case astral:
		cl = "astral"
	case bmp:
		cl = "bmp"
	case latin:
		cl = "latin1"
	}
	if bom {
		cl += "+bom"
	}
	if s == "" {
		cl = "empty"
	}
	return cl
}

func c14UTF16(s string, be bool, bom bool) []byte {
	var out []byte
	put := func(u uint16) {
		if be {
			out = append(out, byte(u>>8), byte(u))
		} else {
			out = append(out, byte(u), byte(u>>8))
		}
	}
	if bom {
		put(0xfeff)
	}
	for _, u := range utf16.Encode([]rune(s)) {
		put(u)
	}
	return out
}

func c14FromUTF16(b []byte, be bool) string {
	us := make([]uint16, len(b)/2)
	for i := range us {
		if be {
			us[i] = uint16(b[2*i])<<8 | uint16(b[2*i+1])
		} else {
			us[i] = uint16(b[2*i+1])<<8 | uint16(b[2*i])
		}
	}
	return string(utf16.Decode(us))
}

type c14Enc struct {
	name string
	enc  func(s string) ([]byte, bool)
	dec  func(b []byte) string
}

var c14Encs = []c14Enc{
	{"utf8", func(s string) ([]byte, bool) { return []byte(s), true }, func(b []byte) string { return string(b) }},
	{"utf16", func(s string) ([]byte, bool) { return c14UTF16(s, false, true), true }, func(b []byte) string {
		// UseBOM, default little endian: a BOM selects the byte order and is consumed
		if len(b) >= 2 && b[0] == 0xfe && b[1] == 0xff {
			return c14FromUTF16(b[2:], true)
		}
		if len(b) >= 2 && b[0] == 0xff && b[1] == 0xfe {
			return c14FromUTF16(b[2:], false)
		}
		return c14FromUTF16(b, false)
	}},
	{"utf16le", func(s string) ([]byte, bool) { return c14UTF16(s, false, false), true }, func(b []byte) string { return c14FromUTF16(b, false) }},
	{"utf16be", func(s string) ([]byte, bool) { return c14UTF16(s, true, false), true }, func(b []byte) string { return c14FromUTF16(b, true) }},
	{"iso8859_1", func(s string) ([]byte, bool) {
		out := make([]byte, 0, len(s))
		for _, c := range s {
			if c > 0xff {
				return nil, false
			}
			out = append(out, byte(c))
		}
		return out, true
	}, func(b []byte) string {
		rs := make([]rune, len(b))
		for i, x := range b {
			rs[i] = rune(x)
		}
		return string(rs)
	}},
}

func c14GenStrEnc(w *c14Worker, r *gen.Rand, b *c14Batch, n int) {
	for i := 0; i < n; i++ {
		e := c14Encs[r.Intn(len(c14Encs))]
		pair := "strenc:" + e.name
		switch k := r.Intn(10); {
		case k < 5: // string -> bytes -> string
			s := c14UniString(r, 60)
			if e.name == "iso8859_1" && r.Intn(4) != 0 {
				s = c14Latin1String(r, 80)
			}
			want, ok := e.enc(s)
			filter := fmt.Sprintf("to_%s as $b | [($b | to_hex), ($b | tobits | length), ($b | from_%s)]", e.name, e.name)
			if !ok {
				b.add(filter, &c14Case{pair: pair, class: "enc:unrepresentable", size: len(s), in: s, wantErr: true, check: c14MustErr("to_" + e.name + ":unrepresentable-accepted")})
				continue
			}
			b.add(filter, &c14Case{pair: pair, class: "enc:" + c14StrClass(s), size: len(s), in: s, conv: 2, check: func(t *c14T, o c14Out) {
				f, ok := c14Fields(o, 3)
				if !ok {
					t.fail("to_"+e.name+":error", "to_%s|from_%s failed: %s %s", e.name, e.name, o.err, c14Trunc(c14JSON(o.v), 100))
					return
				}
				// x/text writes the BOM with the first code unit: the empty string encodes to nothing (the BOM is
				// optional in the UTF-16 encoding scheme, both read back as ""): oracle corrected, not loosened
				if e.name == "utf16" && s == "" {
					want = nil
				}
				if h, _ := f[0].(string); h != hex.EncodeToString(want) {
					t.fail("to_"+e.name+":mismatch", "to_%s(%q) gave %v want %x", e.name, s, f[0], want)
					return
				}
				if n, _ := f[1].(int); n != 8*len(want) {
					t.fail("to_"+e.name+":bitlength", "to_%s(%q) has %v bits want %d", e.name, s, f[1], 8*len(want))
					return
				}
				if g, _ := f[2].(string); g != s {
					t.fail("strenc:"+e.name+":roundtrip", "to_%s|from_%s(%q) gave %q", e.name, e.name, s, f[2])
				}
			}})
		case k < 8: // valid encoded bytes (written by the model, BOM variants) -> string
			s := c14UniString(r, 60)
			var enc []byte
			cl := "dec:" + c14StrClass(s)
			switch e.name {
			case "utf16":
				switch r.Intn(3) {
				case 0:
					enc = c14UTF16(s, true, true)
					cl += ":be-bom"
				case 1:
					enc = c14UTF16(s, false, true)
					cl += ":le-bom"
				default:
					s = strings.TrimPrefix(s, "\ufeff") // without BOM a leading U+FEFF would be one
					if len(s) >= 3 && s[:3] == "\xef\xbf\xbe" {
						s = s[3:] // U+FFFE first would read as a big-endian BOM
					}
					enc = c14UTF16(s, false, false)
					cl += ":no-bom"
				}
			case "iso8859_1":
				enc = r.Bytes(r.Intn(80))
				s = e.dec(enc)
				cl = "dec:allbytes"
			default:
				enc, _ = e.enc(s)
			}
			want := e.dec(enc)
			if e.name != "iso8859_1" && want != s && e.name != "utf16" {
				panic("c14: model encoder/decoder disagree")
			}
			bin := c14BinOf(r, enc)
			b.add(fmt.Sprintf("%s | from_%s", bin.expr, e.name), &c14Case{pair: pair, class: cl, size: len(enc), in: bin.in, check: func(t *c14T, o c14Out) {
				if !o.ok {
					t.fail("from_"+e.name+":valid-rejected", "from_%s(%x) failed: %s", e.name, enc, o.err)
					return
				}
				if g, _ := o.v.(string); g != want {
					t.fail("from_"+e.name+":mismatch", "from_%s(%x) gave %q want %q", e.name, enc, o.v, want)
				}
			}})
		default: // ill-formed input: error or U+FFFD replacement, never other text
			if e.name == "iso8859_1" {
				i--
				continue
			}
			s := c14UniString(r, 20)
			enc, _ := e.enc(s)
			var cl string
			switch e.name {
			case "utf8":
				bad := gen.Pick(r, [][]byte{{0xff}, {0xc0, 0x80}, {0xed, 0xa0, 0x80}, {0xf4, 0x90, 0x80, 0x80}, {0xe2, 0x82}, {0x80}, {0xf8, 0x88, 0x80, 0x80, 0x80}})
				p := r.Intn(len(enc) + 1)
				for p < len(enc) && !utf8.RuneStart(enc[p]) {
					p++
				}
				enc = append(append(append([]byte{}, enc[:p]...), bad...), enc[p:]...)
				cl = "illformed:utf8"
			default:
				be := e.name == "utf16be"
				lone := uint16(0xd800 + r.Intn(0x800))
				lb := []byte{byte(lone), byte(lone >> 8)}
				if be {
					lb = []byte{byte(lone >> 8), byte(lone)}
				}
				if r.Bool() {
					enc = append(enc, lb...) // lone surrogate at the end
					cl = "illformed:lone-surrogate"
				} else {
					enc = append(enc, 0x41) // odd number of bytes
					cl = "illformed:odd-length"
				}
			}
			ref := strings.ToValidUTF8(e.dec(enc), "")
			bin := c14BinOf(r, enc)
			b.add(fmt.Sprintf("%s | from_%s", bin.expr, e.name), &c14Case{pair: pair, class: cl, size: len(enc), in: bin.in, check: func(t *c14T, o c14Out) {
				if !o.ok {
					return // an error is fine
				}
				g, _ := o.v.(string)
				// the well-formed part must be intact and the ill-formed part must not turn into other text
				// (decoders differ in how many U+FFFD they emit per ill-formed sequence: compare without them)
				if c14SquashFFFD(g) != c14SquashFFFD(ref) {
					t.fail("from_"+e.name+":illformed-wrong-text", "from_%s(%x) gave %q; model (U+FFFD per ill-formed unit) %q", e.name, enc, g, ref)
				}
			}})
		}
	}
}

// c14SquashFFFD removes U+FFFD (decoders differ in how many they emit per ill-formed sequence).
func c14SquashFFFD(s string) string {
	return strings.ReplaceAll(s, "\ufffd", "")
}

func c14BinOf(r *gen.Rand, b []byte) c14Bin {
	if r.Bool() {
		return c14Bin{in: map[string]any{"h": hex.EncodeToString(b)}, expr: "(.h | from_hex)", bytes: b, bits: len(b) * 8}
	}
	return c14Bin{in: map[string]any{"a": c14ByteArr(b)}, expr: "(.a | tobytes)", bytes: b, bits: len(b) * 8}
}

// ---- hashes ----

var c14Hashes = []struct {
	name string
	mk   func() hash.Hash
	py   bool
}{
	{"md4", md4.New, true},
	{"md5", md5.New, true},
	{"sha1", sha1.New, true},
	{"sha256", sha256.New, true},
	{"sha512", sha512.New, true},
	{"sha3_224", sha3.New224, true},
	{"sha3_256", sha3.New256, true},
	{"sha3_384", sha3.New384, true},
	{"sha3_512", sha3.New512, true},
}

func c14GenHash(w *c14Worker, r *gen.Rand, b *c14Batch, n int) {
	var fs []string
	for _, h := range c14Hashes {
		fs = append(fs, "to_"+h.name)
	}
	for i := 0; i < n; i++ {
		max := 300
		if r.Intn(25) == 0 {
			max = 20000
		}
		bin := c14GenBin(r, max)
		want := make([]string, len(c14Hashes))
		for j, h := range c14Hashes {
			hh := h.mk()
			hh.Write(bin.bytes)
			want[j] = hex.EncodeToString(hh.Sum(nil))
		}
		var pyWant map[string]string
		if w.py != nil {
			pyWant = w.py.hashes(bin.bytes)
		}
		filter := fmt.Sprintf("%s as $b | [$b | %s | [to_hex, (tobits | length)]]", bin.expr, strings.Join(fs, ", "))
		b.add(filter, &c14Case{pair: "hash", class: bin.class, size: len(bin.bytes), in: bin.in, conv: len(c14Hashes), check: func(t *c14T, o c14Out) {
			f, ok := c14Fields(o, len(c14Hashes))
			if !ok {
				t.fail("hash:error", "hash functions failed: %s %s", o.err, c14Trunc(c14JSON(o.v), 100))
				return
			}
			for j, h := range c14Hashes {
				pr, _ := f[j].([]any)
				if len(pr) != 2 {
					t.fail("hash:"+h.name+":shape", "unexpected result %s", c14JSON(f[j]))
					continue
				}
				t.run.Count("hash:"+h.name, 1)
				if g, _ := pr[0].(string); g != want[j] {
					t.fail("hash:"+h.name+":mismatch:"+c14AlignSig(bin), "to_%s over %d bits gave %s want %s", h.name, bin.bits, g, want[j])
				}
				if nb, _ := pr[1].(int); nb != len(want[j])*4 {
					t.fail("hash:"+h.name+":bitlength", "to_%s result has %v bits", h.name, pr[1])
				}
				if pyWant != nil {
					if pw, ok := pyWant[h.name]; ok {
						t.run.Count("hash:"+h.name+":python", 1)
						if g, _ := pr[0].(string); g != pw {
							t.fail("hash:"+h.name+":python-mismatch", "to_%s over %d bits gave %s, Python says %s", h.name, bin.bits, g, pw)
						}
					}
				}
			}
		}})
	}
}
