package main

// C15 png: image/png writes the image; tEXt / zTXt (compress/zlib, thorough: Python zlib) / pHYs / gAMA chunks are
// inserted by hand after IHDR (PNG spec §5.3: length, type, data, CRC-32 over type+data).
//
// fq does not inflate IDAT. The harness takes the IDAT `data` fields fq reports, concatenates and inflates them,
// undoes the scanline filters (PNG spec §9, hand-written) and compares the pixels with the source image.

import (
	"bytes"
	"compress/zlib"
	"encoding/binary"
	"encoding/hex"
	"fmt"
	"hash/crc32"
	"image"
	"image/color"
	"image/png"
	"io"

	"verif/gen"
)

type c15PngChunk struct {
	typ  string
	off  int // offset of the length field
	data []byte
}

type c15PngExp struct {
	w, h            int
	depth, ctype    int
	rows            [][]byte // expected unfiltered scanlines
	palette         []color.Color
	chunks          []c15PngChunk // by the harness's own walk
	text            map[string]string
	ztext           map[string]string
	physX, physY    uint32
	hasPhys, hasGam bool
	gamma           uint32
}

func init() {
	c15Register(&c15Format{
		name: "png",
		gen:  c15GenPng,
		jq: `{chunks: [.chunks[]? | {type, length, crc: (.crc|av), crc_description: (.crc|ds), width, height, bit_depth, color_type: (.color_type|av), color_type_sym: (.color_type|sv), ` +
			`compression_method: (.compression_method|av), filter_method: (.filter_method|av), interlace_method: (.interlace_method|av), ` +
			`keyword, text, ztext: .uncompressed.text?, x_pixels_per_unit, y_pixels_per_unit, unit, value, ` +
			`palette: (if .palette == null then null else [.palette[] | [.r, .g, .b]] end), alphas: (if .alphas == null then null else [.alphas[]] end), data: (.data|hx)}]}`,
		cks:     `[.chunks[]? | (.crc|ds)]`,
		compare: c15CmpPng,
		ref:     c15RefPng,
	})
}

func c15PngChunkBytes(typ string, data []byte) []byte {
	out := make([]byte, 8, 12+len(data))
	binary.BigEndian.PutUint32(out, uint32(len(data)))
	copy(out[4:], typ)
	out = append(out, data...)
	// CRC-32 (ISO 3309) over type and data; table-free bitwise form, independent of hash/crc32
	crc := ^uint32(0)
	for _, b := range out[4:] {
		crc ^= uint32(b)
		for k := 0; k < 8; k++ {
			if crc&1 != 0 {
				crc = crc>>1 ^ 0xedb88320
			} else {
				crc >>= 1
			}
		}
	}
	return binary.BigEndian.AppendUint32(out, ^crc)
}

func c15GenPng(c *c15Ctx, r *gen.Rand, small bool) *c15File {
	opts := map[string]bool{}
	w, h := 1+r.Intn(40), 1+r.Intn(30)
	switch {
	case small:
		w, h = 1+r.Intn(4), 1+r.Intn(3)
	case r.Intn(8) == 0:
		w, h = 1+r.Intn(300), 1+r.Intn(200)
	case r.Intn(8) == 0:
		w, h = 1, 1
	}
	exp := &c15PngExp{w: w, h: h, text: map[string]string{}, ztext: map[string]string{}}
	rect := image.Rect(0, 0, w, h)
	var img image.Image
	noise := r.Intn(3) != 0 // random pixels (incompressible) or a smooth gradient (compressible)
	px := func(x, y, ch int) uint16 {
		if noise {
			return uint16(r.U64())
		}
		return uint16((x*7 + y*13 + ch*31) * 257)
	}
	mode := r.Intn(9)
	switch mode {
	case 0:
		m := image.NewGray(rect)
		for y := 0; y < h; y++ {
			for x := 0; x < w; x++ {
				m.Pix[y*m.Stride+x] = byte(px(x, y, 0))
			}
		}
		img, exp.depth, exp.ctype = m, 8, 0
		exp.rows = c15Rows(m.Pix, m.Stride, w, h)
	case 1:
		m := image.NewGray16(rect)
		for i := range m.Pix {
			m.Pix[i] = byte(px(i, i/7, 0))
		}
		img, exp.depth, exp.ctype = m, 16, 0
		exp.rows = c15Rows(m.Pix, m.Stride, w*2, h)
	case 2, 3:
		// NRGBA: opaque -> truecolour (2), otherwise truecolour with alpha (6)
		m := image.NewNRGBA(rect)
		opaque := mode == 2
		for i := range m.Pix {
			m.Pix[i] = byte(px(i, i/5, i%4))
			if i%4 == 3 && opaque {
				m.Pix[i] = 0xff
			}
		}
		if !opaque {
			m.Pix[3] = 0x7f // at least one non-opaque pixel
			exp.depth, exp.ctype = 8, 6
			exp.rows = c15Rows(m.Pix, m.Stride, w*4, h)
		} else {
			exp.depth, exp.ctype = 8, 2
			rgb := make([]byte, 0, w*h*3)
			for i := 0; i < len(m.Pix); i += 4 {
				rgb = append(rgb, m.Pix[i], m.Pix[i+1], m.Pix[i+2])
			}
			exp.rows = c15Rows(rgb, w*3, w*3, h)
		}
		img = m
	case 4, 5:
		m := image.NewNRGBA64(rect)
		opaque := mode == 4
		for i := range m.Pix {
			m.Pix[i] = byte(px(i, i/3, i%8))
			if i%8 >= 6 && opaque {
				m.Pix[i] = 0xff
			}
		}
		if !opaque {
			m.Pix[6], m.Pix[7] = 0x12, 0x34
			exp.depth, exp.ctype = 16, 6
			exp.rows = c15Rows(m.Pix, m.Stride, w*8, h)
		} else {
			exp.depth, exp.ctype = 16, 2
			rgb := make([]byte, 0, w*h*6)
			for i := 0; i < len(m.Pix); i += 8 {
				rgb = append(rgb, m.Pix[i:i+6]...)
			}
			exp.rows = c15Rows(rgb, w*6, w*6, h)
		}
		img = m
	default:
		// paletted: palette size decides the bit depth (<=2: 1, <=4: 2, <=16: 4, else 8)
		n := gen.Pick(r, []int{1, 2, 3, 4, 5, 16, 17, 200, 256})
		pal := make(color.Palette, n)
		alpha := r.Intn(3) == 0
		for i := range pal {
			a := uint8(0xff)
			if alpha && i%2 == 0 {
				a = uint8(r.Intn(256))
			}
			pal[i] = color.NRGBA{uint8(r.Intn(256)), uint8(r.Intn(256)), uint8(r.Intn(256)), a}
		}
		m := image.NewPaletted(rect, pal)
		for i := range m.Pix {
			m.Pix[i] = byte(int(px(i, i/9, 0)) % n)
		}
		switch {
		case n <= 2:
			exp.depth = 1
		case n <= 4:
			exp.depth = 2
		case n <= 16:
			exp.depth = 4
		default:
			exp.depth = 8
		}
		exp.ctype = 3
		exp.palette = pal
		// pack indices MSB first
		for y := 0; y < h; y++ {
			row := make([]byte, (w*exp.depth+7)/8)
			for x := 0; x < w; x++ {
				v := m.Pix[y*m.Stride+x]
				bit := x * exp.depth
				row[bit/8] |= v << (8 - exp.depth - bit%8)
			}
			exp.rows = append(exp.rows, row)
		}
		img = m
		opts[fmt.Sprintf("palette%d", n)] = true
		if alpha {
			opts["trns"] = true
		}
	}
	opts[fmt.Sprintf("ctype%d-depth%d", exp.ctype, exp.depth)] = true
	if w*h > 10000 {
		opts["large"] = true
	}
	if w == 1 && h == 1 {
		opts["1x1"] = true
	}
	lvl := gen.Pick(r, []png.CompressionLevel{png.DefaultCompression, png.NoCompression, png.BestSpeed, png.BestCompression})
	opts[fmt.Sprintf("level%d", -int(lvl))] = true
	var buf bytes.Buffer
	enc := png.Encoder{CompressionLevel: lvl}
	if err := enc.Encode(&buf, img); err != nil {
		panic(err)
	}
	data := buf.Bytes()
	// extra chunks after IHDR (8 signature + 25 IHDR bytes)
	var ins []byte
	if !small || r.Intn(2) == 0 {
		if r.Intn(2) == 0 {
			k, v := "Title"+c15ASCII(r, r.Intn(5)), string(c15Text(r, r.Intn(60)))
			exp.text[k] = v
			ins = append(ins, c15PngChunkBytes("tEXt", append(append([]byte(k), 0), v...))...)
			opts["tEXt"] = true
		}
		if r.Intn(2) == 0 {
			k := "Comment" + c15ASCII(r, r.Intn(5))
			var raw []byte
			if small {
				raw = c15Text(r, r.Intn(30))
			} else {
				raw, _ = c15Payload(r, false)
				// text only: fq shows the inflated stream as a UTF-8 string
				raw = c15Text(r, len(raw)%9000)
			}
			level := gen.Pick(r, []int{-2, -1, 0, 1, 2, 3, 4, 5, 6, 7, 8, 9})
			var zb bytes.Buffer
			if c.py != nil && r.Intn(2) == 0 {
				if level < 0 {
					level = 6
				}
				z, _, err := c.py.write("zlib", map[string]any{"data": c15B64(raw), "level": level})
				if err != nil {
					panic(err)
				}
				zb.Write(z)
				opts["zTXt-python-zlib"] = true
			} else {
				zw, err := zlib.NewWriterLevel(&zb, level)
				if err != nil {
					panic(err)
				}
				zw.Write(raw)
				zw.Close()
				opts[fmt.Sprintf("zTXt-level%d", level)] = true
			}
			exp.ztext[k] = string(raw)
			ins = append(ins, c15PngChunkBytes("zTXt", append(append([]byte(k), 0, 0), zb.Bytes()...))...)
		}
		if r.Intn(3) == 0 {
			exp.hasPhys, exp.physX, exp.physY = true, uint32(r.Intn(100000)), uint32(r.Intn(100000))
			d := binary.BigEndian.AppendUint32(nil, exp.physX)
			d = binary.BigEndian.AppendUint32(d, exp.physY)
			ins = append(ins, c15PngChunkBytes("pHYs", append(d, 1))...)
			opts["pHYs"] = true
		}
		if r.Intn(3) == 0 {
			exp.hasGam, exp.gamma = true, uint32(r.Intn(200000))
			ins = append(ins, c15PngChunkBytes("gAMA", binary.BigEndian.AppendUint32(nil, exp.gamma))...)
			opts["gAMA"] = true
		}
	}
	if len(ins) > 0 {
		out := append([]byte(nil), data[:33]...)
		out = append(out, ins...)
		data = append(out, data[33:]...)
	}
	f := &c15File{format: "png", writer: "go", members: 1, data: data, exp: exp}
	// own chunk walk
	p := 8
	nIdat := 0
	for p+12 <= len(data) {
		l := int(binary.BigEndian.Uint32(data[p:]))
		typ := string(data[p+4 : p+8])
		exp.chunks = append(exp.chunks, c15PngChunk{typ: typ, off: p, data: data[p+8 : p+8+l]})
		if typ == "IDAT" {
			nIdat++
		}
		f.regions = append(f.regions,
			c15Region{name: "chunk-length", off: p, n: 4},
			c15Region{name: "chunk-type", off: p + 4, n: 4, uncond: true})
		if l > 0 {
			f.regions = append(f.regions, c15Region{name: "chunk-data", off: p + 8, n: l, uncond: true})
		}
		f.regions = append(f.regions, c15Region{name: "chunk-crc", off: p + 8 + l, n: 4, uncond: true})
		p += 12 + l
	}
	if p != len(data) {
		panic("png generator: chunk walk")
	}
	if nIdat > 1 {
		opts["multi-IDAT"] = true
	}
	f.members = len(exp.chunks)
	for _, row := range exp.rows {
		f.payload += int64(len(row))
	}
	f.opts = c15Opts(opts)
	return f
}

func c15Rows(pix []byte, stride, rowBytes, h int) [][]byte {
	rows := make([][]byte, h)
	for y := 0; y < h; y++ {
		rows[y] = pix[y*stride : y*stride+rowBytes]
	}
	return rows
}

// c15Unfilter reverses the PNG scanline filters (spec §9.2): 0 None, 1 Sub, 2 Up, 3 Average, 4 Paeth.
func c15Unfilter(raw []byte, rowBytes, h, bpp int) ([][]byte, error) {
	if len(raw) != h*(rowBytes+1) {
		return nil, fmt.Errorf("inflated IDAT is %d bytes, want %d rows of 1+%d", len(raw), h, rowBytes)
	}
	prev := make([]byte, rowBytes)
	rows := make([][]byte, h)
	for y := 0; y < h; y++ {
		ft := raw[y*(rowBytes+1)]
		cur := append([]byte(nil), raw[y*(rowBytes+1)+1:(y+1)*(rowBytes+1)]...)
		for i := range cur {
			var a, b, c int
			if i >= bpp {
				a = int(cur[i-bpp])
				c = int(prev[i-bpp])
			}
			b = int(prev[i])
			switch ft {
			case 0:
			case 1:
				cur[i] += byte(a)
			case 2:
				cur[i] += byte(b)
			case 3:
				cur[i] += byte((a + b) / 2)
			case 4:
				p := a + b - c
				pa, pb, pc := c15Abs(p-a), c15Abs(p-b), c15Abs(p-c)
				switch {
				case pa <= pb && pa <= pc:
					cur[i] += byte(a)
				case pb <= pc:
					cur[i] += byte(b)
				default:
					cur[i] += byte(c)
				}
			default:
				return nil, fmt.Errorf("row %d has filter type %d", y, ft)
			}
		}
		rows[y] = cur
		prev = cur
	}
	return rows, nil
}

func c15Abs(x int) int {
	if x < 0 {
		return -x
	}
	return x
}

func c15CmpPng(c *c15Ctx, f *c15File, got map[string]any) []c15Diff {
	exp := f.exp.(*c15PngExp)
	var diffs []c15Diff
	var es []any
	for _, ch := range exp.chunks {
		e := map[string]any{"type": ch.typ, "length": len(ch.data), "crc_description": "valid",
			"crc": binary.BigEndian.Uint32(f.data[ch.off+8+len(ch.data):])}
		switch ch.typ {
		case "IHDR":
			e["width"], e["height"], e["bit_depth"], e["color_type"] = exp.w, exp.h, exp.depth, exp.ctype
			e["color_type_sym"] = map[int]string{0: "grayscale", 2: "rgb", 3: "palette", 4: "grayscale_alpha", 6: "rgba"}[exp.ctype]
			e["compression_method"], e["filter_method"], e["interlace_method"] = 0, 0, 0
		case "PLTE":
			var pal []any
			for _, col := range exp.palette {
				n := col.(color.NRGBA)
				pal = append(pal, []any{int(n.R), int(n.G), int(n.B)})
			}
			e["palette"] = pal
		case "tRNS":
			if exp.ctype == 3 {
				var al []any
				for _, b := range ch.data {
					al = append(al, int(b))
				}
				e["alphas"] = al
				// and they are the palette's alphas
				for i, b := range ch.data {
					if exp.palette[i].(color.NRGBA).A != b {
						panic("png generator: tRNS does not hold the palette alphas")
					}
				}
			}
		case "tEXt":
			k := string(ch.data[:bytes.IndexByte(ch.data, 0)])
			e["keyword"], e["text"] = k, exp.text[k]
		case "zTXt":
			k := string(ch.data[:bytes.IndexByte(ch.data, 0)])
			e["keyword"], e["ztext"] = k, exp.ztext[k]
		case "pHYs":
			e["x_pixels_per_unit"], e["y_pixels_per_unit"], e["unit"] = exp.physX, exp.physY, 1
		case "gAMA":
			e["value"] = exp.gamma
		case "IDAT":
			e["data"] = c15Hex(ch.data)
		}
		es = append(es, e)
	}
	c15Cmp("png", "", map[string]any{"chunks": es}, got, &diffs)
	if len(diffs) > 0 {
		return diffs
	}
	// pixels, from what fq reports
	var idat []byte
	gc, _ := got["chunks"].([]any)
	for _, x := range gc {
		m, _ := x.(map[string]any)
		if m["type"] == "IDAT" {
			s, _ := m["data"].(string)
			b, _ := hex.DecodeString(s)
			idat = append(idat, b...)
		}
	}
	zr, err := zlib.NewReader(bytes.NewReader(idat))
	if err != nil {
		return []c15Diff{{sig: "mismatch:png:idat-stream", desc: "png: the IDAT data fq reports is not a zlib stream: " + err.Error()}}
	}
	raw, err := io.ReadAll(zr)
	if err != nil {
		return []c15Diff{{sig: "mismatch:png:idat-stream", desc: "png: the IDAT data fq reports does not inflate: " + err.Error()}}
	}
	channels := map[int]int{0: 1, 2: 3, 3: 1, 4: 2, 6: 4}[exp.ctype]
	bpp := max(1, channels*exp.depth/8)
	rowBytes := (exp.w*channels*exp.depth + 7) / 8
	rows, err := c15Unfilter(raw, rowBytes, exp.h, bpp)
	if err != nil {
		return []c15Diff{{sig: "mismatch:png:idat-stream", desc: "png: " + err.Error()}}
	}
	for y := range rows {
		if !bytes.Equal(rows[y], exp.rows[y]) {
			return []c15Diff{{sig: "mismatch:png:pixels", desc: fmt.Sprintf("png %dx%d colour type %d depth %d: scanline %d rebuilt from fq's IDAT data differs from the stored image", exp.w, exp.h, exp.ctype, exp.depth, y)}}
		}
	}
	return nil
}

// c15RefPng: image/png decodes the whole image (chunk CRCs, zlib adler32) after a hand-written check of every
// chunk CRC (image/png skips the CRC of nothing, but ignores bytes after IEND).
func c15RefPng(f *c15File, data []byte) error {
	if len(data) < 8 || string(data[:8]) != "\x89PNG\r\n\x1a\n" {
		return fmt.Errorf("signature")
	}
	p := 8
	for {
		if p+12 > len(data) {
			return fmt.Errorf("truncated chunk at %d", p)
		}
		l := int(binary.BigEndian.Uint32(data[p:]))
		if l < 0 || p+12+l > len(data) {
			return fmt.Errorf("chunk length at %d", p)
		}
		if crc32.ChecksumIEEE(data[p+4:p+8+l]) != binary.BigEndian.Uint32(data[p+8+l:]) {
			return fmt.Errorf("chunk crc at %d", p)
		}
		if string(data[p+4:p+8]) == "IEND" {
			break
		}
		p += 12 + l
	}
	_, err := png.Decode(bytes.NewReader(data))
	return err
}
