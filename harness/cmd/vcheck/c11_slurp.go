package main

// C11, monitor 4 — the REPL slurp rewrite end to end: `P | slurp("v")` rewrites the user's query (the trailing
// slurp call is cut off and the rest is evaluated and collected). `$v` must be exactly the outputs of P as
// vanilla gojq produces them, for P of every top-level shape that the rewrite has to see through (pipes
// inside `as` bindings, reduce/foreach, function definitions, comma, alternative, label).

import (
	"context"
	"fmt"
	"strings"

	"github.com/wader/gojq"

	"verif/ev"
	"verif/fqx"
	"verif/gen"
	"verif/vos"
)

func c11SlurpProgram(rng *gen.Rand) (string, string) {
	a, b, c := 1+rng.Intn(9), 2+rng.Intn(7), 1+rng.Intn(5)
	forms := []struct{ kind, p string }{
		{"bind-pipe", fmt.Sprintf("%d as $x | $x+%d", a, b)},
		{"bind-pipe-pipe", fmt.Sprintf("%d as $x | $x+%d | . * %d", a, b, c)},
		{"bind-bind-pipe", fmt.Sprintf("%d as $x | %d as $y | [$x,$y] | add | . - %d", a, b, c)},
		{"bind-comma-pipe", fmt.Sprintf("(%d,%d) as $x | $x | . + %d", a, b, c)},
		{"destructure-pipe", fmt.Sprintf("[%d,%d] as [$p,$q] | $p * $q | tostring", a, b)},
		{"object-destructure-pipe", fmt.Sprintf("{a:%d,b:%d} as {a:$p,$b} | [$p,$b] | map(. + %d) | .[]", a, b, c)},
		{"pipe", fmt.Sprintf("%d | . + %d | . * %d", a, b, c)},
		{"comma", fmt.Sprintf("%d, %d, %d", a, b, c)},
		{"comma-pipe", fmt.Sprintf("(%d, %d) | . + %d", a, b, c)},
		{"reduce", fmt.Sprintf("reduce range(%d) as $i (%d; . + $i) | . * %d", a, b, c)},
		{"foreach", fmt.Sprintf("foreach range(%d) as $i (%d; . + $i; [$i, .]) | add", 1+a%4, b)},
		{"def-pipe", fmt.Sprintf("def f: . + %d; %d | f | f", b, a)},
		{"def-bind", fmt.Sprintf("def f($v): $v * %d; %d as $x | f($x) | . - %d", b, a, c)},
		{"alternative", fmt.Sprintf("(null // %d) | . + %d", a, b)},
		{"if", fmt.Sprintf("if %d > %d then %d as $x | $x + 1 | . * 2 else %d end", a, b, c, c)},
		{"label", fmt.Sprintf("label $out | (%d, %d, %d) | if . == %d then break $out else . end", a, b, c, b)},
		{"try", fmt.Sprintf("try (%d as $x | error($x)) catch . | . + %d", a, b)},
		{"string-interp", fmt.Sprintf("%d as $x | \"v\\($x + %d)\" | ascii_upcase", a, b)},
		{"nested-bind-in-array", fmt.Sprintf("[%d as $x | $x, $x + %d] | map(. * %d) | add", a, b, c)},
		{"optional", fmt.Sprintf("[%d, \"s\"] as $x | $x[] | tonumber? | . + %d", a, b)},
	}
	f := forms[rng.Intn(len(forms))]
	return f.kind, f.p
}

func c11VanillaOutputs(p string) ([]string, bool) {
	q, err := gojq.Parse(p)
	if err != nil {
		return nil, false
	}
	code, err := gojq.Compile(q)
	if err != nil {
		return nil, false
	}
	it := code.Run(nil)
	var outs []string
	for i := 0; i < 200; i++ {
		v, ok := it.Next()
		if !ok {
			return outs, true
		}
		if _, isErr := v.(error); isErr {
			return nil, false // programs that fail are outside this monitor
		}
		b, err := gojq.Marshal(v)
		if err != nil {
			return nil, false
		}
		outs = append(outs, string(b))
	}
	return nil, false
}

func c11Slurp(run *ev.Run) {
	n := run.Pick(120, 3000)
	for id := 0; id < n; id++ {
		rng := gen.New(run.Seed).Fork(0xC1150000 + uint64(id))
		kind, p := c11SlurpProgram(rng)
		want, ok := c11VanillaOutputs(p)
		if !ok {
			continue
		}
		o := vos.New("-n", "-i")
		o.Lines = []string{p + ` | slurp("v")`, `$v | tojson`, "^D"}
		var res vos.Result
		pi := guardStack(func() { res = o.RunMain(context.Background(), fqx.Registry()) })
		run.Eval(1)
		run.Count("slurp:sessions", 1)
		run.Count("slurp:form:"+kind, 1)
		if pi != nil {
			run.Violation("slurp:panic", fmt.Sprintf("REPL `%s | slurp(\"v\")` panicked: %v", p, pi.Value), map[string]any{"program": p})
			continue
		}
		wantLine := "\"[" + strings.ReplaceAll(strings.Join(want, ","), `"`, `\"`) + "]\""
		out := string(res.Stdout)
		if !strings.Contains(out, wantLine) {
			run.Violation("slurp:"+kind+":value-mismatch", fmt.Sprintf("REPL `%s | slurp(\"v\")` then `$v | tojson`: expected %s (outputs of the program in the reference engine); transcript:\n%s\nstderr: %s", p, wantLine, trunc(out, 500), trunc(string(res.Stderr), 300)), map[string]any{"program": p})
			continue
		}
		run.Distinct("slurp:" + p)
	}
	run.Sample(map[string]any{"monitor": "repl-slurp", "lines": []string{`3 as $x | $x+4 | . * 2 | slurp("v")`, `$v | tojson`}})
}
