package main

import (
	"fmt"
	"time"

	"verif/fqx"
)

func init() { register("selftest", selftestMain) }

func selftestMain(args []string) {
	s := fqx.NewSession()
	defer s.Close()
	t := time.Now()
	outs, err := s.Eval(nil, args[0])
	fmt.Printf("%v\nerr=%v %v\n", outs, err, time.Since(t))
}
