package main

import (
	"context"
	"fmt"
	"time"

	"verif/fqx"
	"verif/vos"
)

func init() { register("selftest", selftestMain) }

func selftestMain(args []string) {
	s := fqx.NewSession()
	defer s.Close()
	t := time.Now()
	outs, err := s.Eval(nil, `[1,2,3] | map(.+1), ("1f8b" | from_hex | tobytes | length)`)
	fmt.Println(outs, err, time.Since(t))
	t = time.Now()
	outs, err = s.Eval(nil, `"0a" | from_hex | decode("msgpack") | torepr`)
	fmt.Printf("%#v %v %v\n", outs, err, time.Since(t))
	o := vos.New("-d", "msgpack", "torepr", "f.bin")
	o.Files["f.bin"] = []byte{0x93, 1, 2, 3}
	res := o.RunMain(context.Background(), fqx.Registry())
	fmt.Println(res.String())
}
