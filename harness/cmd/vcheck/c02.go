package main

// C02 — scalar readers return the mathematical value of the bits they consume.
// A harness-defined format runs inside decode.Decode; its DecodeFn seeks to the start alignment and
// calls the reader under test BY REFLECTION over the real method set of *decode.D. Three assertions per
// call: value (independent big-integer / IEEE / LEB128 arithmetic on the bit string), position advanced by
// exactly the bits consumed, and for Field* styles a child with that name, range and actual value.
// Unsatisfiable reads must fail (returned error or recoverable decode panic), never return a value.

import (
	"context"
	"fmt"
	"math"
	"math/big"
	"reflect"
	"regexp"
	"runtime/debug"
	"strconv"
	"strings"
	"unicode/utf16"

	"github.com/wader/fq/pkg/bitio"
	"github.com/wader/fq/pkg/decode"
	"github.com/wader/fq/pkg/scalar"

	"verif/ev"
	"verif/gen"
)

func init() { register("C02", c02Main) }

// one reader call: method name + non-name arguments; expectation computed by the oracle
type c02Call struct {
	Method string
	Args   []any // after the optional field name
	Align  int64 // start bit
	Endian decode.Endian
	// expectation
	WantErr  bool
	Want     any    // uint64, int64, *big.Int, float64 (with tolerance kind), string, bool
	WantBits int64  // bits consumed
	FloatTol string // "", "exact", "faithful" (either neighbour)
	Class    string // signature class, e.g. "U:width37:align5"
	OnlyPos  bool   // value outside the property's domain: only no-crash + position
}

type c02Result struct {
	Val      any
	Err      error
	Pos      int64
	Panicked any
	Field    *decode.Value
}

var c02MethodRe = regexp.MustCompile(`^(Try)?(Field)?(Scalar)?`)

// c02Invoke calls the method on d; field styles get a unique name.
func c02Invoke(d *decode.D, c c02Call, fieldName string) (res c02Result) {
	defer func() {
		if r := recover(); r != nil {
			switch r.(type) {
			case decode.IOError, decode.DecoderError:
				res.Err = fmt.Errorf("%v", r)
			default:
				if e, ok := r.(error); ok && strings.Contains(fmt.Sprintf("%T", r), "decode.") {
					res.Err = e
				} else {
					res.Panicked = fmt.Sprintf("%v\n%s", r, trunc(string(debug.Stack()), 1800))
				}
			}
		}
		if p, err := d.TryPos(); err == nil {
			res.Pos = p
		}
	}()
	d.Endian = c.Endian
	d.SeekAbs(c.Align)
	m := reflect.ValueOf(d).MethodByName(c.Method)
	if !m.IsValid() {
		res.Err = fmt.Errorf("no such method %s", c.Method)
		return
	}
	var in []reflect.Value
	isField := strings.Contains(c.Method, "Field")
	if isField {
		in = append(in, reflect.ValueOf(fieldName))
	}
	mt := m.Type()
	for i, a := range c.Args {
		idx := len(in)
		_ = i
		want := mt.In(idx)
		in = append(in, reflect.ValueOf(a).Convert(want))
	}
	out := m.Call(in)
	for _, o := range out {
		if o.Type().Implements(reflect.TypeOf((*error)(nil)).Elem()) {
			if !o.IsNil() {
				res.Err = o.Interface().(error)
			}
			continue
		}
		res.Val = o.Interface()
	}
	if isField && res.Err == nil {
		if cc, ok := d.Value.V.(*decode.Compound); ok && cc.ByName != nil {
			res.Field = cc.ByName[fieldName]
		}
	}
	return
}

// scalarActual extracts the plain value from *scalar.X results of FieldScalar* styles.
func c02Plain(v any) any {
	switch s := v.(type) {
	case *scalar.Uint:
		return s.Actual
	case *scalar.Sint:
		return s.Actual
	case *scalar.BigInt:
		return s.Actual
	case *scalar.Flt:
		return s.Actual
	case *scalar.Str:
		return s.Actual
	case *scalar.Bool:
		return s.Actual
	}
	return v
}

func c02Eq(got, want any, tol string) bool {
	switch w := want.(type) {
	case uint64:
		g, ok := got.(uint64)
		return ok && g == w
	case int64:
		g, ok := got.(int64)
		return ok && g == w
	case *big.Int:
		g, ok := got.(*big.Int)
		return ok && g != nil && g.Cmp(w) == 0
	case bool:
		g, ok := got.(bool)
		return ok && g == w
	case string:
		g, ok := got.(string)
		return ok && g == w
	case float64:
		g, ok := got.(float64)
		if !ok {
			return false
		}
		if math.IsNaN(w) {
			return math.IsNaN(g)
		}
		if g == w && math.Signbit(g) == math.Signbit(w) {
			return true
		}
		if tol == "faithful" {
			return g == math.Nextafter(w, math.Inf(1)) || g == math.Nextafter(w, math.Inf(-1))
		}
		return false
	}
	return false
}

// bitsValue: unsigned value of n bits at off
func c02U(s bstr, off, n int64) *big.Int {
	v := new(big.Int)
	for i := int64(0); i < n; i++ {
		v.Lsh(v, 1)
		if s.bit(off+i) == 1 {
			v.SetBit(v, 0, 1)
		}
	}
	return v
}

func c02ReverseBytes(v *big.Int, nBits int64) *big.Int {
	nb := int(nBits / 8)
	b := v.FillBytes(make([]byte, nb))
	for i, j := 0, len(b)-1; i < j; i, j = i+1, j-1 {
		b[i], b[j] = b[j], b[i]
	}
	return new(big.Int).SetBytes(b)
}

func c02Signed(u *big.Int, n int64) *big.Int {
	if n > 0 && u.Bit(int(n-1)) == 1 {
		return new(big.Int).Sub(u, new(big.Int).Lsh(big.NewInt(1), uint(n)))
	}
	return new(big.Int).Set(u)
}

type c02Buf struct {
	s bstr
}

func c02MakeBuf(align int64, body bstr, tail int64, rng *gen.Rand) bstr {
	var w bbuilder
	for i := int64(0); i < align; i++ {
		w.add(byte(rng.Intn(2)))
	}
	w.addStr(body, 0, body.n)
	for i := int64(0); i < tail; i++ {
		w.add(byte(rng.Intn(2)))
	}
	return w.str()
}

func c02Pattern(k int, n int64, rng *gen.Rand) bstr {
	var w bbuilder
	for i := int64(0); i < n; i++ {
		var b byte
		switch k {
		case 0:
			b = 0
		case 1:
			b = 1
		case 2: // sign bit only
			if i == 0 {
				b = 1
			}
		case 3: // all but sign
			if i != 0 {
				b = 1
			}
		case 4:
			b = byte(i & 1)
		case 5:
			b = byte((i + 1) & 1)
		case 6: // lowest bit only
			if i == n-1 {
				b = 1
			}
		default:
			b = byte(rng.Intn(2))
		}
		w.add(b)
	}
	return w.str()
}

type c02Runner struct {
	run *ev.Run
}

// runCalls executes calls on one buffer inside a real decode.Decode and checks every result.
func (r *c02Runner) runCalls(buf bstr, calls []c02Call) {
	results := make([]c02Result, len(calls))
	names := make([]string, len(calls))
	f := &decode.Format{Name: "c02", DecodeFn: func(d *decode.D) any {
		for i, c := range calls {
			names[i] = "f" + strconv.Itoa(i)
			results[i] = c02Invoke(d, c, names[i])
		}
		return nil
	}}
	g := &decode.Group{Name: "c02", Formats: []*decode.Format{f}}
	var root *decode.Value
	pi := guardStack(func() {
		root, _, _ = decode.Decode(context.Background(), bitio.NewBitReader(append([]byte(nil), buf.b...), buf.n), g, decode.Options{IsRoot: true})
	})
	if pi != nil {
		r.run.Violation("decode-panic:"+panicSig(pi), fmt.Sprintf("decode.Decode of the harness format panicked: %v", pi.Value), nil)
		return
	}
	_ = root
	for i, c := range calls {
		res := results[i]
		r.run.Eval(1)
		r.run.Count("calls:"+c02Family(c.Method), 1)
		desc := func() string {
			return fmt.Sprintf("%s(%v) at bit %d endian=%d on %d-bit buffer %s", c.Method, c.Args, c.Align, c.Endian, buf.n, buf)
		}
		if res.Panicked != nil {
			r.run.Violation("panic:"+c.Class, fmt.Sprintf("%s panicked: %v", desc(), res.Panicked), map[string]any{"call": desc()})
			continue
		}
		if c.WantErr {
			if res.Err == nil {
				r.run.Violation("no-error:"+c.Class, fmt.Sprintf("%s returned %v without an error although the read cannot be satisfied", desc(), c02Plain(res.Val)), map[string]any{"call": desc()})
			} else {
				r.run.Count("observed:unsatisfiable-read-failed", 1)
			}
			continue
		}
		if res.Err != nil {
			r.run.Violation("unexpected-error:"+c.Class, fmt.Sprintf("%s failed: %v", desc(), res.Err), map[string]any{"call": desc()})
			continue
		}
		if res.Pos != c.Align+c.WantBits {
			r.run.Violation("position:"+c.Class, fmt.Sprintf("%s left the position at %d, expected %d (consumed %d bits)", desc(), res.Pos, c.Align+c.WantBits, c.WantBits), map[string]any{"call": desc()})
			continue
		}
		if c.OnlyPos {
			r.run.Count("observed:out-of-domain-value-position-only", 1)
			continue
		}
		got := c02Plain(res.Val)
		if !c02Eq(got, c.Want, c.FloatTol) {
			r.run.Violation("value:"+c.Class, fmt.Sprintf("%s = %v, expected %v", desc(), fmtVal(got), fmtVal(c.Want)), map[string]any{"call": desc()})
			continue
		}
		if strings.Contains(c.Method, "Field") {
			fv := res.Field
			if fv == nil {
				r.run.Violation("field-missing:"+c.Class, fmt.Sprintf("%s added no child named %s", desc(), names[i]), map[string]any{"call": desc()})
				continue
			}
			if fv.Range.Start != c.Align || fv.Range.Len != c.WantBits {
				r.run.Violation("field-range:"+c.Class, fmt.Sprintf("%s: field range %s, expected %d:%d", desc(), fv.Range, c.Align, c.WantBits), map[string]any{"call": desc()})
				continue
			}
			if sc, ok := fv.V.(scalar.Scalarable); !ok || !c02Eq(sc.ScalarActual(), c.Want, c.FloatTol) {
				r.run.Violation("field-actual:"+c.Class, fmt.Sprintf("%s: field actual %v, expected %v", desc(), fv.V, fmtVal(c.Want)), map[string]any{"call": desc()})
				continue
			}
			r.run.Count("observed:field-range-and-actual-checked", 1)
		}
		r.run.Count("observed:value-and-position-checked", 1)
	}
}

func fmtVal(v any) string {
	switch x := v.(type) {
	case *big.Int:
		return x.String()
	case uint64:
		return fmt.Sprintf("%d (%#x)", x, x)
	case float64:
		return strconv.FormatFloat(x, 'g', -1, 64)
	case string:
		return strconv.Quote(x)
	}
	return fmt.Sprint(v)
}

var c02DigitsRe = regexp.MustCompile(`\d+`)

func c02Family(m string) string { return c02DigitsRe.ReplaceAllString(m, "N") }

var c02Styles = []string{"", "Try", "Field", "TryField", "FieldScalar", "TryFieldScalar"}

// integer readers: fixed-width method families + generic U/S/UE/SE
func (r *c02Runner) integers(rng *gen.Rand, nPatterns int) {
	for w := int64(1); w <= 64; w++ {
		for align := int64(0); align < 8; align++ {
			for p := 0; p < nPatterns; p++ {
				body := c02Pattern(p, w, rng)
				buf := c02MakeBuf(align, body, int64(rng.Intn(9)), rng)
				u := c02U(buf, align, w)
				var calls []c02Call
				add := func(method string, args []any, en decode.Endian, le bool, signed bool) {
					val := new(big.Int).Set(u)
					onlyPos := false
					if le {
						if w%8 != 0 {
							onlyPos = true // LE defined at whole-byte widths only (property's domain)
						} else {
							val = c02ReverseBytes(val, w)
						}
					}
					var want any
					if signed {
						want = c02Signed(val, w).Int64()
					} else {
						want = val.Uint64()
					}
					cls := "U"
					if signed {
						cls = "S"
					}
					e := "BE"
					if le {
						e = "LE"
					}
					calls = append(calls, c02Call{Method: method, Args: args, Align: align, Endian: en, Want: want, WantBits: w, OnlyPos: onlyPos,
						Class: fmt.Sprintf("%s%s:width%d:align%d", cls, e, w, align)})
				}
				style := c02Styles[(int(w)+int(align)+p)%len(c02Styles)]
				for _, signed := range []bool{false, true} {
					t := "U"
					if signed {
						t = "S"
					}
					// fixed-width, current endian (BE and LE)
					add(style+t+strconv.FormatInt(w, 10), nil, decode.BigEndian, false, signed)
					add(style+t+strconv.FormatInt(w, 10), nil, decode.LittleEndian, true, signed)
					// every call style for this width on the primary pattern
					if p == 7 {
						for _, st := range c02Styles {
							add(st+t+strconv.FormatInt(w, 10), nil, decode.BigEndian, false, signed)
						}
					}
					// explicit endian suffix (widths 8..64)
					if w >= 8 {
						add(style+t+strconv.FormatInt(w, 10)+"BE", nil, decode.LittleEndian, false, signed)
						add(style+t+strconv.FormatInt(w, 10)+"LE", nil, decode.BigEndian, true, signed)
					}
					// generic
					add(style+t, []any{int(w)}, decode.BigEndian, false, signed)
					add(style+t+"E", []any{int(w), decode.LittleEndian}, decode.BigEndian, true, signed)
					add(style+t+"E", []any{int(w), decode.BigEndian}, decode.LittleEndian, false, signed)
				}
				r.runCalls(buf, calls)
				// one bit short: must fail
				short := buf.slice(0, align+w-1)
				r.runCalls(short, []c02Call{
					{Method: "TryU" + strconv.FormatInt(w, 10), Align: align, WantErr: true, Class: fmt.Sprintf("UBE:width%d:short", w)},
					{Method: "S" + strconv.FormatInt(w, 10), Align: align, WantErr: true, Class: fmt.Sprintf("SBE:width%d:short", w)},
					{Method: "FieldU", Args: []any{int(w)}, Align: align, WantErr: true, Class: fmt.Sprintf("UBE:width%d:short", w)},
				})
				r.run.Distinct(fmt.Sprintf("int:%d:%d:%d", w, align, p))
			}
		}
	}
}

func (r *c02Runner) bigints(rng *gen.Rand, nSampled int) {
	widths := []int64{}
	for w := int64(1); w <= 64; w++ {
		widths = append(widths, w)
	}
	for i := 0; i < nSampled; i++ {
		widths = append(widths, 65+int64(rng.Intn(448)))
	}
	widths = append(widths, 65, 127, 128, 129, 256, 511, 512)
	for _, w := range widths {
		for _, align := range []int64{0, int64(1 + rng.Intn(7))} {
			for p := 0; p < 8; p++ {
				body := c02Pattern(p, w, rng)
				buf := c02MakeBuf(align, body, int64(rng.Intn(9)), rng)
				u := c02U(buf, align, w)
				var calls []c02Call
				style := c02Styles[(int(w)+p)%len(c02Styles)]
				for _, signed := range []bool{false, true} {
					t := "UBigInt"
					if signed {
						t = "SBigInt"
					}
					mk := func(val *big.Int) *big.Int {
						if signed {
							return c02Signed(val, w)
						}
						return val
					}
					cls := func(e string) string { return fmt.Sprintf("%s%s:width%d:align%d", t, e, bucket(w), align%8) }
					calls = append(calls, c02Call{Method: style + t, Args: []any{int(w)}, Align: align, Endian: decode.BigEndian, Want: mk(u), WantBits: w, Class: cls("BE")})
					calls = append(calls, c02Call{Method: style + t + "BE", Args: []any{int(w)}, Align: align, Endian: decode.LittleEndian, Want: mk(u), WantBits: w, Class: cls("BE")})
					le := c02Call{Method: style + t + "LE", Args: []any{int(w)}, Align: align, Endian: decode.BigEndian, WantBits: w, Class: cls("LE")}
					le2 := c02Call{Method: style + t + "E", Args: []any{int(w), decode.LittleEndian}, Align: align, Endian: decode.BigEndian, WantBits: w, Class: cls("LE")}
					if w%8 == 0 {
						le.Want = mk(c02ReverseBytes(u, w))
						le2.Want = le.Want
					} else {
						le.OnlyPos, le2.OnlyPos = true, true
					}
					calls = append(calls, le, le2)
				}
				r.runCalls(buf, calls)
				r.runCalls(buf.slice(0, align+w-1), []c02Call{{Method: "TryUBigInt", Args: []any{int(w)}, Align: align, WantErr: true, Class: "UBigIntBE:short"}})
				r.run.Distinct(fmt.Sprintf("bigint:%d:%d:%d", w, align, p))
			}
		}
	}
}

func bucket(w int64) int64 {
	if w <= 64 {
		return w
	}
	return (w / 64) * 64
}

// ---- floats ----

func c02Half(bits uint16) float64 {
	s := float64(1)
	if bits&0x8000 != 0 {
		s = -1
	}
	e := int(bits>>10) & 0x1f
	m := float64(bits & 0x3ff)
	switch e {
	case 0:
		return s * math.Ldexp(m/1024, -14)
	case 31:
		if m == 0 {
			return s * math.Inf(1)
		}
		return math.NaN()
	}
	return s * math.Ldexp(1+m/1024, e-15)
}

// c02F80: exact value of an x87 extended (explicit integer bit) as float64 nearest; ok=false for
// pseudo-denormal/unnormal/pseudo-NaN encodings (outside the domain)
func c02F80(b []byte) (v float64, ok bool) {
	se := uint16(b[0])<<8 | uint16(b[1])
	var m uint64
	for i := 2; i < 10; i++ {
		m = m<<8 | uint64(b[i])
	}
	sign := se&0x8000 != 0
	e := int(se & 0x7fff)
	neg := func(x float64) float64 {
		if sign {
			return -x
		}
		return x
	}
	intBit := m>>63 == 1
	switch {
	case e == 0 && m == 0:
		return neg(0), true
	case e == 0:
		if intBit {
			return 0, false // pseudo-denormal
		}
		f := new(big.Float).SetPrec(200).SetUint64(m)
		f.SetMantExp(f, -16382-63)
		x, _ := f.Float64()
		return neg(x), true
	case e == 0x7fff:
		if !intBit {
			return 0, false // pseudo-infinity / pseudo-NaN
		}
		if m<<1 == 0 {
			return neg(math.Inf(1)), true
		}
		return math.NaN(), true
	}
	if !intBit {
		return 0, false // unnormal
	}
	f := new(big.Float).SetPrec(200).SetUint64(m)
	f.SetMantExp(f, e-16383-63)
	x, _ := f.Float64()
	return neg(x), true
}

func (r *c02Runner) floats(rng *gen.Rand, nRandom int) {
	for _, size := range []int64{16, 32, 64, 80} {
		special := [][]byte{}
		nb := int(size / 8)
		mkb := func(f func(i int) byte) {
			b := make([]byte, nb)
			for i := range b {
				b[i] = f(i)
			}
			special = append(special, b)
		}
		mkb(func(i int) byte { return 0 })
		mkb(func(i int) byte { return 0xff })
		mkb(func(i int) byte {
			if i == 0 {
				return 0x80
			}
			return 0
		})
		mkb(func(i int) byte {
			if i == nb-1 {
				return 1
			}
			return 0
		})
		mkb(func(i int) byte {
			if i == 0 {
				return 0x7f
			}
			return 0xff
		})
		switch size {
		case 16:
			special = append(special, []byte{0x7c, 0}, []byte{0xfc, 0}, []byte{0x7e, 0}, []byte{0x3c, 0}, []byte{0x04, 0}, []byte{0x03, 0xff}, []byte{0x7b, 0xff})
		case 32:
			special = append(special, []byte{0x7f, 0x80, 0, 0}, []byte{0xff, 0x80, 0, 0}, []byte{0x7f, 0xc0, 0, 0}, []byte{0x3f, 0x80, 0, 0}, []byte{0, 0x80, 0, 0}, []byte{0, 0x7f, 0xff, 0xff})
		case 64:
			special = append(special, []byte{0x7f, 0xf0, 0, 0, 0, 0, 0, 0}, []byte{0xff, 0xf0, 0, 0, 0, 0, 0, 0}, []byte{0x7f, 0xf8, 0, 0, 0, 0, 0, 0}, []byte{0x3f, 0xf0, 0, 0, 0, 0, 0, 0}, []byte{0, 0x10, 0, 0, 0, 0, 0, 0})
		case 80:
			special = append(special,
				[]byte{0x3f, 0xff, 0x80, 0, 0, 0, 0, 0, 0, 0},                      // 1.0
				[]byte{0xbf, 0xff, 0x80, 0, 0, 0, 0, 0, 0, 0},                      // -1.0
				[]byte{0x7f, 0xff, 0x80, 0, 0, 0, 0, 0, 0, 0},                      // +inf
				[]byte{0xff, 0xff, 0x80, 0, 0, 0, 0, 0, 0, 0},                      // -inf
				[]byte{0x7f, 0xff, 0xc0, 0, 0, 0, 0, 0, 0, 0},                      // nan
				[]byte{0x40, 0x00, 0xc9, 0x0f, 0xda, 0xa2, 0x21, 0x68, 0xc2, 0x35}, // pi
				[]byte{0x43, 0xfe, 0xff, 0xff, 0xff, 0xff, 0xff, 0xff, 0xf8, 0x00}, // max float64
				[]byte{0x44, 0x00, 0x80, 0, 0, 0, 0, 0, 0, 0},                      // 2^1025: overflows float64
				[]byte{0x7f, 0xfe, 0xff, 0xff, 0xff, 0xff, 0xff, 0xff, 0xff, 0xff}, // max extended
				[]byte{0x3b, 0xcd, 0x80, 0, 0, 0, 0, 0, 0, 0},                      // 2^-1074 (min subnormal float64)
				[]byte{0x3b, 0x00, 0x80, 0, 0, 0, 0, 0, 0, 0},                      // far below: underflows to 0
				[]byte{0x00, 0x01, 0x80, 0, 0, 0, 0, 0, 0, 0},                      // min normal extended
			)
		}
		var pats [][]byte
		pats = append(pats, special...)
		for i := 0; i < nRandom; i++ {
			b := rng.Bytes(nb)
			if size == 80 && i%2 == 0 {
				// bias to the float64 exponent range with the integer bit set
				e := 16383 - 1100 + rng.Intn(2200)
				b[0] = byte(e>>8)&0x7f | b[0]&0x80
				b[1] = byte(e)
				b[2] |= 0x80
			}
			pats = append(pats, b)
		}
		for pi, pat := range pats {
			align := int64(pi % 8)
			for _, le := range []bool{false, true} {
				wire := append([]byte(nil), pat...)
				if le {
					for i, j := 0, len(wire)-1; i < j; i, j = i+1, j-1 {
						wire[i], wire[j] = wire[j], wire[i]
					}
				}
				buf := c02MakeBuf(align, bstrFromBytes(wire, -1), int64(rng.Intn(9)), rng)
				var want float64
				tol := "exact"
				ok := true
				switch size {
				case 16:
					want = c02Half(uint16(pat[0])<<8 | uint16(pat[1]))
				case 32:
					want = float64(math.Float32frombits(uint32(pat[0])<<24 | uint32(pat[1])<<16 | uint32(pat[2])<<8 | uint32(pat[3])))
				case 64:
					var u uint64
					for _, x := range pat {
						u = u<<8 | uint64(x)
					}
					want = math.Float64frombits(u)
				case 80:
					want, ok = c02F80(pat)
					tol = "faithful"
				}
				e := "BE"
				var en decode.Endian = decode.BigEndian
				if le {
					e = "LE"
					en = decode.LittleEndian
				}
				cls := fmt.Sprintf("F%d%s:align%d", size, e, align)
				if size == 80 && ok {
					se := int(uint16(pat[0])<<8|uint16(pat[1])) & 0x7fff
					switch {
					case se == 0x7fff || se == 0:
					case se-16383 > 1023:
						cls = fmt.Sprintf("F80%s:exponent-above-float64-range", e)
					case se-16383 < -1022:
						cls = fmt.Sprintf("F80%s:exponent-below-float64-normal-range", e)
					}
				}
				style := c02Styles[pi%len(c02Styles)]
				sz := strconv.FormatInt(size, 10)
				calls := []c02Call{
					{Method: style + "F" + sz, Align: align, Endian: en, Want: want, WantBits: size, FloatTol: tol, Class: cls, OnlyPos: !ok},
					{Method: style + "F" + sz + e, Align: align, Endian: 1 - en, Want: want, WantBits: size, FloatTol: tol, Class: cls, OnlyPos: !ok},
					{Method: style + "F", Args: []any{int(size)}, Align: align, Endian: en, Want: want, WantBits: size, FloatTol: tol, Class: cls, OnlyPos: !ok},
					{Method: style + "FE", Args: []any{int(size), en}, Align: align, Endian: 1 - en, Want: want, WantBits: size, FloatTol: tol, Class: cls, OnlyPos: !ok},
				}
				r.runCalls(buf, calls)
				if pi < 3 {
					r.runCalls(buf.slice(0, align+size-1), []c02Call{{Method: "TryF" + sz, Align: align, WantErr: true, Class: "F" + sz + ":short"}})
				}
				r.run.Distinct(fmt.Sprintf("float:%d:%x:%v", size, pat, le))
			}
		}
	}
	// fixed point 16 (8.8) / 32 (16.16) / 64 (32.32) + generic FP
	for _, size := range []int64{16, 32, 64} {
		for p := 0; p < 8+nRandom/20; p++ {
			align := int64(p % 8)
			body := c02Pattern(p, size, rng)
			buf := c02MakeBuf(align, body, 3, rng)
			u := c02U(buf, align, size)
			fb := size / 2
			mk := func(val *big.Int, f int64) float64 {
				x, _ := new(big.Rat).SetFrac(val, new(big.Int).Lsh(big.NewInt(1), uint(f))).Float64()
				return x
			}
			sz := strconv.FormatInt(size, 10)
			style := c02Styles[p%len(c02Styles)]
			gfb := int64(1 + rng.Intn(int(size-1)))
			calls := []c02Call{
				{Method: style + "FP" + sz, Align: align, Endian: decode.BigEndian, Want: mk(u, fb), WantBits: size, FloatTol: "faithful", Class: "FP" + sz + "BE"},
				{Method: style + "FP" + sz + "LE", Align: align, Endian: decode.BigEndian, Want: mk(c02ReverseBytes(u, size), fb), WantBits: size, FloatTol: "faithful", Class: "FP" + sz + "LE"},
				{Method: style + "FP", Args: []any{int(size), int(gfb)}, Align: align, Endian: decode.BigEndian, Want: mk(u, gfb), WantBits: size, FloatTol: "faithful", Class: "FPgeneric"},
				{Method: style + "FPE", Args: []any{int(size), int(gfb), decode.LittleEndian}, Align: align, Endian: decode.BigEndian, Want: mk(c02ReverseBytes(u, size), gfb), WantBits: size, FloatTol: "faithful", Class: "FPEgeneric"},
			}
			r.runCalls(buf, calls)
			r.run.Distinct(fmt.Sprintf("fp:%d:%d", size, p))
		}
	}
}

// ---- LEB128, unary, bool ----

func c02EncULEB(v *big.Int, pad int) []byte {
	var out []byte
	x := new(big.Int).Set(v)
	for {
		b := byte(x.Uint64() & 0x7f)
		x.Rsh(x, 7)
		if x.Sign() == 0 && pad == 0 {
			out = append(out, b)
			return out
		}
		out = append(out, b|0x80)
		if x.Sign() == 0 {
			for i := 0; i < pad-1; i++ {
				out = append(out, 0x80)
			}
			out = append(out, 0)
			return out
		}
	}
}

func c02EncSLEB(v int64) []byte {
	var out []byte
	for {
		b := byte(v & 0x7f)
		v >>= 7
		if (v == 0 && b&0x40 == 0) || (v == -1 && b&0x40 != 0) {
			return append(out, b)
		}
		out = append(out, b|0x80)
	}
}

func (r *c02Runner) leb(rng *gen.Rand, nRandom int) {
	var uvals []*big.Int
	for k := uint(0); k <= 9; k++ {
		for _, d := range []int64{-1, 0, 1} {
			v := new(big.Int).Lsh(big.NewInt(1), 7*k)
			v.Add(v, big.NewInt(d))
			if v.Sign() >= 0 {
				uvals = append(uvals, v)
			}
		}
	}
	uvals = append(uvals, big.NewInt(0), new(big.Int).SetUint64(1<<63-1), new(big.Int).SetUint64(1<<63), new(big.Int).SetUint64(1<<63+1), new(big.Int).SetUint64(math.MaxUint64))
	for i := 0; i < nRandom; i++ {
		uvals = append(uvals, new(big.Int).SetUint64(rng.U64()>>uint(rng.Intn(64))))
	}
	for i, v := range uvals {
		for _, pad := range []int{0, 1, 2} {
			enc := c02EncULEB(v, pad)
			if len(enc) > 10 {
				continue
			}
			align := int64(i % 8)
			buf := c02MakeBuf(align, bstrFromBytes(enc, -1), 5, rng)
			style := c02Styles[i%len(c02Styles)]
			c := c02Call{Method: style + "ULEB128", Align: align, Want: v.Uint64(), WantBits: int64(len(enc)) * 8, Class: "ULEB128"}
			if v.BitLen() > 63 {
				// documented tolerance: values in [2^63, 2^64) are rejected as overflow by the code; either the
				// exact value or an error is accepted, never a wrong value
				r.c02Either(buf, c)
			} else {
				r.runCalls(buf, []c02Call{c})
			}
			r.run.Distinct(fmt.Sprintf("uleb:%s:%d", v, pad))
		}
		// truncated encoding: continuation bit set at the end
		if i < 40 {
			enc := c02EncULEB(v, 0)
			enc[len(enc)-1] |= 0x80
			r.runCalls(bstrFromBytes(enc, -1), []c02Call{{Method: "TryFieldULEB128", WantErr: true, Class: "ULEB128:truncated"}})
		}
	}
	svals := []int64{0, 1, -1, 63, 64, -64, -65, 127, 128, -128, -129, math.MaxInt64, math.MinInt64, math.MaxInt32, math.MinInt32}
	for k := uint(1); k <= 9; k++ {
		svals = append(svals, 1<<(7*k-1), 1<<(7*k-1)-1, -(1 << (7*k - 1)), -(1<<(7*k-1))-1)
	}
	for i := 0; i < nRandom; i++ {
		svals = append(svals, int64(rng.U64())>>uint(rng.Intn(64)))
	}
	for i, v := range svals {
		enc := c02EncSLEB(v)
		align := int64(i % 8)
		buf := c02MakeBuf(align, bstrFromBytes(enc, -1), 5, rng)
		style := c02Styles[i%len(c02Styles)]
		r.runCalls(buf, []c02Call{{Method: style + "SLEB128", Align: align, Want: v, WantBits: int64(len(enc)) * 8, Class: "SLEB128"}})
		r.run.Distinct(fmt.Sprintf("sleb:%d", v))
	}
	// 11 continuation groups: overflow must be an error, never a value
	over := []byte{0x80, 0x80, 0x80, 0x80, 0x80, 0x80, 0x80, 0x80, 0x80, 0x80, 0x01}
	r.runCalls(bstrFromBytes(over, -1), []c02Call{{Method: "TryULEB128", WantErr: true, Class: "ULEB128:overflow"}, {Method: "TrySLEB128", WantErr: true, Class: "SLEB128:overflow"}})
	// unary and bool
	for n := int64(0); n <= 70; n++ {
		for _, ov := range []uint64{0, 1} {
			var w bbuilder
			align := n % 8
			for i := int64(0); i < align; i++ {
				w.add(byte(rng.Intn(2)))
			}
			for i := int64(0); i < n; i++ {
				w.add(byte(ov))
			}
			w.add(byte(1 - ov))
			w.add(1)
			buf := w.str()
			style := c02Styles[int(n)%len(c02Styles)]
			r.runCalls(buf, []c02Call{{Method: style + "Unary", Args: []any{ov}, Align: align, Want: uint64(n), WantBits: n + 1, Class: "Unary"}})
			// no terminator: error
			r.runCalls(buf.slice(0, align+n), []c02Call{{Method: "TryUnary", Args: []any{ov}, Align: align, WantErr: true, Class: "Unary:unterminated"}})
			r.run.Distinct(fmt.Sprintf("unary:%d:%d", n, ov))
		}
	}
	for align := int64(0); align < 8; align++ {
		for _, b := range []byte{0, 1} {
			var w bbuilder
			for i := int64(0); i < align; i++ {
				w.add(1 - b)
			}
			w.add(b)
			w.add(1 - b)
			for _, st := range c02Styles {
				r.runCalls(w.str(), []c02Call{{Method: st + "Bool", Align: align, Want: b == 1, WantBits: 1, Class: "Bool"}})
			}
		}
	}
	r.runCalls(bstr{}, []c02Call{{Method: "TryBool", WantErr: true, Class: "Bool:empty"}})
}

// c02Either: value or error, never a wrong value
func (r *c02Runner) c02Either(buf bstr, c c02Call) {
	var res c02Result
	f := &decode.Format{Name: "c02", DecodeFn: func(d *decode.D) any { res = c02Invoke(d, c, "f"); return nil }}
	g := &decode.Group{Name: "c02", Formats: []*decode.Format{f}}
	pi := guardStack(func() {
		_, _, _ = decode.Decode(context.Background(), bitio.NewBitReader(append([]byte(nil), buf.b...), buf.n), g, decode.Options{IsRoot: true})
	})
	r.run.Eval(1)
	if pi != nil || res.Panicked != nil {
		r.run.Violation("panic:"+c.Class, fmt.Sprintf("%s panicked", c.Method), nil)
		return
	}
	if res.Err != nil {
		r.run.Count("observed:ULEB128>=2^63 rejected as overflow (documented tolerance)", 1)
		return
	}
	if !c02Eq(c02Plain(res.Val), c.Want, "") {
		r.run.Violation("value:"+c.Class+":>=2^63", fmt.Sprintf("%s = %v, expected %v or an error", c.Method, fmtVal(c02Plain(res.Val)), fmtVal(c.Want)), nil)
	}
}

// ---- text ----

func (r *c02Runner) text(rng *gen.Rand, n int) {
	samples := []string{"", "a", "hello", "ä", "日本語", "😀", "a😀b", "\u0001", "mixed ä 日 😀 end"}
	for i := 0; i < n; i++ {
		samples = append(samples, rng.String(false))
	}
	for i, s := range samples {
		if strings.ContainsRune(s, 0) {
			continue
		}
		align := int64(i % 8)
		style := c02Styles[i%len(c02Styles)]
		b := []byte(s)
		// UTF8 fixed length
		r.runCalls(c02MakeBuf(align, bstrFromBytes(b, -1), 9, rng), []c02Call{{Method: style + "UTF8", Args: []any{len(b)}, Align: align, Want: s, WantBits: int64(len(b)) * 8, Class: "UTF8"}})
		// UTF8 null terminated (terminator consumed)
		nb := append(append([]byte(nil), b...), 0)
		r.runCalls(c02MakeBuf(align, bstrFromBytes(nb, -1), 9, rng), []c02Call{{Method: style + "UTF8Null", Align: align, Want: s, WantBits: int64(len(nb)) * 8, Class: "UTF8Null"}})
		// no terminator: error
		if len(b) > 0 && i < 30 {
			r.runCalls(c02MakeBuf(align, bstrFromBytes(b, -1), 0, rng), []c02Call{{Method: "TryUTF8Null", Align: align, WantErr: true, Class: "UTF8Null:unterminated"}})
		}
		// null terminated inside a fixed length
		fixed := len(b) + 1 + rng.Intn(5)
		fb := make([]byte, fixed)
		copy(fb, b)
		for k := len(b) + 1; k < fixed; k++ {
			fb[k] = byte(1 + rng.Intn(255)) // junk after the terminator must be ignored
		}
		r.runCalls(c02MakeBuf(align, bstrFromBytes(fb, -1), 4, rng), []c02Call{{Method: style + "UTF8NullFixedLen", Args: []any{fixed}, Align: align, Want: s, WantBits: int64(fixed) * 8, Class: "UTF8NullFixedLen"}})
		// pascal short string
		if len(b) < 256 {
			sb := append([]byte{byte(len(b))}, b...)
			r.runCalls(c02MakeBuf(align, bstrFromBytes(sb, -1), 4, rng), []c02Call{{Method: style + "UTF8ShortString", Align: align, Want: s, WantBits: int64(len(sb)) * 8, Class: "UTF8ShortString"}})
			fl := len(sb) + rng.Intn(4)
			fsb := make([]byte, fl)
			copy(fsb, sb)
			r.runCalls(c02MakeBuf(align, bstrFromBytes(fsb, -1), 4, rng), []c02Call{{Method: style + "UTF8ShortStringFixedLen", Args: []any{fl}, Align: align, Want: s, WantBits: int64(fl) * 8, Class: "UTF8ShortStringFixedLen"}})
		}
		// UTF16 LE/BE (explicit, no BOM) and with BOM through UTF16
		u := utf16.Encode([]rune(s))
		le := make([]byte, 0, len(u)*2)
		be := make([]byte, 0, len(u)*2)
		for _, x := range u {
			le = append(le, byte(x), byte(x>>8))
			be = append(be, byte(x>>8), byte(x))
		}
		r.runCalls(c02MakeBuf(align, bstrFromBytes(le, -1), 9, rng), []c02Call{{Method: style + "UTF16LE", Args: []any{len(le)}, Align: align, Want: s, WantBits: int64(len(le)) * 8, Class: "UTF16LE"}})
		r.runCalls(c02MakeBuf(align, bstrFromBytes(be, -1), 9, rng), []c02Call{{Method: style + "UTF16BE", Args: []any{len(be)}, Align: align, Want: s, WantBits: int64(len(be)) * 8, Class: "UTF16BE"}})
		bomLE := append([]byte{0xff, 0xfe}, le...)
		bomBE := append([]byte{0xfe, 0xff}, be...)
		r.runCalls(c02MakeBuf(align, bstrFromBytes(bomLE, -1), 9, rng), []c02Call{{Method: style + "UTF16", Args: []any{len(bomLE)}, Align: align, Want: s, WantBits: int64(len(bomLE)) * 8, Class: "UTF16:bom-le"}})
		r.runCalls(c02MakeBuf(align, bstrFromBytes(bomBE, -1), 9, rng), []c02Call{{Method: style + "UTF16", Args: []any{len(bomBE)}, Align: align, Want: s, WantBits: int64(len(bomBE)) * 8, Class: "UTF16:bom-be"}})
		nle := append(append([]byte(nil), le...), 0, 0)
		r.runCalls(c02MakeBuf(align, bstrFromBytes(nle, -1), 9, rng), []c02Call{{Method: style + "UTF16LENull", Align: align, Want: s, WantBits: int64(len(nle)) * 8, Class: "UTF16LENull"}})
		// one byte short: error
		if len(b) > 0 && i < 30 {
			r.runCalls(c02MakeBuf(align, bstrFromBytes(b[:len(b)-1], -1), 0, rng), []c02Call{{Method: "TryUTF8", Args: []any{len(b)}, Align: align, WantErr: true, Class: "UTF8:short"}})
		}
		r.run.Distinct("text:" + s)
	}
}

// unmonitored: reader-looking methods the classifier does not recognise are reported, not ignored
func c02Unmonitored(run *ev.Run) {
	known := regexp.MustCompile(`^(Try)?(Field)?(Scalar)?([US]\d+(LE|BE)?|[US]E?|F\d+(LE|BE)?|FE?|FP\d+(LE|BE)?|FPE?|[US]BigInt(LE|BE|E)?|[US]LEB128|Unary|Bool|UTF8(Null|NullFixedLen|ShortString|ShortStringFixedLen)?|UTF16(LE|BE)?(Null|NullFixedLen)?)$`)
	other := regexp.MustCompile(`^(Try)?(Field)?(Scalar)?(Raw|BitBuf|Any|Value|Struct|Array|Format|Root|Reader|Seek|Pos|Len|Peek|Bits|Bytes|Align|Not|End|Copy|Clone|New|Assert|Require|Validate|Arg|Add|Fill|Shared|Errorf|Fatalf|IOPanic|Framed|Limited|Range|RE|Zero|Must|Get|Is|Fn|Str|Sint|Uint|Flt|BigInt)`)
	t := reflect.TypeOf(&decode.D{})
	n, un := 0, []string{}
	for i := 0; i < t.NumMethod(); i++ {
		name := t.Method(i).Name
		if known.MatchString(name) {
			n++
		} else if !other.MatchString(name) {
			un = append(un, name)
		}
	}
	run.Count("methods:monitored-reader-methods", int64(n))
	run.Count("methods:unclassified", int64(len(un)))
	run.Extra["unclassified_methods"] = un
}

func c02Main(args []string) {
	run := ev.NewRun("C02")
	run.Rule = "widths 1..64 x 8 start alignments x {BE, LE} x 9 patterns (zero, ones, sign bit only, all but sign, 01.., 10.., lowest bit, random) for U/S through fixed-width, explicit-endian, generic and all six call styles; big integers 1..64 exhaustively and 65..512 sampled; IEEE 16/32/64/80 special classes + random; fixed point; LEB128 boundary values in canonical and padded encodings; unary; bool; UTF-8/UTF-16 fixed, null-terminated, length-prefixed. Oracle = big-integer arithmetic on the bit string, math.Float*frombits, exact rational for float80/fixed point. non-trivial = call at an unaligned start or width not multiple of 8; distinct = (reader family, width, alignment, pattern)"
	run.Assumptions = []string{
		"little-endian is defined for whole-byte widths only; other LE widths are checked for no-crash and position",
		"ULEB128 values in [2^63,2^64): an error instead of the value is accepted (never a wrong value)",
		"float80 -> float64: either neighbouring float64 of the exact value is accepted; pseudo-denormal/unnormal encodings are outside the domain",
	}
	rng := gen.New(run.Seed).Fork(0xC02)
	r := &c02Runner{run: run}
	c02Unmonitored(run)
	r.integers(rng, run.Pick(24, 200))
	r.bigints(rng, run.Pick(300, 6000))
	r.floats(rng, run.Pick(4000, 200000))
	r.leb(rng, run.Pick(3000, 200000))
	r.text(rng, run.Pick(1500, 60000))
	run.Sample(map[string]any{"example": "FieldS37() at bit 5 of a 51-bit buffer: value = two's complement of bits [5,42), position 42, child range 5:37"})
	run.Finish()
}
