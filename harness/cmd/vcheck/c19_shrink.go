package main

// C19: a disagreement is minimised (delta debugging over the packets of the capture, then the
// decorations: fragmentation, sequence numbers, link type, file variant) before it is named, so that the
// signature describes the smallest capture that still shows it and the replay file carries a tiny
// reproducer. The oracle is recomputed for every candidate (it only looks at the packets present).

import (
	"encoding/hex"
	"fmt"
	"sort"
	"strings"

	"verif/ev"
	"verif/fqx"
)

type c19Shrinker struct {
	s      *fqx.Session
	ck     *c19Checker
	evals  int
	cands  int
	frames int
}

type c19Cand struct {
	segs    []*c19Seg
	link    c19Link
	variant c19Variant
}

func c19FromSegs(base *c19Capture, cd c19Cand) *c19Capture {
	cp := &c19Capture{id: base.id, class: base.class, link: cd.link, variant: cd.variant, omitted: base.omitted}
	by := map[int]*c19Conn{}
	for _, p := range cd.segs {
		c := by[p.conn.idx]
		if c == nil {
			cc := *p.conn
			cc.pkts = nil
			c = &cc
			by[p.conn.idx] = c
			cp.conns = append(cp.conns, c)
		}
		c.pkts = append(c.pkts, p)
	}
	sort.Slice(cp.conns, func(i, j int) bool { return cp.conns[i].idx < cp.conns[j].idx })
	cp.order = cd.segs
	cp.assemble(0x1000)
	return cp
}

func c19SameFinding(f, g c19Finding) bool {
	if f.kind != g.kind || strings.SplitN(f.sub, ":", 2)[0] != strings.SplitN(g.sub, ":", 2)[0] {
		return false
	}
	if f.conn >= 0 && (f.conn != g.conn || f.dir != g.dir) {
		return false
	}
	return true
}

// test decodes the candidates (batched) and returns for each the matching finding, if it still fails.
func (sh *c19Shrinker) test(base *c19Capture, f c19Finding, cands []c19Cand) ([]*c19Capture, []*c19Finding) {
	caps := make([]*c19Capture, len(cands))
	res := make([]*c19Finding, len(cands))
	for i, cd := range cands {
		caps[i] = c19FromSegs(base, cd)
	}
	for a := 0; a < len(caps); a += 8 {
		b := min(a+8, len(caps))
		gots := c19Decode(sh.s, caps[a:b])
		sh.evals++
		sh.cands += b - a
		for _, x := range caps[a:b] {
			sh.frames += len(x.frames)
		}
		for i := a; i < b; i++ {
			for _, g := range sh.ck.check(caps[i], gots[i-a]) {
				if c19SameFinding(f, g) {
					g := g
					res[i] = &g
					break
				}
			}
		}
	}
	return caps, res
}

// c19Pinned4Shrink: the handshake's SYNs of the connection under study stay: their absence would turn
// the capture into a mid-stream one, which is a different situation.
func c19Pinned4Shrink(p *c19Seg, f c19Finding) bool {
	return (p.kind == "syn" || p.kind == "synack") && p.dup == "" && (f.conn < 0 || p.conn.idx == f.conn)
}

// minimise returns the smallest capture found that still shows finding f, the finding as reported
// on it, and whether it is independent of link type and file variant.
func (sh *c19Shrinker) minimise(cp *c19Capture, f c19Finding) (*c19Capture, c19Finding, bool) {
	cur := c19Cand{segs: cp.order, link: cp.link, variant: cp.variant}
	best, bestF := cp, f
	try := func(cands []c19Cand) bool {
		caps, res := sh.test(cp, f, cands)
		for i := range cands {
			if res[i] != nil {
				cur, best, bestF = cands[i], caps[i], *res[i]
				return true
			}
		}
		return false
	}
	with := func(segs []*c19Seg) c19Cand { return c19Cand{segs: segs, link: cur.link, variant: cur.variant} }

	filter := func(keep func(p *c19Seg) bool) bool {
		var segs []*c19Seg
		for _, p := range cur.segs {
			if c19Pinned4Shrink(p, f) || keep(p) {
				segs = append(segs, p)
			}
		}
		if len(segs) == len(cur.segs) {
			return false
		}
		return try([]c19Cand{with(segs)})
	}
	// 1. cheap big cuts: the connection alone, no retransmissions, no pure ACKs, one direction's data
	if f.conn >= 0 {
		// shortcuts for the two most frequent shapes: only the FIN/RST of the direction; only the fragmented datagram
		if f.kind == "skipped-bytes-zero" && f.sub == "hole-before-fin" {
			filter(func(p *c19Seg) bool { return p.conn.idx == f.conn && p.dir == f.dir && p.flags&(c19FIN|c19RST) != 0 })
		}
		if f.kind == "ipv4-reassembled" && f.ipid != 0 {
			filter(func(p *c19Seg) bool { return p.conn.idx == f.conn && p.ipid == f.ipid })
		}
		filter(func(p *c19Seg) bool { return p.conn.idx == f.conn })
		filter(func(p *c19Seg) bool { return p.dup == "" })
		filter(func(p *c19Seg) bool { return p.kind != "ack" })
		filter(func(p *c19Seg) bool { return p.dir == f.dir || len(p.data) == 0 })
		filter(func(p *c19Seg) bool { return p.dir == f.dir })
	}
	// 2. sweeps with halving chunk sizes over the packets (the handshake's SYNs stay: their absence
	// would turn the capture into a mid-stream one, which is a different situation)
	budget := 40 // Evals
	for sz := (len(cur.segs) + 1) / 2; sz >= 1 && budget > 0; sz /= 2 {
		pos := len(cur.segs)
		for pos > 0 && budget > 0 {
			var cands []c19Cand
			var los []int
			q := pos
			for len(cands) < 8 && q > 0 {
				lo := max(q-sz, 0)
				var segs []*c19Seg
				for i, p := range cur.segs {
					if i < lo || i >= q || c19Pinned4Shrink(p, f) {
						segs = append(segs, p)
					}
				}
				if len(segs) < len(cur.segs) {
					cands = append(cands, with(segs))
					los = append(los, lo)
				}
				q = lo
			}
			if len(cands) == 0 {
				break
			}
			budget--
			caps, res := sh.test(cp, f, cands)
			pos = q
			for i := range cands {
				if res[i] != nil {
					cur, best, bestF = cands[i], caps[i], *res[i]
					pos = los[i]
					break
				}
			}
		}
	}
	// 2b. undo reordering: the packets of the direction in sequence order, in the same slots
	// (first FINs included, then only the data packets among themselves)
	if f.conn >= 0 {
		var cands []c19Cand
		for _, withFin := range []bool{true, false} {
			var slots []int
			var ps []*c19Seg
			for i, p := range cur.segs {
				if p.conn.idx == f.conn && p.dir == f.dir && ((p.kind == "data" && !p.hasFin()) || (withFin && (p.kind == "data" || p.kind == "fin"))) {
					slots = append(slots, i)
					ps = append(ps, p)
				}
			}
			sort.SliceStable(ps, func(i, j int) bool {
				a, b := ps[i], ps[j]
				if a.off+len(a.data) != b.off+len(b.data) {
					return a.off+len(a.data) < b.off+len(b.data)
				}
				return len(a.data) > 0 && len(b.data) == 0
			})
			changed := false
			segs := append([]*c19Seg{}, cur.segs...)
			for k, i := range slots {
				if segs[i] != ps[k] {
					changed = true
				}
				segs[i] = ps[k]
			}
			if changed {
				cands = append(cands, with(segs))
			}
		}
		if len(cands) > 0 {
			try(cands)
		}
	}
	// 3. decorations: unfragment, else put the fragments in order
	for i := 0; i < len(cur.segs); i++ {
		p := cur.segs[i]
		if p.cuts == nil {
			continue
		}
		var cands []c19Cand
		for _, mode := range []int{0, 1} {
			q := *p
			if mode == 0 {
				q.cuts, q.forder = nil, nil
			} else {
				q.forder = make([]int, len(p.forder))
				for k := range q.forder {
					q.forder[k] = k
				}
			}
			segs := append([]*c19Seg{}, cur.segs...)
			segs[i] = &q
			cands = append(cands, with(segs))
		}
		try(cands)
	}
	// 4. plain initial sequence numbers (only worth an Eval when the numbers are special)
	wraps := false
	for _, k := range c19Features(best, -1, 0) {
		wraps = wraps || k == "seqwrap"
	}
	if wraps {
		newConn := map[int]*c19Conn{}
		var segs []*c19Seg
		for _, p := range cur.segs {
			c := newConn[p.conn.idx]
			if c == nil {
				cc := *p.conn
				cc.isn = [2]uint32{0x1000, 0x5000}
				cc.cops = map[string]bool{}
				for k := range p.conn.cops {
					if k != "seqwrap" {
						cc.cops[k] = true
					}
				}
				c = &cc
				newConn[p.conn.idx] = c
			}
			q := *p
			q.conn = c
			segs = append(segs, &q)
		}
		c19Reack(segs) // acknowledgement numbers follow the new numbering
		try([]c19Cand{with(segs)})
	}
	// 5. link type and file variant
	indep := false
	if cur.link.name == "ethernet" && cur.variant.name == "pcap-le" {
		// already the plainest; independent unless shown otherwise
		indep = true
	} else if try([]c19Cand{{segs: cur.segs, link: c19Links[0], variant: c19Variants[0]}}) {
		indep = true
	} else if try([]c19Cand{{segs: cur.segs, link: cur.link, variant: c19Variants[0]}}) {
		// depends on the link type only
	}
	return best, bestF, indep
}

// c19Reack recomputes acknowledgement numbers from the packets' own order (good enough for a
// minimised capture: fq's reassembly does not use them).
func c19Reack(segs []*c19Seg) {
	type key struct {
		conn int
		dir  int
	}
	nxt := map[key]uint32{}
	seen := map[key]bool{}
	for _, p := range segs {
		k := key{p.conn.idx, p.dir}
		pk := key{p.conn.idx, 1 - p.dir}
		p.ack = 0
		if p.flags&c19ACK != 0 && seen[pk] {
			p.ack = nxt[pk]
		}
		end := p.seq() + uint32(len(p.data))
		if p.flags&(c19SYN|c19FIN) != 0 {
			end++
		}
		if !seen[k] || int32(end-nxt[k]) > 0 {
			nxt[k] = end
		}
		seen[k] = true
	}
}

// c19Features names what is structurally special about one direction of a (minimised) capture.
func c19Features(cp *c19Capture, conn, dir int) []string {
	var fs []string
	for _, c := range cp.conns {
		if conn >= 0 && c.idx != conn {
			continue
		}
		dirs := []int{dir}
		if conn < 0 {
			dirs = []int{0, 1}
		}
		for _, d := range dirs {
			w := c19Oracle(c, d)
			any := false
			finSeen, peerFinSeen := false, false
			maxOff := -1
			type iv struct{ a, b int }
			var ivs []iv
			set := map[string]bool{}
			lo, hi := uint64(1)<<40, uint64(0)
			for _, p := range c.pkts {
				if p.dir != d {
					if p.hasFin() {
						peerFinSeen = true
					}
					continue
				}
				any = true
				s := uint64(p.seq())
				e := s + uint64(len(p.data))
				if p.flags&(c19SYN|c19FIN) != 0 {
					e++
				}
				lo, hi = min(lo, s), max(hi, e)
				if p.cuts != nil {
					name := "frag"
					for i, k := range p.forder {
						if i != k {
							name = "fragswap"
						}
					}
					set[name] = true
				}
				if len(p.data) > 0 {
					if finSeen && peerFinSeen {
						set["data-after-both-fins"] = true
					} else if finSeen {
						set["data-after-own-fin"] = true
					}
					if p.off < maxOff {
						set["reorder"] = true
					}
					maxOff = max(maxOff, p.off)
					for _, v := range ivs {
						if p.off < v.b && v.a < p.off+len(p.data) {
							set["retransmit"] = true
						}
					}
					ivs = append(ivs, iv{p.off, p.off + len(p.data)})
				}
				if p.hasFin() {
					finSeen = true
				}
				if p.flags&c19SYN != 0 && p.dup != "" {
					set["dupsyn"] = true
				}
			}
			if !any {
				continue
			}
			// the direction's sequence numbers wrap: either numerically or by spanning 2^32
			if hi >= 1<<32 || (lo < 1<<30 && hi > 3<<30) {
				set["seqwrap"] = true
			}
			if !w.hasSyn {
				set["midstream"] = true
			}
			switch w.holeKind {
			case "data":
				set["hole-before-data"] = true
			case "fin":
				set["hole-before-fin"] = true
			}
			for k := range set {
				fs = append(fs, k)
			}
		}
	}
	sort.Strings(fs)
	out := fs[:0]
	for i, k := range fs {
		if i == 0 || fs[i-1] != k {
			out = append(out, k)
		}
	}
	if len(out) == 0 {
		return []string{"plain"}
	}
	return out
}

// c19Report minimises the finding and reports it under a signature derived from the minimal capture.
func c19Report(run *ev.Run, sh *c19Shrinker, cp *c19Capture, f c19Finding) {
	minCp, minF, indep := cp, f, false
	minimised := false
	if sh != nil && f.kind != "decode-error" && c19MinBudget.Add(-1) >= 0 {
		minCp, minF, indep = sh.minimise(cp, f)
		minimised = true
	}
	link := minCp.link.name
	if !minCp.variant.pcapng && minCp.variant.name != "pcap-le" || minCp.variant.pcapng {
		link += "/" + minCp.variant.name
	}
	if indep {
		link = "any"
	}
	if !minimised && f.kind != "decode-error" {
		link = "unminimised"
		run.Count("unminimised-findings", 1)
	}
	feat := strings.Join(c19Features(minCp, minF.conn, minF.dir), "+")
	var sig string
	switch f.kind {
	case "decode-error":
		sig = "decode-error:" + f.sub
	case "stream-mismatch":
		sig = fmt.Sprintf("stream-mismatch:%s:%s", link, feat)
	case "skipped-bytes-zero":
		// the hole itself is in the name; anything else special about the minimal capture follows
		sig = "skipped-bytes-zero:" + minF.sub
		var extra []string
		for _, k := range c19Features(minCp, minF.conn, minF.dir) {
			if k != "plain" && !strings.HasPrefix(k, "hole-before-") {
				extra = append(extra, k)
			}
		}
		if len(extra) > 0 {
			sig += ":" + strings.Join(extra, "+")
		}
		if link != "any" {
			sig += ":" + link
		}
	case "skipped-bytes-nonzero":
		sig = fmt.Sprintf("skipped-bytes-nonzero:%s:%s", link, feat)
	case "ipv4-reassembled":
		sig = fmt.Sprintf("ipv4-reassembled:%s:%s", minF.sub, link)
	case "client-server-swapped":
		sig = "client-server-swapped"
	default:
		sig = fmt.Sprintf("%s:%s:%s", f.kind, link, feat)
	}
	jq := `"f.cap" | open | decode("pcap")`
	if minCp.variant.pcapng {
		jq = `"f.cap" | open | decode("pcapng") | .[0]`
	}
	jq += ` | [.tcp_connections[] | (.client, .server) | {ip: .ip, port: (.port|toactual), skipped_bytes, has_start, has_end, stream: (.stream|tobytes|to_hex)} | tovalue], [.ipv4_reassembled[] | tobytes | to_hex]`
	desc := minF.desc + "\n  minimal: " + minCp.describe()
	if minCp != cp {
		desc += "\n  found in: " + cp.describe()
	}
	replay := map[string]any{"case": cp.id, "seed": run.Seed, "tier": run.Tier, "class": cp.class,
		"rerun": fmt.Sprintf("VERIF_SEED=%d VERIF_TIER=%s vcheck C19 --case %d", run.Seed, run.Tier, cp.id),
		"jq":    jq}
	if len(minCp.file) <= 32768 {
		replay["capture_hex"] = hex.EncodeToString(minCp.file)
		replay["format"] = map[bool]string{false: "pcap", true: "pcapng"}[minCp.variant.pcapng]
	}
	run.Violation(sig, desc, replay)
}
