package main

// C15 wav: a WAV writer written from the RIFF/WAVE specification (RIFF chunk = 4-byte id, 32-bit little-endian
// size, data, pad byte to an even offset; "fmt " = wFormatTag, nChannels, nSamplesPerSec, nAvgBytesPerSec,
// nBlockAlign, wBitsPerSample [, cbSize, extension]); thorough: Python's wave module as well.
// bzip2: Python bz2 only (no Go writer exists).

import (
	"bytes"
	"compress/bzip2"
	"encoding/binary"
	"fmt"
	"io"

	"verif/gen"
)

type c15WavExp struct {
	format        int
	channels      int
	rate          uint32
	byteRate      uint32
	blockAlign    int
	bits          int
	fmtSize       int
	cbSize        int // -1: not present
	extensible    bool
	validBits     int
	channelMask   uint32
	subFormat     []byte
	samples       []byte
	factSamples   int64 // -1: no fact chunk
	listSoftware  string
	hasList       bool
	chunkOrder    []string
	riffSize      int
	unknownChunk  []byte // nil: none
	unknownBefore bool
}

func init() {
	c15Register(&c15Format{
		name:  "wav",
		gen:   c15GenWav,
		genPy: c15GenWavPy,
		jq: `{id, size, format, chunks: [.chunks[]? | {id, size, audio_format: (.audio_format|av), audio_format_sym: (.audio_format|sv), num_channels, sample_rate, byte_rate, block_align, bits_per_sample, ` +
			`cb_size, unknown: (.unknown|hx), extension_size, valid_bits_per_sample, channel_mask, sub_format: (.sub_format|hx), sub_format_sym: (.sub_format|sv), ` +
			`samples: (.samples|hx), sample_length, type, data: (.data|hx), align: (.align|hx), ` +
			`sub: (if .chunks == null then null else [.chunks[] | {id, size, value, align: (.align|hx)}] end)}]}`,
		cks:     `[]`,
		compare: c15CmpWav,
	})
	c15Register(&c15Format{
		name:    "bzip2",
		genPy:   c15GenBzip2Py,
		jq:      `{magic, version, hundred_k_blocksize, block_magic: (.block.magic|av), block_crc: (.block.crc|av), uncompressed: (.uncompressed|hx), footer_magic: (.footer.magic|av), footer_crc: (.footer.crc|av)}`,
		cks:     `[(.block.crc|ds), (.footer.crc|ds)]`,
		compare: c15CmpBzip2,
		ref: func(f *c15File, data []byte) error {
			// compress/bzip2 is a reader only; it verifies block and stream CRCs. fq links the same package, so the
			// verdict that counts in the thorough tier is Python's.
			out, err := io.ReadAll(bzip2.NewReader(bytes.NewReader(data)))
			if err != nil {
				return err
			}
			if int64(len(out)) != f.payload {
				return fmt.Errorf("read %d bytes, stored %d", len(out), f.payload)
			}
			return nil
		},
		pyCheck: true,
	})
}

func c15RiffChunk(id string, data []byte) []byte {
	out := append([]byte(id), 0, 0, 0, 0)
	binary.LittleEndian.PutUint32(out[4:], uint32(len(data)))
	out = append(out, data...)
	if len(data)%2 == 1 {
		out = append(out, 0)
	}
	return out
}

func c15GenWav(c *c15Ctx, r *gen.Rand, small bool) *c15File {
	opts := map[string]bool{}
	e := &c15WavExp{cbSize: -1, factSamples: -1}
	e.channels = 1 + r.Intn(6)
	e.bits = gen.Pick(r, []int{8, 16, 24, 32})
	e.rate = uint32(gen.Pick(r, []int{8000, 11025, 22050, 44100, 48000, 96000, 1 + r.Intn(200000)}))
	e.blockAlign = e.channels * e.bits / 8
	e.byteRate = e.rate * uint32(e.blockAlign)
	e.format = 1
	frames := r.Intn(400)
	switch r.Intn(8) {
	case 0:
		frames = 0
	case 1:
		frames = 66000/e.blockAlign + r.Intn(500) // > 64 KiB of samples
		opts["samples>64KiB"] = true
	}
	e.samples = r.Bytes(frames * e.blockAlign)
	if r.Intn(3) == 0 {
		// silence / constant: nothing depends on the sample values
		for i := range e.samples {
			e.samples[i] = 0
		}
	}
	if r.Intn(6) == 0 && len(e.samples) > 1 && len(e.samples)%2 == 0 {
		// odd data length (a truncated last frame): exercises the pad byte
		e.samples = e.samples[:len(e.samples)-1]
	}
	if len(e.samples)%2 == 1 {
		opts["odd-data"] = true
	}
	fmtb := make([]byte, 16)
	switch r.Intn(4) {
	case 0:
		// WAVEFORMATEX with cbSize and extra bytes (non-PCM tag: IEEE float 3 or a-law 6)
		e.format = gen.Pick(r, []int{3, 6, 7})
		extra := r.Bytes(gen.Pick(r, []int{0, 0, 2, 5}))
		e.cbSize = len(extra)
		fmtb = append(fmtb, byte(len(extra)), 0)
		fmtb = append(fmtb, extra...)
		e.unknownChunk = nil
		opts[fmt.Sprintf("fmt-cbsize%d", len(extra))] = true
		e.subFormat = extra
	case 1:
		// WAVEFORMATEXTENSIBLE
		e.format = 0xfffe
		e.extensible = true
		e.validBits = e.bits
		e.channelMask = uint32(r.Intn(1 << 18))
		guid := []byte{0x01, 0x00, 0x00, 0x00, 0x00, 0x00, 0x10, 0x00, 0x80, 0x00, 0x00, 0xaa, 0x00, 0x38, 0x9b, 0x71}
		if r.Bool() {
			guid[0] = 3
		}
		e.subFormat = guid
		fmtb = append(fmtb, 22, 0, byte(e.validBits), 0)
		fmtb = binary.LittleEndian.AppendUint32(fmtb, e.channelMask)
		fmtb = append(fmtb, guid...)
		opts["fmt-extensible"] = true
	default:
		opts["fmt-pcm16"] = true
	}
	binary.LittleEndian.PutUint16(fmtb[0:], uint16(e.format))
	binary.LittleEndian.PutUint16(fmtb[2:], uint16(e.channels))
	binary.LittleEndian.PutUint32(fmtb[4:], e.rate)
	binary.LittleEndian.PutUint32(fmtb[8:], e.byteRate)
	binary.LittleEndian.PutUint16(fmtb[12:], uint16(e.blockAlign))
	binary.LittleEndian.PutUint16(fmtb[14:], uint16(e.bits))
	e.fmtSize = len(fmtb)
	body := []byte("WAVE")
	body = append(body, c15RiffChunk("fmt ", fmtb)...)
	e.chunkOrder = append(e.chunkOrder, "fmt")
	if r.Intn(3) == 0 {
		e.factSamples = int64(frames)
		body = append(body, c15RiffChunk("fact", binary.LittleEndian.AppendUint32(nil, uint32(frames)))...)
		e.chunkOrder = append(e.chunkOrder, "fact")
		opts["fact"] = true
	}
	if r.Intn(4) == 0 {
		e.unknownChunk = r.Bytes(r.Intn(30))
		if e.unknownChunk == nil {
			e.unknownChunk = []byte{}
		}
		body = append(body, c15RiffChunk("xyzw", e.unknownChunk)...)
		e.chunkOrder = append(e.chunkOrder, "xyzw")
		opts["unknown-chunk"] = true
	}
	body = append(body, c15RiffChunk("data", e.samples)...)
	e.chunkOrder = append(e.chunkOrder, "data")
	if r.Intn(3) == 0 {
		e.hasList = true
		e.listSoftware = "verif " + c15ASCII(r, r.Intn(12))
		// INFO list with one ISFT string (NUL terminated, as writers do)
		sub := c15RiffChunk("ISFT", append([]byte(e.listSoftware), 0))
		body = append(body, c15RiffChunk("LIST", append([]byte("INFO"), sub...))...)
		e.chunkOrder = append(e.chunkOrder, "LIST")
		opts["list-info"] = true
	}
	e.riffSize = len(body)
	data := c15RiffChunk("RIFF", body)
	opts[fmt.Sprintf("bits%d", e.bits)] = true
	if e.channels > 2 {
		opts["multichannel"] = true
	}
	f := &c15File{format: "wav", writer: "hand", members: len(e.chunkOrder), data: data, exp: e, payload: int64(len(e.samples))}
	f.opts = c15Opts(opts)
	return f
}

func c15GenWavPy(c *c15Ctx, r *gen.Rand, small bool) *c15File {
	opts := map[string]bool{}
	e := &c15WavExp{cbSize: -1, factSamples: -1, format: 1}
	e.channels = 1 + r.Intn(4)
	sw := 1 + r.Intn(4)
	e.bits = sw * 8
	e.rate = uint32(gen.Pick(r, []int{8000, 22050, 44100, 48000, 1 + r.Intn(200000)}))
	e.blockAlign = e.channels * sw
	e.byteRate = e.rate * uint32(e.blockAlign)
	frames := r.Intn(400)
	if r.Intn(8) == 0 {
		frames = 66000/e.blockAlign + r.Intn(500)
		opts["samples>64KiB"] = true
	}
	e.samples = r.Bytes(frames * e.blockAlign)
	if len(e.samples)%2 == 1 {
		// Python's wave module writes no pad byte after an odd-sized data chunk (RIFF requires one), fq then reports
		// "RawLen(align): outside buffer"; such files are not conforming, so the Python writer is kept to even sizes
		e.samples = e.samples[:len(e.samples)-e.blockAlign] // odd length => odd frame size: one frame less is even
	}
	data, _, err := c.py.write("wav", map[string]any{"channels": e.channels, "sampwidth": sw, "rate": e.rate, "data": c15B64(e.samples)})
	if err != nil {
		panic(err)
	}
	e.fmtSize = 16
	e.chunkOrder = []string{"fmt", "data"}
	e.riffSize = len(data) - 8
	opts[fmt.Sprintf("bits%d", e.bits)] = true
	f := &c15File{format: "wav", writer: "py", members: 2, data: data, exp: e, payload: int64(len(e.samples))}
	f.opts = c15Opts(opts)
	return f
}

func c15CmpWav(c *c15Ctx, f *c15File, got map[string]any) []c15Diff {
	e := f.exp.(*c15WavExp)
	var chunks []any
	for _, id := range e.chunkOrder {
		switch id {
		case "fmt":
			m := map[string]any{"id": "fmt", "size": e.fmtSize, "audio_format": e.format, "num_channels": e.channels, "sample_rate": e.rate,
				"byte_rate": e.byteRate, "block_align": e.blockAlign, "bits_per_sample": e.bits}
			switch e.format {
			case 1:
				m["audio_format_sym"] = "pcm"
			}
			if e.cbSize >= 0 {
				m["cb_size"] = e.cbSize
				m["unknown"] = c15Hex(e.subFormat)
			} else {
				m["cb_size"] = nil
			}
			if e.extensible {
				m["extension_size"], m["valid_bits_per_sample"], m["channel_mask"] = 22, e.validBits, e.channelMask
				m["sub_format"] = c15Hex(e.subFormat)
				if e.subFormat[0] == 1 {
					m["sub_format_sym"] = "pcm"
				} else {
					m["sub_format_sym"] = "ieee_float"
				}
			}
			chunks = append(chunks, m)
		case "fact":
			chunks = append(chunks, map[string]any{"id": "fact", "size": 4, "sample_length": e.factSamples})
		case "xyzw":
			m := map[string]any{"id": "xyzw", "size": len(e.unknownChunk), "data": c15Hex(e.unknownChunk)}
			if len(e.unknownChunk)%2 == 1 {
				m["align"] = c15Hex([]byte{0})
			} else {
				m["align"] = nil
			}
			chunks = append(chunks, m)
		case "data":
			m := map[string]any{"id": "data", "size": len(e.samples), "samples": c15Hex(e.samples)}
			if len(e.samples)%2 == 1 {
				m["align"] = c15Hex([]byte{0})
			} else {
				m["align"] = nil
			}
			chunks = append(chunks, m)
		case "LIST":
			sl := len(e.listSoftware) + 1
			sub := map[string]any{"id": "ISFT", "size": sl, "value": e.listSoftware}
			if sl%2 == 1 {
				sub["align"] = c15Hex([]byte{0})
			} else {
				sub["align"] = nil
			}
			chunks = append(chunks, map[string]any{"id": "LIST", "type": "INFO", "size": 4 + 8 + sl + sl%2, "sub": []any{sub}})
		}
	}
	exp := map[string]any{"id": "RIFF", "size": e.riffSize, "format": "WAVE", "chunks": chunks}
	var diffs []c15Diff
	c15Cmp("wav", "", exp, got, &diffs)
	return diffs
}

func c15GenBzip2Py(c *c15Ctx, r *gen.Rand, small bool) *c15File {
	opts := map[string]bool{}
	payload, _ := c15Payload(r, small)
	if len(payload) == 0 {
		// an empty bzip2 stream has no block at all; fq's decoder (and its TODO) only covers streams with a block
		payload = r.Bytes(1 + r.Intn(4))
	}
	level := 1 + r.Intn(9)
	opts["payload:"+c15PayloadClass(payload)] = true
	opts[fmt.Sprintf("level%d", level)] = true
	data, _, err := c.py.write("bzip2", map[string]any{"data": c15B64(payload), "level": level})
	if err != nil {
		panic(err)
	}
	f := &c15File{format: "bzip2", writer: "py", members: 1, data: data, exp: payload, payload: int64(len(payload))}
	f.note = fmt.Sprintf("level %d", level)
	// header "BZh" + level (4 bytes), block magic (6), block crc (4), ... block data ..., footer magic (6), stream crc (4), padding
	// The footer is not byte aligned; locate it bitwise (footer magic 0x177245385090) from the end.
	bitLen := len(data) * 8
	foot := -1
	for pad := 0; pad < 8 && foot < 0; pad++ {
		start := bitLen - pad - 80
		if start < 0 {
			break
		}
		if c15Bits(data, start, 48) == 0x177245385090 {
			foot = start
		}
	}
	if foot < 0 {
		panic("bzip2 generator: footer magic not found")
	}
	f.regions = append(f.regions, c15Region{name: "block-crc", off: 10, n: 4})
	if foot/8 > 14 {
		f.regions = append(f.regions, c15Region{name: "block-data", off: 14, n: foot/8 - 14})
	}
	// whole bytes that lie entirely inside the 32-bit stream crc
	s := (foot + 48 + 7) / 8
	e := (foot + 80) / 8
	if e > s {
		f.regions = append(f.regions, c15Region{name: "stream-crc", off: s, n: e - s})
	}
	f.opts = c15Opts(opts)
	return f
}

func c15Bits(b []byte, off, n int) uint64 {
	var v uint64
	for i := 0; i < n; i++ {
		bit := off + i
		v = v<<1 | uint64(b[bit/8]>>(7-bit%8)&1)
	}
	return v
}

func c15CmpBzip2(c *c15Ctx, f *c15File, got map[string]any) []c15Diff {
	payload := f.exp.([]byte)
	// block crc: CRC-32 MSB-first (poly 0x04c11db7), hand-written; single block: stream crc = block crc
	crc := ^uint32(0)
	for _, b := range payload {
		crc ^= uint32(b) << 24
		for k := 0; k < 8; k++ {
			if crc&0x80000000 != 0 {
				crc = crc<<1 ^ 0x04c11db7
			} else {
				crc <<= 1
			}
		}
	}
	crc = ^crc
	e := map[string]any{"magic": "BZ", "version": int('h'), "hundred_k_blocksize": int(f.data[3]), "block_magic": uint64(0x314159265359),
		"uncompressed": c15Hex(payload), "footer_magic": uint64(0x177245385090)}
	if len(payload) <= int(f.data[3]-'0')*100000-20 {
		e["block_crc"] = crc
		e["footer_crc"] = crc
	}
	var diffs []c15Diff
	c15Cmp("bzip2", "", e, got, &diffs)
	return diffs
}
