package main

// C07: the generated program is kept as a small tree (so that built-ins reached and node counts come
// from the AST and so that a disagreeing program can be shrunk automatically before it is reported).

import (
	"math"
	"math/big"
	"strings"

	"verif/gen"
)

type c07T int

const (
	c07Null c07T = iota
	c07Bool
	c07Num
	c07Str
	c07Arr
	c07Obj
	c07Any
)

// c07Shape: what the generator believes `.` (or a variable) is: a type and, when known, an example value.
type c07Shape struct {
	t   c07T
	ex  any
	has bool
}

func c07S(t c07T) c07Shape { return c07Shape{t: t} }

func c07TypeOf(v any) c07T {
	switch v.(type) {
	case nil:
		return c07Null
	case bool:
		return c07Bool
	case int, float64, *big.Int:
		return c07Num
	case string:
		return c07Str
	case []any:
		return c07Arr
	case map[string]any:
		return c07Obj
	}
	return c07Any
}

func c07ShapeOf(v any) c07Shape { return c07Shape{t: c07TypeOf(v), ex: v, has: true} }

type c07Node struct {
	kind   string // construct
	fn     string // name/arity for calls of built-ins
	atomic bool   // can be used as an operand / path base without parentheses
	parts  []any  // string | *c07Node
}

func (n *c07Node) write(sb *strings.Builder) {
	for _, p := range n.parts {
		switch p := p.(type) {
		case string:
			sb.WriteString(p)
		case *c07Node:
			p.write(sb)
		}
	}
}

func (n *c07Node) String() string {
	var sb strings.Builder
	n.write(&sb)
	return sb.String()
}

func (n *c07Node) walk(f func(*c07Node)) {
	f(n)
	for _, p := range n.parts {
		if c, ok := p.(*c07Node); ok {
			c.walk(f)
		}
	}
}

// count: AST nodes (parentheses are not nodes)
func (n *c07Node) count() int {
	c := 0
	n.walk(func(m *c07Node) {
		if m.kind != "paren" {
			c++
		}
	})
	return c
}

func c07N(kind string, atomic bool, parts ...any) *c07Node {
	return &c07Node{kind: kind, atomic: atomic, parts: parts}
}

func c07Leaf(kind, text string) *c07Node { return c07N(kind, true, text) }

// c07P parenthesises a non-atomic node
func c07P(n *c07Node) *c07Node {
	if n.atomic {
		return n
	}
	return c07N("paren", true, "(", n, ")")
}

// top-level construct of a program (parentheses looked through)
func (n *c07Node) top() string {
	for n.kind == "paren" {
		for _, p := range n.parts {
			if c, ok := p.(*c07Node); ok {
				n = c
				break
			}
		}
	}
	if n.fn != "" {
		return "call"
	}
	return n.kind
}

// ---- pools ----

var c07BigPow63 = new(big.Int).Lsh(big.NewInt(1), 63)
var c07BigPow64 = new(big.Int).Lsh(big.NewInt(1), 64)
var c07Big1e30, _ = new(big.Int).SetString("1000000000000000000000000000000", 10)
var c07BigNeg, _ = new(big.Int).SetString("-123456789012345678901234567890", 10)

var c07NumPool = []any{0, 1, -1, 2, 3, 7, 10, 65, 97, 100, 255, 1000, 128512, 0.5, 1.5, -2.5, 0.1, 3.141592653589793,
	1<<53 - 1, 1 << 53, 1<<53 + 1, math.MaxInt64, math.MinInt64, c07BigPow63, c07BigPow64, c07Big1e30, c07BigNeg,
	math.Copysign(0, -1), 1e308, 5e-324, 1e21, 1e-7, 123456789.125, 1425599621, 1e17, 4294967296}

var c07StrPool = []string{"", "a", "abc", "abc,def,,ghi", "a1b22c333", "foo bar  baz", "aXbxc", "Hello, World!",
	"test.string+with*meta(chars)[x]{y}^$|\\end", "a.b.c", "a+b+c", "a|b|c", "a\\b\\c", "(x)(y)", "[1][2]", "{a}{b}", "^a^b$", "a?b?c",
	"😀a😀b", "e\u0301e\u0301", "ä日本語😀", "a\x00b\x00c", "line1\nline2\r\nline3", "  padded  ", "\t tab\n",
	"2015-03-05T23:51:47Z", "[1,2,{\"a\":null}]", "{\"a\":[1,2.5,\"x\"],\"b\":10000000000000000000000}", "12", "-1.5e3", "1e1000", "0x10", "nan", "-0", "007",
	"aGVsbG8=", "aGVsbG8", "%41%42+c", "<a href=\"x\">&'</a>", "it's", "a,b\tc\"d", "null", "true", "\"quoted\"", " ", "aaa", "abab", "ABC abc",
	"\u00e9\u00c9", "\U0001F600", "x\u200by", "\ufeffbom", "\u2028"}

var c07SepPool = []string{",", "", " ", ".", "+", "*", "?", "(", ")", "|", "[", "]", "{", "}", "^", "$", "\\", "a", "ab", "b", "😀", "\u0301", "\x00",
	", ", "..", "a.b", ".*", "[a]", "\\d", "$|", "()", "^a", "c$", "\n", "\\b", "(?i)a", "A", "1", "  ", "é", "a+", "\\\\", "\\.", "[^", "x{2}"}

var c07RePool = []string{"b", "[a-c]+", "(?<x>[a-z])(?<n>\\d+)?", "\\s+", "", "^", "$", ".", "\\.", "a|b", "(a)(b)?", "[", "(?i)A", "\\d+", "\\p{L}", ",",
	"\\b", "x*", "(?<a>a)|(?<b>b)", ".*", "\u0301", "😀", "\\x00", "(", "a{2}", "[^a]", "^.", ".$", "(?<w>\\w+) (?<v>\\w+)", "\\W", "(,)", "a*?", "(?:a)(b)", "\\\\", "[[:alpha:]]+", "(?s).", "\\", "*"}

var c07ReNamedPool = []string{"(?<x>[a-z])(?<n>\\d+)?", "(?<a>a)|(?<b>b)", "(?<w>\\w+) (?<v>\\w+)", "(?<first>.)", "(?<y>\\d{4})-(?<m>\\d\\d)", "(?<e>)", "(?<a>.)(?<a2>.)?", "(x)(?<n>y)?", "(?<u>\\p{L}+)", "(?<all>.*)"}

var c07FlagPool = []string{"g", "i", "x", "gi", "n", "s", "l", "", "gx", "z", "ig", "gn", "m", "gm"}

var c07JSONTextPool = []string{"1", "\"a\"", "[1,2,3]", "{\"a\":1}", "null", "true", " [1, {\"b\": [null]}] ", "10000000000000000000000", "1.0", "1e2", "-0", "1e1000", "0.1",
	"{\"a\":{\"b\":{\"c\":[]}}}", "[", "", "nan", "NaN", "1 2", "[1,]", "{\"a\":1,\"a\":2}", "\"\\ud83d\\ude00\"", "\"\\u0000\"", "'a'", "[1e308,5e-324]", "9007199254740993", "{\"b\":1,\"a\":2}", "\t1\n", "tru", "1.5e300", "-1", "[[[[[[1]]]]]]", "\"\\ud800\""}

var c07KeyPool = []string{"a", "b", "c", "key", "value", "name", "k", "v", "a b", "0", "", "😀", "x", "foo", "if", "and", "_u", "$x", "A"}

var c07CollideNames = []string{"tobytes", "tovalue", "tobits", "tobitsrange", "tobytesrange", "format", "decode", "formats", "root", "parent", "parents", "topath", "tosym",
	"toactual", "todescription", "torepr", "eval", "chunk", "count", "count_by", "delta", "diff", "group", "intdiv", "iprint", "paste", "path_to_expr", "expr_to_path",
	"rpad", "streaks", "table", "grep", "bgrep", "vgrep", "fgrep", "help", "input", "inputs", "debug", "stderr", "print", "println", "printerr", "printerrln",
	"d", "da", "dd", "dv", "ddv", "display", "hexdump", "hd", "options", "repl", "slurp", "spew", "open", "history", "band", "bor", "bxor", "bsl", "bsr", "bnot",
	"to_hex", "from_hex", "tojson", "fromjson", "split", "splits", "test", "match", "capture", "scan", "explode", "implode", "tostring", "ascii", "input_filename",
	"_re_quote_meta", "_binary_or_orig", "_bytes_or_orig", "_orig_explode", "_orig_split", "_orig_splits", "_orig_test", "_orig_match", "_exttype", "_extkeys",
	"_tobits", "_match_binary", "_to_json", "_global_state", "_is_object", "_finally", "_repeat_break", "_stderr", "_stdio", "_input_filename", "_decode", "_tovalue",
	"_display", "_eval", "_options", "display_implicit", "_cli_display", "error", "map", "select", "recurse", "not", "length", "keys", "type", "empty", "first", "limit", "range", "path", "env", "halt"}

var c07PlainNames = []string{"f", "g", "h", "fn", "my_fn", "f1"}

// ---- inputs ----

var c07SpecialInputs = []any{
	1<<53 - 1, 1 << 53, 1<<53 + 1, c07BigPow63, c07BigPow64, c07Big1e30, c07BigNeg, math.Copysign(0, -1), 1e308, -1e308, 5e-324, 1e21, 0.1, 123456789.125,
	math.MaxInt64, math.MinInt64, 0, -1,
	[]any{}, map[string]any{}, "", []any{[]any{}}, map[string]any{"": map[string]any{}},
	[]any{[]any{[]any{[]any{[]any{[]any{[]any{1, "deep"}}}}}}},
	map[string]any{"a": map[string]any{"b": map[string]any{"c": map[string]any{"d": map[string]any{"e": []any{nil, true, c07BigPow64}}}}}},
	"😀a😀b", "e\u0301e\u0301", "a\x00b\x00c", "\x00", "ä日本語😀", "\U0001F600\U0001F601",
	[]any{1<<53 + 1, c07BigPow63, c07BigPow64, c07Big1e30, math.Copysign(0, -1), 1e308, 5e-324},
	map[string]any{"big": c07BigPow64, "negz": math.Copysign(0, -1), "tiny": 5e-324, "huge": 1e308, "s": "a\x00b", "u": "😀", "e": "", "n": nil},
	[]any{map[string]any{"a": 1, "b": 2}, map[string]any{"a": 1, "b": 3}, map[string]any{"a": 2, "b": 1}, map[string]any{"b": 0}},
	[]any{"b", "a", "c", "a", "B", "", "😀", "e\u0301"},
	[]any{3, 1, 2, 1.0, 1, c07BigPow64, -1, 0.5, nil, "1", true, false, []any{}, map[string]any{}},
	[]any{[]any{1, 2}, []any{3, 4}, []any{5}},
	[]any{map[string]any{"key": "a", "value": 1}, map[string]any{"k": "b", "v": 2}, map[string]any{"name": "c", "Value": 3}, map[string]any{"key": 1}, map[string]any{"key": nil, "value": nil}},
	map[string]any{"a": 1, "b": []any{1, 2, map[string]any{"c": "x"}}, "c": map[string]any{"d": nil}, "a b": "sp", "😀": true},
}

// c07Input generates one input; want (a c07T or c07Any) biases the top-level type.
func c07Input(r *gen.Rand, want c07T) any {
	if want == c07Any {
		switch k := r.Intn(20); {
		case k < 6:
			want = c07Str
		case k < 10:
			want = c07Arr
		case k < 14:
			want = c07Obj
		case k < 17:
			want = c07Num
		case k < 18:
			want = c07Null
		case k < 19:
			want = c07Bool
		}
	}
	for try := 0; try < 40; try++ {
		var v any
		switch r.Intn(10) {
		case 0, 1, 2:
			v = c07Copy(gen.Pick(r, c07SpecialInputs))
		case 3, 4:
			if want == c07Str || want == c07Any {
				v = gen.Pick(r, c07StrPool)
			} else if want == c07Num {
				v = c07Copy(gen.Pick(r, c07NumPool))
			} else {
				v = r.JSON(gen.JSONOpts{MaxDepth: 3, MaxWidth: 4, BigInts: true, Floats: true})
			}
		default:
			v = r.JSON(gen.JSONOpts{MaxDepth: 3, MaxWidth: 4, BigInts: true, Floats: true})
			if want == c07Arr || want == c07Obj {
				// containers of interesting leaves
				if r.Intn(3) == 0 {
					n := r.Intn(5)
					if want == c07Arr {
						a := make([]any, n)
						for i := range a {
							a[i] = c07InputLeaf(r)
						}
						v = a
					} else {
						m := map[string]any{}
						for i := 0; i < n; i++ {
							m[gen.Pick(r, c07KeyPool)] = c07InputLeaf(r)
						}
						v = m
					}
				}
			}
		}
		if want == c07Any || c07TypeOf(v) == want {
			return v
		}
	}
	switch want {
	case c07Str:
		return gen.Pick(r, c07StrPool)
	case c07Num:
		return c07Copy(gen.Pick(r, c07NumPool))
	case c07Arr:
		return []any{1, "a", nil}
	case c07Obj:
		return map[string]any{"a": 1}
	case c07Bool:
		return r.Bool()
	}
	return nil
}

func c07InputLeaf(r *gen.Rand) any {
	switch r.Intn(6) {
	case 0, 1:
		return gen.Pick(r, c07StrPool)
	case 2, 3:
		return c07Copy(gen.Pick(r, c07NumPool))
	case 4:
		return r.JSON(gen.JSONOpts{MaxDepth: 1, MaxWidth: 3, BigInts: true, Floats: true})
	}
	return nil
}

// c07Call0: call of a 0-ary built-in
func c07Call0(name string) *c07Node {
	n := c07Leaf("call", name)
	n.fn = name + "/0"
	return n
}
