// vcheck: one binary, one sub-command per property.
package main

import (
	"fmt"
	"os"
	"os/signal"
	"runtime/pprof"
	"sort"
	"syscall"
)

type checkFn func(args []string)

var checks = map[string]checkFn{}

func register(id string, fn checkFn) { checks[id] = fn }

func main() {
	if len(os.Args) < 2 {
		ids := []string{}
		for k := range checks {
			ids = append(ids, k)
		}
		sort.Strings(ids)
		fmt.Fprintf(os.Stderr, "usage: vcheck <ID> [args]; ids: %v\n", ids)
		os.Exit(2)
	}
	if p := os.Getenv("VERIF_CPUPROFILE"); p != "" {
		f, _ := os.Create(p)
		_ = pprof.StartCPUProfile(f)
		ch := make(chan os.Signal, 1)
		signal.Notify(ch, syscall.SIGTERM)
		go func() { <-ch; pprof.StopCPUProfile(); f.Close(); os.Exit(9) }()
	}
	fn, ok := checks[os.Args[1]]
	if !ok {
		fmt.Fprintf(os.Stderr, "unknown check %s\n", os.Args[1])
		os.Exit(2)
	}
	fn(os.Args[2:])
}
