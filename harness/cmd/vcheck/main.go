// vcheck: one binary, one sub-command per property.
package main

import (
	"fmt"
	"os"
	"sort"
)

type checkFn func(args []string)

var checks = map[string]checkFn{}

func register(id string, fn checkFn) { checks[id] = fn }

func main() {
	if len(os.Args) < 2 {
		ids := []string{}
		for k := range checks {
			ids = append(ids, k)
		}
		sort.Strings(ids)
		fmt.Fprintf(os.Stderr, "usage: vcheck <ID> [args]; ids: %v\n", ids)
		os.Exit(2)
	}
	fn, ok := checks[os.Args[1]]
	if !ok {
		fmt.Fprintf(os.Stderr, "unknown check %s\n", os.Args[1])
		os.Exit(2)
	}
	fn(os.Args[2:])
}
