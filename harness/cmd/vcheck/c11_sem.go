package main

// C11 reference evaluation: plain gojq (github.com/wader/gojq Parse/Compile/Run without any fq function),
// canonical value encoding, and the expectations for the rewritten query / the CLI.

import (
	"context"
	"encoding/json"
	"fmt"
	"math"
	"math/big"
	"regexp"
	"sort"
	"strconv"
	"strings"
	"time"

	"github.com/wader/gojq"

	"verif/gen"
)

const c11MaxOutputs = 300

// c11Canon is a canonical text for a jq value. Numbers are compared by value (1 == 1.0); cli=true maps the
// values JSON cannot carry the way jq prints them (nan -> null, +-inf -> +-MaxFloat64).
func c11Canon(v any, cli bool) string {
	var sb strings.Builder
	c11CanonTo(&sb, v, cli)
	return sb.String()
}

func c11CanonTo(sb *strings.Builder, v any, cli bool) {
	switch x := v.(type) {
	case nil:
		sb.WriteString("null")
	case bool:
		sb.WriteString(strconv.FormatBool(x))
	case int:
		sb.WriteString(strconv.Itoa(x))
	case float64:
		switch {
		case math.IsNaN(x):
			if cli {
				sb.WriteString("null")
			} else {
				sb.WriteString("NaN")
			}
		case math.IsInf(x, 0) && cli:
			c11CanonTo(sb, math.Copysign(math.MaxFloat64, x), cli)
		case x == math.Trunc(x) && math.Abs(x) < 1e18:
			sb.WriteString(strconv.FormatInt(int64(x), 10))
		default:
			sb.WriteString(strconv.FormatFloat(x, 'g', -1, 64))
		}
	case *big.Int:
		if x.IsInt64() {
			sb.WriteString(x.String())
		} else if cli {
			// jq output keeps big integers exact; compare exactly
			sb.WriteString(x.String())
		} else {
			sb.WriteString(x.String())
		}
	case json.Number:
		s := x.String()
		if !strings.ContainsAny(s, ".eE") {
			if bi, ok := new(big.Int).SetString(s, 10); ok {
				c11CanonTo(sb, bi, cli)
				return
			}
		}
		f, err := x.Float64()
		if err != nil {
			sb.WriteString("badnumber:" + s)
			return
		}
		c11CanonTo(sb, f, cli)
	case string:
		if cli {
			// output is JSON text: every invalid UTF-8 byte of a jq string (e.g. from @base64d) shows as U+FFFD
			// (harness flaw found on `null | @base64d`: the reference side must do the same coercion)
			b, _ := json.Marshal(string([]rune(x)))
			sb.Write(b)
		} else {
			sb.WriteString(strconv.QuoteToASCII(x)) // byte exact
		}
	case []any:
		sb.WriteByte('[')
		for i, e := range x {
			if i > 0 {
				sb.WriteByte(',')
			}
			c11CanonTo(sb, e, cli)
		}
		sb.WriteByte(']')
	case map[string]any:
		keys := make([]string, 0, len(x))
		for k := range x {
			keys = append(keys, k)
		}
		if cli {
			sort.Slice(keys, func(i, j int) bool { return string([]rune(keys[i])) < string([]rune(keys[j])) })
		} else {
			sort.Strings(keys)
		}
		sb.WriteByte('{')
		for i, k := range keys {
			if i > 0 {
				sb.WriteByte(',')
			}
			// keys like string values: in JSON text every invalid UTF-8 byte is U+FFFD (harness flaw found by the
			// thorough tier on `{(@base64d): 6}`: the reference key was escaped, the parsed one was not)
			if cli {
				b, _ := json.Marshal(string([]rune(k)))
				sb.Write(b)
			} else {
				sb.WriteString(strconv.QuoteToASCII(k))
			}
			sb.WriteByte(':')
			c11CanonTo(sb, x[k], cli)
		}
		sb.WriteByte('}')
	default:
		// error values travelling as data (gojq returns some type errors by value): their %v text contains the
		// address of an inner pointer, which differs between two runs of the same program (harness flaw found by
		// the thorough tier)
		fmt.Fprintf(sb, "<%T %s>", v, c11StripAddrs(fmt.Sprintf("%v", v)))
	}
}

var c11AddrRe = regexp.MustCompile(`0x[0-9a-f]{6,}`)

func c11StripAddrs(s string) string { return c11AddrRe.ReplaceAllString(s, "0xADDR") }

// c11Result of one reference run
type c11Result struct {
	Outs      []any
	Err       error  // runtime error that ended the run (nil: ran to completion)
	CompileEr string // parse/compile error
	ErrMsg    string // Err.Error(), taken inside the guarded run (gojq's Error() can itself panic, see c11Run)
	CatchVal  any    // what a surrounding `try .. catch .` would receive
	Truncated bool
	Timeout   bool
	Panicked  bool
}

func (r c11Result) key() string {
	var sb strings.Builder
	if r.CompileEr != "" {
		return "compile-error: " + r.CompileEr
	}
	for _, o := range r.Outs {
		c11CanonTo(&sb, o, false)
		sb.WriteByte('\n')
	}
	if r.Truncated {
		sb.WriteString("...truncated")
	} else if r.Err != nil {
		sb.WriteString("error@" + strconv.Itoa(len(r.Outs)) + ": " + r.ErrMsg)
	}
	return sb.String()
}

// catchValue: what `try .. catch .` hands to the catch body for this error (execute.go: ValueError -> its
// value, anything else -> the message)
func c11CatchValue(err error) any {
	if ve, ok := err.(gojq.ValueError); ok {
		return ve.Value()
	}
	return err.Error()
}

func c11Compile(text string, opts ...gojq.CompilerOption) (*gojq.Code, string) {
	q, err := gojq.Parse(text)
	if err != nil {
		return nil, "parse: " + err.Error()
	}
	code, err := gojq.Compile(q, opts...)
	if err != nil {
		return nil, "compile: " + err.Error()
	}
	return code, ""
}

const c11RunTimeout = 5 * time.Second

func c11Run(code *gojq.Code, input any) (res c11Result) {
	ctx, cancel := context.WithTimeout(context.Background(), c11RunTimeout)
	defer cancel()
	// a panic inside plain gojq (seen: `"a" | -index(2.0)`: funcIndex returns its type error BY VALUE, the
	// value travels on as data and TypeOf panics) is not C11's subject: it ends the run like an error and is
	// the same for every text of the same program
	defer func() {
		if r := recover(); r != nil {
			res.Err = fmt.Errorf("gojq panic: %s", c11StripAddrs(fmt.Sprintf("%v", r)))
			res.ErrMsg = res.Err.Error()
			res.Panicked = true
		}
	}()
	iter := code.RunWithContext(ctx, input)
	for {
		v, ok := iter.Next()
		if !ok {
			return res
		}
		if err, ok := v.(error); ok {
			if ctx.Err() != nil {
				res.Timeout = true
				return res
			}
			res.Err = err
			res.ErrMsg = err.Error() // may panic for the by-value type error: recovered above
			res.CatchVal = c11CatchValue(err)
			return res
		}
		if len(res.Outs) >= c11MaxOutputs {
			res.Truncated = true
			return res
		}
		res.Outs = append(res.Outs, v)
	}
}

func c11RunText(text string, input any) c11Result {
	code, ce := c11Compile(text)
	if ce != "" {
		return c11Result{CompileEr: ce}
	}
	return c11Run(code, input)
}

// ---- inputs ----

var c11InputKeys = []string{"a", "b", "c", "foo", "bar", "x1", "_p", "A", "k_2", "if", "and", "end", "as", "e0", "a b", ""}

func c11SmallValue(r *gen.Rand, depth int) any {
	k := r.Intn(12)
	if depth <= 0 && k >= 8 {
		k = r.Intn(8)
	}
	switch {
	case k < 3:
		return r.Intn(12)
	case k < 4:
		return gen.Pick(r, []any{1.5, -2, 0, 0.25, 100})
	case k < 6:
		return gen.Pick(r, []any{"a", "b c", "", "x", "12", "[1,2]", "é", "{\"a\":1}", "a,b"})
	case k < 7:
		return r.Bool()
	case k < 8:
		return nil
	case k < 10:
		n := r.Intn(5)
		a := make([]any, n)
		for i := range a {
			a[i] = c11SmallValue(r, depth-1)
		}
		return a
	default:
		n := r.Intn(5)
		m := map[string]any{}
		for i := 0; i < n; i++ {
			m[gen.Pick(r, c11InputKeys)] = c11SmallValue(r, depth-1)
		}
		return m
	}
}

// three inputs: an object, an array, anything
func c11Inputs(r *gen.Rand) []any {
	obj := map[string]any{}
	for i, n := 0, 2+r.Intn(5); i < n; i++ {
		obj[gen.Pick(r, c11InputKeys)] = c11SmallValue(r, 2)
	}
	arr := make([]any, 1+r.Intn(5))
	for i := range arr {
		arr[i] = c11SmallValue(r, 2)
	}
	var third any // `.a` on null is null: keeps many path programs alive
	if r.Bool() {
		third = c11SmallValue(r, 2)
	}
	return []any{obj, arr, third}
}

func c11Copy(v any) any {
	switch x := v.(type) {
	case []any:
		o := make([]any, len(x))
		for i, e := range x {
			o[i] = c11Copy(e)
		}
		return o
	case map[string]any:
		o := make(map[string]any, len(x))
		for k, e := range x {
			o[k] = c11Copy(e)
		}
		return o
	default:
		return v
	}
}

// ---- rewritten query under stub wrapper functions ----

type c11SliceIter struct {
	vs []any
	i  int
}

func (s *c11SliceIter) Next() (any, bool) {
	if s.i >= len(s.vs) {
		return nil, false
	}
	v := s.vs[s.i]
	s.i++
	return v, true
}

// c11StubOpts: the wrapper's names as plain Go functions so that a wrapped text can be run by gojq alone:
// _cli_display records "D:<value>", _cli_eval_on_expr_error records "E:<caught value>"; both output nothing (as
// the real ones); inputs -> the given values.
type c11Event struct {
	Tag string // "D" displayed value, "E" caught error value, "LEAKED-OUTPUT", "UNCAUGHT"
	V   any
}

func c11EventKey(es []c11Event) string {
	var sb strings.Builder
	for _, e := range es {
		sb.WriteString(e.Tag + ":")
		c11CanonTo(&sb, e.V, false)
		sb.WriteString(" ; ")
	}
	return sb.String()
}

func c11StubOpts(inputs []any, events *[]c11Event) []gojq.CompilerOption {
	cp := make([]any, len(inputs))
	for i, v := range inputs {
		cp[i] = c11Copy(v)
	}
	rec := func(tag string) func(any, []any) gojq.Iter {
		return func(v any, _ []any) gojq.Iter {
			*events = append(*events, c11Event{tag, v})
			return gojq.NewIter()
		}
	}
	return []gojq.CompilerOption{
		gojq.WithIterFunction("_cli_display", 0, 0, rec("D")),
		gojq.WithIterFunction("_cli_eval_on_expr_error", 0, 0, rec("E")),
		gojq.WithInputIter(&c11SliceIter{vs: cp}),
	}
}

var c11IQText = map[string]string{"inputs": "inputs", "null": "null", "slurp": "[inputs]", "iter": ".[]"}

// c11ControlText is the SPECIFICATION of the wrap written by the harness by plain text concatenation:
// INPUT | try (P) catch C | OUTPUT, P on its own lines so that a trailing comment ends (two newlines: a comment
// ending in a backslash continues over one).
func c11ControlText(p, iq string) string {
	return c11IQText[iq] + " | try (\n" + p + "\n\n) catch _cli_eval_on_expr_error | _cli_display"
}

// c11RunWrapped runs a wrapped text (fq's rewrite or the control) under the stubs. status: "" ok, "compile: ..",
// or "inconclusive"
func c11RunWrapped(text string, inputs []any, root any) (events []c11Event, status string) {
	q, err := gojq.Parse(text)
	if err != nil {
		return nil, "parse: " + err.Error()
	}
	code, err := gojq.Compile(q, c11StubOpts(inputs, &events)...)
	if err != nil {
		return nil, "compile: " + err.Error()
	}
	r := c11Run(code, c11Copy(root))
	if r.Timeout || r.Truncated || r.Panicked || len(events) > 4*c11MaxOutputs {
		return events, "inconclusive"
	}
	for _, o := range r.Outs {
		events = append(events, c11Event{"LEAKED-OUTPUT", o})
	}
	if r.Err != nil {
		events = append(events, c11Event{"UNCAUGHT", r.ErrMsg})
	}
	return events, ""
}

// c11PerInputEvents: the same events computed from independent direct runs of P on each input
func c11PerInputEvents(text string, perInput []any) (events []c11Event, errType string, ok bool) {
	code, ce := c11Compile(text)
	if ce != "" {
		return nil, "", false
	}
	for _, in := range perInput {
		r := c11Run(code, c11Copy(in))
		if r.Timeout || r.Truncated || r.Panicked {
			return nil, "", false
		}
		for _, o := range r.Outs {
			events = append(events, c11Event{"D", o})
		}
		if r.Err != nil {
			if errType == "" {
				errType = "message"
				if ve, ok := r.Err.(gojq.ValueError); ok {
					errType = gojq.TypeOf(ve.Value())
				}
			}
			events = append(events, c11Event{"E", r.CatchVal})
		}
	}
	return events, errType, true
}
