package main

// C15 tar: archive/tar (USTAR / PAX / GNU) and Python tarfile.
//
// fq reports the raw 512-byte header blocks, including pax extended headers (typeflag x/g) and GNU long-name
// entries (typeflag L/K). The harness rebuilds the logical members from fq's fields with its own rules
// (POSIX.1-2001 pax records "LEN key=value\n"; ustar prefix + "/" + name; GNU ././@LongLink data) and compares
// them with what was stored. The header checksum is recomputed by hand from the file bytes (sum of all header
// bytes with the chksum field taken as eight spaces).

import (
	"archive/tar"
	"bytes"
	"encoding/hex"
	"fmt"
	"io"
	"strconv"
	"strings"
	"time"

	"verif/gen"
)

type c15TarMember struct {
	name, linkname string
	typ            byte // '0' regular, '5' dir, '2' symlink
	mode           int64
	uid, gid       int
	uname, gname   string
	mtime          int64
	payload        []byte
}

type c15TarBlock struct {
	off    int
	size   int64
	chksum int64
}

type c15TarExp struct {
	members []*c15TarMember
	blocks  []c15TarBlock // every header block, by the harness's own walk
}

func init() {
	c15Register(&c15Format{
		name:  "tar",
		gen:   c15GenTar,
		genPy: c15GenTarPy,
		jq: `{files: [.files[]? | {name, prefix, typeflag, linkname, magic, mode: (.mode|sv), uid: (.uid|sv), gid: (.gid|sv), size: (.size|sv), mtime: (.mtime|sv), ` +
			`chksum: (.chksum|sv), uname, gname, data: (.data|hx), pad_ok: (((.data_block_padding|bl) + (.data|bl)) % 512)}], ` +
			`end_marker_len: (.end_marker|bl)}`,
		cks:     `[.files[]? | (.chksum|ds)]`,
		compare: c15CmpTar,
		ref:     c15RefTar,
		pyCheck: true,
	})
}

func c15TarMembers(r *gen.Rand, small bool, opts map[string]bool, unicodeOK bool) []*c15TarMember {
	n := c15Members(r, small, 1)
	var ms []*c15TarMember
	for i := 0; i < n; i++ {
		m := &c15TarMember{typ: '0'}
		var kind string
		m.name, kind = c15Name(r, i, unicodeOK, !small)
		opts["name:"+kind] = true
		m.payload, _ = c15Payload(r, small)
		if small && len(m.payload) > 40 {
			m.payload = m.payload[:40]
		}
		switch r.Intn(10) {
		case 0:
			m.typ = '5'
			m.name += "/"
			m.payload = nil
			opts["directory"] = true
		case 1:
			m.typ = '2'
			m.linkname = "target/" + c15ASCII(r, 1+r.Intn(20))
			m.payload = nil
			opts["symlink"] = true
		}
		opts["payload:"+c15PayloadClass(m.payload)] = true
		m.mode = int64(gen.Pick(r, []int{0o644, 0o755, 0o600, 0o4755, 0o1777, 0}))
		m.uid = r.Intn(0o7777777)
		m.gid = r.Intn(0o7777777)
		if r.Intn(4) == 0 {
			m.uid, m.gid = 0, 0
		}
		m.uname = c15ASCII(r, r.Intn(12))
		m.gname = c15ASCII(r, r.Intn(12))
		m.mtime = int64(r.Intn(2000000000))
		ms = append(ms, m)
	}
	return ms
}

func c15GenTar(c *c15Ctx, r *gen.Rand, small bool) *c15File {
	opts := map[string]bool{}
	format := gen.Pick(r, []tar.Format{tar.FormatUSTAR, tar.FormatPAX, tar.FormatGNU, tar.FormatUnknown})
	ms := c15TarMembers(r, small, opts, format != tar.FormatUSTAR)
	var buf bytes.Buffer
	tw := tar.NewWriter(&buf)
	f := &c15File{format: "tar", writer: "go", members: len(ms)}
	for _, m := range ms {
		h := &tar.Header{Typeflag: m.typ, Name: m.name, Linkname: m.linkname, Size: int64(len(m.payload)), Mode: m.mode, Uid: m.uid, Gid: m.gid,
			Uname: m.uname, Gname: m.gname, ModTime: time.Unix(m.mtime, 0), Format: format}
		err := tw.WriteHeader(h)
		if err != nil {
			// the requested format cannot hold this member (ustar: name does not split / too long): let the writer choose
			h.Format = tar.FormatUnknown
			opts["format-fallback"] = true
			if err = tw.WriteHeader(h); err != nil {
				panic(err)
			}
		}
		if _, err := tw.Write(m.payload); err != nil {
			panic(err)
		}
		f.payload += int64(len(m.payload))
	}
	if err := tw.Close(); err != nil {
		panic(err)
	}
	if format == tar.FormatUnknown {
		opts["format:auto"] = true
	} else {
		opts["format:"+format.String()] = true
	}
	f.data = buf.Bytes()
	exp := &c15TarExp{members: ms}
	f.exp = exp
	c15TarWalk(f, exp, opts)
	f.opts = c15Opts(opts)
	return f
}

func c15GenTarPy(c *c15Ctx, r *gen.Rand, small bool) *c15File {
	opts := map[string]bool{}
	tf := gen.Pick(r, []string{"ustar", "gnu", "pax"})
	ms := c15TarMembers(r, small, opts, tf != "ustar")
	f := &c15File{format: "tar", writer: "py", members: len(ms)}
	var specs []any
	for _, m := range ms {
		if tf == "ustar" && len(m.name) > 100 {
			// tarfile raises for ustar names that do not split; keep those for gnu/pax
			m.name = m.name[len(m.name)-60:]
			m.name = strings.TrimLeft(m.name, "/")
		}
		typ := "file"
		switch m.typ {
		case '5':
			typ = "dir"
		case '2':
			typ = "symlink"
		}
		specs = append(specs, map[string]any{"name": m.name, "data": c15B64(m.payload), "mode": m.mode, "uid": m.uid, "gid": m.gid,
			"uname": m.uname, "gname": m.gname, "mtime": m.mtime, "type": typ, "linkname": m.linkname})
		f.payload += int64(len(m.payload))
	}
	data, _, err := c.py.write("tar", map[string]any{"tarformat": tf, "members": specs})
	if err != nil {
		panic(err)
	}
	opts["format:"+tf] = true
	f.data = data
	exp := &c15TarExp{members: ms}
	f.exp = exp
	c15TarWalk(f, exp, opts)
	f.opts = c15Opts(opts)
	return f
}

// c15TarWalk: hand-written walk over the header blocks (size field: octal; all sizes here are < 8 GiB).
func c15TarWalk(f *c15File, exp *c15TarExp, opts map[string]bool) {
	p := 0
	for p+512 <= len(f.data) {
		blk := f.data[p : p+512]
		if bytes.Equal(blk, make([]byte, 512)) {
			break
		}
		sizeStr := strings.Trim(string(blk[124:136]), " \x00")
		size, err := strconv.ParseInt(sizeStr, 8, 64)
		if err != nil {
			panic("tar generator: size field " + sizeStr)
		}
		sum := int64(0)
		for i, b := range blk {
			if i >= 148 && i < 156 {
				sum += ' '
			} else {
				sum += int64(b)
			}
		}
		exp.blocks = append(exp.blocks, c15TarBlock{off: p, size: size, chksum: sum})
		switch blk[156] {
		case 'x', 'g':
			opts["pax-header"] = true
		case 'L', 'K':
			opts["gnu-longname"] = true
		}
		if strings.Trim(string(blk[345:500]), "\x00") != "" && blk[257+5] == 0 {
			opts["ustar-prefix"] = true
		}
		// the whole header is covered by chksum; outside the chksum field every single-byte change shifts the sum
		f.regions = append(f.regions,
			c15Region{name: "header", off: p, n: 148, uncond: true},
			c15Region{name: "header", off: p + 148, n: 8},
			c15Region{name: "header", off: p + 156, n: 512 - 156, uncond: true})
		p += 512 + int((size+511)/512*512)
	}
}

func c15CmpTar(c *c15Ctx, f *c15File, got map[string]any) []c15Diff {
	exp := f.exp.(*c15TarExp)
	var diffs []c15Diff
	files, _ := got["files"].([]any)
	if len(files) != len(exp.blocks) {
		return []c15Diff{{sig: "mismatch:tar:files:count", desc: fmt.Sprintf("tar: the file has %d header blocks, fq reports %d entries", len(exp.blocks), len(files))}}
	}
	str := func(m map[string]any, k string) string { s, _ := m[k].(string); return s }
	num := func(m map[string]any, k string) (int64, bool) {
		n, ok := c15Num(m[k])
		if !ok {
			return 0, false
		}
		return n.Int64(), true
	}
	// raw level: size, chksum value, block padding
	for i, b := range exp.blocks {
		e, _ := files[i].(map[string]any)
		c15Cmp("tar", "files[]", map[string]any{"size": b.size, "chksum": b.chksum, "magic": "ustar", "pad_ok": 0}, e, &diffs)
	}
	if len(diffs) > 0 {
		return diffs
	}
	// logical level: fold pax / GNU entries into the member that follows
	type logical struct {
		name, linkname, uname, gname string
		typ                          string
		mode, uid, gid, size, mtime  int64
		data                         []byte
	}
	var ls []logical
	pax := map[string]string{}
	var longName, longLink string
	for i := range files {
		e, _ := files[i].(map[string]any)
		data, _ := hex.DecodeString(str(e, "data"))
		switch str(e, "typeflag") {
		case "x":
			for k, v := range c15PaxRecords(data) {
				pax[k] = v
			}
			continue
		case "g":
			continue
		case "L":
			longName = strings.TrimRight(string(data), "\x00")
			continue
		case "K":
			longLink = strings.TrimRight(string(data), "\x00")
			continue
		}
		var l logical
		l.name = str(e, "name")
		if p := str(e, "prefix"); p != "" {
			l.name = p + "/" + l.name
		}
		l.linkname = str(e, "linkname")
		l.uname, l.gname = str(e, "uname"), str(e, "gname")
		l.typ = str(e, "typeflag")
		l.mode, _ = num(e, "mode")
		l.uid, _ = num(e, "uid")
		l.gid, _ = num(e, "gid")
		l.size, _ = num(e, "size")
		l.mtime, _ = num(e, "mtime")
		l.data = data
		if longName != "" {
			l.name = longName
		}
		if longLink != "" {
			l.linkname = longLink
		}
		for k, v := range pax {
			switch k {
			case "path":
				l.name = v
			case "linkpath":
				l.linkname = v
			case "uname":
				l.uname = v
			case "gname":
				l.gname = v
			case "uid":
				l.uid, _ = strconv.ParseInt(v, 10, 64)
			case "gid":
				l.gid, _ = strconv.ParseInt(v, 10, 64)
			case "size":
				l.size, _ = strconv.ParseInt(v, 10, 64)
			case "mtime":
				if j := strings.IndexByte(v, '.'); j >= 0 {
					v = v[:j]
				}
				l.mtime, _ = strconv.ParseInt(v, 10, 64)
			}
		}
		pax = map[string]string{}
		longName, longLink = "", ""
		ls = append(ls, l)
	}
	if len(ls) != len(exp.members) {
		return []c15Diff{{sig: "mismatch:tar:members:count", desc: fmt.Sprintf("tar: stored %d members, fq's entries fold to %d", len(exp.members), len(ls))}}
	}
	for i, m := range exp.members {
		l := ls[i]
		g := map[string]any{"name": l.name, "linkname": l.linkname, "uname": l.uname, "gname": l.gname, "typeflag": l.typ,
			"mode": l.mode, "uid": l.uid, "gid": l.gid, "size": l.size, "mtime": l.mtime, "data": hex.EncodeToString(l.data)}
		e := map[string]any{"name": m.name, "linkname": m.linkname, "uname": m.uname, "gname": m.gname, "typeflag": string(rune(m.typ)),
			"mode": m.mode, "uid": m.uid, "gid": m.gid, "size": len(m.payload), "mtime": m.mtime, "data": c15Hex(m.payload)}
		var ds []c15Diff
		c15Cmp("tar", "member", e, g, &ds)
		for _, d := range ds {
			d.desc = fmt.Sprintf("[member %d] ", i) + d.desc
			diffs = append(diffs, d)
		}
	}
	if _, ok := got["end_marker_len"]; ok {
		if n, ok := c15Num(got["end_marker_len"]); !ok || n.Int64() < 1024 {
			diffs = append(diffs, c15Diff{sig: "mismatch:tar:end_marker", desc: fmt.Sprintf("tar: end marker of at least 1024 zero bytes was written, fq reports %v", got["end_marker_len"])})
		}
	}
	return diffs
}

// c15PaxRecords parses "LEN key=value\n" records (POSIX.1-2001).
func c15PaxRecords(b []byte) map[string]string {
	out := map[string]string{}
	for len(b) > 0 {
		sp := bytes.IndexByte(b, ' ')
		if sp < 0 {
			break
		}
		n, err := strconv.Atoi(string(b[:sp]))
		if err != nil || n > len(b) || n < sp+3 {
			break
		}
		rec := string(b[sp+1 : n-1])
		if eq := strings.IndexByte(rec, '='); eq >= 0 {
			out[rec[:eq]] = rec[eq+1:]
		}
		b = b[n:]
	}
	return out
}

// c15RefTar: archive/tar iterates all members (verifies every header checksum) and reads the data.
func c15RefTar(f *c15File, data []byte) error {
	exp := f.exp.(*c15TarExp)
	tr := tar.NewReader(bytes.NewReader(data))
	n := 0
	for {
		h, err := tr.Next()
		if err == io.EOF {
			break
		}
		if err != nil {
			return err
		}
		if _, err := io.Copy(io.Discard, tr); err != nil {
			return err
		}
		if n < len(exp.members) && h.Name != exp.members[n].name {
			return fmt.Errorf("member %d is named %q, stored %q", n, h.Name, exp.members[n].name)
		}
		n++
	}
	if n != len(exp.members) {
		return fmt.Errorf("%d members, stored %d", n, len(exp.members))
	}
	return nil
}
