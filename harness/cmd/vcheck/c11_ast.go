package main

// C11 helpers over the JSON form of the gojq AST (what fq's _query_fromstring returns): normaliser that
// removes semantically transparent parentheses, structural diff (for narrow signatures), node count, hash.

import (
	"crypto/sha256"
	"encoding/hex"
	"encoding/json"
	"fmt"
	"reflect"
	"sort"
	"strings"
)

// c11Norm removes redundant TermTypeQuery nodes. On the TREE (not the text) a parenthesis node without
// suffixes is semantically transparent:
//   - in query position  {term:{type:TermTypeQuery, query:Q}}            ==> Q
//   - in term position   {type:TermTypeQuery, query:{term:T}}             ==> T   (inner is a bare term)
//
// Parentheses that carry a suffix list (`(1,2)[0]`, `(-1)?`) are kept. A missing parenthesis changes the shape
// of the tree (which operator is whose child) and is NOT hidden by this.
func c11Norm(v any) any {
	switch x := v.(type) {
	case []any:
		out := make([]any, len(x))
		for i, e := range x {
			out[i] = c11Norm(e)
		}
		return out
	case map[string]any:
		m := make(map[string]any, len(x))
		for k, e := range x {
			m[k] = c11Norm(e)
		}
		if len(m) == 1 {
			if t, ok := m["term"].(map[string]any); ok && c11BareParen(t) {
				return t["query"]
			}
		}
		// `. .[0]` / `. [0]` (identity with a leading index suffix, grammar: term '.' suffix | term suffix) is
		// printed as `.[0]`, which parses to an index TERM: two representations of the same path. Learnt from a
		// disagreement on the unchanged tree (normaliser flaw, not a defect): canonical form is the index term.
		if m["type"] == "TermTypeIdentity" {
			if sl, ok := m["suffix_list"].([]any); ok && len(sl) > 0 {
				if first, ok := sl[0].(map[string]any); ok && len(first) == 1 && first["index"] != nil {
					m["type"] = "TermTypeIndex"
					m["index"] = first["index"]
					if len(sl) > 1 {
						m["suffix_list"] = sl[1:]
					} else {
						delete(m, "suffix_list")
					}
				}
			}
		}
		if c11BareParen(m) {
			if inner, ok := m["query"].(map[string]any); ok && len(inner) == 1 {
				if t, ok := inner["term"].(map[string]any); ok {
					return t
				}
			}
		}
		return m
	default:
		return v
	}
}

func c11BareParen(t map[string]any) bool {
	if t["type"] != "TermTypeQuery" {
		return false
	}
	if sl, ok := t["suffix_list"].([]any); ok && len(sl) > 0 {
		return false
	}
	_, ok := t["query"].(map[string]any)
	return ok
}

func c11Equal(a, b any) bool { return reflect.DeepEqual(a, b) }

func c11Hash(v any) string {
	b, _ := json.Marshal(v) // map keys are sorted by encoding/json
	h := sha256.Sum256(b)
	return hex.EncodeToString(h[:12])
}

var c11OpNames = map[string]string{"|": "pipe", ",": "comma", "//": "alt", "=": "assign", "|=": "modify", "+=": "update-add", "-=": "update-sub",
	"*=": "update-mul", "/=": "update-div", "%=": "update-mod", "//=": "update-alt", "or": "or", "and": "and", "==": "eq", "!=": "ne", "<": "lt",
	"<=": "le", ">": "gt", ">=": "ge", "+": "add", "-": "sub", "*": "mul", "/": "div", "%": "mod"}

// c11Kind names an AST node for signatures
func c11Kind(v any) string {
	m, ok := v.(map[string]any)
	if !ok {
		switch v.(type) {
		case nil:
			return "absent"
		case []any:
			return "list"
		default:
			return "scalar"
		}
	}
	if op, ok := m["op"].(string); ok {
		if _, isUnary := m["term"]; isUnary && m["left"] == nil {
			return "unary" + op
		}
		if n, ok := c11OpNames[op]; ok {
			return n
		}
		return "op"
	}
	if t, ok := m["type"].(string); ok {
		return strings.ToLower(strings.TrimPrefix(t, "TermType"))
	}
	if t, ok := m["term"].(map[string]any); ok {
		if _, ok := m["func_defs"]; ok {
			return "def"
		}
		if sl, ok := t["suffix_list"].([]any); ok && len(sl) > 0 {
			if last, ok := sl[len(sl)-1].(map[string]any); ok && last["bind"] != nil {
				return "bind"
			}
		}
		return c11Kind(t)
	}
	keys := make([]string, 0, len(m))
	for k := range m {
		keys = append(keys, k)
	}
	sort.Strings(keys)
	switch {
	case m["func_defs"] != nil:
		return "def"
	case m["bind"] != nil:
		return "bind-suffix"
	case m["index"] != nil:
		return "index-suffix"
	case m["iter"] != nil:
		return "iter-suffix"
	case m["optional"] != nil:
		return "optional-suffix"
	case m["import_path"] != nil || m["import_alias"] != nil || m["include_path"] != nil:
		return "import"
	case m["keyvals"] != nil:
		return "constobject"
	case m["key_vals"] != nil:
		return "object-body"
	case m["patterns"] != nil:
		return "bind-suffix"
	case m["queries"] != nil || m["str"] != nil:
		return "string"
	}
	return "node{" + strings.Join(keys, ",") + "}"
}

// c11Diff finds the first structural difference; returns a human path, the kind of the nearest enclosing
// named node and the kind of the differing node (in a).
func c11Diff(a, b any) (path string, parent string, child string, found bool) {
	return c11DiffRec(a, b, "$", "program")
}

func c11DiffRec(a, b any, path, parent string) (string, string, string, bool) {
	if reflect.DeepEqual(a, b) {
		return "", "", "", false
	}
	am, aok := a.(map[string]any)
	bm, bok := b.(map[string]any)
	if aok && bok {
		here := c11Kind(am)
		if here != c11Kind(bm) {
			return path, parent, here + "-vs-" + c11Kind(bm), true
		}
		if strings.HasPrefix(here, "node{") {
			here = parent
		}
		keys := map[string]bool{}
		for k := range am {
			keys[k] = true
		}
		for k := range bm {
			keys[k] = true
		}
		ks := make([]string, 0, len(keys))
		for k := range keys {
			ks = append(ks, k)
		}
		sort.Strings(ks)
		for _, k := range ks {
			av, ain := am[k]
			bv, bin := bm[k]
			if !ain || !bin {
				return path + "." + k, here, "field-" + k, true
			}
			if k == "imports" || k == "meta" {
				if p, _, ch, f := c11DiffRec(av, bv, path+"."+k, "program"); f {
					if k == "imports" {
						ch = "import"
						if al, ok := av.([]any); ok {
							for _, im := range al {
								if imm, ok := im.(map[string]any); ok && imm["import_alias"] != nil && imm["import_path"] == nil {
									ch = "import-empty-path"
								}
							}
						}
					}
					return p, "program", ch, f
				}
				continue
			}
			if p, pa, ch, f := c11DiffRec(av, bv, path+"."+k, here); f {
				return p, pa, ch, f
			}
		}
		return path, parent, here, true
	}
	aa, aok := a.([]any)
	ba, bok := b.([]any)
	if aok && bok {
		if len(aa) != len(ba) {
			return path, parent, "list-length", true
		}
		for i := range aa {
			if p, pa, ch, f := c11DiffRec(aa[i], ba[i], fmt.Sprintf("%s[%d]", path, i), parent); f {
				return p, pa, ch, f
			}
		}
	}
	return path, parent, c11Kind(a), true
}

// c11NodeCount counts Query-with-operator and Term nodes
func c11NodeCount(v any) int {
	n := 0
	switch x := v.(type) {
	case []any:
		for _, e := range x {
			n += c11NodeCount(e)
		}
	case map[string]any:
		if _, ok := x["type"]; ok {
			n++
		} else if _, ok := x["op"]; ok {
			n++
		}
		for _, e := range x {
			n += c11NodeCount(e)
		}
	}
	return n
}

// c11Kinds collects the kinds present in an AST (what the parser actually produced, for the evidence)
func c11Kinds(v any, out map[string]int) {
	switch x := v.(type) {
	case []any:
		for _, e := range x {
			c11Kinds(e, out)
		}
	case map[string]any:
		if _, ok := x["type"]; ok {
			out[c11Kind(x)]++
		} else if _, ok := x["op"]; ok {
			out[c11Kind(x)]++
		} else if x["bind"] != nil || x["func_defs"] != nil || x["optional"] != nil || x["iter"] != nil {
			k := c11Kind(x)
			if x["func_defs"] != nil {
				k = "def"
			}
			out[k]++
		}
		for _, e := range x {
			c11Kinds(e, out)
		}
	}
}

func c11JSON(v any) string {
	b, err := json.Marshal(v)
	if err != nil {
		return fmt.Sprintf("<%v>", err)
	}
	return string(b)
}

// rotate the top-level pipe spine to the right: ((a|b)|c) -> (a|(b|c)); pipes are associative on the tree
func c11RightPipes(q any) any {
	m, ok := q.(map[string]any)
	if !ok || m["op"] != "|" || m["func_defs"] != nil {
		return q
	}
	var ops []any
	var flat func(x any)
	flat = func(x any) {
		if xm, ok := x.(map[string]any); ok && xm["op"] == "|" && xm["func_defs"] == nil && xm["meta"] == nil && xm["imports"] == nil {
			flat(xm["left"])
			flat(xm["right"])
			return
		}
		ops = append(ops, x)
	}
	flat(m["left"])
	flat(m["right"])
	acc := ops[len(ops)-1]
	for i := len(ops) - 2; i >= 0; i-- {
		acc = map[string]any{"op": "|", "left": ops[i], "right": acc}
	}
	out := acc.(map[string]any)
	for _, k := range []string{"meta", "imports"} {
		if v, ok := m[k]; ok {
			out[k] = v
		}
	}
	return out
}
