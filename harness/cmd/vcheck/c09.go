package main

// C09 — binary values obey bit-string algebra.
// Program generator + reference evaluator: random jq expression trees over strings, numbers, hex
// binaries, decode value fields and opened files are evaluated by a live fq interpreter (batched) and
// by the reference model in c09_ref.go; results are compared as (source bits, range, unit, pad) /
// numbers / strings / lists / must-fail. Every disagreement is minimised to the smallest
// sub-expression whose inputs all agree, and gets a signature made of that operator.

import (
	"context"
	"encoding/hex"
	"fmt"
	"math/big"
	"os"
	"runtime"
	"sort"
	"strings"
	"sync"

	"github.com/wader/fq/pkg/bitio"
	"github.com/wader/fq/pkg/interp"
	"github.com/wader/fq/pkg/verifx"

	"verif/ev"
	"verif/fqx"
	"verif/gen"
)

func init() { register("C09", c09Main) }

const c09ErrKey = "c09err"

// ---- observing fq values ----

func c09ReadAll(br bitio.ReaderAtSeeker, n int64) (c09Bits, error) {
	buf := make([]byte, (n+7)/8+1)
	var w c09Builder
	off := int64(0)
	for off < n {
		m, err := br.ReadBitsAt(buf, n-off, off)
		if m > 0 {
			w.addBits(c09Bits{b: buf, n: m}, 0, m)
			off += m
		}
		if err != nil && off < n {
			return w.bits(), err
		}
		if m == 0 && err == nil {
			return w.bits(), fmt.Errorf("ReadBitsAt returned 0 bits without error at %d of %d", off, n)
		}
	}
	return w.bits(), nil
}

// c09Observe turns a jq result into the same value type the reference uses. Must run while the
// evaluation that produced it is still alive (opened files are read through its context).
func c09Observe(v any) *c09Val {
	switch vv := v.(type) {
	case nil:
		return &c09Val{k: c09KNull}
	case interp.Binary:
		br, start, length, unit, pad := interp.BinaryParts(vv)
		if br == nil {
			return &c09Val{k: c09KBad, why: "binary without reader"}
		}
		total, err := verifx.BitsLen(br)
		if err != nil {
			return &c09Val{k: c09KBad, why: "binary: length of source: " + err.Error()}
		}
		src, err := c09ReadAll(br, total)
		if err != nil {
			return &c09Val{k: c09KBad, why: fmt.Sprintf("binary: reading %d source bits: %v", total, err)}
		}
		return &c09Val{k: c09KBin, src: src, start: start, n: length, unit: unit, pad: pad}
	case int:
		return c09IntVal(int64(vv))
	case *big.Int:
		return c09NumVal(vv)
	case float64:
		bf := new(big.Float).SetFloat64(vv)
		if bi, acc := bf.Int(nil); acc == big.Exact {
			return c09NumVal(bi)
		}
		return &c09Val{k: c09KBad, why: fmt.Sprintf("float %v", vv)}
	case string:
		return &c09Val{k: c09KStr, s: vv}
	case []any:
		out := &c09Val{k: c09KList}
		for _, e := range vv {
			out.list = append(out.list, c09Observe(e))
		}
		return out
	case map[string]any:
		if m, ok := vv[c09ErrKey]; ok {
			return c09ErrVal(fmt.Sprint(m))
		}
		return &c09Val{k: c09KBad, why: "object"}
	case bool:
		return &c09Val{k: c09KBad, why: "bool"}
	}
	return &c09Val{k: c09KBad, why: fmt.Sprintf("%T", v)}
}

// c09Diff returns "" when the observed value is what the reference predicts, else the aspect.
func c09Diff(exp, obs *c09Val) string {
	if exp.k == c09KErr {
		if obs.k == c09KErr {
			return ""
		}
		return exp.why + "-accepted"
	}
	if obs.k == c09KErr {
		return "unexpected-error"
	}
	if exp.k != obs.k {
		return "kind-mismatch"
	}
	switch exp.k {
	case c09KBin:
		switch {
		case exp.unit != obs.unit:
			return "unit-mismatch"
		case exp.start != obs.start:
			return "start-mismatch"
		case exp.n != obs.n:
			return "len-mismatch"
		case obs.start < 0 || obs.n < 0 || obs.start+obs.n > obs.src.n:
			return "range-outside-source"
		case !exp.rangeBits().equal(obs.rangeBits()):
			return "bits-mismatch"
		case exp.pad != obs.pad:
			return "pad-mismatch"
		case !exp.src.equal(obs.src):
			return "source-mismatch"
		}
	case c09KStr:
		if exp.s != obs.s {
			return "string-mismatch"
		}
	case c09KNum:
		if exp.num.Cmp(obs.num) != 0 {
			return "number-mismatch"
		}
	case c09KList:
		if len(exp.list) != len(obs.list) {
			return "list-length-mismatch"
		}
		for i := range exp.list {
			if d := c09Diff(exp.list[i], obs.list[i]); d != "" {
				return d
			}
		}
	case c09KBad:
		return "not-comparable"
	}
	return ""
}

// c09LawCheck checks the law among the OBSERVED members only (no reference involved).
func c09LawCheck(n *c09Node, obs *c09Val) string {
	if obs.k != c09KList {
		return "result is not a list"
	}
	m := obs.list
	isBin := func(v *c09Val) bool {
		return v.k == c09KBin && v.start >= 0 && v.n >= 0 && v.start+v.n <= v.src.n
	}
	switch n.law {
	case "split-concat":
		for i, e := range m {
			if !isBin(e) || !isBin(m[0]) {
				return fmt.Sprintf("member %d is not a binary", i)
			}
			if i > 0 && !e.rangeBits().equal(m[0].rangeBits()) {
				return fmt.Sprintf("[b[:%d], b[%d:]] | tobits = %s but b[0:] | tobits = %s", i-1, i-1, e.rangeBits(), m[0].rangeBits())
			}
		}
	case "front-pad":
		if len(m) != 4 {
			return "expected 4 members"
		}
		for i, e := range m {
			if !isBin(e) {
				return fmt.Sprintf("member %d is not a binary", i)
			}
		}
		b := m[0].rangeBits()
		k := n.lawArg[0]
		want := []int64{0, (8 - b.n%8) % 8, (8*k - b.n%(8*k)) % (8 * k), (k - b.n%k) % k}
		names := []string{"tobits", "tobytes | tobits", fmt.Sprintf("tobytes(%d) | tobits", k), fmt.Sprintf("tobits(%d)", k)}
		for i := 1; i < 4; i++ {
			if !m[i].rangeBits().equal(c09Concat(c09Zeros(want[i]), b)) {
				return fmt.Sprintf("%s = %s is not %d zero bits followed by tobits = %s", names[i], m[i].rangeBits(), want[i], b)
			}
		}
	case "reslice":
		for i := 0; i+1 < len(m); i += 2 {
			x, y := m[i], m[i+1]
			if x.k != y.k {
				return fmt.Sprintf("members %d,%d differ in kind: %s vs %s", i, i+1, x, y)
			}
			switch x.k {
			case c09KNum:
				if x.num.Cmp(y.num) != 0 {
					return fmt.Sprintf("b[a:b][i] = %s but b[a+i] = %s", x, y)
				}
			case c09KBin:
				if !isBin(x) || !isBin(y) || x.start != y.start || x.n != y.n || x.unit != y.unit || !x.rangeBits().equal(y.rangeBits()) {
					return fmt.Sprintf("b[a:b][c:d] = %s but b[a+c:a+d] = %s", x, y)
				}
			default:
				return fmt.Sprintf("members %d,%d: unexpected kind %s", i, i+1, x)
			}
		}
	}
	return ""
}

// ---- driving fq ----

type c09Worker struct {
	run *ev.Run
	s   *fqx.Session
	bud *c09Budget
}

// c09Budget bounds the cost of a run in which very many expressions disagree (each minimisation is
// several single Evals): per class (direct-op-on-open-value inside?, root operator, aspect) the
// first c09MinimisePerClass disagreements are minimised; later ones of the same class are still
// reported, under the signature the class was last minimised to, and say so.
type c09Budget struct {
	mu   sync.Mutex
	n    map[string]int
	last map[string]string
}

const c09MinimisePerClass = 25

func (b *c09Budget) take(class string) (bool, string) {
	b.mu.Lock()
	defer b.mu.Unlock()
	b.n[class]++
	return b.n[class] <= c09MinimisePerClass, b.last[class]
}
func (b *c09Budget) minimised(class, sig string) {
	b.mu.Lock()
	b.last[class] = sig
	b.mu.Unlock()
}

func (w *c09Worker) session() *fqx.Session {
	if w.s == nil {
		w.s = fqx.NewSession()
	}
	return w.s
}

// reset drops the interpreter: after a Go panic its eval/interrupt stacks are in an unknown state.
func (w *c09Worker) reset() { w.s = nil }

// eval evaluates closed expressions in ONE jq program; every expression is wrapped so that a jq
// error becomes {c09err: message}. Results are observed before the evaluation context ends.
func (w *c09Worker) eval(files map[string][]byte, exprs []string) (obs []*c09Val, pi *fqx.PanicInfo, err error) {
	s := w.session()
	s.OS.Files = files
	var sb strings.Builder
	sb.WriteString("[")
	for i, e := range exprs {
		if i > 0 {
			sb.WriteString(",\n")
		}
		sb.WriteString("[try (" + e + ") catch {" + c09ErrKey + ": tostring}]")
	}
	sb.WriteString("]")
	pi = fqx.Guard(func() {
		iter, e := s.I.Eval(context.Background(), nil, sb.String(), interp.NewEvalOpts("", s.OS.StdoutV))
		if e != nil {
			err = e
			return
		}
		first := true
		for {
			v, ok := iter.Next()
			if !ok {
				break
			}
			if e, isErr := v.(error); isErr {
				err = e
				break
			}
			if !first {
				err = fmt.Errorf("more than one output")
				continue
			}
			first = false
			arr, isArr := v.([]any)
			if !isArr || len(arr) != len(exprs) {
				err = fmt.Errorf("unexpected program output %T", v)
				continue
			}
			for _, e := range arr {
				inner, _ := e.([]any)
				if len(inner) != 1 {
					obs = append(obs, &c09Val{k: c09KBad, why: fmt.Sprintf("%d outputs", len(inner))})
					continue
				}
				obs = append(obs, c09Observe(inner[0]))
			}
		}
	})
	if pi != nil {
		w.reset()
		return nil, pi, nil
	}
	if err == nil && len(obs) != len(exprs) {
		err = fmt.Errorf("no output")
	}
	return obs, nil, err
}

type c09Outcome struct {
	obs    *c09Val
	pi     *fqx.PanicInfo
	err    error
	aspect string
}

func (o c09Outcome) bad() bool { return o.pi != nil || o.err != nil || o.aspect != "" }

func (w *c09Worker) evalOne(files map[string][]byte, n *c09Node) c09Outcome {
	obs, pi, err := w.eval(files, []string{n.closed()})
	o := c09Outcome{pi: pi, err: err}
	if pi == nil && err == nil {
		o.obs = obs[0]
		o.aspect = c09Diff(n.v, o.obs)
	}
	return o
}

func c09Comparable(v *c09Val) bool {
	return !v.hasOpaque() && !(v.k == c09KNum && v.num.Sign() < 0)
}

// culpritIn looks for the smallest disagreeing sub-expression inside k (nil = k's subtree agrees).
func (w *c09Worker) culpritIn(files map[string][]byte, k *c09Node) (*c09Node, c09Outcome) {
	if c09Comparable(k.v) && k.op != "." {
		o := w.evalOne(files, k)
		if !o.bad() {
			return nil, o
		}
		for _, kk := range k.kids() {
			if c, co := w.culpritIn(files, kk); c != nil {
				return c, co
			}
		}
		return k, o
	}
	for _, kk := range k.kids() {
		if c, co := w.culpritIn(files, kk); c != nil {
			return c, co
		}
	}
	return nil, c09Outcome{}
}

func (w *c09Worker) minimise(files map[string][]byte, n *c09Node, o c09Outcome) (*c09Node, c09Outcome) {
	for _, k := range n.kids() {
		if c, co := w.culpritIn(files, k); c != nil {
			return c, co
		}
	}
	return n, o
}

// c09PanicSite: the first fq function on the stack below the panic.
func c09PanicSite(stack string) string {
	lines := strings.Split(stack, "\n")
	seen := false
	for _, l := range lines {
		if strings.HasPrefix(l, "panic(") {
			seen = true
			continue
		}
		if !seen || strings.HasPrefix(l, "\t") {
			continue
		}
		if strings.HasPrefix(l, "github.com/wader/fq/") {
			f := l[strings.LastIndex(l, "/")+1:]
			if i := strings.LastIndex(f, "("); i > 0 {
				f = f[:i]
			}
			return f
		}
	}
	return "unknown"
}

func c09InputKind(n *c09Node) string {
	if n.in != nil {
		return n.in.v.kindName()
	}
	if n.ctx != nil {
		return n.ctx.v.kindName()
	}
	return strings.TrimPrefix(n.op, "leaf:")
}

func c09Signature(n *c09Node, o c09Outcome) string {
	onOpen := n.in != nil && n.in.v.k == c09KBin && n.in.v.flavor == c09Open && c09IsDirectOp(n.op)
	if o.pi != nil {
		if onOpen && strings.Contains(fmt.Sprint(o.pi.Value), "divide by zero") {
			// one root cause for slice/index/length/.size/.start/.stop/explode straight on the value
			// returned by open: its embedded Binary is never initialised (unit 0)
			return "panic:open-value-slice:divide-by-zero"
		}
		return "panic:" + c09PanicSite(o.pi.Stack)
	}
	if o.err != nil {
		return "harness:eval-error"
	}
	if onOpen {
		return "open-value:direct-op:mismatch"
	}
	if strings.HasSuffix(o.aspect, "-accepted") {
		if strings.HasPrefix(o.aspect, "member-") {
			return "array:" + o.aspect
		}
		return n.op + ":" + o.aspect
	}
	sig := n.op + ":" + c09InputKind(n)
	if n.detail != "" {
		sig += ":" + n.detail
	}
	return sig + ":" + c09RefineAspect(n, o)
}

// c09RefineAspect: a materialising conversion whose result still ends in the input's bits but has
// a different number of leading zero bits got the PADDING wrong (rather than the content).
func c09RefineAspect(n *c09Node, o c09Outcome) string {
	switch n.op {
	case "tobits", "tobytes", "tobits(n)", "tobytes(n)":
	default:
		return o.aspect
	}
	if (o.aspect != "len-mismatch" && o.aspect != "bits-mismatch") || n.in == nil || o.obs == nil || o.obs.k != c09KBin {
		return o.aspect
	}
	payload, why := c09Flatten(n.in.v, false)
	got := o.obs
	if why != "" || got.start < 0 || got.start+got.n > got.src.n || got.n < payload.n {
		return o.aspect
	}
	gb := got.rangeBits()
	lead := gb.n - payload.n
	if gb.slice(lead, payload.n).equal(payload) && gb.slice(0, lead).equal(c09Zeros(lead)) {
		return "pad-mismatch"
	}
	return o.aspect
}

func c09UsedFiles(files map[string][]byte, expr string) map[string]string {
	out := map[string]string{}
	for name, b := range files {
		if strings.Contains(expr, c09Quote(name)) {
			out[name] = hex.EncodeToString(b)
		}
	}
	return out
}

func (w *c09Worker) report(files map[string][]byte, orig *c09Node, o c09Outcome) {
	class := fmt.Sprintf("%v:%s:%s", orig.risky, orig.op, o.aspect)
	if o.pi != nil {
		class += "panic:" + c09PanicSite(o.pi.Stack)
	}
	n, no := orig, o
	ok, lastSig := w.bud.take(class)
	if ok || lastSig == "" {
		n, no = w.minimise(files, orig, o)
	}
	sig := c09Signature(n, no)
	if ok || lastSig == "" {
		w.bud.minimised(class, sig)
	} else {
		sig = lastSig
		w.run.Count("disagreement-not-minimised", 1)
	}
	if no.err != nil {
		w.run.Inconclusive("eval-error")
		fmt.Fprintf(os.Stderr, "C09: harness: evaluation error %v for %s\n", no.err, n.closed())
		return
	}
	var observed string
	switch {
	case no.pi != nil:
		observed = fmt.Sprintf("Go panic: %v (top fq frame %s)", no.pi.Value, c09PanicSite(no.pi.Stack))
	default:
		observed = no.obs.String() + "  [" + no.aspect + "]"
	}
	expr := n.closed()
	desc := fmt.Sprintf("jq: %s\n  expected: %s\n  observed: %s", expr, n.v, observed)
	uf := c09UsedFiles(files, expr)
	if len(uf) > 0 {
		var names []string
		for k := range uf {
			names = append(names, k)
		}
		sort.Strings(names)
		for _, k := range names {
			desc += fmt.Sprintf("\n  file %s = hex %q", k, uf[k])
		}
	}
	if n != orig {
		desc += "\n  minimised from: " + orig.closed()
	}
	if !ok && lastSig != "" {
		desc += "\n  (not minimised: more than " + fmt.Sprint(c09MinimisePerClass) + " disagreements of class " + class + "; signature of the last minimised one)"
	}
	replay := map[string]any{"expr": expr, "files_hex": uf, "expected": n.v.String(), "observed": observed, "original": orig.closed(), "shape": n.shape}
	if no.pi != nil {
		replay["stack"] = no.pi.Stack
	}
	w.run.Violation(sig, desc, replay)
}

// check compares one evaluated expression; counts what was observed.
func (w *c09Worker) check(files map[string][]byte, n *c09Node, o c09Outcome, sample bool) {
	run := w.run
	run.Eval(1)
	n.walk(func(x *c09Node) {
		switch {
		case strings.HasPrefix(x.op, "leaf:"):
			run.Count(x.op, 1)
		case x.op == ".":
		default:
			run.Count("op:"+x.op, 1)
			if x.op == "array" && x.v.k == c09KList {
				for _, m := range x.v.list {
					switch {
					case m.k == c09KList:
						run.Count("array-member:nested-array", 1)
					case m.k == c09KBin && m.n%8 != 0:
						run.Count("array-member:binary-not-byte-sized", 1)
					case m.k == c09KBin:
						run.Count("array-member:binary", 1)
					default:
						run.Count("array-member:"+m.kindName(), 1)
					}
				}
			}
			if x.detail != "" && (x.op == "slice" || x.op == "index") {
				run.Count("variant:"+x.op+":"+x.detail, 1)
			}
			if x.in != nil && x.v.k != c09KErr {
				run.Count("input:"+c09InputKind(x), 1)
			}
		}
	})
	run.Count("expected:"+n.v.resultKind(), 1)
	run.Count(fmt.Sprintf("height:%d", n.h), 1)
	n.walk(func(x *c09Node) {
		if v := x.v; v.k == c09KBin && v.flavor == c09Plain && x.op != "." {
			run.Count(fmt.Sprintf("binary:unit%d", v.unit), 1)
			if v.start%8 != 0 {
				run.Count("binary:start-not-byte-aligned", 1)
			}
			if v.n%int64(v.unit) != 0 {
				run.Count("binary:partial-last-unit", 1)
			}
			if v.pad != 0 {
				run.Count("binary:front-pad", 1)
			}
			if v.start != 0 {
				run.Count("binary:start>0", 1)
			}
			if v.n == 0 {
				run.Count("binary:empty", 1)
			}
		}
	})
	if n.v.k == c09KErr {
		run.Count("expected-error:"+n.v.why, 1)
	}
	if n.h >= 2 {
		run.Distinct(n.shape)
	}
	if o.pi == nil && o.err == nil {
		run.Count("compared:"+n.v.resultKind(), 1)
		if o.aspect == "" && n.law != "" {
			run.Count("law:"+n.law, 1)
			run.Count("law-members", int64(len(n.members)))
			if msg := c09LawCheck(n, o.obs); msg != "" {
				unit := "bits-unit"
				if n.in.v.unit == 8 {
					unit = "bytes-unit"
				}
				expr := n.closed()
				run.Violation("law:"+n.law+":"+unit+":violated", fmt.Sprintf("jq: %s\n  %s\n  observed: %s", expr, msg, o.obs),
					map[string]any{"expr": expr, "files_hex": c09UsedFiles(files, expr), "law": n.law})
			}
		}
	}
	if sample {
		s := map[string]any{"jq": n.closed(), "expected": n.v.String()}
		if o.obs != nil {
			s["observed"] = o.obs.String()
		}
		run.Sample(s)
	}
	if o.bad() {
		w.report(files, n, o)
	}
}

// batch evaluates the expressions of one generator (sharing its files).
func (w *c09Worker) batch(g *c09Gen, nodes []*c09Node, sampleFirst bool) {
	var together []*c09Node
	for _, n := range nodes {
		if !n.risky {
			together = append(together, n)
		}
	}
	res := map[*c09Node]c09Outcome{}
	if len(together) > 0 {
		exprs := make([]string, len(together))
		for i, n := range together {
			exprs[i] = n.closed()
		}
		obs, pi, err := w.eval(g.files, exprs)
		if pi != nil || err != nil {
			// something in the batch panicked or did not compile: evaluate one by one
			w.run.Count("batch-fallback", 1)
			together = nil
		} else {
			for i, n := range together {
				res[n] = c09Outcome{obs: obs[i], aspect: c09Diff(n.v, obs[i])}
			}
		}
	}
	for i, n := range nodes {
		o, ok := res[n]
		if !ok {
			o = w.evalOne(g.files, n)
			w.run.Count("evaluated-alone", 1)
		}
		w.check(g.files, n, o, sampleFirst && i < 3)
	}
}

// ---- directed cases ----

// c09Directed: the operators applied straight to the value returned by open (empty and non-empty
// file) and the examples of doc/usage.md, through the same machinery.
func c09Directed(w *c09Worker) {
	g := c09NewGen(gen.New(0), "d", 8)
	var nodes []*c09Node
	openLeaf := func(b []byte) *c09Node {
		name := g.newFile(b)
		return g.leafNode("open", c09Quote(name)+" | open",
			&c09Val{k: c09KBin, src: c09BitsFromBytes(b), n: int64(len(b)) * 8, unit: 8, flavor: c09Open})
	}
	for _, content := range [][]byte{{}, {0x12, 0x34, 0x56, 0x78, 0x9a}} {
		l := openLeaf(content)
		nodes = append(nodes,
			g.opSlice(l, c09P(0), c09P(1)), g.opSlice(l, c09P(1), nil), g.opIndex(l, 0), g.opIndex(l, -1),
			g.opSimple(l, "length"), g.opSimple(l, ".size"), g.opSimple(l, ".start"), g.opSimple(l, ".stop"),
			g.opSimple(l, ".unit"), g.opSimple(l, "explode"), g.opSimple(l, "tostring"), g.opSimple(l, "tonumber"),
			g.opSimple(l, ".bits"), g.opSimple(l, ".bytes"), g.opSimple(l, "to_hex"),
			g.opTo(l, 8, false, -1), g.opTo(l, 1, false, -1), g.opTo(l, 8, true, -1),
			g.opSlice(g.opTo(l, 8, true, -1), c09P(0), c09P(1)),
			g.opTo(g.opArray(l, []*c09Node{g.ident(l), g.ident(l)}), 8, false, -1),
		)
	}
	num := func(v int64) *c09Node { return g.leafNode("int-byte", fmt.Sprint(v), c09IntVal(v)) }
	doc := func() *c09Node {
		l := g.leafNode("null", "null", &c09Val{k: c09KNull})
		return g.opArray(l, []*c09Node{num(0x12), num(0x34), num(0x56)})
	}
	nodes = append(nodes,
		g.opIndex(g.opTo(doc(), 8, false, -1), 1),
		g.opIndex(g.opTo(doc(), 1, false, -1), 3),
		g.opSlice(g.opTo(doc(), 8, false, -1), c09P(1), c09P(2)),
		g.opSlice(g.opTo(doc(), 1, false, -1), c09P(4), c09P(12)),
		g.opSlice(g.opTo(g.opSlice(g.opTo(doc(), 1, false, -1), c09P(4), c09P(20)), 8, false, -1), c09P(1), nil),
		g.opTo(num(1234), 1, false, -1), g.opTo(num(1234), 8, false, -1), g.opTo(num(0), 1, false, -1),
	)
	for _, n := range nodes {
		n.risky = true // each alone
	}
	w.run.Count("directed-cases", int64(len(nodes)))
	w.batch(g, nodes, false)
}

// c09SelfTest checks the REFERENCE against the literal examples of doc/usage.md and
// pkg/interp/testdata/binary*.fqtest (no fq involved); a failure is a harness bug.
func c09SelfTest() {
	lst := func(vs ...int64) *c09Val {
		l := &c09Val{k: c09KList}
		for _, v := range vs {
			l.list = append(l.list, c09IntVal(v))
		}
		return l
	}
	hx := func(v *c09Val) string {
		if v.k != c09KBin {
			return v.String()
		}
		return hex.EncodeToString(v.rangeBits().rightPadded()) + fmt.Sprintf("/%d", v.n)
	}
	want := func(what, got, exp string) {
		if got != exp {
			panic(fmt.Sprintf("C09 reference self-test: %s = %s, documented %s", what, got, exp))
		}
	}
	d := lst(0x12, 0x34, 0x56)
	want("tobytes[1]", c09Index(c09To(d, 8, false, 0), 1).String(), "52")
	want("tobits[3]", c09Index(c09To(d, 1, false, 0), 3).String(), "1")
	want("tobytes[1:2]", hx(c09Slice(c09To(d, 8, false, 0), c09P(1), c09P(2))), "34/8")
	want("tobits[4:12]", hx(c09Slice(c09To(d, 1, false, 0), c09P(4), c09P(12))), "23/8")
	want("tobits[4:20]", hx(c09Slice(c09To(d, 1, false, 0), c09P(4), c09P(20))), "2345/16")
	want("tobits[4:20]|tobytes[1:]", hx(c09Slice(c09To(c09Slice(c09To(d, 1, false, 0), c09P(4), c09P(20)), 8, false, 0), c09P(1), nil)), "45/8")
	want("[0,[123,255]]|tobytes", hx(c09To(&c09Val{k: c09KList, list: []*c09Val{c09IntVal(0), lst(123, 255)}}, 8, false, 0)), "007bff/24")
	bit := func(v int64) *c09Val { return c09To(c09IntVal(v), 1, false, 0) }
	want("[0,1,1,0,0,1,1,0 | tobits]|tobytes", hx(c09To(&c09Val{k: c09KList, list: []*c09Val{bit(0), bit(1), bit(1), bit(0), bit(0), bit(1), bit(1), bit(0)}}, 8, false, 0)), "66/8")
	ones := &c09Val{k: c09KList, list: []*c09Val{bit(1), bit(1), bit(1)}}
	want("[1,1,1|tobits]|tobytes", hx(c09To(ones, 8, false, 0)), "07/8")
	want("[1,1,1|tobits]|tobytes(3)", hx(c09To(ones, 8, false, 3)), "000007/24")
	want("[1,1,1|tobits]|tobits(9)", hx(c09To(ones, 1, false, 9)), "0380/9")
	want("1|tobits(9)|tohex", c09ToHex(c09To(c09IntVal(1), 1, false, 9)).s, "0080")
	want("1|tobits(0)|tohex", c09ToHex(c09To(c09IntVal(1), 1, false, 0)).s, "80")
	want("1|tobytes(4)|tohex", c09ToHex(c09To(c09IntVal(1), 8, false, 4)).s, "00000001")
	want("1234|tobits", hx(c09To(c09IntVal(1234), 1, false, 0)), "9a40/11")
	want("1234|tobytes", hx(c09To(c09IntVal(1234), 8, false, 0)), "04d2/16")
}

// ---- main ----

func c09Main(args []string) {
	if len(args) >= 2 && args[0] == "--probe" {
		c09Probe(args[1:])
		return
	}
	c09SelfTest()
	run := ev.NewRun("C09")
	run.Rule = "random jq expression trees (height <= 4 quick / <= 6 thorough; law cases add up to 6 levels over a subject of height <= 4) over leaves {ascii/non-ascii/empty string, integer 0..255, larger integer, integer > 2^64, hex binary, field of a decoded ipv4_packet incl. its raw payload (from hex and from an opened file), opened virtual file incl. empty, null/bool/object, negative array member} and operators {tobits tobytes tobits(n) tobytes(n) tobitsrange tobytesrange .[i] .[a:b] .bits .bytes tonumber tostring explode to_hex tohex length .size .start .stop .unit, array nesting with members relative to the same input}; each expression is evaluated by fq (50 per Eval) and by a Go reference model (source bits, range, unit, front pad); binaries are compared by unit, start, length, range bits, pad and source bits, numbers/strings/lists directly, must-fail cases by a catchable error; 10% of the cases are law cases ([b[:k],b[k:]]|tobits for every k, front padding of tobytes/tobits(n)/tobytes(n), unit-relative indices after reslicing) that are additionally checked among the observed values only. non-trivial = height >= 2; distinct = expression shape with constants stripped (leaf kind, operator, slice/index variant, array structure)"
	run.Assumptions = []string{
		"negative top-level numbers and floats are outside the property's domain (negative numbers only appear as array members that must be rejected)",
		"decode values only take part as input of tobits/tobytes*/to_hex and as array members (other operators see their decoded value, C08's subject); their bit ranges are taken from the IPv4 header layout of RFC 791",
		"the value returned by open is modelled as the whole file as a bytes binary (unit 8, start 0), which is what tobytes/to_hex/arrays make of it",
		"the front pad of a to*range binary (only visible when the value is output) is compared through the Binary's pad field",
		"tobits(n)/tobytes(n) are exercised with n in 0..16; slice/index bounds are integers",
	}
	run.MinDistinct = 200

	bud := &c09Budget{n: map[string]int{}, last: map[string]string{}}
	dw := &c09Worker{run: run, bud: bud}
	c09Directed(dw)

	const perBatch = 50
	nb := run.Pick(400, 40000)
	maxH := run.Pick(4, 6)
	riskyEvery := run.Pick(4, 100)
	ids := make(chan int, 64)
	var wg sync.WaitGroup
	for i := 0; i < runtime.NumCPU(); i++ {
		wg.Add(1)
		go func() {
			defer wg.Done()
			w := &c09Worker{run: run, bud: bud}
			for id := range ids {
				g := c09NewGen(gen.New(run.Seed).Fork(uint64(id)), fmt.Sprintf("b%d_", id), maxH)
				// operators straight on an open value (known to panic, each costs a fresh interpreter)
				// only in every riskyEvery-th batch: ~100 such expressions quick, ~400 thorough
				g.directOnOpen = id%riskyEvery == 0
				nodes := make([]*c09Node, 0, perBatch)
				for j := 0; j < perBatch; j++ {
					if j%10 == 9 {
						nodes = append(nodes, g.law())
					} else {
						nodes = append(nodes, g.expr())
					}
				}
				w.batch(g, nodes, id == 0)
			}
		}()
	}
	for id := 0; id < nb; id++ {
		ids <- id
	}
	close(ids)
	wg.Wait()
	run.Finish()
}

// c09Probe: `vcheck C09 --probe [name=hex ...] 'jq' ...` evaluates expressions and prints the
// observed values (manual replay of a reported expression).
func c09Probe(args []string) {
	w := &c09Worker{bud: &c09Budget{n: map[string]int{}, last: map[string]string{}}}
	files := map[string][]byte{}
	for _, a := range args {
		if i := strings.Index(a, "="); i > 0 && !strings.ContainsAny(a[:i], " |\"") {
			if b, err := hex.DecodeString(a[i+1:]); err == nil {
				files[a[:i]] = b
				continue
			}
		}
		obs, pi, err := w.eval(files, []string{a})
		fmt.Println(a)
		switch {
		case pi != nil:
			fmt.Printf("  PANIC %v (top fq frame %s)\n%s\n", pi.Value, c09PanicSite(pi.Stack), pi.Stack)
		case err != nil:
			fmt.Printf("  ERROR %v\n", err)
		default:
			fmt.Printf("  -> %s\n", obs[0])
		}
	}
}
