package main

// C15 gzip: compress/gzip (plus hand-set FTEXT/FHCRC from RFC 1952) and Python gzip.
//
// RFC 1952 §2.3.1: FLG bit 0 FTEXT, bit 1 FHCRC, bit 2 FEXTRA, bit 3 FNAME, bit 4 FCOMMENT, bits 5-7 reserved
// ("bit 0 is the least-significant bit"). The expectation below states the flags by NAME, as a reader of fq's
// `flags` struct would understand them.

import (
	"bytes"
	"compress/gzip"
	"encoding/binary"
	"fmt"
	"hash/crc32"
	"io"
	"time"

	"verif/gen"
)

type c15GzMember struct {
	name, comment string
	extra         []byte
	hasName       bool
	hasComment    bool
	hasExtra      bool
	hcrc, text    bool
	mtime         uint32
	os            byte
	xfl           byte
	level         int
	payload       []byte
	hdrLen        int // bytes before the deflate stream
	raw           []byte
}

type c15GzExp struct{ members []*c15GzMember }

func init() {
	c15Register(&c15Format{
		name:  "gzip",
		gen:   c15GenGzip,
		genPy: c15GenGzipPy,
		jq: `{members: [.members[]? | {compression_method: (.compression_method|av), compression_method_sym: (.compression_method|sv), ` +
			`flags: (.flags|sv), mtime: (.mtime|av), extra_flags: (.extra_flags|av), os: (.os|av), xlen: (.xlen|av), ` +
			`extra_fields: (.extra_fields|hx), name: (.name|sv), comment: (.comment|sv), header_crc: (.header_crc|hx), ` +
			`uncompressed: (.uncompressed|hx), compressed: (.compressed|hx), crc32: (.crc32|av), crc32_description: (.crc32|ds), isize: (.isize|av)}], ` +
			`uncompressed: (.uncompressed|hx)}`,
		// every stored checksum of a member; header_crc/isize are listed so that a future validation is honoured
		cks:     `[.members[]? | ((.header_crc|ds), (.crc32|ds), (.isize|ds))]`,
		compare: c15CmpGzip,
		cause:   c15GzipCause,
		ref:     c15RefGzip,
		pyCheck: true,
	})
}

func c15GenGzip(c *c15Ctx, r *gen.Rand, small bool) *c15File {
	n := c15Members(r, small, 1)
	exp := &c15GzExp{}
	opts := map[string]bool{}
	var file []byte
	f := &c15File{format: "gzip", writer: "go", members: n}
	// header style per file: 0-3 plain headers, 4-5 name AND comment (FLG 0x18), 6-9 any mix of options. The first
	// two read the same under fq's reversed flag order, so payload and corruption checks are not all shadowed by it.
	style := r.Intn(10)
	for i := 0; i < n; i++ {
		m := &c15GzMember{}
		m.payload, _ = c15Payload(r, small)
		pk := "payload:" + c15PayloadClass(m.payload)
		opts[pk] = true
		m.level = gen.Pick(r, []int{-2, -1, 0, 1, 2, 3, 4, 5, 6, 7, 8, 9})
		opts[fmt.Sprintf("level%d", m.level)] = true
		switch {
		case style >= 6:
			if r.Intn(2) == 0 {
				m.hasName = true
				m.name = c15ASCII(r, 1+r.Intn(30))
			}
			if r.Intn(3) == 0 {
				m.hasComment = true
				m.comment = "c " + c15ASCII(r, 1+r.Intn(40))
			}
			if r.Intn(4) == 0 {
				m.hasExtra = true
				// one RFC 1952 subfield: SI1 SI2 LEN data
				d := r.Bytes(r.Intn(20))
				m.extra = append([]byte{'A', 'p', byte(len(d)), 0}, d...)
			}
			m.hcrc = r.Intn(5) == 0
			m.text = r.Intn(8) == 0
		case style >= 4:
			m.hasName, m.hasComment = true, true
			m.name = c15ASCII(r, 1+r.Intn(30))
			m.comment = "c " + c15ASCII(r, 1+r.Intn(40))
		}
		if r.Intn(3) != 0 {
			m.mtime = uint32(1 + r.Intn(2000000000))
		}
		m.os = gen.Pick(r, []byte{0, 3, 7, 11, 13, 255})

		var buf bytes.Buffer
		zw, err := gzip.NewWriterLevel(&buf, m.level)
		if err != nil {
			panic(err)
		}
		zw.Name, zw.Comment, zw.Extra, zw.OS = m.name, m.comment, m.extra, m.os
		if m.mtime != 0 {
			zw.ModTime = time.Unix(int64(m.mtime), 0)
		}
		// written in pieces so that several deflate blocks can occur
		p := m.payload
		for len(p) > 0 {
			k := 1 + r.Intn(len(p))
			if _, err := zw.Write(p[:k]); err != nil {
				panic(err)
			}
			p = p[k:]
			if r.Intn(4) == 0 {
				if err := zw.Flush(); err != nil {
					panic(err)
				}
				opts["flush"] = true
			}
		}
		if err := zw.Close(); err != nil {
			panic(err)
		}
		raw := buf.Bytes()
		m.hdrLen = 10
		if m.hasExtra {
			m.hdrLen += 2 + len(m.extra)
		}
		if m.hasName {
			m.hdrLen += len(m.name) + 1
		}
		if m.hasComment {
			m.hdrLen += len(m.comment) + 1
		}
		switch m.level {
		case gzip.BestCompression:
			m.xfl = 2
		case gzip.BestSpeed:
			m.xfl = 4
		}
		// FTEXT / FHCRC by hand (compress/gzip never writes them, its reader verifies FHCRC)
		if m.text {
			raw[3] |= 0x01
		}
		if m.hcrc {
			raw[3] |= 0x02
			sum := crc32.ChecksumIEEE(raw[:m.hdrLen]) & 0xffff
			out := append([]byte(nil), raw[:m.hdrLen]...)
			out = append(out, byte(sum), byte(sum>>8))
			out = append(out, raw[m.hdrLen:]...)
			raw = out
			m.hdrLen += 2
		}
		m.raw = raw
		opts["name"] = opts["name"] || m.hasName
		opts["comment"] = opts["comment"] || m.hasComment
		opts["extra"] = opts["extra"] || m.hasExtra
		opts["hcrc"] = opts["hcrc"] || m.hcrc
		opts["text"] = opts["text"] || m.text
		base := len(file)
		file = append(file, raw...)
		if m.hcrc {
			f.regions = append(f.regions, c15Region{name: "header", off: base, n: m.hdrLen - 2})
			f.regions = append(f.regions, c15Region{name: "header-crc", off: base + m.hdrLen - 2, n: 2})
		}
		f.regions = append(f.regions,
			c15Region{name: "deflate-data", off: base + m.hdrLen, n: len(raw) - 8 - m.hdrLen},
			c15Region{name: "crc32", off: base + len(raw) - 8, n: 4},
			c15Region{name: "isize", off: base + len(raw) - 4, n: 4})
		f.payload += int64(len(m.payload))
		exp.members = append(exp.members, m)
	}
	f.data = file
	f.exp = exp
	f.opts = c15Opts(opts)
	return f
}

func c15PayloadClass(p []byte) string {
	switch {
	case len(p) == 0:
		return "empty"
	case len(p) > 65536:
		return ">64KiB"
	case len(p) <= 16:
		return "tiny"
	default:
		return "mid"
	}
}

func c15GenGzipPy(c *c15Ctx, r *gen.Rand, small bool) *c15File {
	n := c15Members(r, small, 1)
	exp := &c15GzExp{}
	opts := map[string]bool{}
	var specs []any
	f := &c15File{format: "gzip", writer: "py", members: n}
	for i := 0; i < n; i++ {
		m := &c15GzMember{}
		m.payload, _ = c15Payload(r, small)
		opts["payload:"+c15PayloadClass(m.payload)] = true
		m.level = r.Intn(10)
		opts[fmt.Sprintf("level%d", m.level)] = true
		if r.Intn(2) == 0 {
			m.hasName = true
			m.name = c15ASCII(r, 1+r.Intn(30)) // no ".gz" suffix possible with this alphabet? it is: avoid it
			if len(m.name) >= 3 && m.name[len(m.name)-3:] == ".gz" {
				m.name += "x"
			}
		}
		m.mtime = uint32(r.Intn(2000000000))
		m.os = 255
		switch m.level {
		case 9:
			m.xfl = 2
		case 1:
			m.xfl = 4
		}
		opts["name"] = opts["name"] || m.hasName
		specs = append(specs, map[string]any{"name": m.name, "level": m.level, "mtime": m.mtime, "data": c15B64(m.payload)})
		f.payload += int64(len(m.payload))
		exp.members = append(exp.members, m)
	}
	data, _, err := c.py.write("gzip", map[string]any{"members": specs})
	if err != nil {
		panic(err)
	}
	// member boundaries by the harness's own walk: header length is known, the deflate stream ends 8 bytes
	// before the next member's magic; find them with the independent Go reader in single-member mode
	off := 0
	for _, m := range exp.members {
		m.hdrLen = 10
		if m.hasName {
			m.hdrLen += len(m.name) + 1
		}
		br := bytes.NewReader(data[off:])
		zr, err := gzip.NewReader(br)
		if err != nil {
			panic(err)
		}
		zr.Multistream(false)
		if _, err := io.Copy(io.Discard, zr); err != nil {
			panic(err)
		}
		// bytes.Reader is an io.ByteReader, so the gzip reader does not read ahead
		l := len(data[off:]) - br.Len()
		m.raw = data[off : off+l]
		f.regions = append(f.regions,
			c15Region{name: "deflate-data", off: off + m.hdrLen, n: l - 8 - m.hdrLen},
			c15Region{name: "crc32", off: off + l - 8, n: 4},
			c15Region{name: "isize", off: off + l - 4, n: 4})
		off += l
	}
	if off != len(data) {
		panic("python gzip: member walk does not end at the end of the file")
	}
	f.data = data
	f.exp = exp
	f.opts = c15Opts(opts)
	return f
}

// c15GzipCause marks disagreements on files where some member's FLG byte is not 0x00 or 0x18: fq reads the five
// flag bits in the reverse order (first bit read = most significant = "text"), so FNAME 0x08 is shown as
// "comment", FCOMMENT 0x10 as "name", and FTEXT/FHCRC/FEXTRA land in "reserved" (FEXTRA/FHCRC bytes are then not
// skipped and the deflate stream is read from the wrong place). 0x00 and 0x18 (name and comment, stored in the
// same order) read the same both ways; those files keep the plain signature.
func c15GzipCause(f *c15File) string {
	for _, m := range f.exp.(*c15GzExp).members {
		if flg := m.raw[3]; flg != 0 && flg != 0x18 {
			return "gzip-flag-bits"
		}
	}
	return ""
}

func c15CmpGzip(c *c15Ctx, f *c15File, got map[string]any) []c15Diff {
	exp := f.exp.(*c15GzExp)
	var all []byte
	var ms []any
	for _, m := range exp.members {
		all = append(all, m.payload...)
		e := map[string]any{
			"compression_method":     8,
			"compression_method_sym": "deflate",
			"flags":                  map[string]any{"text": m.text, "header_crc": m.hcrc, "extra": m.hasExtra, "name": m.hasName, "comment": m.hasComment, "reserved": 0},
			"mtime":                  m.mtime,
			"extra_flags":            int(m.xfl),
			"os":                     int(m.os),
			"uncompressed":           c15Hex(m.payload),
			"compressed":             c15Hex(m.raw[m.hdrLen : len(m.raw)-8]),
			"crc32":                  crc32.ChecksumIEEE(m.payload),
			"crc32_description":      "valid",
			"isize":                  uint32(len(m.payload)),
			"name":                   nil,
			"comment":                nil,
			"xlen":                   nil,
			"extra_fields":           nil,
			"header_crc":             nil,
		}
		if m.hasName {
			e["name"] = m.name
		}
		if m.hasComment {
			e["comment"] = m.comment
		}
		if m.hasExtra {
			e["xlen"] = len(m.extra)
			e["extra_fields"] = c15Hex(m.extra)
		}
		if m.hcrc {
			e["header_crc"] = c15Hex(m.raw[m.hdrLen-2 : m.hdrLen])
		}
		// the trailer as stored, straight from the file bytes (independent of hash/crc32 on the Go-writer side)
		if binary.LittleEndian.Uint32(m.raw[len(m.raw)-8:]) != crc32.ChecksumIEEE(m.payload) {
			panic("gzip generator: stored crc32 differs from the payload's crc32")
		}
		ms = append(ms, e)
	}
	var diffs []c15Diff
	c15Cmp("gzip", "", map[string]any{"members": ms, "uncompressed": c15Hex(all)}, got, &diffs)
	return diffs
}

// c15RefGzip: compress/gzip reads every member to the end (verifies FHCRC, crc32 and isize).
func c15RefGzip(f *c15File, data []byte) error {
	zr, err := gzip.NewReader(bytes.NewReader(data))
	if err != nil {
		return err
	}
	out, err := io.ReadAll(zr)
	if err != nil {
		return err
	}
	if int64(len(out)) != f.payload {
		// not reachable without a crc32 collision; a changed member structure is a rejection as well
		return fmt.Errorf("read %d bytes, stored %d", len(out), f.payload)
	}
	return nil
}
