package main

// C14: JSON, jq-flavoured JSON, JSONL, YAML, TOML.

import (
	"bytes"
	"encoding/json"
	"fmt"
	"io"
	"math"
	"math/big"
	"sort"
	"strconv"
	"strings"
	"time"

	"github.com/BurntSushi/toml"
	"github.com/wader/gojq"
	"gopkg.in/yaml.v3"

	"verif/gen"
)

type c14JOpts struct {
	depth, width int
	big, neg     bool
	float, null  bool
	strs         []string // format-specific strings used for keys and values
	noEmptyKey   bool
	noEmptyStr   bool
}

var c14OddKeys = []string{"", " ", "a.b", "a b", "a\nb", "\u0000", "\"", "\\", "'", "$x", "@a", "#c", "__loc__", "if", "then", "and", "or", "not", "def", "reduce", "foreach", "try", "catch", "label", "import", "include", "true", "false", "null", "a-b", "1a", "_", "é", "日本", "😀", "\u2028", "\ufeff", "A", "a", strings.Repeat("k", 300)}

var c14YAMLStrings = []string{"yes", "no", "on", "off", "y", "n", "Y", "N", "Yes", "NO", "true", "True", "FALSE", "null", "Null", "NULL", "~", "", " ", "1e3", "0x10", "0o17", "017", "0b11", "1_000", "+1", "-1", "1.", ".5", ".inf", "-.inf", ".nan", ".NaN", "-", "- a", ":", "a: b", "a:b", "a :b", "#c", "a #c", "a#c", "!tag", "!!str x", "&a", "*a", "|", ">", "|-", "> ", "@", "`", "%", "%YAML 1.2", "---", "...", "--- a", "'", "''", "\"", "\"a\"", "'a'", "[", "]", "{", "}", "[a]", "{a: 1}", ",", "?", "? a", "<<", "=", "2001-01-01", "2001-01-01T00:00:00Z", "2001-01-01 00:00:00", "12:30:45", "1:2", "190:20:30", "a\n", "a\n\n", "\na", "\n", "\n\n", " a\nb", "a\n b", "a \nb", "a\n\nb", "  a\n  b\n", "a\tb", "\ta", "a\t", "a\r\nb", "a\rb", "\r", "a\u0085b", "a\u2028b", "a\u2029b", "\ufeffa", "a\u00a0", "\u00a0a", "a\\b", "a\\nb", "\x7f", "\x01", "\x1b[0m", "é", "日本語", "😀", "trailing ", " leading", "a  b", strings.Repeat("long word ", 20), strings.Repeat("x", 200), "line one\nline two\nline three\n", "key: value\nother: [1, 2]\n", "0", "00", "-0", "0.0", "1e400", "123456789012345678901234567890", "0777", "08", "0x", "0xG", "1__0", "1,000"}

var c14TOMLStrings = []string{"", " ", "a.b", "a b", "\"", "'", "'''", "\"\"\"", "\\", "\\n", "a\nb", "a\r\nb", "\t", "\x00", "\x01", "\x1f", "\x7f", "\u0080", "\u009f", "\u2028", "\ufeff", "#", "a#b", "=", "[x]", "[[x]]", "{", "true", "1979-05-27T07:32:00Z", "1979-05-27", "07:32:00", "inf", "nan", "+1", "0x10", "1_000", "é", "日本語", "😀", "\U0010ffff", "\ud7ff", "\ue000", "\ufffd", "\uffff", strings.Repeat("x", 300), "bare_key-1", "1234", "-"}

func c14GenNum(r *gen.Rand, o c14JOpts) any {
	k := r.Intn(12)
	var v any
	switch {
	case k < 2:
		v = gen.Pick(r, []int{0, 1, 2, 7, 10, 127, 128, 255, 256, 65535, 65536, 1 << 31, 1<<53 - 1, 1 << 53, 1<<53 + 1, math.MaxInt64, math.MaxInt64 - 1, 1e15, 1e16, 1e17, 999999999999999999})
	case k < 4:
		v = r.Intn(2000)
	case k < 5:
		v = int(r.U64() >> uint(1+r.Intn(62)))
	case k < 7 && o.big:
		var b *big.Int
		switch r.Intn(4) {
		case 0:
			b = new(big.Int).Lsh(big.NewInt(1), uint(gen.Pick(r, []int{63, 64, 65, 100, 128, 200})))
			b.Add(b, big.NewInt(int64(r.Intn(3)-1)))
		case 1:
			b = new(big.Int).Exp(big.NewInt(10), big.NewInt(int64(19+r.Intn(40))), nil)
			b.Add(b, big.NewInt(int64(r.Intn(3))))
		case 2:
			b = new(big.Int).SetUint64(r.U64() | 1<<63) // the uint64 range above int64
		default:
			b = new(big.Int).SetBytes(r.Bytes(9 + r.Intn(20)))
		}
		v = c14JQInt(b)
	case k < 10 && o.float:
		if r.Bool() {
			v = gen.Pick(r, []float64{0.5, 1.5, 0.1, 0.2, 1e308, 1.7976931348623157e308, 5e-324, 2.2250738585072014e-308, 1e-7, 1e-5, 3.141592653589793, 1e21, 1e20, 1e22, 123456789.125, 9007199254740992, 9007199254740994, 1.2345678901234567e25, 3.0, 100.0, 1e15, 1e16, 1e17, 0.000001, 1e-10, 0.30000000000000004, 2.5e-5})
			if o.neg && r.Intn(12) == 0 {
				v = math.Copysign(0, -1)
			}
		} else {
			f := math.Float64frombits(r.U64())
			if math.IsNaN(f) || math.IsInf(f, 0) {
				f = 0.25
			}
			v = math.Abs(f)
		}
	default:
		v = r.Intn(256)
	}
	if o.neg && r.Intn(3) == 0 {
		switch x := v.(type) {
		case int:
			if x == math.MaxInt64 && r.Bool() {
				v = math.MinInt64
			} else {
				v = -x
			}
		case float64:
			v = -x
		case *big.Int:
			v = new(big.Int).Neg(x)
		}
	}
	return v
}

func c14GenStr(r *gen.Rand, o c14JOpts) string {
	for {
		if s := c14GenStr1(r, o); s != "" || !o.noEmptyStr {
			return s
		}
	}
}

func c14GenStr1(r *gen.Rand, o c14JOpts) string {
	switch k := r.Intn(10); {
	case k < 3 && len(o.strs) > 0:
		return gen.Pick(r, o.strs)
	case k < 4:
		return gen.Pick(r, c14OddKeys)
	case k < 7:
		return c14UniString(r, 12)
	default:
		n := r.Intn(10)
		bs := make([]byte, n)
		for i := range bs {
			bs[i] = "abcdefgh_-XYZ 0123"[r.Intn(18)]
		}
		return string(bs)
	}
}

func c14GenKey(r *gen.Rand, o c14JOpts) string {
	for {
		s := c14GenStr(r, o)
		if s == "" && o.noEmptyKey {
			continue
		}
		return s
	}
}

func c14GenVal(r *gen.Rand, o c14JOpts, depth int) any {
	k := r.Intn(11)
	if depth <= 0 && k >= 7 {
		k = r.Intn(7)
	}
	switch {
	case k == 0:
		if o.null {
			return nil
		}
		return r.Bool()
	case k == 1:
		return r.Bool()
	case k < 4:
		return c14GenNum(r, o)
	case k < 7:
		return c14GenStr(r, o)
	case k < 9:
		n := r.Intn(o.width + 1)
		a := make([]any, n)
		for i := range a {
			a[i] = c14GenVal(r, o, depth-1)
		}
		return a
	default:
		return c14GenObj(r, o, depth)
	}
}

func c14GenObj(r *gen.Rand, o c14JOpts, depth int) map[string]any {
	n := r.Intn(o.width + 1)
	m := make(map[string]any, n)
	for i := 0; i < n; i++ {
		m[c14GenKey(r, o)] = c14GenVal(r, o, depth-1)
	}
	return m
}

// c14GenDoc picks a shape mode; root is a container when needContainer.
func c14GenDoc(r *gen.Rand, o c14JOpts, needContainer bool, objRoot bool) (any, string) {
	var v any
	mode := ""
	switch k := r.Intn(10); {
	case k < 2 && !needContainer:
		mode = "scalar"
		switch r.Intn(3) {
		case 0:
			v = c14GenNum(r, o)
		case 1:
			v = c14GenStr(r, o)
		default:
			v = c14GenVal(r, o, 0)
		}
	case k < 4:
		mode = "numbers"
		n := 1 + r.Intn(8)
		a := make([]any, n)
		for i := range a {
			a[i] = c14GenNum(r, o)
		}
		v = a
	case k < 6:
		mode = "strings"
		n := 1 + r.Intn(6)
		m := map[string]any{}
		for i := 0; i < n; i++ {
			m[c14GenKey(r, o)] = c14GenStr(r, o)
		}
		v = m
	case k < 7:
		mode = "deep"
		d := 5 + r.Intn(60)
		var cur any = c14GenVal(r, o, 0)
		for i := 0; i < d; i++ {
			if r.Bool() {
				cur = []any{cur}
			} else {
				k := c14GenKey(r, o)
				cur = map[string]any{k: cur}
			}
		}
		v = cur
	default:
		mode = "nested"
		if r.Bool() {
			v = c14GenObj(r, o, o.depth)
		} else {
			v = c14GenVal(r, o, o.depth)
		}
	}
	if objRoot {
		if _, ok := v.(map[string]any); !ok {
			v = map[string]any{c14GenKey(r, o): v}
		}
	} else if needContainer {
		switch v.(type) {
		case map[string]any, []any:
		default:
			v = []any{v}
		}
	}
	return v, mode
}

func c14Nodes(v any) int {
	switch v := v.(type) {
	case []any:
		n := 1
		for _, e := range v {
			n += c14Nodes(e)
		}
		return n
	case map[string]any:
		n := 1
		for _, e := range v {
			n += c14Nodes(e)
		}
		return n
	}
	return 1
}

// c14Features counts what kinds of values the oracle actually saw.
func c14Features(t *c14T, v any) {
	seen := map[string]bool{}
	var f func(v any, d int)
	f = func(v any, d int) {
		if d >= 32 {
			seen["depth>=32"] = true
		}
		switch v := v.(type) {
		case *big.Int:
			seen["bigint"] = true
		case float64:
			seen["float"] = true
			if v == 0 && math.Signbit(v) {
				seen["negzero"] = true
			}
			if math.Abs(v) >= 1e300 {
				seen["float>=1e300"] = true
			}
		case int:
			if v < 0 {
				seen["negative-int"] = true
			}
			if v > 1<<53 || v < -(1<<53) {
				seen["int>2^53"] = true
			}
		case string:
			if strings.Contains(v, "\n") {
				seen["multiline-string"] = true
			}
		case []any:
			for _, e := range v {
				f(e, d+1)
			}
		case map[string]any:
			for k, e := range v {
				if k == "" {
					seen["empty-key"] = true
				}
				f(e, d+1)
			}
		}
	}
	f(v, 0)
	for k := range seen {
		t.run.Count("feature:"+t.c.pair+":"+k, 1)
	}
}

// c14ParseJSON: encoding/json with UseNumber; integer literals become exact integers.
func c14ParseJSON(text string) (any, error) {
	dec := json.NewDecoder(strings.NewReader(text))
	dec.UseNumber()
	var v any
	if err := dec.Decode(&v); err != nil {
		return nil, err
	}
	var extra any
	if err := dec.Decode(&extra); err != io.EOF {
		return nil, fmt.Errorf("trailing data")
	}
	return c14FromStd(v), nil
}

func c14FromStd(v any) any {
	switch v := v.(type) {
	case json.Number:
		s := string(v)
		if !strings.ContainsAny(s, ".eE") {
			if b, ok := new(big.Int).SetString(s, 10); ok {
				return c14JQInt(b)
			}
		}
		f, err := strconv.ParseFloat(s, 64)
		if err != nil {
			return "<unparsable number " + s + ">"
		}
		return f
	case []any:
		for i := range v {
			v[i] = c14FromStd(v[i])
		}
		return v
	case map[string]any:
		for k := range v {
			v[k] = c14FromStd(v[k])
		}
		return v
	}
	return v
}

var c14BadJSON = []string{"{", "[1,]", "{\"a\":1,}", "01", "1.", "'a'", "nul", "[1 2]", "\"\\x\"", "1 2", "{} x", "NaN", "", "[", "\"abc", "{\"a\" 1}", "{a:1}", "[1,,2]", "+1", ".5", "\"\t\"", "tru", "[1]]", "\"\\ud800\" x", "-", "1e", "0x10", "{\"a\":}", "\x00", "// c\n1"}

func c14GenJSON(w *c14Worker, r *gen.Rand, b *c14Batch, n int) {
	for i := 0; i < n; i++ {
		o := c14JOpts{depth: 4, width: 5, big: true, neg: true, float: true, null: true}
		switch k := r.Intn(20); {
		case k < 7: // tojson / fromjson
			v, mode := c14GenDoc(r, o, false, false)
			indent := ""
			if r.Intn(3) == 0 {
				indent = fmt.Sprintf("({indent: %d})", 1+r.Intn(4))
			}
			b.add(fmt.Sprintf("tojson%s as $t | [$t, ($t | fromjson | tovalue)]", indent), &c14Case{pair: "json", class: mode, size: c14Nodes(v), in: v, conv: 2, check: func(t *c14T, o c14Out) {
				f, ok := c14Fields(o, 2)
				if !ok {
					t.fail("tojson:error", "tojson|fromjson failed: %s", o.err)
					return
				}
				c14Features(t, v)
				txt, _ := f[0].(string)
				if indent == "" && strings.Contains(txt, "\n") {
					t.fail("tojson:newline-in-compact", "tojson output contains a newline: %q", c14Trunc(txt, 200))
				}
				std, err := c14ParseJSON(txt)
				if err != nil {
					t.fail("tojson:stdlib-rejects", "encoding/json rejects tojson output %q: %v", c14Trunc(txt, 300), err)
					return
				}
				if d := c14Eq(v, std); d != nil {
					t.fail("tojson:value:"+d.kind, "tojson output read by encoding/json differs at %s; text %q", d, c14Trunc(txt, 300))
					return
				}
				if d := c14Eq(v, f[1]); d != nil {
					t.fail("json:roundtrip:"+d.kind, "tojson|fromjson differs at %s; text %q", d, c14Trunc(txt, 300))
				}
			}})
		case k < 8: // fromjson on text written by encoding/json (different writer)
			o2 := o
			v, mode := c14GenDoc(r, o2, false, false)
			txt := c14StdJSON(v, r.Bool())
			b.add("fromjson | tovalue", &c14Case{pair: "json", class: "stdwriter:" + mode, size: c14Nodes(v), in: txt, check: func(t *c14T, o c14Out) {
				if !o.ok {
					t.fail("fromjson:valid-rejected", "fromjson rejects %q: %s", c14Trunc(txt, 300), o.err)
					return
				}
				if d := c14Eq(v, o.v); d != nil {
					t.fail("fromjson:value:"+d.kind, "fromjson of %q differs at %s", c14Trunc(txt, 300), d)
				}
			}})
		case k < 9: // malformed JSON
			txt := gen.Pick(r, c14BadJSON)
			if r.Intn(3) == 0 { // truncate a valid document
				v, _ := c14GenDoc(r, o, true, false)
				full := c14StdJSON(v, false)
				if len(full) > 2 {
					txt = full[:1+r.Intn(len(full)-2)]
					if _, err := c14ParseJSON(txt); err == nil {
						txt = "["
					}
				}
			}
			b.add("fromjson | tovalue", &c14Case{pair: "json", class: "bad", size: len(txt), in: txt, wantErr: true, check: c14MustErr("fromjson:malformed-accepted")})
		case k < 14: // to_jq / from_jq
			// three losses of from_jq have their own classes so that they cannot mask anything else:
			// negative numbers, the empty string, the empty key
			special := ""
			switch r.Intn(12) {
			case 0:
				special = "negative"
			case 1:
				special = "empty-string"
			case 2:
				special = "empty-key"
			}
			o.neg = special == "negative"
			o.noEmptyStr = special != "empty-string"
			o.noEmptyKey = special != "empty-key"
			v, mode := c14GenDoc(r, o, false, false)
			switch special {
			case "negative":
				if !c14HasNeg(v) {
					v = []any{v, -1 - r.Intn(1000)}
				}
			case "empty-string":
				if !c14HasEmpty(v, false) {
					v = []any{v, ""}
				}
			case "empty-key":
				if !c14HasEmpty(v, true) {
					v = map[string]any{"": v}
				}
			}
			if special != "" {
				mode = special
			}
			indent := ""
			if r.Intn(3) == 0 {
				indent = fmt.Sprintf("({indent: %d})", 1+r.Intn(4))
			}
			b.add(fmt.Sprintf("to_jq%s as $t | [$t, (try ($t | from_jq | [.]) catch c14e)]", indent), &c14Case{pair: "jq", class: mode, size: c14Nodes(v), in: v, conv: 2, check: func(t *c14T, o c14Out) {
				f, ok := c14Fields(o, 2)
				if !ok {
					t.fail("to_jq:error", "to_jq failed: %s", o.err)
					return
				}
				c14Features(t, v)
				txt, _ := f[0].(string)
				// jq-flavoured JSON is a jq program: vanilla gojq must evaluate it to the value
				if gv, err := c14RunJQ(txt); err != nil {
					t.fail("to_jq:not-a-jq-literal", "gojq cannot evaluate to_jq output %q: %v", c14Trunc(txt, 300), err)
					return
				} else if d := c14Eq(v, gv); d != nil {
					t.fail("to_jq:value:"+d.kind, "to_jq output evaluated by gojq differs at %s; text %q", d, c14Trunc(txt, 300))
					return
				}
				back, ok := f[1].([]any)
				if !ok {
					e, _ := f[1].(map[string]any)
					msg := fmt.Sprint(e["e"])
					sig := "jq:roundtrip:from_jq-error"
					switch {
					case special == "negative" && strings.Contains(msg, "TermTypeUnary"):
						sig = "jq:roundtrip:negative-number"
					case special == "empty-key" && strings.Contains(msg, "expected a string for object key but got: null"):
						sig = "jq:roundtrip:empty-key-rejected"
					}
					t.fail(sig, "from_jq rejects to_jq's own output %q: %v", c14Trunc(txt, 300), c14Trunc(msg, 300))
					return
				}
				if d := c14Eq(v, back[0]); d != nil {
					sig := "jq:roundtrip:" + d.kind
					if special == "empty-string" && strings.Contains(d.msg, `want string "" got null`) {
						sig = "jq:roundtrip:empty-string-becomes-null"
					}
					t.fail(sig, "to_jq|from_jq differs at %s; text %q", d, c14Trunc(txt, 300))
				}
			}})
		case k < 15: // hand-written jq-flavoured JSON: comments, trailing commas, unquoted keys
			arrComma := r.Intn(5) == 0
			txt, want := c14JQFlavoured(r, arrComma)
			cl, sig := "flavoured-text", "from_jq:valid-rejected"
			if arrComma {
				// documented ("can have trailing comma in arrays") but the parser only takes it in objects
				cl, sig = "flavoured-text:array-trailing-comma", "from_jq:array-trailing-comma-rejected"
			}
			b.add("from_jq", &c14Case{pair: "jq", class: cl, size: len(txt), in: txt, check: func(t *c14T, o c14Out) {
				if !o.ok {
					t.fail(sig, "from_jq rejects %q: %s", txt, c14Trunc(o.err, 300))
					return
				}
				if d := c14Eq(want, o.v); d != nil {
					t.fail("from_jq:value:"+d.kind, "from_jq(%q) differs at %s", txt, d)
				}
			}})
		case k < 16: // not constant literals
			txt := gen.Pick(r, []string{"1+1", ".a", "[.]", "{a: .}", "\"\\(1)\"", "input", "[1,", "{a}", "$x", "1 as $x | 2", "[range(3)]", "{(\"a\"): 1}", "now", "", "[1 2]", "[1][0]", "{a:1}.a", "[1|2]", "\"abc\"[1:]", "[1,2][]", "1 | 2", "[1,2] | length", "{a:1} + {b:2}"})
			b.add("from_jq", &c14Case{pair: "jq", class: "bad", size: len(txt), in: txt, wantErr: true, check: c14MustErr("from_jq:non-literal-accepted")})
		case k < 19: // to_jsonl / from_jsonl
			cnt := 1 + r.Intn(6)
			arr := make([]any, cnt)
			for j := range arr {
				arr[j], _ = c14GenDoc(r, o, false, false)
			}
			b.add("to_jsonl as $t | [$t, ($t | from_jsonl | tovalue)]", &c14Case{pair: "jsonl", class: fmt.Sprintf("lines%d", min(cnt, 3)), size: c14Nodes(arr), in: arr, conv: 2, check: func(t *c14T, o c14Out) {
				f, ok := c14Fields(o, 2)
				if !ok {
					t.fail("to_jsonl:error", "to_jsonl|from_jsonl failed: %s", o.err)
					return
				}
				c14Features(t, arr)
				txt, _ := f[0].(string)
				if !strings.HasSuffix(txt, "\n") {
					t.fail("to_jsonl:no-final-newline", "to_jsonl output does not end with a newline: %q", c14Trunc(txt, 200))
					return
				}
				lines := strings.Split(strings.TrimSuffix(txt, "\n"), "\n")
				if len(lines) != len(arr) {
					t.fail("to_jsonl:line-count", "to_jsonl of %d values gave %d lines", len(arr), len(lines))
					return
				}
				for j, ln := range lines {
					std, err := c14ParseJSON(ln)
					if err != nil {
						t.fail("to_jsonl:stdlib-rejects", "line %d %q: %v", j, c14Trunc(ln, 200), err)
						return
					}
					if d := c14Eq(arr[j], std); d != nil {
						t.fail("to_jsonl:value:"+d.kind, "line %d read by encoding/json differs at %s", j, d)
						return
					}
				}
				if d := c14Eq(arr, f[1]); d != nil {
					t.fail("jsonl:roundtrip:"+d.kind, "to_jsonl|from_jsonl differs at %s", d)
				}
			}})
		default: // documented-by-code restriction: an empty input is not JSONL
			b.add("to_jsonl | from_jsonl | tovalue", &c14Case{pair: "jsonl", class: "empty-array", size: 0, in: []any{}, wantErr: true, check: func(t *c14T, o c14Out) {
				if o.ok {
					if a, isArr := o.v.([]any); !isArr || len(a) != 0 {
						t.fail("jsonl:empty:wrong-value", "[] | to_jsonl | from_jsonl gave %s", c14JSON(o.v))
					}
				}
			}})
		}
	}
}

func c14HasNeg(v any) bool {
	switch v := v.(type) {
	case int:
		return v < 0
	case float64:
		return v < 0
	case *big.Int:
		return v.Sign() < 0
	case []any:
		for _, e := range v {
			if c14HasNeg(e) {
				return true
			}
		}
	case map[string]any:
		for _, e := range v {
			if c14HasNeg(e) {
				return true
			}
		}
	}
	return false
}

// c14StdJSON writes a value with a writer that is not fq's (Go float formatting via strconv 'g'/'e', HTML escaping
// on or off), so that fromjson is also fed text it did not produce itself.
func c14StdJSON(v any, exp bool) string {
	var sb strings.Builder
	var f func(v any)
	f = func(v any) {
		switch v := v.(type) {
		case float64:
			if exp {
				sb.WriteString(strconv.FormatFloat(v, 'e', -1, 64))
			} else {
				sb.WriteString(strconv.FormatFloat(v, 'g', -1, 64))
			}
		case string:
			bb, _ := json.Marshal(v)
			sb.Write(bb)
		case []any:
			sb.WriteString("[ ")
			for i, e := range v {
				if i > 0 {
					sb.WriteString(" ,\n")
				}
				f(e)
			}
			sb.WriteString("\t]")
		case map[string]any:
			sb.WriteString("{")
			i := 0
			for _, k := range c14Keys(v) {
				e := v[k]
				if i > 0 {
					sb.WriteString(",")
				}
				i++
				bb, _ := json.Marshal(k)
				sb.Write(bb)
				sb.WriteString(" : ")
				f(e)
			}
			sb.WriteString("}\r\n")
		default:
			sb.WriteString(c14JSON(v))
		}
	}
	if !exp {
		return c14ASCIIJSON(v)
	}
	f(v)
	return sb.String()
}

// c14ASCIIJSON: pure-ASCII JSON, every non-ASCII rune as \uXXXX (astral as surrogate pairs), '/' as \/.
func c14ASCIIJSON(v any) string {
	var sb strings.Builder
	str := func(s string) {
		sb.WriteByte('"')
		for _, c := range s {
			switch {
			case c == '"' || c == '\\':
				sb.WriteByte('\\')
				sb.WriteRune(c)
			case c == '/':
				sb.WriteString("\\/")
			case c == '\n':
				sb.WriteString("\\n")
			case c == '\b':
				sb.WriteString("\\b")
			case c == '\f':
				sb.WriteString("\\f")
			case c < 0x20 || c == 0x7f || c >= 0x80 && c < 0x10000:
				fmt.Fprintf(&sb, "\\u%04X", c)
			case c >= 0x10000:
				c -= 0x10000
				fmt.Fprintf(&sb, "\\u%04x\\u%04x", 0xd800+(c>>10), 0xdc00+(c&0x3ff))
			default:
				sb.WriteRune(c)
			}
		}
		sb.WriteByte('"')
	}
	var f func(v any)
	f = func(v any) {
		switch v := v.(type) {
		case float64:
			s := strconv.FormatFloat(v, 'g', -1, 64)
			s = strings.Replace(s, "e+", "E", 1)
			sb.WriteString(s)
		case string:
			str(v)
		case []any:
			sb.WriteString("[")
			for i, e := range v {
				if i > 0 {
					sb.WriteString(", ")
				}
				f(e)
			}
			sb.WriteString("]")
		case map[string]any:
			sb.WriteString("{ ")
			i := 0
			for _, k := range c14Keys(v) {
				e := v[k]
				if i > 0 {
					sb.WriteString(" , ")
				}
				i++
				str(k)
				sb.WriteString(":")
				f(e)
			}
			sb.WriteString(" }")
		default:
			sb.WriteString(c14JSON(v))
		}
	}
	f(v)
	return sb.String()
}

// c14Keys: sorted keys, so that generated texts are a pure function of the seed
func c14Keys(m map[string]any) []string {
	keys := make([]string, 0, len(m))
	for k := range m {
		keys = append(keys, k)
	}
	sort.Strings(keys)
	return keys
}

func c14RunJQ(src string) (any, error) {
	q, err := gojq.Parse(src)
	if err != nil {
		return nil, err
	}
	iter := q.Run(nil)
	v, ok := iter.Next()
	if !ok {
		return nil, fmt.Errorf("no output")
	}
	if err, ok := v.(error); ok {
		return nil, err
	}
	if _, more := iter.Next(); more {
		return nil, fmt.Errorf("more than one output")
	}
	return v, nil
}

// c14JQFlavoured writes a literal with the documented extras: optional key quotes, # comments, trailing commas
// (after the last object member; after the last array element only when arrComma).
func c14JQFlavoured(r *gen.Rand, arrComma bool) (string, any) {
	o := c14JOpts{depth: 2, width: 3, big: true, float: true, null: true, noEmptyKey: true, noEmptyStr: true}
	var w func(v any, sb *strings.Builder)
	w = func(v any, sb *strings.Builder) {
		switch v := v.(type) {
		case []any:
			sb.WriteString("[")
			for i, e := range v {
				if i > 0 {
					sb.WriteString(",")
				}
				if r.Intn(4) == 0 {
					sb.WriteString(" # comment ] }\n")
				}
				w(e, sb)
			}
			if len(v) > 0 && arrComma {
				sb.WriteString(",")
			}
			sb.WriteString("]")
		case map[string]any:
			sb.WriteString("{")
			for _, k := range c14Keys(v) {
				e := v[k]
				if c14IsIdent(k) && r.Bool() {
					sb.WriteString(k)
				} else {
					sb.WriteString(c14JSON(k))
				}
				sb.WriteString(": ")
				w(e, sb)
				sb.WriteString(", ") // also after the last member: trailing comma
				if r.Intn(4) == 0 {
					sb.WriteString("# c\n")
				}
			}
			sb.WriteString("}")
		default:
			sb.WriteString(c14JSON(v))
		}
	}
	v := c14GenVal(r, o, 2)
	if arrComma {
		v = []any{v, 1}
	}
	var sb strings.Builder
	w(v, &sb)
	return sb.String(), v
}

// c14HasEmpty: an empty string value (key=false) or an empty object key (key=true) somewhere in v
func c14HasEmpty(v any, key bool) bool {
	switch v := v.(type) {
	case string:
		return !key && v == ""
	case []any:
		for _, e := range v {
			if c14HasEmpty(e, key) {
				return true
			}
		}
	case map[string]any:
		for k, e := range v {
			if key && k == "" || c14HasEmpty(e, key) {
				return true
			}
		}
	}
	return false
}

func c14IsIdent(s string) bool {
	if s == "" {
		return false
	}
	for i, c := range s {
		if !(c == '_' || c >= 'a' && c <= 'z' || c >= 'A' && c <= 'Z' || i > 0 && c >= '0' && c <= '9') {
			return false
		}
	}
	switch s { // keywords of jq: kept quoted by this writer
	case "if", "then", "else", "elif", "end", "and", "or", "not", "def", "reduce", "foreach", "try", "catch", "label", "import", "include", "as", "__loc__", "true", "false", "null":
		return false
	}
	return true
}

// ---- YAML ----

func c14FromYAML(v any) any {
	switch v := v.(type) {
	case int:
		return v
	case int64:
		return int(v)
	case uint64:
		return c14JQInt(new(big.Int).SetUint64(v))
	case float64, string, bool, nil:
		return v
	case []any:
		for i := range v {
			v[i] = c14FromYAML(v[i])
		}
		return v
	case map[string]any:
		for k := range v {
			v[k] = c14FromYAML(v[k])
		}
		return v
	case map[any]any:
		m := map[string]any{}
		for k, e := range v {
			m[fmt.Sprintf("<%T:%v>", k, k)] = c14FromYAML(e)
		}
		return m
	case time.Time:
		return "<timestamp " + v.String() + ">"
	}
	return fmt.Sprintf("<%T>", v)
}

// c14YAMLBlockWS: a multi-line string whose first line is empty or starts with white space. yaml.v3 writes these
// as literal block scalars with a wrong (or, for a tab, without an) indentation indicator; they have their own class.
func c14YAMLBlockWS(s string) bool {
	if !strings.Contains(s, "\n") {
		return false
	}
	for _, c := range s { // first rune: blank or one of YAML's line breaks (LF CR NEL LS PS)
		return c == '\n' || c == ' ' || c == '\t' || c == '\r' || c == 0x85 || c == 0x2028 || c == 0x2029
	}
	return false
}

// c14YAMLSanitize keeps the general class free of the three constructs that have their own classes.
func c14YAMLSanitize(v any) any {
	fix := func(s string) string {
		if c14YAMLBlockWS(s) {
			return "x" + s
		}
		return s
	}
	switch v := v.(type) {
	case string:
		return fix(v)
	case []any:
		for i := range v {
			v[i] = c14YAMLSanitize(v[i])
		}
		return v
	case map[string]any:
		o := make(map[string]any, len(v))
		for k, e := range v {
			k = fix(k)
			if k == "<<" {
				k = "x<<"
			}
			o[k] = c14YAMLSanitize(e)
		}
		return o
	}
	return v
}

func c14GenYAML(w *c14Worker, r *gen.Rand, b *c14Batch, n int) {
	for i := 0; i < n; i++ {
		o := c14JOpts{depth: 4, width: 5, neg: true, float: true, null: true, strs: c14YAMLStrings}
		special := ""
		switch r.Intn(30) {
		case 0, 1:
			special = "bigint"
		case 2, 3:
			special = "block-scalar-leading-whitespace"
		case 4:
			special = "merge-key"
		}
		o.big = special == "bigint"
		v, mode := c14GenDoc(r, o, true, false)
		v = c14YAMLSanitize(v)
		if r.Intn(40) == 0 {
			v, mode = gen.Pick(r, []any{[]any{}, map[string]any{}}), "empty-root"
		}
		switch special {
		case "bigint":
			if !c14HasBig(v) {
				v = []any{v, c14JQInt(new(big.Int).Lsh(big.NewInt(1), uint(64+r.Intn(100))))}
			}
		case "block-scalar-leading-whitespace":
			s := gen.Pick(r, []string{"\na", "\n", "\n\n", " a\nb", "\ta\nb", "\n a", "  a\n  b\n", "\nline\n"})
			switch r.Intn(4) {
			case 0:
				v = []any{v, s}
			case 1:
				v = map[string]any{"k": []any{s}, "v": v}
			case 2:
				v = map[string]any{s: v}
			default:
				v = []any{map[string]any{"k": s}}
			}
		case "merge-key":
			switch r.Intn(3) {
			case 0:
				v = map[string]any{"<<": v}
			case 1:
				v = map[string]any{"<<": map[string]any{"a": 1}, "b": 2}
			default:
				v = []any{map[string]any{"<<": []any{map[string]any{"a": 1}}}}
			}
		}
		if special != "" {
			mode = special
		}
		indent := ""
		if r.Intn(3) == 0 {
			indent = fmt.Sprintf("({indent: %d})", gen.Pick(r, []int{2, 3, 8}))
		}
		sigOf := func(base, kind string) string {
			switch special {
			case "bigint":
				if kind == "bigint:string" { // the known loss: the integer comes back as a quoted string (not e.g. as a float)
					return "yaml:bigint-becomes-string"
				}
			case "block-scalar-leading-whitespace", "merge-key":
				return "yaml:" + special
			}
			return base + ":" + kind
		}
		b.add(fmt.Sprintf("to_yaml%s as $t | [$t, (try ($t | from_yaml | tovalue | [.]) catch c14e)]", indent), &c14Case{pair: "yaml", class: mode, size: c14Nodes(v), in: v, conv: 2, check: func(t *c14T, o c14Out) {
			f, ok := c14Fields(o, 2)
			if !ok {
				t.fail("to_yaml:error", "to_yaml failed: %s", o.err)
				return
			}
			c14Features(t, v)
			txt, _ := f[0].(string)
			// independent reading of fq's text with yaml.v3
			var direct any
			if err := yaml.Unmarshal([]byte(txt), &direct); err != nil {
				t.fail(sigOf("to_yaml", "yaml.v3-rejects"), "yaml.v3 rejects to_yaml output %q: %v", c14Trunc(txt, 300), err)
				return
			}
			kindOf := func(d *c14Diff) string {
				if d.kind == "bigint" && strings.Contains(d.msg, " got \"") {
					return "bigint:string"
				}
				return d.kind
			}
			if d := c14Eq(v, c14FromYAML(direct)); d != nil {
				t.fail(sigOf("to_yaml:value", kindOf(d)), "to_yaml output read by yaml.v3 differs at %s; text %q", d, c14Trunc(txt, 400))
				return
			}
			back, ok := f[1].([]any)
			if !ok {
				e, _ := f[1].(map[string]any)
				t.fail(sigOf("yaml:roundtrip", "from_yaml-error"), "from_yaml rejects to_yaml's own output %q: %v", c14Trunc(txt, 300), e["e"])
				return
			}
			if d := c14Eq(v, back[0]); d != nil {
				t.fail(sigOf("yaml:roundtrip", kindOf(d)), "to_yaml|from_yaml differs at %s; text %q", d, c14Trunc(txt, 400))
			}
		}})
	}
}

func c14HasBig(v any) bool {
	switch v := v.(type) {
	case *big.Int:
		return true
	case []any:
		for _, e := range v {
			if c14HasBig(e) {
				return true
			}
		}
	case map[string]any:
		for _, e := range v {
			if c14HasBig(e) {
				return true
			}
		}
	}
	return false
}

// ---- TOML ----

func c14FromTOML(v any) any {
	switch v := v.(type) {
	case int64:
		return int(v)
	case float64, string, bool:
		return v
	case []any:
		for i := range v {
			v[i] = c14FromTOML(v[i])
		}
		return v
	case []map[string]any:
		a := make([]any, len(v))
		for i := range v {
			a[i] = c14FromTOML(v[i])
		}
		return a
	case map[string]any:
		for k := range v {
			v[k] = c14FromTOML(v[k])
		}
		return v
	}
	return fmt.Sprintf("<%T %v>", v, v)
}

func c14GenTOML(w *c14Worker, r *gen.Rand, b *c14Batch, n int) {
	for i := 0; i < n; i++ {
		// the empty key has its own class: BurntSushi/toml's reader loses array elements after an inline table with
		// an empty key (x = [{"" = 2}, 5] reads as {"x":[{"":2}]}), which would otherwise mask everything else
		emptyKey := r.Intn(10) == 0
		o := c14JOpts{depth: 4, width: 4, neg: true, float: true, null: false, strs: c14TOMLStrings, noEmptyKey: !emptyKey}
		v, mode := c14GenDoc(r, o, true, true)
		if emptyKey {
			mode = "empty-key"
			if !c14HasEmpty(v, true) || r.Intn(3) == 0 {
				v = map[string]any{"x": []any{map[string]any{"": v}, r.Intn(100)}}
			}
		}
		m := v.(map[string]any)
		if len(m) == 0 || r.Intn(40) == 0 {
			// an empty document: from_toml refuses it by an explicit check; only "error, not a wrong value"
			b.add("to_toml | from_toml | tovalue", &c14Case{pair: "toml", class: "empty-root", size: 0, in: map[string]any{}, wantErr: true, check: func(t *c14T, o c14Out) {
				if o.ok {
					if mm, isObj := o.v.(map[string]any); !isObj || len(mm) != 0 {
						t.fail("toml:empty:wrong-value", "{} | to_toml | from_toml gave %s", c14JSON(o.v))
					}
				}
			}})
			continue
		}
		if c14HasTableArrayMix(v) {
			mode += "+mixed-array"
		}
		indent := ""
		if r.Intn(3) == 0 {
			indent = fmt.Sprintf("({indent: %d})", gen.Pick(r, []int{0, 1, 4}))
		}
		var pyv any
		b.add(fmt.Sprintf("to_toml%s as $t | [$t, (try ($t | from_toml | tovalue | [.]) catch c14e)]", indent), &c14Case{pair: "toml", class: mode, size: c14Nodes(v), in: v, conv: 2, check: func(t *c14T, o c14Out) {
			f, ok := c14Fields(o, 2)
			if !ok {
				t.fail("to_toml:error:"+c14ErrClass(o.err), "to_toml failed: %s", o.err)
				return
			}
			c14Features(t, v)
			txt, _ := f[0].(string)
			// (decoding into *map[string]any instead of *any makes BurntSushi/toml mangle arrays that mix arrays of
			// tables with scalars: an artefact of the typed target, not of the text; tomllib agrees with *any)
			var direct any
			if _, err := toml.Decode(txt, &direct); err != nil {
				t.fail("to_toml:parser-rejects", "BurntSushi/toml rejects to_toml output %q: %v", c14Trunc(txt, 400), err)
				return
			}
			if d := c14Eq(v, c14FromTOML(direct)); d != nil && !emptyKey { // empty-key class: the reader is the broken side, see below
				t.fail("to_toml:value:"+d.kind, "to_toml output read by BurntSushi/toml differs at %s; text %q", d, c14Trunc(txt, 400))
				return
			}
			if w.py != nil {
				var err error
				pyv, err = w.py.toml(txt)
				if err == c14ErrPyGone {
					return
				}
				t.run.Count("toml:python", 1)
				if err != nil {
					t.fail("to_toml:tomllib-rejects", "Python tomllib rejects to_toml output %q: %v", c14Trunc(txt, 400), err)
					return
				}
				if d := c14Eq(v, pyv); d != nil {
					t.fail("to_toml:tomllib-value:"+d.kind, "to_toml output read by Python tomllib differs at %s; text %q", d, c14Trunc(txt, 400))
					return
				}
			}
			back, ok := f[1].([]any)
			if !ok {
				e, _ := f[1].(map[string]any)
				t.fail("toml:roundtrip:from_toml-error", "from_toml rejects to_toml's own output %q: %v", c14Trunc(txt, 300), e["e"])
				return
			}
			if d := c14Eq(v, back[0]); d != nil {
				sig := "to_toml:roundtrip:" + d.kind
				if emptyKey && d.kind == "array" {
					sig = "from_toml:empty-key-inline-table:array-truncated"
				}
				t.fail(sig, "to_toml|from_toml differs at %s; text %q", d, c14Trunc(txt, 400))
			}
		}})
	}
}

func c14ErrClass(e string) string {
	e = strings.ToLower(e)
	var sb bytes.Buffer
	for _, c := range e {
		if c >= 'a' && c <= 'z' {
			sb.WriteRune(c)
		} else if sb.Len() > 0 && sb.Bytes()[sb.Len()-1] != '-' {
			sb.WriteByte('-')
		}
		if sb.Len() > 40 {
			break
		}
	}
	return strings.Trim(sb.String(), "-")
}

func c14HasTableArrayMix(v any) bool {
	switch v := v.(type) {
	case []any:
		tables, others := 0, 0
		for _, e := range v {
			if _, ok := e.(map[string]any); ok {
				tables++
			} else {
				others++
			}
			if c14HasTableArrayMix(e) {
				return true
			}
		}
		return tables > 0 && others > 0
	case map[string]any:
		for _, e := range v {
			if c14HasTableArrayMix(e) {
				return true
			}
		}
	}
	return false
}
