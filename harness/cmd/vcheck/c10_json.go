package main

// C10 part 2 — JSON numbers and strings printed by the CLI are true: generated values are printed
// (default display, -c, tojson, -V, -r, colour on/off; given as jq literal or --argjson) and parsed
// back with encoding/json (UseNumber); integers must come back digit for digit.
// Plus the generated-binary dump cases of part 1 (c10BinaryCase).

import (
	"bytes"
	"encoding/hex"
	"encoding/json"
	"fmt"
	"io"
	"math"
	"math/big"
	"regexp"
	"sort"
	"strconv"
	"strings"
	"unicode/utf8"

	"verif/ev"
	"verif/gen"
)

// ---- generated binaries for the dump part ----

var c10BinSizes = []int{1, 2, 7, 8, 9, 15, 16, 17, 35, 36, 37, 63, 64, 65, 99, 100, 101, 255, 256, 257, 511, 512, 513, 999, 1000, 1001, 1295, 1296, 1297, 2047, 2048, 4095, 4096, 4097}

func c10BinaryCase(id, k int, rng *gen.Rand, cfg c10Config) *c10Case {
	var data []byte
	var a, b int64
	unit := int64(1)
	if k < 8*41 {
		// every start alignment 0..7 x bit length 0..40, somewhere inside a small buffer
		align, length := int64(k%8), int64(k/8)
		lead := int64(rng.Intn(20))
		a = lead*8 + align
		b = a + length
		nbytes := (b+7)/8 + int64(rng.Intn(12))
		if rng.Chance(1, 3) {
			nbytes = (b + 7) / 8 // value reaches the end of the buffer
		}
		data = rng.Bytes(int(nbytes))
	} else {
		n := gen.Pick(rng, c10BinSizes)
		if rng.Bool() {
			n = 1 + rng.Intn(3000)
		}
		data = rng.Bytes(n)
		bits := int64(n) * 8
		switch rng.Intn(4) {
		case 0: // whole buffer
			a, b = 0, bits
		case 1: // ends at the end
			a, b = rng.Int63n(bits+1), bits
		default:
			a = rng.Int63n(bits + 1)
			b = a + rng.Int63n(bits-a+1)
		}
		if rng.Chance(1, 4) {
			unit = 8
			a, b = a/8, b/8
		}
	}
	if rng.Chance(1, 6) { // runs of zero / text bytes so that the ascii mapping sees both classes
		for i := range data {
			data[i] = byte(0x20 + (i*7)%0x60)
		}
	}
	conv := "tobits"
	if unit == 8 {
		conv = "tobytes"
	}
	src := fmt.Sprintf("%q | from_hex", hex.EncodeToString(data))
	if len(data) >= 3 && rng.Chance(1, 3) {
		// the same bytes built from several parts (a multi reader: the hex/ascii writers then receive the value
		// in several writes; the first part often ends exactly at a row end)
		nparts := 2 + rng.Intn(4)
		cuts := []int{0}
		first := 1 + rng.Intn(len(data)-1)
		if lb := cfg.lineBytes; lb > 0 && len(data) > lb && rng.Bool() {
			first = lb * (1 + rng.Intn(len(data)/lb))
			if first >= len(data) {
				first = lb
			}
		}
		cuts = append(cuts, first)
		for i := 2; i < nparts && cuts[len(cuts)-1] < len(data)-1; i++ {
			cuts = append(cuts, cuts[len(cuts)-1]+1+rng.Intn(len(data)-cuts[len(cuts)-1]-1))
		}
		cuts = append(cuts, len(data))
		var parts []string
		for i := 0; i+1 < len(cuts); i++ {
			parts = append(parts, fmt.Sprintf("(%q | from_hex)", hex.EncodeToString(data[cuts[i]:cuts[i+1]])))
		}
		src = "[" + strings.Join(parts, ", ") + "] | tobytes"
	}
	prog := fmt.Sprintf("%s | %s | .[%d:%d]", src, conv, a, b)
	node := &c10Node{start: a * unit, length: (b - a) * unit}
	root := &c10Root{bits: int64(len(data)) * 8, data: data, top: true}
	if unit == 1 && len(data) > 0 && rng.Chance(1, 3) {
		// a buffer whose length is not a multiple of 8: `tobits` of a bit slice is a new buffer
		// holding exactly those bits; the reference is cut out here bit by bit. The displayed
		// value is a second slice inside it.
		bits := int64(len(data)) * 8
		s := rng.Int63n(bits)
		e := s + 1 + rng.Int63n(bits-s)
		if rng.Bool() && e-s > 40 {
			e = s + 1 + rng.Int63n(40)
		}
		nb := e - s
		buf := make([]byte, (nb+7)/8)
		for i := int64(0); i < nb; i++ {
			if data[(s+i)>>3]>>(7-uint((s+i)&7))&1 != 0 {
				buf[i>>3] |= 1 << (7 - uint(i&7))
			}
		}
		a2 := rng.Int63n(nb + 1)
		b2 := a2 + rng.Int63n(nb-a2+1)
		if rng.Bool() {
			b2 = nb
		}
		if k < 8*41 && a2+(b-a) <= nb { // keep the systematic length
			b2 = a2 + (b - a)
		}
		prog = fmt.Sprintf("%q | from_hex | tobits | .[%d:%d] | tobits | .[%d:%d]", hex.EncodeToString(data), s, e, a2, b2)
		node = &c10Node{start: a2, length: b2 - a2}
		root = &c10Root{bits: nb, data: buf, top: true}
	}
	node.root = root
	opts := cfg.effective(true)
	opts.depth = 0
	return &c10Case{id: id, cfg: cfg, inName: fmt.Sprintf("bin%d", len(data)), prog: prog, shown: ".", sel: ".",
		items: []c10Item{{n: node, root: root}}, opts: opts}
}

// ---- JSON ----

var c10SpecialNumbers = []any{
	func() any { b, _ := new(big.Int).SetString("9223372036854775808", 10); return b }(),  // 2^63
	func() any { b, _ := new(big.Int).SetString("18446744073709551616", 10); return b }(), // 2^64
	func() any { b, _ := new(big.Int).SetString("18446744073709551615", 10); return b }(), // 2^64-1
	func() any { b, _ := new(big.Int).SetString("-9223372036854775809", 10); return b }(), // -2^63-1
	func() any { b, _ := new(big.Int).SetString("1000000000000000000000000000000", 10); return b }(),
	func() any { b, _ := new(big.Int).SetString("-1000000000000000000000000000000", 10); return b }(),
	func() any { b, _ := new(big.Int).SetString("1000000000000000000000000000001", 10); return b }(),
	func() any { b, _ := new(big.Int).SetString("340282366920938463463374607431768211457", 10); return b }(), // 2^128+1
	math.MaxInt64, math.MinInt64, 1<<53 + 1, -(1<<53 + 1),
	1e308, -1e308, math.MaxFloat64, 5e-324, -5e-324, math.Copysign(0, -1), 2.2250738585072014e-308, 0.1, 1e21, 1e22, 1e-7, 123456789012345680000.0, 0.30000000000000004,
}

var c10SpecialStrings = []string{
	"\x00", "a\x00b", "\x01\x02\x1f", "\x7f", "\u0080\u009f", "\r\n", "\x1b[31mred\x1b[0m", "\\(1+1)", "\\", "\"", "\\\"", "/", "  ", "\ufeff", "\ufffd",
	"\U0001F600", "\U0010FFFF", "\U00010000", "a\U0001F600bé", "\t\n\b\f", "'", "`", "$v", "\\u0041", "\\n",
}

func c10GenJSON(rng *gen.Rand) any {
	o := gen.JSONOpts{MaxDepth: 1 + rng.Intn(4), MaxWidth: 1 + rng.Intn(4), BigInts: true, Floats: true}
	switch rng.Intn(12) {
	case 0:
		return gen.Pick(rng, c10SpecialNumbers)
	case 1:
		return gen.Pick(rng, c10SpecialStrings)
	case 2: // container of specials
		n := 1 + rng.Intn(5)
		if rng.Bool() {
			a := make([]any, n)
			for i := range a {
				if rng.Bool() {
					a[i] = gen.Pick(rng, c10SpecialNumbers)
				} else {
					a[i] = gen.Pick(rng, c10SpecialStrings)
				}
			}
			return a
		}
		m := map[string]any{}
		for i := 0; i < n; i++ {
			m[gen.Pick(rng, c10SpecialStrings)] = gen.Pick(rng, c10SpecialNumbers)
		}
		return m
	case 3: // deep nesting
		depth := 10 + rng.Intn(150)
		var v any = rng.Number(o)
		for i := 0; i < depth; i++ {
			if rng.Bool() {
				v = []any{v}
			} else {
				v = map[string]any{rng.String(false): v}
			}
		}
		return v
	case 4:
		return rng.Number(o)
	}
	return rng.JSON(o)
}

// c10Lit renders a value as JSON text that is also a jq literal (own serializer).
func c10Lit(sb *strings.Builder, v any) {
	switch v := v.(type) {
	case nil:
		sb.WriteString("null")
	case bool:
		sb.WriteString(strconv.FormatBool(v))
	case int:
		sb.WriteString(strconv.Itoa(v))
	case *big.Int:
		sb.WriteString(v.String())
	case float64:
		sb.WriteString(strconv.FormatFloat(v, 'g', -1, 64))
	case string:
		c10LitString(sb, v)
	case []any:
		sb.WriteByte('[')
		for i, e := range v {
			if i > 0 {
				sb.WriteByte(',')
			}
			c10Lit(sb, e)
		}
		sb.WriteByte(']')
	case map[string]any:
		keys := make([]string, 0, len(v))
		for k := range v {
			keys = append(keys, k)
		}
		sort.Strings(keys)
		sb.WriteByte('{')
		for i, k := range keys {
			if i > 0 {
				sb.WriteByte(',')
			}
			c10LitString(sb, k)
			sb.WriteByte(':')
			c10Lit(sb, v[k])
		}
		sb.WriteByte('}')
	default:
		panic(fmt.Sprintf("c10Lit %T", v))
	}
}

func c10LitString(sb *strings.Builder, s string) {
	sb.WriteByte('"')
	for _, r := range s {
		switch {
		case r == '"':
			sb.WriteString(`\"`)
		case r == '\\':
			sb.WriteString(`\\`)
		case r < 0x20:
			fmt.Fprintf(sb, `\u%04x`, r)
		default:
			sb.WriteRune(r)
		}
	}
	sb.WriteByte('"')
}

type c10JSONInfo struct {
	bigints, ints, floats, strings, controls, astral, maxDepth, containers int
	needsLiteral                                                           bool
}

func c10Inspect(v any, depth int, inf *c10JSONInfo, shape *strings.Builder) {
	if depth > inf.maxDepth {
		inf.maxDepth = depth
	}
	str := func(s string) {
		inf.strings++
		for _, r := range s {
			if r < 0x20 || r == 0x7f {
				inf.controls++
			}
			if r > 0xffff {
				inf.astral++
			}
		}
	}
	switch v := v.(type) {
	case nil:
		shape.WriteByte('z')
	case bool:
		shape.WriteByte('b')
	case int:
		inf.ints++
		if v > 1<<53 || v < -(1<<53) {
			shape.WriteByte('I')
		} else {
			shape.WriteByte('i')
		}
	case *big.Int:
		inf.bigints++
		inf.needsLiteral = true
		shape.WriteByte('B')
	case float64:
		inf.floats++
		shape.WriteByte('f')
	case string:
		str(v)
		shape.WriteByte('s')
	case []any:
		inf.containers++
		shape.WriteByte('[')
		for _, e := range v {
			c10Inspect(e, depth+1, inf, shape)
		}
		shape.WriteByte(']')
	case map[string]any:
		inf.containers++
		shape.WriteByte('{')
		keys := make([]string, 0, len(v))
		for k := range v {
			keys = append(keys, k)
		}
		sort.Strings(keys)
		for _, k := range keys {
			str(k)
			c10Inspect(v[k], depth+1, inf, shape)
		}
		shape.WriteByte('}')
	}
}

// c10ReadJSON reads one value token by token (keeps json.Number, rejects duplicate keys).
func c10ReadJSON(dec *json.Decoder) (any, error) {
	t, err := dec.Token()
	if err != nil {
		return nil, err
	}
	switch t := t.(type) {
	case json.Delim:
		switch t {
		case '[':
			a := []any{}
			for dec.More() {
				e, err := c10ReadJSON(dec)
				if err != nil {
					return nil, err
				}
				a = append(a, e)
			}
			if _, err := dec.Token(); err != nil {
				return nil, err
			}
			return a, nil
		case '{':
			m := map[string]any{}
			for dec.More() {
				kt, err := dec.Token()
				if err != nil {
					return nil, err
				}
				k, ok := kt.(string)
				if !ok {
					return nil, fmt.Errorf("object key %v", kt)
				}
				if _, dup := m[k]; dup {
					return nil, fmt.Errorf("duplicate key %q", k)
				}
				e, err := c10ReadJSON(dec)
				if err != nil {
					return nil, err
				}
				m[k] = e
			}
			if _, err := dec.Token(); err != nil {
				return nil, err
			}
			return m, nil
		}
		return nil, fmt.Errorf("unexpected delimiter %v", t)
	default:
		return t, nil
	}
}

var c10IntRe = regexp.MustCompile(`^-?(0|[1-9][0-9]*)$`)

// c10Equal compares the original with the parsed-back value. Returns "" or (signature, detail).
func c10Equal(orig, got any, path string) (string, string) {
	bad := func(sig string) (string, string) {
		var sb strings.Builder
		c10Lit(&sb, orig)
		o := sb.String()
		if len(o) > 200 {
			o = o[:200] + "…"
		}
		g := fmt.Sprintf("%v", got)
		if gs, ok := got.(string); ok {
			g = strconv.Quote(gs)
		}
		if len(g) > 200 {
			g = g[:200] + "…"
		}
		return sig, fmt.Sprintf("at %s: original %s, printed %s (%T)", path, o, g, got)
	}
	switch o := orig.(type) {
	case nil:
		if got != nil {
			return bad("json:null-mismatch")
		}
	case bool:
		if g, ok := got.(bool); !ok || g != o {
			return bad("json:bool-mismatch")
		}
	case int, *big.Int:
		want := new(big.Int)
		sig := "json:int-inexact"
		if b, ok := o.(*big.Int); ok {
			want.Set(b)
			sig = "json:bigint-inexact"
		} else {
			want.SetInt64(int64(o.(int)))
		}
		g, ok := got.(json.Number)
		if !ok {
			return bad("json:number-type")
		}
		if !c10IntRe.MatchString(string(g)) {
			// an integer printed with fraction/exponent has gone through a float
			return bad(strings.Replace(sig, "inexact", "not-integer-literal", 1))
		}
		gi, _ := new(big.Int).SetString(string(g), 10)
		if gi == nil || gi.Cmp(want) != 0 {
			return bad(sig)
		}
	case float64:
		g, ok := got.(json.Number)
		if !ok {
			return bad("json:number-type")
		}
		f, err := strconv.ParseFloat(string(g), 64)
		if err != nil || f != o {
			return bad("json:float-inexact")
		}
	case string:
		if g, ok := got.(string); !ok || g != o {
			return bad("json:string-mismatch")
		}
	case []any:
		g, ok := got.([]any)
		if !ok || len(g) != len(o) {
			return bad("json:array-mismatch")
		}
		for i := range o {
			if s, d := c10Equal(o[i], g[i], path+"["+strconv.Itoa(i)+"]"); s != "" {
				return s, d
			}
		}
	case map[string]any:
		g, ok := got.(map[string]any)
		if !ok || len(g) != len(o) {
			return bad("json:object-mismatch")
		}
		for k, ov := range o {
			gv, ok := g[k]
			if !ok {
				return bad("json:object-key-missing")
			}
			if s, d := c10Equal(ov, gv, path+"."+strconv.Quote(k)); s != "" {
				return s, d
			}
		}
	}
	return "", ""
}

var c10JSONModes = []string{"default", "compact", "tojson-raw", "tojson-string", "colour", "colour-compact", "value-output", "raw-string", "default-argjson", "compact-argjson", "colour-argjson"}

func c10JSONCase(run *ev.Run, id int, agg *c10Agg) {
	rng := gen.New(run.Seed).Fork(uint64(id) + 1<<40)
	mode := c10JSONModes[id%len(c10JSONModes)]
	nvals := 5
	if mode == "raw-string" {
		nvals = 1
	}
	vals := make([]any, 0, nvals)
	var inf c10JSONInfo
	var shape strings.Builder
	for len(vals) < nvals {
		var v any
		if mode == "raw-string" {
			if rng.Bool() {
				v = gen.Pick(rng, c10SpecialStrings)
			} else {
				v = rng.String(false)
			}
		} else {
			v = c10GenJSON(rng)
		}
		vals = append(vals, v)
		shape.WriteByte(',')
		c10Inspect(v, 0, &inf, &shape)
	}
	argjson := strings.HasSuffix(mode, "-argjson")
	if argjson && inf.needsLiteral && id%3 != 0 {
		// big integers normally travel as jq literals; --argjson's own parsing is exercised only lightly
		argjson = false
		mode = strings.TrimSuffix(mode, "-argjson")
	}
	var lits []string
	for _, v := range vals {
		var sb strings.Builder
		c10Lit(&sb, v)
		lits = append(lits, sb.String())
	}
	var args []string
	colour := false
	switch mode {
	case "default", "default-argjson":
		args = []string{"-M"}
	case "compact", "compact-argjson":
		args = []string{"-c"}
	case "tojson-raw":
		args = []string{"-r"}
	case "tojson-string":
		args = nil
	case "colour", "colour-argjson":
		args, colour = []string{"-C"}, true
	case "colour-compact":
		args, colour = []string{"-C", "-c"}, true
	case "value-output":
		args = []string{"-V"}
	case "raw-string":
		args = []string{"-r"}
	}
	var prog string
	if argjson {
		args = append(args, "--argjson", "v", "["+strings.Join(lits, ",")+"]")
		prog = "$v[]"
	} else {
		prog = "(" + strings.Join(lits, "),(") + ")"
	}
	if strings.HasPrefix(mode, "tojson") {
		prog = "(" + prog + ") | tojson"
	}
	args = append(args, "-n", prog)

	run.Eval(1)
	run.Distinct("json|" + mode + "|" + shape.String())
	replay := func() map[string]any {
		return map[string]any{"id": id, "mode": mode, "command": c10Quote(args), "args": args}
	}
	if id < 3 {
		run.Sample(map[string]any{"command": c10Trunc(c10Quote(args)), "mode": mode})
	}
	res, pi := c10RunCLI(args, nil)
	if pi != nil {
		run.Violation("panic:json:"+c10PanicSite(pi.Value), fmt.Sprintf("%s\npanic: %v\n%s", c10Quote(args), pi.Value, pi.Stack), replay())
		return
	}
	if res.Exit != 0 || len(res.Stderr) != 0 {
		run.Violation("cli-error:json:"+mode, fmt.Sprintf("%s\nexit=%d stderr=%q", c10Quote(args), res.Exit, string(res.Stderr)), replay())
		return
	}
	out := res.Stdout
	if colour {
		if !bytes.Contains(out, []byte("\x1b[")) {
			run.Violation("color:no-sgr:json", c10Quote(args), replay())
		}
		out = c10SGR.ReplaceAll(out, nil)
		margs := append([]string{}, args...)
		margs[0] = "-M"
		res2, pi2 := c10RunCLI(margs, nil)
		if pi2 != nil || res2.Exit != 0 {
			run.Violation("cli-error:json:"+mode, fmt.Sprintf("%s\nexit=%d stderr=%q panic=%v", c10Quote(margs), res2.Exit, string(res2.Stderr), pi2), replay())
			return
		}
		agg.add("json-colour-pairs-compared", 1)
		if !bytes.Equal(out, res2.Stdout) {
			a, b := c10FirstDiffLine(string(out), string(res2.Stdout))
			run.Violation("color-strip-differs:json", fmt.Sprintf("%s\ncolour on (SGR removed): %q\ncolour off: %q", c10Quote(args), a, b), replay())
		}
	} else if bytes.Contains(out, []byte{0x1b}) && mode != "raw-string" {
		run.Violation("color:sgr-in-monochrome:json", c10Quote(args), replay())
	}

	if mode == "raw-string" {
		want := vals[0].(string) + "\n"
		if string(out) != want {
			run.Violation("json:raw-string-mismatch", fmt.Sprintf("%s\nprinted %q, expected %q", c10Quote(args), string(out), want), replay())
		}
		agg.add("json-raw-strings-compared", 1)
		agg.add("json-values-compared", 1)
		agg.add("json-mode:"+mode, 1)
		return
	}
	if !utf8.Valid(out) {
		run.Violation("json:invalid-utf8", c10Quote(args), replay())
		return
	}
	if mode == "compact" || mode == "compact-argjson" || mode == "colour-compact" || mode == "tojson-raw" || mode == "tojson-string" {
		if n := bytes.Count(out, []byte("\n")); n != len(vals) {
			run.Violation("json:compact-line-count", fmt.Sprintf("%s\n%d lines for %d values", c10Quote(args), n, len(vals)), replay())
		}
	}
	dec := json.NewDecoder(bytes.NewReader(out))
	dec.UseNumber()
	for i, v := range vals {
		got, err := c10ReadJSON(dec)
		if err != nil {
			run.Violation("json:unparsable:"+mode, fmt.Sprintf("%s\nvalue %d (%s): %v\noutput: %q", c10Quote(args), i, c10Trunc(lits[i]), err, c10Trunc(string(out))), replay())
			return
		}
		if mode == "tojson-string" {
			s, ok := got.(string)
			if !ok {
				run.Violation("json:tojson-not-string", fmt.Sprintf("%s\nvalue %d: %T", c10Quote(args), i, got), replay())
				return
			}
			d2 := json.NewDecoder(strings.NewReader(s))
			d2.UseNumber()
			got, err = c10ReadJSON(d2)
			if err == nil {
				if _, e2 := d2.Token(); e2 != io.EOF {
					err = fmt.Errorf("trailing data in tojson string")
				}
			}
			if err != nil {
				run.Violation("json:unparsable:"+mode, fmt.Sprintf("%s\nvalue %d: tojson text %q: %v", c10Quote(args), i, c10Trunc(s), err), replay())
				return
			}
		}
		if sig, d := c10Equal(v, got, "$"); sig != "" {
			run.Violation(sig, fmt.Sprintf("%s\nmode %s value %d: %s", c10Trunc(c10Quote(args)), mode, i, d), replay())
		}
		agg.add("json-values-compared", 1)
	}
	if _, err := dec.Token(); err != io.EOF {
		run.Violation("json:trailing-output", fmt.Sprintf("%s\nafter %d values: %v", c10Quote(args), len(vals), err), replay())
	}
	agg.add("json-mode:"+mode, 1)
	agg.add("json-bigints", int64(inf.bigints))
	agg.add("json-ints", int64(inf.ints))
	agg.add("json-floats", int64(inf.floats))
	agg.add("json-strings", int64(inf.strings))
	agg.add("json-control-chars", int64(inf.controls))
	agg.add("json-astral-chars", int64(inf.astral))
	agg.add("json-containers", int64(inf.containers))
	if inf.maxDepth >= 10 {
		agg.add("json-deeply-nested-runs", 1)
	}
}

func c10Trunc(s string) string {
	if len(s) > 400 {
		return s[:400] + "…"
	}
	return s
}
