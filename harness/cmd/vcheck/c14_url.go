package main

// C14: URL path/query/urlencode/url and radix.

import (
	"fmt"
	"math/big"
	"net/url"
	"sort"
	"strings"

	"verif/gen"
)

// ---- spec-level percent-encoding (RFC 3986 §2; Go's choice of which sub-delims stay literal) ----

func c14Unreserved(c byte) bool {
	return c >= 'a' && c <= 'z' || c >= 'A' && c <= 'Z' || c >= '0' && c <= '9' || c == '-' || c == '_' || c == '.' || c == '~'
}

// c14Escape: query=false is a path segment ("$&+=:@" stay literal, space is %20), query=true is a query
// component (only unreserved stay, space is '+').
func c14Escape(s string, query bool) string {
	var sb strings.Builder
	for i := 0; i < len(s); i++ {
		c := s[i]
		switch {
		case c14Unreserved(c):
			sb.WriteByte(c)
		case query && c == ' ':
			sb.WriteByte('+')
		case !query && strings.IndexByte("$&+=:@", c) >= 0:
			sb.WriteByte(c)
		default:
			fmt.Fprintf(&sb, "%%%02X", c)
		}
	}
	return sb.String()
}

func c14Unhex(c byte) int {
	switch {
	case c >= '0' && c <= '9':
		return int(c - '0')
	case c >= 'a' && c <= 'f':
		return int(c-'a') + 10
	case c >= 'A' && c <= 'F':
		return int(c-'A') + 10
	}
	return -1
}

func c14Unescape(s string, query bool) (string, bool) {
	var sb strings.Builder
	for i := 0; i < len(s); i++ {
		c := s[i]
		switch {
		case c == '%':
			if i+2 >= len(s) {
				return "", false
			}
			h, l := c14Unhex(s[i+1]), c14Unhex(s[i+2])
			if h < 0 || l < 0 {
				return "", false
			}
			sb.WriteByte(byte(h<<4 | l))
			i += 2
		case query && c == '+':
			sb.WriteByte(' ')
		default:
			sb.WriteByte(c)
		}
	}
	return sb.String(), true
}

var c14URLChars = []string{" ", "/", "?", "#", "%", "&", "=", "+", ";", ":", "@", "$", ",", "!", "*", "'", "(", ")", "[", "]", "<", ">", "\"", "{", "}", "|", "\\", "^", "`", "~", "-", "_", ".", "\t", "\n", "\x00", "\x7f", "é", "ß", "日本", "😀", "%41", "%2F", "%zz"}

func c14URLString(r *gen.Rand, max int) string {
	n := r.Intn(max + 1)
	var sb strings.Builder
	for i := 0; i < n; i++ {
		switch r.Intn(4) {
		case 0:
			sb.WriteString(gen.Pick(r, c14URLChars))
		case 1:
			sb.WriteString(c14UniString(r, 3))
		default:
			sb.WriteByte("abcxyzABC0129"[r.Intn(13)])
		}
	}
	return sb.String()
}

// canonical query object: value is a string, or an array of >= 2 strings for a repeated key
func c14GenQuery(r *gen.Rand, allowEmpty bool) (map[string]any, []string) {
	n := r.Intn(5)
	if !allowEmpty && n == 0 {
		n = 1
	}
	m := map[string]any{}
	for i := 0; i < n; i++ {
		k := c14URLString(r, 5)
		if r.Intn(10) == 0 {
			k = ""
		}
		if r.Intn(3) == 0 {
			cnt := 2 + r.Intn(3)
			a := make([]any, cnt)
			for j := range a {
				a[j] = c14URLString(r, 6)
			}
			m[k] = a
		} else {
			m[k] = c14URLString(r, 8)
		}
	}
	keys := make([]string, 0, len(m))
	for k := range m {
		keys = append(keys, k)
	}
	sort.Strings(keys)
	return m, keys
}

// url.Values.Encode by the book: keys sorted, values in order
func c14EncodeQuery(m map[string]any, keys []string) string {
	var parts []string
	for _, k := range keys {
		switch v := m[k].(type) {
		case string:
			parts = append(parts, c14Escape(k, true)+"="+c14Escape(v, true))
		case []any:
			for _, e := range v {
				parts = append(parts, c14Escape(k, true)+"="+c14Escape(e.(string), true))
			}
		}
	}
	return strings.Join(parts, "&")
}

func c14QueryClass(m map[string]any) string {
	rep := false
	for _, v := range m {
		if _, ok := v.([]any); ok {
			rep = true
		}
	}
	switch {
	case len(m) == 0:
		return "empty"
	case rep:
		return "repeated-keys"
	}
	return "single-keys"
}

func c14GenURL(w *c14Worker, r *gen.Rand, b *c14Batch, n int) {
	for i := 0; i < n; i++ {
		switch k := r.Intn(20); {
		case k < 4: // to_urlpath / to_urlencode + inverse
			query := r.Bool()
			name, pair := "urlpath", "urlpath"
			if query {
				name, pair = "urlencode", "urlencode"
			}
			s := c14URLString(r, 30)
			want := c14Escape(s, query)
			var std string
			if query {
				std = url.QueryEscape(s)
			} else {
				std = url.PathEscape(s)
			}
			if std != want {
				panic(fmt.Sprintf("c14: escape model disagrees with net/url on %q: %q vs %q", s, want, std))
			}
			b.add(fmt.Sprintf("to_%s as $t | [$t, ($t | from_%s)]", name, name), &c14Case{pair: pair, class: "enc:" + c14StrClass(s), size: len(s), in: s, conv: 2, check: func(t *c14T, o c14Out) {
				f, ok := c14Fields(o, 2)
				if !ok {
					t.fail("to_"+name+":error", "to_%s|from_%s failed: %s", name, name, o.err)
					return
				}
				if g, _ := f[0].(string); g != want {
					t.fail("to_"+name+":mismatch", "to_%s(%q) gave %q want %q", name, s, g, want)
					return
				}
				if g, _ := f[1].(string); g != s {
					t.fail(name+":roundtrip", "to_%s|from_%s(%q) gave %q", name, name, s, g)
				}
			}})
		case k < 7: // from_urlpath / from_urlencode on text written by hand rules (lower-case hex, literal chars, '+')
			query := r.Bool()
			name := "urlpath"
			if query {
				name = "urlencode"
			}
			var sb strings.Builder
			bad := false
			cnt := r.Intn(20)
			for j := 0; j < cnt; j++ {
				switch r.Intn(8) {
				case 0:
					fmt.Fprintf(&sb, "%%%02x", r.Intn(256))
				case 1:
					fmt.Fprintf(&sb, "%%%02X", r.Intn(256))
				case 2:
					sb.WriteByte('+')
				case 3:
					sb.WriteString(gen.Pick(r, []string{"/", "?", "&", "=", " ", "é", "~", "#"}))
				case 4:
					if r.Intn(4) == 0 {
						sb.WriteString(gen.Pick(r, []string{"%", "%4", "%g1", "%1g", "%%41", "% 41"}))
						bad = true
						if r.Bool() { // a broken escape at the very end
							j = cnt
						}
					}
				default:
					sb.WriteByte("abcxyz019"[r.Intn(9)])
				}
			}
			txt := sb.String()
			want, ok := c14Unescape(txt, query)
			if ok == bad {
				// "%%41": '%' followed by "%4" is malformed; the model decides
				bad = !ok
			}
			if bad {
				b.add("from_"+name, &c14Case{pair: name, class: "bad:escape", size: len(txt), in: txt, wantErr: true, check: c14MustErr("from_" + name + ":bad-escape-accepted")})
				continue
			}
			b.add("from_"+name, &c14Case{pair: name, class: "dec", size: len(txt), in: txt, check: func(t *c14T, o c14Out) {
				if !o.ok {
					t.fail("from_"+name+":valid-rejected", "from_%s(%q) failed: %s", name, txt, o.err)
					return
				}
				if g, _ := o.v.(string); g != want {
					t.fail("from_"+name+":mismatch", "from_%s(%q) gave %q want %q", name, txt, g, want)
				}
			}})
		case k < 10: // canonical query object -> text -> object
			m, keys := c14GenQuery(r, true)
			want := c14EncodeQuery(m, keys)
			b.add("to_urlquery as $t | [$t, ($t | from_urlquery)]", &c14Case{pair: "urlquery", class: "enc:" + c14QueryClass(m), size: len(want), in: m, conv: 2, check: func(t *c14T, o c14Out) {
				f, ok := c14Fields(o, 2)
				if !ok {
					t.fail("to_urlquery:error", "to_urlquery|from_urlquery failed: %s", o.err)
					return
				}
				if g, _ := f[0].(string); g != want {
					t.fail("to_urlquery:mismatch", "to_urlquery gave %q want %q", g, want)
					return
				}
				if d := c14Eq(m, f[1]); d != nil {
					t.fail("urlquery:roundtrip", "to_urlquery|from_urlquery differs at %s", d)
				}
			}})
		case k < 13: // query text in free order (pairs without '=', empty pairs, repeated keys) -> object
			cnt := r.Intn(6)
			want := map[string]any{}
			var parts []string
			bad := false
			for j := 0; j < cnt; j++ {
				kk, vv := c14URLString(r, 4), c14URLString(r, 5)
				if r.Intn(4) == 0 && len(parts) > 0 {
					kk, _ = c14Unescape(strings.SplitN(parts[r.Intn(len(parts))], "=", 2)[0], true) // repeat an earlier key
				}
				var p string
				switch r.Intn(6) {
				case 0:
					p = c14Escape(kk, true) // no '=': empty value
					vv = ""
				case 1:
					p = "" // empty pair is skipped
				case 2:
					if r.Intn(3) == 0 {
						p = c14Escape(kk, true) + "=" + gen.Pick(r, []string{"%", "%zz", "a;b", "%4"})
						bad = true
					} else {
						p = c14Escape(kk, true) + "=" + c14Escape(vv, true)
					}
				default:
					p = c14Escape(kk, true) + "=" + strings.ReplaceAll(c14Escape(vv, true), "+", "%20")
				}
				parts = append(parts, p)
				if p == "" || (kk == "" && !strings.Contains(p, "=")) {
					continue
				}
				switch old := want[kk].(type) {
				case nil:
					want[kk] = vv
				case string:
					want[kk] = []any{old, vv}
				case []any:
					want[kk] = append(old, vv)
				}
			}
			txt := strings.Join(parts, "&")
			if bad {
				b.add("from_urlquery", &c14Case{pair: "urlquery", class: "bad:escape-or-semicolon", size: len(txt), in: txt, wantErr: true, check: c14MustErr("from_urlquery:malformed-accepted")})
				continue
			}
			b.add("from_urlquery", &c14Case{pair: "urlquery", class: "dec:" + c14QueryClass(want), size: len(txt), in: txt, check: func(t *c14T, o c14Out) {
				if !o.ok {
					t.fail("from_urlquery:valid-rejected", "from_urlquery(%q) failed: %s", txt, o.err)
					return
				}
				if d := c14Eq(want, o.v); d != nil {
					t.fail("from_urlquery:mismatch", "from_urlquery(%q) differs at %s", txt, d)
				}
			}})
		case k < 17:
			c14GenURLObj(r, b)
		default:
			c14GenURLText(r, b)
		}
	}
}

var c14Hosts = []string{"example.com", "h", "localhost:8080", "[::1]:80", "127.0.0.1", "a.b-c.d", "räksmörgås.se", "[fe80::1]"}

// c14GenURLObj: a URL object in from_url's own shape -> to_url (oracle net/url) -> from_url gives the object back.
func c14GenURLObj(r *gen.Rand, b *c14Batch) {
	obj := map[string]any{}
	u := url.URL{}
	cl := []string{}
	if r.Intn(5) != 0 {
		s := gen.Pick(r, []string{"http", "https", "ftp", "x-y", "a+b.c", "file"})
		obj["scheme"], u.Scheme = s, s
	}
	if r.Intn(4) != 0 {
		h := gen.Pick(r, c14Hosts)
		obj["host"], u.Host = h, h
		if r.Intn(3) == 0 {
			name := c14URLString(r, 5)
			if name == "" {
				name = "u"
			}
			um := map[string]any{"username": name}
			u.User = url.User(name)
			if r.Bool() {
				pw := c14URLString(r, 5)
				if pw == "" {
					pw = "p"
				}
				um["password"] = pw
				u.User = url.UserPassword(name, pw)
			}
			obj["user"] = um
			cl = append(cl, "user")
		}
	}
	if r.Intn(4) != 0 {
		p := ""
		for j := r.Intn(4); j >= 0; j-- {
			p += "/" + c14URLString(r, 5)
		}
		if u.Host == "" && strings.HasPrefix(p, "//") {
			p = "/x" + p[1:] // "//" after an empty authority would read as an authority
		}
		obj["path"], u.Path = p, p
		cl = append(cl, "path")
	}
	if r.Intn(2) == 0 {
		m, keys := c14GenQuery(r, false)
		obj["query"] = m
		u.RawQuery = c14EncodeQuery(m, keys)
		cl = append(cl, "query:"+c14QueryClass(m))
		if u.RawQuery == "" { // {"": ""} encodes to "=": fine; only a really empty text drops the query
			delete(obj, "query")
		}
	}
	if r.Intn(3) == 0 {
		f := c14URLString(r, 6)
		if f != "" {
			obj["fragment"], u.Fragment = f, f
			cl = append(cl, "fragment")
		}
	}
	if len(obj) == 0 {
		obj["path"], u.Path = "/", "/"
	}
	want := u.String()
	// what from_url must give back: the object plus the derived rawquery
	back := c14Clone(obj).(map[string]any)
	if u.RawQuery != "" {
		back["rawquery"] = u.RawQuery
	}
	in := c14Clone(obj).(map[string]any)
	if q, ok := in["query"]; ok && r.Intn(3) == 0 {
		// rawquery given as well: query wins (documented by the order in to_url)
		in["rawquery"] = "zzz=1"
		_ = q
	}
	b.add("to_url as $t | [$t, ($t | from_url)]", &c14Case{pair: "url", class: "obj:" + strings.Join(cl, "+"), size: len(want), in: in, conv: 2, check: func(t *c14T, o c14Out) {
		f, ok := c14Fields(o, 2)
		if !ok {
			t.fail("to_url:error", "to_url|from_url failed: %s", o.err)
			return
		}
		if g, _ := f[0].(string); g != want {
			t.fail("to_url:mismatch", "to_url gave %q, net/url builds %q", g, want)
			return
		}
		if d := c14Eq(back, f[1]); d != nil {
			t.fail("url:roundtrip:"+c14URLDiffKey(d.msg), "to_url|from_url (%q) differs at %s", want, d)
		}
	}})
}

func c14URLDiffKey(d string) string {
	d = strings.TrimPrefix(d, ".")
	for i, c := range d {
		if !(c >= 'a' && c <= 'z') {
			return d[:i]
		}
	}
	return d
}

// c14GenURLText: URL text -> from_url (fields as net/url parses them) -> to_url -> from_url is stable.
func c14GenURLText(r *gen.Rand, b *c14Batch) {
	var sb strings.Builder
	cl := "plain"
	sig := ""
	if r.Intn(4) != 0 {
		sb.WriteString(gen.Pick(r, []string{"http", "https", "HTTP", "ftp", "x-y"}))
		sb.WriteString(":")
	}
	host := r.Intn(4) != 0
	if host {
		sb.WriteString("//")
		switch r.Intn(8) {
		case 0:
			sb.WriteString("user@")
		case 1:
			sb.WriteString("user:pa%20ss@")
		case 2:
			sb.WriteString("u:@")
			cl, sig = "empty-password", "url:roundtrip:empty-password-dropped"
		case 3:
			sb.WriteString(":p@")
			cl, sig = "empty-username", "url:roundtrip:empty-username-dropped"
		}
		sb.WriteString(gen.Pick(r, c14Hosts[:6]))
	}
	if r.Intn(4) != 0 {
		for j := r.Intn(3); j >= 0; j-- {
			sb.WriteString("/")
			for m := r.Intn(4); m > 0; m-- {
				switch r.Intn(6) {
				case 0:
					sb.WriteString(gen.Pick(r, []string{"%2F", "%41", "%2f", "%3F", "%25", "%20", "%C3%A9"}))
					if sig == "" {
						cl, sig = "rawpath", "url:roundtrip:rawpath-dropped"
					}
				case 1:
					sb.WriteString(gen.Pick(r, []string{"é", "a b", "$", "&", "+", "=", ":", "@", ",", ";", "!", "*", "'", "(", ")"}))
				default:
					sb.WriteByte("abcxyz019-._~"[r.Intn(13)])
				}
			}
		}
	}
	if r.Intn(2) == 0 {
		sb.WriteString("?")
		for j := r.Intn(4); j >= 0; j-- {
			sb.WriteString(gen.Pick(r, []string{"b=2", "a=1", "a=3", "c", "d=", "e=%20x+y", "=v", "é=ü", "a=1"}))
			if j > 0 {
				sb.WriteString("&")
			}
		}
	}
	if r.Intn(3) == 0 {
		sb.WriteString("#" + gen.Pick(r, []string{"f", "a%20b", "é", "x/y?z"}))
	}
	txt := sb.String()
	pu, err := url.Parse(txt)
	if err != nil || pu.Opaque != "" {
		return // outside the generated domain (e.g. "x-y:" followed by a relative path with ':')
	}
	want := map[string]any{}
	if pu.Scheme != "" {
		want["scheme"] = pu.Scheme
	}
	if pu.User != nil {
		um := map[string]any{"username": pu.User.Username()}
		if p, ok := pu.User.Password(); ok {
			um["password"] = p
		}
		want["user"] = um
	}
	if pu.Host != "" {
		want["host"] = pu.Host
	}
	if pu.Path != "" {
		want["path"] = pu.Path
	}
	if pu.RawPath != "" {
		want["rawpath"] = pu.RawPath
	} else if cl == "rawpath" {
		cl, sig = "plain", ""
	}
	if pu.RawQuery != "" {
		want["rawquery"] = pu.RawQuery
		q := map[string]any{}
		for k, vs := range pu.Query() {
			if len(vs) == 1 {
				q[k] = vs[0]
			} else {
				a := make([]any, len(vs))
				for i, v := range vs {
					a[i] = v
				}
				q[k] = a
			}
		}
		want["query"] = q
	}
	if pu.Fragment != "" {
		want["fragment"] = pu.Fragment
	}
	_ = sig
	b.add("from_url as $u | [$u, (try ($u | to_url | from_url | [.]) catch c14e)]", &c14Case{pair: "url", class: "text:" + cl, size: len(txt), in: txt, conv: 3, check: func(t *c14T, o c14Out) {
		f, ok := c14Fields(o, 2)
		if !ok {
			t.fail("from_url:error", "from_url|to_url|from_url(%q) failed: %s", txt, o.err)
			return
		}
		if d := c14Eq(want, f[0]); d != nil {
			t.fail("from_url:mismatch", "from_url(%q) differs from net/url's fields at %s", txt, d)
			return
		}
		// inverse law on fq's own canonical form, modulo the text of the query (to_url re-encodes it sorted).
		// Known-lossy fields are peeled off one by one so that each loss has its own signature.
		second, ok := f[1].([]any)
		if !ok {
			e, _ := f[1].(map[string]any)
			sig := "url:roundtrip:to_url-output-rejected"
			if _, has := want["rawpath"]; has {
				sig = "url:roundtrip:rawpath-dropped" // "/%2f(" has path "//(": without its rawpath it is written as "//%28"
			}
			t.fail(sig, "from_url(%q) | to_url is not accepted by from_url: %v", txt, e["e"])
			return
		}
		a, bb := c14Clone(f[0]).(map[string]any), c14Clone(second[0]).(map[string]any)
		delete(a, "rawquery")
		delete(bb, "rawquery")
		rawDropped := false
		if _, has := a["rawpath"]; has {
			if _, has2 := bb["rawpath"]; !has2 {
				rawDropped = true
				t.fail("url:roundtrip:rawpath-dropped", "from_url(%q) gives rawpath %q but to_url ignores it: to_url gives %q", txt, a["rawpath"], c14ToURLOracle(pu))
				delete(a, "rawpath")
			}
		}
		if um, ok := a["user"].(map[string]any); ok {
			if um["username"] == "" {
				if _, has := bb["user"]; !has {
					t.fail("url:roundtrip:empty-username-dropped", "from_url(%q) gives user %s but to_url drops the whole userinfo when the username is empty", txt, c14JSON(um))
					delete(a, "user")
				}
			} else if um["password"] == "" {
				if um2, ok := bb["user"].(map[string]any); ok {
					if _, has := um2["password"]; !has {
						t.fail("url:roundtrip:empty-password-dropped", "from_url(%q) gives an empty password but to_url drops it (\"u:@h\" becomes \"u@h\")", txt)
						delete(um, "password")
					}
				}
			}
		}
		if d := c14Eq(a, bb); d != nil {
			sig := "url:roundtrip:text"
			if rawDropped {
				// e.g. "/%2f1" has path "//1": written without its rawpath it reads as host "1" (same defect, already reported)
				return
			}
			t.fail(sig, "from_url(%q) | to_url | from_url is not the same URL: %s", txt, d)
		}
	}})
}

func c14ToURLOracle(u *url.URL) string {
	c := *u
	c.RawPath = ""
	return c.String()
}

// ---- radix ----

const c14RadixTable = "0123456789abcdefghijklmnopqrstuvwxyzABCDEFGHIJKLMNOPQRSTUVWXYZ@_"

// c14ToRadix: positional notation with the documented 64-symbol table (independent of big.Text).
func c14ToRadix(n *big.Int, base int) string {
	if n.Sign() == 0 {
		return "0"
	}
	var out []byte
	q := new(big.Int).Set(n)
	bb := big.NewInt(int64(base))
	m := new(big.Int)
	for q.Sign() > 0 {
		q.QuoRem(q, bb, m)
		out = append(out, c14RadixTable[m.Int64()])
	}
	for i, j := 0, len(out)-1; i < j; i, j = i+1, j-1 {
		out[i], out[j] = out[j], out[i]
	}
	return string(out)
}

func c14RadixInt(r *gen.Rand, base int) *big.Int {
	switch r.Intn(10) {
	case 0:
		return big.NewInt(int64(r.Intn(3)))
	case 1:
		e := r.Intn(40)
		n := new(big.Int).Exp(big.NewInt(int64(base)), big.NewInt(int64(e)), nil)
		n.Add(n, big.NewInt(int64(r.Intn(3)-1)))
		if n.Sign() < 0 || n.BitLen() > 200 {
			n.SetInt64(int64(base))
		}
		return n
	case 2:
		n := new(big.Int).Lsh(big.NewInt(1), uint(gen.Pick(r, []int{31, 32, 53, 62, 63, 64, 65, 127, 128, 200})))
		n.Add(n, big.NewInt(int64(r.Intn(3)-1)))
		if n.BitLen() > 201 {
			n.Sub(n, big.NewInt(1))
		}
		return n
	case 3:
		return big.NewInt(int64(r.Intn(100000)))
	default:
		bits := r.Intn(201)
		n := new(big.Int).SetBytes(r.Bytes(26))
		return n.Rsh(n, uint(208-bits))
	}
}

func c14JQInt(n *big.Int) any {
	if n.IsInt64() {
		return int(n.Int64())
	}
	return n
}

func c14GenRadix(w *c14Worker, r *gen.Rand, b *c14Batch, n int) {
	for i := 0; i < n; i++ {
		base := 2 + r.Intn(63)
		if r.Intn(4) == 0 {
			base = gen.Pick(r, []int{2, 8, 10, 16, 36, 37, 62, 63, 64})
		}
		pair := "radix"
		bsig := fmt.Sprintf("base%d", base)
		num := c14RadixInt(r, base)
		txt := c14ToRadix(num, base)
		if base <= 62 && txt != num.Text(base) {
			panic("c14: radix model disagrees with math/big")
		}
		sizeClass := "small"
		if !num.IsInt64() {
			sizeClass = "big"
		}
		switch k := r.Intn(12); {
		case k < 5:
			b.add(". as $c | $c.n | to_radix($c.b) as $t | [$t, ($t | from_radix($c.b))]", &c14Case{pair: pair, class: "to:" + sizeClass + ":" + c14BaseClass(base), size: num.BitLen(), in: map[string]any{"n": c14JQInt(num), "b": base}, conv: 2, check: func(t *c14T, o c14Out) {
				f, ok := c14Fields(o, 2)
				if !ok {
					t.fail("to_radix:error", "to_radix|from_radix(%d) of %s failed: %s", base, num, o.err)
					return
				}
				if g, _ := f[0].(string); g != txt {
					t.fail("radix:"+bsig+":mismatch", "%s | to_radix(%d) gave %q want %q", num, base, g, txt)
					return
				}
				if gb, ok := c14BigOf(f[1]); !ok || gb.Cmp(num) != 0 {
					t.fail("radix:"+bsig+":roundtrip", "%s | to_radix(%d) | from_radix(%d) gave %s", num, base, base, c14JSON(f[1]))
				}
			}})
		case k < 8: // leading zeros
			in := strings.Repeat("0", r.Intn(5)) + txt
			b.add(". as $c | $c.s | from_radix($c.b)", &c14Case{pair: pair, class: "from:" + sizeClass + ":" + c14BaseClass(base), size: len(in), in: map[string]any{"s": in, "b": base}, check: func(t *c14T, o c14Out) {
				if !o.ok {
					t.fail("from_radix:valid-rejected", "%q | from_radix(%d) failed: %s", in, base, o.err)
					return
				}
				if gb, ok := c14BigOf(o.v); !ok || gb.Cmp(num) != 0 {
					t.fail("from_radix:"+bsig+":mismatch", "%q | from_radix(%d) gave %s want %s", in, base, c14JSON(o.v), num)
				}
			}})
		case k < 9: // a character outside the table
			bad := gen.Pick(r, []string{"-", " ", "!", "é", "+", ".", "#", "/", "=", "\n"})
			p := r.Intn(len(txt) + 1)
			in := txt[:p] + bad + txt[p:]
			b.add(". as $c | $c.s | from_radix($c.b)", &c14Case{pair: pair, class: "bad:char-outside-table", size: len(in), in: map[string]any{"s": in, "b": base}, wantErr: true, check: c14MustErr("from_radix:invalid-char-accepted")})
		case k < 10: // a digit of the table that is >= base
			if base == 64 {
				i--
				continue
			}
			d := base + r.Intn(64-base)
			p := r.Intn(len(txt) + 1)
			in := txt[:p] + string(c14RadixTable[d]) + txt[p:]
			b.add(". as $c | $c.s | from_radix($c.b)", &c14Case{pair: pair, class: "bad:digit-ge-base", size: len(in), in: map[string]any{"s": in, "b": base}, wantErr: true, check: c14MustErr("from_radix:digit-out-of-range-accepted")})
		case k < 11: // explicit tables (arity 2)
			up := strings.ToUpper(c14RadixTable[:36])
			b36 := 2 + r.Intn(35)
			t36 := strings.ToUpper(num.Text(b36))
			tbl := map[string]any{}
			for j := 0; j < 36; j++ {
				tbl[string(up[j])] = j
			}
			b.add(". as $c | $c.n | to_radix($c.b; $c.t) as $t | [$t, ($t | from_radix($c.b; $c.m))]", &c14Case{pair: pair, class: "table:" + sizeClass, size: num.BitLen(), in: map[string]any{"n": c14JQInt(num), "b": b36, "t": up, "m": tbl}, conv: 2, check: func(t *c14T, o c14Out) {
				f, ok := c14Fields(o, 2)
				if !ok {
					t.fail("to_radix:table:error", "to_radix/from_radix with explicit table failed: %s", o.err)
					return
				}
				if g, _ := f[0].(string); g != t36 {
					t.fail("radix:table:mismatch", "%s | to_radix(%d; upper-case table) gave %q want %q", num, b36, g, t36)
					return
				}
				if gb, ok := c14BigOf(f[1]); !ok || gb.Cmp(num) != 0 {
					t.fail("radix:table:roundtrip", "explicit-table round trip of %s base %d gave %s", num, b36, c14JSON(f[1]))
				}
			}})
		default: // empty text is not a numeral
			b.add(". as $c | $c.s | from_radix($c.b)", &c14Case{pair: pair, class: "bad:empty", size: 0, in: map[string]any{"s": "", "b": base}, wantErr: true, check: c14MustErr("from_radix:empty-accepted")})
		}
	}
}

func c14BaseClass(b int) string {
	switch {
	case b <= 10:
		return "b2-10"
	case b <= 36:
		return "b11-36"
	case b <= 62:
		return "b37-62"
	}
	return fmt.Sprintf("b%d", b)
}
