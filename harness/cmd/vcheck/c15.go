package main

// C15 — container decoders report what independent writers stored.
//
// Independent writers (Go standard library, a hand-written WAV/PNG-chunk writer, and in the thorough tier
// Python 3's gzip/zipfile/tarfile/bz2/wave/zlib through pyref/c15_helper.py) produce container files from
// contents drawn from the PRNG. Each file is decoded by the real fq interpreter (fqx.Session, `open | decode(F)`)
// and what fq reports (names, sizes, header fields, methods, flags, payload bytes, checksum descriptions) is
// compared with what was stored. Then single-byte corruptions of checksummed regions are first shown to the
// independent reader; if that reader rejects (or the region is CRC-over-raw, where every change is detectable)
// fq must show an "invalid" checksum or a decode error, never a clean tree.
//
// What was learnt while building the oracle (kept here so that nobody "fixes" the oracle the wrong way):
//   * fq has no stand-alone zlib format; zlib streams are only decoded inside png zTXt/iCCP, so compress/zlib
//     (and Python zlib) output is checked through hand-inserted zTXt chunks.
//   * fq does not inflate IDAT; the harness concatenates the IDAT `data` fields fq reports, inflates them itself,
//     undoes the PNG filters (hand-written from the PNG spec) and compares pixels with the source image.
//   * fq's tar decoder reports raw header blocks (pax 'x'/'g' and GNU 'L'/'K' entries included); the harness
//     rebuilds logical members from fq's fields with its own pax/GNU rules and compares those with what was stored.
//   * decode("gzip") of a broken file yields a tree with `._error` on the root, not a jq error.
//   * a tar/gzip "archive" with zero members is by design not accepted by fq ("no files found"/"no members found");
//     zero members is therefore only exercised for zip.

import (
	"bytes"
	"encoding/hex"
	"encoding/json"
	"fmt"
	"math/big"
	"os"
	"runtime"
	"runtime/pprof"
	"sort"
	"strconv"
	"strings"
	"sync"
	"time"

	"verif/ev"
	"verif/fqx"
	"verif/gen"
)

func init() { register("C15", c15Main) }

// c15Region is a byte range of a file that is covered by a stored checksum.
type c15Region struct {
	name   string // region class, part of the violation signature
	off, n int
	uncond bool // CRC/sum over raw bytes: every single-byte change is detectable
}

// c15File is one generated container file plus everything the harness knows about what was stored in it.
type c15File struct {
	id      uint64
	format  string   // fq format name
	writer  string   // "go", "hand", "py"
	opts    []string // options used (sorted); part of the distinct key
	members int
	data    []byte
	exp     any // format specific expectation
	regions []c15Region
	payload int64 // payload bytes stored
	note    string
}

func (f *c15File) key() string {
	return f.format + "|" + f.writer + "|" + strings.Join(f.opts, ",") + "|m" + c15Bucket(f.members)
}

func c15Bucket(n int) string {
	switch {
	case n <= 2:
		return fmt.Sprint(n)
	case n <= 5:
		return "3-5"
	default:
		return "6+"
	}
}

func c15Opts(m map[string]bool) []string {
	var out []string
	for k, v := range m {
		if v {
			out = append(out, k)
		}
	}
	sort.Strings(out)
	return out
}

// c15Diff is one disagreement between what was stored and what fq reports.
type c15Diff struct {
	sig  string
	desc string
}

type c15Format struct {
	name    string
	gen     func(c *c15Ctx, r *gen.Rand, small bool) *c15File         // Go / hand writer
	genPy   func(c *c15Ctx, r *gen.Rand, small bool) *c15File         // Python writer (thorough), may be nil
	jq      string                                                    // full report program (input: decoded root)
	cks     string                                                    // jq: array of checksum descriptions
	compare func(c *c15Ctx, f *c15File, got map[string]any) []c15Diff // stored vs reported
	ref     func(f *c15File, data []byte) error                       // independent Go reader: nil = accepts
	cause   func(f *c15File) string                                   // "" or the root-cause prefix for files a known-divergent reading affects
	pyCheck bool                                                      // Python reader available for the format
}

var c15Formats = map[string]*c15Format{}
var c15Order []string

func c15Register(f *c15Format) {
	c15Formats[f.name] = f
	c15Order = append(c15Order, f.name)
}

// c15Ctx is the per-goroutine state: one fq session, optionally one Python helper.
type c15Ctx struct {
	run *ev.Run
	s   *fqx.Session
	py  *c15Py
}

const c15Defs = `def av: if . == null then null else toactual end; ` +
	`def sv: if . == null then null else tovalue end; ` +
	`def hx: if . == null then null else (tobytes | tohex) end; ` +
	`def ds: if . == null then null else ._description end; ` +
	`def bl: if . == null then 0 else (tobytes | length) end; ` +
	`def errs: [.. | ._error? | select(. != null) | .error | tostring]; `

// evalFiles decodes the given files in one Eval and returns one report object per file.
// A report is {"r": <program output>, "e": [errors in tree], "ck": [checksum descriptions]} or {"fail": "..."}.
func (c *c15Ctx) evalFiles(ft *c15Format, datas [][]byte, full bool) ([]map[string]any, error) {
	names := make([]string, len(datas))
	for i, d := range datas {
		names[i] = fmt.Sprintf("c15_%d.bin", i)
		c.s.OS.Files[names[i]] = d
	}
	defer func() {
		for _, n := range names {
			delete(c.s.OS.Files, n)
		}
	}()
	nj, _ := json.Marshal(names)
	body := `{e: errs, ck: (` + ft.cks + `)}`
	if full {
		body = `{r: (` + ft.jq + `), e: errs, ck: (` + ft.cks + `)}`
	}
	prog := c15Defs + `[` + string(nj) + `[] | . as $n | try ($n | open | decode("` + ft.name + `") | ` + body + ` | tovalue) catch {fail: (. | tostring)}]`
	var outs []any
	var err error
	pi := fqx.Guard(func() { outs, err = c.s.Eval(nil, prog) })
	if pi != nil {
		return nil, pi
	}
	if err != nil {
		return nil, err
	}
	if len(outs) != 1 {
		return nil, fmt.Errorf("expected one output, got %d", len(outs))
	}
	arr, ok := outs[0].([]any)
	if !ok || len(arr) != len(datas) {
		return nil, fmt.Errorf("unexpected output shape %T", outs[0])
	}
	res := make([]map[string]any, len(arr))
	for i, v := range arr {
		m, ok := v.(map[string]any)
		if !ok {
			return nil, fmt.Errorf("unexpected report %T", v)
		}
		res[i] = m
	}
	return res, nil
}

// ---- generic comparison of an expectation tree with fq's (JSON-like) report ----

// c15Hex marks an expected byte string that fq reports as lower-case hex.
type c15Hex []byte

func c15Num(v any) (*big.Int, bool) {
	switch x := v.(type) {
	case int:
		return big.NewInt(int64(x)), true
	case int64:
		return big.NewInt(x), true
	case uint32:
		return big.NewInt(int64(x)), true
	case uint64:
		return new(big.Int).SetUint64(x), true
	case *big.Int:
		return x, true
	case float64:
		if x == float64(int64(x)) {
			return big.NewInt(int64(x)), true
		}
	}
	return nil, false
}

func c15Short(v any) string {
	s := fmt.Sprintf("%#v", v)
	if b, err := json.Marshal(v); err == nil {
		s = string(b)
	}
	if len(s) > 120 {
		s = s[:120] + "…"
	}
	return s
}

// c15Cmp walks exp (maps, slices, scalars, c15Hex) and checks that got has the same values at the same places.
// Only keys present in exp are checked. path uses [] for indices so that it can be used in a signature.
func c15Cmp(format, path string, exp, got any, out *[]c15Diff) {
	add := func(what string) {
		*out = append(*out, c15Diff{sig: "mismatch:" + format + ":" + path, desc: fmt.Sprintf("%s %s: %s", format, path, what)})
	}
	switch e := exp.(type) {
	case map[string]any:
		g, ok := got.(map[string]any)
		if !ok {
			add(fmt.Sprintf("stored an object, fq reports %s", c15Short(got)))
			return
		}
		keys := make([]string, 0, len(e))
		for k := range e {
			keys = append(keys, k)
		}
		sort.Strings(keys)
		for _, k := range keys {
			p := k
			if path != "" {
				p = path + "." + k
			}
			c15Cmp(format, p, e[k], g[k], out)
		}
	case []any:
		g, ok := got.([]any)
		if !ok {
			add(fmt.Sprintf("stored %d entries, fq reports %s", len(e), c15Short(got)))
			return
		}
		if len(g) != len(e) {
			*out = append(*out, c15Diff{sig: "mismatch:" + format + ":" + path + ":count", desc: fmt.Sprintf("%s %s: stored %d entries, fq reports %d", format, path, len(e), len(g))})
			return
		}
		for i := range e {
			before := len(*out)
			c15Cmp(format, path+"[]", e[i], g[i], out)
			for j := before; j < len(*out); j++ {
				(*out)[j].desc = fmt.Sprintf("[entry %d] ", i) + (*out)[j].desc
			}
		}
	case c15Hex:
		gs, ok := got.(string)
		if !ok {
			add(fmt.Sprintf("stored %d bytes, fq reports %s", len(e), c15Short(got)))
			return
		}
		gb, err := hex.DecodeString(gs)
		if err != nil {
			add("fq report is not hex")
			return
		}
		if !bytes.Equal(gb, []byte(e)) {
			i := 0
			for i < len(gb) && i < len(e) && gb[i] == e[i] {
				i++
			}
			add(fmt.Sprintf("stored %d bytes, fq reports %d bytes, first difference at byte %d", len(e), len(gb), i))
		}
	case nil:
		if got != nil {
			add(fmt.Sprintf("nothing stored, fq reports %s", c15Short(got)))
		}
	case string:
		if gs, ok := got.(string); !ok || gs != e {
			add(fmt.Sprintf("stored %s, fq reports %s", c15Short(e), c15Short(got)))
		}
	case bool:
		if gb, ok := got.(bool); !ok || gb != e {
			add(fmt.Sprintf("stored %v, fq reports %s", e, c15Short(got)))
		}
	default:
		en, ok := c15Num(exp)
		if !ok {
			panic(fmt.Sprintf("c15Cmp: unsupported expectation %T at %s", exp, path))
		}
		gn, ok := c15Num(got)
		if !ok || en.Cmp(gn) != 0 {
			add(fmt.Sprintf("stored %s, fq reports %s", en.String(), c15Short(got)))
		}
	}
}

// ---- driver ----

type c15Job struct {
	format string
	first  uint64 // first case id of the batch
	n      int
	small  bool // corruption candidates: small files
	py     bool
}

func c15CaseID(format string, k uint64, py bool, small bool) uint64 {
	var h uint64 = 1469598103934665603
	for _, ch := range format {
		h = (h ^ uint64(ch)) * 1099511628211
	}
	if py {
		h ^= 0x5bd1e995
	}
	if small {
		h ^= 0x9e3779b9 << 7
	}
	return h<<20 ^ k
}

func (c *c15Ctx) genFile(ft *c15Format, job c15Job, k uint64) *c15File {
	id := c15CaseID(job.format, k, job.py, job.small)
	r := gen.New(c.run.Seed).Fork(id)
	var f *c15File
	if job.py {
		f = ft.genPy(c, r, job.small)
	} else {
		f = ft.gen(c, r, job.small)
	}
	if f != nil {
		f.id = k
	}
	return f
}

func (c *c15Ctx) replay(f *c15File, extra map[string]any) map[string]any {
	m := map[string]any{"seed": c.run.Seed, "tier": c.run.Tier, "format": f.format, "writer": f.writer, "case": f.id,
		"opts": f.opts, "members": f.members, "size": len(f.data), "note": f.note}
	if len(f.data) <= 4096 {
		m["file_hex"] = hex.EncodeToString(f.data)
	}
	for k, v := range extra {
		m[k] = v
	}
	return m
}

var c15SampleMu sync.Mutex
var c15Sampled = map[string]int{}

func (c *c15Ctx) sample(kind string, v map[string]any) {
	c15SampleMu.Lock()
	n := c15Sampled[kind]
	c15Sampled[kind]++
	c15SampleMu.Unlock()
	if n < 1 {
		c.run.Sample(v)
	}
}

// runJob generates the batch, checks the intact files and (for small files) runs the corruption sweep.
func (c *c15Ctx) runJob(job c15Job) {
	ft := c15Formats[job.format]
	var files []*c15File
	for i := 0; i < job.n; i++ {
		var f *c15File
		pi := fqx.Guard(func() { f = c.genFile(ft, job, job.first+uint64(i)) })
		if pi != nil {
			// generator or reference-writer failure is a harness problem, never silently a pass
			fmt.Fprintf(os.Stderr, "C15 generator panic (%s case %d): %v\n%s\n", job.format, job.first+uint64(i), pi.Value, pi.Stack)
			c.run.Inconclusive("generator-panic:" + job.format)
			continue
		}
		if f == nil {
			continue
		}
		// the independent reader must accept what the independent writer wrote, otherwise the generator is wrong
		if ft.ref != nil {
			if err := ft.ref(f, f.data); err != nil {
				fmt.Fprintf(os.Stderr, "C15 generator self-check: %s case %d (%v) rejected by the reference reader: %v\n", f.format, f.id, f.opts, err)
				c.run.Inconclusive("generator-selfcheck:" + job.format)
				continue
			}
		}
		files = append(files, f)
	}
	if len(files) == 0 {
		return
	}
	datas := make([][]byte, len(files))
	for i, f := range files {
		datas[i] = f.data
	}
	reps, err := c.evalFiles(ft, datas, true)
	if err != nil {
		sig := "eval-failure:" + job.format
		if pi, ok := err.(*fqx.PanicInfo); ok {
			sig = "panic:" + job.format + ":" + panicSite(pi.Value)
		}
		// find the culprit one by one so that the replay is minimal
		for _, f := range files {
			if _, err1 := c.evalFiles(ft, [][]byte{f.data}, true); err1 != nil {
				c.run.Violation(sig, fmt.Sprintf("decoding an intact %s file written by %s (%v) failed the whole evaluation: %v", f.format, f.writer, f.opts, err1), c.replay(f, nil))
			}
		}
		return
	}
	for i, f := range files {
		c.checkIntact(ft, f, reps[i], job.small)
	}
}

func c15Strs(v any) []string {
	arr, _ := v.([]any)
	out := make([]string, 0, len(arr))
	for _, x := range arr {
		if s, ok := x.(string); ok {
			out = append(out, s)
		} else {
			out = append(out, "")
		}
	}
	return out
}

func (c *c15Ctx) checkIntact(ft *c15Format, f *c15File, rep map[string]any, small bool) {
	run := c.run
	run.Eval(1)
	run.Count("files:"+f.format+":"+f.writer, 1)
	run.Count("members:"+f.format, int64(f.members))
	for _, o := range f.opts {
		run.Count("opt:"+f.format+":"+o, 1)
	}
	run.Distinct(f.key())
	c.sample("intact:"+f.format+":"+f.writer, map[string]any{"kind": "intact", "format": f.format, "writer": f.writer, "opts": f.opts, "members": f.members, "bytes": len(f.data)})

	optTag := strings.Join(f.opts, ",")
	var diffs []c15Diff
	structOK := true
	if fail, ok := rep["fail"]; ok {
		structOK = false
		diffs = append(diffs, c15Diff{sig: "decode-error:" + f.format + ":" + c15ErrClass(fmt.Sprint(fail)), desc: fmt.Sprintf("intact %s file (writer %s, options %s): decode failed: %v", f.format, f.writer, optTag, fail)})
	} else {
		errs := c15Strs(rep["e"])
		if len(errs) > 0 {
			structOK = false
			diffs = append(diffs, c15Diff{sig: "decode-error:" + f.format + ":" + c15ErrClass(errs[0]), desc: fmt.Sprintf("intact %s file (writer %s, options %s): fq reports decode error %q", f.format, f.writer, optTag, errs[0])})
		}
		cks := c15Strs(rep["ck"])
		nvalid := 0
		for _, d := range cks {
			switch d {
			case "valid":
				nvalid++
			case "invalid":
				structOK = false
				diffs = append(diffs, c15Diff{sig: "intact-checksum-invalid:" + f.format, desc: fmt.Sprintf("intact %s file (writer %s, options %s): a stored checksum is shown as invalid (descriptions %v)", f.format, f.writer, optTag, cks)})
			}
		}
		run.Count("checksum-valid:"+f.format, int64(nvalid))
		if len(errs) == 0 {
			r, _ := rep["r"].(map[string]any)
			before := len(diffs)
			diffs = append(diffs, ft.compare(c, f, r)...)
			if len(diffs) == before {
				run.Count("payload-bytes-compared:"+f.format, f.payload)
				run.Count("intact-agree:"+f.format, 1)
			}
		}
	}
	if ft.cause != nil && len(diffs) > 0 {
		if pre := ft.cause(f); pre != "" {
			for i := range diffs {
				diffs[i].sig = pre + ":" + c15StripErr(diffs[i].sig)
			}
		}
	}
	seen := map[string]bool{}
	for _, d := range diffs {
		if seen[d.sig] {
			continue
		}
		seen[d.sig] = true
		run.Count("intact-disagree:"+f.format, 1)
		run.Violation(d.sig, fmt.Sprintf("%s  [writer %s, options %s, %d members, %d bytes, case %d]", d.desc, f.writer, optTag, f.members, len(f.data), f.id), c.replay(f, nil))
	}
	if small && len(f.regions) > 0 {
		if !structOK {
			run.Count("corrupt:skipped-intact-decode-failed:"+f.format, 1)
			return
		}
		c.corrupt(ft, f)
	}
}

// c15ErrClass reduces an fq error message to a stable class (no positions, offsets or data).
func c15ErrClass(s string) string {
	if i := strings.Index(s, ": failed at position"); i >= 0 {
		head := s[:i]
		tail := s[i:]
		if j := strings.LastIndex(tail, "): "); j >= 0 {
			s = head + ":" + strings.TrimSpace(tail[j+3:])
		} else {
			s = head
		}
	}
	if i := strings.Index(s, "error at position"); i >= 0 {
		if j := strings.Index(s[i:], ": "); j >= 0 {
			s = s[:i] + s[i+j+2:]
		}
	}
	if i := strings.Index(s, " before offset"); i >= 0 {
		s = s[:i]
	}
	var sb strings.Builder
	for _, ch := range s {
		if ch >= '0' && ch <= '9' {
			continue
		}
		sb.WriteRune(ch)
	}
	s = sb.String()
	if len(s) > 80 {
		s = s[:80]
	}
	return s
}

// c15StripErr keeps only the class of a decode-error signature when a format prefixes it with a root cause.
func c15StripErr(sig string) string {
	if strings.HasPrefix(sig, "decode-error:") {
		return "decode-error"
	}
	if strings.HasPrefix(sig, "intact-checksum-invalid:") {
		return "intact-checksum-invalid"
	}
	return sig
}

// ---- corruption sweep ----

var c15Xors = []byte{0x01, 0x80, 0xff}

type c15Corr struct {
	off    int
	xor    byte
	region *c15Region
	refErr string // "" = every available reference reader accepts
	data   []byte
}

func (c *c15Ctx) corrupt(ft *c15Format, f *c15File) {
	run := c.run
	thorough := run.Thorough()
	r := gen.New(run.Seed).Fork(f.id ^ 0xc0ffee)
	var cases []c15Corr
	total := 0
	for i := range f.regions {
		total += f.regions[i].n
	}
	budget := 200
	for i := range f.regions {
		rg := &f.regions[i]
		var offs []int
		if thorough || rg.n <= 12 || total <= budget {
			for o := 0; o < rg.n; o++ {
				offs = append(offs, rg.off+o)
			}
		} else {
			// proportional share of the budget, at least 12 offsets; always the first and last byte
			k := budget * rg.n / total
			if k < 12 {
				k = 12
			}
			if k > rg.n {
				k = rg.n
			}
			picked := map[int]bool{0: true, rg.n - 1: true}
			for len(picked) < k {
				picked[r.Intn(rg.n)] = true
			}
			for o := range picked {
				offs = append(offs, rg.off+o)
			}
			sort.Ints(offs)
		}
		for _, o := range offs {
			if thorough {
				for _, x := range c15Xors {
					cases = append(cases, c15Corr{off: o, xor: x, region: rg})
				}
			} else {
				cases = append(cases, c15Corr{off: o, xor: c15Xors[(o+int(f.id))%3], region: rg})
			}
		}
	}
	run.Count("corrupt:files:"+f.format, 1)
	const batch = 48
	for start := 0; start < len(cases); start += batch {
		end := min(start+batch, len(cases))
		part := cases[start:end]
		datas := make([][]byte, len(part))
		for i := range part {
			d := append([]byte(nil), f.data...)
			d[part[i].off] ^= part[i].xor
			part[i].data = d
			datas[i] = d
			if ft.ref != nil {
				if err := c15SafeRef(ft, f, d); err != nil {
					part[i].refErr = "go: " + err.Error()
				}
			}
		}
		if thorough && ft.pyCheck && c.py != nil {
			errs, err := c.py.check(f, datas)
			if err != nil {
				run.Inconclusive("python-check-failed")
			} else {
				for i := range part {
					if errs[i] != "" {
						run.Count("corrupt:python-rejects:"+f.format, 1)
						if part[i].refErr == "" {
							run.Count("corrupt:python-rejects-go-accepts:"+f.format, 1)
							part[i].refErr = "python: " + errs[i]
						}
					} else if part[i].refErr != "" {
						run.Count("corrupt:go-rejects-python-accepts:"+f.format, 1)
					}
				}
			}
		}
		reps, err := c.evalFiles(ft, datas, false)
		if err != nil {
			// a Go panic or evaluation failure on a corrupted file: find it
			for i := range part {
				if _, err1 := c.evalFiles(ft, [][]byte{datas[i]}, false); err1 != nil {
					sig := "corrupt-eval-failure:" + f.format
					if pi, ok := err1.(*fqx.PanicInfo); ok {
						sig = "panic:" + f.format + ":" + panicSite(pi.Value)
					}
					run.Violation(sig, fmt.Sprintf("%s file with byte %d xor 0x%02x (%s): evaluation failed: %v", f.format, part[i].off, part[i].xor, part[i].region.name, err1),
						c.replay(f, map[string]any{"offset": part[i].off, "xor": part[i].xor, "region": part[i].region.name}))
				}
			}
			continue
		}
		for i := range part {
			c.judge(f, &part[i], reps[i])
		}
	}
}

func c15SafeRef(ft *c15Format, f *c15File, d []byte) (err error) {
	defer func() {
		if r := recover(); r != nil {
			err = fmt.Errorf("reference reader panic: %v", r)
		}
	}()
	return ft.ref(f, d)
}

func (c *c15Ctx) judge(f *c15File, cc *c15Corr, rep map[string]any) {
	run := c.run
	tag := f.format + ":" + cc.region.name
	run.Eval(1)
	run.Count("corrupt:tried:"+tag, 1)
	refRejects := cc.refErr != ""
	if refRejects {
		run.Count("corrupt:ref-rejects:"+tag, 1)
	} else {
		run.Count("corrupt:ref-accepts:"+tag, 1)
	}
	flagged := ""
	if _, ok := rep["fail"]; ok {
		flagged = "decode-failure"
	} else if len(c15Strs(rep["e"])) > 0 {
		flagged = "decode-error"
	} else {
		for _, d := range c15Strs(rep["ck"]) {
			if d == "invalid" {
				flagged = "checksum-invalid"
			}
		}
	}
	if flagged != "" {
		run.Count("corrupt:fq-flags:"+flagged+":"+tag, 1)
	} else {
		run.Count("corrupt:fq-clean:"+tag, 1)
	}
	required := refRejects || cc.region.uncond
	if cc.region.uncond && !refRejects {
		// cannot happen for a CRC/sum over raw bytes; recorded so that a wrong region map is visible
		run.Count("corrupt:uncond-but-ref-accepts:"+tag, 1)
	}
	if !required {
		run.Count("corrupt:nothing-required:"+tag, 1)
		return
	}
	run.Distinct("corrupt|" + f.key() + "|" + cc.region.name)
	c.sample("corrupt:"+tag, map[string]any{"kind": "corruption", "format": f.format, "region": cc.region.name, "offset": cc.off, "xor": cc.xor, "reference": cc.refErr, "fq": flagged, "file_bytes": len(f.data)})
	if flagged == "" {
		run.Violation("corruption-clean:"+tag,
			fmt.Sprintf("%s file (writer %s, options %v, %d bytes): byte %d (region %s) xor 0x%02x: the independent reader rejects (%s) but fq shows no invalid checksum and no decode error (checksum descriptions %v)",
				f.format, f.writer, f.opts, len(f.data), cc.off, cc.region.name, cc.xor, cc.refErr, c15Strs(rep["ck"])),
			c.replay(f, map[string]any{"offset": cc.off, "xor": cc.xor, "region": cc.region.name, "reference": cc.refErr}))
	}
}

// ---- main ----

func c15Main(args []string) {
	run := ev.NewRun("C15")
	run.Rule = "files written by independent writers (Go std gzip/zip/tar/zlib/png/gif, hand-written WAV and PNG-chunk writers; thorough: also Python gzip/zipfile/tarfile/bz2/wave/zlib) from PRNG contents: member counts 0..12, payloads empty/tiny/incompressible/compressible/>64KiB, levels 0..9, optional header fields; each decoded by the real fq interpreter and compared field by field and byte by byte with what was stored; then single-byte xors (01/80/ff) in checksummed regions of small files, judged against the independent reader. distinct = (format, writer, option set, member-count bucket) for intact files plus (that, region) for corruptions the reference rejects"
	run.Assumptions = []string{
		"gzip and tar archives with zero members are outside the domain (fq rejects them by design: 'no members found'/'no files found'); zip covers the zero-member case",
		"gzip name/comment are restricted to ASCII (RFC 1952 says ISO 8859-1, fq decodes UTF-8)",
		"tar: whole-second mtimes; numeric fields within the octal range of the header, larger values only through pax records",
		"png: only what image/png can write (non-interlaced, no 1/2/4-bit gray); gif: what image/gif can write",
		"a corruption obliges fq only if the independent reader (Go std, thorough: or Python) rejects the file, except in CRC/sum-over-raw regions (png chunk type/data/crc, tar header outside the chksum field, zip stored member data) where every single-byte change is detectable",
		"bzip2 has no Go writer: thorough tier only (Python bz2); single-block streams with at least one byte",
		"wav files from Python's wave module are kept to even data sizes (it writes no RIFF pad byte, which is not conforming)",
	}
	run.MinDistinct = 20
	thorough := run.Thorough()

	var jobs []c15Job
	const per = 8
	nIntact := run.Pick(320, 4000) // per format
	nSmall := map[string]int{"gzip": run.Pick(90, 400), "zip": run.Pick(90, 400), "tar": run.Pick(40, 60), "png": run.Pick(80, 300), "bzip2": run.Pick(0, 200)}
	if sc, err := strconv.Atoi(os.Getenv("C15_SCALE")); err == nil && sc > 0 {
		// diagnostics: C15_SCALE=5 runs 5 % of the tier's volume (the evidence shows the smaller counts)
		nIntact = max(8, nIntact*sc/100)
		for k, v := range nSmall {
			nSmall[k] = (v*sc + 99) / 100
		}
	}
	for _, name := range c15Order {
		ft := c15Formats[name]
		if ft.gen != nil {
			for k := 0; k < nIntact; k += per {
				jobs = append(jobs, c15Job{format: name, first: uint64(k), n: min(per, nIntact-k)})
			}
			for k := 0; k < nSmall[name]; k++ {
				// one file per job: a corruption sweep is ~200 (thorough: thousands of) decodes
				jobs = append(jobs, c15Job{format: name, first: uint64(k), n: 1, small: true})
			}
		}
		if thorough && ft.genPy != nil {
			n := nIntact / 2
			for k := 0; k < n; k += per {
				jobs = append(jobs, c15Job{format: name, first: uint64(k), n: min(per, n-k), py: true})
			}
			ns := nSmall[name] / 2
			if ft.gen == nil {
				ns = nSmall[name]
			}
			for k := 0; k < ns; k++ {
				jobs = append(jobs, c15Job{format: name, first: uint64(k), n: 1, small: true, py: true})
			}
		}
	}
	// interleave formats so that all workers stay busy until the end
	sh := gen.New(run.Seed).Fork(0x15)
	gen.Shuffle(sh, jobs)
	// long jobs (corruption sweeps) first
	sort.SliceStable(jobs, func(i, j int) bool { return jobs[i].small && !jobs[j].small })

	if len(args) >= 2 && args[0] == "--replay" {
		c15Replay(args[1])
		return
	}

	timing := os.Getenv("C15_TIMING") != "" // diagnostics only, decides nothing
	if only := os.Getenv("C15_ONLY"); only != "" {
		// diagnostics: C15_ONLY=tar:small / gzip:intact restricts the job list (evidence then shows the smaller counts)
		var keep []c15Job
		for _, j := range jobs {
			kind := "intact"
			if j.small {
				kind = "small"
			}
			if only == j.format+":"+kind || only == j.format {
				keep = append(keep, j)
			}
		}
		jobs = keep
	}
	if pf := os.Getenv("C15_CPUPROFILE"); pf != "" {
		fh, err := os.Create(pf)
		if err == nil {
			_ = pprof.StartCPUProfile(fh)
			defer pprof.StopCPUProfile()
		}
	}
	ch := make(chan c15Job, 64)
	var wg sync.WaitGroup
	workers := runtime.NumCPU()
	for w := 0; w < workers; w++ {
		wg.Add(1)
		go func() {
			defer wg.Done()
			c := &c15Ctx{run: run, s: fqx.NewSession()}
			defer c.s.Close()
			if thorough {
				py, err := c15StartPy()
				if err != nil {
					fmt.Fprintf(os.Stderr, "C15: python helper not available: %v\n", err)
					run.Inconclusive("python-helper-unavailable")
				} else {
					c.py = py
					defer py.close()
				}
			}
			for job := range ch {
				if job.py && c.py == nil {
					run.Inconclusive("python-job-skipped")
					continue
				}
				t0 := time.Now()
				c.runJob(job)
				if timing {
					fmt.Fprintf(os.Stderr, "C15 timing %s small=%v py=%v first=%d: %v\n", job.format, job.small, job.py, job.first, time.Since(t0))
				}
			}
		}()
	}
	for _, j := range jobs {
		ch <- j
	}
	close(ch)
	wg.Wait()
	pprof.StopCPUProfile()
	run.Finish()
}

// c15Replay decodes the file stored in a replay document (files up to 4 KiB are stored as hex; larger ones are a
// pure function of seed, tier, format, writer and case id) with the corruption applied, and prints fq's report.
func c15Replay(path string) {
	b, err := os.ReadFile(path)
	if err != nil {
		fmt.Println("replay:", err)
		os.Exit(2)
	}
	var doc struct {
		Signature string `json:"signature"`
		Case      struct {
			Format  string `json:"format"`
			FileHex string `json:"file_hex"`
			Offset  *int   `json:"offset"`
			Xor     int    `json:"xor"`
		} `json:"case"`
	}
	if err := json.Unmarshal(b, &doc); err != nil || doc.Case.FileHex == "" {
		fmt.Println("replay: no file_hex in the document (large file): re-run the tier with the same VERIF_SEED", err)
		os.Exit(2)
	}
	data, _ := hex.DecodeString(doc.Case.FileHex)
	if doc.Case.Offset != nil {
		data[*doc.Case.Offset] ^= byte(doc.Case.Xor)
	}
	ft := c15Formats[doc.Case.Format]
	if ft == nil {
		fmt.Println("replay: unknown format", doc.Case.Format)
		os.Exit(2)
	}
	c := &c15Ctx{s: fqx.NewSession()}
	defer c.s.Close()
	reps, err := c.evalFiles(ft, [][]byte{data}, true)
	fmt.Println("signature:", doc.Signature)
	if err != nil {
		fmt.Println("evaluation failed:", err)
		os.Exit(1)
	}
	out, _ := json.MarshalIndent(reps[0], "", " ")
	fmt.Println(string(out))
}
