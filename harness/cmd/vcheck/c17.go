package main

// C17 — command line contract: exit status, independent inputs, jq-compatible modes.
// Every case is a command line run fully in-process (interp.Main over a virtual OS) and judged by
//  A. the reference model of the documented contract (c17model.go): failure classes => exit status,
//     nothing processed after an argument or compile error, one stderr line per failing input;
//  B. the independence relation: stdout over [f1..fk] = concatenation of the runs over each good fi alone
//     (slurping modes: = the run over the good inputs only), failure classes are the union;
//  C. vanilla gojq fed as jq's manual prescribes, for every case whose inputs are JSON (or text with -R).

import (
	"context"
	"encoding/json"
	"fmt"
	"os"
	"path"
	"regexp"
	"runtime"
	"strconv"
	"strings"
	"sync"
	"time"

	"verif/ev"
	"verif/fqx"
	"verif/gen"
	"verif/vos"
)

func init() { register("C17", c17Main) }

type c17Res struct {
	vos.Result
	panicked *fqx.PanicInfo
	timeout  bool
}

func c17Run(argv []string, fs *c17FS) c17Res {
	o := vos.New(argv...)
	for k, v := range fs.files {
		o.Files[path.Clean(k)] = v
	}
	for k := range fs.dirs {
		o.Dirs[path.Clean(k)] = true
	}
	o.StdinData = fs.stdin
	// watchdog only: a run takes ~40 ms; expiry is reported as inconclusive, never as a verdict
	ctx, cancel := context.WithTimeout(context.Background(), 120*time.Second)
	defer cancel()
	var r c17Res
	r.panicked = fqx.Guard(func() { r.Result = o.RunMain(ctx, fqx.Registry()) })
	if ctx.Err() != nil {
		r.timeout = true
	}
	return r
}

var c17FrameRe = regexp.MustCompile(`(?m)^(github\.com/wader/(?:fq|gojq)[^\s(]*)`)

func c17PanicSite(pi *fqx.PanicInfo) string {
	st := pi.Stack
	if k := strings.Index(st, "panic("); k >= 0 {
		st = st[k:]
	}
	if m := c17FrameRe.FindStringSubmatch(st); m != nil {
		return m[1]
	}
	return "unknown"
}

func c17Lines(b []byte) []string {
	s := strings.TrimSuffix(string(b), "\n")
	if s == "" {
		return nil
	}
	return strings.Split(s, "\n")
}

func c17Combine(failures []c17Failure, rest int) int {
	e := 0
	for _, f := range failures {
		if f.class == 2 {
			return 2
		}
		e = 4
	}
	if e == 0 {
		return rest
	}
	return e
}

func c17Scenario(p *c17Pred, s *c17Spec) string {
	var seq []string
	for _, st := range p.statuses {
		if len(seq) == 0 || seq[len(seq)-1] != st {
			seq = append(seq, st)
		}
	}
	if len(seq) == 0 {
		seq = []string{"no-input-opened"}
	}
	return c17SpecClass(p.spec, p.rawIn) + "-" + strings.Join(seq, "-then-") + ":" + p.jqFlags + ":" + s.progKind
}

// one signature per known departure, whatever check (exit, stdout, stderr) shows it
var c17TraitSig = map[string]string{
	"rawfile-jq-spelling":         "jqmode:--rawfile:not-accepted",
	"pairs-with-eq-form":          "args:two-value-flag-with-eq-form:value-silently-dropped",
	"error-value-not-a-string":    "independence:runtime-error-value-not-a-string:stops-remaining-inputs",
	"ARGS-named":                  "jqmode:$ARGS.named:not-defined",
	"slurp-under-null-input":      "jqmode:-ns:input-yields-unslurped-inputs",
	"raw-input-empty":             "jqmode:-R:empty-input-yields-one-empty-line",
	"raw-output0-string-with-NUL": "jqmode:--raw-output0:string-with-NUL-not-refused",
}

// "rawfile-jq-spelling" and "error-value-not-a-string" were repaired in /repo (fix: commits e012499b, aba6172b):
// they no longer rename a disagreement, so a regression shows under its plain signature.
var c17TraitOrder = []string{"pairs-with-eq-form", "ARGS-named", "slurp-under-null-input", "raw-input-empty", "raw-output0-string-with-NUL"}

type c17Ctx struct {
	run  *ev.Run
	id   int
	spec *c17Spec
	argv []string
}

func (c *c17Ctx) violation(sig, format string, a ...any) {
	if strings.HasPrefix(sig, "panic:") {
		// never renamed
	} else if len(c.spec.traits) > 0 {
		// the case exercises a point where fq is known to leave jq's documented behaviour: name it
		// several traits: the one that bites first (argument parsing, compilation, input loop, output)
		for _, t := range c17TraitOrder {
			if c.spec.hasTrait(t) {
				sig = c17TraitSig[t]
				break
			}
		}
	}
	files := map[string]string{}
	fs := c.spec.fs(c.spec.ins)
	for k, v := range fs.files {
		files[k] = string(v)
	}
	var dirs []string
	for k := range fs.dirs {
		dirs = append(dirs, k)
	}
	desc := fmt.Sprintf("case %d: fq %q\n  files: %q dirs: %q stdin: %q\n  ", c.id, c.argv, files, dirs, fs.stdin) + fmt.Sprintf(format, a...)
	c.run.Violation(sig, desc, map[string]any{"case": c.id, "seed": c.run.Seed, "argv": c.argv, "files": files, "dirs": dirs, "stdin": string(fs.stdin)})
}

func c17Q(b []byte) string {
	s := string(b)
	if len(s) > 700 {
		s = s[:700] + "…"
	}
	return strconv.Quote(s)
}

// c17Case generates, runs and judges case id.
func c17Case(run *ev.Run, id int, verbose bool) {
	rng := gen.New(run.Seed).Fork(uint64(id))
	spec := c17Gen(rng)
	argv := spec.argv(spec.ins)
	fs := spec.fs(spec.ins)
	c := &c17Ctx{run: run, id: id, spec: spec, argv: argv}
	var pred *c17Pred
	if pi := fqx.Guard(func() { pred = c17Predict(argv, fs) }); pi != nil {
		panic(fmt.Sprintf("c17: model panicked on %q: %v\n%s", argv, pi.Value, pi.Stack))
	}
	if pred.skip != "" {
		run.Count("generated-outside-model:"+pred.skip, 1)
		return
	}
	// traits: points where the case steps on a known departure of fq from jq's documented behaviour; they
	// only NAME the signature of a disagreement (see violation), they never relax a check
	if pred.nullIn && pred.slurp && !pred.rawIn && c17UsesInput.MatchString(pred.expr) {
		spec.trait("slurp-under-null-input")
	}
	if spec.progKind == "rtfail-object" && (pred.opaque != "" || pred.rtErrors > 0) {
		// jq reports a non-string error value ("(not a string)") and goes on with the next input
		spec.trait("error-value-not-a-string")
	}
	if pred.rawEmpty {
		spec.trait("raw-input-empty")
	}
	if pred.nulRefused {
		spec.trait("raw-output0-string-with-NUL")
	}
	res := c17Run(argv, fs)
	if verbose {
		fmt.Printf("case %d: fq %q\n  kinds=%s prog=%s inject=%s traits=%v\n  files=%q\n  stdin=%q\n", id, argv, spec.kinds(), spec.progKind, spec.inject, spec.traits, fs.files, fs.stdin)
		fmt.Printf("  model: argErr=%q help=%v version=%v compile=%v expr=%q files=%q spec=%s statuses=%v failures=%v opaque=%q rt=%d exit=%d\n  model stdout=%s\n",
			pred.argErr, pred.help, pred.version, pred.compile, pred.expr, pred.files, pred.spec, pred.statuses, pred.failures, pred.opaque, pred.rtErrors, pred.exit, c17Q([]byte(pred.stdout)))
		fmt.Printf("  fq: exit=%d\n  stdout=%s\n  stderr=%s\n", res.Exit, c17Q(res.Stdout), c17Q(res.Stderr))
	}
	run.Eval(1)
	run.Count("cmdlines", 1)
	for _, f := range pred.parsed.flagsUsed {
		run.Count("flag:"+f, 1)
	}
	if spec.dd {
		run.Count("flag:--", 1)
	}
	for _, in := range spec.ins {
		run.Count("input:"+string(in.kind), 1)
	}
	if len(spec.ins) == 0 {
		run.Count("input:stdin-"+string(spec.stdinK), 1)
	}
	run.Count("program:"+spec.progKind, 1)
	if spec.inject != "" {
		run.Count("inject:"+spec.inject, 1)
	}
	if res.timeout {
		fmt.Printf("C17 watchdog: case %d fq %q did not finish in 120 s\n", id, argv)
		run.Inconclusive("watchdog")
		return
	}
	if res.panicked != nil {
		c.violation("panic:"+c17PanicSite(res.panicked), "Go panic: %v\n%s", res.panicked.Value, res.panicked.Stack)
		return
	}
	run.Count(fmt.Sprintf("exit-observed:%d", res.Exit), 1)
	run.Distinct(c17SortedFlags(&pred.parsed) + "|" + spec.kinds() + "|" + spec.progKind)
	if id < 6 {
		run.Sample(map[string]any{"case": id, "argv": argv, "inputs": spec.kinds(), "program": spec.progKind, "exit": res.Exit, "stdout": c17Q(res.Stdout), "stderr": c17Q(res.Stderr)})
	}

	// ---- early exits: nothing is processed
	switch {
	case pred.argErr != "":
		run.Count("class:argument-error:"+pred.argErr, 1)
		if res.Exit != 2 {
			c.violation(fmt.Sprintf("exit:want2-got%d:argument-error:%s", res.Exit, pred.argErr), "argument error (%s) must exit 2: exit=%d stdout=%s stderr=%s", pred.argErr, res.Exit, c17Q(res.Stdout), c17Q(res.Stderr))
			return
		}
		if len(res.Stdout) != 0 {
			c.violation("noinput:argument-error:stdout-not-empty", "argument error (%s) but stdout=%s", pred.argErr, c17Q(res.Stdout))
		}
		if l := c17Lines(res.Stderr); len(l) != 1 || !strings.HasPrefix(l[0], "error: ") {
			c.violation("stderr:argument-error:not-one-error-line", "argument error (%s): stderr=%s", pred.argErr, c17Q(res.Stderr))
		}
		return
	case pred.help || pred.version:
		run.Count("class:help-or-version", 1)
		if res.Exit != 0 || len(res.Stdout) == 0 || len(res.Stderr) != 0 {
			c.violation(fmt.Sprintf("exit:want0-got%d:help-or-version", res.Exit), "help/version: exit=%d stdout=%s stderr=%s", res.Exit, c17Q(res.Stdout), c17Q(res.Stderr))
		}
		return
	case pred.compile:
		run.Count("class:compile-error", 1)
		if res.Exit != 3 {
			c.violation(fmt.Sprintf("exit:want3-got%d:compile-error", res.Exit), "program %q does not compile: exit=%d stdout=%s stderr=%s", pred.expr, res.Exit, c17Q(res.Stdout), c17Q(res.Stderr))
			return
		}
		if len(res.Stdout) != 0 {
			c.violation("noinput:compile-error:stdout-not-empty", "compile error but stdout=%s", c17Q(res.Stdout))
		}
		if len(res.Stderr) == 0 || strings.Contains(string(res.Stderr), "no such file") || strings.Contains(string(res.Stderr), "failed to decode") {
			c.violation("noinput:compile-error:inputs-touched", "compile error: stderr=%s", c17Q(res.Stderr))
		}
		return
	}

	// ---- processed command lines
	classes := map[int]bool{}
	for _, f := range pred.failures {
		classes[f.class] = true
		run.Count("failing-input:"+f.what, 1)
	}
	scen := c17Scenario(pred, spec)
	full := pred.opaque == ""
	errLines := c17Lines(res.Stderr)

	if full {
		if pred.rtErrors > 0 {
			classes[5] = true
		}
		run.Count("class-combination:"+c17ClassKey(classes), 1)
		if res.Exit != pred.exit {
			c.violation(fmt.Sprintf("exit:want%d-got%d:%s", pred.exit, res.Exit, scen), "model: failing inputs %v, %d runtime error(s) => exit %d; fq: exit=%d stdout=%s stderr=%s", pred.failures, pred.rtErrors, pred.exit, res.Exit, c17Q(res.Stdout), c17Q(res.Stderr))
		}
		if !pred.noStdout {
			run.Count("jqmode-compared:"+pred.jqFlags, 1)
			if string(res.Stdout) != pred.stdout {
				// independence or mode? re-run over the good inputs only
				kind := "jqmode:" + pred.jqFlags + ":stdout-differs"
				if len(pred.failures) > 0 {
					var good []c17In
					for _, in := range spec.ins {
						if !c17Failing(pred, in.name) {
							good = append(good, in)
						}
					}
					if len(good) > 0 {
						r2 := c17Run(spec.argv(good), spec.fs(good))
						if p2 := c17Predict(spec.argv(good), spec.fs(good)); r2.panicked == nil && string(r2.Stdout) == p2.stdout {
							kind = "independence:" + pred.jqFlags + ":output-differs"
						}
					}
				}
				c.violation(kind+":"+spec.progKind, "stdout differs from jq's (scenario %s)\n  want %s\n  got  %s\n  fq exit=%d stderr=%s", scen, c17Q([]byte(pred.stdout)), c17Q(res.Stdout), res.Exit, c17Q(res.Stderr))
			}
		}
		if want := len(pred.failures) + pred.rtErrors; len(errLines) != want {
			c.violation("stderr:line-count:"+pred.jqFlags+":"+spec.progKind, "stderr must hold one line per failing input (%d) and per runtime error (%d); got %d: %s", len(pred.failures), pred.rtErrors, len(errLines), c17Q(res.Stderr))
		}
	} else {
		run.Count("opaque:"+pred.opaque, 1)
		if pred.exit != 0 && res.Exit != pred.exit {
			c.violation(fmt.Sprintf("exit:want%d-got%d:%s", pred.exit, res.Exit, scen), "model: failing inputs %v => exit %d; fq: exit=%d stdout=%s stderr=%s", pred.failures, pred.exit, res.Exit, c17Q(res.Stdout), c17Q(res.Stderr))
		}
		if pred.exit == 0 && res.Exit != 0 && res.Exit != 5 {
			c.violation(fmt.Sprintf("exit:want0or5-got%d:%s", res.Exit, scen), "no failing input, fq: exit=%d stdout=%s stderr=%s", res.Exit, c17Q(res.Stdout), c17Q(res.Stderr))
		}
	}
	// one stderr line naming each failing input
	perInput := !pred.nullIn && !pred.slurp && !pred.rawIn
	for _, f := range pred.failures {
		n, rt := 0, 0
		for _, l := range errLines {
			if strings.HasPrefix(l, "error: "+f.name+": ") {
				n++
				// (": false" / ": null": the error(false) / error(null) programs; missing here at first, a harness
				// flaw the thorough tier found in slurp mode, where the runtime error carries the last file name)
				if strings.HasSuffix(l, ": break") || strings.Contains(l, "c17rt") || strings.HasSuffix(l, ": false") || strings.HasSuffix(l, ": null") {
					rt++
				}
			}
		}
		if n-rt != 1 {
			c.violation(fmt.Sprintf("stderr:failing-input:%s:want1-got%d", f.what, n-rt), "failing input %s (%s) must yield exactly one stderr line naming it; stderr=%s", f.name, f.what, c17Q(res.Stderr))
		} else if perInput && rt > 0 {
			// the line of a runtime error that happened on ANOTHER input carries the name of the failing one
			c.violation("stderr:runtime-error-line-names-failing-input:"+f.what, "failing input %s (%s) was never given to the program, yet %d runtime error line(s) name it; stderr=%s", f.name, f.what, rt, c17Q(res.Stderr))
		}
	}

	// ---- B: independence
	if len(spec.ins) < 2 && full {
		return
	}
	var good []c17In
	for i, in := range spec.ins {
		if i < len(pred.statuses) && pred.statuses[i] == "good" {
			good = append(good, in)
		}
	}
	if len(good) == 0 || pred.nullIn && len(good) == len(spec.ins) {
		run.Count("independence:not-applicable", 1)
		return
	}
	if perInput && c17UsesInput.MatchString(pred.expr) {
		run.Count("independence:not-applicable", 1) // the program itself pairs inputs up
		return
	}
	if perInput {
		var cat []byte
		rest, lines := 0, 0
		for _, in := range good {
			one := []c17In{in}
			r1 := c17Run(spec.argv(one), spec.fs(one))
			if r1.panicked != nil || r1.timeout {
				return
			}
			if r1.Exit == 5 {
				rest = 5
				classes[5] = true
			} else if r1.Exit != 0 {
				c.violation(fmt.Sprintf("independence:single-good-input:exit%d", r1.Exit), "input %s alone: exit=%d stderr=%s", in.name, r1.Exit, c17Q(r1.Stderr))
			}
			cat = append(cat, r1.Stdout...)
			lines += len(c17Lines(r1.Stderr))
		}
		run.Count("independence-compared:per-input", 1)
		if string(cat) != string(res.Stdout) && c17StripNames(cat, good) == c17StripNames(res.Stdout, good) {
			c.violation("independence:per-input:display-after-unreadable-input:file-name-lost", "the decode tree of an input that follows an unreadable one is displayed without its file name (scenario %s)\n  want %s\n  got  %s", scen, c17Q(cat), c17Q(res.Stdout))
		} else if string(cat) != string(res.Stdout) {
			c.violation("independence:per-input:output-differs:"+spec.progKind, "stdout over all inputs differs from the concatenation of the runs over each good input (scenario %s)\n  want %s\n  got  %s", scen, c17Q(cat), c17Q(res.Stdout))
		}
		if want := c17Combine(pred.failures, rest); res.Exit != want {
			c.violation(fmt.Sprintf("independence:exit:want%d-got%d:%s", want, res.Exit, scen), "failing inputs %v, single runs give %d => exit %d; fq exit=%d", pred.failures, rest, want, res.Exit)
		}
		if want := lines + len(pred.failures); len(errLines) != want {
			c.violation("independence:per-input:stderr-line-count", "stderr has %d lines, single runs %d + failing inputs %d: %s", len(errLines), lines, len(pred.failures), c17Q(res.Stderr))
		}
	} else {
		if len(good) == len(spec.ins) {
			return
		}
		r1 := c17Run(spec.argv(good), spec.fs(good))
		if r1.panicked != nil || r1.timeout {
			return
		}
		mode := pred.jqFlags
		run.Count("independence-compared:"+mode, 1)
		if r1.Exit != 0 && r1.Exit != 5 {
			c.violation(fmt.Sprintf("independence:good-inputs-only:exit%d", r1.Exit), "good inputs only: exit=%d stderr=%s", r1.Exit, c17Q(r1.Stderr))
		}
		if string(r1.Stdout) != string(res.Stdout) {
			sig := "independence:" + mode + ":output-differs:" + spec.progKind
			if spec.progKind == "ok-fq-input_filename" {
				sig = "independence:input_filename:names-input-that-failed-to-decode"
			} else if c17StripNames(r1.Stdout, good) == c17StripNames(res.Stdout, good) {
				sig = "independence:per-input:display-after-unreadable-input:file-name-lost"
			}
			c.violation(sig, "stdout with failing inputs interleaved differs from the run over the good inputs only (scenario %s)\n  want %s\n  got  %s", scen, c17Q(r1.Stdout), c17Q(res.Stdout))
		}
		// with -n the failing inputs only count when the program reaches them: the model's failures say so
		if want := c17Combine(pred.failures, r1.Exit); res.Exit != want {
			c.violation(fmt.Sprintf("independence:exit:want%d-got%d:%s", want, res.Exit, scen), "failing inputs %v, good-only run gives %d => exit %d; fq exit=%d", pred.failures, r1.Exit, want, res.Exit)
		}
	}
	if !full {
		run.Count("class-combination:"+c17ClassKey(classes), 1)
	}
}

var c17UsesInput = regexp.MustCompile(`\binputs?\b`)

// c17StripNames removes the file name from the root line of a displayed decode tree (".{}: NAME (format)").
func c17StripNames(b []byte, ins []c17In) string {
	s := string(b)
	for _, in := range ins {
		s = strings.ReplaceAll(s, ": "+in.name+" (", ": (")
	}
	return s
}

func c17Failing(p *c17Pred, name string) bool {
	for _, f := range p.failures {
		if f.name == name {
			return true
		}
	}
	return false
}

func c17ClassKey(m map[int]bool) string {
	var s []string
	for _, k := range []int{2, 4, 5} {
		if m[k] {
			s = append(s, strconv.Itoa(k))
		}
	}
	if len(s) == 0 {
		return "none"
	}
	return strings.Join(s, "+")
}

// c17Preflight checks the generator's own assumptions about its file pools against fq once.
func c17Preflight(run *ev.Run) {
	for i, u := range c17Undecodable {
		fs := &c17FS{files: map[string][]byte{"u.bin": u}, dirs: map[string]bool{}}
		if r := c17Run([]string{".", "u.bin"}, fs); r.Exit != 4 {
			fmt.Printf("C17 preflight: undecodable pool entry %d (%q) gives exit %d under probe\n", i, u, r.Exit)
			run.Inconclusive("preflight-undecodable-pool")
		}
	}
	for i, b := range [][]byte{c17Gzip([]byte("hello")), c17Gzip([]byte("c17boom")), c17PNG(1, 1), c17PNG(2, 1)} {
		fs := &c17FS{files: map[string][]byte{"b.bin": b}, dirs: map[string]bool{}}
		if r := c17Run([]string{".", "b.bin"}, fs); r.Exit != 0 {
			fmt.Printf("C17 preflight: binary pool entry %d gives exit %d under probe: %s\n", i, r.Exit, r.Stderr)
			run.Inconclusive("preflight-binary-pool")
		}
	}
}

func c17Main(args []string) {
	run := ev.NewRun("C17")
	run.Rule = "PRNG-composed command lines from the documented flag table (short/long/alias spellings, combined short flags, --flag=value, flags before/between/after positionals, --, -f, named arguments, -o, -L) x 0..4 inputs each of {decodable JSON, decodable gzip/png, undecodable, missing, directory, text with -R} or stdin x programs {ok, fails at run time on inputs holding a marker, error value not a string, does not compile, empty} x injected argument errors (17 kinds); each run in-process with its own virtual OS and judged by the reference model (exit status, nothing processed after early errors, stderr lines), by vanilla gojq (stdout, whenever the inputs are JSON or -R text) and by the independence relation (single-input runs / good-inputs-only run). distinct = (sorted flag spellings, input-kind sequence, program kind)"
	run.Assumptions = []string{
		"explicit single format (-d json) never yields exit 4: the decode error is part of the printed tree (calibrated; documented in doc/usage.md 'decode file as mp4 and return a result even if there are some errors')",
		"-i/--repl, -j together with --raw-output0, duplicate names across --arg/--argjson, attached short values (-djson) and -o keys other than compact/bits_format are outside the model and not generated",
		"reference is github.com/wader/gojq used directly (fq's fork, without fq's interpreter layers); JSON inputs are written with sorted keys and plain numbers so that key order and number formatting (not CLI matters) cannot differ",
		"-h/-v are never combined with an injected argument error (the relative order of early exits is not documented)",
		"stdout after help/version is only required to be non-empty",
	}
	if len(args) >= 2 && args[0] == "--case" {
		for _, a := range args[1:] {
			id, _ := strconv.Atoi(a)
			c17Case(run, id, true)
		}
		run.FinishNoExit()
		return
	}
	if len(args) >= 2 && args[0] == "--replay" {
		c17Replay(args[1])
		return
	}
	c17Preflight(run)
	n := run.Pick(3000, 200000)
	ids := make(chan int, 256)
	var wg sync.WaitGroup
	for w := 0; w < runtime.NumCPU(); w++ {
		wg.Add(1)
		go func() {
			defer wg.Done()
			for id := range ids {
				c17Case(run, id, false)
			}
		}()
	}
	for id := 0; id < n; id++ {
		ids <- id
	}
	close(ids)
	wg.Wait()
	run.Finish()
}

// c17Replay re-runs the command line stored in a replay file and prints the model's view next to fq's.
func c17Replay(file string) {
	b, err := os.ReadFile(file)
	if err != nil {
		fmt.Println(err)
		os.Exit(2)
	}
	var doc struct {
		Case struct {
			Argv  []string          `json:"argv"`
			Files map[string]string `json:"files"`
			Dirs  []string          `json:"dirs"`
			Stdin string            `json:"stdin"`
		} `json:"case"`
	}
	if err := json.Unmarshal(b, &doc); err != nil {
		fmt.Println(err)
		os.Exit(2)
	}
	fs := &c17FS{files: map[string][]byte{}, dirs: map[string]bool{}, stdin: []byte(doc.Case.Stdin)}
	for k, v := range doc.Case.Files {
		fs.files[k] = []byte(v)
	}
	for _, d := range doc.Case.Dirs {
		fs.dirs[d] = true
	}
	pred := c17Predict(doc.Case.Argv, fs)
	res := c17Run(doc.Case.Argv, fs)
	fmt.Printf("fq %q\n  model: skip=%q argErr=%q help=%v version=%v compile=%v statuses=%v failures=%v opaque=%q runtime-errors=%d exit=%d\n  model stdout=%s\n",
		doc.Case.Argv, pred.skip, pred.argErr, pred.help, pred.version, pred.compile, pred.statuses, pred.failures, pred.opaque, pred.rtErrors, pred.exit, c17Q([]byte(pred.stdout)))
	if res.panicked != nil {
		fmt.Printf("  fq: PANIC %v\n%s\n", res.panicked.Value, res.panicked.Stack)
		os.Exit(1)
	}
	fmt.Printf("  fq: exit=%d\n  stdout=%s\n  stderr=%s\n", res.Exit, c17Q(res.Stdout), c17Q(res.Stderr))
}
