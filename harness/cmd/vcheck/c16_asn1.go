package main

// C16 ASN.1 BER/DER encoder. The contents octets of DER scalars come from encoding/asn1 (independent of
// fq); the BER variants (long-form and indefinite lengths, constructed strings, REAL, SET, high tag
// numbers) are hand-made from X.690 (07/2002 / 11/2008).

import (
	"encoding/asn1"
	"fmt"
	"math"
	"math/big"
	"strconv"
	"strings"
	"unicode/utf8"

	"verif/gen"
)

// c16DERContent strips the identifier and length octets of a single-byte-tag DER TLV.
func c16DERContent(der []byte) []byte {
	if der[1] < 0x80 {
		return der[2:]
	}
	n := int(der[1] & 0x7f)
	return der[2+n:]
}

func c16Must(b []byte, err error) []byte {
	if err != nil {
		panic(err)
	}
	return b
}

// sub is a child encoder sharing all choices; its bytes and nodes are spliced in after the header.
func (e *c16Enc) sub() *c16Enc {
	return &c16Enc{format: e.format, r: e.r, ban: e.ban, canon: e.canon, exotic: e.exotic, forms: e.forms}
}

func (e *c16Enc) splice(s *c16Enc) {
	off := len(e.buf)
	e.buf = append(e.buf, s.buf...)
	for _, n := range s.nodes {
		n.start += off
		n.end += off
		e.nodes = append(e.nodes, n)
	}
	if s.noValue {
		e.noValue = true
	}
}

// berIdent writes the identifier octets (X.690 8.1.2): class, P/C, tag number (high form from 31).
func (e *c16Enc) berIdent(class byte, constructed bool, tag uint64) {
	b := class << 6
	if constructed {
		b |= 0x20
	}
	if tag < 31 {
		e.b(b | byte(tag))
		return
	}
	e.b(b | 0x1f)
	var tmp []byte
	for t := tag; ; t >>= 7 {
		tmp = append([]byte{byte(t & 0x7f)}, tmp...)
		if t>>7 == 0 {
			break
		}
	}
	for i := range tmp {
		if i < len(tmp)-1 {
			tmp[i] |= 0x80
		}
	}
	e.b(tmp...)
}

// berLen writes the length octets (X.690 8.1.3) in a chosen form and reports whether it is indefinite.
func (e *c16Enc) berLen(path, dim string, n int, constructed bool) bool {
	var opts []string
	if n < 128 {
		opts = append(opts, "len/short")
	}
	if n < 1<<8 {
		opts = append(opts, "len/long1")
	}
	if n < 1<<16 {
		opts = append(opts, "len/long2")
	}
	if n < 1<<24 {
		opts = append(opts, "len/long3")
	}
	opts = append(opts, "len/long4", "len/long8")
	if constructed {
		opts = append(opts, "len/indefinite")
	}
	form := e.pick(path, dim, opts...)
	e.forms[form]++
	switch form {
	case "len/short":
		e.b(byte(n))
	case "len/indefinite":
		e.b(0x80)
		return true
	default:
		k := int(form[len(form)-1] - '0')
		e.b(0x80 | byte(k))
		e.be(k, uint64(n))
	}
	return false
}

// berTLV writes one complete encoding with universal class.
func (e *c16Enc) berTLV(path, dim string, tag uint64, constructed bool, content []byte) {
	e.berIdent(0, constructed, tag)
	if e.berLen(path, dim+"len", len(content), constructed) {
		e.b(content...)
		e.b(0, 0)
		return
	}
	e.b(content...)
}

func c16IsPrintableString(s string) bool {
	for i := 0; i < len(s); i++ {
		c := s[i]
		if !(c >= 'a' && c <= 'z' || c >= 'A' && c <= 'Z' || c >= '0' && c <= '9' || strings.IndexByte(" '()+,-./:=?", c) >= 0) {
			return false
		}
	}
	return true
}

func c16All(s string, f func(c byte) bool) bool {
	for i := 0; i < len(s); i++ {
		if !f(s[i]) {
			return false
		}
	}
	return true
}

var c16StrTags = map[string]uint64{
	"utf8_string": 0x0c, "numeric_string": 0x12, "printable_string": 0x13, "teletex_string": 0x14, "videotex_string": 0x15,
	"ia5_string": 0x16, "visible_string": 0x1a, "general_string": 0x1b,
}

// c16RealContent returns the contents octets of a REAL (X.690 8.5) in the chosen form.
func (e *c16Enc) realContent(path string, f float64) ([]byte, string) {
	switch {
	case math.IsInf(f, 1):
		return []byte{0x40}, "real/plus_infinity"
	case math.IsInf(f, -1):
		return []byte{0x41}, "real/minus_infinity"
	case math.IsNaN(f):
		return []byte{0x42}, "real/nan"
	case f == 0 && math.Signbit(f):
		return []byte{0x43}, "real/minus_zero"
	case f == 0:
		return nil, "real/zero" // 8.5.2: plus zero has no contents octets
	}
	opts := []string{"real/base2", "real/base8", "real/base16", "real/nr3"}
	if f == math.Trunc(f) && math.Abs(f) < 1e18 {
		opts = append(opts, "real/nr1")
	}
	if math.Abs(f) < 1e15 && math.Abs(f) > 1e-9 {
		opts = append(opts, "real/nr2")
	}
	form := e.pick(path, "real", opts...)
	rr := e.rng(path, "realdetail")
	switch form {
	case "real/nr1":
		return append([]byte{0x01}, strconv.FormatFloat(f, 'f', 0, 64)...), form
	case "real/nr2":
		s := strconv.FormatFloat(f, 'f', -1, 64)
		if !strings.Contains(s, ".") {
			s += "."
		}
		return append([]byte{0x02}, s...), form
	case "real/nr3":
		s := strconv.FormatFloat(f, 'E', -1, 64)
		if !strings.Contains(s[:strings.IndexByte(s, 'E')], ".") {
			s = strings.Replace(s, "E", ".E", 1)
		}
		return append([]byte{0x03}, s...), form
	}
	// binary encoding: value = S * N * 2^F * B^E
	frac, exp := math.Frexp(math.Abs(f))
	m := uint64(math.Ldexp(frac, 53)) // exact: 53 bit integer
	ex := exp - 53
	// DER wants an odd mantissa; BER allows any
	if e.pick(path, "realmant", "mantissa/odd", "mantissa/unnormalised") == "mantissa/odd" {
		for m&1 == 0 {
			m >>= 1
			ex++
		}
	} else {
		e.forms["mantissa/unnormalised"]++
		for m&1 == 0 && rr.Intn(4) > 0 {
			m >>= 1
			ex++
		}
	}
	first := byte(0x80)
	if f < 0 {
		first |= 0x40
	}
	mod := func(a, b int) int { return ((a % b) + b) % b }
	var F, E int
	switch form {
	case "real/base2":
		if sc := e.pick(path, "realscale", "scale/0", "scale/1", "scale/2", "scale/3"); sc != "scale/0" {
			e.forms[sc]++
			F = int(sc[6] - '0')
		}
		E = ex - F
	case "real/base8":
		first |= 0x10
		F = mod(ex, 3)
		E = (ex - F) / 3
	case "real/base16":
		first |= 0x20
		F = mod(ex, 4)
		E = (ex - F) / 4
	}
	first |= byte(F) << 2
	// exponent octets: two's complement in 1, 2, 3 octets or long form
	var eopts []string
	if E >= -128 && E <= 127 {
		eopts = append(eopts, "exp1")
	}
	if E >= -32768 && E <= 32767 {
		eopts = append(eopts, "exp2")
	}
	eopts = append(eopts, "exp3", "expN")
	ef := e.pick(path, "realexp", eopts...)
	var out []byte
	switch ef {
	case "exp1":
		out = []byte{first, byte(E)}
	case "exp2":
		out = []byte{first | 1, byte(E >> 8), byte(E)}
	case "exp3":
		out = []byte{first | 2, byte(E >> 16), byte(E >> 8), byte(E)}
	default:
		// 8.5.7.4 d): next octet gives the number of exponent octets; minimal when more than one
		k := 1
		if E < -128 || E > 127 {
			k = 2
		}
		out = []byte{first | 3, byte(k)}
		for i := k - 1; i >= 0; i-- {
			out = append(out, byte(E>>(8*uint(i))))
		}
	}
	out = append(out, new(big.Int).SetUint64(m).Bytes()...)
	return out, form
}

func (e *c16Enc) asn1(v *c16V, path string) { e.asn1w(v, path, true) }

func (e *c16Enc) asn1w(v *c16V, path string, mayWrap bool) {
	if mayWrap && e.exotic && e.chance(path, "wrap", 1, 5) {
		// explicit tagging: [class n] constructed wrapper, tag numbers from 31 use the high form
		e.noValue = true
		rr := e.rng(path, "wrapdetail")
		class := byte(1 + rr.Intn(3))
		tag := gen.Pick(rr, []uint64{0, 1, 5, 30, 31, 32, 127, 128, 255, 16383, 16384, 1 << 32})
		s := e.sub()
		s.asn1w(v, path, false) // the same choices as without the wrapper
		e.forms[fmt.Sprintf("class%d-explicit", class)]++
		e.berIdent(class, true, tag)
		if e.berLen(path, "wraplen", len(s.buf), true) {
			e.splice(s)
			e.b(0, 0)
		} else {
			e.splice(s)
		}
		return
	}
	ni := e.begin(path, v)
	var form string
	switch v.K {
	case c16KNull:
		form = "null"
		e.berTLV(path, "", 5, false, nil)
	case c16KBool:
		// 8.2: false is 0, true any non-zero octet; DER: 0xff
		c := c16DERContent(c16Must(asn1.Marshal(v.B)))
		form = "boolean"
		if v.B && e.pick(path, "bool", "boolean", "boolean/ber-nonzero") == "boolean/ber-nonzero" {
			form = "boolean/ber-nonzero"
			c = []byte{byte(1 + e.rng(path, "boolv").Intn(254))}
		}
		e.berTLV(path, "", 1, false, c)
	case c16KInt:
		form = "integer"
		c := c16DERContent(c16Must(asn1.Marshal(v.I)))
		e.berTLV(path, "", 2, false, c)
		if e.exotic && e.pick(path, "enum", "integer", "enumerated") == "enumerated" {
			e.noValue = true
			form = "enumerated"
			e.buf[e.nodes[ni].start] = 0x0a
		}
	case c16KFloat:
		c, f := e.realContent(path, v.F)
		form = f
		e.berTLV(path, "", 9, false, c)
	case c16KOID:
		form = "object_identifier"
		oid := make(asn1.ObjectIdentifier, len(v.OID))
		for i, x := range v.OID {
			oid[i] = int(x)
		}
		c := c16DERContent(c16Must(asn1.Marshal(oid)))
		e.berTLV(path, "", 6, false, c)
	case c16KStr, c16KBytes:
		var tagName string
		var content []byte
		if v.K == c16KBytes {
			tagName = "octet_string"
			content = c16DERContent(c16Must(asn1.Marshal(v.By)))
			if e.exotic && e.pick(path, "bits", "octet_string", "bit_string") == "bit_string" {
				e.noValue = true
				tagName = "bit_string"
				unused := 0
				if len(v.By) > 0 {
					unused = e.rng(path, "unused").Intn(8)
				}
				bs := asn1.BitString{Bytes: append([]byte(nil), v.By...), BitLength: len(v.By)*8 - unused}
				if unused > 0 {
					bs.Bytes[len(bs.Bytes)-1] &= 0xff << uint(unused)
				}
				content = c16DERContent(c16Must(asn1.Marshal(bs)))
			}
		} else {
			s := v.S
			opts := []string{"utf8_string"}
			if c16IsPrintableString(s) {
				opts = append(opts, "printable_string")
			}
			if c16All(s, func(c byte) bool { return c < 0x80 }) {
				opts = append(opts, "ia5_string", "general_string", "teletex_string", "videotex_string")
			}
			if c16All(s, func(c byte) bool { return c >= 0x20 && c < 0x7f }) {
				opts = append(opts, "visible_string")
			}
			if c16All(s, func(c byte) bool { return c == ' ' || c >= '0' && c <= '9' }) {
				opts = append(opts, "numeric_string", "numeric_string", "numeric_string") // rare: weighted
			}
			tagName = e.pick(path, "strtag", opts...)
			switch tagName {
			case "utf8_string":
				content = c16DERContent(c16Must(asn1.MarshalWithParams(s, "utf8")))
			case "printable_string":
				content = c16DERContent(c16Must(asn1.MarshalWithParams(s, "printable")))
			case "ia5_string":
				content = c16DERContent(c16Must(asn1.MarshalWithParams(s, "ia5")))
			case "numeric_string":
				content = c16DERContent(c16Must(asn1.MarshalWithParams(s, "numeric")))
			default:
				content = []byte(s)
			}
			if string(content) != s {
				panic("asn1: string content")
			}
		}
		tag := uint64(4)
		if tagName == "bit_string" {
			tag = 3
		} else if t, ok := c16StrTags[tagName]; ok {
			tag = t
		}
		// 8.7.3 / 8.23.6: primitive, or constructed from segments. X.690's own example (8.23.6: VisibleString
		// "Jones" = 3A 09 04 03 4A6F6E 04 02 6573) uses OCTET STRING segments for restricted character strings;
		// the "Layman's guide" style repeats the string's own tag. Both are emitted.
		copts := []string{tagName, tagName + "/constructed"}
		if v.K == c16KStr {
			copts = append(copts, tagName+"/constructed-sametag")
		}
		if tagName == "bit_string" {
			copts = copts[:1]
		}
		form = e.pick(path, "cons", copts...)
		if form == tagName {
			e.berTLV(path, "", tag, false, content)
			break
		}
		segTag := uint64(4)
		text := false
		if strings.HasSuffix(form, "-sametag") {
			segTag, text = tag, true
		}
		s := e.sub()
		rr := e.rng(path, "segments")
		segs := c16Split(rr, content, text)
		if e.pick(path, "emptyseg", "segments/non-empty", "segments/with-empty") == "segments/non-empty" {
			// zero-length segments are legal; they are a wire form of their own so that they can be told apart
			kept := segs[:0]
			for _, ch := range segs {
				if len(ch) > 0 {
					kept = append(kept, ch)
				}
			}
			segs = kept
		} else {
			for _, ch := range segs {
				if len(ch) == 0 {
					e.forms["segments/with-empty"]++
					break
				}
			}
		}
		for i, ch := range segs {
			sp := fmt.Sprintf("%s\x00seg%d", path, i)
			if v.K == c16KBytes && len(ch) > 1 && rr.Intn(5) == 0 {
				// a segment may itself be constructed (8.7.3.2 note)
				in := e.sub()
				in.berTLV(sp+"a", "", 4, false, ch[:1])
				in.berTLV(sp+"b", "", 4, false, ch[1:])
				s.berTLV(sp, "", 4, true, in.buf)
				continue
			}
			s.berTLV(sp, "", segTag, false, ch)
		}
		e.berTLV(path, "", tag, true, s.buf)
	case c16KArr:
		form = e.pick(path, "seq", "sequence", "set")
		s := e.sub()
		for i := range v.A {
			c, n := v.child(i)
			s.asn1(c, path+"/"+n)
		}
		tag := uint64(0x10)
		if form == "set" {
			tag = 0x11
		}
		e.berIdent(0, true, tag)
		if e.berLen(path, "len", len(s.buf), true) {
			e.splice(s)
			e.b(0, 0)
		} else {
			e.splice(s)
		}
	default:
		panic("asn1: kind")
	}
	e.end(ni, form)
}

var _ = utf8.RuneError
