package main

import (
	"fmt"
	"os"
	"strconv"
	"strings"
	"time"

	"verif/ev"
)

func init() { register("treejob", treejobMain) }

// treejob <k>: debug helper, prints and runs tree job k of the current seed/tier.
func treejobMain(args []string) {
	k, _ := strconv.Atoi(args[0])
	nMut := 6000
	if ev.Tier() == "thorough" {
		nMut = 1000000
	}
	if len(args) > 1 {
		nMut, _ = strconv.Atoi(args[1])
	}
	jobs := treeJobs(ev.Seed(), ev.Tier() == "thorough", nMut)
	j := jobs[k]
	fmt.Printf("job %d/%d: %s format=%s force=%v seed=%d bytes\n", k, len(jobs), j.Label, j.Format, j.Force, len(j.Seed))
	t0 := time.Now()
	res := decodeDirect(j.Data(), j.Format, j.Force)
	fmt.Printf("decode: %v tree=%v err=%v panic=%v\n", time.Since(t0), res.V != nil, res.Err != nil, res.Panic != nil)
	if res.Panic != nil {
		fmt.Println(panicSig(res.Panic))
	}
}

func init() { register("c06job", c06jobMain) }

// c06job <k>: debug helper, prints and runs quick case k.
func c06jobMain(args []string) {
	k, _ := strconv.Atoi(args[0])
	c := c06QuickCase(ev.Seed(), k)
	fmt.Println(c.Label(), len(c.Seed.Data))
	t0 := time.Now()
	res := decodeDirect(applyMutation(c.Seed.Data, c.Mut), c.Format, c.Force)
	fmt.Printf("decode: %v tree=%v err=%v panic=%v\n", time.Since(t0), res.V != nil, res.Err != nil, res.Panic != nil)
}

func init() { register("treecase", treecaseMain) }

// treecase <label-substring>: debug helper, runs the invariant walker on every tree job whose label contains the substring.
func treecaseMain(args []string) {
	jobs := treeJobs(ev.Seed(), true, 0)
	for _, j := range jobs {
		if !strings.Contains(j.Label, args[0]) {
			continue
		}
		res := decodeDirect(j.Data(), j.Format, j.Force)
		fmt.Printf("%s: tree=%v err=%v panic=%v\n", j.Label, res.V != nil, res.Err != nil, res.Panic != nil)
		if res.V == nil {
			continue
		}
		var st treeStats
		issues := checkTree(res.V, &st)
		fmt.Printf("  values=%d nested=%d viewreaders=%d issues=%d\n", st.Values, st.NestedRoots, st.ViewReaders, len(issues))
		for i, is := range issues {
			if i < 10 {
				fmt.Printf("  %s: %s\n", is.Sig, is.Desc)
			}
		}
	}
}

func init() { register("c06tjob", c06tjobMain) }

// c06tjob <k>...: debug helper, prints (and with VERIF_RUNJOB=1 runs) thorough-tier case k; prints the total first.
func c06tjobMain(args []string) {
	e := c06EnumBuild()
	fmt.Println("total", e.total)
	for _, a := range args {
		k, _ := strconv.Atoi(a)
		c := e.Case(k)
		fmt.Println(k, c.Label(), len(c.Seed.Data))
		if os.Getenv("VERIF_RUNJOB") != "" {
			t0 := time.Now()
			res := decodeDirect(applyMutation(c.Seed.Data, c.Mut), c.Format, c.Force)
			fmt.Printf("  decode: %v tree=%v err=%v panic=%v\n", time.Since(t0), res.V != nil, res.Err != nil, res.Panic != nil)
		}
	}
}

func init() { register("mutwrite", mutwriteMain) }

// mutwrite <corpus-path> <kind> <a> <b> <out>: debug helper, writes the mutated corpus file (to reproduce a case with the fq binary).
func mutwriteMain(args []string) {
	b, err := os.ReadFile(repoFormatDir + "/" + args[0])
	if err != nil {
		panic(err)
	}
	a1, _ := strconv.Atoi(args[2])
	b1, _ := strconv.Atoi(args[3])
	if err := os.WriteFile(args[4], applyMutation(b, mutation{Kind: args[1], A: a1, B: b1}), 0o644); err != nil {
		panic(err)
	}
}

func init() { register("corpusstat", corpusstatMain) }

// corpusstat: debug helper, counts corpus items with / without an own format.
func corpusstatMain(args []string) {
	with, without := 0, 0
	byF := map[string]int{}
	for _, it := range corpus() {
		if len(it.Formats) > 0 {
			with++
			for _, f := range it.Formats {
				byF[f]++
			}
		} else {
			without++
			if len(args) > 0 {
				fmt.Println("no format:", it.Path)
			}
		}
	}
	fmt.Println("items with own format", with, "without", without, "formats with samples", len(byF), "of", len(allFormats()))
}

func init() { register("c18jobs", func(args []string) {
	n := 70
	if ev.Tier() == "thorough" {
		n = 400
	}
	for i, j := range c18Jobs(n) {
		fmt.Println(i, j.Name, len(j.Data))
	}
}) }

func init() { register("c06fields", func(args []string) {
	cs := c06FieldCasesGet()
	per := map[string]int{}
	for _, c := range cs {
		per[c.Format]++
	}
	fmt.Println("field-start cases", len(cs), "formats", len(per), "mp4", per["mp4"], "bplist", per["bplist"], "leveldb_table", per["leveldb_table"])
}) }
