package main

// C16 oracle self-test: the hand-written encoders reproduce the examples of the specifications
// (msgpack spec.md, RFC 8949 appendix A, bsonspec.org, BEP 3, X.690 / encoding/asn1). Run at start-up;
// a failure is a harness bug and aborts the check.

import (
	"encoding/asn1"
	"encoding/hex"
	"fmt"
	"math"
	"math/big"
	"strings"

	"verif/gen"
)

func c16I(x int64) *c16V     { return &c16V{K: c16KInt, I: big.NewInt(x)} }
func c16IB(s string) *c16V   { return &c16V{K: c16KInt, I: c16Big(s)} }
func c16S(s string) *c16V    { return &c16V{K: c16KStr, S: s} }
func c16F(f float64) *c16V   { return &c16V{K: c16KFloat, F: f} }
func c16BY(b ...byte) *c16V  { return &c16V{K: c16KBytes, By: b} }
func c16A(xs ...*c16V) *c16V { return &c16V{K: c16KArr, A: xs} }
func c16Bool(b bool) *c16V   { return &c16V{K: c16KBool, B: b} }
func c16M(kv ...any) *c16V {
	m := &c16V{K: c16KMap}
	for i := 0; i < len(kv); i += 2 {
		m.Keys = append(m.Keys, kv[i].(string))
		m.A = append(m.A, kv[i+1].(*c16V))
	}
	return m
}

func c16SelfTest() {
	canon := func(format string, v *c16V) string {
		e, _ := c16EncodeTop(format, v, "", gen.New(1), nil, true, false)
		return hex.EncodeToString(e.buf)
	}
	want := func(format string, v *c16V, h string) {
		h = strings.ReplaceAll(h, " ", "")
		if got := canon(format, v); got != h {
			panic(fmt.Sprintf("C16 self-test: %s encoder: %s: got %s want %s", format, c16Show(v.repr()), got, h))
		}
	}
	null := &c16V{K: c16KNull}
	// msgpack spec.md
	want("msgpack", c16M("compact", c16Bool(true), "schema", c16I(0)), "82 a7 636f6d70616374 c3 a6 736368656d61 00")
	want("msgpack", c16I(127), "7f")
	want("msgpack", c16I(128), "cc80")
	want("msgpack", c16I(256), "cd0100")
	want("msgpack", c16I(65536), "ce00010000")
	want("msgpack", c16IB("4294967296"), "cf0000000100000000")
	want("msgpack", c16IB("18446744073709551615"), "cfffffffffffffffff")
	want("msgpack", c16I(-1), "ff")
	want("msgpack", c16I(-32), "e0")
	want("msgpack", c16I(-33), "d0df")
	want("msgpack", c16I(-129), "d1ff7f")
	want("msgpack", c16I(-32769), "d2ffff7fff")
	want("msgpack", c16IB("-9223372036854775808"), "d38000000000000000")
	want("msgpack", c16F(1.5), "cb3ff8000000000000")
	want("msgpack", null, "c0")
	want("msgpack", c16S(strings.Repeat("a", 31)), "bf"+strings.Repeat("61", 31))
	want("msgpack", c16S(strings.Repeat("a", 32)), "d920"+strings.Repeat("61", 32))
	want("msgpack", c16BY(1, 2, 3), "c403010203")
	want("msgpack", c16A(c16I(1), c16S("a"), null), "9301a161c0")
	want("msgpack", &c16V{K: c16KExt, Ext: 5, By: []byte{1, 2, 3, 4}}, "d60501020304")
	want("msgpack", &c16V{K: c16KExt, Ext: -1, By: []byte{1, 2, 3}}, "c703ff010203")
	// RFC 8949 appendix A
	want("cbor", c16I(0), "00")
	want("cbor", c16I(23), "17")
	want("cbor", c16I(24), "1818")
	want("cbor", c16I(100), "1864")
	want("cbor", c16I(1000), "1903e8")
	want("cbor", c16I(1000000), "1a000f4240")
	want("cbor", c16I(1000000000000), "1b000000e8d4a51000")
	want("cbor", c16IB("18446744073709551615"), "1bffffffffffffffff")
	want("cbor", c16IB("-18446744073709551616"), "3bffffffffffffffff")
	want("cbor", c16I(-1), "20")
	want("cbor", c16I(-10), "29")
	want("cbor", c16I(-100), "3863")
	want("cbor", c16I(-1000), "3903e7")
	want("cbor", c16F(1.1), "fb3ff199999999999a")
	want("cbor", c16F(-4.1), "fbc010666666666666")
	want("cbor", c16Bool(false), "f4")
	want("cbor", c16Bool(true), "f5")
	want("cbor", null, "f6")
	want("cbor", c16BY(1, 2, 3, 4), "4401020304")
	want("cbor", c16S("IETF"), "6449455446")
	want("cbor", c16S("ü"), "62c3bc")
	want("cbor", c16S("\U00010151"), "64f0908591")
	want("cbor", c16A(c16I(1), c16A(c16I(2), c16I(3)), c16A(c16I(4), c16I(5))), "8301820203820405")
	want("cbor", c16M("a", c16I(1), "b", c16A(c16I(2), c16I(3))), "a26161016162820203")
	var a25 []*c16V
	for i := 1; i <= 25; i++ {
		a25 = append(a25, c16I(int64(i)))
	}
	want("cbor", c16A(a25...), "98190102030405060708090a0b0c0d0e0f101112131415161718181819")
	for _, hv := range []struct {
		f float64
		h uint16
	}{{0, 0}, {math.Copysign(0, -1), 0x8000}, {1, 0x3c00}, {1.5, 0x3e00}, {65504, 0x7bff}, {5.960464477539063e-8, 1}, {0.00006103515625, 0x0400}, {-4, 0xc400}, {math.Inf(1), 0x7c00}, {math.Inf(-1), 0xfc00}} {
		if h, ok := c16HalfBits(hv.f); !ok || h != hv.h {
			panic(fmt.Sprintf("C16 self-test: half(%v) = %04x,%v want %04x", hv.f, h, ok, hv.h))
		}
	}
	for h := 0; h < 1<<16; h++ {
		f := c16HalfToFloat(uint16(h))
		if math.IsNaN(f) {
			continue
		}
		if b, ok := c16HalfBits(f); !ok || b != uint16(h) {
			panic(fmt.Sprintf("C16 self-test: half round trip %04x -> %v -> %04x,%v", h, f, b, ok))
		}
	}
	for _, f := range []float64{65505, 1.1, 2.9802322387695312e-08, 1e-10, 65536, 1.00048828125} {
		if _, ok := c16HalfBits(f); ok {
			panic(fmt.Sprintf("C16 self-test: %v is not a binary16 value", f))
		}
	}
	// bsonspec.org examples
	want("bson", c16M("hello", c16S("world")), "16000000 02 68656c6c6f00 06000000 776f726c6400 00")
	want("bson", c16M("BSON", c16A(c16S("awesome"), c16F(5.05), c16I(1986))),
		"31000000 04 42534f4e00 26000000 02 3000 08000000 617765736f6d6500 01 3100 3333333333331440 10 3200 c2070000 00 00")
	want("bson", c16M(), "0500000000")
	want("bson", c16M("a", c16IB("4294967296"), "b", c16Bool(true), "n", null), "17000000 12 6100 0000000001000000 08 6200 01 0a 6e00 00")
	// BEP 3
	want("bencode", c16M("cow", c16S("moo"), "spam", c16S("eggs")), hex.EncodeToString([]byte("d3:cow3:moo4:spam4:eggse")))
	want("bencode", c16M("spam", c16A(c16S("a"), c16S("b"))), hex.EncodeToString([]byte("d4:spaml1:a1:bee")))
	want("bencode", c16M("b", c16I(1), "a", c16I(2)), hex.EncodeToString([]byte("d1:ai2e1:bi1ee")))
	want("bencode", c16I(-3), hex.EncodeToString([]byte("i-3e")))
	want("bencode", c16I(0), hex.EncodeToString([]byte("i0e")))
	want("bencode", c16A(), hex.EncodeToString([]byte("le")))
	// X.690 / DER
	want("asn1_ber", c16I(5), "020105")
	want("asn1_ber", c16I(128), "02020080")
	want("asn1_ber", c16I(-129), "0202ff7f")
	want("asn1_ber", c16IB("18446744073709551615"), "020900ffffffffffffffff")
	want("asn1_ber", null, "0500")
	want("asn1_ber", c16Bool(true), "0101ff")
	want("asn1_ber", c16BY(1, 2, 3), "0403010203")
	want("asn1_ber", c16S("é"), "0c02c3a9")
	want("asn1_ber", c16F(0.15625), "090380fb05")
	want("asn1_ber", c16F(0), "0900")
	want("asn1_ber", c16F(math.Inf(-1)), "090141")
	want("asn1_ber", c16F(-3), "0903c00003")
	want("asn1_ber", &c16V{K: c16KOID, OID: []uint64{1, 2, 840, 113549}}, "06062a864886f70d")
	want("asn1_ber", &c16V{K: c16KOID, OID: []uint64{2, 999, 3}}, "0603883703")
	want("asn1_ber", c16BY(make([]byte, 200)...), "0481c8"+strings.Repeat("00", 200))
	der, _ := asn1.Marshal([]int{1, 2, 70000, -5})
	want("asn1_ber", c16A(c16I(1), c16I(2), c16I(70000), c16I(-5)), hex.EncodeToString(der))
	type inner struct {
		S string `asn1:"utf8"`
		B []byte
	}
	der, _ = asn1.Marshal(struct {
		A int
		I inner
		T bool
	}{7, inner{"xé", []byte{9}}, true})
	want("asn1_ber", c16A(c16I(7), c16A(c16S("xé"), c16BY(9)), c16Bool(true)), hex.EncodeToString(der))
	// the comparator itself
	if _, _, ok := c16Diff(1, 1.0, true, ""); !ok {
		panic("C16 self-test: 1 == 1.0")
	}
	if _, _, ok := c16Diff(new(big.Int).SetUint64(math.MaxUint64), float64(math.MaxUint64), true, ""); ok {
		panic("C16 self-test: 2^64-1 != 2^64 as float")
	}
	if _, _, ok := c16Diff(math.Copysign(0, -1), 0.0, true, ""); ok {
		panic("C16 self-test: -0.0 vs 0.0 strict")
	}
	if _, _, ok := c16Diff("a\xffb", "a�b", true, ""); !ok {
		panic("C16 self-test: lossy string representation")
	}
	if p, _, ok := c16DiffV(c16A(c16I(1), c16M("k", c16S("x"))), []any{1, map[string]any{"k": "y"}}, true, ""); ok || p != "/1/0" {
		panic("C16 self-test: diff path " + p)
	}
}
