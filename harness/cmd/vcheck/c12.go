package main

// C12 — paths and tree navigation are mutually consistent.
// Part 1 (trees): for sampled values of every tree, jq's getpath/topath/parent/root/buffer_root/
// format_root/parents are compared BY GO POINTER with what an independent top-down walk of the tree says.
// Part 2 (path strings): path_to_expr | expr_to_path == . for generated path arrays.

import (
	"fmt"
	"reflect"
	"runtime"
	"strings"
	"sync"

	"github.com/wader/fq/pkg/decode"
	"github.com/wader/fq/pkg/interp"

	"verif/ev"
	"verif/fqx"
	"verif/gen"
)

func init() { register("C12", c12Main) }

const c12Prog = `. as {$r, $paths} | $paths[] as $p | $r | getpath($p) as $v
| [ $v
  , ($v | try topath catch {e: .})
  , ($v | try parent catch {e: .})
  , ($v | try root catch {e: .})
  , ($v | try buffer_root catch {e: .})
  , ($v | try format_root catch {e: .})
  , [$v | try parents catch {e: .}]
  , ($v | try (root | getpath($v | topath)) catch {e: .})
  , ($v | try (parent as $pp | if $pp == null then null else ($pp | getpath([$v | topath | last])) end) catch {e: .})
  ]`

func dvPtr(x any) *decode.Value {
	if dv, ok := x.(interp.DecodeValue); ok {
		return dv.DecodeValue()
	}
	return nil
}

func c12Tree(run *ev.Run, j treeJob, k int) {
	s := treeSession()
	data := j.Data()
	rng := gen.New(run.Seed).Fork(0xC12000 + uint64(k))
	dv, err, pi := jqDecode(s, data, j.Format, j.Force)
	run.Eval(1)
	if pi != nil {
		run.Count("decode:panicked (C06's subject)", 1)
		return
	}
	if err != nil || dv == nil {
		run.Count("decode:no-tree", 1)
		return
	}
	root := dv.DecodeValue()
	picked := pickValues(root, rng, 300)
	var outs []any
	pi = guardStack(func() {
		outs, err = s.Eval(map[string]any{"r": dv, "paths": pathsOf(picked)}, c12Prog)
	})
	if pi != nil {
		run.Violation("panic:navigation:"+panicSig(pi), fmt.Sprintf("%s: panic %v\n%s", j.Label, pi.Value, trunc(pi.Stack, 1500)), map[string]any{"case": j.Label})
		return
	}
	if err != nil || len(outs) != len(picked) {
		run.Violation("eval-failed:navigation", fmt.Sprintf("%s: navigation program over %d paths gave %d outputs, err %v", j.Label, len(picked), len(outs), err), map[string]any{"case": j.Label})
		return
	}
	viol := func(sig string, p pickedValue, format string, a ...any) {
		ctx := ""
		for x := p.V; x != nil; x = x.Parent {
			if x.Format != nil {
				ctx = "@" + x.Format.Name
				break
			}
		}
		run.Violation(sig+ctx, fmt.Sprintf("%s: value %s: ", j.Label, jqPathExpr(p.Path))+fmt.Sprintf(format, a...), map[string]any{"case": j.Label, "path": jqPathExpr(p.Path)})
	}
	nontrivial := false
	for i, p := range picked {
		row, _ := outs[i].([]any)
		if len(row) != 9 {
			continue
		}
		run.Count("values:checked", 1)
		// getpath(harness path) is the value itself
		if dvPtr(row[0]) != p.V {
			viol("getpath:harness-path-resolves-elsewhere", p, "getpath(%v) returned %v, not the value reached top-down", p.Path, describeDV(row[0]))
			continue
		}
		// topath equals the harness's top-down path
		if tp, ok := row[1].([]any); !ok || !reflect.DeepEqual(normPath(tp), normPath(p.Path)) {
			viol("topath:differs-from-top-down-path", p, "topath = %v, top-down path = %v", row[1], p.Path)
		}
		// parent
		if len(p.Parents) == 0 {
			if row[2] != nil {
				viol("parent:root-has-parent", p, "parent of the root = %v", describeDV(row[2]))
			}
		} else if dvPtr(row[2]) != p.Parents[0] {
			viol("parent:wrong-value", p, "parent = %v, expected %s", describeDV(row[2]), valuePathStr(p.Parents[0]))
		}
		if dvPtr(row[3]) != root {
			viol("root:wrong-value", p, "root = %v", describeDV(row[3]))
		}
		if dvPtr(row[4]) != p.BufRoot {
			viol("buffer_root:wrong-value", p, "buffer_root = %v, expected %s", describeDV(row[4]), valuePathStr(p.BufRoot))
		}
		if dvPtr(row[5]) != p.FmtRoot {
			viol("format_root:wrong-value", p, "format_root = %v, expected %s", describeDV(row[5]), valuePathStr(p.FmtRoot))
		}
		ps, _ := row[6].([]any)
		okParents := len(ps) == len(p.Parents)
		for x := 0; okParents && x < len(ps); x++ {
			okParents = dvPtr(ps[x]) == p.Parents[x]
		}
		if !okParents {
			viol("parents:wrong-chain", p, "parents has %d entries %v, expected %d (nearest first)", len(ps), ps, len(p.Parents))
		}
		if dvPtr(row[7]) != p.V {
			viol("root-getpath-topath:not-identity", p, "root | getpath(topath) = %v", describeDV(row[7]))
		}
		if len(p.Parents) > 0 && dvPtr(row[8]) != p.V {
			viol("parent-contains-value:not-identity", p, "parent | getpath([last of topath]) = %v", describeDV(row[8]))
		}
		if p.BufRoot != root || isGap(p.V) || p.V.Err != nil {
			nontrivial = true
		}
	}
	if nontrivial {
		run.Distinct(labelKey(j.Label))
	}
}

func normPath(p []any) []any {
	out := make([]any, len(p))
	for i, x := range p {
		switch v := x.(type) {
		case int:
			out[i] = v
		case float64:
			out[i] = int(v)
		default:
			out[i] = x
		}
	}
	return out
}

func describeDV(x any) string {
	if v := dvPtr(x); v != nil {
		return "decode value " + valuePathStr(v)
	}
	return trunc(fmt.Sprintf("%#v", x), 120)
}

// ---- part 2: path strings ----

var c12Keys = []string{"a", "b1", "_x", "A", "", " ", "a b", "a.b", "a\"b", "a\\b", "a\\(b)", "\\", "\"", "'", "\n", "a\nb", "\t", "\x00", "\x7f", "if", "then", "and", "or", "not", "null", "true", "reduce", "def", "as", "__loc__",
	"1a", "0", "-1", "$a", "$", "@base64", "ä", "日本", "😀", "é", "a[0]", "[0]", ".", "..", ".a", "a.", "#c", "a#", "\\u0041", " "}

func c12GenPath(rng *gen.Rand) []any {
	n := rng.Intn(6)
	if rng.Intn(8) == 0 {
		n = 0
	}
	p := make([]any, n)
	for i := range p {
		switch rng.Intn(10) {
		case 0, 1, 2:
			switch rng.Intn(6) {
			case 0:
				p[i] = -1 - rng.Intn(5)
			case 1:
				p[i] = 1<<31 + rng.Intn(1000)
			case 2:
				p[i] = 0
			default:
				p[i] = rng.Intn(100)
			}
		case 3, 4, 5, 6:
			p[i] = gen.Pick(rng, c12Keys)
		default:
			p[i] = rng.String(false)
		}
	}
	return p
}

func c12KeyClass(k any) string {
	s, ok := k.(string)
	if !ok {
		if k.(int) < 0 {
			return "negint"
		}
		return "int"
	}
	switch {
	case s == "":
		return "empty"
	case strings.ContainsAny(s, "\"\\"):
		return "quote-backslash"
	case strings.ContainsAny(s, "\n\t\x00\x7f "):
		return "control"
	}
	for _, r := range s {
		if r > 127 {
			return "unicode"
		}
	}
	if s[0] >= '0' && s[0] <= '9' || strings.ContainsAny(s, " .-$@[]#'") {
		return "non-ident"
	}
	return "ident-or-keyword"
}

func c12Paths(run *ev.Run) {
	// expr_to_path goes through _eval (a full compile, ~12 ms): 16 sessions in parallel
	n := run.Pick(6000, 600000)
	const batch = 100
	nb := (n + batch - 1) / batch
	ch := make(chan int, nb)
	for b := 0; b < nb; b++ {
		ch <- b
	}
	close(ch)
	var wg sync.WaitGroup
	for w := 0; w < runtime.NumCPU(); w++ {
		wg.Add(1)
		go func() {
			defer wg.Done()
			s := fqx.NewSession()
			defer s.Close()
			for b := range ch {
				c12PathBatch(run, s, b, batch)
			}
		}()
	}
	wg.Wait()
	run.Sample(map[string]any{"part": "paths", "example": []any{"a", "", 1, "x\"y", -1}})
}

func c12PathBatch(run *ev.Run, s *fqx.Session, b int, batch int) {
	var paths []any
	for i := 0; i < batch; i++ {
		rng := gen.New(run.Seed).Fork(0xC12A0000 + uint64(b*batch+i))
		paths = append(paths, c12GenPath(rng))
	}
	var outs []any
	var err error
	pi := guardStack(func() {
		outs, err = s.Eval(paths, `.[] | . as $p | [ (try path_to_expr catch {e: .}), (try (path_to_expr | expr_to_path) catch {e: .}) ]`)
	})
	if pi != nil {
		run.Violation("panic:path_to_expr:"+panicSig(pi), fmt.Sprintf("panic %v", pi.Value), nil)
		return
	}
	if err != nil || len(outs) != len(paths) {
		run.Violation("eval-failed:path_to_expr", fmt.Sprintf("%d outputs err %v", len(outs), err), nil)
		return
	}
	for i, o := range outs {
		p := paths[i].([]any)
		row, _ := o.([]any)
		run.Eval(1)
		run.Count("paths:checked", 1)
		classes := map[string]bool{}
		for _, k := range p {
			classes[c12KeyClass(k)] = true
		}
		for c := range classes {
			run.Count("paths:with-key-class:"+c, 1)
		}
		if len(row) != 2 {
			continue
		}
		back, ok := row[1].([]any)
		if !ok || !reflect.DeepEqual(normPath(back), normPath(p)) {
			// signature by the key classes involved (never the data)
			var cs []string
			for _, c := range []string{"empty", "quote-backslash", "control", "unicode", "non-ident", "negint", "int", "ident-or-keyword"} {
				if classes[c] {
					cs = append(cs, c)
				}
			}
			sig := "path-roundtrip:" + strings.Join(cs, "+")
			if classes["empty"] {
				sig = "path-roundtrip:empty-string-key"
			}
			run.Violation(sig, fmt.Sprintf("%#v | path_to_expr = %#v ; | expr_to_path = %#v", p, row[0], row[1]), map[string]any{"path": fmt.Sprintf("%#v", p)})
			continue
		}
		if len(p) >= 2 {
			run.Distinct(fmt.Sprintf("path:%v", p))
		}
	}
}

func c12Main(args []string) {
	run := ev.NewRun("C12")
	run.Rule = "part 1: corpus/mutated/forced decodes through the jq layer, up to 300 values per tree: getpath(top-down path), topath, parent, root, buffer_root, format_root, parents compared by Go pointer identity with an independent top-down walk; part 2: PRNG path arrays over a pool of hostile keys (quotes, backslashes, \\( , control chars, keywords, digit-leading, empty, unicode) and integers (negative, >2^31): path_to_expr | expr_to_path == identity. non-trivial = tree with nested buffer/gap/error, or path with >=2 elements; distinct = (file, format, mutation kind) / path"
	run.Assumptions = []string{"pointer identity of the underlying *decode.Value is the notion of 'same value'"}
	if !run.IsWorker() {
		c12Paths(run)
	}
	jobs := treeJobs(run.Seed, run.Thorough(), run.Pick(1500, 60000))
	if !run.Thorough() {
		var keep []treeJob
		for i, j := range jobs {
			if j.Mut.Kind != "none" || i%3 == int(run.Seed%3) {
				keep = append(keep, j)
			}
		}
		jobs = keep
	}
	isoRun(run, isoSpec{
		NJobs: len(jobs),
		Do:    func(run *ev.Run, k int) { c12Tree(run, jobs[k], k) },
		OnDeath: func(run *ev.Run, k int, kind string, tail string) {
			run.Count("worker-died:"+kind+" (C06's subject)", 1)
		},
	})
	run.Sample(map[string]any{"part": "trees", "jobs": len(jobs), "program": c12Prog})
	run.Finish()
}
