package main

// C11 program generator: emits jq program TEXT over the full grammar accepted by the gojq fork's parser
// (parser.go.y / lexer.go), with parentheses chosen from the precedence table (minimal) plus random
// redundant ones. The generator is direct (context-driven recursive descent over the grammar), it keeps
// lexical scope (variables, functions, labels) so that "vanilla" programs compile under plain gojq.
//
// Precedence levels used (low -> high), read from the %left/%right/%nonassoc table of parser.go.y:
//   0 right-open query forms: `def f: ..; q`, `t as p | q`, `label $l | q` (extend as far right as possible;
//     may stand unparenthesised only alone in a query slot or as the right operand of `|` / `,` on the right
//     spine of a slot)
//   1 `|` (right)   2 `,` (left)   3 `//` (right)   4 `= |= += -= *= /= %= //=` (nonassoc)
//   5 `or` (left)   6 `and` (left) 7 `== != < <= > >=` (nonassoc)  8 `+ -` (left)  9 `* / %` (left)
//   10 prefix terms: unary `-t` `+t`, `try t [catch t]` (a postfix suffix binds to the inner term)
//   11 primary terms with postfix suffixes
// Slots: query slots (parens, [], args, if/then/else, reduce/foreach bodies, .[q], \(q), def bodies ...) take
// level 0; `try`/`catch` operands take 10 (effectively a term: `try 1 + 2` is `(try 1) + 2`); reduce/foreach
// sources take 3 (`expr`); object values take `expr` joined by `|` (no comma, no right-open form).
//
// Generator findings (learnt while building, kept as notes):
//   * `{@base64: 1}` / `{@base64 "x": 1}` (format as object key) are REJECTED by the fork's grammar
//     (objectkey: tokIdent | tokVariable | tokKeyword); probed once per run in c11Probes, not generated.
//   * `_` digit separators are accepted only in 0x/0o/0b literals (`1_000` is an invalid token).
//   * `try A catch B` where A ends in a catch-less `try` needs parentheses around A (dangling catch).
//   * a `.name` / `."s"` suffix directly after a decimal number, `.` or `..` needs a space (`1 .a`, `. .a`).
//   * `?` followed by `//` must be separated by a space (`?//` is the destructuring alternative token).

import (
	"fmt"
	"strings"

	"verif/gen"
)

type c11Fn struct {
	name  string
	arity int
}

type c11Gen struct {
	r     *gen.Rand
	toks  []string
	feat  map[string]int
	paren map[string]int // "<child>-in-<parent>" for parentheses that were REQUIRED by the table

	vanilla   bool // only constructs/names plain gojq can compile and run to termination
	wrapNames bool // user-chosen names come from the CLI wrapper's internals
	small     bool // numeric literals stay small (bounded evaluation)

	vars   []string
	funcs  []c11Fn
	labels []string
	inStr  int
	seq    int
}

func c11NewGen(r *gen.Rand) *c11Gen {
	return &c11Gen{r: r, feat: map[string]int{}, paren: map[string]int{}}
}

func (g *c11Gen) tok(s ...string) { g.toks = append(g.toks, s...) }
func (g *c11Gen) f(name string)   { g.feat[name]++ }

// names used by the rewritten query and its surroundings (eval.jq, init.jq, query.jq, repl.jq)
var c11WrapFuncNames = []string{"inputs", "input", "display", "_cli_display", "input_filename", "_cli_eval_on_expr_error",
	"_cli_eval_on_error", "_cli_eval_on_compile_error", "_cli_eval", "eval", "_eval", "_eval_query_rewrite", "_query_pipe",
	"_query_try", "_query_query", "_query_func", "_query_ident", "display_implicit", "_display_default_opts", "_cli_last_expr_error",
	"_error_str", "printerrln", "_repl_display", "_repl_on_expr_error", "_finally", "options", "_is_object", "tostring", "empty", "error", "_main"}
var c11WrapVarNames = []string{"$opts", "$_args", "$_", "$expr", "$c", "$filename", "$orig_query", "$last", "$slurp", "$err",
	"$eval_opts", "$parsed_args", "$rest", "$last_func_name", "$last_func_args", "$meta", "$imports", "$q", "$name", "$args", "$ENV", "$__prog_args"}

var c11Keywords = []string{"or", "and", "module", "import", "include", "def", "as", "label", "break", "null", "true", "false",
	"if", "then", "elif", "else", "end", "try", "catch", "reduce", "foreach"}

var c11PlainIdents = []string{"a", "b", "c", "foo", "bar", "x1", "_p", "A", "k_2", "__loc__", "e0", "nan0"}

func (g *c11Gen) freshVar() string {
	if g.wrapNames && g.r.Chance(3, 4) {
		return gen.Pick(g.r, c11WrapVarNames)
	}
	switch g.r.Intn(6) {
	case 0:
		g.seq++
		return fmt.Sprintf("$v%d", g.seq)
	case 1:
		return "$" + gen.Pick(g.r, c11Keywords) // `$if`, `$as`, `$end` are ordinary variables
	default:
		return "$" + gen.Pick(g.r, c11PlainIdents)
	}
}

func (g *c11Gen) freshFuncName() string {
	if g.wrapNames && g.r.Chance(3, 4) {
		return gen.Pick(g.r, c11WrapFuncNames)
	}
	switch g.r.Intn(5) {
	case 0:
		g.seq++
		return fmt.Sprintf("f%d", g.seq)
	case 1:
		// shadow a builtin. NOT `recurse`: `..` compiles to a call of whatever `recurse` is in scope, so
		// `def recurse: ..; recurse` recurses forever (found as a run timeout); same reason no `format`.
		return gen.Pick(g.r, []string{"length", "map", "select", "not", "add", "first", "empty", "error", "path", "keys"})
	default:
		return gen.Pick(g.r, []string{"f", "g", "h", "fn_1", "_q", "F"})
	}
}

// ---- literals ----

func (g *c11Gen) number() string {
	r := g.r
	k := r.Intn(16)
	switch {
	case k < 6:
		g.f("num:int")
		return fmt.Sprint(r.Intn(13))
	case k == 6:
		g.f("num:float")
		return gen.Pick(r, []string{"1.5", "0.25", "2.0", "0.1", "10.75"})
	case k == 7:
		g.f("num:leading-dot")
		return gen.Pick(r, []string{".5", ".25", ".0", ".5e1"})
	case k == 8:
		g.f("num:exp")
		return gen.Pick(r, []string{"1e2", "1E1", "2e+1", "5e-1", "1.5e1", "1.e0", "0e0"})
	case k == 9:
		g.f("num:trailing-dot")
		return gen.Pick(r, []string{"1.", "0.", "12."})
	case k == 10:
		g.f("num:hex")
		return gen.Pick(r, []string{"0x1f", "0xA", "0x0", "0xfF", "0x1e", "0x7"}) // 0x1e: contains 'e'
	case k == 11:
		g.f("num:octal")
		return gen.Pick(r, []string{"0o17", "0o0", "0o7"})
	case k == 12:
		g.f("num:binary")
		return gen.Pick(r, []string{"0b101", "0b0", "0b11"})
	case k == 13:
		g.f("num:digit-separator")
		return gen.Pick(r, []string{"0x_f", "0xf_f", "0x1_", "0b1_0", "0o1_7", "0b_1_", "0x__a"})
	case k == 14:
		if g.small {
			g.f("num:zero-forms")
			return gen.Pick(r, []string{"00", "007", "0", "0.0"})
		}
		g.f("num:big")
		return gen.Pick(r, []string{"100000000000000000000", "9007199254740993", "1e1000", "18446744073709551616", "0xffffffffffffffffff", "1.7976931348623157e308", "5e-324", "0.1000000000000000055511151231257827"})
	default:
		g.f("num:zero-forms")
		return gen.Pick(r, []string{"00", "007", "0", "0.0"})
	}
}

var c11StrPieces = []string{"a", "b c", "x", "é", "日本", "😀", " ", "#", "'", "$x", "(", ")", "\\\\", "\\\"", "\\n", "\\t", "\\/", "\\b", "\\f", "\\r",
	"\\u00e9", "\\u0041", "\\ud83d\\ude00", "\\u0000", "\\u001f", "\t", "\x7f", "<&>", " ", "\\ud800", "`", "\\\\(", "%", "{}", "[", "null", " "}

// stringLit emits a string literal token sequence (one token if plain, several with interpolation)
func (g *c11Gen) stringLit(budget int, allowInterp bool) {
	r := g.r
	if r.Intn(8) == 0 {
		// backtick raw string: no escapes, no interpolation; anything but a backtick
		g.f("str:raw")
		var sb strings.Builder
		sb.WriteByte('`')
		for i, n := 0, r.Intn(4); i < n; i++ {
			sb.WriteString(gen.Pick(r, []string{"a", "\\n", "\\(1)", "\"", "\\", "é", " ", "x y", "\\u0041", "'", "#", "\t", "\\\\", "😀", "$", "\\\""}))
		}
		sb.WriteByte('`')
		g.tok(sb.String())
		return
	}
	n := r.Intn(4)
	if !allowInterp || budget < 2 || r.Intn(3) != 0 {
		if n == 0 {
			g.f("str:empty")
		} else {
			g.f("str:plain")
		}
		var sb strings.Builder
		sb.WriteByte('"')
		for i := 0; i < n; i++ {
			sb.WriteString(gen.Pick(r, c11StrPieces))
		}
		sb.WriteByte('"')
		g.tok(sb.String())
		return
	}
	// interpolated string: the lexer switches mode at \( ... ); emitted as ONE glued token group. The
	// pieces between interpolations are raw text, the interpolated queries are ordinary token runs.
	g.f("str:interpolated")
	if g.inStr > 0 {
		g.f("str:nested-interpolation")
	}
	g.inStr++
	parts := 1 + r.Intn(2)
	var sb strings.Builder
	sb.WriteByte('"')
	for i := 0; i < parts; i++ {
		if r.Bool() {
			sb.WriteString(gen.Pick(r, c11StrPieces))
		}
		sb.WriteString("\\(")
		// sub-generator sharing scope and counters; its text is spliced (no newline / comment inside)
		sub := *g
		sub.toks = nil
		sub.query(0, true, "interpolation", max(1, (budget-1)/parts))
		g.seq = sub.seq
		sb.WriteString(c11Join(sub.toks, nil, false))
		sb.WriteString(")")
		if r.Bool() {
			sb.WriteString(gen.Pick(r, c11StrPieces))
		}
	}
	sb.WriteByte('"')
	g.inStr--
	g.tok(sb.String())
}

var c11Formats = []string{"@text", "@json", "@html", "@uri", "@csv", "@tsv", "@sh", "@base64", "@base64d"}

// ---- scope helpers ----

func (g *c11Gen) withScope(fn func()) {
	sv, sf, sl := g.vars, g.funcs, g.labels
	// cap the slices so that inner appends never write into storage an outer scope may append to later
	g.vars, g.funcs, g.labels = sv[:len(sv):len(sv)], sf[:len(sf):len(sf)], sl[:len(sl):len(sl)]
	fn()
	g.vars, g.funcs, g.labels = sv, sf, sl
}

// builtins of plain gojq that terminate on finite inputs (arity 0)
var c11Builtins0 = []string{"length", "keys", "not", "type", "tostring", "tojson", "add", "first", "last", "reverse", "sort", "floor",
	"empty", "error", "values", "to_entries", "tonumber", "ascii_downcase", "min", "max", "unique", "flatten", "any", "all",
	"paths", "explode", "fromjson", "numbers", "strings", "arrays", "objects", "nulls", "recurse", "tostream", "abs", "isnan", "transpose", "utf8bytelength", "from_entries", "ascii_upcase", "sqrt"}

// arity-1 builtins taking a filter (closure) argument
var c11Builtins1 = []string{"map", "select", "path", "del", "first", "last", "isempty", "map_values", "with_entries", "sort_by", "group_by",
	"min_by", "max_by", "unique_by", "any", "all", "error", "has", "contains", "inside", "startswith", "endswith", "join", "split", "ltrimstr", "rtrimstr", "index", "getpath", "paths", "walk", "pick", "add", "in", "flatten", "nth", "test", "splits", "indices", "delpaths"}
var c11Builtins2 = []string{"limit", "setpath", "any", "all", "nth", "first"}

// builtins that fq REDEFINES in jq (pkg/interp/binary.jq, format/json/json.jq: intersection of fq's `def`s with
// plain gojq's `builtins`): capture debug explode format fromjson input inputs match scan scope split splits test
// tojson trim. Their error texts / number formatting differ from plain gojq, which is not the wrapper's doing
// (learnt from `try (0 | fromjson) catch .` through the CLI): not used in programs that go through the real CLI.
var c11FqRedefined = map[string]bool{"explode": true, "fromjson": true, "split": true, "splits": true, "test": true, "tojson": true}

func (g *c11Gen) pickBuiltin(list []string) string {
	for {
		n := gen.Pick(g.r, list)
		if !(g.wrapNames && c11FqRedefined[n]) {
			return n
		}
	}
}

func (g *c11Gen) smallRange() {
	switch g.r.Intn(3) {
	case 0:
		g.tok("range", "(", fmt.Sprint(g.r.Intn(4)), ")")
	case 1:
		a := g.r.Intn(3)
		g.tok("range", "(", fmt.Sprint(a), ";", fmt.Sprint(a+g.r.Intn(4)), ")")
	default:
		g.tok("range", "(", "0", ";", fmt.Sprint(g.r.Intn(9)), ";", fmt.Sprint(1+g.r.Intn(3)), ")")
	}
	g.f("func:range")
}

// ---- terms ----

// primary emits a level-11 term (without postfix suffixes)
func (g *c11Gen) primary(budget int) {
	r := g.r
	if budget <= 1 {
		g.leaf()
		return
	}
	switch k := r.Intn(40); {
	case k < 8:
		g.leaf()
	case k < 11: // function call with arguments
		g.call(budget)
	case k < 15:
		g.object(budget)
	case k < 19:
		g.f("term:array")
		g.tok("[")
		g.query(0, true, "array", budget-1)
		g.tok("]")
	case k < 23:
		g.ifTerm(budget)
	case k < 26:
		g.reduceTerm(budget)
	case k < 29:
		g.foreachTerm(budget)
	case k < 32:
		g.f("term:paren")
		g.tok("(")
		g.query(0, true, "paren", budget-1)
		g.tok(")")
	case k < 34: // .[q] / slices as a term
		g.f("term:index-bracket")
		g.tok(".")
		g.bracketSuffix(budget - 1)
	case k < 36:
		g.f("term:index-string")
		g.tok(".")
		g.stringLit(budget-1, true)
	case k < 38:
		g.f("term:format-string")
		g.tok(gen.Pick(r, c11Formats))
		g.stringLit(budget-1, true)
	default:
		g.f("term:string")
		g.stringLit(budget-1, true)
	}
}

func (g *c11Gen) leaf() {
	r := g.r
	switch k := r.Intn(34); {
	case k < 6:
		g.f("term:identity")
		g.tok(".")
	case k < 7:
		g.f("term:recurse")
		g.tok("..")
	case k < 11:
		g.f("term:index-name")
		if r.Intn(6) == 0 {
			g.f("term:index-keyword")
			g.tok("." + gen.Pick(r, c11Keywords))
		} else {
			g.tok("." + gen.Pick(r, c11PlainIdents))
		}
	case k < 12:
		g.f("term:iterate")
		g.tok(".", "[", "]")
	case k < 13:
		g.f("term:null")
		g.tok("null")
	case k < 14:
		g.f("term:true")
		g.tok("true")
	case k < 15:
		g.f("term:false")
		g.tok("false")
	case k < 20:
		g.f("term:number")
		g.tok(g.number())
	case k < 23:
		g.f("term:string")
		g.stringLit(1, false)
	case k < 24:
		g.f("term:format")
		g.tok(gen.Pick(r, c11Formats))
	case k < 25:
		g.f("term:empty-array")
		g.tok("[", "]")
	case k < 26:
		g.f("term:empty-object")
		g.tok("{", "}")
	case k < 29:
		g.variable()
	case k < 30:
		if len(g.labels) > 0 {
			g.f("term:break")
			g.tok("break", gen.Pick(r, g.labels))
			return
		}
		if !g.vanilla {
			g.f("term:break-unbound")
			g.tok("break", "$out")
			return
		}
		g.f("term:identity")
		g.tok(".")
	default:
		g.call(1)
	}
}

func (g *c11Gen) variable() {
	r := g.r
	// the fork's compiler has no $__loc__ support ("variable not defined: $__loc__"): to the parser it is an
	// ordinary variable token. Free uses only where nothing is compiled (directive class); in vanilla/wrap
	// programs it appears as a BOUND name (patterns, labels: "__loc__" is in c11PlainIdents).
	if !g.vanilla && r.Intn(4) == 0 {
		g.f("term:$__loc__")
		g.tok("$__loc__")
		return
	}
	if len(g.vars) > 0 {
		g.f("term:variable")
		g.tok(gen.Pick(r, g.vars))
		return
	}
	if !g.vanilla {
		if r.Intn(3) == 0 {
			g.f("term:module-variable")
			g.tok("$m::v")
			return
		}
		g.f("term:variable-unbound")
		g.tok(gen.Pick(r, c11WrapVarNames))
		return
	}
	g.f("term:number")
	g.tok(g.number())
}

// call emits a function call: user-defined in scope, whitelisted builtin, or (non-vanilla) arbitrary names
func (g *c11Gen) call(budget int) {
	r := g.r
	if len(g.funcs) > 0 && r.Chance(2, 3) {
		fn := gen.Pick(r, g.funcs)
		g.f("term:call-user")
		g.callArgs(fn.name, fn.arity, budget)
		return
	}
	if !g.vanilla && r.Intn(3) == 0 {
		switch r.Intn(3) {
		case 0:
			g.f("term:call-module-ident")
			g.callArgs("m::f", r.Intn(3), budget)
		case 1:
			g.f("term:call-fq-function")
			g.callArgs(gen.Pick(r, []string{"tobytes", "tovalue", "display", "d", "hex", "_cli_display", "input_filename", "inputs", "repl", "help"}), r.Intn(2), budget)
		default:
			g.f("term:call-undefined")
			g.callArgs(gen.Pick(r, c11PlainIdents), r.Intn(4), budget)
		}
		return
	}
	switch k := r.Intn(10); {
	case k < 4 || budget < 2:
		g.f("term:call-builtin0")
		g.tok(g.pickBuiltin(c11Builtins0))
	case k < 5:
		g.smallRange()
	case k < 9 || budget < 3:
		g.f("term:call-builtin1")
		g.callArgs(g.pickBuiltin(c11Builtins1), 1, budget)
	default:
		g.f("term:call-builtin2")
		name := gen.Pick(r, c11Builtins2)
		if name == "limit" || name == "nth" || name == "first" {
			if name == "first" {
				name = "limit"
			}
			g.tok(name, "(", fmt.Sprint(r.Intn(4)), ";")
			g.query(0, true, "args", budget-2)
			g.tok(")")
			return
		}
		g.callArgs(name, 2, budget)
	}
}

func (g *c11Gen) callArgs(name string, arity int, budget int) {
	g.tok(name)
	if arity == 0 {
		return
	}
	g.f(fmt.Sprintf("call:arity%d", min(arity, 3)))
	g.tok("(")
	for i := 0; i < arity; i++ {
		if i > 0 {
			g.tok(";")
		}
		g.query(0, true, "args", max(1, (budget-1)/arity))
	}
	g.tok(")")
}

func (g *c11Gen) objectKeyIdent() string {
	if g.r.Intn(3) == 0 {
		g.f("object:keyword-key")
		return gen.Pick(g.r, c11Keywords)
	}
	return gen.Pick(g.r, c11PlainIdents)
}

// objectVal: objectval '|' objectval | expr
func (g *c11Gen) objectVal(budget int) {
	n := 1
	if budget >= 3 && g.r.Intn(5) == 0 {
		n = 2 + g.r.Intn(2)
		g.f("object:value-pipe")
	}
	for i := 0; i < n; i++ {
		if i > 0 {
			g.tok("|")
		}
		g.query(3, false, "objectval", max(1, budget/n))
	}
}

func (g *c11Gen) object(budget int) {
	r := g.r
	g.f("term:object")
	g.tok("{")
	n := 1 + r.Intn(4)
	per := max(1, (budget-1)/n)
	for i := 0; i < n; i++ {
		if i > 0 {
			g.tok(",")
		}
		switch k := r.Intn(12); {
		case k < 3:
			g.f("object:ident-value")
			g.tok(g.objectKeyIdent(), ":")
			g.objectVal(per)
		case k < 4:
			g.f("object:ident-shorthand")
			g.tok(g.objectKeyIdent())
		case k < 5:
			if len(g.vars) > 0 || !g.vanilla {
				g.f("object:variable-shorthand")
				if len(g.vars) > 0 {
					g.tok(gen.Pick(r, g.vars))
				} else {
					g.tok("$free")
				}
			} else {
				g.f("object:ident-shorthand")
				g.tok(g.objectKeyIdent())
			}
		case k < 6:
			if len(g.vars) > 0 {
				g.f("object:variable-key-value")
				g.tok(gen.Pick(r, g.vars), ":")
				g.objectVal(per)
			} else if !g.vanilla {
				g.f("object:$__loc__-shorthand")
				g.tok("$__loc__")
			} else {
				g.f("object:ident-shorthand")
				g.tok(g.objectKeyIdent())
			}
		case k < 8:
			g.f("object:string-value")
			g.stringLit(per, true)
			g.tok(":")
			g.objectVal(per)
		case k < 9:
			g.f("object:string-shorthand")
			g.stringLit(per, true)
		default:
			g.f("object:query-key")
			g.tok("(")
			g.query(0, true, "objectkey", max(1, per/2))
			g.tok(")", ":")
			g.objectVal(max(1, per/2))
		}
	}
	if r.Intn(10) == 0 {
		g.f("object:trailing-comma")
		g.tok(",")
	}
	g.tok("}")
}

func (g *c11Gen) ifTerm(budget int) {
	r := g.r
	g.f("term:if")
	nel := 0
	if budget >= 6 && r.Intn(3) == 0 {
		nel = 1 + r.Intn(2)
	}
	hasElse := r.Intn(3) != 0
	parts := 2 + 2*nel
	if hasElse {
		parts++
	}
	per := max(1, (budget-1)/parts)
	g.tok("if")
	g.query(0, true, "if", per)
	g.tok("then")
	g.query(0, true, "if", per)
	for i := 0; i < nel; i++ {
		g.f("if:elif")
		g.tok("elif")
		g.query(0, true, "if", per)
		g.tok("then")
		g.query(0, true, "if", per)
	}
	if hasElse {
		g.tok("else")
		g.query(0, true, "if", per)
	} else {
		g.f("if:no-else")
	}
	g.tok("end")
}

// source of reduce/foreach: `expr` (level >= 3); in vanilla mode biased to finite generators
func (g *c11Gen) iterSource(budget int) {
	if budget <= 2 || g.r.Intn(3) == 0 {
		switch g.r.Intn(4) {
		case 0:
			g.smallRange()
		case 1:
			g.tok(".", "[", "]")
		case 2:
			g.tok("(", "1", ",", "2", ",", "3", ")")
		default:
			g.tok(".")
		}
		return
	}
	g.query(3, false, "iter-source", budget)
}

func (g *c11Gen) reduceTerm(budget int) {
	g.f("term:reduce")
	per := max(1, (budget-1)/3)
	g.tok("reduce")
	g.iterSource(per)
	g.tok("as")
	g.withScope(func() {
		var pv []string
		g.pattern(2, &pv)
		g.tok("(")
		g.query(0, true, "reduce", per) // pattern variables are NOT visible in the start query
		g.tok(";")
		g.vars = append(g.vars, pv...)
		g.query(0, true, "reduce", per)
		g.tok(")")
	})
}

func (g *c11Gen) foreachTerm(budget int) {
	g.f("term:foreach")
	three := g.r.Bool()
	per := max(1, (budget-1)/4)
	g.tok("foreach")
	g.iterSource(per)
	g.tok("as")
	g.withScope(func() {
		var pv []string
		g.pattern(2, &pv)
		g.tok("(")
		g.query(0, true, "foreach", per)
		g.tok(";")
		g.vars = append(g.vars, pv...)
		g.query(0, true, "foreach", per)
		if three {
			g.f("foreach:extract")
			g.tok(";")
			g.query(0, true, "foreach", per)
		}
		g.tok(")")
	})
}

// pattern: $name | [p, ...] | {objectpattern, ...}; names are appended to *pv (not yet in scope: key
// queries of an object pattern are evaluated in the enclosing scope plus the preceding `$name:` keys)
func (g *c11Gen) pattern(depth int, pv *[]string) {
	r := g.r
	k := r.Intn(10)
	if depth <= 0 {
		k = 0
	}
	switch {
	case k < 5:
		g.f("pattern:variable")
		v := g.freshVar()
		*pv = append(*pv, v)
		g.tok(v)
	case k < 7:
		g.f("pattern:array")
		g.tok("[")
		for i, n := 0, 1+r.Intn(3); i < n; i++ {
			if i > 0 {
				g.tok(",")
			}
			g.pattern(depth-1, pv)
		}
		g.tok("]")
	default:
		g.f("pattern:object")
		g.tok("{")
		for i, n := 0, 1+r.Intn(3); i < n; i++ {
			if i > 0 {
				g.tok(",")
			}
			switch r.Intn(7) {
			case 0:
				g.f("pattern:object-variable-shorthand")
				v := g.freshVar()
				*pv = append(*pv, v)
				g.tok(v)
			case 1:
				g.f("pattern:object-variable-key")
				v := g.freshVar()
				*pv = append(*pv, v)
				g.tok(v, ":")
				g.pattern(depth-1, pv)
			case 2:
				g.f("pattern:object-keyword-key")
				g.tok(gen.Pick(r, c11Keywords), ":")
				g.pattern(depth-1, pv)
			case 3:
				g.f("pattern:object-string-key")
				g.stringLit(2, true)
				g.tok(":")
				g.pattern(depth-1, pv)
			case 4:
				g.f("pattern:object-query-key")
				g.tok("(")
				g.query(0, true, "patternkey", 2)
				g.tok(")", ":")
				g.pattern(depth-1, pv)
			default:
				g.f("pattern:object-ident-key")
				g.tok(gen.Pick(r, c11PlainIdents), ":")
				g.pattern(depth-1, pv)
			}
		}
		g.tok("}")
	}
}

// bracketSuffix: [q] [q:q] [q:] [:q] []
func (g *c11Gen) bracketSuffix(budget int) {
	r := g.r
	g.tok("[")
	switch r.Intn(6) {
	case 0:
		g.f("suffix:iterate")
	case 1:
		g.f("suffix:slice-both")
		g.query(0, true, "slice", max(1, budget/2))
		g.tok(":")
		g.query(0, true, "slice", max(1, budget/2))
	case 2:
		g.f("suffix:slice-from")
		g.query(0, true, "slice", budget)
		g.tok(":")
	case 3:
		g.f("suffix:slice-to")
		g.tok(":")
		g.query(0, true, "slice", budget)
	default:
		g.f("suffix:index")
		g.query(0, true, "index", budget)
	}
	g.tok("]")
}

// postfix emits a primary followed by 0..n suffixes
func (g *c11Gen) postfix(budget int) {
	r := g.r
	ns := 0
	if budget >= 2 {
		switch r.Intn(9) {
		case 0, 1:
			ns = 1
		case 2:
			ns = 2
		case 3:
			ns = r.Intn(5)
		}
	}
	ns = min(ns, budget-1)
	g.primary(max(1, budget-ns))
	for i := 0; i < ns; i++ {
		switch k := r.Intn(12); {
		case k < 3:
			g.f("suffix:name")
			if r.Intn(6) == 0 {
				g.tok("\x01." + gen.Pick(r, c11Keywords))
			} else {
				g.tok("\x01." + gen.Pick(r, c11PlainIdents))
			}
		case k < 4:
			g.f("suffix:string")
			g.tok("\x01.")
			g.stringLit(1, g.r.Intn(3) == 0)
		case k < 5:
			g.f("suffix:dot-bracket")
			g.tok("\x01.")
			g.bracketSuffix(1)
		case k < 8:
			g.tok("\x01")
			g.bracketSuffix(1)
		default:
			g.f("suffix:optional")
			if n := len(g.toks); n > 0 && g.toks[n-1] == "\x01?" {
				g.f("suffix:optional-stacked")
			}
			g.tok("\x01?")
		}
	}
}

// ---- queries ----

type c11Prod struct {
	kind  string
	level int
	open  bool // right-open form
	w     int
}

var c11Prods = []c11Prod{
	{"pipe", 1, false, 10}, {"comma", 2, false, 8}, {"alt", 3, false, 5}, {"update", 4, false, 5}, {"or", 5, false, 3},
	{"and", 6, false, 3}, {"compare", 7, false, 5}, {"additive", 8, false, 8}, {"multiplicative", 9, false, 6},
	{"bind", 0, true, 7}, {"label", 0, true, 3}, {"def", 0, true, 5}, {"unary", 10, false, 4}, {"try", 10, false, 5}, {"term", 11, false, 22},
}

var c11UpdateOps = []string{"=", "|=", "+=", "-=", "*=", "/=", "%=", "//="}
var c11CompareOps = []string{"==", "!=", "<", "<=", ">", ">="}

func (g *c11Gen) pickProd(budget int) c11Prod {
	tot := 0
	for _, p := range c11Prods {
		tot += p.w
	}
	for {
		k := g.r.Intn(tot)
		for _, p := range c11Prods {
			if k < p.w {
				if budget < 3 && p.level < 10 {
					break
				}
				if budget < 2 && p.level < 11 {
					break
				}
				return p
			}
			k -= p.w
		}
	}
}

// query emits a query that may stand where a construct of level >= min is required; open tells whether a
// right-open form may stand here without parentheses.
func (g *c11Gen) query(min int, open bool, parent string, budget int) {
	r := g.r
	p := g.pickProd(budget)
	need := p.level < min || (p.open && !open)
	if need && r.Bool() {
		// bias towards text that needs few parentheses
		p = g.pickProd(budget)
		need = p.level < min || (p.open && !open)
	}
	if need {
		g.paren[p.kind+"-in-"+parent]++
		g.f("paren:required")
		g.parenthesised(p, budget)
		return
	}
	if p.kind != "term" && budget >= 2 && r.Intn(12) == 0 {
		g.f("paren:redundant")
		g.parenthesised(p, budget-1)
		return
	}
	g.prod(p, open, budget)
}

func (g *c11Gen) parenthesised(p c11Prod, budget int) {
	g.tok("(")
	g.prod(p, true, max(1, budget))
	g.tok(")")
	// a parenthesised query is a primary: it may take suffixes
	if g.r.Intn(8) == 0 {
		g.f("suffix:after-paren")
		if g.r.Bool() {
			g.tok("\x01?")
		} else {
			g.tok("\x01")
			g.bracketSuffix(1)
		}
	}
}

func (g *c11Gen) binary(kind, op string, lmin, rmin int, open bool, budget int) {
	g.f("op:" + op)
	lb := 1 + g.r.Intn(max(1, budget-2))
	g.query(lmin, false, kind, lb)
	g.tok(op)
	g.query(rmin, open && (kind == "pipe" || kind == "comma"), kind, max(1, budget-1-lb))
}

func (g *c11Gen) prod(p c11Prod, open bool, budget int) {
	r := g.r
	switch p.kind {
	case "pipe":
		g.binary("pipe", "|", 2, 1, open, budget)
	case "comma":
		g.binary("comma", ",", 2, 3, open, budget)
	case "alt":
		g.binary("alt", "//", 4, 3, open, budget)
	case "update":
		g.binary("update", gen.Pick(r, c11UpdateOps), 5, 5, open, budget)
	case "or":
		g.binary("or", "or", 5, 6, open, budget)
	case "and":
		g.binary("and", "and", 6, 7, open, budget)
	case "compare":
		g.binary("compare", gen.Pick(r, c11CompareOps), 8, 8, open, budget)
	case "additive":
		g.binary("additive", gen.Pick(r, []string{"+", "-"}), 8, 9, open, budget)
	case "multiplicative":
		g.binary("multiplicative", gen.Pick(r, []string{"*", "/", "%"}), 9, 10, open, budget)
	case "unary":
		op := "-"
		if r.Intn(4) == 0 {
			op = "+"
		}
		g.f("op:unary" + op)
		if n := len(g.toks); n > 0 && (g.toks[n-1] == "\x02-" || g.toks[n-1] == "\x02+") {
			g.f("op:unary-chain")
		}
		g.tok("\x02" + op)
		g.query(10, false, "unary", budget-1)
	case "try":
		g.f("term:try")
		hasCatch := r.Bool()
		g.tok("try")
		if hasCatch {
			g.f("try:catch")
			per := max(1, (budget-1)/2)
			// dangling catch: a body ending in a catch-less try would capture our catch
			g.query(11, false, "try-body", per)
			g.tok("catch")
			g.query(10, false, "catch-body", per)
		} else {
			g.query(10, false, "try-body", budget-1)
		}
	case "term":
		g.postfix(budget)
	case "bind":
		g.f("query:bind")
		per := max(1, (budget-1)/2)
		g.query(10, false, "bind-source", per)
		g.tok("as")
		g.withScope(func() {
			var pv []string
			g.pattern(2, &pv)
			for r.Intn(5) == 0 {
				g.f("bind:destructuring-alternative")
				g.tok("?//")
				g.pattern(2, &pv)
			}
			g.vars = append(g.vars, pv...)
			g.tok("|")
			g.query(0, true, "bind-body", per)
		})
	case "label":
		g.f("query:label")
		g.withScope(func() {
			l := "$" + gen.Pick(r, []string{"out", "l", "brk", "f", "__loc__"})
			g.tok("label", l, "|")
			g.labels = append(g.labels, l)
			g.query(0, true, "label-body", budget-1)
		})
	case "def":
		g.f("query:def")
		g.withScope(func() {
			nd := 1
			if r.Intn(4) == 0 {
				nd = 2
			}
			for i := 0; i < nd; i++ {
				g.funcDef(max(1, (budget-1)/(nd+1)))
			}
			g.query(0, true, "def-rest", max(1, (budget-1)/(nd+1)))
		})
	}
}

// funcDef emits `def name(params): body;` and adds name/arity to the scope AFTER the body (no recursion:
// inside the body any same-named function of the same arity is hidden, because there it would denote the
// function itself and could recurse forever)
func (g *c11Gen) funcDef(budget int) {
	r := g.r
	name := g.freshFuncName()
	np := 0
	switch r.Intn(5) {
	case 0, 1:
		np = 1
	case 2:
		np = 2 + r.Intn(2)
	}
	g.tok("def", name)
	var fparams []c11Fn
	var vparams []string
	if np > 0 {
		g.tok("(")
		for i := 0; i < np; i++ {
			if i > 0 {
				g.tok(";")
			}
			if r.Bool() {
				g.f("def:$param")
				v := fmt.Sprintf("$p%d", i)
				if r.Intn(3) == 0 {
					v = g.freshVar()
				}
				vparams = append(vparams, v)
				g.tok(v)
			} else {
				g.f("def:closure-param")
				pn := fmt.Sprintf("q%d", i)
				fparams = append(fparams, c11Fn{pn, 0})
				g.tok(pn)
			}
		}
		g.tok(")")
	} else {
		g.f("def:no-params")
	}
	g.tok(":")
	g.withScope(func() {
		// hide same name/arity
		var keep []c11Fn
		for _, fn := range g.funcs {
			if !(fn.name == name && fn.arity == np) {
				keep = append(keep, fn)
			}
		}
		g.funcs = append(keep, fparams...)
		g.vars = append(g.vars, vparams...)
		if len(g.funcs) > 0 && r.Intn(3) == 0 {
			g.f("def:nested-candidate")
		}
		g.query(0, true, "def-body", budget-1)
	})
	g.tok(";")
	g.funcs = append(g.funcs, c11Fn{name, np})
}

// directives: module / import / include (monitor 1 only; they need not resolve)
func (g *c11Gen) constTerm(depth int) {
	r := g.r
	k := r.Intn(9)
	if depth <= 0 && k >= 7 {
		k = r.Intn(7)
	}
	switch k {
	case 0:
		g.tok("null")
	case 1:
		g.tok("true")
	case 2:
		g.tok("false")
	case 3, 4:
		g.tok(g.number())
	case 5:
		g.tok(gen.Pick(r, []string{`""`, `"a"`, `"x\ny"`, `"é"`, "`raw\\n`", `"A"`, `"a b"`}))
	case 6:
		g.tok(gen.Pick(r, []string{"[", "{"}))
		if g.toks[len(g.toks)-1] == "[" {
			g.tok("]")
		} else {
			g.tok("}")
		}
	case 7:
		g.tok("[")
		for i, n := 0, 1+r.Intn(3); i < n; i++ {
			if i > 0 {
				g.tok(",")
			}
			g.constTerm(depth - 1)
		}
		g.tok("]")
	default:
		g.constObject(depth - 1)
	}
}

func (g *c11Gen) constObject(depth int) {
	r := g.r
	g.tok("{")
	n := r.Intn(4)
	for i := 0; i < n; i++ {
		if i > 0 {
			g.tok(",")
		}
		switch r.Intn(3) {
		case 0:
			g.tok(gen.Pick(r, c11PlainIdents))
		case 1:
			g.tok(gen.Pick(r, c11Keywords))
		default:
			g.tok(gen.Pick(r, []string{`""`, `"a"`, `"search"`, `"k k"`, "`r`", `"\n"`}))
		}
		g.tok(":")
		g.constTerm(depth)
	}
	if n > 0 && r.Intn(8) == 0 {
		g.tok(",")
	}
	g.tok("}")
}

func (g *c11Gen) directives() {
	r := g.r
	if r.Intn(3) == 0 {
		g.f("directive:module")
		g.tok("module")
		g.constObject(2)
		g.tok(";")
	}
	for i, n := 0, r.Intn(3); i < n; i++ {
		path := gen.Pick(r, []string{`"a"`, `"./lib/x"`, `"m.jq"`, `"é"`, `""`, "`raw`", `"a\"b"`, `"nonexisting?"`, `"@builtin/x"`})
		if r.Bool() {
			alias := gen.Pick(r, []string{"m", "$m", "a", "$data", "_x"})
			g.f("directive:import")
			if path == `""` {
				g.f("directive:import-empty-path")
			}
			g.tok("import", path, "as", alias)
		} else {
			g.f("directive:include")
			g.tok("include", path)
		}
		if r.Intn(3) == 0 {
			g.f("directive:meta")
			g.constObject(2)
		}
		g.tok(";")
	}
}

// ---- text assembly ----

// c11Join joins tokens. A leading \x01 marks a suffix token (glued to the previous token when lexically
// safe), \x02 a unary operator (glued to its operand). Spaces that the lexer needs are always kept.
func c11Join(toks []string, r *gen.Rand, newlines bool) string {
	var sb strings.Builder
	prev := ""
	prevUnary := false
	for i, t := range toks {
		suffix, unary := false, false
		if strings.HasPrefix(t, "\x01") {
			suffix, t = true, t[1:]
		} else if strings.HasPrefix(t, "\x02") {
			unary, t = true, t[1:]
		}
		if t == "" {
			continue
		}
		if i > 0 && prev != "" {
			must := c11NeedSpace(prev, t)
			glue := false
			switch {
			case prevUnary:
				glue = r == nil || r.Intn(5) != 0
			case suffix:
				glue = r == nil || r.Intn(10) != 0
			case prev == "(" || prev == "[" || t == ")" || t == "]" || t == ";" || t == "," || (prev == "." && (t == "[" || t[0] == '"' || t[0] == '`')):
				glue = r == nil || r.Intn(6) != 0
			case t == "(" && c11IsWord(prev[len(prev)-1]) && !c11IsKeyword(prev):
				glue = r == nil || r.Intn(8) != 0 // f(x)
			case t == ":" || prev == "{" || t == "}":
				glue = r != nil && r.Intn(3) == 0
			default:
				glue = r != nil && r.Intn(15) == 0 // 1+2, .a|.b
			}
			if must || !glue {
				if r != nil && newlines && r.Intn(25) == 0 {
					if r.Bool() {
						sb.WriteString(" # c " + gen.Pick(r, []string{"| error", "\"", "x \\ y", "\\\\", ")", "é"}) + "\n")
					} else {
						sb.WriteString(gen.Pick(r, []string{"\n", "\t", "  ", "\r\n", "\n  "}))
					}
				} else {
					sb.WriteByte(' ')
				}
			}
		}
		sb.WriteString(t)
		prev, prevUnary = t, unary
	}
	return sb.String()
}

func c11IsWord(c byte) bool {
	return c >= 'a' && c <= 'z' || c >= 'A' && c <= 'Z' || c >= '0' && c <= '9' || c == '_'
}

func c11IsKeyword(s string) bool {
	for _, k := range c11Keywords {
		if k == s {
			return true
		}
	}
	return false
}

const c11OpChars = "|/?-+*%=<>!:"

// c11NeedSpace: would prev immediately followed by next lex differently?
func c11NeedSpace(prev, next string) bool {
	p, n := prev[len(prev)-1], next[0]
	if prev[0] == '"' || prev[0] == '`' {
		return false // a string literal is self-delimiting
	}
	if c11IsWord(p) && c11IsWord(n) {
		return true
	}
	if n == '.' && (p == '.' || p >= '0' && p <= '9') {
		// `1.a` / `..a` / `. .a`: after a number or a dot a following dot would merge. (also true for `x1 .a`,
		// harmless)
		return true
	}
	if p == '.' && (c11IsWord(n) || n == '.') {
		return true
	}
	if strings.IndexByte(c11OpChars, p) >= 0 && strings.IndexByte(c11OpChars, n) >= 0 {
		if prev == "?" && next == "?" {
			return false
		}
		if (prev == "-" || prev == "+") && (next == "-" || next == "+") {
			return false // `--1` lexes as two minus tokens
		}
		return true
	}
	if c11IsWord(p) && n == ':' {
		return false
	}
	if p == ':' && n == ':' {
		return true
	}
	return false
}

// c11Program is one generated case
type c11Program struct {
	Text     string
	Class    string // "vanilla", "directive", "wrap"
	Top      string // top-level construct
	Feat     map[string]int
	Paren    map[string]int
	Trailing bool // ends in a comment
	WrapForm string
	FailsMid bool
	BareDefs bool
}

func (g *c11Gen) finish(class, top string, r *gen.Rand) c11Program {
	text := c11Join(g.toks, r, true)
	p := c11Program{Class: class, Top: top, Feat: g.feat, Paren: g.paren}
	if r.Intn(12) == 0 || (class == "wrap" && r.Intn(3) == 0) {
		p.Trailing = true
		g.f("lexical:trailing-comment")
		text += gen.Pick(r, []string{" # x", "#", " # | error(\"c\")", " # \\", "\t# é \"", " # )"})
	}
	p.Text = text
	return p
}

// c11GenProgram generates case id of the run. size = AST node budget.
func c11GenProgram(rng *gen.Rand, class string, size int) c11Program {
	g := c11NewGen(rng)
	// budget counts productions; the parsed AST has about 1.5 nodes per production (suffixes, patterns, string
	// parts); c11MakeCase gates on the real node count
	bmax := max(3, size*2/3)
	budget := 2 + rng.Intn(bmax-1)
	if rng.Intn(4) == 0 {
		budget = bmax
	}
	switch class {
	case "directive":
		g.vanilla = false
		g.directives()
		switch rng.Intn(8) {
		case 0:
			// directives only (body: empty funcdefs)
			g.f("program:no-body")
			return g.finish(class, "no-body", rng)
		case 1:
			g.f("program:defs-only")
			g.withScope(func() {
				for i, n := 0, 1+rng.Intn(2); i < n; i++ {
					g.funcDef(max(2, budget/2))
				}
			})
			p := g.finish(class, "defs-only", rng)
			p.BareDefs = true
			return p
		}
		top := g.pickProd(budget)
		g.prod(top, true, budget)
		return g.finish(class, top.kind, rng)
	case "wrap":
		return c11GenWrap(g, rng, budget)
	default:
		g.vanilla, g.small = true, true
		top := g.pickProd(budget)
		g.prod(top, true, budget)
		return g.finish(class, top.kind, rng)
	}
}

// c11GenWrap: programs aimed at the CLI wrapper (`inputs | try (P) catch _cli_eval_on_expr_error | _cli_display`)
func c11GenWrap(g *c11Gen, rng *gen.Rand, budget int) c11Program {
	g.vanilla, g.small, g.wrapNames = true, true, true
	budget = min(budget, 14)
	form := gen.Pick(rng, []string{"def-wrapper-name", "def-wrapper-name", "bind-wrapper-var", "bind-wrapper-var", "bare-def-identity", "defs-only",
		"top-comma", "top-pipe", "top-alt", "top-as", "top-label", "top-reduce", "top-unary", "top-update", "top-try", "fails-midway", "fails-midway", "fails-midway", "general", "general"})
	g.f("wrap-form:" + form)
	failsMid := false
	errExpr := func() {
		g.tok("error", "(")
		switch rng.Intn(8) {
		case 0:
			g.tok("null")
			g.f("wrap-error:null")
		case 1:
			g.tok("{", "a", ":", "1", "}")
			g.f("wrap-error:object")
		case 2:
			g.tok("[", "1", "]")
			g.f("wrap-error:array")
		case 3:
			g.tok("3")
			g.f("wrap-error:number")
		case 4:
			g.tok("{", "error", ":", "\"e\"", ",", "what", ":", "\"w\"", "}")
			g.f("wrap-error:compile-error-lookalike")
		default:
			g.tok(gen.Pick(rng, []string{`"x"`, `"boom\nline"`, `""`, `"é"`}))
			g.f("wrap-error:string")
		}
		g.tok(")")
	}
	switch form {
	case "def-wrapper-name":
		g.withScope(func() {
			n := 1 + rng.Intn(2)
			for i := 0; i < n; i++ {
				g.funcDef(max(2, budget/3))
			}
			g.f("query:def")
			g.query(0, true, "def-rest", max(2, budget/2))
		})
	case "bind-wrapper-var":
		g.prod(c11Prod{"bind", 0, true, 1}, true, max(4, budget))
	case "bare-def-identity":
		g.withScope(func() {
			g.funcDef(max(2, budget/2))
			g.tok(".")
		})
	case "defs-only":
		g.withScope(func() {
			for i, n := 0, 1+rng.Intn(2); i < n; i++ {
				g.funcDef(max(2, budget/2))
			}
		})
	case "top-comma":
		g.prod(c11Prod{"comma", 2, false, 1}, true, max(3, budget))
	case "top-pipe":
		g.prod(c11Prod{"pipe", 1, false, 1}, true, max(3, budget))
	case "top-alt":
		g.prod(c11Prod{"alt", 3, false, 1}, true, max(3, budget))
	case "top-as":
		g.prod(c11Prod{"bind", 0, true, 1}, true, max(4, budget))
	case "top-label":
		g.prod(c11Prod{"label", 0, true, 1}, true, max(3, budget))
	case "top-reduce":
		g.reduceTerm(max(4, budget))
	case "top-unary":
		g.prod(c11Prod{"unary", 10, false, 1}, true, max(2, budget))
	case "top-update":
		g.prod(c11Prod{"update", 4, false, 1}, true, max(3, budget))
	case "top-try":
		g.prod(c11Prod{"try", 10, false, 1}, true, max(2, budget))
	case "fails-midway":
		failsMid = true
		switch rng.Intn(4) {
		case 0: // values, error, values
			g.query(3, false, "comma", max(1, budget/3))
			g.tok(",")
			errExpr()
			g.tok(",")
			g.query(3, false, "comma", max(1, budget/3))
		case 1:
			g.tok("(", "1", ",", "2", ",", "3", ")", "|", "if", ".", "==", fmt.Sprint(1+rng.Intn(3)), "then")
			errExpr()
			g.tok("else")
			g.query(0, true, "if", max(1, budget/2))
			g.tok("end")
		case 2:
			g.query(2, false, "pipe", max(1, budget/2))
			g.tok("|")
			errExpr()
		default:
			g.tok("[", "2", ",", "1", ",", "0", ",", "3", "]", "|", ".", "[", "]", "|", "6", "/", ".")
		}
	default:
		top := g.pickProd(budget)
		g.prod(top, true, budget)
		form = "general:" + top.kind
	}
	p := g.finish("wrap", form, rng)
	p.WrapForm, p.FailsMid = form, failsMid
	p.BareDefs = form == "defs-only"
	return p
}
