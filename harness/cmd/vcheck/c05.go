package main

// C05 — tobytes/tobits of a value are exactly the input bits of its range.
// Boundary: jq on a live interpreter (decode via `open | decode(F; {force})`), results read as
// interp.Binary; reference: the INPUT FILE bytes for values of the top-level buffer, the nested
// root's own reader for nested buffers. Plus raw stdout of the CLI and every bits_format renderer.

import (
	"bytes"
	"context"
	"crypto/md5"
	"encoding/base64"
	"encoding/hex"
	"fmt"
	"strconv"
	"strings"
	"sync"

	"github.com/wader/fq/pkg/bitio"
	"github.com/wader/fq/pkg/decode"
	"github.com/wader/fq/pkg/interp"
	"github.com/wader/fq/pkg/scalar"

	"verif/ev"
	"verif/fqx"
	"verif/gen"
	"verif/vos"
)

func init() { register("C05", c05Main) }

var (
	treeSessOnce sync.Once
	treeSess     *fqx.Session
)

func treeSession() *fqx.Session {
	treeSessOnce.Do(func() { treeSess = fqx.NewSession() })
	return treeSess
}

// jqDecode decodes data through the jq layer and returns the root decode value.
// jqDecodeSliced decodes data as a SLICE of a larger binary (`.[p:p+n] | decode(F)`): the slice is the input.
func jqDecodeSliced(s *fqx.Session, data []byte, format string, force bool, prefix, suffix []byte) (interp.DecodeValue, error, *fqx.PanicInfo) {
	whole := append(append(append([]byte(nil), prefix...), data...), suffix...)
	in, berr := interp.NewBinaryFromBitReader(bitio.NewBitReader(whole, -1), 8, 0)
	if berr != nil {
		return nil, berr, nil
	}
	var outs []any
	var err error
	pi := guardStack(func() {
		outs, err = s.Eval(in, fmt.Sprintf(`.[%d:%d] | decode(%q; {force: %v})`, len(prefix), len(prefix)+len(data), format, force))
	})
	if pi != nil {
		return nil, nil, pi
	}
	if err != nil {
		return nil, err, nil
	}
	if len(outs) != 1 {
		return nil, fmt.Errorf("decode produced %d outputs", len(outs)), nil
	}
	dv, ok := outs[0].(interp.DecodeValue)
	if !ok {
		return nil, fmt.Errorf("decode produced %T", outs[0]), nil
	}
	return dv, nil, nil
}

func jqDecode(s *fqx.Session, data []byte, format string, force bool) (interp.DecodeValue, error, *fqx.PanicInfo) {
	// the input is handed over as a binary value (what `open` yields, minus the context-bound file
	// reader whose context ends with the evaluation that opened it)
	in, berr := interp.NewBinaryFromBitReader(bitio.NewBitReader(data, -1), 8, 0)
	if berr != nil {
		return nil, berr, nil
	}
	var outs []any
	var err error
	pi := guardStack(func() {
		outs, err = s.Eval(in, fmt.Sprintf(`decode(%q; {force: %v})`, format, force))
	})
	if pi != nil {
		return nil, nil, pi
	}
	if err != nil {
		return nil, err, nil
	}
	if len(outs) != 1 {
		return nil, fmt.Errorf("decode produced %d outputs", len(outs)), nil
	}
	dv, ok := outs[0].(interp.DecodeValue)
	if !ok {
		return nil, fmt.Errorf("decode produced %T", outs[0]), nil
	}
	return dv, nil, nil
}

// goPath: the path of v computed top-down by the harness (names for struct members, indices for arrays).
type pickedValue struct {
	V       *decode.Value
	Path    []any
	BufRoot *decode.Value
	FmtRoot *decode.Value
	Parents []*decode.Value // nearest first
}

// pickValues walks the tree top-down (never through Parent links) and selects up to max values:
// all unaligned, nested roots, gaps, values with errors, compounds near the root, and a PRNG sample of the rest.
func pickValues(root *decode.Value, rng *gen.Rand, max int) []pickedValue {
	var all []pickedValue
	var walk func(v *decode.Value, path []any, bufRoot, fmtRoot *decode.Value, parents []*decode.Value)
	walk = func(v *decode.Value, path []any, bufRoot, fmtRoot *decode.Value, parents []*decode.Value) {
		if v.IsRoot {
			bufRoot = v
		}
		if v.IsRoot || v.Format != nil {
			fmtRoot = v
		}
		all = append(all, pickedValue{V: v, Path: append([]any(nil), path...), BufRoot: bufRoot, FmtRoot: fmtRoot, Parents: parents})
		if c, ok := v.V.(*decode.Compound); ok {
			np := append([]*decode.Value{v}, parents...)
			for i, ch := range c.Children {
				var key any = ch.Name
				if c.IsArray {
					key = i
				}
				walk(ch, append(path, key), bufRoot, fmtRoot, np)
			}
		}
	}
	walk(root, nil, root, root, nil)
	if len(all) <= max {
		return all
	}
	var must, rest []pickedValue
	for _, p := range all {
		v := p.V
		if v.IsRoot || isGap(v) || v.Err != nil || v.Range.Start%8 != 0 || v.Range.Len%8 != 0 || len(p.Path) <= 1 {
			must = append(must, p)
		} else {
			rest = append(rest, p)
		}
	}
	gen.Shuffle(rng, must)
	if len(must) > max*3/4 {
		must = must[:max*3/4]
	}
	gen.Shuffle(rng, rest)
	if len(rest) > max-len(must) {
		rest = rest[:max-len(must)]
	}
	return append(must, rest...)
}

func pathsOf(ps []pickedValue) []any {
	out := make([]any, len(ps))
	for i, p := range ps {
		out[i] = p.Path
	}
	return out
}

// refBits: the reference content of value p: INPUT bytes for the top-level buffer, own reader for nested ones.
func refBits(p pickedValue, top *decode.Value, input []byte) (bstr, error) {
	r := p.V.InnerRange()
	if p.BufRoot == top && !(p.V.IsRoot && p.V != top) {
		if p.V != top {
			// ranges of the top-level buffer are relative to where the decoded input starts (non-zero when the input
			// was a slice of a larger binary)
			r.Start -= top.Range.Start
		}
		if r.Start < 0 || r.Stop() > int64(len(input))*8 {
			return bstr{}, fmt.Errorf("range %s outside the %d-byte input", r, len(input))
		}
		return bstrFromBytes(input, -1).slice(r.Start, r.Len), nil
	}
	rd := p.V.RootReader
	b, err := readBitsOf(rd, r.Start, r.Len)
	if err != nil {
		return bstr{}, err
	}
	return bstr{b: b, n: r.Len}, nil
}

func binaryBits(b interp.Binary) (bstr, int, int64, error) {
	br, start, l, unit, pad := interp.BinaryParts(b)
	buf := make([]byte, (l+7)/8)
	if l > 0 {
		if _, err := bitio.ReadAtFull(br, buf, l, start); err != nil {
			return bstr{}, unit, pad, err
		}
	}
	return bstr{b: buf, n: l}, unit, pad, nil
}

func bstrEq(a, b bstr) bool {
	if a.n != b.n {
		return false
	}
	_, ok := eqBits(a.b, a.n, b, 0)
	return ok
}

func leftPadToByte(s bstr) bstr {
	pad := (8 - s.n%8) % 8
	var w bbuilder
	for i := int64(0); i < pad; i++ {
		w.add(0)
	}
	w.addStr(s, 0, s.n)
	return w.str()
}

const c05Prog = `. as {$r, $paths} | $paths[] as $p | $r | getpath($p) | [., (try tobits catch {e: .}), (try tobytes catch {e: .})]`

var c05BitsFormats = []string{"string", "hex", "base64", "byte_array", "md5", "truncate", "snippet"}

func c05Tree(run *ev.Run, j treeJob, k int) {
	s := treeSession()
	data := j.Data()
	rng := gen.New(run.Seed).Fork(0xC05000 + uint64(k))
	var dv interp.DecodeValue
	var err error
	var pi *fqx.PanicInfo
	sliced := j.Mut.Kind == "none" && k%5 == 2
	if sliced {
		// the input is a slice of a larger binary (`.[p:p+n] | decode`): the slice is "the input"
		dv, err, pi = jqDecodeSliced(s, data, j.Format, j.Force, rng.Bytes(1+rng.Intn(9)), rng.Bytes(rng.Intn(6)))
		run.Count("decode:input-is-a-slice-of-a-larger-binary", 1)
	} else {
		dv, err, pi = jqDecode(s, data, j.Format, j.Force)
	}
	run.Eval(1)
	if pi != nil {
		run.Count("decode:panicked (C06's subject)", 1)
		return
	}
	if err != nil || dv == nil {
		run.Count("decode:no-tree", 1)
		return
	}
	root := dv.DecodeValue()
	picked := pickValues(root, rng, 400)
	var outs []any
	pi = guardStack(func() {
		outs, err = s.Eval(map[string]any{"r": dv, "paths": pathsOf(picked)}, c05Prog)
	})
	if pi != nil {
		run.Violation("panic:tobits:"+panicSig(pi), fmt.Sprintf("%s: panic %v\n%s", j.Label, pi.Value, trunc(pi.Stack, 1500)), map[string]any{"case": j.Label})
		return
	}
	if err != nil || len(outs) != len(picked) {
		run.Violation("eval-failed:getpath-tobits", fmt.Sprintf("%s: evaluating getpath/tobits/tobytes over %d paths gave %d outputs, err %v", j.Label, len(picked), len(outs), err), map[string]any{"case": j.Label})
		return
	}
	nontrivial := false
	for i, p := range picked {
		row, _ := outs[i].([]any)
		if len(row) != 3 {
			continue
		}
		if gdv, ok := row[0].(interp.DecodeValue); !ok || gdv.DecodeValue() != p.V {
			// identity is C12's subject; here only make sure we compare the right value
			run.Count("skipped:getpath-returned-other-value", 1)
			continue
		}
		synthetic := isSynthetic(p.V)
		ref, rerr := refBits(p, root, data)
		if rerr != nil {
			run.Count("skipped:reference-unreadable (C03's subject)", 1)
			continue
		}
		for which, unitWant := range map[int]int{1: 1, 2: 8} {
			name := "tobits"
			want := ref
			if which == 2 {
				name = "tobytes"
				want = leftPadToByte(ref)
			}
			b, ok := row[which].(interp.Binary)
			if !ok {
				if synthetic {
					run.Count("observed:synthetic-value-not-a-binary", 1)
					continue
				}
				run.Violation(name+":not-a-binary", fmt.Sprintf("%s: %s of %s gave %v", j.Label, name, valuePathStr(p.V), row[which]), map[string]any{"case": j.Label, "path": valuePathStr(p.V)})
				continue
			}
			got, unit, _, berr := binaryBits(b)
			if berr != nil || unit != unitWant || !bstrEq(got, want) {
				kind := "aligned"
				if p.V.Range.Start%8 != 0 || p.V.Range.Len%8 != 0 {
					kind = "unaligned"
				}
				where := "top-buffer"
				if p.BufRoot != root || (p.V.IsRoot && p.V != root) {
					where = "nested-buffer"
				}
				if sliced {
					where += ":sliced-input"
					if p.V == root {
						where += ":root"
					}
				}
				run.Violation(name+":bits-differ:"+kind+":"+where, fmt.Sprintf("%s: %s of %s (range %s, root=%v): got %d bits unit %d (err %v) %s, want %d bits %s", j.Label, name, valuePathStr(p.V), p.V.Range, p.V.IsRoot, got.n, unit, berr, got, want.n, want), map[string]any{"case": j.Label, "path": valuePathStr(p.V)})
				continue
			}
			run.Count("compared:"+name, 1)
			run.Count("compared:bits", want.n)
		}
		if p.V.Range.Start%8 != 0 || p.V.Range.Len%8 != 0 {
			run.Count("compared:unaligned-values", 1)
			nontrivial = true
		}
		if p.BufRoot != root {
			run.Count("compared:values-in-nested-buffers", 1)
			nontrivial = true
		}
	}
	// bits_format renderers on raw leaves (a few per tree)
	c05BitsFormat(run, s, j, dv, root, data, picked, rng)
	// raw stdout of the CLI for one tree in eight
	if k%8 == 0 || strings.HasPrefix(j.Label, "generated:") {
		c05RawStdout(run, j, data, root, picked, rng)
	}
	if nontrivial {
		run.Distinct(labelKey(j.Label))
	}
}

func labelKey(label string) string {
	parts := strings.Split(label, "|")
	if len(parts) >= 3 {
		return parts[0] + "|" + parts[1] + "|" + strings.SplitN(parts[2], "(", 2)[0]
	}
	return label
}

func c05BitsFormat(run *ev.Run, s *fqx.Session, j treeJob, dv interp.DecodeValue, root *decode.Value, data []byte, picked []pickedValue, rng *gen.Rand) {
	var raws []pickedValue
	for _, p := range picked {
		// raw-bit leaves whose value IS the bits: no symbolic mapping (e.g. RawHex, reversed txid), not synthetic
		if bb, ok := p.V.V.(*scalar.BitBuf); ok && bb.Sym == nil && !bb.Flags.IsSynthetic() && p.V.Range.Len <= 16*1024*1024 {
			raws = append(raws, p)
		}
	}
	gen.Shuffle(rng, raws)
	if len(raws) > 6 {
		raws = raws[:6]
	}
	if len(raws) == 0 {
		return
	}
	var fs []string
	for _, f := range c05BitsFormats {
		fs = append(fs, fmt.Sprintf(`(try tovalue({bits_format: %q}) catch {e: .})`, f))
	}
	prog := `. as {$r, $paths} | $paths[] as $p | $r | getpath($p) | [` + strings.Join(fs, ",") + `]`
	var outs []any
	var err error
	pi := guardStack(func() { outs, err = s.Eval(map[string]any{"r": dv, "paths": pathsOf(raws)}, prog) })
	if pi != nil {
		run.Violation("panic:bits_format:"+panicSig(pi), fmt.Sprintf("%s: panic %v", j.Label, pi.Value), map[string]any{"case": j.Label})
		return
	}
	if err != nil || len(outs) != len(raws) {
		run.Violation("eval-failed:bits_format", fmt.Sprintf("%s: %d outputs err %v", j.Label, len(outs), err), map[string]any{"case": j.Label})
		return
	}
	for i, p := range raws {
		ref, rerr := refBits(p, root, data)
		if rerr != nil {
			continue
		}
		want := ref.bytesPadded() // byte renderers see the bits right-padded with zero bits
		row, _ := outs[i].([]any)
		for fi, f := range c05BitsFormats {
			if fi >= len(row) {
				break
			}
			ok := false
			detail := ""
			switch f {
			case "string":
				sv, isS := row[fi].(string)
				ok = isS && sv == string(want)
			case "hex":
				sv, isS := row[fi].(string)
				b, e := hex.DecodeString(sv)
				ok = isS && e == nil && bytes.Equal(b, want)
			case "base64":
				sv, isS := row[fi].(string)
				b, e := base64.StdEncoding.DecodeString(sv)
				ok = isS && e == nil && bytes.Equal(b, want)
			case "byte_array":
				a, isA := row[fi].([]any)
				if len(want) == 0 && row[fi] == nil {
					ok = true // empty raw field: null instead of [] (documented nowhere; harmless)
					break
				}
				ok = isA && len(a) == len(want)
				for k := 0; ok && k < len(a); k++ {
					n, isN := a[k].(int)
					ok = isN && n == int(want[k])
				}
			case "md5":
				sum := md5.Sum(want)
				sv, isS := row[fi].(string)
				ok = isS && sv == hex.EncodeToString(sum[:])
			case "truncate":
				w := want
				if len(w) > 1024 {
					w = w[:1024]
				}
				sv, isS := row[fi].(string)
				ok = isS && sv == string(w)
			case "snippet":
				w := want
				if len(w) > 256 {
					w = w[:256]
				}
				size := strconv.FormatInt(ref.n/8, 10)
				if ref.n%8 != 0 {
					size += "." + strconv.FormatInt(ref.n%8, 10)
				}
				sv, isS := row[fi].(string)
				wantS := "<" + size + ">" + base64.StdEncoding.EncodeToString(w)
				ok = isS && sv == wantS
				detail = " want " + trunc(wantS, 80)
			}
			run.Count("compared:bits_format:"+f, 1)
			if !ok {
				run.Violation("bits_format:"+f+":mismatch", fmt.Sprintf("%s: tovalue({bits_format:%q}) of %s (range %s) gave %s%s; reference bytes %x", j.Label, f, valuePathStr(p.V), p.V.Range, trunc(fmt.Sprintf("%#v", row[fi]), 200), detail, head(want)), map[string]any{"case": j.Label, "path": valuePathStr(p.V)})
			}
		}
	}
}

// jqPathExpr renders a harness path as a jq expression (only plain names and indices reach here).
func jqPathExpr(path []any) string {
	var sb strings.Builder
	for i, k := range path {
		switch kk := k.(type) {
		case int:
			if i == 0 {
				sb.WriteString(".") // `[0]` alone would be an array literal
			}
			fmt.Fprintf(&sb, "[%d]", kk)
		case string:
			fmt.Fprintf(&sb, ".%s", strconv.Quote(kk))
		}
	}
	if sb.Len() == 0 {
		return "."
	}
	return sb.String()
}

func c05RawStdout(run *ev.Run, j treeJob, data []byte, root *decode.Value, picked []pickedValue, rng *gen.Rand) {
	type rc struct {
		args []string
		want []byte
		what string
	}
	var cases []rc
	base := []string{"-d", j.Format}
	if j.Force {
		base = append(base, "-o", "force=true")
	}
	cases = append(cases, rc{append(append([]string{}, base...), "tobytes", "input"), data, "root:tobytes"})
	// the same buffer written twice in one run (a shared reader that is left at its end after the first write
	// would make the second output empty: seed C05-D)
	if len(data) <= 1<<20 {
		cases = append(cases, rc{append(append([]string{}, base...), "tobytes, tobytes", "input"), append(append([]byte{}, data...), data...), "root:tobytes-twice"})
	}
	// values of nested buffers (decompressed / reassembled data): reference = the nested root's own reader
	nestedTries := 0
	for _, p := range picked {
		if nestedTries >= 4 {
			break
		}
		if p.BufRoot == root && !(p.V.IsRoot && p.V != root) || isSynthetic(p.V) {
			continue
		}
		if _, isC := p.V.V.(*decode.Compound); isC && !p.V.IsRoot {
			continue
		}
		ref, err := refBits(p, root, data)
		if err != nil || ref.n > 1<<23 {
			continue
		}
		nestedTries++
		want := leftPadToByte(ref).bytesPadded()
		what := "nested-value:tobytes"
		if p.V.IsRoot {
			what = "nested-root:tobytes"
		}
		cases = append(cases, rc{append(append([]string{}, base...), "--", jqPathExpr(p.Path)+" | tobytes", "input"), want, what})
		if nestedTries == 1 {
			e := jqPathExpr(p.Path) + " | tobytes"
			cases = append(cases, rc{append(append([]string{}, base...), "--", "("+e+"), ("+e+")", "input"), append(append([]byte{}, want...), want...), what + "-twice"})
		}
	}
	tries := 3
	generated := strings.HasPrefix(j.Label, "generated:")
	if generated {
		tries = len(picked) - 1 // small generated trees: every value
	}
	for n := 0; n < tries && len(picked) > 1; n++ {
		p := picked[1+rng.Intn(len(picked)-1)]
		if generated {
			p = picked[1+n]
		}
		if isSynthetic(p.V) {
			continue
		}
		// only values addressable by a unique name path and in the top-level buffer (reference = input file)
		if p.BufRoot != root || p.V.IsRoot {
			continue
		}
		ref, err := refBits(p, root, data)
		if err != nil {
			continue
		}
		cases = append(cases, rc{append(append([]string{}, base...), "--", jqPathExpr(p.Path)+" | tobytes", "input"), leftPadToByte(ref).bytesPadded(), "value:tobytes"})
	}
	for _, c := range cases {
		o := vos.New(c.args...)
		o.Files["input"] = data
		o.StdoutV.Terminal = false // raw output mode like a pipe
		var res vos.Result
		pi := guardStack(func() { res = o.RunMain(context.Background(), fqx.Registry()) })
		run.Count("cli:"+c.what, 1)
		if pi != nil {
			run.Violation("panic:cli:"+panicSig(pi), fmt.Sprintf("%s: fq %v panicked: %v", j.Label, c.args, pi.Value), map[string]any{"case": j.Label, "args": c.args})
			continue
		}
		if res.Exit != 0 {
			run.Count("cli:nonzero-exit (decode errors are not this property's subject)", 1)
			continue
		}
		if !bytes.Equal(res.Stdout, c.want) {
			run.Violation("raw-stdout:"+c.what, fmt.Sprintf("%s: fq %v wrote %d bytes %x… want %d bytes %x…", j.Label, c.args, len(res.Stdout), head(res.Stdout), len(c.want), head(c.want)), map[string]any{"case": j.Label, "args": c.args})
		}
	}
}

func c05Main(args []string) {
	run := ev.NewRun("C05")
	run.Rule = "for corpus decodes (own formats/probe/force) and a PRNG slice of the mutation family, decoded through the jq layer: up to 400 values per tree (all roots, gaps, unaligned, errored + PRNG sample) -> tobits/tobytes read back as bit strings and compared with the INPUT FILE bits (top-level buffer) or the nested root's reader (nested buffers); bits_format renderers decoded back; raw CLI stdout of `tobytes`/`.`/`.path|tobytes`. non-trivial = tree with an unaligned value or a nested buffer; distinct = (file, format, mutation kind)"
	run.Assumptions = []string{
		"values inside nested buffers are compared against the nested root's own reader (its agreement with an independent decompressor is C15's subject)",
		"synthetic values have no bits (tobits fails by design)",
	}
	jobs := treeJobs(run.Seed, run.Thorough(), run.Pick(1500, 300000))
	if !run.Thorough() {
		// quick: the jq layer costs ~15 ms per evaluation; keep every 3rd corpus job
		var keep []treeJob
		for i, j := range jobs {
			if j.Mut.Kind != "none" || i%3 == int(run.Seed%3) {
				keep = append(keep, j)
			}
		}
		jobs = keep
	}
	// generated inputs with LARGE NON-BYTE-ALIGNED values (no corpus sample has one): ASN.1 BER BIT STRINGs with
	// 1..7 unused bits, payload 100 B .. 300 KiB (byte views of such values carry a sub-byte remainder through
	// every 64 KiB of the copy path)
	grng := gen.New(run.Seed).Fork(0xC05B17)
	sizes := []int{100, 5000, 66000, 70000, 140000, 300000}
	if run.Thorough() {
		sizes = append(sizes, 65535, 65536, 65537, 131072, 200000, 524288, 1000000)
	}
	for i, sz := range sizes {
		unused := 1 + (i+int(run.Seed))%7
		payload := grng.Bytes(sz)
		payload[sz-1] &= 0xff << uint(unused) // DER: unused bits are zero
		n := sz + 1
		der := []byte{0x03}
		switch {
		case n < 128:
			der = append(der, byte(n))
		case n < 1<<16:
			der = append(der, 0x82, byte(n>>8), byte(n))
		default:
			der = append(der, 0x83, byte(n>>16), byte(n>>8), byte(n))
		}
		der = append(der, byte(unused))
		der = append(der, payload...)
		jobs = append(jobs, treeJob{Label: fmt.Sprintf("generated:asn1-bitstring-%dB-unused%d|asn1_ber|none", sz, unused), Seed: der, Mut: mutation{Kind: "none"}, Format: "asn1_ber"})
	}
	isoRun(run, isoSpec{
		NJobs: len(jobs),
		Do:    func(run *ev.Run, k int) { c05Tree(run, jobs[k], k) },
		OnDeath: func(run *ev.Run, k int, kind string, tail string) {
			run.Count("worker-died:"+kind+" (C06's subject)", 1)
		},
	})
	run.Sample(map[string]any{"jobs": len(jobs), "first": jobs[0].Label, "program": c05Prog})
	run.Finish()
}
