package main

// C15 gif: image/gif.EncodeAll (GIF89a). Two layouts: one global colour table shared by all frames
// (Config.ColorModel set, frames use that palette) and per-frame local colour tables (no global table).
// The harness takes the sub-block data fq reports for each image, LZW-decodes it (compress/lzw, which fq does
// not use for gif) and compares the pixel indices with the frame that was stored.

import (
	"bytes"
	"compress/lzw"
	"encoding/hex"
	"fmt"
	"image"
	"image/color"
	"image/gif"
	"io"

	"verif/gen"
)

type c15GifExp struct {
	w, h      int
	global    color.Palette // nil: no global colour table
	frames    []*image.Paletted
	delays    []int
	disposals []byte
	loopCount int
}

func init() {
	c15Register(&c15Format{
		name: "gif",
		gen:  c15GenGif,
		jq: `{header, width, height, gcp_follows, bit_depth, ` +
			`global_color_map: (if .global_color_map == null then null else [.global_color_map[] | [.[0], .[1], .[2]]] end), ` +
			`images: [.blocks[]? | select(.separator_character != null) | {left, top, width, height, local_color_map_follows, image_interlaced, code_size, ` +
			`local_color_map: (if .local_color_map == null then null else [.local_color_map[] | [.[0], .[1], .[2]]] end), ` +
			`data: ([.image_bytes[] | (.data|hx)] | join(""))}], ` +
			`extensions: [.blocks[]? | select(.function_code != null) | {function_code: (.function_code|av), function_code_sym: (.function_code|sv), data: ([.func_data_bytes[] | (.data|hx)] | join(""))}], ` +
			`terminator}`,
		cks:     `[]`,
		compare: c15CmpGif,
		cause:   c15GifCause,
		ref: func(f *c15File, data []byte) error {
			_, err := gif.DecodeAll(bytes.NewReader(data))
			return err
		},
	})
}

func c15GifPalette(r *gen.Rand, n int) color.Palette {
	p := make(color.Palette, n)
	for i := range p {
		p[i] = color.RGBA{uint8(r.Intn(256)), uint8(r.Intn(256)), uint8(r.Intn(256)), 0xff}
	}
	return p
}

func c15GenGif(c *c15Ctx, r *gen.Rand, small bool) *c15File {
	opts := map[string]bool{}
	w, h := 1+r.Intn(40), 1+r.Intn(30)
	switch r.Intn(10) {
	case 0:
		w, h = 1+r.Intn(300), 1+r.Intn(200)
		opts["large"] = true
	case 1:
		w, h = 1, 1
	}
	n := c15Members(r, small, 1)
	if w*h > 10000 {
		n = min(n, 3)
	}
	exp := &c15GifExp{w: w, h: h}
	useGlobal := r.Intn(2) == 0
	sizes := []int{2, 3, 4, 7, 16, 33, 128, 256}
	if useGlobal {
		exp.global = c15GifPalette(r, gen.Pick(r, sizes))
		opts[fmt.Sprintf("global-table%d", len(exp.global))] = true
	} else {
		opts["local-tables"] = true
	}
	g := &gif.GIF{Config: image.Config{Width: w, Height: h}}
	if useGlobal {
		g.Config.ColorModel = exp.global
	}
	if r.Intn(2) == 0 {
		exp.loopCount = r.Intn(5)
		g.LoopCount = exp.loopCount
	} else {
		g.LoopCount = -1
		exp.loopCount = -1
	}
	for i := 0; i < n; i++ {
		// frame rectangle inside the logical screen
		x0, y0 := 0, 0
		x1, y1 := w, h
		if i > 0 && r.Intn(2) == 0 {
			x0, y0 = r.Intn(w), r.Intn(h)
			x1, y1 = x0+1+r.Intn(w-x0), y0+1+r.Intn(h-y0)
			opts["sub-rectangle"] = true
		}
		pal := exp.global
		if !useGlobal {
			pal = c15GifPalette(r, gen.Pick(r, sizes))
			opts[fmt.Sprintf("local-table%d", len(pal))] = true
		}
		m := image.NewPaletted(image.Rect(x0, y0, x1, y1), pal)
		noise := r.Intn(2) == 0
		for k := range m.Pix {
			if noise {
				m.Pix[k] = byte(r.Intn(len(pal)))
			} else {
				m.Pix[k] = byte((k / 5) % len(pal))
			}
		}
		g.Image = append(g.Image, m)
		d := r.Intn(50)
		g.Delay = append(g.Delay, d)
		disp := byte(r.Intn(4))
		g.Disposal = append(g.Disposal, disp)
		exp.disposals = append(exp.disposals, disp)
		exp.delays = append(exp.delays, d)
		exp.frames = append(exp.frames, m)
	}
	var buf bytes.Buffer
	if err := gif.EncodeAll(&buf, g); err != nil {
		panic(err)
	}
	f := &c15File{format: "gif", writer: "go", members: n, data: buf.Bytes(), exp: exp}
	for _, m := range exp.frames {
		f.payload += int64(len(m.Pix))
	}
	if n > 1 {
		opts["multi-frame"] = true
	}
	f.opts = c15Opts(opts)
	return f
}

func c15PalList(p color.Palette, padTo int) []any {
	var out []any
	for _, c := range p {
		rgba := c.(color.RGBA)
		out = append(out, []any{int(rgba.R), int(rgba.G), int(rgba.B)})
	}
	for len(out) < padTo {
		out = append(out, []any{0, 0, 0})
	}
	return out
}

func c15Pow2(n int) int {
	p := 2
	for p < n {
		p *= 2
	}
	return p
}

// c15GifCause marks disagreements on files with local colour tables. fq's image block reader (gif.go, "TODO:
// local color map") (1) reads "code_size" BEFORE the local colour table although the LZW minimum code size is
// the first byte of the image data that FOLLOWS the table (GIF89a §20-22), so even a 2-entry table is shifted by
// one byte, and (2) sizes every local table with the bit depth of the logical screen descriptor instead of the
// image descriptor's own size field. Files without local tables keep the plain signature.
func c15GifCause(f *c15File) string {
	if f.exp.(*c15GifExp).global == nil {
		return "gif-local-color-table"
	}
	return ""
}

func c15CmpGif(c *c15Ctx, f *c15File, got map[string]any) []c15Diff {
	exp := f.exp.(*c15GifExp)
	e := map[string]any{"header": "GIF89a", "width": exp.w, "height": exp.h, "gcp_follows": exp.global != nil, "terminator": 0x3b}
	if exp.global != nil {
		// colour tables are padded to a power of two (GIF89a §18: size = 2^(n+1))
		e["global_color_map"] = c15PalList(exp.global, c15Pow2(len(exp.global)))
	} else {
		e["global_color_map"] = nil
	}
	var imgs []any
	for _, m := range exp.frames {
		ie := map[string]any{"left": m.Rect.Min.X, "top": m.Rect.Min.Y, "width": m.Rect.Dx(), "height": m.Rect.Dy(), "image_interlaced": false,
			"local_color_map_follows": exp.global == nil}
		if exp.global == nil {
			ie["local_color_map"] = c15PalList(m.Palette, c15Pow2(len(m.Palette)))
		} else {
			ie["local_color_map"] = nil
		}
		imgs = append(imgs, ie)
	}
	e["images"] = imgs
	var diffs []c15Diff
	c15Cmp("gif", "", e, got, &diffs)
	if len(diffs) > 0 {
		return diffs
	}
	gi, _ := got["images"].([]any)
	for i, m := range exp.frames {
		im, _ := gi[i].(map[string]any)
		cs, ok := c15Num(im["code_size"])
		if !ok || cs.Int64() < 2 || cs.Int64() > 8 {
			return []c15Diff{{sig: "mismatch:gif:images[].code_size", desc: fmt.Sprintf("gif frame %d: LZW minimum code size reported as %v", i, im["code_size"])}}
		}
		s, _ := im["data"].(string)
		b, _ := hex.DecodeString(s)
		pix, err := io.ReadAll(lzw.NewReader(bytes.NewReader(b), lzw.LSB, int(cs.Int64())))
		if err != nil {
			return []c15Diff{{sig: "mismatch:gif:images[].data", desc: fmt.Sprintf("gif frame %d: the sub-block data fq reports does not LZW-decode: %v", i, err)}}
		}
		var want []byte
		for y := 0; y < m.Rect.Dy(); y++ {
			want = append(want, m.Pix[y*m.Stride:y*m.Stride+m.Rect.Dx()]...)
		}
		if !bytes.Equal(pix, want) {
			return []c15Diff{{sig: "mismatch:gif:images[].pixels", desc: fmt.Sprintf("gif frame %d (%v): pixel indices rebuilt from fq's sub-blocks differ from the stored frame (%d vs %d bytes)", i, m.Rect, len(pix), len(want))}}
		}
	}
	// extensions: one graphic control extension per frame (delay), NETSCAPE2.0 loop extension when looping
	exts, _ := got["extensions"].([]any)
	var gce [][]byte
	var loop []byte
	for _, x := range exts {
		m, _ := x.(map[string]any)
		fc, _ := c15Num(m["function_code"])
		s, _ := m["data"].(string)
		b, _ := hex.DecodeString(s)
		switch {
		case fc != nil && fc.Int64() == 0xf9:
			if m["function_code_sym"] != "GraphicalControl" {
				diffs = append(diffs, c15Diff{sig: "mismatch:gif:extensions[].function_code", desc: fmt.Sprintf("gif: extension 0xf9 named %v", m["function_code_sym"])})
			}
			gce = append(gce, b)
		case fc != nil && fc.Int64() == 0xff:
			loop = b
		}
	}
	// image/gif writes a graphic control extension for a frame only if it has a delay, a disposal method or a
	// transparent colour (writer.go writeImageBlock). (Oracle mistake fixed: gif.DecodeAll cannot be asked, its
	// Disposal[i] repeats the previous frame's value for a frame without an extension.)
	gi2 := 0
	for i := range exp.frames {
		if exp.delays[i] == 0 && exp.disposals[i] == 0 {
			continue
		}
		if gi2 >= len(gce) {
			diffs = append(diffs, c15Diff{sig: "mismatch:gif:extensions:count", desc: fmt.Sprintf("gif: frame %d has delay %d but fq reports only %d graphic control extensions", i, exp.delays[i], len(gce))})
			break
		}
		b := gce[gi2]
		gi2++
		if len(b) != 4 || int(b[1])|int(b[2])<<8 != exp.delays[i] || b[0] != exp.disposals[i]<<2 {
			diffs = append(diffs, c15Diff{sig: "mismatch:gif:extensions[].data", desc: fmt.Sprintf("gif: frame %d stored delay %d disposal %d, graphic control extension data reported as %x", i, exp.delays[i], exp.disposals[i], b)})
		}
	}
	if gi2 != len(gce) && len(diffs) == 0 {
		diffs = append(diffs, c15Diff{sig: "mismatch:gif:extensions:count", desc: fmt.Sprintf("gif: %d graphic control extensions stored, fq reports %d", gi2, len(gce))})
	}
	if exp.loopCount >= 0 && len(exp.frames) > 1 {
		want := append([]byte("NETSCAPE2.0"), 1, byte(exp.loopCount), byte(exp.loopCount>>8))
		if !bytes.Equal(loop, want) {
			diffs = append(diffs, c15Diff{sig: "mismatch:gif:extensions[].data", desc: fmt.Sprintf("gif: loop count %d stored, application extension data reported as %x", exp.loopCount, loop)})
		}
	}
	return diffs
}
