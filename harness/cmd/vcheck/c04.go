package main

// C04 — every input bit is accounted for: fields plus gap fields cover the buffer.
// Part 1: ranges.Gaps against a bitmap reference, exhaustively over small buffers (+ random large).
// Part 2: coverage of real decode trees (corpus, mutated corpus, forced decodes).

import (
	"context"
	"fmt"
	"os"
	"sort"
	"strings"
	"time"

	"github.com/wader/fq/pkg/bitio"
	"github.com/wader/fq/pkg/decode"
	"github.com/wader/fq/pkg/ranges"
	"github.com/wader/fq/pkg/scalar"

	"verif/ev"
	"verif/gen"
)

func init() { register("C04", c04Main) }

// c04CheckGaps runs the real ranges.Gaps and compares with the bitmap reference.
func c04CheckGaps(run *ev.Run, L int64, in []ranges.Range) {
	covered := make([]bool, L)
	for _, r := range in {
		for i := r.Start; i < r.Stop(); i++ {
			covered[i] = true
		}
	}
	arg := append([]ranges.Range(nil), in...) // Gaps sorts its argument
	gaps := ranges.Gaps(ranges.Range{Start: 0, Len: L}, arg)
	run.Count("gaps:calls", 1)
	gapped := make([]bool, L)
	desc := func() string { return fmt.Sprintf("Gaps(total 0:%d, %v) = %v", L, in, gaps) }
	for _, g := range gaps {
		if g.Len < 0 || g.Start < 0 || g.Stop() > L {
			run.Violation("gaps:outside-total", desc(), map[string]any{"L": L, "ranges": fmt.Sprint(in)})
			return
		}
		for i := g.Start; i < g.Stop(); i++ {
			if covered[i] {
				run.Violation("gaps:overlap", desc()+fmt.Sprintf(": gap %s overlaps an input range at bit %d", g, i), map[string]any{"L": L, "ranges": fmt.Sprint(in)})
				return
			}
			if gapped[i] {
				run.Violation("gaps:gaps-overlap-each-other", desc(), map[string]any{"L": L, "ranges": fmt.Sprint(in)})
				return
			}
			gapped[i] = true
		}
	}
	for p := int64(0); p < L; p++ {
		if covered[p] || gapped[p] {
			continue
		}
		// lost bit p. The one listed defect: p is the stop of a covered run and some input range starts at p+1.
		startsAfter := false
		for _, r := range in {
			if r.Start == p+1 {
				startsAfter = true
			}
		}
		if p > 0 && covered[p-1] && startsAfter && (p+1 >= L || covered[p+1] || true) {
			run.Violation("gaps:lost-single-bit:run-stop-plus-one", desc()+fmt.Sprintf(": bit %d is in no range and no gap", p), map[string]any{"L": L, "ranges": fmt.Sprint(in)})
		} else {
			run.Violation("gaps:lost-bits:other", desc()+fmt.Sprintf(": bit %d is in no range and no gap", p), map[string]any{"L": L, "ranges": fmt.Sprint(in)})
		}
		return
	}
}

func c04Exhaustive(run *ev.Run) {
	type lim struct {
		maxL int64
		k    int
	}
	lims := []lim{{8, 3}, {5, 4}}
	if run.Thorough() {
		lims = []lim{{10, 3}, {6, 4}, {4, 5}}
	}
	var total int64
	for _, lm := range lims {
		for L := int64(0); L <= lm.maxL; L++ {
			var all []ranges.Range
			for s := int64(0); s <= L; s++ {
				for l := int64(0); s+l <= L; l++ {
					all = append(all, ranges.Range{Start: s, Len: l})
				}
			}
			cur := make([]ranges.Range, 0, lm.k)
			var rec func(depth int)
			rec = func(depth int) {
				c04CheckGaps(run, L, cur)
				total++
				if depth == lm.k {
					return
				}
				for _, r := range all {
					cur = append(cur, r)
					rec(depth + 1)
					cur = cur[:len(cur)-1]
				}
			}
			rec(0)
			run.Distinct(fmt.Sprintf("gaps-exhaustive:L%d:k%d", L, lm.k))
		}
	}
	run.Eval(total)
	run.Count("gaps:exhaustive-lists", total)
	// random larger sets
	n := run.Pick(20000, 1000000)
	for id := 0; id < n; id++ {
		rng := gen.New(run.Seed).Fork(0xC04000 + uint64(id))
		L := int64(rng.Intn(4097))
		k := rng.Intn(12)
		var in []ranges.Range
		for i := 0; i < k; i++ {
			s := rng.Int63n(L + 1)
			l := rng.Int63n(L - s + 1)
			if rng.Intn(3) == 0 {
				l = rng.Int63n(min(L-s, 16) + 1)
			}
			if len(in) > 0 && rng.Intn(3) == 0 { // adjacent / one-bit-apart neighbours
				p := in[rng.Intn(len(in))]
				s = min(L, p.Stop()+int64(rng.Intn(3)))
				l = rng.Int63n(L - s + 1)
			}
			in = append(in, ranges.Range{Start: s, Len: l})
		}
		c04CheckGaps(run, L, in)
		run.Eval(1)
		if id%97 == 0 {
			run.Distinct(fmt.Sprintf("gaps-random:%d:%d", k, L/512))
		}
	}
	run.Sample(map[string]any{"part": "ranges.Gaps", "example": "Gaps(0:8, [0:3 4:2]) compared bit by bit with a bitmap"})
}

type ivl struct{ a, b int64 } // [a,b)

// c04Coverage checks one gap-filled decode scope S (see gapFilledScopes). For a buffer root the window is
// the whole buffer; for a *Len/*Range sub-decode the window is not recorded in the tree, so only the span
// of its own range can be required to be hole-free. A scope's OWN gap fields (the ones FillGaps added to it)
// must not overlap any other leaf of the scope; gaps of nested sub-decodes are ordinary leaves for S (an
// outer format may legitimately decode the same bits again, e.g. mp4 mdat data and track samples).
func c04Coverage(run *ev.Run, label string, S *decode.Value) { c04CoverageW(run, label, S, nil) }

// c04CoverageW: win != nil gives the true window of a sub-decode that is KNOWN to be gap-filled (generated decoder
// programs: the reference interpreter knows where each *Len/*Range sub-decode was asked to decode).
func c04CoverageW(run *ev.Run, label string, S *decode.Value, win *ivl) {
	var winA, winB int64
	if win != nil {
		winA, winB = win.a, win.b
	} else if S.IsRoot {
		L, err := bitLen(S.RootReader)
		if err != nil {
			run.Inconclusive("bitlen")
			return
		}
		winA, winB = 0, L
	} else {
		winA, winB = S.Range.Start, S.Range.Stop()
	}
	own := map[*decode.Value]bool{}
	if c, ok := S.V.(*decode.Compound); ok {
		for _, ch := range c.Children {
			if isGap(ch) {
				own[ch] = true
			}
		}
	}
	leaves := leavesOf(S)
	var all, gapsI, fields []ivl
	starts := map[int64]bool{}
	for _, lf := range leaves {
		starts[lf.Range.Start] = true
		if lf.Range.Len <= 0 {
			continue
		}
		iv := ivl{lf.Range.Start, lf.Range.Stop()}
		all = append(all, iv)
		if isGap(lf) {
			// (iii) gap content equals buffer bits of its range
			if bb, ok := lf.V.(*scalar.BitBuf); ok && bb.Actual != nil && own[lf] {
				gl, err1 := bitLen(bb.Actual)
				if err1 != nil || gl != lf.Range.Len {
					run.Violation("coverage:gap-length", fmt.Sprintf("%s: gap %s at %s has a reader of %d bits (err %v)", label, lf.Name, lf.Range, gl, err1), map[string]any{"case": label})
				} else if lf.Range.Len <= 1<<22 {
					got, e1 := readBitsOf(bb.Actual, 0, gl)
					want, e2 := readBitsOf(lf.RootReader, lf.Range.Start, lf.Range.Len)
					if e1 != nil || e2 != nil || string(got) != string(want) {
						run.Violation("coverage:gap-content", fmt.Sprintf("%s: gap %s at %s: content differs from the buffer bits (errs %v %v)", label, lf.Name, lf.Range, e1, e2), map[string]any{"case": label})
					}
					run.Count("coverage:gap-bits-compared", gl)
				}
			}
		}
		if own[lf] {
			gapsI = append(gapsI, iv)
		} else {
			fields = append(fields, iv)
		}
	}
	run.Count("coverage:scopes", 1)
	if S.IsRoot {
		run.Count("coverage:scopes:buffer-root", 1)
	}
	run.Count("coverage:leaves", int64(len(leaves)))
	run.Count("coverage:own-gap-fields", int64(len(gapsI)))
	// (ii-a) an own gap field lies inside the scope's window (a gap computed in the wrong coordinates reaches
	// outside the sub-decode and overlaps leaves of the enclosing decode: seed C04-D)
	for _, g := range gapsI {
		if g.a < winA || g.b > winB {
			run.Violation("coverage:gap-outside-window", fmt.Sprintf("%s: scope %s: own gap field [%d,%d) reaches outside the scope's window [%d,%d)", label, valuePathStr(S), g.a, g.b, winA, winB), map[string]any{"case": label})
			return
		}
	}
	// (ii) no own gap overlaps another leaf of the scope
	sort.Slice(fields, func(i, j int) bool { return fields[i].a < fields[j].a })
	merged := mergeIvls(fields)
	for _, g := range gapsI {
		i := sort.Search(len(merged), func(i int) bool { return merged[i].b > g.a })
		if i < len(merged) && merged[i].a < g.b {
			run.Violation("coverage:gap-overlaps-field", fmt.Sprintf("%s: scope %s: gap [%d,%d) overlaps decoded bits [%d,%d)", label, valuePathStr(S), g.a, g.b, merged[i].a, merged[i].b), map[string]any{"case": label})
			return
		}
	}
	// (i) union of all leaves covers the window. The property is stated per buffer; a sub-decode that is not a
	// buffer root is only known to have been gap-filled itself when it has gap fields of its own (FieldFormat
	// sub-decodes are decoded with FillGaps off and their holes are filled by the enclosing decode — macho inside
	// macho_fat; demanding window coverage from them was a false alarm of the first thorough run, DESIGN 8.4).
	if win == nil && !S.IsRoot && len(gapsI) == 0 {
		run.Count("coverage:scopes:sub-decode-without-own-gaps (its bits are judged by the buffer-root scope)", 1)
		return
	}
	sort.Slice(all, func(i, j int) bool { return all[i].a < all[j].a })
	cov := mergeIvls(all)
	pos := winA
	report := func(a, b int64) {
		// listed defect: a single bit p with p-1 covered and a leaf starting at p+1
		if b-a == 1 && a > winA && starts[a+1] {
			run.Violation("coverage:lost-single-bit:run-stop-plus-one", fmt.Sprintf("%s: bit %d of window [%d,%d) is in no leaf and no gap field (scope %s)", label, a, winA, winB, valuePathStr(S)), map[string]any{"case": label})
		} else {
			run.Violation("coverage:lost-bits:other", fmt.Sprintf("%s: bits [%d,%d) of window [%d,%d) are in no leaf and no gap field (scope %s)", label, a, b, winA, winB, valuePathStr(S)), map[string]any{"case": label})
		}
	}
	for _, c := range cov {
		if c.b <= pos {
			continue
		}
		if c.a > pos {
			report(pos, min(c.a, winB))
			return
		}
		pos = c.b
		if pos >= winB {
			break
		}
	}
	if pos < winB {
		report(pos, winB)
		return
	}
}

func mergeIvls(s []ivl) []ivl {
	var out []ivl
	for _, x := range s {
		if len(out) > 0 && x.a <= out[len(out)-1].b {
			if x.b > out[len(out)-1].b {
				out[len(out)-1].b = x.b
			}
			continue
		}
		out = append(out, x)
	}
	return out
}

// treeJob is one (input, format, force) decode; shared by C03/C04.
type treeJob struct {
	Label  string
	Seed   []byte
	Mut    mutation
	Format string
	Force  bool
}

func (j treeJob) Data() []byte { return applyMutation(j.Seed, j.Mut) }

// treeJobs builds the deterministic job list: corpus x {own formats, probe} (+force), plus a PRNG slice
// of the mutation family on small seeds.
func treeJobs(seed uint64, thorough bool, nMut int) []treeJob {
	rng := gen.New(seed).Fork(0x7BEE5)
	var jobs []treeJob
	items := corpusSample(rng, pickInt(thorough, 24*1024, 512*1024), pickInt(thorough, 40, 1600))
	for _, it := range items {
		fs := append([]string{"probe"}, it.Formats...)
		for _, f := range fs {
			jobs = append(jobs, treeJob{Label: it.Path + "|" + f, Seed: it.Data, Mut: mutation{Kind: "none"}, Format: f})
			if f != "probe" {
				jobs = append(jobs, treeJob{Label: it.Path + "|" + f + "|force", Seed: it.Data, Mut: mutation{Kind: "none"}, Format: f, Force: true})
			}
		}
	}
	// mutated seeds: items with an own format and <= 8 KiB
	var seeds []corpusItem
	for _, it := range items {
		if len(it.Formats) > 0 && len(it.Data) <= pickInt(thorough, 3*1024, 16*1024) && len(it.Data) > 0 {
			seeds = append(seeds, it)
		}
	}
	for i := 0; i < nMut && len(seeds) > 0; i++ {
		it := seeds[rng.Intn(len(seeds))]
		fam := mutationFamily(len(it.Data))
		m := fam[rng.Intn(len(fam))]
		f := it.Formats[rng.Intn(len(it.Formats))]
		if rng.Intn(6) == 0 {
			f = "probe"
		}
		force := rng.Intn(3) == 0 && f != "probe"
		lbl := fmt.Sprintf("%s|%s|%s", it.Path, f, m)
		if force {
			lbl += "|force"
		}
		jobs = append(jobs, treeJob{Label: lbl, Seed: it.Data, Mut: m, Format: f, Force: force})
	}
	return jobs
}

func pickInt(thorough bool, q, t int) int {
	if thorough {
		return t
	}
	return q
}

// forEachTree decodes every job in isolated worker processes (a hostile input may kill the process:
// that is C06's subject, here it is only counted) and calls fn with the result.
func forEachTree(run *ev.Run, jobs []treeJob, fn func(j treeJob, res decodeResult)) {
	isoRun(run, isoSpec{
		NJobs: len(jobs),
		Do: func(run *ev.Run, k int) {
			j := jobs[k]
			t0 := time.Now()
			res := decodeDirect(j.Data(), j.Format, j.Force)
			if os.Getenv("VERIF_SLOWLOG") != "" {
				if d := time.Since(t0); d > 100*time.Millisecond {
					fmt.Fprintf(os.Stderr, "SLOW %v %s (%d bytes)\n", d, j.Label, len(j.Seed))
				}
			}
			run.Eval(1)
			switch {
			case res.Panic != nil:
				run.Count("decode:panicked (C06's subject, not judged here)", 1)
			case res.V == nil:
				run.Count("decode:no-tree", 1)
			case res.Err != nil:
				run.Count("decode:partial-tree-with-error", 1)
			default:
				run.Count("decode:ok", 1)
			}
			fn(j, res)
		},
		OnDeath: func(run *ev.Run, k int, kind string, tail string) {
			run.Count("decode:worker-died:"+kind+" (C06's subject, not judged here)", 1)
		},
	})
}

func c04Main(args []string) {
	run := ev.NewRun("C04")
	run.Rule = "part 1: every ordered list of <=3 ranges over buffers of 0..8 bits and <=4 ranges over 0..5 bits (exhaustive) plus random sets over <=4096 bits, real ranges.Gaps vs bitmap; part 2: every gap-filled buffer root (top level and nested decode() roots) of corpus decodes under own formats/probe/force and of a PRNG slice of the truncation/corruption family: union of leaf ranges == [0,len), no gap overlaps a decoded leaf, gap content == buffer bits. non-trivial = tree with >=1 gap field or a nested root; distinct = (file, format, mutation kind)"
	run.Assumptions = []string{"zero-length gap fields are ignored", "leaf set = non-compound values of the buffer root without descending into nested roots (the set FillGaps itself uses)"}
	if !run.IsWorker() {
		c04Exhaustive(run)
	}
	if !run.IsWorker() {
		c04Gendec(run)
	}
	jobs := treeJobs(run.Seed, run.Thorough(), run.Pick(6000, 1000000))
	forEachTree(run, jobs, func(j treeJob, res decodeResult) {
		if res.V == nil || res.Panic != nil {
			return
		}
		roots := gapFilledScopes(res.V)
		nontrivial := len(roots) > 1
		for _, R := range roots {
			c04Coverage(run, j.Label, R)
		}
		for _, lf := range leavesOf(res.V) {
			if isGap(lf) {
				nontrivial = true
				break
			}
		}
		if nontrivial {
			parts := strings.Split(j.Label, "|")
			key := j.Label
			if len(parts) >= 3 {
				key = parts[0] + "|" + parts[1] + "|" + strings.SplitN(parts[2], "(", 2)[0]
			}
			run.Distinct(key)
		}
	})
	run.Sample(map[string]any{"part": "coverage", "jobs": len(jobs), "first": jobs[0].Label, "last": jobs[len(jobs)-1].Label})
	run.Count("coverage:jobs", int64(len(jobs)))
	run.Finish()
}

// c04Gendec — part 3: decoders written against the public decode API. Random decoder programs (the generator
// of C03's gendec: struct/array/seek/framed/limited/range/nested format/nested buffer, zero-length raw fields
// after seeks, failing programs) are run through the real decode.Decode with gap filling and every gap-filled
// scope of the result goes through the same coverage monitor as the corpus trees. No reference tree is needed:
// the monitor only asks that leaves + gap fields tile each buffer.
func c04Gendec(run *ev.Run) {
	n := run.Pick(12000, 600000)
	depth := run.Pick(3, 5)
	for id := 0; id < n; id++ {
		rng := gen.New(run.Seed).Fork(0xC04D0000 + uint64(id))
		nbytes := rng.Intn(24)
		data := rng.Bytes(nbytes)
		gg := &gGen{rng: rng, max: run.Pick(30, 60)}
		prog := gg.body(depth, int64(nbytes)*8, 0)
		rootArr := rng.Intn(4) == 0
		force := rng.Intn(3) == 0
		real := &gReal{}
		f := &decode.Format{Name: "groot", RootArray: rootArr, DecodeFn: func(d *decode.D) any { real.run(d, prog); return nil }}
		grp := &decode.Group{Name: "groot", Formats: []*decode.Format{f}}
		var v *decode.Value
		pi := guardStack(func() {
			v, _, _ = decode.Decode(context.Background(), bitio.NewBitReader(append([]byte(nil), data...), -1), grp, decode.Options{IsRoot: true, FillGaps: true, Force: force})
		})
		run.Eval(1)
		run.Count("gendec:programs", 1)
		if pi != nil || v == nil {
			run.Count("gendec:no-tree-or-panic (C03/C06's subject)", 1)
			continue
		}
		label := fmt.Sprintf("gendec{%s} on %x rootarray=%v force=%v", gBody(prog), data, rootArr, force)
		// the reference interpreter of C03 tells which values are gap-filled decodes and their true windows
		kind := "struct"
		if rootArr {
			kind = "array"
		}
		L := int64(nbytes) * 8
		exp := &eVal{Name: "", Kind: kind, IsRoot: true, GapScope: true, Win: L}
		ref := &gRef{buf: bstrFromBytes(data, -1), limit: L, cur: exp, ops: map[string]int{}}
		ref.try(prog)
		gFinish(exp)
		known := map[*decode.Value]bool{}
		var pair func(e *eVal, rv *decode.Value)
		pair = func(e *eVal, rv *decode.Value) {
			if e.GapScope {
				switch {
				case e.IsRoot:
					known[rv] = true
					c04CoverageW(run, label, rv, nil) // window = the root's own buffer
					run.Count("gendec:scopes:buffer-root", 1)
				case e.Win > 0:
					known[rv] = true
					c04CoverageW(run, label, rv, &ivl{e.Start, e.Start + e.Win})
					run.Count("gendec:scopes:sub-decode-with-reference-window", 1)
				}
			}
			c, ok := rv.V.(*decode.Compound)
			if !ok || e.Kind != "struct" && e.Kind != "array" {
				return
			}
			var real []*decode.Value
			for _, ch := range c.Children {
				if !isGap(ch) {
					real = append(real, ch)
				}
			}
			if len(real) != len(e.Children) {
				run.Count("gendec:subtrees-not-paired (tree shape is C03's subject)", 1)
				return
			}
			byName := map[string]*decode.Value{}
			for _, x := range real {
				byName[x.Name] = x
			}
			for i, ec := range e.Children {
				rc := real[i]
				if rc.Name != ec.Name { // a listed C03 defect reorders nested roots inside sub-decode windows
					if len(byName) != len(real) || byName[ec.Name] == nil {
						run.Count("gendec:subtrees-not-paired (tree shape is C03's subject)", 1)
						continue
					}
					rc = byName[ec.Name]
				}
				pair(ec, rc)
			}
		}
		pair(exp, v)
		scopes := gapFilledScopes(v)
		for _, S := range scopes {
			if !known[S] {
				c04Coverage(run, label, S)
			}
		}
		gaps := 0
		for _, lf := range leavesOf(v) {
			if isGap(lf) {
				gaps++
			}
		}
		run.Count("gendec:gap-fields", int64(gaps))
		if gaps > 0 || len(scopes) > 1 {
			run.Distinct("gendec:" + gBody(prog))
		}
	}
}
