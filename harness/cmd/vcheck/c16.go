package main

// C16 — serialization decoders recover exactly the value that was encoded.
//
// Independent encoders (c16_enc.go, c16_asn1.go, c16_text.go) turn a random JSON-like value into bytes,
// choosing among all alternative wire encodings; fq decodes them and the representation (torepr for the
// binary formats, the value for the text formats) is compared with the source value. Every strict prefix of
// a prefix-free encoding must be reported as a decode error (._error on the decode value, from_F raises),
// trailing bytes must be an error (text) or exactly one gap field while torepr is unchanged (binary).
//
// Representation maps (read from format/*/*.jq, value semantics are the specifications'):
//   msgpack  bin*/ext* -> string of the data bytes; str -> string; maps need string keys (from_entries)
//   cbor     bytes -> string; tags / simple values / bignums have no JSON-like representation
//   bson     root document -> object; array -> array; boolean -> true/false; binary -> string
//   bencode  strings (byte strings) -> string; dictionary -> object
//   asn1_ber sequence/set -> array; octet string -> string; object identifier -> array of arcs
//   text     tovalue is the document's value; xml follows format/xml/xml.md (object and array mode)

import (
	"context"
	"encoding/hex"
	"encoding/json"
	"fmt"
	"os"
	"regexp"
	"runtime"
	"runtime/pprof"
	"sort"
	"strings"
	"sync"
	"time"

	"verif/ev"
	"verif/fqx"
	"verif/gen"
)

func init() { register("C16", c16Main) }

const c16JQ = `
def c16from($f; $o):
  if $f == "msgpack" then from_msgpack elif $f == "cbor" then from_cbor elif $f == "bson" then from_bson
  elif $f == "bencode" then from_bencode elif $f == "asn1_ber" then from_asn1_ber elif $f == "json" then from_json
  elif $f == "jsonl" then from_jsonl elif $f == "yaml" then from_yaml elif $f == "toml" then from_toml
  elif $f == "xml" then from_xml($o) elif $f == "csv" then from_csv else error("unknown format") end;
map(. as $c
  | try
      ( ($c.h | from_hex) as $b
      | ($b | decode($c.f; $c.o)) as $d
      | $d._error as $err
      | {e: (if $err == null then null else ($err.error | tostring) end)}
      + ( if $c.m == "p" then
            (if $c.ff then {raised: (try ($b | c16from($c.f; $c.o) | false) catch true)} else {} end)
          elif $err != null then {}
          elif $c.bin then
            { r: (try {v: ($d | torepr)} catch {x: tostring})
            , t: (if $c.tree then ($d | tovalue) else null end)
            , g: [$d | .. | select(._gap?) | tobytes | to_hex]
            }
          else {r: {v: ($d | tovalue)}}
          end
        )
      )
    catch {raise: tostring}
)
`

var c16BinFormats = []string{"msgpack", "cbor", "bson", "bencode", "asn1_ber"}

var c16Doms = map[string]*c16Dom{
	"msgpack": {null: true, boolean: true, float: true, nanInf: true, str: true, bytes: true, arr: true, maps: true, ext: true,
		intMin: c16MinInt64, intMax: c16MaxUint64},
	"cbor": {null: true, boolean: true, float: true, nanInf: true, str: true, bytes: true, arr: true, maps: true,
		intMin: c16MinCBOR, intMax: c16MaxUint64},
	// bson: int32/int64/datetime are signed 64 bit, timestamp is unsigned 64 bit; names are cstrings
	"bson": {null: true, boolean: true, float: true, nanInf: true, str: true, bytes: true, arr: true, maps: true,
		intMin: c16MinInt64, intMax: c16MaxUint64, keyNoNUL: true, top: 4},
	// bencode: integers have no size limit in BEP 3; the property quantifies over the 64 bit ranges
	"bencode": {str: true, bytes: true, arr: true, maps: true, intMin: c16MinInt64, intMax: c16MaxUint64},
	"asn1_ber": {null: true, boolean: true, float: true, nanInf: true, str: true, bytes: true, arr: true, oid: true,
		intMin: c16Big("-1208925819614629174706176"), intMax: c16Big("1208925819614629174706176")},
}

// c16EncodeTop encodes v as a complete document of the format. wrapped: bson needs a root document, a
// non-object value v is encoded as {"v": v}.
func c16EncodeTop(format string, v *c16V, path string, r *gen.Rand, ban map[string]bool, canon, exotic bool) (e *c16Enc, wrapped bool) {
	e = c16NewEnc(format, r)
	e.ban, e.canon, e.exotic = ban, canon, exotic
	switch format {
	case "msgpack":
		e.msgpack(v, path)
	case "cbor":
		e.cbor(v, path)
	case "bencode":
		e.bencode(v, path)
	case "asn1_ber":
		e.asn1(v, path)
	case "bson":
		if v.K == c16KMap {
			e.bsonDoc(v, path)
		} else {
			wrapped = true
			e.nodes = append(e.nodes, c16Node{path: path + "\x00wrap", form: "document"})
			e.le(4, 0)
			e.bsonElem(v, "v", path)
			e.b(0)
			n := len(e.buf)
			e.buf[0], e.buf[1], e.buf[2], e.buf[3] = byte(n), byte(n>>8), byte(n>>16), byte(n>>24)
			e.nodes[0].end = n
		}
	default:
		panic("format")
	}
	return e, wrapped
}

type c16Sub struct {
	ci      int // owning case
	role    string
	format  string
	bin     bool
	mode    string
	ff      bool // also run from_F and report whether it raised (from_F is `decode(F) | if ._error then error(...)`: sampled)
	data    []byte
	opts    map[string]any
	trailer []byte
	cut     int
	// standalone encodings used by the diagnosis
	enc     *c16Enc
	v       *c16V
	wrapped bool
}

type c16Case struct {
	id      uint64
	format  string
	v       *c16V
	enc     *c16Enc
	wrapped bool
	encR    *gen.Rand
	exotic  bool
	canon   bool
	txt     *c16Text
	failed  bool
}

type c16Fail struct {
	kind, desc, path string
}

type c16W struct {
	run   *ev.Run
	s     *fqx.Session
	depth int
	allPf bool
}

var c16StackRE = regexp.MustCompile(`[0-9]+`)

// eval runs one batch. A Go panic inside fq or a watchdog expiry is attributed by re-running one by one.
func (w *c16W) eval(subs []*c16Sub) []map[string]any {
	out := make([]map[string]any, len(subs))
	if len(subs) == 0 {
		return out
	}
	in := make([]any, len(subs))
	for i, s := range subs {
		o := s.opts
		if o == nil {
			o = map[string]any{}
		}
		in[i] = map[string]any{"f": s.format, "h": hex.EncodeToString(s.data), "o": o, "m": s.mode, "bin": s.bin, "ff": s.ff, "tree": s.role == "base"}
	}
	var res []any
	var err error
	ctx, cancel := context.WithTimeout(context.Background(), 10*time.Minute)
	pi := fqx.Guard(func() { res, err = w.s.EvalCtx(ctx, in, c16JQ) })
	cancel()
	if pi == nil && err == nil && len(res) == 1 {
		if arr, ok := res[0].([]any); ok && len(arr) == len(subs) {
			for i := range arr {
				out[i], _ = arr[i].(map[string]any)
			}
			return out
		}
	}
	if len(subs) == 1 {
		s := subs[0]
		switch {
		case pi != nil:
			site := c16StackRE.ReplaceAllString(fmt.Sprint(pi.Value), "N")
			if len(site) > 80 {
				site = site[:80]
			}
			w.run.Violation(s.format+":panic:"+site, fmt.Sprintf("Go panic while decoding %s input %x: %v\n%s", s.format, c16Head(s.data), pi.Value, pi.Stack),
				map[string]any{"format": s.format, "hex": hex.EncodeToString(s.data)})
			// the interpreter may be in an undefined state after a panic
			w.s = fqx.NewSession()
		case ctx.Err() != nil:
			w.run.Inconclusive("eval-timeout:" + s.format)
			w.s = fqx.NewSession()
		default:
			w.run.Violation(s.format+":eval-error", fmt.Sprintf("evaluating the check program on %s input %x failed: %v (outputs %d)", s.format, c16Head(s.data), err, len(res)),
				map[string]any{"format": s.format, "hex": hex.EncodeToString(s.data)})
		}
		out[0] = map[string]any{"skip": true}
		return out
	}
	if pi != nil {
		w.s = fqx.NewSession()
	}
	for i := range subs {
		out[i] = w.eval(subs[i : i+1])[0]
	}
	return out
}

func c16Head(b []byte) []byte {
	if len(b) > 64 {
		return b[:64]
	}
	return b
}

func c16HexShort(b []byte) string {
	if len(b) > 200 {
		return hex.EncodeToString(b[:200]) + fmt.Sprintf("…(%d bytes)", len(b))
	}
	return hex.EncodeToString(b)
}

// seenKey maps one node of fq's decode tree (tovalue) to the type code / length form the decoder saw.
func c16SeenKey(format string, m map[string]any) string {
	switch format {
	case "msgpack", "bencode":
		if t, ok := m["type"].(string); ok {
			return t
		}
	case "bson":
		if t, ok := m["type"].(string); ok {
			if _, ok := m["name"]; ok {
				if t == "binary" {
					return fmt.Sprintf("binary/subtype%v", m["subtype"])
				}
				return t
			}
		}
		if _, ok := m["size"]; ok {
			return "document-body"
		}
	case "cbor":
		mt, ok := m["major_type"].(string)
		if !ok {
			return ""
		}
		sc := m["short_count"]
		if mt == "special_float" {
			switch x := sc.(type) {
			case string:
				return "special_float/" + map[string]string{"8bit": "simple8", "16bit": "float16", "32bit": "float32", "64bit": "float64", "indefinite": "break"}[x]
			case int:
				switch x {
				case 20:
					return "special_float/false"
				case 21:
					return "special_float/true"
				case 22:
					return "special_float/null"
				case 23:
					return "special_float/undefined"
				}
				return "special_float/simple-imm"
			}
			return "special_float/?"
		}
		if s, ok := sc.(string); ok {
			return mt + "/" + s
		}
		return mt + "/imm"
	case "asn1_ber":
		cl, ok := m["class"].(string)
		if !ok {
			return ""
		}
		l := "definite"
		if s, ok := m["length"].(string); ok {
			l = s
		}
		return fmt.Sprintf("%s/%v/%v/%s", cl, m["tag"], m["form"], l)
	}
	return ""
}

func (w *c16W) countSeen(format string, t any, acc map[string]int) {
	switch x := t.(type) {
	case map[string]any:
		if k := c16SeenKey(format, x); k != "" {
			acc[k]++
		}
		for _, c := range x {
			w.countSeen(format, c, acc)
		}
	case []any:
		for _, c := range x {
			w.countSeen(format, c, acc)
		}
	}
}

// judgeBin checks one complete (possibly trailed) binary encoding; the first failure is the primary one.
func (w *c16W) judgeBin(s *c16Sub, res map[string]any, count bool) *c16Fail {
	if fs := w.judgeBinAll(s, res, count); len(fs) > 0 {
		return fs[0]
	}
	return nil
}

func c16HasKind(fs []*c16Fail, kind string) bool {
	for _, f := range fs {
		if f.kind == kind {
			return true
		}
	}
	return false
}

func (w *c16W) judgeBinAll(s *c16Sub, res map[string]any, count bool) (fails []*c16Fail) {
	if res == nil {
		return []*c16Fail{{kind: "no-result", desc: "the check program returned no result"}}
	}
	if res["skip"] != nil {
		return nil
	}
	tr := ""
	if s.trailer != nil {
		tr = "trailing-"
	}
	if r, ok := res["raise"]; ok {
		return []*c16Fail{{kind: tr + "decode-raised", desc: fmt.Sprintf("decode(%q) raised instead of returning a decode value: %v", s.format, r)}}
	}
	if e := res["e"]; e != nil {
		return []*c16Fail{{kind: tr + "decode-error", desc: fmt.Sprintf("well-formed encoding rejected: %v", e)}}
	}
	if count {
		acc := map[string]int{}
		w.countSeen(s.format, res["t"], acc)
		for k, n := range acc {
			w.run.Count("seen:"+s.format+":"+k, int64(n))
		}
	}
	r, _ := res["r"].(map[string]any)
	if x, bad := r["x"]; bad {
		if !s.enc.noValue {
			fails = append(fails, &c16Fail{kind: tr + "torepr-error", desc: fmt.Sprintf("torepr failed on a decode tree without error: %v", x)})
		} else if count {
			w.run.Count("outside-domain:torepr-raises:"+s.format, 1)
		}
	} else if !s.enc.noValue {
		got := r["v"]
		root := s.enc.nodes[0].path
		okRoot := true
		if s.wrapped {
			root = s.enc.nodes[1].path
			m, ok := got.(map[string]any)
			if !ok || len(m) != 1 {
				okRoot = false
				fails = append(fails, &c16Fail{kind: tr + "value-mismatch", desc: "root document: want {\"v\": …} got " + c16Show(got), path: root})
			} else {
				got = m["v"]
			}
		}
		if okRoot {
			if p, d, ok := c16DiffV(s.v, got, true, root); !ok {
				fails = append(fails, &c16Fail{kind: tr + "value-mismatch", desc: d, path: p})
			}
		}
	}
	g, _ := res["g"].([]any)
	if s.trailer == nil {
		if len(g) != 0 {
			fails = append(fails, &c16Fail{kind: "unexpected-gap", desc: fmt.Sprintf("complete encoding without trailing data decodes with gap fields %v", g)})
		}
	} else if len(g) != 1 || g[0] != hex.EncodeToString(s.trailer) {
		fails = append(fails, &c16Fail{kind: "trailing-gap-mismatch", desc: fmt.Sprintf("trailing bytes %x: want exactly one gap holding them, got gaps %v", s.trailer, g)})
	}
	return fails
}

func (w *c16W) newSub(c *c16Case, ci int, role string) *c16Sub {
	return &c16Sub{ci: ci, role: role, format: c.format, bin: true, mode: "v", data: c.enc.buf, enc: c.enc, v: c.v, wrapped: c.wrapped}
}

func c16SubFor(format string, v *c16V, enc *c16Enc, wrapped bool) *c16Sub {
	return &c16Sub{role: "diag", format: format, bin: true, mode: "v", data: enc.buf, enc: enc, v: v, wrapped: wrapped}
}

// c16DJ is one diagnosis job: a (sub-)value that fails when encoded on its own.
type c16DJ struct {
	c       *c16Case
	cur     *c16V
	path    string
	enc     *c16Enc
	wrapped bool
	fail    *c16Fail
	shrunk  bool
	// scratch of the current phase
	subs     []*c16Sub
	names    []string
	ce       *c16Enc
	cwr      bool
	baseline []*c16Fail
	culprit  string
	best     int
	forms    []string
}

// evalJobs evaluates the scratch sub-cases of all jobs in ONE Eval (the interpreter start-up dominates small Evals).
func (w *c16W) evalJobs(jobs []*c16DJ, counter string) [][]map[string]any {
	var all []*c16Sub
	for _, j := range jobs {
		all = append(all, j.subs...)
	}
	out := make([][]map[string]any, len(jobs))
	if len(all) == 0 {
		return out
	}
	res := w.eval(all)
	w.run.Count(counter, 1)
	k := 0
	for i, j := range jobs {
		out[i] = res[k : k+len(j.subs)]
		k += len(j.subs)
	}
	return out
}

// diagnose shrinks every failing binary case of a batch to the smallest failing sub-value (children are re-encoded
// on their own with the very same per-path choices), then looks for the single wire form whose replacement by the
// canonical alternative makes the failure disappear. The signature names that form. All cases advance together,
// one Eval per phase.
func (w *c16W) diagnose(jobs []*c16DJ) {
	// ---- phase 1: shrink, level by level
	for round := 0; round < 24; round++ {
		var active []*c16DJ
		for _, j := range jobs {
			j.subs = nil
			if j.shrunk {
				continue
			}
			if len(j.cur.A) == 0 {
				j.shrunk = true
				continue
			}
			for i := range j.cur.A {
				ch, n := j.cur.child(i)
				e, wr := c16EncodeTop(j.c.format, ch, j.path+"/"+n, j.c.encR, nil, j.c.canon, j.c.exotic)
				j.subs = append(j.subs, c16SubFor(j.c.format, ch, e, wr))
			}
			active = append(active, j)
		}
		if len(active) == 0 {
			break
		}
		res := w.evalJobs(active, "diag:shrink-evals")
		// a defect of the container itself must not hide behind its failing children: the same container with those
		// children replaced by the integer 0 (all other choices unchanged) is judged on its own
		var maskJobs []*c16DJ
		for ai, j := range active {
			found := -1
			var ff *c16Fail
			var failing []int
			for i, sb := range j.subs {
				if f := w.judgeBin(sb, res[ai][i], false); f != nil {
					if found < 0 {
						found, ff = i, f
					}
					failing = append(failing, i)
				}
			}
			if found < 0 {
				j.shrunk = true
				continue
			}
			masked := &c16V{K: j.cur.K, Keys: j.cur.Keys, A: append([]*c16V(nil), j.cur.A...)}
			for _, i := range failing {
				masked.A[i] = c16I(0)
			}
			me, mwr := c16EncodeTop(j.c.format, masked, j.path, j.c.encR, nil, j.c.canon, j.c.exotic)
			mj := &c16DJ{c: j.c, cur: masked, path: j.path, enc: me, wrapped: mwr}
			mj.subs = []*c16Sub{c16SubFor(j.c.format, masked, me, mwr)}
			maskJobs = append(maskJobs, mj)
			_, n := j.cur.child(found)
			j.cur, j.path, j.fail = j.cur.A[found], j.path+"/"+n, ff
			j.enc, j.wrapped = j.subs[found].enc, j.subs[found].wrapped
		}
		mres := w.evalJobs(maskJobs, "diag:masked-evals")
		for mi, mj := range maskJobs {
			if mf := w.judgeBin(mj.subs[0], mres[mi][0], false); mf != nil {
				w.run.Count("diag:container-fails-without-failing-children", 1)
				mj.fail = mf
				jobs = append(jobs, mj)
			}
		}
	}
	// ---- phase 2: which wire form is responsible: (1) replacing only F by its canonical alternative cures the failure
	for _, j := range jobs {
		j.forms = j.forms[:0]
		for k := range j.enc.forms {
			j.forms = append(j.forms, k)
		}
		sort.Strings(j.forms)
		j.ce, j.cwr = c16EncodeTop(j.c.format, j.cur, j.path, j.c.encR, nil, true, false)
		j.subs, j.names = nil, nil
		for _, fm := range j.forms {
			e, wr := c16EncodeTop(j.c.format, j.cur, j.path, j.c.encR, map[string]bool{fm: true}, j.c.canon, j.c.exotic)
			if string(e.buf) != string(j.enc.buf) {
				j.subs = append(j.subs, c16SubFor(j.c.format, j.cur, e, wr))
				j.names = append(j.names, fm)
			}
		}
		j.subs = append(j.subs, c16SubFor(j.c.format, j.cur, j.ce, j.cwr))
	}
	res := w.evalJobs(jobs, "diag:form-evals")
	var jobs2 []*c16DJ
	canonFails := make(map[*c16DJ]bool)
	for ji, j := range jobs {
		last := len(j.subs) - 1
		// failures the canonical encoding has as well are the baseline: a replacement cures when nothing beyond it is left
		j.baseline = w.judgeBinAll(j.subs[last], res[ji][last], false)
		canonFails[j] = c16HasKind(j.baseline, j.fail.kind)
		j.culprit, j.best = "", 1<<62
		var curing []int
		for i := range j.names {
			if !canonFails[j] && !j.beyond(w.judgeBinAll(j.subs[i], res[ji][i], false)) {
				curing = append(curing, i)
			}
		}
		// several replacements may cure the failure (a constructed string is cured by making it primitive and by dropping
		// its empty segments): a form whose removal also removes another curing form is the less specific one
		for _, i := range curing {
			parent := false
			for _, k := range curing {
				if _, still := j.subs[i].enc.forms[j.names[k]]; k != i && !still {
					parent = true
				}
			}
			if d := c16EditSize(j.enc.buf, j.subs[i].data); !parent && d < j.best {
				j.culprit, j.best = j.names[i], d
			}
		}
		if j.culprit == "" && len(curing) > 0 {
			j.culprit = j.names[curing[0]]
		}
		j.subs, j.names = nil, nil
		if j.culprit == "" && !canonFails[j] {
			// (2) several defective forms at once: which form fails all by itself (everything else canonical)
			for _, fm := range j.forms {
				ban := map[string]bool{}
				for _, o := range j.forms {
					if o != fm {
						ban[o] = true
					}
				}
				e, wr := c16EncodeTop(j.c.format, j.cur, j.path, j.c.encR, ban, j.c.canon, j.c.exotic)
				if string(e.buf) != string(j.ce.buf) && string(e.buf) != string(j.enc.buf) {
					j.subs = append(j.subs, c16SubFor(j.c.format, j.cur, e, wr))
					j.names = append(j.names, fm)
				}
			}
			jobs2 = append(jobs2, j)
		}
	}
	res2 := w.evalJobs(jobs2, "diag:form-evals-2")
	for ji, j := range jobs2 {
		for i, fm := range j.names {
			if j.beyond(w.judgeBinAll(j.subs[i], res2[ji][i], false)) {
				if d := c16EditSize(j.ce.buf, j.subs[i].data); d < j.best {
					j.culprit, j.best = fm, d
				}
			}
		}
	}
	// ---- report
	for _, j := range jobs {
		c, cur := j.c, j.cur
		cls := ""
		if vc := cur.valueClass(); vc != "" {
			cls = ":" + vc
		}
		rootForm := func(e *c16Enc, wr bool) string {
			if wr {
				return e.nodes[1].form
			}
			return e.nodes[0].form
		}
		culprit := j.culprit
		if os.Getenv("C16_DEBUG") != "" {
			fmt.Fprintf(os.Stderr, "diagnose case %d: minimal at %q %s hex %s kind %s; forms %v culprit %q canonical %x baseline %d\n", c.id, j.path, c16Show(cur.repr()), c16HexShort(j.enc.buf), j.fail.kind, j.forms, culprit, c16Head(j.ce.buf), len(j.baseline))
		}
		if strings.HasPrefix(culprit, "x:") && len(cur.A) == 0 {
			culprit = rootForm(j.enc, j.wrapped) // the precise item outside the value domain
		}
		culprit = strings.TrimPrefix(culprit, "x:")
		var sig string
		switch {
		case culprit != "":
			sig = fmt.Sprintf("%s:%s%s:%s", c.format, culprit, cls, j.fail.kind)
		case canonFails[j]:
			sig = fmt.Sprintf("%s:%s%s:%s", c.format, rootForm(j.ce, j.cwr), cls, j.fail.kind)
		case len(cur.A) == 0:
			// a leaf that only fails in its non-canonical spelling (e.g. an item outside the value domain)
			sig = fmt.Sprintf("%s:%s%s:%s", c.format, rootForm(j.enc, j.wrapped), cls, j.fail.kind)
		default:
			sig = fmt.Sprintf("%s:%s+combination%s:%s", c.format, rootForm(j.enc, j.wrapped), cls, j.fail.kind)
		}
		jq := fmt.Sprintf(`"%s" | from_hex | decode("%s") | ._error.error, torepr, [.. | select(._gap?) | tobytes | to_hex]`, c16HexShort(j.enc.buf), c.format)
		desc := fmt.Sprintf("%s: %s\n  minimal failing value (at %q of case %d): %s\n  encoded with forms %s\n  reproduce: %s",
			c.format, j.fail.desc, j.path, c.id, c16Show(cur.repr()), j.enc.formSet(), jq)
		replay := map[string]any{"format": c.format, "case": c.id, "hex": hex.EncodeToString(c16Head4k(c.enc.buf)), "minimal_hex": hex.EncodeToString(c16Head4k(j.enc.buf)),
			"minimal_expected": c16Show(cur.repr()), "forms": j.enc.formSet(), "jq": jq, "kind": j.fail.kind}
		w.run.Violation(sig, desc, replay)
	}
}

func (j *c16DJ) beyond(fs []*c16Fail) bool {
	for _, f := range fs {
		if !c16HasKind(j.baseline, f.kind) {
			return true
		}
	}
	return false
}

// c16EditSize: bytes outside the common prefix and suffix.
func c16EditSize(a, b []byte) int {
	i := 0
	for i < len(a) && i < len(b) && a[i] == b[i] {
		i++
	}
	j := 0
	for j < len(a)-i && j < len(b)-i && a[len(a)-1-j] == b[len(b)-1-j] {
		j++
	}
	return (len(a) - i - j) + (len(b) - i - j)
}

func c16Head4k(b []byte) []byte {
	if len(b) > 4096 {
		return b[:4096]
	}
	return b
}

// cuts chooses the truncation points of one encoding.
func (w *c16W) cuts(r *gen.Rand, n int, all bool) []int {
	if n == 0 {
		return nil
	}
	if all && n <= 600 {
		out := make([]int, n)
		for i := range out {
			out[i] = i
		}
		return out
	}
	k := 2
	if all {
		k = 200
	}
	set := map[int]bool{0: true, n - 1: true}
	for i := 0; i < k; i++ {
		set[r.Intn(n)] = true
	}
	out := make([]int, 0, len(set))
	for c := range set {
		out = append(out, c)
	}
	sort.Ints(out)
	return out
}

func (w *c16W) makeCase(id uint64) *c16Case {
	r := gen.New(w.run.Seed).Fork(id)
	c := &c16Case{id: id}
	// half of the volume goes to the binary formats with many wire forms
	formats := []string{"msgpack", "msgpack", "msgpack", "cbor", "cbor", "cbor", "cbor", "bson", "bson", "bencode", "asn1_ber", "asn1_ber", "asn1_ber",
		"json", "json", "jsonl", "yaml", "yaml", "toml", "toml", "xml", "xml", "csv"}
	c.format = formats[int(id)%len(formats)]
	// a third of the cases use the full nesting budget, the others a random smaller one (fq's torepr costs 0.5 ms per node)
	depth := w.depth
	if id%3 != 0 {
		depth = 1 + r.Intn(w.depth)
	}
	switch c.format {
	case "json":
		c.txt = c16JSONCase(r, depth)
	case "jsonl":
		c.txt = c16JSONLCase(r, depth)
	case "yaml":
		c.txt = c16YAMLCase(r, depth)
	case "toml":
		c.txt = c16TOMLCase(r, depth)
	case "xml":
		c.txt = c16XMLCase(r, depth)
	case "csv":
		c.txt = c16CSVCase(r)
	default:
		c.exotic = r.Intn(8) == 0
		c.v = c16Gen(r.Fork(1), c16Doms[c.format], depth, true)
		c.encR = r.Fork(2)
		c.canon = r.Intn(10) == 0 && !c.exotic // the preferred / DER encoding as a whole
		c.enc, c.wrapped = c16EncodeTop(c.format, c.v, "", c.encR, nil, c.canon, c.exotic)
	}
	return c
}

func (w *c16W) batch(ids []uint64) {
	cases := make([]*c16Case, len(ids))
	var subs []*c16Sub
	for ci, id := range ids {
		c := w.makeCase(id)
		cases[ci] = c
		r := gen.New(w.run.Seed).Fork(id).Fork(77)
		if c.txt != nil {
			t := c.txt
			subs = append(subs, &c16Sub{ci: ci, role: "base", format: t.format, mode: "v", data: t.doc, opts: t.opts})
			benign, trailers := t.benign, t.trailers
			if !w.allPf {
				// quick tier: one insignificant trailer and two significant ones per document
				if len(benign) > 1 {
					benign = benign[r.Intn(len(benign)):][:1]
				}
				if len(trailers) > 2 {
					k := r.Intn(len(trailers) - 1)
					trailers = trailers[k : k+2]
				}
			}
			for _, b := range benign {
				subs = append(subs, &c16Sub{ci: ci, role: "benign", format: t.format, mode: "v", data: append(append([]byte(nil), t.doc...), b...), opts: t.opts, trailer: b})
			}
			for i, tr := range trailers {
				subs = append(subs, &c16Sub{ci: ci, role: "text-trailer", format: t.format, mode: "p", ff: i == 0, data: append(append([]byte(nil), t.doc...), tr...), opts: t.opts, trailer: tr})
			}
			if t.prefixes {
				for i, k := range w.cuts(r, len(t.doc), w.allPf) {
					subs = append(subs, &c16Sub{ci: ci, role: "prefix", format: t.format, mode: "p", ff: i == 1, data: t.doc[:k], opts: t.opts, cut: k})
				}
			}
			continue
		}
		subs = append(subs, w.newSub(c, ci, "base"))
		// trailing bytes: arbitrary, or another complete value
		var tr []byte
		switch r.Intn(4) {
		case 0:
			tr = []byte{0}
		case 1:
			tr = append([]byte(nil), c.enc.buf[:min(len(c.enc.buf), 1+r.Intn(6))]...)
		default:
			tr = r.Bytes(1 + r.Intn(5))
		}
		ts := w.newSub(c, ci, "trailing")
		ts.data = append(append([]byte(nil), c.enc.buf...), tr...)
		ts.trailer = tr
		subs = append(subs, ts)
		for i, k := range w.cuts(r, len(c.enc.buf), w.allPf) {
			subs = append(subs, &c16Sub{ci: ci, role: "prefix", format: c.format, bin: true, mode: "p", ff: i == 1, data: c.enc.buf[:k], cut: k})
		}
	}
	t0 := time.Now()
	res := w.eval(subs)
	if os.Getenv("C16_DEBUG") != "" {
		tot := 0
		for _, s := range subs {
			tot += len(s.data)
		}
		fmt.Fprintf(os.Stderr, "batch %d: %d subs %d bytes eval %v\n", ids[0], len(subs), tot, time.Since(t0))
	}
	// base results first: the other roles are only judged for cases whose base encoding is fine
	var diag []*c16DJ
	for i, s := range subs {
		if s.role != "base" {
			continue
		}
		c := cases[s.ci]
		w.run.Eval(1)
		w.run.Count("enc:"+c.format, 1)
		if c.txt != nil {
			w.judgeTextBase(c, res[i])
			continue
		}
		for k, n := range c.enc.forms {
			w.run.Count("emit:"+c.format+":"+k, int64(n))
		}
		if c.enc.noValue {
			w.run.Count("outside-domain:"+c.format, 1)
		}
		w.run.Distinct(c.format + "|" + c.enc.formSet() + "|" + c.v.shape(4))
		if c.id < 46 && c.id%6 == 0 {
			w.run.Sample(map[string]any{"case": c.id, "format": c.format, "hex": c16HexShort(c.enc.buf), "forms": c.enc.formSet(), "expected": c16Show(c.v.repr()), "outside_value_domain": c.enc.noValue})
		}
		if f := w.judgeBin(s, res[i], true); f != nil {
			c.failed = true
			diag = append(diag, &c16DJ{c: c, cur: c.v, path: "", enc: c.enc, wrapped: c.wrapped, fail: f})
		}
	}
	if len(diag) > 0 {
		w.diagnose(diag)
	}
	for i, s := range subs {
		c := cases[s.ci]
		if s.role == "base" || c.failed || res[i] == nil || res[i]["skip"] != nil {
			continue
		}
		w.run.Count("sub:"+s.role, 1)
		switch s.role {
		case "trailing":
			if f := w.judgeBin(s, res[i], false); f != nil {
				var sig string
				if c.wrapped || c.format == "bson" {
					sig = fmt.Sprintf("%s:document:%s", c.format, f.kind)
				} else {
					sig = fmt.Sprintf("%s:%s:%s", c.format, c.enc.nodes[0].form, f.kind)
				}
				jq := fmt.Sprintf(`"%s" | from_hex | decode("%s") | ._error.error, torepr, [.. | select(._gap?) | tobytes | to_hex]`, c16HexShort(s.data), c.format)
				w.run.Violation(sig, fmt.Sprintf("%s: %s\n  value %s, trailing bytes %x\n  reproduce: %s", c.format, f.desc, c16Show(c.v.repr()), s.trailer, jq),
					map[string]any{"format": c.format, "case": c.id, "hex": hex.EncodeToString(c16Head4k(s.data)), "trailer": hex.EncodeToString(s.trailer), "jq": jq})
			}
		case "prefix":
			w.judgePrefix(c, s, res[i])
		case "benign":
			w.judgeBenign(c, s, res[i])
		case "text-trailer":
			w.judgeTextTrailer(c, s, res[i])
		}
	}
}

func (w *c16W) judgePrefix(c *c16Case, s *c16Sub, res map[string]any) {
	form, total := "document", 0
	if c.txt != nil {
		form, total = c.txt.variant, len(c.txt.doc)
		form = strings.SplitN(form, "/", 2)[0]
		form = strings.SplitN(form, "+", 2)[0]
	} else {
		form, total = c.enc.nodeAt(s.cut).form, len(c.enc.buf)
	}
	var jq string
	if s.bin {
		jq = fmt.Sprintf(`"%s" | from_hex | decode("%s") | ._error.error, torepr`, c16HexShort(s.data), s.format)
	} else {
		jq = fmt.Sprintf(`%s | decode("%s") | ._error.error, tovalue`, c16JSONStr(s.data), s.format)
	}
	if _, raised := res["raise"]; raised {
		return // decode itself raised: an error at the boundary
	}
	if res["e"] == nil {
		w.run.Violation(fmt.Sprintf("%s:%s:prefix-accepted", s.format, form),
			fmt.Sprintf("%s: strict prefix (%d of %d bytes) of a complete encoding decodes without error\n  reproduce: %s", s.format, s.cut, total, jq),
			map[string]any{"format": s.format, "case": c.id, "hex": hex.EncodeToString(c16Head4k(s.data)), "cut": s.cut, "of": total, "jq": jq})
		return
	}
	if raised, _ := res["raised"].(bool); s.ff && !raised {
		w.run.Violation(fmt.Sprintf("%s:from-not-raised", s.format),
			fmt.Sprintf("%s: decode value carries ._error (%v) but from_%s did not raise\n  reproduce: %s", s.format, res["e"], s.format, jq),
			map[string]any{"format": s.format, "case": c.id, "hex": hex.EncodeToString(c16Head4k(s.data)), "jq": jq})
	}
}

func c16JSONStr(b []byte) string {
	j, _ := json.Marshal(string(b))
	if len(j) > 600 {
		return string(j[:600]) + "…"
	}
	return string(j)
}

func (w *c16W) textSig(c *c16Case, kind string, path string) string {
	v := strings.SplitN(c.txt.variant, "/", 2)[0]
	v = strings.SplitN(v, "+", 2)[0]
	if c.txt.class != "" {
		return fmt.Sprintf("%s:%s:%s:%s", c.format, v, c.txt.class, kind)
	}
	return fmt.Sprintf("%s:%s:%s", c.format, v, kind)
}

func (w *c16W) judgeTextBase(c *c16Case, res map[string]any) {
	t := c.txt
	w.run.Count("emit:"+t.format+":"+t.variant, 1)
	w.run.Distinct(t.format + "|" + t.variant + "|" + t.shape)
	if c.id < 46 && c.id%6 == 1 {
		w.run.Sample(map[string]any{"case": c.id, "format": t.format, "variant": t.variant, "document": c16JSONStr(t.doc), "expected": c16Show(t.exp)})
	}
	if res == nil || res["skip"] != nil {
		c.failed = true
		return
	}
	jq := fmt.Sprintf(`%s | decode("%s"; %s) | ._error.error, tovalue`, c16JSONStr(t.doc), t.format, c16JSONOpts(t.opts))
	replay := map[string]any{"format": t.format, "case": c.id, "variant": t.variant, "hex": hex.EncodeToString(c16Head4k(t.doc)), "expected": c16Show(t.exp), "jq": jq}
	if r, ok := res["raise"]; ok {
		c.failed = true
		w.run.Violation(w.textSig(c, "decode-raised", ""), fmt.Sprintf("%s (%s): decode raised: %v\n  reproduce: %s", t.format, t.variant, r, jq), replay)
		return
	}
	if e := res["e"]; e != nil {
		c.failed = true
		w.run.Violation(w.textSig(c, "decode-error", ""), fmt.Sprintf("%s (%s): well-formed document rejected: %v\n  expected value %s\n  reproduce: %s", t.format, t.variant, e, c16Show(t.exp), jq), replay)
		return
	}
	r, _ := res["r"].(map[string]any)
	c16CountTypes(w.run, t.format, r["v"])
	if _, d, ok := c16Diff(t.exp, r["v"], false, ""); !ok {
		c.failed = true
		w.run.Violation(w.textSig(c, "value-mismatch", ""), fmt.Sprintf("%s (%s): %s\n  reproduce: %s", t.format, t.variant, d, jq), replay)
	}
}

// c16TrailerLabel names the kind of trailing data (part of the signature).
func c16TrailerLabel(t *c16Text, tr []byte) string {
	if l, ok := t.trailerLabels[string(tr)]; ok {
		return l
	}
	s := strings.TrimSpace(string(tr))
	switch {
	case len(tr) > 16:
		return "second-document"
	case s == "":
		return "whitespace"
	}
	var sb strings.Builder
	for _, r := range s {
		switch {
		case r >= 'a' && r <= 'z' || r >= '0' && r <= '9':
			sb.WriteRune(r)
		default:
			fmt.Fprintf(&sb, "x%02x", r)
		}
	}
	return sb.String()
}

func c16JSONOpts(o map[string]any) string {
	if o == nil {
		return "{}"
	}
	j, _ := json.Marshal(o)
	return string(j)
}

// c16CountTypes records what the text decoders produced (there is no type field to read back).
func c16CountTypes(run *ev.Run, format string, v any) {
	acc := map[string]int{}
	var walk func(v any)
	walk = func(v any) {
		switch x := v.(type) {
		case nil:
			acc["null"]++
		case bool:
			acc["bool"]++
		case int:
			acc["int"]++
		case float64:
			acc["float"]++
		case string:
			acc["string"]++
		case []any:
			acc["array"]++
			for _, c := range x {
				walk(c)
			}
		case map[string]any:
			acc["object"]++
			for _, c := range x {
				walk(c)
			}
		default:
			acc[fmt.Sprintf("%T", v)]++
		}
	}
	walk(v)
	for k, n := range acc {
		run.Count("seen:"+format+":"+k, int64(n))
	}
}

func (w *c16W) judgeBenign(c *c16Case, s *c16Sub, res map[string]any) {
	t := c.txt
	jq := fmt.Sprintf(`%s | decode("%s"; %s) | ._error.error, tovalue`, c16JSONStr(s.data), t.format, c16JSONOpts(t.opts))
	replay := map[string]any{"format": t.format, "case": c.id, "hex": hex.EncodeToString(c16Head4k(s.data)), "jq": jq}
	if e := res["e"]; e != nil || res["raise"] != nil {
		w.run.Violation(w.textSig(c, "insignificant-trailer-rejected", ""), fmt.Sprintf("%s (%s): document followed by insignificant %q rejected: %v %v\n  reproduce: %s", t.format, t.variant, s.trailer, e, res["raise"], jq), replay)
		return
	}
	r, _ := res["r"].(map[string]any)
	if _, d, ok := c16Diff(t.exp, r["v"], false, ""); !ok {
		w.run.Violation(w.textSig(c, "insignificant-trailer-changes-value", ""), fmt.Sprintf("%s (%s): document followed by insignificant %q: %s\n  reproduce: %s", t.format, t.variant, s.trailer, d, jq), replay)
	}
}

func (w *c16W) judgeTextTrailer(c *c16Case, s *c16Sub, res map[string]any) {
	t := c.txt
	if _, raised := res["raise"]; raised {
		return
	}
	jq := fmt.Sprintf(`%s | decode("%s"; %s) | ._error.error, tovalue`, c16JSONStr(s.data), t.format, c16JSONOpts(t.opts))
	replay := map[string]any{"format": t.format, "case": c.id, "hex": hex.EncodeToString(c16Head4k(s.data)), "trailer": string(s.trailer), "jq": jq}
	if res["e"] == nil {
		w.run.Violation(fmt.Sprintf("%s:trailing-data-accepted:%s", t.format, c16TrailerLabel(t, s.trailer)), fmt.Sprintf("%s (%s): document followed by %q decodes without error\n  reproduce: %s", t.format, t.variant, c16Head(s.trailer), jq), replay)
		return
	}
	if raised, _ := res["raised"].(bool); s.ff && !raised {
		w.run.Violation(fmt.Sprintf("%s:from-not-raised", t.format), fmt.Sprintf("%s: decode value carries ._error but from_%s did not raise\n  reproduce: %s", t.format, t.format, jq), replay)
	}
}

// c16Required lists what the decoder must have seen at least once (fq's own names), so that an encoder that
// silently never emits a form shows up.
var c16Required = map[string][]string{
	"msgpack": {"positive_fixint", "negative_fixint", "nil", "false", "true", "uint8", "uint16", "uint32", "uint64", "int8", "int16", "int32", "int64",
		"float32", "float64", "fixstr", "str8", "str16", "str32", "bin8", "bin16", "bin32", "fixarray", "array16", "array32", "fixmap", "map16", "map32",
		"fixext1", "fixext2", "fixext4", "fixext8", "fixext16", "ext8", "ext16", "ext32"},
	"cbor": {"positive_int/imm", "positive_int/8bit", "positive_int/16bit", "positive_int/32bit", "positive_int/64bit",
		"negative_int/imm", "negative_int/8bit", "negative_int/16bit", "negative_int/32bit", "negative_int/64bit",
		"bytes/imm", "bytes/8bit", "bytes/16bit", "bytes/32bit", "bytes/64bit", "bytes/indefinite",
		"utf8/imm", "utf8/8bit", "utf8/16bit", "utf8/32bit", "utf8/64bit", "utf8/indefinite",
		"array/imm", "array/8bit", "array/16bit", "array/32bit", "array/64bit", "array/indefinite",
		"map/imm", "map/8bit", "map/16bit", "map/32bit", "map/64bit", "map/indefinite",
		"semantic/imm", "semantic/8bit", "semantic/16bit", "semantic/32bit", "semantic/64bit",
		"special_float/false", "special_float/true", "special_float/null", "special_float/undefined",
		"special_float/float16", "special_float/float32", "special_float/float64", "special_float/simple8", "special_float/simple-imm"},
	"bson":    {"double", "string", "document", "array", "binary/subtype0", "boolean", "null", "int32", "int64", "datetime", "timestamp", "undefined", "object_id", "regexp", "javascript", "decimal128", "minkey", "maxkey"},
	"bencode": {"integer", "string", "list", "dictionary"},
	"asn1_ber": {"universal/boolean/primitive/definite", "universal/integer/primitive/definite", "universal/null/primitive/definite|universal/null/primitive/indefinite", "universal/real/primitive/definite",
		"universal/octet_string/primitive/definite", "universal/octet_string/constructed/definite", "universal/octet_string/constructed/indefinite",
		"universal/utf8_string/primitive/definite", "universal/utf8_string/constructed/definite", "universal/utf8_string/constructed/indefinite",
		"universal/printable_string/primitive/definite", "universal/ia5_string/primitive/definite", "universal/visible_string/primitive/definite", "universal/numeric_string/primitive/definite",
		"universal/sequence/constructed/definite", "universal/sequence/constructed/indefinite", "universal/set/constructed/definite", "universal/set/constructed/indefinite",
		"universal/object_identifier/primitive/definite", "universal/bit_string/primitive/definite", "universal/enumerated/primitive/definite"},
}

func c16Main(args []string) {
	run := ev.NewRun("C16")
	run.Rule = "case id -> format (fixed rotation over msgpack, cbor, bson, bencode, asn1_ber, json, jsonl, yaml, toml, xml, csv) -> random JSON-like value of the format's domain (depth <= 5 quick / 8 thorough; integer edges at every width boundary over the int64/uint64 range, float edges incl. subnormals/inf/nan, unicode and byte strings, empty and wide containers, duplicate-free maps) -> encoded by an independent encoder that picks, per node, among ALL wire forms able to hold the value (30% canonical). Each encoding is evaluated complete, with trailing bytes, and cut at truncation points (2 sampled + first/last in quick; all in thorough up to 600 bytes, 200 sampled beyond). evaluations = complete encodings; distinct = (format, set of wire forms used, value shape to depth 4); observed seen:* = type codes x length forms read back from fq's decode tree."
	run.Assumptions = []string{
		"outside the value domain (emitted, checked for no error / no gap / no panic only): cbor tags, bignums, simple values, undefined; maps with non-string keys (msgpack, cbor); bson undefined/objectid/regexp/javascript/decimal128/minkey/maxkey; asn1 non-universal classes, bit strings, enumerated",
		"byte strings are compared through the lossy string representation fq documents (invalid UTF-8 bytes become U+FFFD on both sides); a third of the byte strings are valid UTF-8 so that the comparison is exact",
		"bson: deprecated element types 0x0c/0x0e/0x0f and binary subtype 2 are not emitted; bencode dictionaries are emitted with sorted keys only; asn1 REAL decimal forms use '.' as decimal mark and no leading spaces",
		"yaml/toml roots are containers (fq rejects scalar roots by design), toml has no null and only int64 integers; yaml integers stay within int64/uint64",
		"xml: no namespaces, at most one text run and one comment per element; text is compared trimmed (documented mapping of format/xml/xml.md), leading/trailing non-ASCII whitespace is not generated",
		"csv: rectangular records, no carriage returns inside fields, unquoted records do not start with '#' (fq's documented default comment option) and are not a single empty field",
		"truncation family: all binary formats, json documents whose root is a container, xml documents; from_F raising is checked on every prefix and trailing-data case",
		"numbers compare by exact mathematical value (1.0 == 1); for the binary IEEE formats the sign of zero must survive, NaN equals NaN",
		"containers wider than 12 hold numbers, booleans and nulls only; real 32 bit lengths (65539 elements/bytes) are exercised for strings and byte strings in both tiers, for arrays and maps in the thorough tier only (fq's torepr needs about 0.5 ms per node)",
		"a failing case is shrunk to its smallest failing sub-value and the responsible wire form is found by re-encoding with single forms replaced by the canonical one; trailing/prefix checks are skipped for cases whose complete encoding already fails",
	}
	c16SelfTest()
	if pf := os.Getenv("C16_CPUPROFILE"); pf != "" {
		f, _ := os.Create(pf)
		pprof.StartCPUProfile(f)
		defer pprof.StopCPUProfile()
	}

	// fq needs about 2 ms per decode() call and 0.5 ms per node in torepr: the design's 3*10^6 thorough encodings with all
	// truncations would take days; 150000 encodings x all truncation points is what fits the tier
	n := run.Pick(30000, 150000)
	depth := run.Pick(5, 8)
	if len(args) >= 2 && args[0] == "--replay" {
		c16Replay(run, args[1])
		return
	}
	if len(args) >= 2 && args[0] == "--case" {
		var id uint64
		fmt.Sscan(args[1], &id)
		os.Setenv("C16_DEBUG", "1")
		w := &c16W{run: run, s: fqx.NewSession(), depth: depth, allPf: run.Thorough()}
		c := w.makeCase(id)
		if c.txt != nil {
			fmt.Printf("case %d %s %s\n%s\nexpected %s\n", id, c.format, c.txt.variant, c16JSONStr(c.txt.doc), c16Show(c.txt.exp))
		} else {
			fmt.Printf("case %d %s exotic=%v outside-domain=%v forms %s\nhex %s\nexpected %s\n", id, c.format, c.exotic, c.enc.noValue, c.enc.formSet(), hex.EncodeToString(c.enc.buf), c16Show(c.v.repr()))
		}
		w.batch([]uint64{id})
		run.Finish()
	}
	if len(args) >= 2 && args[0] == "--n" {
		fmt.Sscan(args[1], &n)
	}
	const chunk = 40
	jobs := make(chan func(w *c16W), 64)
	var wg sync.WaitGroup
	for i := 0; i < runtime.NumCPU(); i++ {
		wg.Add(1)
		go func() {
			defer wg.Done()
			w := &c16W{run: run, s: fqx.NewSession(), depth: depth, allPf: run.Thorough()}
			defer func() { w.s.Close() }()
			for j := range jobs {
				j(w)
			}
		}()
	}
	// fixed wide cases first: real 16/32 bit lengths (more than 65535 elements / bytes)
	for _, j := range c16Wide(run.Thorough()) {
		jobs <- j
	}
	for id := 0; id < n; id += chunk {
		b := make([]uint64, 0, chunk)
		for j := id; j < id+chunk && j < n; j++ {
			b = append(b, uint64(j))
		}
		jobs <- func(w *c16W) { w.batch(b) }
	}
	close(jobs)
	wg.Wait()

	missing := []string{}
	for _, f := range c16BinFormats {
		for _, k := range c16Required[f] {
			seen := false
			for _, alt := range strings.Split(k, "|") {
				seen = seen || run.Counter("seen:"+f+":"+alt) > 0
			}
			if !seen {
				missing = append(missing, f+":"+k)
			}
		}
	}
	sort.Strings(missing)
	run.Extra["wire_forms_never_seen_by_decoder"] = missing
	for _, m := range missing {
		run.Inconclusive("never-seen:" + m)
	}
	if len(missing) > 0 {
		fmt.Fprintf(os.Stderr, "C16: wire forms never seen by the decoder: %v\n", missing)
	}
	pprof.StopCPUProfile()
	run.Finish()
}

// c16Wide: containers and strings that need the 32 bit length forms for real. fq's torepr costs about
// 0.5 ms per node, so the quick tier keeps the 65539-element containers to msgpack arrays.
func c16Wide(thorough bool) []func(w *c16W) {
	const n = 65536 + 3
	mk := func(kind c16Kind) *c16V {
		v := &c16V{K: kind}
		switch kind {
		case c16KStr:
			v.S = strings.Repeat("aé", n/3+1)
		case c16KBytes:
			v.By = []byte(strings.Repeat("\x00\xff\x7f", n/3+1))
		case c16KArr, c16KMap:
			for i := 0; i < n; i++ {
				v.A = append(v.A, &c16V{K: c16KInt, I: c16Big(fmt.Sprint(i % 100))})
				if kind == c16KMap {
					v.Keys = append(v.Keys, fmt.Sprintf("k%d", i))
				}
			}
		}
		return v
	}
	var jobs []func(w *c16W)
	for _, format := range c16BinFormats {
		for _, k := range []c16Kind{c16KArr, c16KMap, c16KStr, c16KBytes} {
			if format == "asn1_ber" && k == c16KMap {
				continue
			}
			if !thorough && (k == c16KMap || k == c16KArr) {
				continue
			}
			jobs = append(jobs, func(w *c16W) {
				v := mk(k)
				c := &c16Case{id: 1 << 40, format: format, v: v, canon: true, encR: gen.New(w.run.Seed).Fork(uint64(k))}
				c.enc, c.wrapped = c16EncodeTop(format, v, "", c.encR, nil, true, false)
				s := w.newSub(c, 0, "base")
				res := w.eval([]*c16Sub{s})
				w.run.Eval(1)
				w.run.Count("enc:wide:"+format, 1)
				w.run.Distinct(format + "|wide|" + c16KindNames[k])
				if f := w.judgeBin(s, res[0], true); f != nil {
					root := c.enc.nodes[0].form
					if c.wrapped {
						root = c.enc.nodes[1].form
					}
					w.run.Violation(fmt.Sprintf("%s:%s:wide:%s", format, root, f.kind), fmt.Sprintf("%s: %s with %d elements/bytes: %s", format, c16KindNames[k], n, f.desc),
						map[string]any{"format": format, "kind": c16KindNames[k], "n": n})
				}
			})
		}
	}
	return jobs
}

func c16Replay(run *ev.Run, path string) {
	b, err := os.ReadFile(path)
	if err != nil {
		fmt.Println(err)
		os.Exit(2)
	}
	var doc struct {
		Case map[string]any `json:"case"`
	}
	if err := json.Unmarshal(b, &doc); err != nil {
		fmt.Println(err)
		os.Exit(2)
	}
	s := fqx.NewSession()
	defer s.Close()
	h, _ := doc.Case["hex"].(string)
	if m, ok := doc.Case["minimal_hex"].(string); ok {
		h = m
	}
	f, _ := doc.Case["format"].(string)
	outs, err := s.Eval(nil, fmt.Sprintf(`"%s" | from_hex | decode("%s") | {error: ._error.error, repr: (try (if format == "%s" and (["json","jsonl","yaml","toml","xml","csv"] | index("%s") | not) then torepr else tovalue end) catch "torepr raised: \(.)"), gaps: [.. | select(._gap?) | tobytes | to_hex]}`, h, f, f, f))
	fmt.Printf("replay %s: format %s\n  expected: %v\n  got: %v %v\n  jq: %v\n", path, f, doc.Case["minimal_expected"], outs, err, doc.Case["jq"])
	os.Exit(0)
}
