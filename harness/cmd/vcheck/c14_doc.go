package main

// C14: XML (three documented representations), CSV, and the Python reference bridge (thorough tier).

import (
	"bufio"
	"encoding/csv"
	"encoding/hex"
	"encoding/json"
	"encoding/xml"
	"fmt"
	"io"
	"os"
	"os/exec"
	"path/filepath"
	"sort"
	"strings"

	"verif/ev"
	"verif/gen"
)

// ---- XML ----

type c14Elem struct {
	name     string
	attrs    map[string]string
	text     string
	comment  string
	children []*c14Elem
}

var c14XMLNames = []string{"a", "b", "c", "doc", "item", "x-y", "x.y", "_u", "A", "Elem", "n1", "é", "名", "long_element_name"}
var c14XMLTextBits = []string{"<", ">", "&", "\"", "'", "]]>", "&amp;", "&#65;", "<!--", "-->", "<?x?>", "<![CDATA[", "a b", "  ", "\n", "\t", "\r", "\r\n", "é", "日本", "😀", "\u0085", "\u00a0", "\ufffd", "\u2028", "=", "/", "%", "text", "0", "x"}

func c14XMLText(r *gen.Rand, max int, trim bool) string {
	n := 1 + r.Intn(max)
	var sb strings.Builder
	for i := 0; i < n; i++ {
		if r.Intn(3) == 0 {
			sb.WriteString(gen.Pick(r, c14XMLTextBits))
		} else {
			sb.WriteByte("abcdefXYZ 019"[r.Intn(13)])
		}
	}
	s := sb.String()
	if trim {
		s = strings.TrimSpace(s) // documented: text nodes are trimmed by from_xml
		if s == "" {
			s = "t"
		}
	}
	return s
}

func c14GenElem(r *gen.Rand, depth int, names []string, wide bool) *c14Elem {
	e := &c14Elem{name: gen.Pick(r, names), attrs: map[string]string{}}
	for i := r.Intn(4) - 1; i > 0; i-- {
		v := ""
		if r.Intn(5) != 0 {
			v = c14XMLText(r, 8, false)
		}
		e.attrs[gen.Pick(r, c14XMLNames)] = v
	}
	if r.Intn(2) == 0 {
		e.text = c14XMLText(r, 12, true)
	}
	if r.Intn(8) == 0 {
		c := c14XMLText(r, 8, true)
		for strings.Contains(c, "--") { // "--" cannot occur inside an XML comment
			c = strings.ReplaceAll(c, "--", "- -")
		}
		c = strings.ReplaceAll(c, "\r", " ") // comments are not escaped: a CR would be normalised to LF by any XML reader
		c = strings.TrimSpace(strings.Trim(strings.TrimSpace(c), "-"))
		e.comment = c
	}
	if depth > 0 {
		n := r.Intn(4)
		if wide {
			n = 13 + r.Intn(12) // more than 12 siblings: sort.Sort leaves insertion sort
		}
		sub := names
		if r.Bool() {
			sub = names[:min(len(names), 2+r.Intn(3))] // few names: repeated siblings
		}
		for i := 0; i < n; i++ {
			e.children = append(e.children, c14GenElem(r, depth-1, sub, false))
		}
	}
	return e
}

// array representation: ["name", attrs|null, [children]] (attribute keys bare, #text/#comment inside attrs)
func (e *c14Elem) arrayForm() any {
	var attrs any
	m := map[string]any{}
	for k, v := range e.attrs {
		m[k] = v
	}
	if e.text != "" {
		m["#text"] = e.text
	}
	if e.comment != "" {
		m["#comment"] = e.comment
	}
	if len(m) > 0 {
		attrs = m
	}
	ch := []any{}
	for _, c := range e.children {
		ch = append(ch, c.arrayForm())
	}
	return []any{e.name, attrs, ch}
}

// object representation value of an element; seq >= 0 adds "#seq"
func (e *c14Elem) objectValue(withSeq bool, seq int) any {
	m := map[string]any{}
	for k, v := range e.attrs {
		m["@"+k] = v
	}
	if e.text != "" {
		m["#text"] = e.text
	}
	if e.comment != "" {
		m["#comment"] = e.comment
	}
	if withSeq && seq >= 0 {
		m["#seq"] = seq
	}
	for i, c := range e.children {
		cs := -1
		if len(e.children) > 1 {
			cs = i
		}
		cv := c.objectValue(withSeq, cs)
		switch old := m[c.name].(type) {
		case nil:
			if _, exists := m[c.name]; exists {
				panic("nil child")
			}
			m[c.name] = cv
		case []any:
			m[c.name] = append(old, cv)
		default:
			m[c.name] = []any{old, cv}
		}
	}
	if len(m) == 0 {
		return ""
	}
	if len(m) == 1 && e.text != "" {
		return e.text
	}
	return m
}

// sortedByName: the document order to_xml produces from an object without #seq
func (e *c14Elem) sortedByName() *c14Elem {
	o := *e
	o.children = nil
	for _, c := range e.children {
		o.children = append(o.children, c.sortedByName())
	}
	sort.SliceStable(o.children, func(i, j int) bool { return o.children[i].name < o.children[j].name })
	return &o
}

func (e *c14Elem) count() int {
	n := 1
	for _, c := range e.children {
		n += c.count()
	}
	return n
}

func (e *c14Elem) maxSiblings() int {
	n := len(e.children)
	for _, c := range e.children {
		n = max(n, c.maxSiblings())
	}
	return n
}

// c14ParseXML reads XML text with encoding/xml's tokenizer (strict) into the array representation.
func c14ParseXML(text string) (any, error) {
	d := xml.NewDecoder(strings.NewReader(text))
	type frame struct {
		name     string
		attrs    map[string]any
		text     strings.Builder
		comment  strings.Builder
		children []any
	}
	var stack []*frame
	var root any
	for {
		tok, err := d.RawToken()
		if err == io.EOF {
			break
		}
		if err != nil {
			return nil, err
		}
		switch t := tok.(type) {
		case xml.StartElement:
			f := &frame{name: c14RawName(t.Name), attrs: map[string]any{}}
			for _, a := range t.Attr {
				f.attrs[c14RawName(a.Name)] = a.Value
			}
			stack = append(stack, f)
		case xml.EndElement:
			if len(stack) == 0 {
				return nil, fmt.Errorf("unbalanced end element")
			}
			f := stack[len(stack)-1]
			stack = stack[:len(stack)-1]
			if c14RawName(t.Name) != f.name {
				return nil, fmt.Errorf("end element %s closes %s", c14RawName(t.Name), f.name)
			}
			if s := strings.TrimSpace(f.text.String()); s != "" {
				f.attrs["#text"] = s
			}
			if s := strings.TrimSpace(f.comment.String()); s != "" {
				f.attrs["#comment"] = s
			}
			var attrs any
			if len(f.attrs) > 0 {
				attrs = f.attrs
			}
			if f.children == nil {
				f.children = []any{}
			}
			el := []any{f.name, attrs, f.children}
			if len(stack) == 0 {
				if root != nil {
					return nil, fmt.Errorf("two root elements")
				}
				root = el
			} else {
				p := stack[len(stack)-1]
				p.children = append(p.children, el)
			}
		case xml.CharData:
			if len(stack) > 0 {
				stack[len(stack)-1].text.Write(t)
			} else if strings.TrimSpace(string(t)) != "" {
				return nil, fmt.Errorf("text outside the root element")
			}
		case xml.Comment:
			if len(stack) > 0 {
				stack[len(stack)-1].comment.Write(t)
			}
		}
	}
	if len(stack) != 0 || root == nil {
		return nil, fmt.Errorf("incomplete document")
	}
	return root, nil
}

func c14RawName(n xml.Name) string {
	if n.Space != "" {
		return n.Space + ":" + n.Local
	}
	return n.Local
}

func c14GenXML(w *c14Worker, r *gen.Rand, b *c14Batch, n int) {
	for i := 0; i < n; i++ {
		wide := r.Intn(10) == 0
		depth := r.Intn(4)
		if wide {
			depth = 1 + r.Intn(2)
		}
		names := c14XMLNames
		ns := r.Intn(12) == 0
		root := c14GenElem(r, depth, names, wide)
		if ns {
			// a declared prefix used by the children: from_xml must give the prefixed names back
			root.attrs["xmlns:p"] = "urn:example:p"
			for _, c := range root.children {
				c.name = "p:" + strings.TrimPrefix(c.name, "p:")
			}
		}
		rep := r.Intn(3)
		indent := ""
		if r.Intn(3) == 0 {
			indent = fmt.Sprintf("{indent: %d}", 1+r.Intn(4))
		}
		var in any
		var from string
		var expectDoc *c14Elem
		var repName string
		switch rep {
		case 0:
			repName = "array"
			in = root.arrayForm()
			from = "from_xml({array: true})"
			expectDoc = root
		case 1:
			repName = "object"
			in = map[string]any{root.name: root.objectValue(false, -1)}
			from = "from_xml"
			expectDoc = root.sortedByName()
		default:
			repName = "object-seq"
			in = map[string]any{root.name: root.objectValue(true, -1)}
			from = "from_xml({seq: true})"
			expectDoc = root
		}
		toArg := ""
		if indent != "" {
			toArg = "(" + indent + ")"
		}
		cl := repName
		if wide {
			cl += ":wide"
		}
		if ns {
			cl += ":ns"
		}
		if indent != "" {
			cl += ":indent"
		}
		want := expectDoc.arrayForm()
		orig := c14Clone(in)
		b.add(fmt.Sprintf("to_xml%s as $t | [$t, (try ($t | %s | tovalue | [.]) catch c14e)]", toArg, from), &c14Case{pair: "xml:" + repName, class: cl, size: root.count(), in: in, conv: 2, check: func(t *c14T, o c14Out) {
			f, ok := c14Fields(o, 2)
			if !ok {
				t.fail("to_xml:"+repName+":error", "to_xml failed: %s", o.err)
				return
			}
			if root.maxSiblings() > 12 {
				t.run.Count("feature:xml:siblings>12", 1)
			}
			txt, _ := f[0].(string)
			got, err := c14ParseXML(txt)
			if err != nil {
				t.fail("to_xml:"+repName+":encoding/xml-rejects", "encoding/xml rejects to_xml output %q: %v", c14Trunc(txt, 400), err)
				return
			}
			if d := c14Eq(want, got); d != nil {
				sig := "to_xml:" + repName + ":document:" + d.kind
				if wide && repName == "object" {
					sig = "to_xml:object:sibling-order-over-12"
				}
				t.fail(sig, "document written by to_xml (read with encoding/xml) differs from the input tree at %s; text %q", d, c14Trunc(txt, 500))
				return
			}
			back, ok := f[1].([]any)
			if !ok {
				e, _ := f[1].(map[string]any)
				t.fail("xml:"+repName+":roundtrip:from_xml-error", "from_xml rejects to_xml's own output %q: %v", c14Trunc(txt, 300), e["e"])
				return
			}
			if d := c14Eq(orig, back[0]); d != nil {
				sig := "xml:" + repName + ":roundtrip:" + d.kind
				if wide && repName == "object" {
					sig = "xml:object:roundtrip:sibling-order-over-12"
				}
				t.fail(sig, "to_xml | %s differs at %s; text %q", from, d, c14Trunc(txt, 500))
			}
		}})
	}
}

// ---- CSV ----

var c14CSVBits = []string{",", "\"", "\"\"", "\n", ";", "\t", "|", ":", " ", "  ", "'", "\\", "\\.", "#", "a,b", "\"q\"", "é", "日本", "😀", "\u00a0", "\u2003", "\ufeff", "x", "0", "-1", "=1+1"}

func c14CSVField(r *gen.Rand) string {
	switch r.Intn(10) {
	case 0:
		return ""
	case 1:
		return gen.Pick(r, c14CSVBits)
	}
	n := 1 + r.Intn(8)
	var sb strings.Builder
	for i := 0; i < n; i++ {
		if r.Intn(4) == 0 {
			sb.WriteString(gen.Pick(r, c14CSVBits))
		} else {
			sb.WriteByte("abcXYZ019 "[r.Intn(10)])
		}
	}
	return sb.String()
}

func c14GenCSV(w *c14Worker, r *gen.Rand, b *c14Batch, n int) {
	for i := 0; i < n; i++ {
		if r.Intn(25) == 0 {
			// malformed: a quoted field that is never closed (LazyQuotes cannot repair that)
			txt := gen.Pick(r, []string{"a,b\n\"abc", "\"", "x,\"y\nz,w\n", "a,b\n\"abc\"x,d\n", "1,2\n3,\"4"})
			// from_csv deliberately reads with LazyQuotes (format/csv/csv.go), so "malformed" is defined by the
			// reference reader with the same leniency: where encoding/csv rejects, fq must raise; where the lenient
			// reader accepts (an unterminated last quoted field), fq must return exactly the reference rows. (The
			// oracle first demanded an error for every unterminated quote: more than the property states.)
			rr := csv.NewReader(strings.NewReader(txt))
			rr.LazyQuotes = true
			rr.TrimLeadingSpace = true
			refRows, refErr := rr.ReadAll()
			b.add("from_csv | tovalue", &c14Case{pair: "csv", class: "bad:unterminated-quote", size: len(txt), in: txt, wantErr: refErr != nil, check: func(t *c14T, o c14Out) {
				if refErr != nil {
					if o.ok {
						t.fail("from_csv:parse-error-swallowed", "malformed input accepted; result %s", c14Trunc(c14JSON(o.v), 200))
					}
					return
				}
				var want []any
				for _, row := range refRows {
					var rw []any
					for _, f := range row {
						rw = append(rw, f)
					}
					want = append(want, rw)
				}
				if !o.ok || c14JSON(o.v) != c14JSON(want) {
					t.fail("from_csv:lenient-value-differs-from-reference", "lenient CSV: got %s want %s", c14Trunc(c14JSON(o.v), 200), c14Trunc(c14JSON(want), 200))
				}
			}})
			continue
		}
		rows := 1 + r.Intn(6)
		cols := 1 + r.Intn(5)
		comma := ""
		if r.Intn(3) == 0 {
			comma = gen.Pick(r, []string{";", "\t", "|", ":", " ", ","})
		}
		special := ""
		switch r.Intn(14) {
		case 0:
			special = "hash-first"
		case 1:
			special = "crlf"
		case 2:
			special = "non-ascii-comma"
			comma = gen.Pick(r, []string{"é", "¦", "→"})
		}
		if special == "" && (comma == "\t" || comma == " ") {
			special = "whitespace-comma"
		}
		data := make([][]string, rows)
		for y := range data {
			data[y] = make([]string, cols)
			for x := range data[y] {
				data[y][x] = c14CSVField(r)
				if special != "hash-first" && x == 0 && strings.HasPrefix(data[y][x], "#") {
					data[y][x] = "x" + data[y][x]
				}
			}
			if cols == 1 && data[y][0] == "" {
				data[y][0] = "v" // a row of one empty field is an empty line: not representable in CSV
			}
		}
		switch special {
		case "hash-first":
			data[r.Intn(rows)][0] = "#" + c14CSVField(r)
		case "crlf":
			data[r.Intn(rows)][r.Intn(cols)] = "a\r\nb"
		}
		in := make([]any, rows)
		for y := range data {
			row := make([]any, cols)
			for x := range data[y] {
				row[x] = data[y][x]
			}
			in[y] = row
		}
		orig := c14Clone(in)
		opt := ""
		if comma != "" {
			opt = fmt.Sprintf("({comma: %s})", c14JSON(comma))
		}
		cl := "default-comma"
		if comma != "" {
			cl = "custom-comma"
		}
		if special != "" {
			cl = special
		}
		multiline := false
		for y := range data {
			for x := range data[y] {
				if strings.ContainsAny(data[y][x], "\n\"") {
					multiline = true
				}
			}
		}
		if multiline && special == "" {
			cl += ":quoted"
		}
		b.add(fmt.Sprintf("to_csv%s as $t | [$t, (try ($t | from_csv%s | tovalue | [.]) catch c14e)]", opt, opt), &c14Case{pair: "csv", class: cl, size: rows * cols, in: in, conv: 2, check: func(t *c14T, o c14Out) {
			f, ok := c14Fields(o, 2)
			if !ok {
				t.fail("to_csv:error", "to_csv failed: %s", o.err)
				return
			}
			txt, _ := f[0].(string)
			// independent reader: encoding/csv with the same separator, no comment character, no trimming
			cr := csv.NewReader(strings.NewReader(txt))
			cr.FieldsPerRecord = -1
			if comma != "" {
				cr.Comma = []rune(comma)[0]
			}
			recs, err := cr.ReadAll()
			// each special class is one defect: one signature whichever check reports it
			special2sig := map[string]string{
				"hash-first":       "csv:roundtrip:hash-first-row-dropped",
				"crlf":             "csv:roundtrip:crlf-in-field",
				"whitespace-comma": "csv:roundtrip:whitespace-comma",
				"non-ascii-comma":  "csv:non-ascii-comma-first-byte-only",
			}
			sigOf := func(base string) string {
				if s, ok := special2sig[special]; ok {
					return s
				}
				return base
			}
			if err != nil {
				t.fail(sigOf("to_csv:encoding/csv-rejects"), "encoding/csv rejects to_csv output %q: %v", c14Trunc(txt, 300), err)
				return
			}
			if special != "crlf" { // encoding/csv itself turns \r\n inside a quoted field into \n
				if d := c14CSVDiff(data, recs); d != "" {
					t.fail(sigOf("to_csv:rows"), "to_csv output read by encoding/csv differs: %s; text %q", d, c14Trunc(txt, 300))
					return
				}
			}
			back, ok := f[1].([]any)
			if !ok {
				e, _ := f[1].(map[string]any)
				t.fail(sigOf("csv:roundtrip:from_csv-error"), "from_csv rejects to_csv's own output %q: %v", c14Trunc(txt, 300), e["e"])
				return
			}
			if d := c14Eq(orig, back[0]); d != nil {
				t.fail(sigOf("csv:roundtrip"), "to_csv | from_csv differs at %s; text %q", d, c14Trunc(txt, 300))
			}
		}})
	}
}

func c14CSVDiff(want [][]string, got [][]string) string {
	if len(want) != len(got) {
		return fmt.Sprintf("%d rows, want %d", len(got), len(want))
	}
	for y := range want {
		if len(want[y]) != len(got[y]) {
			return fmt.Sprintf("row %d has %d fields, want %d", y, len(got[y]), len(want[y]))
		}
		for x := range want[y] {
			if want[y][x] != got[y][x] {
				return fmt.Sprintf("row %d field %d is %q, want %q", y, x, got[y][x], want[y][x])
			}
		}
	}
	return ""
}

// ---- Python reference bridge (thorough tier) ----

type c14Py struct {
	cmd *exec.Cmd
	in  io.WriteCloser
	out *bufio.Reader
	run *ev.Run
	bad bool
}

func c14PyScript() string {
	cands := []string{filepath.Join(ev.VerifDir(), "harness", "pyref", "c14_ref.py"), "/verif/harness/pyref/c14_ref.py"}
	if exe, err := os.Executable(); err == nil {
		cands = append(cands, filepath.Join(filepath.Dir(exe), "harness", "pyref", "c14_ref.py"), filepath.Join(filepath.Dir(exe), "..", "harness", "pyref", "c14_ref.py"))
	}
	if wd, err := os.Getwd(); err == nil {
		cands = append(cands, filepath.Join(wd, "pyref", "c14_ref.py"))
	}
	for _, c := range cands {
		if _, err := os.Stat(c); err == nil {
			return c
		}
	}
	return ""
}

func c14StartPy(run *ev.Run) *c14Py {
	script := c14PyScript()
	if script == "" {
		run.Inconclusive("python-helper-missing")
		return nil
	}
	cmd := exec.Command("python3", script)
	in, err1 := cmd.StdinPipe()
	out, err2 := cmd.StdoutPipe()
	cmd.Stderr = os.Stderr
	if err1 != nil || err2 != nil || cmd.Start() != nil {
		run.Inconclusive("python-helper-start")
		return nil
	}
	p := &c14Py{cmd: cmd, in: in, out: bufio.NewReaderSize(out, 1<<20), run: run}
	if r, err := p.call(map[string]any{"op": "ping"}); err != nil || r["ok"] != true {
		run.Inconclusive("python-helper-ping")
		p.close()
		return nil
	}
	return p
}

func (p *c14Py) close() {
	if p == nil {
		return
	}
	p.in.Close()
	_ = p.cmd.Wait()
}

func (p *c14Py) call(req map[string]any) (map[string]any, error) {
	if p.bad {
		return nil, fmt.Errorf("helper gone")
	}
	b, _ := json.Marshal(req)
	if _, err := p.in.Write(append(b, '\n')); err != nil {
		p.bad = true
		p.run.Inconclusive("python-helper-io")
		return nil, err
	}
	line, err := p.out.ReadBytes('\n')
	if err != nil {
		p.bad = true
		p.run.Inconclusive("python-helper-io")
		return nil, err
	}
	var resp map[string]any
	if err := json.Unmarshal(line, &resp); err != nil {
		return nil, err
	}
	return resp, nil
}

func (p *c14Py) hashes(data []byte) map[string]string {
	resp, err := p.call(map[string]any{"op": "hash", "hex": hex.EncodeToString(data)})
	if err != nil {
		return nil
	}
	out := map[string]string{}
	for k, v := range resp {
		if s, ok := v.(string); ok {
			out[k] = s
		}
	}
	return out
}

var c14ErrPyGone = fmt.Errorf("python helper unavailable")

func (p *c14Py) toml(text string) (any, error) {
	resp, err := p.call(map[string]any{"op": "toml", "text": text})
	if err != nil {
		return nil, c14ErrPyGone
	}
	if resp["ok"] != true {
		return nil, fmt.Errorf("%v", resp["error"])
	}
	js, _ := resp["json"].(string)
	return c14ParseJSON(js)
}
