package main

// Process isolation for checks that feed hostile inputs to fq: a Go fatal error (out of memory on a
// bogus length, stack overflow, concurrent map write) or a panic on a goroutine the harness does not
// own kills the whole process, so jobs run in worker children. Each worker journals the job index
// BEFORE running it; when a worker dies the parent attributes the death to the job in flight,
// records it, and restarts the worker after that job.

import (
	"bufio"
	"bytes"
	"fmt"
	"os"
	"os/exec"
	"path/filepath"
	"runtime"
	"runtime/debug"
	"strconv"
	"strings"
	"sync"
	"time"

	"verif/ev"
)

type isoSpec struct {
	NJobs int
	// Do processes job k inside a worker; violations/counters go to run as usual.
	Do func(run *ev.Run, k int)
	// OnDeath is called in the PARENT when a worker died while running job k.
	// kind is one of: "oom", "stack-overflow", "fatal:<text>", "panic:<text>", "killed", "watchdog".
	OnDeath func(run *ev.Run, k int, kind string, stderrTail string)
	// Label describes job k (parent side, for reports).
	Label   func(k int) string
	Workers int
	// WatchdogSec: a worker that journals nothing for this long is killed (inconclusive).
	WatchdogSec int
	// MaxRSS: a worker whose resident set exceeds this is killed ("oom": inconclusive, a length-field bomb
	// must not take the machine down).
	MaxRSS int64
	// ExtraEnv, if set, is evaluated in the parent at every worker (re)start; its strings are added to the
	// worker's environment (C06: formats whose forced cases are skipped after repeated fatal deaths).
	ExtraEnv func() []string
}

func rssBytes(pid int) int64 {
	b, err := os.ReadFile(fmt.Sprintf("/proc/%d/statm", pid))
	if err != nil {
		return 0
	}
	f := strings.Fields(string(b))
	if len(f) < 2 {
		return 0
	}
	pages, _ := strconv.ParseInt(f[1], 10, 64)
	return pages * int64(os.Getpagesize())
}

func isoWorkerArgs() (w, n, startAfter int, dir string, ok bool) {
	s := os.Getenv("VERIF_WORKER")
	if s == "" {
		return
	}
	parts := strings.Split(s, ":")
	if len(parts) != 4 {
		return
	}
	w, _ = strconv.Atoi(parts[0])
	n, _ = strconv.Atoi(parts[1])
	startAfter, _ = strconv.Atoi(parts[2])
	return w, n, startAfter, parts[3], true
}

// isoRun runs spec. In a worker process it executes the shard and exits; in the parent it
// orchestrates workers, merges their parts into run and returns.
func isoRun(run *ev.Run, spec isoSpec) {
	if w, n, startAfter, dir, ok := isoWorkerArgs(); ok {
		isoWorker(run, spec, w, n, startAfter, dir)
		os.Exit(0)
	}
	if spec.Workers == 0 {
		spec.Workers = runtime.NumCPU()
	}
	if spec.WatchdogSec == 0 {
		spec.WatchdogSec = 30
	}
	if spec.MaxRSS == 0 {
		spec.MaxRSS = 3 << 30
	}
	dir, err := os.MkdirTemp("", "verif-iso-"+run.ID+"-")
	if err != nil {
		panic(err)
	}
	defer os.RemoveAll(dir)
	var wg sync.WaitGroup
	var outMu sync.Mutex
	seenKnown := map[string]bool{}
	violLines := 0
	for w := 0; w < spec.Workers; w++ {
		wg.Add(1)
		go func(w int) {
			defer wg.Done()
			startAfter := -1
			gen := 0
			for {
				journal := filepath.Join(dir, fmt.Sprintf("journal-%d", w))
				_ = os.Remove(journal)
				part := filepath.Join(dir, fmt.Sprintf("part-%d-%d.json", w, gen))
				cmd := exec.Command(os.Args[0], run.ID)
				cmd.Env = append(os.Environ(),
					fmt.Sprintf("VERIF_WORKER=%d:%d:%d:%s", w, spec.Workers, startAfter, dir),
					"VERIF_PART="+part,
					"GOMEMLIMIT=3GiB",
					"GOMAXPROCS=2",
				)
				if spec.ExtraEnv != nil {
					cmd.Env = append(cmd.Env, spec.ExtraEnv()...)
				}
				var stderr bytes.Buffer
				cmd.Stderr = &limitedWriter{buf: &stderr, max: 1 << 20}
				stdout, _ := cmd.StdoutPipe()
				if err := cmd.Start(); err != nil {
					run.Inconclusive("worker-start-failed")
					return
				}
				done := make(chan struct{})
				go func() {
					sc := bufio.NewScanner(stdout)
					sc.Buffer(make([]byte, 1<<20), 1<<22)
					for sc.Scan() {
						line := sc.Text()
						outMu.Lock()
						if strings.HasPrefix(line, "KNOWN-FINDING:") {
							if !seenKnown[line] {
								seenKnown[line] = true
								fmt.Println(line)
							}
						} else if !strings.HasPrefix(line, run.ID+" ") {
							if strings.HasPrefix(line, "VIOLATION ") {
								violLines++
							}
							fmt.Println(line)
						}
						outMu.Unlock()
					}
					close(done)
				}()
				// watchdog on the journal's mtime
				killed := false
				memKilled := false
				stop := make(chan struct{})
				go func() {
					t := time.NewTicker(500 * time.Millisecond)
					defer t.Stop()
					for {
						select {
						case <-stop:
							return
						case <-t.C:
							if rssBytes(cmd.Process.Pid) > spec.MaxRSS {
								memKilled = true
								_ = cmd.Process.Kill()
								return
							}
							fi, err := os.Stat(journal)
							last := time.Now()
							if err == nil {
								last = fi.ModTime()
							}
							if time.Since(last) > time.Duration(spec.WatchdogSec)*time.Second {
								killed = true
								_ = cmd.Process.Kill()
								return
							}
						}
					}
				}()
				<-done
				werr := cmd.Wait()
				close(stop)
				_ = run.MergePart(part)
				if werr == nil {
					return // shard finished
				}
				// died: which job was in flight?
				k := -1
				if b, err := os.ReadFile(journal); err == nil {
					k, _ = strconv.Atoi(strings.TrimSpace(string(b)))
				}
				tail := stderr.String()
				kind := classifyDeath(tail, killed)
				if memKilled {
					kind = "oom"
				}
				if k < 0 {
					run.Inconclusive("worker-died-before-first-job:" + kind)
					return
				}
				if spec.OnDeath != nil {
					spec.OnDeath(run, k, kind, lastLines(tail, 60))
				}
				startAfter = k
				gen++
			}
		}(w)
	}
	wg.Wait()
	run.EnsureViolations(violLines)
}

type limitedWriter struct {
	buf *bytes.Buffer
	max int
}

func (l *limitedWriter) Write(p []byte) (int, error) {
	if l.buf.Len() < l.max {
		l.buf.Write(p)
	}
	return len(p), nil
}

func lastLines(s string, n int) string {
	lines := strings.Split(s, "\n")
	// keep the head (fatal error line + first goroutine) rather than the tail of a long dump
	if len(lines) > n {
		lines = lines[:n]
	}
	return strings.Join(lines, "\n")
}

func classifyDeath(stderr string, killed bool) string {
	switch {
	case killed:
		return "watchdog"
	case strings.Contains(stderr, "out of memory"), strings.Contains(stderr, "cannot allocate memory"):
		return "oom"
	case strings.Contains(stderr, "stack overflow"), strings.Contains(stderr, "goroutine stack exceeds"):
		return "stack-overflow"
	case strings.Contains(stderr, "fatal error:"):
		i := strings.Index(stderr, "fatal error:")
		l := stderr[i:]
		if j := strings.IndexByte(l, '\n'); j > 0 {
			l = l[:j]
		}
		return "fatal:" + strings.TrimSpace(strings.TrimPrefix(l, "fatal error:"))
	case strings.Contains(stderr, "panic:"):
		i := strings.Index(stderr, "panic:")
		l := stderr[i:]
		if j := strings.IndexByte(l, '\n'); j > 0 {
			l = l[:j]
		}
		return "panic:" + strings.TrimSpace(strings.TrimPrefix(l, "panic:"))
	}
	return "killed"
}

func isoWorker(run *ev.Run, spec isoSpec, w, n, startAfter int, dir string) {
	journal := filepath.Join(dir, fmt.Sprintf("journal-%d", w))
	part := os.Getenv("VERIF_PART")
	done := 0
	// Runaway recursion: Go's default goroutine stack limit is 1 GB, which a decoder that recurses without
	// consuming input only reaches after many minutes (every garbage collection scans the ever deeper stack:
	// measured on a self-referencing bplist under force: 128 MB of stack in use after ~4 s, 256 MB not within
	// 5 min). Workers run with a 128 MB limit: inputs here are <= 16 KiB, so 128 MB of stack in use means >= 8 KB
	// of stack per input byte — recursion that is not bounded by the input (or that overflows the real limit on
	// an 8x larger input of the same shape). While the stack is still growing the worker touches its journal so
	// that the parent's silence watchdog lets it reach the fault; "fatal error: stack overflow" then kills the
	// worker and the parent reports it as the runtime fault it is.
	debug.SetMaxStack(128 << 20)
	go func() {
		var last uint64
		lastGrowth := time.Now()
		var ms runtime.MemStats
		for {
			time.Sleep(400 * time.Millisecond)
			runtime.ReadMemStats(&ms)
			switch {
			case ms.StackInuse > last+(8<<20):
				last = ms.StackInuse
				lastGrowth = time.Now()
				now := time.Now()
				_ = os.Chtimes(journal, now, now)
			case ms.StackInuse+(8<<20) < last:
				last = ms.StackInuse
			case ms.StackInuse >= 32<<20 && time.Since(lastGrowth) < 90*time.Second:
				// stack segments double (64 MB -> 128 MB): no growth is visible while the upper half fills, and on a
				// loaded machine that takes longer than the silence watchdog allows
				now := time.Now()
				_ = os.Chtimes(journal, now, now)
			}
		}
	}()
	for k := w; k < spec.NJobs; k += n {
		if k <= startAfter {
			continue
		}
		// journal BEFORE executing
		_ = os.WriteFile(journal, []byte(strconv.Itoa(k)), 0o644)
		spec.Do(run, k)
		done++
		if done%40 == 0 {
			_ = run.WritePart(part)
		}
	}
	_ = run.WritePart(part)
}
