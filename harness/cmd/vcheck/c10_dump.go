package main

// C10 part 1 — parse-back oracle for dump/hexdump output.
//
// Everything here is independent of fq's dump.go / columnwriter / hexpairwriter / asciiwriter /
// mathx: own tree snapshot + pre-order walk, own number formatter, own row parser.

import (
	"fmt"
	"io"
	"regexp"
	"strconv"
	"strings"

	"github.com/wader/fq/pkg/bitio"
	"github.com/wader/fq/pkg/decode"
	"github.com/wader/fq/pkg/scalar"
)

// ---- snapshot of a decoded tree (immutable, shared by all workers) ----

type c10Root struct {
	bits int64
	data []byte // ceil(bits/8) bytes, trailing partial byte zero padded
	top  bool   // the input file itself
}

type c10Node struct {
	name      string
	index     int
	inArray   bool
	parentLen int
	compound  bool
	array     bool
	children  []*c10Node
	isRoot    bool
	hasFormat bool
	start     int64 // InnerRange()
	length    int64
	synthetic bool
	hasErr    bool
	own       *c10Root // set when isRoot (or top)
	root      *c10Root // buffer root this value's range refers to
	path      string   // jq path from the top, "" when a component is not a plain identifier
	nodes     int      // size of the subtree
}

var c10IdentRe = regexp.MustCompile(`^[a-zA-Z_][a-zA-Z0-9_]*$`)

// c10ReadRoot reads all bits of a root's own reader (reference for nested buffers).
func c10ReadRoot(r bitio.ReaderAtSeeker) (*c10Root, error) {
	n, err := r.SeekBits(0, io.SeekEnd)
	if err != nil {
		return nil, err
	}
	buf := make([]byte, (n+7)/8)
	if n > 0 {
		if _, err := bitio.ReadAtFull(r, buf, n, 0); err != nil {
			return nil, err
		}
		if n&7 != 0 {
			buf[len(buf)-1] &= 0xff << (8 - uint(n&7))
		}
	}
	return &c10Root{bits: n, data: buf}, nil
}

// c10Snapshot copies what the oracle needs out of a decode.Value tree.
// For the top-level root the reference bytes are the INPUT FILE (not fq's reader).
func c10Snapshot(v *decode.Value, file []byte) (*c10Node, error) {
	top := &c10Root{bits: int64(len(file)) * 8, data: file, top: true}
	var rec func(v *decode.Value, parent *c10Node, cur *c10Root, path string) (*c10Node, error)
	rec = func(v *decode.Value, parent *c10Node, cur *c10Root, path string) (*c10Node, error) {
		n := &c10Node{name: v.Name, index: v.Index, isRoot: v.IsRoot, hasFormat: v.Format != nil, hasErr: v.Err != nil, path: path, nodes: 1}
		ir := v.InnerRange()
		n.start, n.length = ir.Start, ir.Len
		if parent != nil {
			n.inArray = parent.array
			n.parentLen = len(parent.children) // filled below (children slice preallocated)
		}
		switch {
		case parent == nil:
			n.own = top
			cur = top
		case v.IsRoot:
			r, err := c10ReadRoot(v.RootReader)
			if err != nil {
				return nil, fmt.Errorf("read nested root %s: %w", path, err)
			}
			n.own = r
			cur = r
		}
		n.root = cur
		switch vv := v.V.(type) {
		case *decode.Compound:
			n.compound = true
			n.array = vv.IsArray
			n.children = make([]*c10Node, len(vv.Children))
			for i, c := range vv.Children {
				cp := ""
				if path != "" {
					switch {
					case vv.IsArray:
						cp = path + "[" + strconv.Itoa(i) + "]"
						if path == "." {
							cp = ".[" + strconv.Itoa(i) + "]"
						}
					case c10IdentRe.MatchString(c.Name):
						if path == "." {
							cp = "." + c.Name
						} else {
							cp = path + "." + c.Name
						}
					}
				}
				cn, err := rec(c, n, cur, cp)
				if err != nil {
					return nil, err
				}
				n.children[i] = cn
				n.nodes += cn.nodes
			}
		case scalar.Scalarable:
			n.synthetic = vv.ScalarFlags().IsSynthetic()
		default:
			return nil, fmt.Errorf("unknown value kind %T at %s", v.V, path)
		}
		return n, nil
	}
	return rec(v, nil, top, ".")
}

func (n *c10Node) all(out []*c10Node) []*c10Node {
	out = append(out, n)
	for _, c := range n.children {
		out = c.all(out)
	}
	return out
}

// ---- own pre-order walk with fq's documented depth / array truncation ----

type c10Item struct {
	n         *c10Node
	depth     int
	rootDepth int
	root      *c10Root
	trunc     bool // the "[i:n]: ..." line that replaces the rest of a long array
}

func c10Walk(start *c10Node, optDepth, arrayTruncate int) []c10Item {
	var items []c10Item
	var rec func(n *c10Node, root *c10Root, depth, rootDepth int) bool
	rec = func(n *c10Node, root *c10Root, depth, rootDepth int) bool {
		if n.isRoot && n.own != root { // switching to a new buffer
			root = n.own
			rootDepth++
		}
		if optDepth != 0 && depth > optDepth {
			return false
		}
		if arrayTruncate != 0 && depth != 0 && n.inArray && n.index >= arrayTruncate {
			items = append(items, c10Item{n: n, depth: depth, rootDepth: rootDepth, root: root, trunc: true})
			return true
		}
		items = append(items, c10Item{n: n, depth: depth, rootDepth: rootDepth, root: root})
		for _, c := range n.children {
			if rec(c, root, depth+1, rootDepth) {
				break
			}
		}
		return false
	}
	rec(start, start.root, 0, 0)
	return items
}

// ---- independent number formatting ----

const c10Digits = "0123456789abcdefghijklmnopqrstuvwxyz"

func c10BasePrefix(base int) string {
	switch base {
	case 2:
		return "0b"
	case 8:
		return "0o"
	case 16:
		return "0x"
	}
	return ""
}

func c10Fmt(n int64, base int) string {
	if n == 0 {
		return "0"
	}
	neg := n < 0
	if neg {
		n = -n
	}
	var b [70]byte
	i := len(b)
	for n > 0 {
		i--
		b[i] = c10Digits[n%int64(base)]
		n /= int64(base)
	}
	s := string(b[i:])
	if neg {
		s = "-" + s
	}
	return s
}

// c10ByteBits renders a bit count/position as prefix+bytes[.bits], both parts in base.
func c10ByteBits(bits int64, base int) string {
	s := c10BasePrefix(base) + c10Fmt(bits/8, base)
	if bits%8 != 0 {
		s += "." + c10Fmt(bits%8, base)
	}
	return s
}

func c10ParseDigits(s string, base int) (int64, bool) {
	if s == "" {
		return 0, false
	}
	var v int64
	for _, c := range s {
		d := strings.IndexRune(c10Digits, c)
		if d < 0 || d >= base {
			return 0, false
		}
		if v > (1<<62)/int64(base) {
			return 0, false
		}
		v = v*int64(base) + int64(d)
	}
	return v, true
}

func c10Printable(b byte) rune {
	if b >= 32 && b <= 126 {
		return rune(b)
	}
	return '.'
}

const c10Hex = "0123456789abcdef"

// ---- row parser ----

type c10Row struct {
	addr  string // W runes
	hex   []rune // 3L-1 runes
	ascii []rune // L runes
	text  string
	raw   string
}

func c10Blank(rs []rune) bool {
	for _, r := range rs {
		if r != ' ' {
			return false
		}
	}
	return true
}

var c10SGR = regexp.MustCompile("\x1b\\[[0-9;]*m")

// c10ParseRows cuts every line at the fixed column positions. The address width W is taken from
// the first line (position of the first separator) and every line must have all three separators
// at the same positions. Returns "" or a description of the malformed line.
func c10ParseRows(out string, lb int, sep rune) ([]c10Row, int, string) {
	if out == "" {
		return nil, 0, "empty output"
	}
	if !strings.HasSuffix(out, "\n") {
		return nil, 0, "output does not end with newline"
	}
	lines := strings.Split(strings.TrimSuffix(out, "\n"), "\n")
	w := -1
	hw := 3*lb - 1
	rows := make([]c10Row, 0, len(lines))
	for li, l := range lines {
		rs := []rune(l)
		if w < 0 {
			for i, r := range rs {
				if r == sep {
					w = i
					break
				}
			}
			if w < 0 {
				return nil, 0, fmt.Sprintf("line %d: no column separator: %q", li, l)
			}
		}
		p1, p2, p3 := w, w+1+hw, w+1+hw+1+lb
		if len(rs) <= p3 || rs[p1] != sep || rs[p2] != sep || rs[p3] != sep {
			return nil, 0, fmt.Sprintf("line %d: separators not at columns %d,%d,%d: %q", li, p1, p2, p3, l)
		}
		rows = append(rows, c10Row{
			addr:  string(rs[:p1]),
			hex:   rs[p1+1 : p2],
			ascii: rs[p2+1 : p3],
			text:  string(rs[p3+1:]),
			raw:   l,
		})
	}
	return rows, w, ""
}

// ---- verification ----

type c10Opts struct {
	lineBytes     int
	displayBytes  int
	addrbase      int
	sizebase      int
	verbose       bool
	depth         int
	arrayTruncate int
	unicode       bool
}

type c10Stats struct {
	rows, dataRows, hexCells, asciiCells, ranges, headers       int64
	nestedRows, truncValues, completeValues, markerCut, d16Rows int64
	endMarkers, arrayTruncLines, errLines, valuesMatched        int64
	partialLast, unalignedValues                                int64
}

type c10Fail struct {
	sig  string
	desc string
}

type c10Verifier struct {
	o     c10Opts
	sep   rune
	st    c10Stats
	fails []c10Fail
	seen  map[string]bool
	amb   bool
}

func (v *c10Verifier) fail(sig, format string, a ...any) {
	if v.seen == nil {
		v.seen = map[string]bool{}
	}
	if v.seen[sig] { // one witness per signature and case
		return
	}
	v.seen[sig] = true
	v.fails = append(v.fails, c10Fail{sig: sig, desc: fmt.Sprintf(format, a...)})
}

func (v *c10Verifier) headerTexts() (labels []string, hexFull string, ascii string) {
	lb := v.o.lineBytes
	for c := 0; c < lb; c++ {
		s := c10Fmt(int64(c), v.o.addrbase)
		if len(s) < 2 {
			s = "0" + s
		}
		labels = append(labels, s)
		ascii += s[len(s)-1:]
	}
	return labels, strings.Join(labels, " "), ascii
}

func c10Fit(s string, w int) string {
	rs := []rune(s)
	if len(rs) > w {
		return string(rs[:w])
	}
	return s + strings.Repeat(" ", w-len(rs))
}

// checkHeader: label of column c sits in the cell of column c (0..line_bytes-1 in addrbase, two
// characters), ASCII header is the last digit of each label.
func (v *c10Verifier) checkHeader(r c10Row, ri int) {
	v.st.headers++
	lb := v.o.lineBytes
	labels, full, asc := v.headerTexts()
	got := string(r.hex)
	fits := true
	for _, l := range labels {
		if len(l) > 2 {
			fits = false
		}
	}
	if fits {
		if got != full {
			v.fail(fmt.Sprintf("header-mismatch:addrbase%d", v.o.addrbase), "row %d: hex header %q, expected %q\n  %s", ri, got, full, r.raw)
		}
	} else {
		// Labels need more than two characters (only addrbase 2 with line_bytes > 4): a cell-aligned
		// header is impossible in fq's layout. fq prints the labels back to back and the column
		// writer cuts the line, so labels no longer sit above their columns.
		if got == c10Fit(full, 3*lb-1) {
			v.fail(fmt.Sprintf("header-misaligned:addrbase%d", v.o.addrbase), "row %d: line_bytes=%d addrbase=%d: header labels wider than the 2-character cells are printed back to back and cut: %q (labels of columns >= 4 are not above their columns; %d labels for %d columns)\n  %s",
				ri, lb, v.o.addrbase, got, len(strings.Fields(got)), lb, r.raw)
		} else {
			v.fail(fmt.Sprintf("header-mismatch:addrbase%d", v.o.addrbase), "row %d: hex header %q, expected cut of %q\n  %s", ri, got, full, r.raw)
		}
	}
	if string(r.ascii) != asc {
		v.fail("ascii-header-mismatch", "row %d: ascii header %q, expected %q\n  %s", ri, string(r.ascii), asc, r.raw)
	}
}

func (v *c10Verifier) fieldPrefix(it c10Item, startPath string) string {
	n := it.n
	ind := strings.Repeat(" ", 2*it.depth)
	if it.trunc {
		return ind + "[" + strconv.Itoa(n.index) + ":" + strconv.Itoa(n.parentLen) + "]: ..."
	}
	var p string
	switch {
	case it.depth == 0:
		p = startPath
	case n.inArray:
		p = ind + "[" + strconv.Itoa(n.index) + "]"
	default:
		p = ind + n.name
	}
	switch {
	case n.compound && n.array:
		p += "[0:" + strconv.Itoa(len(n.children)) + "]:"
	case n.compound:
		p += "{}:"
	default:
		p += ":"
	}
	return p
}

// verify matches rows to items and checks every row. startPath is the text fq prints for the
// depth-0 value ("." or the jq path that selected it).
func (v *c10Verifier) verify(rows []c10Row, w int, items []c10Item, startPath string) {
	o := v.o
	i := 0
	v.st.rows += int64(len(rows))
	prefixes := make([]string, len(items))
	for k, it := range items {
		prefixes[k] = v.fieldPrefix(it, startPath)
	}
	for k, it := range items {
		n := it.n
		if i >= len(rows) {
			v.fail("parse:rows-missing", "output ended before value #%d %q (%d rows)", k, prefixes[k], len(rows))
			return
		}
		standaloneHeader := false
		if r := rows[i]; strings.TrimSpace(r.addr) == "" && !c10Blank(r.hex) && r.text == "" {
			v.checkHeader(r, i)
			standaloneHeader = true
			i++
			if i >= len(rows) {
				v.fail("parse:rows-missing", "output ended after a header before value #%d %q", k, prefixes[k])
				return
			}
		}
		r := rows[i]
		if !strings.HasPrefix(r.text, prefixes[k]) {
			v.fail("parse:desync", "row %d: tree text %q does not start with %q (value #%d)\n  %s", i, r.text, prefixes[k], k, r.raw)
			return
		}
		v.st.valuesMatched++
		first := i
		inlineHeader := false
		if strings.TrimSpace(r.addr) == "" && !c10Blank(r.hex) {
			v.checkHeader(r, i)
			inlineHeader = true
		}
		// block = first row + continuation rows
		j := i + 1
		for j < len(rows) {
			rr := rows[j]
			hasAddr := strings.TrimSpace(rr.addr) != ""
			if rr.text == "" {
				if hasAddr {
					j++
					continue
				}
				break // header of the next value (or trailing garbage, caught later)
			}
			// a row with tree text: next value's field line, or an error line of this value
			if n.hasErr && !it.trunc {
				if k+1 < len(items) && strings.HasPrefix(rr.text, prefixes[k+1]) {
					if items[k+1].n.name == "error" {
						v.amb = true
						return
					}
					break
				}
				v.st.errLines++
				j++
				continue
			}
			break
		}
		block := rows[first:j]
		i = j

		if it.trunc {
			v.st.arrayTruncLines++
			if standaloneHeader || inlineHeader || strings.TrimSpace(r.addr) != "" || !c10Blank(r.hex) || !c10Blank(r.ascii) || len(block) != 1 {
				v.fail("array-truncate-line", "row %d: the array truncation line carries data\n  %s", first, r.raw)
			}
			if r.text != prefixes[k] {
				v.fail("array-truncate-line", "row %d: text %q expected %q", first, r.text, prefixes[k])
			}
			continue
		}

		isComp := n.compound
		willDisplay := n.length > 0 && (!isComp || (o.depth != 0 && o.depth == it.depth))
		wantHeader := it.depth == 0 || n.isRoot || n.hasFormat
		switch {
		case wantHeader && willDisplay && !standaloneHeader:
			v.fail("header-missing", "row %d: value %q (root=%v format=%v depth=%d) shows data without its own header row\n  %s", first, prefixes[k], n.isRoot, n.hasFormat, it.depth, r.raw)
		case wantHeader && !willDisplay && !inlineHeader && !standaloneHeader:
			v.fail("header-missing", "row %d: value %q (root=%v format=%v depth=%d) has no header\n  %s", first, prefixes[k], n.isRoot, n.hasFormat, it.depth, r.raw)
		case !wantHeader && (standaloneHeader || inlineHeader):
			v.fail("header-unexpected", "row %d: value %q is neither root nor format root but has a header\n  %s", first, prefixes[k], r.raw)
		case standaloneHeader && !willDisplay:
			v.fail("header-unexpected", "row %d: value %q shows no data but has a standalone header\n  %s", first, prefixes[k], r.raw)
		}

		// verbose: " <start>-<stop> (<size>)" at the end of the field line
		if o.verbose && !n.synthetic {
			want := " " + c10ByteBits(n.start, o.addrbase) + "-" + c10ByteBits(n.start+n.length, o.addrbase) + " (" + c10ByteBits(n.length, o.sizebase) + ")"
			v.st.ranges++
			if !strings.HasSuffix(r.text, want) {
				// which half is wrong?
				wantR := " " + c10ByteBits(n.start, o.addrbase) + "-" + c10ByteBits(n.start+n.length, o.addrbase) + " ("
				if strings.Contains(r.text, wantR) {
					v.fail(fmt.Sprintf("range-text:sizebase%d", o.sizebase), "row %d: field line %q does not end with size %q (range bits %d+%d)\n  %s", first, r.text, want, n.start, n.length, r.raw)
				} else {
					v.fail(fmt.Sprintf("range-text:addrbase%d", o.addrbase), "row %d: field line %q does not end with %q (range bits %d+%d)\n  %s", first, r.text, want, n.start, n.length, r.raw)
				}
			}
		}

		v.checkData(block, first, it, willDisplay, w, inlineHeader)
	}
	if i != len(rows) {
		v.fail("parse:trailing-rows", "row %d: %d rows after the last value\n  %s", i, len(rows)-i, rows[i].raw)
	}
}

// checkData checks address, hex, ascii and truncation marker of one value's rows.
func (v *c10Verifier) checkData(block []c10Row, first int, it c10Item, willDisplay bool, w int, inlineHeader bool) {
	o := v.o
	lb := int64(o.lineBytes)
	hw := 3*o.lineBytes - 1
	n := it.n
	root := it.root
	ind := strings.Repeat(" ", 2*it.rootDepth)
	prefix := c10BasePrefix(o.addrbase)

	// classify rows
	type drow struct {
		r  c10Row
		ri int
	}
	var data []drow
	var marker *drow
	for bi, r := range block {
		ri := first + bi
		cell := r.addr
		if strings.TrimSpace(cell) == "" {
			if bi == 0 && inlineHeader {
				continue
			}
			if !c10Blank(r.hex) || !c10Blank(r.ascii) {
				v.fail("row:bytes-without-addr", "row %d: bytes without an address\n  %s", ri, r.raw)
			}
			continue
		}
		if !strings.HasPrefix(cell, ind) {
			v.fail("addr-mismatch:indent", "row %d: address cell %q is not indented by %d (root depth %d)\n  %s", ri, cell, len(ind), it.rootDepth, r.raw)
			continue
		}
		rest := cell[len(ind):]
		if strings.TrimRight(rest, " ") == "*" {
			if marker != nil {
				v.fail("marker:twice", "row %d: second '*' row\n  %s", ri, r.raw)
			}
			d := drow{r, ri}
			marker = &d
			if bi != len(block)-1 && c10onlyDataAfter(block[bi+1:]) {
				v.fail("marker:not-last", "row %d: rows with an address follow the '*' row\n  %s", ri, r.raw)
			}
			continue
		}
		if marker != nil {
			continue // reported above
		}
		data = append(data, drow{r, ri})
	}

	if !willDisplay {
		if len(data) > 0 || marker != nil {
			v.fail("data-for-nondata-value", "row %d: value with range bits %d+%d compound=%v must not show bytes\n  %s", first, n.start, n.length, n.compound, block[0].raw)
		}
		return
	}
	if len(data) == 0 {
		v.fail("bytes-missing", "row %d: value with range bits %d+%d shows no bytes\n  %s", first, n.start, n.length, block[0].raw)
		return
	}
	if strings.TrimSpace(block[0].addr) == "" {
		v.fail("row:field-line-without-bytes", "row %d: first row of a value with data has no address\n  %s", first, block[0].raw)
	}

	startByte := n.start / 8
	stopBit := n.start + n.length - 1
	stopByte := stopBit / 8
	bufLastBit := root.bits - 1
	bufLastByte := bufLastBit / 8
	if stopBit > bufLastBit {
		v.fail("range-beyond-buffer", "row %d: value range bits %d+%d exceeds its buffer of %d bits", first, n.start, n.length, root.bits)
		return
	}
	if n.start%8 != 0 || (n.start+n.length)%8 != 0 {
		v.st.unalignedValues++
	}
	lineStart := startByte - startByte%lb

	// last displayed byte X
	x := stopByte
	truncated := false
	if marker != nil {
		truncated = true
		// last shown cell of the last data row
		last := data[len(data)-1]
		lc := -1
		for c := 0; c < o.lineBytes; c++ {
			if last.r.hex[3*c] != ' ' || last.r.hex[3*c+1] != ' ' {
				lc = c
			}
		}
		x = lineStart + int64(len(data)-1)*lb + int64(lc)
		db := int64(o.displayBytes)
		switch {
		case db == 0 || n.length <= db*8:
			v.fail("truncated-without-reason", "row %d: value of %d bits is truncated although display_bytes=%d\n  %s", marker.ri, n.length, db, marker.r.raw)
		case lc < 0 || x >= stopByte:
			v.fail("marker:nothing-skipped", "row %d: '*' row but bytes are shown up to %d (value stops at byte %d)\n  %s", marker.ri, x, stopByte, marker.r.raw)
		default:
			minX := (n.start + db*8 - 1) / 8
			maxX := minX - minX%lb + lb - 1
			if x < minX || x > maxX {
				v.fail("truncated-prefix-length", "row %d: display_bytes=%d line_bytes=%d value starts at byte %d: shown up to byte %d, expected within %d..%d\n  %s", marker.ri, db, lb, startByte, x, minX, maxX, marker.r.raw)
			}
		}
		// marker text
		end := ""
		if stopBit == bufLastBit {
			end = " (end)"
		}
		full := "until " + c10ByteBits(stopBit, o.addrbase) + end + " (" + c10BasePrefix(o.sizebase) + c10Fmt((n.length+7)/8, o.sizebase) + ")"
		got := string(marker.r.hex)
		if len(full) > hw {
			v.st.markerCut++
		}
		if got != c10Fit(full, hw) {
			v.fail(fmt.Sprintf("marker-text:addrbase%d:sizebase%d", o.addrbase, o.sizebase), "row %d: marker %q, expected %q (cut to %d)\n  %s", marker.ri, strings.TrimRight(got, " "), full, hw, marker.r.raw)
		}
		if !c10Blank(marker.r.ascii) {
			v.fail("marker:ascii-not-blank", "row %d\n  %s", marker.ri, marker.r.raw)
		}
		v.st.truncValues++
	} else {
		v.st.completeValues++
	}
	if x > stopByte {
		x = stopByte
	}

	wantRows := (x-lineStart)/lb + 1
	if int64(len(data)) < wantRows {
		v.fail("bytes-missing", "row %d: value bytes %d..%d (shown up to %d) need %d rows of %d, got %d\n  %s", first, startByte, stopByte, x, wantRows, lb, len(data), block[0].raw)
	} else if int64(len(data)) > wantRows && !truncated {
		dr := data[wantRows]
		if c10Blank(dr.r.hex) {
			v.fail("row:addr-without-bytes", "row %d: address row without bytes after the value's last byte %d\n  %s", dr.ri, stopByte, dr.r.raw)
		}
	}

	prevAddr := int64(-1)
	for k, dr := range data {
		r := dr.r
		want := lineStart + int64(k)*lb
		rest := r.addr[len(ind):]
		v.st.dataRows++
		if it.rootDepth > 0 {
			v.st.nestedRows++
		}
		ok := false
		var a int64
		if strings.HasPrefix(rest, prefix) {
			digits := rest[len(prefix):]
			var pok bool
			a, pok = c10ParseDigits(digits, o.addrbase)
			if !pok {
				v.fail("addr-mismatch:syntax", "row %d: address %q is not prefix %q + base %d digits filling the column\n  %s", dr.ri, rest, prefix, o.addrbase, r.raw)
			} else if a == want {
				ok = true
			} else {
				// D16: exact predicate. The printed digits are the correct address, zero padded to
				// d more digits than printed, with its last d digits removed (d = root depth >= 1).
				d := it.rootDepth
				correct := c10Fmt(want, o.addrbase)
				if d >= 1 && len(correct) <= len(digits)+d {
					padded := strings.Repeat("0", len(digits)+d-len(correct)) + correct
					if padded[:len(digits)] == digits {
						v.st.d16Rows++
						v.fail("addr-cut:nested-root-depth", "row %d: row of a value at root depth %d: address of byte %s%s printed as %q (last %d digit(s) cut by the address column)\n  %s", dr.ri, d, prefix, correct, strings.TrimSpace(r.addr), d, r.raw)
						ok = true // the row's bytes are checked against the correct address
						a = want
					}
				}
				if !ok {
					if prevAddr >= 0 && a <= prevAddr {
						v.fail("bytes-shown-twice", "row %d: address %d after %d (expected %d)\n  %s", dr.ri, a, prevAddr, want, r.raw)
					} else {
						v.fail(fmt.Sprintf("addr-mismatch:value:addrbase%d", o.addrbase), "row %d: address %q = %d, expected %d (%s%s)\n  %s", dr.ri, rest, a, want, prefix, correct, r.raw)
					}
				}
			}
		} else {
			v.fail("addr-mismatch:syntax", "row %d: address %q lacks prefix %q\n  %s", dr.ri, rest, prefix, r.raw)
		}
		if ok {
			prevAddr = a
		}
		// cells are checked against the position the row MUST have (want)
		for c := 0; c < o.lineBytes; c++ {
			ba := want + int64(c)
			shown := ba >= startByte && ba <= x
			h0, h1 := r.hex[3*c], r.hex[3*c+1]
			ac := r.ascii[c]
			isEndMarkerCol := false
			if !shown {
				if h0 != ' ' || h1 != ' ' {
					sig := "bytes-outside-range"
					v.fail(sig, "row %d col %d: byte %d shown but value covers bytes %d..%d (display up to %d)\n  %s", dr.ri, c, ba, startByte, stopByte, x, r.raw)
				}
				// ascii end marker sits in the cell after the last byte
				if ba == x+1 && x == bufLastByte && c > 0 {
					isEndMarkerCol = true
				}
				if isEndMarkerCol {
					if ac != v.sep {
						v.fail("end-marker:ascii", "row %d col %d: buffer ends at byte %d, expected end marker %q in the ascii column\n  %s", dr.ri, c, x, string(v.sep), r.raw)
					}
				} else if ac != ' ' {
					v.fail("ascii-mismatch", "row %d col %d: ascii cell %q for a byte that is not shown\n  %s", dr.ri, c, string(ac), r.raw)
				}
			} else {
				if ba >= int64(len(root.data)) {
					v.fail("hex-beyond-buffer", "row %d col %d: byte %d beyond buffer of %d bytes", dr.ri, c, ba, len(root.data))
					continue
				}
				b := root.data[ba]
				v.st.hexCells++
				if ba == bufLastByte && root.bits%8 != 0 {
					v.st.partialLast++
				}
				if h0 != rune(c10Hex[b>>4]) || h1 != rune(c10Hex[b&15]) {
					v.fail(fmt.Sprintf("hex-mismatch:line_bytes%d", o.lineBytes), "row %d col %d: hex %q, buffer byte at %d is %02x (root depth %d, top=%v)\n  %s", dr.ri, c, string([]rune{h0, h1}), ba, b, it.rootDepth, root.top, r.raw)
				}
				v.st.asciiCells++
				if ac != c10Printable(b) {
					v.fail("ascii-mismatch", "row %d col %d: ascii %q, buffer byte at %d is %02x -> %q\n  %s", dr.ri, c, string(ac), ba, b, string(c10Printable(b)), r.raw)
				}
			}
			// separator after the cell
			if c < o.lineBytes-1 {
				s := r.hex[3*c+2]
				wantSep := ' '
				if shown && ba == x && x == bufLastByte {
					wantSep = v.sep
					v.st.endMarkers++
				}
				if s != wantSep {
					v.fail("end-marker:hex", "row %d col %d: separator %q after byte %d, expected %q (buffer last byte %d, last shown %d)\n  %s", dr.ri, c, string(s), ba, string(wantSep), bufLastByte, x, r.raw)
				}
			}
		}
	}
}

func c10onlyDataAfter(rs []c10Row) bool {
	for _, r := range rs {
		if strings.TrimSpace(r.addr) != "" {
			return true
		}
	}
	return false
}
