package main

// C19 conversation generator: random connections and capture-level operations.

import (
	"fmt"
	"sort"

	"verif/gen"
)

var c19Assumptions = []string{
	"IPv4 only, IHL=5 (no IP options); TCP without payload-changing options; one interface / one section per pcapng file; no snaplen truncation (incl_len == orig_len)",
	"every connection of a capture has its own 4-tuple (fq never retires a connection, so a re-used 4-tuple would be one connection by design)",
	"handshake packets (SYN, SYN-ACK, first ACK) are never reordered among themselves or against data; local reordering (swap) exchanges two consecutive data/FIN segments of the same direction that are at most 3 capture positions apart",
	"retransmissions carry bytes identical to the original; 'redup' re-sends an already sent byte range with different boundaries, never mixed with not-yet-sent bytes",
	"mid-stream captures (the pure SYN is not in the capture): which endpoint fq calls client is not checked (unknowable), only that each stream is attached to the right ip:port; the expected stream starts at the lowest captured sequence number of the direction",
	"a RST is the last packet of its connection in the capture (traffic after an abort is outside the property)",
	"a hole is knowable only if a later segment of the same direction (data, FIN or RST) beyond it is in the capture; only then skipped_bytes != 0 is required; the value of skipped_bytes is not checked; has_start/has_end are recorded, not checked",
	"streams are at most 64 KiB so sequence-number comparison is unambiguous; initial sequence numbers are arbitrary, including streams that cross 2^32 (seqwrap)",
	"fragments of one datagram are adjacent in the capture (their relative order varies); fragment loss and overlapping fragments are not generated; the IPv4 header checksum of ipv4_reassembled entries is not checked",
}

func c19PickSize(r *gen.Rand, thorough bool) int {
	switch k := r.Intn(20); {
	case k < 2:
		return 0
	case k < 5:
		return 1 + r.Intn(16)
	case k < 12:
		return 17 + r.Intn(584)
	case k < 19 || !thorough:
		return 600 + r.Intn(3497)
	default:
		if r.Intn(4) == 0 {
			return 65536
		}
		return 4096 + r.Intn(61441)
	}
}

func c19PickCuts(r *gen.Rand, size int, thorough bool) []int {
	if size <= 1 {
		return nil
	}
	var cuts []int
	switch r.Intn(6) {
	case 0: // one segment (bounded by what one IPv4 datagram carries)
		if size <= 16000 {
			return nil
		}
		fallthrough
	case 1: // fixed MSS
		mss := gen.Pick(r, []int{1460, 1448, 536, 100, 16, 7})
		for size/mss > 200 {
			mss *= 2
		}
		for o := mss; o < size; o += mss {
			cuts = append(cuts, o)
		}
	case 2: // tiny segments at the start, then the rest
		n := min(size-1, 1+r.Intn(12))
		for o := 1; o <= n; o++ {
			cuts = append(cuts, o)
		}
	default:
		maxk := 12
		if thorough {
			maxk = 64
		}
		k := 1 + r.Intn(min(maxk, size-1))
		m := map[int]bool{}
		for i := 0; i < k; i++ {
			m[1+r.Intn(size-1)] = true
		}
		for o := range m {
			cuts = append(cuts, o)
		}
		sort.Ints(cuts)
	}
	// no segment above 16000 bytes
	var out []int
	prev := 0
	for _, c := range append(cuts, size) {
		for c-prev > 16000 {
			prev += 16000
			out = append(out, prev)
		}
		if c < size {
			out = append(out, c)
		}
		prev = c
	}
	return out
}

func c19PickEndpoints(r *gen.Rand, n int) [][2]c19EP {
	var out [][2]c19EP
	used := map[string]bool{}
	shareMode := r.Intn(4) // 0: all different, 1: same client+server ip, 2: same server ip:port, 3: mixed
	base := [2]c19EP{
		{ip: [4]byte{10, byte(r.Intn(256)), byte(r.Intn(256)), byte(1 + r.Intn(254))}, port: uint16(1024 + r.Intn(64000))},
		{ip: [4]byte{192, 168, byte(r.Intn(256)), byte(1 + r.Intn(254))}, port: gen.Pick(r, []uint16{80, 443, 8080, 22, 25, 53, 5432, 6379, 9000, 31337})},
	}
	for len(out) < n {
		cl, sv := base[0], base[1]
		mode := shareMode
		if mode == 3 {
			mode = r.Intn(3)
		}
		switch mode {
		case 0:
			cl.ip = [4]byte{byte(gen.Pick(r, []int{10, 172, 100, 8})), byte(r.Intn(256)), byte(r.Intn(256)), byte(1 + r.Intn(254))}
			sv.ip = [4]byte{byte(gen.Pick(r, []int{192, 203, 1, 127})), byte(r.Intn(256)), byte(r.Intn(256)), byte(1 + r.Intn(254))}
			cl.port = uint16(1024 + r.Intn(64000))
			sv.port = uint16(1 + r.Intn(65535))
		case 1:
			cl.port = uint16(1024 + r.Intn(64000))
			if r.Bool() {
				sv.port = uint16(1 + r.Intn(65535))
			}
		case 2:
			cl.ip[3] = byte(1 + r.Intn(254))
			cl.port = uint16(1024 + r.Intn(64000))
		}
		k1 := cl.String() + ">" + sv.String()
		k2 := sv.String() + ">" + cl.String()
		if used[k1] || used[k2] || cl.String() == sv.String() {
			continue
		}
		used[k1], used[k2] = true, true
		out = append(out, [2]c19EP{cl, sv})
	}
	return out
}

func c19Generate(seed uint64, id int, thorough bool) *c19Capture {
	r := gen.New(seed).Fork(uint64(id))
	cp := &c19Capture{id: id, class: "exact"}
	if id%4 == 3 {
		cp.class = "omit"
	}
	cp.link = gen.Pick(r, c19Links)
	cp.variant = gen.Pick(r, c19Variants)
	nconn := gen.Pick(r, []int{1, 1, 1, 1, 1, 1, 2, 2, 2, 2, 2, 3, 3, 3, 3, 4, 4, 4, 5, 5})
	eps := c19PickEndpoints(r, nconn)
	big := 0
	for i := 0; i < nconn; i++ {
		sp := c19ConnSpec{cl: eps[i][0], sv: eps[i][1]}
		for d := 0; d < 2; d++ {
			sp.size[d] = c19PickSize(r, thorough && big < 2)
			if sp.size[d] > 4096 {
				big++
			}
			sp.cuts[d] = c19PickCuts(r, sp.size[d], thorough)
			sp.isn[d] = uint32(r.U64())
		}
		wrap := r.Intn(6) == 0
		if wrap {
			for d := 0; d < 2; d++ {
				// the sequence space of this direction crosses 2^32 somewhere in (or right at the ends of) the stream
				sp.isn[d] = uint32(0) - uint32(r.Intn(sp.size[d]+3))
			}
		}
		n0, n1 := len(sp.cuts[0])+1, len(sp.cuts[1])+1
		switch r.Intn(3) {
		case 0: // request then response
		case 1: // random merge
			for a, b := 0, 0; a < n0 || b < n1; {
				if b >= n1 || (a < n0 && r.Intn(n0+n1) < n0) {
					sp.order = append(sp.order, 0)
					a++
				} else {
					sp.order = append(sp.order, 1)
					b++
				}
			}
		case 2: // bursts
			d := r.Intn(2)
			for len(sp.order) < n0+n1 {
				for k := 1 + r.Intn(4); k > 0; k-- {
					sp.order = append(sp.order, d)
				}
				d = 1 - d
			}
		}
		switch k := r.Intn(20); {
		case k < 13:
			sp.close = "fin"
			sp.closer = r.Intn(2)
			sp.halfClose = r.Intn(10) < 3
			sp.finOnData = r.Intn(10) < 2
		case k < 16:
			sp.close = "rst"
			sp.closer = r.Intn(2)
		default:
			sp.close = "none"
		}
		c := c19BuildConn(i, sp)
		if wrap {
			c.op(-1, "seqwrap")
		}
		cp.conns = append(cp.conns, c)
	}

	// which operations each connection gets
	omitConn := -1
	if cp.class == "omit" {
		var cand []int
		for i, c := range cp.conns {
			for _, p := range c.pkts {
				if len(p.data) > 0 {
					cand = append(cand, i)
					break
				}
			}
		}
		if len(cand) == 0 {
			cp.class = "exact"
		} else {
			omitConn = gen.Pick(r, cand)
		}
	}
	for i, c := range cp.conns {
		var kinds []string
		switch k := r.Intn(20); {
		case k < 3:
		case k < 13:
			kinds = []string{gen.Pick(r, []string{"dup", "dup", "redup", "swap", "swap", "frag", "frag", "midstream", "truncated"})}
		default:
			for _, k := range []string{"dup", "redup", "swap", "frag", "midstream", "truncated"} {
				if r.Intn(3) == 0 {
					kinds = append(kinds, k)
				}
			}
		}
		has := func(k string) bool {
			for _, x := range kinds {
				if x == k {
					return true
				}
			}
			return false
		}
		if has("midstream") {
			c19OpMidstream(r, c)
		}
		if has("truncated") {
			c19OpTruncate(r, c)
		}
		if i == omitConn {
			c19OpOmit(r, cp, c)
		}
		if has("dup") {
			for k := 1 + r.Intn(3); k > 0; k-- {
				c19OpDup(r, c)
			}
		}
		if has("redup") {
			for k := 1 + r.Intn(2); k > 0; k-- {
				c19OpRedup(r, c)
			}
		}
		if has("swap") {
			c19OpSwap(r, c, 1+r.Intn(3))
		}
		if has("frag") {
			c19OpFrag(r, c, thorough)
		}
		c19RstLast(c)
		for _, p := range c.pkts {
			p.df = p.cuts == nil && r.Intn(3) > 0
		}
	}
	if cp.class == "omit" && cp.omitted == "" {
		cp.class = "exact"
	}

	// interleave the connections
	idx := make([]int, len(cp.conns))
	remaining := 0
	for _, c := range cp.conns {
		remaining += len(c.pkts)
	}
	cur := r.Intn(len(cp.conns))
	sticky := r.Intn(3) // 0: uniform by remaining packets, else bursts
	for remaining > 0 {
		if sticky == 0 || idx[cur] >= len(cp.conns[cur].pkts) || r.Intn(4) == 0 {
			k := r.Intn(remaining)
			for i, c := range cp.conns {
				left := len(c.pkts) - idx[i]
				if k < left {
					cur = i
					break
				}
				k -= left
			}
		}
		cp.order = append(cp.order, cp.conns[cur].pkts[idx[cur]])
		idx[cur]++
		remaining--
	}
	cp.assemble(uint16(r.U64()))
	return cp
}

// ---- operations (each records itself on the directions it touched) ----

// c19RstLast: a RST aborts the connection; whatever an operation placed behind it (a retransmission,
// a swapped segment of the peer) is moved in front of it: traffic after an abort is outside the property.
func c19RstLast(c *c19Conn) {
	for i, p := range c.pkts {
		if p.kind == "rst" && i != len(c.pkts)-1 {
			c.pkts = append(append(c.pkts[:i:i], c.pkts[i+1:]...), p)
			return
		}
	}
}

func c19OpMidstream(r *gen.Rand, c *c19Conn) {
	limit := len(c.pkts)
	for i, p := range c.pkts {
		if p.flags&(c19FIN|c19RST) != 0 {
			limit = i
			break
		}
	}
	if limit < 1 {
		return
	}
	k := 1 + r.Intn(limit)
	if r.Intn(3) == 0 {
		k = min(limit, 1+r.Intn(3)) // inside the handshake
	}
	c.pkts = c.pkts[k:]
	c.op(-1, "midstream")
}

func c19OpTruncate(r *gen.Rand, c *c19Conn) {
	if len(c.pkts) < 2 {
		return
	}
	m := 1 + r.Intn(min(len(c.pkts)-1, 6))
	if r.Intn(4) == 0 {
		m = 1 + r.Intn(len(c.pkts)-1)
	}
	c.pkts = c.pkts[:len(c.pkts)-m]
	c.op(-1, "truncated")
}

func c19OpOmit(r *gen.Rand, cp *c19Capture, c *c19Conn) {
	var cand []int
	for i, p := range c.pkts {
		if len(p.data) > 0 {
			cand = append(cand, i)
		}
	}
	if len(cand) == 0 {
		return
	}
	i := gen.Pick(r, cand)
	if r.Intn(3) == 0 { // favour the last data segment of a direction (hole followed only by FIN/RST/nothing)
		d := r.Intn(2)
		for _, j := range cand {
			if c.pkts[j].dir == d {
				i = j
			}
		}
	}
	p := c.pkts[i]
	c.pkts = append(c.pkts[:i:i], c.pkts[i+1:]...)
	c.op(p.dir, "omit")
	cp.omitted = fmt.Sprintf("conn %d %s", c.idx, p)
}

func c19OpDup(r *gen.Rand, c *c19Conn) {
	var cand []int
	for i, p := range c.pkts {
		if len(p.data) > 0 || (r.Intn(6) == 0 && (p.kind == "syn" || p.kind == "synack" || p.kind == "fin")) {
			cand = append(cand, i)
		}
	}
	if len(cand) == 0 {
		return
	}
	i := gen.Pick(r, cand)
	p := c.pkts[i]
	pos := i + 1 + r.Intn(min(6, len(c.pkts)-i))
	if r.Intn(5) == 0 {
		pos = i + 1 + r.Intn(len(c.pkts)-i)
	}
	name := "dup"
	if len(p.data) == 0 {
		name = "dup" + p.kind
		if p.kind == "synack" {
			name = "dupsyn"
		}
	}
	q := c19Clone(p, name)
	c19Insert(c, pos, q)
	c.op(p.dir, name)
}

// c19OpRedup re-sends an already sent byte range of one direction with boundaries of its own.
func c19OpRedup(r *gen.Rand, c *c19Conn) {
	if len(c.pkts) == 0 {
		return
	}
	dir := r.Intn(2)
	pos := 1 + r.Intn(len(c.pkts))
	var sent []*c19Seg
	for _, p := range c.pkts[:pos] {
		if p.dir == dir && len(p.data) > 0 && p.dup == "" {
			sent = append(sent, p)
		}
	}
	if len(sent) == 0 {
		return
	}
	i := r.Intn(len(sent))
	a := sent[i].off
	b := a + len(sent[i].data)
	for j := i + 1; j < len(sent) && sent[j].off == b && r.Intn(3) > 0; j++ {
		b += len(sent[j].data)
	}
	// sub-range [x,y) of [a,b)
	x := a + r.Intn(b-a)
	y := x + 1 + r.Intn(b-x)
	if r.Intn(3) == 0 {
		x = a
	}
	if r.Intn(3) == 0 {
		y = b
	}
	if y-x > 16000 {
		y = x + 16000
	}
	q := &c19Seg{conn: c, dir: dir, kind: "data", flags: c19ACK | c19PSH, off: x, data: c.data[dir][x:y], dup: "redup", ack: sent[i].ack}
	c19Insert(c, pos, q)
	c.op(dir, "redup")
}

func c19OpSwap(r *gen.Rand, c *c19Conn, count int) {
	type pair struct{ i, j int }
	var cand []pair
	last := [2]int{-1, -1}
	for j, p := range c.pkts {
		ok := p.kind == "data" || p.kind == "fin"
		if ok && last[p.dir] >= 0 && j-last[p.dir] <= 3 {
			cand = append(cand, pair{last[p.dir], j})
		}
		if ok {
			last[p.dir] = j
		} else if p.dir >= 0 && (p.kind == "syn" || p.kind == "synack" || p.kind == "rst") {
			last[p.dir] = -1
		}
	}
	gen.Shuffle(r, cand)
	usedIdx := map[int]bool{}
	for _, pr := range cand {
		if count == 0 {
			break
		}
		if usedIdx[pr.i] || usedIdx[pr.j] {
			continue
		}
		a, b := c.pkts[pr.i], c.pkts[pr.j]
		if a.off == b.off && len(a.data) == len(b.data) && a.flags == b.flags {
			continue // a segment and its own duplicate
		}
		usedIdx[pr.i], usedIdx[pr.j] = true, true
		c.pkts[pr.i], c.pkts[pr.j] = b, a
		if a.hasFin() || b.hasFin() {
			c.op(a.dir, "swapfin")
		} else {
			c.op(a.dir, "swap")
		}
		count--
	}
}

func c19OpFrag(r *gen.Rand, c *c19Conn, thorough bool) {
	p100 := gen.Pick(r, []int{15, 40, 100})
	for _, p := range c.pkts {
		if r.Intn(100) >= p100 {
			continue
		}
		if len(p.data) == 0 && r.Intn(4) > 0 {
			continue // mostly data-bearing packets
		}
		total := 20 + len(p.opts) + len(p.data) // IP payload
		units := (total - 1) / 8                // possible cut points: 8, 16, … < total
		if units < 1 {
			continue
		}
		var cuts []int
		if total > 3000 && r.Bool() {
			mtu := gen.Pick(r, []int{1480, 576 - 24, 1000})
			for o := mtu; o < total; o += mtu {
				cuts = append(cuts, o)
			}
		} else {
			maxk := 3
			if thorough {
				maxk = 6
			}
			k := 1 + r.Intn(min(maxk, units))
			m := map[int]bool{}
			for i := 0; i < k; i++ {
				m[8*(1+r.Intn(units))] = true
			}
			for o := range m {
				cuts = append(cuts, o)
			}
			sort.Ints(cuts)
		}
		n := len(cuts) + 1
		order := make([]int, n)
		for i := range order {
			order[i] = i
		}
		name := "frag"
		switch r.Intn(10) {
		case 0, 1, 2:
			i := r.Intn(n - 1)
			order[i], order[i+1] = order[i+1], order[i]
			name = "fragswap"
		case 3:
			for i, j := 0, n-1; i < j; i, j = i+1, j-1 {
				order[i], order[j] = order[j], order[i]
			}
			name = "fragswap"
		case 4:
			gen.Shuffle(r, order)
			for i, k := range order {
				if i != k {
					name = "fragswap"
				}
			}
		}
		p.cuts, p.forder = cuts, order
		c.op(p.dir, name)
	}
}

// ---- pinned hand-made captures ----

func c19Pinned() []*c19Capture {
	base := func() c19ConnSpec { return c19SimpleSpec(30, 20, []int{10, 20}, []int{8}) }
	type pin struct {
		name string
		spec c19ConnSpec
		link string
		vari string
		edit func(c *c19Conn)
	}
	pins := []pin{
		{name: "plain", spec: base()},
		{name: "plain-pcapng-be-sll2", spec: base(), link: "sll2", vari: "pcapng-be"},
		{name: "midstream", spec: base(), edit: func(c *c19Conn) { c.pkts = c.pkts[4:]; c.op(-1, "midstream") }},
		{name: "dup", spec: base(), edit: func(c *c19Conn) { c19Insert(c, 5, c19Clone(c.pkts[3], "dup")); c.op(0, "dup") }},
		{name: "swap", spec: base(), edit: func(c *c19Conn) { c19Swap(c, 3, 4); c.op(0, "swap") }},
		{name: "omit-mid", spec: base(), edit: func(c *c19Conn) { c19Remove(c, 4); c.op(0, "omit") }},
		// D11: the last data segment is missing, the FIN beyond it is captured
		{name: "omit-last-then-fin", spec: base(), edit: func(c *c19Conn) { c19Remove(c, 5); c.op(0, "omit") }},
		{name: "omit-last-then-rst", spec: func() c19ConnSpec { s := base(); s.close = "rst"; return s }(), edit: func(c *c19Conn) { c19Remove(c, 5); c.op(0, "omit") }},
		{name: "frag-swapped", spec: base(), edit: func(c *c19Conn) {
			c.pkts[4].cuts, c.pkts[4].forder = []int{8, 24}, []int{1, 0, 2}
			c.op(0, "fragswap")
		}},
	}
	var out []*c19Capture
	for i, x := range pins {
		c := c19BuildConn(0, x.spec)
		if x.edit != nil {
			x.edit(c)
		}
		cp := &c19Capture{id: -1 - i, class: "pinned:" + x.name, link: c19LinkByName(x.link), variant: c19VariantByName(x.vari), conns: []*c19Conn{c}, order: c.pkts}
		cp.assemble(0x1000)
		out = append(out, cp)
	}
	return out
}
