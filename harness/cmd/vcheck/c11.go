package main

// C11 — the internal query rewrite preserves the meaning of the user's program.
//
// One generator (c11_gen.go), three monitors:
//   1 roundtrip : P | _query_fromstring | _query_tostring | _query_fromstring  ==  P | _query_fromstring
//                 (through fq's own Go<->JSON<->jq path) after removing transparent parentheses (c11_ast.go);
//                 plus _query_toquery (AST -> JSON text -> jq object literal, used by the slurp rewrite): the
//                 printed literal evaluated by plain gojq gives the AST back.
//   2 semantic  : the printed text and the original text, both run by plain gojq on 3 inputs, give the same
//                 outputs / error position / error message.
//   3 wrap      : a) `_eval_query_rewrite` with input/catch/output queries yields text that parses to
//                    INPUT | try (P) catch C | OUTPUT with directives hoisted to the root (expected tree built here);
//                 b) that text run by plain gojq with stub wrapper functions gives per input exactly the outputs of P
//                    and the caught error value;
//                 c) the real CLI in-process (`fq -nc -- P`, `fq -Rc -- P in.txt`): stdout values, number of reported
//                    errors and exit status equal the direct plain-gojq runs of P.
//
// Disagreements seen on the unchanged tree while building this check, and their classification:
//   genuine, reported (kept strict, narrow signatures):
//     roundtrip:import-empty-path-in-program:ast-differs, wrap:rewrite-structure:import-empty-path-in-program
//        `import "" as a; .` is printed as `include "";` (fork Import.writeTo tests ImportPath != "").
//     wrap:<construct>:error-value-object:{value-mismatch,error-count-mismatch}
//        `error({a:1})`: _cli_eval_on_expr_error itself fails (join on an object) and the failure escapes the
//        try/catch wrap: outputs of later inputs are lost (`fq -R 'if .=="a" then error({a:1}) else . end'`).
//     (semantic|wrap):identity-bracket-suffix:*
//        `. [0] = 1` is printed as `.[0] = 1`; gojq compiles the index TERM through setpath: other error text.
//   harness/generator flaws, fixed (see the notes where they were fixed):
//     normaliser: identity + leading index suffix == index term (c11_ast.go);
//     reference for a defs-only program is `<defs> .` (refText); invalid UTF-8 in CLI output (c11Canon);
//     gojq's own panic on `"a" | -index(2.0)` (c11Run); fq redefines fromjson/tojson/split/... (c11FqRedefined);
//     the fork has no $__loc__, several jq 1.7 builtins are missing (generator lists); `def recurse` + `..` loops.

import (
	"context"
	"encoding/json"
	"fmt"
	"os"
	"runtime"
	"strconv"
	"strings"
	"sync"
	"time"

	"github.com/wader/gojq"

	"verif/ev"
	"verif/fqx"
	"verif/gen"
	"verif/vos"
)

func init() { register("C11", c11Main) }

const c11EvalExpr = `
def c11e: {c11err: (try tostring catch "unprintable error")};
def c11iq:
  if . == "inputs" then _query_func("inputs")
  elif . == "null" then _query_null
  elif . == "slurp" then (_query_func("inputs") | _query_array)
  else (_query_ident | _query_iter)
  end;
map(
  ( . as {$p, $iq}
  | try
      ( ($p | _query_fromstring) as $a
      | ($a | _query_tostring) as $s
      | { a: $a
        , s: $s
        , a2: (try ($s | _query_fromstring) catch c11e)
        , tq: (try ($a | _query_toquery | _query_tostring) catch c11e)
        , rw:
            ( try
                ( $p
                | _eval_query_rewrite(
                    { input_query: ($iq | c11iq)
                    , catch_query: _query_func("_cli_eval_on_expr_error")
                    , output_query: _query_func("_cli_display")
                    }
                  )
                )
              catch c11e
            )
        }
      )
    catch {c11parse: (try tostring catch "unprintable error")}
  )
)
`

type c11Case struct {
	id    int
	prog  c11Program
	iq    string
	rng   *gen.Rand
	res   map[string]any
	ins   []any
	notes []string
}

type c11Worker struct {
	run  *ev.Run
	s    *fqx.Session
	verb bool
}

func c11Class(id int) string {
	switch k := id % 50; {
	case k < 33:
		return "vanilla"
	case k < 40:
		return "directive"
	default:
		return "wrap"
	}
}

var c11IQs = []string{"inputs", "null", "slurp", "iter"}

func c11MakeCase(seed uint64, id int, size int) *c11Case {
	base := gen.New(seed).Fork(uint64(id))
	rng := base
	c := &c11Case{id: id}
	// size bound on the parsed AST (nodes = terms + operator queries): regenerate with a smaller budget if exceeded.
	// gojq.Parse is used here only to MEASURE the size; a text it rejects goes on and is reported by the monitor.
	for attempt := 0; ; attempt++ {
		rng = base.Fork(uint64(attempt))
		c.prog = c11GenProgram(rng, c11Class(id), max(4, size>>(attempt/2)))
		q, err := gojq.Parse(c.prog.Text)
		if err != nil || attempt >= 8 {
			break
		}
		b, _ := json.Marshal(q)
		var v any
		_ = json.Unmarshal(b, &v)
		if c11NodeCount(v) <= size {
			break
		}
	}
	c.rng = rng
	c.iq = c11IQs[rng.Intn(len(c11IQs))]
	c.ins = c11Inputs(rng)
	return c
}

// refText: what P means for the wrapper monitors. A program that is only function definitions has no query
// for plain gojq ("missing query"); _eval_query_rewrite documents that it assumes identity (`. + _query_ident`).
func (c *c11Case) refText() string {
	if c.prog.BareDefs {
		return c.prog.Text + "\n\n." // two newlines: a trailing comment ending in a backslash continues over one
	}
	return c.prog.Text
}

func (w *c11Worker) violation(c *c11Case, sig, desc string, extra map[string]any) {
	rep := map[string]any{"case": c.id, "seed": w.run.Seed, "class": c.prog.Class, "program": c.prog.Text, "top": c.prog.Top, "input_query": c.iq}
	for k, v := range extra {
		rep[k] = v
	}
	w.run.Violation(sig, fmt.Sprintf("case %d (%s, top %s): %s\n  program: %s", c.id, c.prog.Class, c.prog.Top, desc, strconv.Quote(c.prog.Text)), rep)
}

func (w *c11Worker) batch(cases []*c11Case) {
	in := make([]any, len(cases))
	for i, c := range cases {
		in[i] = map[string]any{"p": c.prog.Text, "iq": c.iq}
	}
	ctx, cancel := context.WithTimeout(context.Background(), 120*time.Second)
	outs, err := w.s.EvalCtx(ctx, in, c11EvalExpr)
	cancel()
	if err != nil || len(outs) != 1 {
		if ctx.Err() != nil {
			w.run.Inconclusive("fq-batch-eval-timeout")
			fmt.Printf("INCONCLUSIVE fq batch eval timeout: cases %d..%d\n", cases[0].id, cases[len(cases)-1].id)
			return
		}
		w.violation(cases[0], "harness:batch-eval-failed", fmt.Sprintf("batch eval failed: %v (outs %d)", err, len(outs)), nil)
		return
	}
	arr, _ := outs[0].([]any)
	if len(arr) != len(cases) {
		w.violation(cases[0], "harness:batch-eval-failed", fmt.Sprintf("batch eval returned %d results for %d programs", len(arr), len(cases)), nil)
		return
	}
	for i, c := range cases {
		c.res, _ = arr[i].(map[string]any)
		func() {
			defer func() {
				if r := recover(); r != nil {
					w.violation(c, "harness:panic", fmt.Sprintf("panic while checking: %v", r), nil)
				}
			}()
			w.check(c)
		}()
	}
}

func c11ErrOf(v any) (string, bool) {
	if m, ok := v.(map[string]any); ok {
		if e, ok := m["c11err"]; ok {
			return fmt.Sprint(e), true
		}
	}
	return "", false
}

func (w *c11Worker) check(c *c11Case) {
	run := w.run
	p := c.prog
	run.Eval(1)
	run.Count("class:"+p.Class, 1)
	run.Count("top:"+p.Class+":"+p.Top, 1)
	for k, n := range p.Feat {
		run.Count("gen:"+k, int64(n))
	}
	for k, n := range p.Paren {
		run.Count("paren-required:"+k, int64(n))
	}
	if c.res == nil {
		w.violation(c, "harness:no-result", "no result object for program", nil)
		return
	}
	if pe, ok := c.res["c11parse"]; ok {
		// the generator must only emit programs of the grammar: loud, never silently dropped
		w.violation(c, "generator:parse-error:"+p.Class+":"+p.Top, fmt.Sprintf("fq's _query_fromstring rejected a generated program: %v", pe), nil)
		return
	}
	a := c.res["a"]
	printed, _ := c.res["s"].(string)
	na := c11Norm(a)
	nodes := c11NodeCount(a)
	run.Count(fmt.Sprintf("ast-nodes:%02d-%02d", nodes/10*10, nodes/10*10+9), 1)
	kinds := map[string]int{}
	c11Kinds(a, kinds)
	for k, n := range kinds {
		run.Count("ast:"+k, int64(n))
	}
	if nodes >= 3 {
		run.Distinct(c11Hash(na))
	}
	if c.id < 6 || (p.Class == "wrap" && c.id < 60 && c.id%50 == 40) {
		run.Sample(map[string]any{"case": c.id, "class": p.Class, "program": p.Text, "printed": printed, "ast_nodes": nodes})
	}
	if w.verb {
		fmt.Printf("case %d class=%s top=%s iq=%s\n  program: %s\n  printed: %s\n  ast: %s\n  rw: %v\n  tq: %v\n", c.id, p.Class, p.Top, c.iq, strconv.Quote(p.Text), strconv.Quote(printed), c11JSON(a), c.res["rw"], c.res["tq"])
	}

	// ---- monitor 1: print/parse round trip ----
	a2 := c.res["a2"]
	if e, bad := c11ErrOf(a2); bad {
		_, parent, child, _ := c11Diff(a, nil)
		_ = parent
		_ = child
		w.violation(c, "roundtrip:"+c11TopKind(a)+":printed-text-does-not-parse", fmt.Sprintf("printed text %q does not parse: %s", printed, e), map[string]any{"printed": printed, "ast": a})
	} else {
		run.Count("m1:asts-compared", 1)
		if c11Equal(a, a2) {
			run.Count("m1:ast-identical", 1)
		} else if na2 := c11Norm(a2); c11Equal(na, na2) {
			run.Count("m1:ast-equal-after-paren-normalisation", 1)
		} else {
			path, parent, child, _ := c11Diff(na, na2)
			w.violation(c, "roundtrip:"+child+"-in-"+parent+":ast-differs",
				fmt.Sprintf("AST of printed text differs at %s\n  printed: %s\n  ast(P):       %s\n  ast(printed): %s", path, strconv.Quote(printed), c11JSON(a), c11JSON(a2)),
				map[string]any{"printed": printed, "ast": a, "ast_printed": a2, "path": path})
		}
	}

	// ---- monitor 1b: _query_toquery (AST as a jq literal) ----
	if e, bad := c11ErrOf(c.res["tq"]); bad {
		w.violation(c, "toquery:"+c11TopKind(a)+":error", "_query_toquery | _query_tostring failed: "+e, nil)
	} else if tq, ok := c.res["tq"].(string); ok {
		r := c11RunText(tq, nil)
		switch {
		case r.Timeout:
			run.Inconclusive("toquery-timeout")
		case r.CompileEr != "" || r.Err != nil || len(r.Outs) != 1:
			w.violation(c, "toquery:"+c11TopKind(a)+":literal-does-not-evaluate", fmt.Sprintf("AST literal %q: compile %q err %v outputs %d", tq, r.CompileEr, r.Err, len(r.Outs)), nil)
		default:
			run.Count("m1b:toquery-literals-evaluated", 1)
			if c11Canon(r.Outs[0], false) != c11Canon(a, false) {
				path, parent, child, _ := c11Diff(a, r.Outs[0])
				w.violation(c, "toquery:"+child+"-in-"+parent+":value-differs", fmt.Sprintf("AST literal evaluates to a different AST at %s\n  literal: %s\n  ast: %s", path, tq, c11JSON(a)), nil)
			}
		}
	}

	// ---- monitor 3a: structure of the rewritten query ----
	rwText, rwOK := c.res["rw"].(string)
	if e, bad := c11ErrOf(c.res["rw"]); bad {
		w.violation(c, "wrap:"+c11TopKind(a)+":rewrite-error", "_eval_query_rewrite failed: "+e, nil)
	} else if rwOK {
		w.checkStructure(c, a, rwText)
	}

	if p.Class == "directive" {
		return
	}

	// ---- monitor 2: semantic equivalence of the printed text under plain gojq ----
	codeP, ceP := c11Compile(p.Text)
	codeS, ceS := c11Compile(printed)
	if ceP != "" || ceS != "" {
		run.Count("m2:compile-error-programs", 1)
		if w.verb {
			fmt.Println("  compile:", ceP, "|", ceS)
		}
		run.Count("m2:compile-error:"+c11ErrClass(ceP), 1)
		if ceP != ceS {
			w.violation(c, "semantic:"+c11TopKind(a)+":compile-mismatch", fmt.Sprintf("plain gojq: original %q, printed %q (%s)", ceP, ceS, strconv.Quote(printed)), map[string]any{"printed": printed})
		}
	} else {
		nontrivial := false
		for i, in := range c.ins {
			r1 := c11Run(codeP, c11Copy(in))
			r2 := c11Run(codeS, c11Copy(in))
			if r1.Timeout || r2.Timeout {
				run.Inconclusive("semantic-run-timeout")
				fmt.Printf("INCONCLUSIVE semantic run timeout: case %d input %s %s\n", c.id, c11Canon(in, false), strconv.Quote(c.prog.Text))
				continue
			}
			run.Count("m2:semantic-runs-compared", 1)
			switch {
			case r1.Truncated:
				run.Count("m2:runs-truncated-at-300-outputs", 1)
			case r1.Err != nil && len(r1.Outs) > 0:
				run.Count("m2:runs-outputs-then-error", 1)
				nontrivial = true
			case r1.Err != nil:
				run.Count("m2:runs-error-first", 1)
			case len(r1.Outs) == 0:
				run.Count("m2:runs-empty", 1)
			default:
				run.Count("m2:runs-outputs", 1)
				nontrivial = true
			}
			if w.verb {
				fmt.Printf("  input %d %s -> %s\n", i, c11Canon(in, false), strings.ReplaceAll(r1.key(), "\n", " ; "))
			}
			if k1, k2 := r1.key(), r2.key(); k1 != k2 {
				kind := "value-mismatch"
				if (r1.Err == nil) != (r2.Err == nil) || len(r1.Outs) != len(r2.Outs) {
					kind = "error-position-mismatch"
				}
				w.violation(c, "semantic:"+c.construct(a)+":"+kind, fmt.Sprintf("plain gojq on input %s\n  original gives: %s\n  printed %s gives: %s", c11Canon(in, false), k1, strconv.Quote(printed), k2),
					map[string]any{"printed": printed, "input": in})
				break
			}
		}
		if nontrivial {
			run.Count("m2:programs-with-output-on-some-input", 1)
		}
	}

	// ---- monitor 3b: rewritten text under stub wrapper functions ----
	if rwOK {
		w.checkStub(c, a, rwText)
	}

	// ---- monitor 3c: the real CLI ----
	if p.Class == "wrap" && (!run.Thorough() || (c.id/50)%4 == 0) {
		// thorough: every 4th wrap program goes through the real CLI (40 ms each), all go through 3a/3b
		w.checkCLI(c, a)
	}
}

func c11ErrClass(ce string) string {
	for _, k := range []string{"function not defined", "variable not defined", "label not defined", "parse:", "invalid"} {
		if strings.Contains(ce, k) {
			return strings.TrimSuffix(k, ":")
		}
	}
	if ce == "" {
		return "printed-only"
	}
	return "other"
}

// c11HasIdentBracket: the AST contains `. [q]` / `. .[q]` (identity term whose first suffix is a bracket index)
func c11HasIdentBracket(v any) bool {
	switch x := v.(type) {
	case []any:
		for _, e := range x {
			if c11HasIdentBracket(e) {
				return true
			}
		}
	case map[string]any:
		if x["type"] == "TermTypeIdentity" {
			if sl, ok := x["suffix_list"].([]any); ok && len(sl) > 0 {
				if f, ok := sl[0].(map[string]any); ok {
					if ix, ok := f["index"].(map[string]any); ok && ix["name"] == nil && ix["str"] == nil {
						return true
					}
				}
			}
		}
		for _, e := range x {
			if c11HasIdentBracket(e) {
				return true
			}
		}
	}
	return false
}

// construct names the program for the semantic/wrap signatures: its top-level construct, except that programs
// containing `. [q]` are named after that shape: the printer writes it as `.[q]`, an index TERM, for which gojq
// compiles constant-path assignments differently (same outputs and error position, other error TEXT:
// "setpath([0]; 1) cannot be applied to ..." instead of "expected an array but got ..."), see c11Known.
func (c *c11Case) construct(a any) string {
	if c11HasIdentBracket(a) {
		return "identity-bracket-suffix"
	}
	return c11TopKind(a)
}

func c11TopKind(a any) string {
	m, ok := a.(map[string]any)
	if !ok {
		return "none"
	}
	body := map[string]any{}
	for k, v := range m {
		if k != "meta" && k != "imports" {
			body[k] = v
		}
	}
	if len(body) == 0 {
		return "no-body"
	}
	if body["func_defs"] != nil && body["term"] == nil && body["op"] == nil {
		return "defs-only"
	}
	return c11Kind(body)
}

func c11Func(name string) map[string]any {
	return map[string]any{"term": map[string]any{"type": "TermTypeFunc", "func": map[string]any{"name": name}}}
}

func c11InputQuery(iq string) map[string]any {
	switch iq {
	case "inputs":
		return c11Func("inputs")
	case "null":
		return map[string]any{"term": map[string]any{"type": "TermTypeNull"}}
	case "slurp":
		return map[string]any{"term": map[string]any{"type": "TermTypeArray", "array": map[string]any{"query": c11Func("inputs")}}}
	default:
		return map[string]any{"term": map[string]any{"type": "TermTypeIdentity", "suffix_list": []any{map[string]any{"iter": true}}}}
	}
}

// checkStructure: parse the rewritten text with plain gojq and compare with the tree the rewrite promises
// (eval.jq: "try (.input_query | . | .output_query) catch" comment aside, the code builds
// INPUT | try (P) catch CATCH | OUTPUT; directives of P move to the root; an empty body becomes `.`)
func (w *c11Worker) checkStructure(c *c11Case, a any, rw string) {
	q, err := gojq.Parse(rw)
	if err != nil {
		w.violation(c, "wrap:"+c11TopKind(a)+":rewritten-text-does-not-parse", fmt.Sprintf("rewritten query %q does not parse: %v", rw, err), map[string]any{"rewritten": rw})
		return
	}
	b, _ := json.Marshal(q)
	var got any
	_ = json.Unmarshal(b, &got)
	am, _ := a.(map[string]any)
	body := map[string]any{}
	for k, v := range am {
		if k != "meta" && k != "imports" {
			body[k] = v
		}
	}
	if body["term"] == nil && body["op"] == nil {
		body["term"] = map[string]any{"type": "TermTypeIdentity"}
		w.run.Count("m3a:empty-body-becomes-identity", 1)
	}
	try := map[string]any{"term": map[string]any{"type": "TermTypeTry", "try": map[string]any{
		"body":  map[string]any{"term": map[string]any{"type": "TermTypeQuery", "query": body}},
		"catch": c11Func("_cli_eval_on_expr_error")}}}
	exp := map[string]any{"op": "|", "left": map[string]any{"op": "|", "left": c11InputQuery(c.iq), "right": try}, "right": c11Func("_cli_display")}
	for _, k := range []string{"meta", "imports"} {
		if v, ok := am[k]; ok {
			exp[k] = v
		}
	}
	ng, ne := c11RightPipes(c11Norm(got)), c11RightPipes(c11Norm(exp))
	w.run.Count("m3a:rewrite-structures-compared", 1)
	if !c11Equal(ng, ne) {
		path, parent, child, _ := c11Diff(ne, ng)
		w.violation(c, "wrap:rewrite-structure:"+child+"-in-"+parent, fmt.Sprintf("rewritten query differs from INPUT | try (P) catch C | OUTPUT at %s\n  rewritten: %s\n  parsed:   %s\n  expected: %s", path, strconv.Quote(rw), c11JSON(ng), c11JSON(ne)),
			map[string]any{"rewritten": rw})
	}
}

func (w *c11Worker) perInput(c *c11Case) (root any, per []any) {
	switch c.iq {
	case "inputs":
		return nil, c.ins
	case "null":
		return nil, []any{nil}
	case "slurp":
		return nil, []any{c11Copy(c.ins)}
	default:
		return c11Copy(c.ins), c.ins
	}
}

// wrapExpectation: events the wrap must produce for this case. Specification = the harness-written control text
// run by plain gojq; cross-checked against independent per-input runs of P. The two differ only through an
// evaluator quirk of plain gojq, found on the unchanged tree: after a `?//` body failed for one input, the
// alternatives of a LATER input of the same stream are evaluated differently
// (`({}, null) | try (. as $i ?// $e | . as [$a] | $e)` gives `{}`, separately the two inputs give nothing and
// null). That is the evaluator's business, not the rewrite's: counted, printed, and the stream-aware control decides.
func (w *c11Worker) wrapExpectation(c *c11Case, iq string, inputs []any, root any, per []any) (exp []c11Event, errType string, status string) {
	exp, status = c11RunWrapped(c11ControlText(c.refText(), iq), inputs, root)
	if status != "" {
		return nil, "", status
	}
	pe, errType, ok := c11PerInputEvents(c.refText(), per)
	if !ok {
		return nil, "", "inconclusive"
	}
	w.run.Count("m3:control-vs-per-input-runs-compared", 1)
	if c11EventKey(pe) != c11EventKey(exp) {
		w.run.Count("m3:gojq-stream-state-dependence(control!=per-input)", 1)
		fmt.Printf("NOTE case %d: plain gojq evaluates the stream form differently from per-input runs: %s\n  control:   %s\n  per input: %s\n", c.id, strconv.Quote(c.prog.Text), c11EventKey(exp), c11EventKey(pe))
	}
	return exp, errType, ""
}

func (w *c11Worker) checkStub(c *c11Case, a any, rw string) {
	root, per := w.perInput(c)
	exp, _, status := w.wrapExpectation(c, c.iq, c.ins, root, per)
	got, gstatus := c11RunWrapped(rw, c.ins, root)
	if status == "inconclusive" || gstatus == "inconclusive" {
		w.run.Inconclusive("stub-run-timeout-truncated-or-gojq-panic")
		return
	}
	if strings.HasPrefix(gstatus, "parse:") {
		return // reported by checkStructure
	}
	if status != "" || gstatus != "" {
		w.run.Count("m3b:compile-error-programs", 1)
		if (status == "") != (gstatus == "") {
			w.violation(c, "wrap:"+c.construct(a)+":stub-compile-mismatch", fmt.Sprintf("control: %q; rewritten %q: %q", status, rw, gstatus), map[string]any{"rewritten": rw})
		}
		return
	}
	w.run.Count("m3b:stub-runs-compared:"+c.iq, 1)
	if gk, ek := c11EventKey(got), c11EventKey(exp); gk != ek {
		kind := "value-mismatch"
		if len(got) != len(exp) {
			kind = "output-count-mismatch"
		}
		w.violation(c, "wrap:"+c.construct(a)+":stub-"+kind, fmt.Sprintf("rewritten query under stub wrapper functions (input query %s)\n  rewritten: %s\n  got:      %s\n  expected: %s", c.iq, strconv.Quote(rw), gk, ek),
			map[string]any{"rewritten": rw, "inputs": c.ins})
	}
}

var c11RawLines = []string{"a", "12", "[1,2]", "{\"a\":1}", "b c", "", "x", "é", "null", "0"}

// checkCLI runs the real CLI in-process and compares with the wrap expectation of P
func (w *c11Worker) checkCLI(c *c11Case, a any) {
	if _, ce := c11Compile(c.refText()); ce != "" {
		w.run.Count("m3c:skipped-compile-error", 1)
		return
	}
	raw := c.rng.Intn(2) == 0
	var per []any
	var o *vos.OS
	mode, iq := "null-input", "null"
	if raw {
		mode, iq = "raw-lines", "inputs"
		n := 1 + c.rng.Intn(3)
		var lines []string
		for i := 0; i < n; i++ {
			l := gen.Pick(c.rng, c11RawLines)
			if l == "" && i == n-1 {
				l = "z" // a trailing empty line is indistinguishable from the final newline
			}
			lines = append(lines, l)
			per = append(per, l)
		}
		o = vos.New("-Rc", "--", c.prog.Text, "in.txt")
		o.Files["in.txt"] = []byte(strings.Join(lines, "\n") + "\n")
	} else {
		per = []any{nil}
		o = vos.New("-nc", "--", c.prog.Text)
	}
	exp, errType, status := w.wrapExpectation(c, iq, per, nil, per)
	if status != "" {
		if status == "inconclusive" {
			w.run.Inconclusive("cli-reference-timeout-truncated-or-gojq-panic")
		} else {
			w.run.Count("m3c:skipped-compile-error", 1)
		}
		return
	}
	var expOut []string
	expErrs := 0
	for _, e := range exp {
		switch e.Tag {
		case "D":
			expOut = append(expOut, c11Canon(e.V, true))
		case "E":
			expErrs++
		default:
			w.violation(c, "harness:control-leaks", "control text leaked "+e.Tag, nil)
			return
		}
	}
	ctx, cancel := context.WithTimeout(context.Background(), 60*time.Second)
	var res vos.Result
	pi := fqx.Guard(func() { res = o.RunMain(ctx, fqx.Registry()) })
	timedOut := ctx.Err() != nil
	cancel()
	if pi != nil {
		w.violation(c, "wrap:"+c11TopKind(a)+":cli-panic", fmt.Sprintf("CLI panicked: %v", pi.Value), map[string]any{"mode": mode, "inputs": per})
		return
	}
	if timedOut {
		w.run.Inconclusive("cli-timeout")
		fmt.Printf("INCONCLUSIVE cli timeout: case %d %s\n", c.id, strconv.Quote(c.prog.Text))
		return
	}
	w.run.Count("m3c:cli-runs-compared:"+mode, 1)
	if expErrs > 0 {
		w.run.Count("m3c:cli-runs-with-error", 1)
		if len(expOut) > 0 {
			w.run.Count("m3c:cli-runs-outputs-and-error", 1)
		}
	}
	var gotOut []string
	badLine := ""
	for _, l := range strings.Split(strings.TrimSuffix(string(res.Stdout), "\n"), "\n") {
		if l == "" && len(res.Stdout) == 0 {
			continue
		}
		dec := json.NewDecoder(strings.NewReader(l))
		dec.UseNumber()
		var v any
		if err := dec.Decode(&v); err != nil {
			badLine = l
			break
		}
		gotOut = append(gotOut, c11Canon(v, true))
	}
	gotErrs := 0
	for _, l := range strings.Split(string(res.Stderr), "\n") {
		if strings.HasPrefix(l, "error: ") {
			gotErrs++
		}
	}
	wantExit := 0
	if expErrs > 0 {
		wantExit = 5
	}
	desc := func() string {
		return fmt.Sprintf("CLI %s (%v)\n  expected stdout values: %s\n  expected errors: %d exit %d\n  got: %s", mode, per, strings.Join(expOut, " ; "), expErrs, wantExit, res.String())
	}
	extra := map[string]any{"mode": mode, "inputs": per, "stdout": string(res.Stdout), "stderr": string(res.Stderr), "exit": res.Exit}
	errKind := ""
	if expErrs > 0 {
		errKind = ":error-value-" + errType
		w.run.Count("m3c:cli-error-value:"+errType, 1)
	}
	switch {
	case badLine != "":
		w.violation(c, "wrap:"+c.construct(a)+errKind+":cli-stdout-not-json", desc(), extra)
	case strings.Join(gotOut, "\n") != strings.Join(expOut, "\n"):
		w.violation(c, "wrap:"+c.construct(a)+errKind+":value-mismatch", desc(), extra)
	case gotErrs != expErrs:
		w.violation(c, "wrap:"+c.construct(a)+errKind+":error-count-mismatch", desc(), extra)
	case res.Exit != wantExit:
		w.violation(c, "wrap:"+c.construct(a)+errKind+":exit-status-mismatch", desc(), extra)
	}
}

// c11Probes: fixed facts about the fork's grammar that decide what the generator leaves out (never silent)
func c11Probes(run *ev.Run) {
	for _, p := range []struct{ text, name string }{
		{`{@base64: 1}`, "format-as-object-key"},
		{`{@base64 "x": 1}`, "format-string-as-object-key"},
		{`1_000`, "digit-separator-in-decimal"},
		{`0X1f`, "uppercase-0X"},
	} {
		if _, err := gojq.Parse(p.text); err != nil {
			run.Count("probe:rejected-by-fork-grammar:"+p.name, 1)
		} else {
			// the fork accepts it now: the generator must learn it
			run.Violation("generator:grammar-probe:"+p.name, fmt.Sprintf("the parser now accepts %q; add it to the C11 generator", p.text), map[string]any{"text": p.text})
		}
	}
}

func c11Main(args []string) {
	run := ev.NewRun("C11")
	run.Rule = "programs generated as TEXT from the full grammar of the gojq fork (all binary operators and precedences, unary chains, ? stacking, .., paths/slices, reduce/foreach/label/break, if/elif/else, try/catch, def with plain/$ params and nesting, as-bindings with array/object destructuring and ?//, module/import/include, format and interpolated strings, keyword object keys, $__loc__, object shorthands, raw strings, 0x/0o/0b literals with _), minimal parentheses from the precedence table plus random redundant ones, random spacing/comments; classes vanilla 66% / directive 14% / wrap 20%; size <= 25 (quick) / 60 (thorough) nodes. distinct = hash of the parenthesis-normalised AST fq parsed (>= 3 nodes)"
	run.Assumptions = []string{
		"plain gojq (the fork, no fq functions) is the reference evaluator; programs of monitors 2/3 only use names it has, no recursion, literal-bounded ranges",
		"the slurp branch of _eval_query_rewrite is exercised through _query_toquery (monitor 1b) and end to end by monitor 4 (REPL `P | slurp(\"v\")` then `$v`, 20 top-level shapes of P)",
		"directive programs (module/import/include) are checked for round trip and rewrite structure only (they do not resolve)",
		"CLI stderr is compared by the number of 'error: ' lines and the exit status, not by message text",
		"program text is valid UTF-8",
	}
	run.MinDistinct = run.Pick(1500, 100000)
	verb := false
	only := -1
	for i := 0; i < len(args); i++ {
		if args[i] == "--case" && i+1 < len(args) {
			only, _ = strconv.Atoi(args[i+1])
			verb = true
		}
	}
	size := run.Pick(25, 60)
	if only >= 0 {
		w := &c11Worker{run: run, s: fqx.NewSession(), verb: verb}
		w.batch([]*c11Case{c11MakeCase(run.Seed, only, size)})
		run.MinDistinct = 0
		run.FinishNoExit()
		return
	}
	c11Probes(run)
	c11Slurp(run)
	n := run.Pick(5000, 500000)
	if v, err := strconv.Atoi(os.Getenv("C11_N")); err == nil && v > 0 {
		n = v // development aid: shorter run of the same case list
		run.MinDistinct = 2
	}
	const batch = 40
	jobs := make(chan int, 64)
	var wg sync.WaitGroup
	for k := 0; k < runtime.NumCPU(); k++ {
		wg.Add(1)
		go func() {
			defer wg.Done()
			w := &c11Worker{run: run, s: fqx.NewSession()}
			defer w.s.Close()
			for b := range jobs {
				var cases []*c11Case
				for id := b * batch; id < (b+1)*batch && id < n; id++ {
					cases = append(cases, c11MakeCase(run.Seed, id, size))
				}
				w.batch(cases)
			}
		}()
	}
	for b := 0; b*batch < n; b++ {
		jobs <- b
	}
	close(jobs)
	wg.Wait()
	run.Finish()
}
