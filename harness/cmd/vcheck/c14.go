package main

// C14 — conversion functions round-trip and agree with reference implementations.
//
// Every family (hex/base64, text encodings, hashes, URL, radix, JSON/jq/JSONL, YAML, TOML, XML, CSV)
// generates sub-cases, sends a few hundred of them through ONE fqx.Session.Eval (the jq program maps
// `try [F] catch {e: ...}` over the input array) and checks every result in Go against the
// standard library / a spec-level model. The value semantics come from the standards, never from fq.

import (
	"encoding/json"
	"fmt"
	"math"
	"math/big"
	"os"
	"runtime"
	"sort"
	"strconv"
	"strings"
	"sync"

	"github.com/wader/gojq"

	"verif/ev"
	"verif/fqx"
	"verif/gen"
)

func init() { register("C14", c14Main) }

// c14Out is the outcome of one sub-case: a value or a jq error.
type c14Out struct {
	ok  bool
	v   any
	err string
}

type c14Case struct {
	pair    string // function pair, e.g. "base64:rawurl"
	class   string // input class
	size    int    // size of the input (bytes, nodes, digits ...), bucketed for Distinct
	in      any    // jq input of this sub-case
	wantErr bool   // the oracle expects an error (malformed input)
	conv    int    // conversions performed by the filter (for the volume counter)
	check   func(t *c14T, o c14Out)
}

type c14Group struct {
	filter string
	cases  []*c14Case
}

type c14Batch struct {
	groups []*c14Group
	byF    map[string]*c14Group
}

func (b *c14Batch) add(filter string, c *c14Case) {
	if b.byF == nil {
		b.byF = map[string]*c14Group{}
	}
	g := b.byF[filter]
	if g == nil {
		g = &c14Group{filter: filter}
		b.byF[filter] = g
		b.groups = append(b.groups, g)
	}
	if c.conv == 0 {
		c.conv = 1
	}
	g.cases = append(g.cases, c)
}

// c14T is handed to the oracle of a sub-case.
type c14T struct {
	run    *ev.Run
	c      *c14Case
	filter string
}

func (t *c14T) repro() string {
	return c14JSON(t.c.in) + " | " + t.filter
}

func (t *c14T) fail(sig string, format string, a ...any) {
	desc := fmt.Sprintf(format, a...)
	t.run.Violation(sig, fmt.Sprintf("[%s/%s] %s\n  reproduce (jq expression for fq -n): %s", t.c.pair, t.c.class, desc, c14Trunc(t.repro(), 1500)),
		map[string]any{"pair": t.c.pair, "class": t.c.class, "input": c14Jsonable(t.c.in), "filter": t.filter, "seed": t.run.Seed})
}

func c14Trunc(s string, n int) string {
	if len(s) > n {
		return s[:n] + "…"
	}
	return s
}

const c14Prelude = `def c14b: [.[range(length)]]; def c14e: {e: (try tostring catch "unprintable error")}; `

func (b *c14Batch) exec(s *fqx.Session, run *ev.Run) {
	var prog strings.Builder
	prog.WriteString(c14Prelude)
	prog.WriteString("[")
	input := make([]any, len(b.groups))
	for i, g := range b.groups {
		if i > 0 {
			prog.WriteString(", ")
		}
		fmt.Fprintf(&prog, "(.[%d] | map(try [%s] catch c14e))", i, g.filter)
		ins := make([]any, len(g.cases))
		for j, c := range g.cases {
			ins[j] = c14Clone(c.in) // fq must never see (and possibly mutate) the oracle's copy
		}
		input[i] = ins
	}
	prog.WriteString("]")
	var outs []any
	var err error
	pi := fqx.Guard(func() { outs, err = s.Eval(input, prog.String()) })
	if pi != nil {
		// find the sub-case: re-run one by one
		b.isolate(s, run, "panic")
		return
	}
	if err != nil || len(outs) != 1 {
		b.isolate(s, run, fmt.Sprintf("batch error %v (outputs %d)", err, len(outs)))
		return
	}
	res, ok := outs[0].([]any)
	if !ok || len(res) != len(b.groups) {
		run.Inconclusive("batch-shape")
		return
	}
	for i, g := range b.groups {
		rs, ok := res[i].([]any)
		if !ok || len(rs) != len(g.cases) {
			run.Violation("batch:result-count:"+g.cases[0].pair, fmt.Sprintf("filter %q over %d inputs gave %d results (a filter must give exactly one output or an error)", g.filter, len(g.cases), len(rs)), map[string]any{"filter": g.filter})
			continue
		}
		for j, c := range g.cases {
			b.deliver(run, g, c, rs[j])
		}
	}
}

func (b *c14Batch) deliver(run *ev.Run, g *c14Group, c *c14Case, r any) {
	var o c14Out
	switch r := r.(type) {
	case []any:
		if len(r) != 1 {
			t := &c14T{run: run, c: c, filter: g.filter}
			t.fail(c.pair+":output-count", "filter gave %d outputs instead of one", len(r))
			return
		}
		o = c14Out{ok: true, v: c14Plain(r[0])}
	case map[string]any:
		e, _ := r["e"].(string)
		o = c14Out{err: e}
	default:
		run.Inconclusive("result-shape")
		return
	}
	run.Eval(1)
	run.Count(c.pair+":cases", 1)
	run.Count("conversions", int64(c.conv))
	if c.wantErr {
		run.Count(c.pair+":errors-expected", 1)
	}
	if !o.ok {
		run.Count(c.pair+":errors-observed", 1)
	}
	c14SampleOnce(c, g.filter, o)
	run.Count("class:"+c.pair+":"+c.class, 1)
	run.Distinct(fmt.Sprintf("%s|%s|%d", c.pair, c.class, c14Bucket(c.size)))
	c.check(&c14T{run: run, c: c, filter: g.filter}, o)
}

// isolate re-runs every sub-case alone after a batch-level failure (panic, uncatchable error).
func (b *c14Batch) isolate(s *fqx.Session, run *ev.Run, why string) {
	for _, g := range b.groups {
		for _, c := range g.cases {
			var outs []any
			var err error
			prog := c14Prelude + "try [" + g.filter + "] catch c14e"
			pi := fqx.Guard(func() { outs, err = s.Eval(c14Clone(c.in), prog) })
			t := &c14T{run: run, c: c, filter: g.filter}
			if pi != nil {
				t.fail(c.pair+":panic", "panic: %v\n%s", pi.Value, c14Trunc(pi.Stack, 1500))
				continue
			}
			if err != nil || len(outs) != 1 {
				t.fail(c.pair+":uncatchable-error", "error that try/catch does not catch: %v (outputs %d); batch failure was: %s", err, len(outs), why)
				continue
			}
			b.deliver(run, g, c, outs[0])
		}
	}
}

// one sample (input, filter, outcome) per function pair, written to the evidence file
var c14SampleMu sync.Mutex
var c14Samples = map[string]any{}

func c14SampleOnce(c *c14Case, filter string, o c14Out) {
	c14SampleMu.Lock()
	defer c14SampleMu.Unlock()
	if _, ok := c14Samples[c.pair]; ok || c.wantErr {
		return
	}
	res := any(c14Trunc(c14JSON(o.v), 300))
	if !o.ok {
		res = "error: " + c14Trunc(o.err, 200)
	}
	c14Samples[c.pair] = map[string]any{"class": c.class, "input": c14Trunc(c14JSON(c.in), 300), "filter": filter, "result": res}
}

func c14Bucket(n int) int {
	b := 0
	for n > 0 {
		n >>= 1
		b++
	}
	return b
}

// c14Plain turns gojq.JQValue implementations into plain gojq values.
func c14Plain(v any) any {
	switch v := v.(type) {
	case []any:
		for i := range v {
			v[i] = c14Plain(v[i])
		}
		return v
	case map[string]any:
		for k := range v {
			v[k] = c14Plain(v[k])
		}
		return v
	case gojq.JQValue:
		return c14Plain(v.JQValueToGoJQ())
	default:
		return v
	}
}

func c14Clone(v any) any {
	switch v := v.(type) {
	case []any:
		o := make([]any, len(v))
		for i := range v {
			o[i] = c14Clone(v[i])
		}
		return o
	case map[string]any:
		o := make(map[string]any, len(v))
		for k := range v {
			o[k] = c14Clone(v[k])
		}
		return o
	case *big.Int:
		return new(big.Int).Set(v)
	default:
		return v
	}
}

// c14Jsonable makes a value safe for the replay file (no NaN etc. occur in generated inputs).
func c14Jsonable(v any) any { return json.RawMessage(c14JSON(v)) }

// c14JSON renders a gojq value as JSON/jq source text (big integers in full, sorted keys).
func c14JSON(v any) string {
	var sb strings.Builder
	var f func(v any)
	f = func(v any) {
		switch v := v.(type) {
		case nil:
			sb.WriteString("null")
		case bool:
			fmt.Fprintf(&sb, "%v", v)
		case int:
			fmt.Fprintf(&sb, "%d", v)
		case *big.Int:
			sb.WriteString(v.String())
		case float64:
			if v == 0 && math.Signbit(v) {
				sb.WriteString("-0.0")
			} else {
				b, _ := json.Marshal(v)
				sb.Write(b)
			}
		case string:
			b, _ := json.Marshal(v)
			sb.Write(b)
		case []any:
			sb.WriteByte('[')
			for i, e := range v {
				if i > 0 {
					sb.WriteByte(',')
				}
				f(e)
			}
			sb.WriteByte(']')
		case map[string]any:
			keys := make([]string, 0, len(v))
			for k := range v {
				keys = append(keys, k)
			}
			sort.Strings(keys)
			sb.WriteByte('{')
			for i, k := range keys {
				if i > 0 {
					sb.WriteByte(',')
				}
				b, _ := json.Marshal(k)
				sb.Write(b)
				sb.WriteByte(':')
				f(v[k])
			}
			sb.WriteByte('}')
		default:
			fmt.Fprintf(&sb, "\"<%T>\"", v)
		}
	}
	f(v)
	return sb.String()
}

func c14BigOf(v any) (*big.Int, bool) {
	switch v := v.(type) {
	case int:
		return big.NewInt(int64(v)), true
	case *big.Int:
		return v, true
	}
	return nil, false
}

// c14NumEq: does the number got carry the value of the original number orig?
//   - orig integer: got must be the SAME integer (an integral float with exactly that value is accepted);
//     a float that is only the nearest double of a big integer is a loss and is not accepted.
//   - orig float: got must convert to the same double (JSON texts such as 1e+21 or 12000000000000000000000
//     are both fine; −0 equals 0).
func c14NumEq(orig, got any) bool {
	if ob, ok := c14BigOf(orig); ok {
		if gb, ok := c14BigOf(got); ok {
			return ob.Cmp(gb) == 0
		}
		gf, ok := got.(float64)
		if !ok || math.IsInf(gf, 0) || math.IsNaN(gf) {
			return false
		}
		bf := new(big.Float).SetFloat64(gf)
		if !bf.IsInt() {
			return false
		}
		gi, _ := bf.Int(nil)
		return gi.Cmp(ob) == 0
	}
	of, ok := orig.(float64)
	if !ok {
		return false
	}
	switch g := got.(type) {
	case float64:
		return g == of
	case int:
		return float64(g) == of
	case *big.Int:
		f, _ := new(big.Float).SetInt(g).Float64()
		return f == of
	}
	return false
}

func c14IsNum(v any) bool {
	switch v.(type) {
	case int, float64, *big.Int:
		return true
	}
	return false
}

// c14Diff is the first difference between an original value and what came back.
type c14Diff struct {
	kind string // bigint, int, float, null, bool, string, array, object, key
	msg  string
}

func (d *c14Diff) String() string { return d.msg }

func c14NumKind(v any) string {
	switch v := v.(type) {
	case *big.Int:
		return "bigint"
	case float64:
		if v == 0 && math.Signbit(v) {
			return "negzero"
		}
		return "float"
	}
	return "int"
}

// c14Eq compares an original value with what came back; nil when got carries the same value.
func c14Eq(orig, got any) *c14Diff { return c14EqAt("", orig, got) }

func c14EqAt(path string, orig, got any) *c14Diff {
	short := func(v any) string { return c14Trunc(c14JSON(v), 120) }
	if c14IsNum(orig) {
		if !c14IsNum(got) || !c14NumEq(orig, got) {
			return &c14Diff{c14NumKind(orig), fmt.Sprintf("%s: want number %s got %s", path, short(orig), short(got))}
		}
		return nil
	}
	switch o := orig.(type) {
	case nil:
		if got != nil {
			return &c14Diff{"null", fmt.Sprintf("%s: want null got %s", path, short(got))}
		}
	case bool:
		if g, ok := got.(bool); !ok || g != o {
			return &c14Diff{"bool", fmt.Sprintf("%s: want %v got %s", path, o, short(got))}
		}
	case string:
		if g, ok := got.(string); !ok || g != o {
			return &c14Diff{"string", fmt.Sprintf("%s: want string %s got %s", path, short(o), short(got))}
		}
	case []any:
		g, ok := got.([]any)
		if !ok {
			return &c14Diff{"array", fmt.Sprintf("%s: want array got %s", path, short(got))}
		}
		if len(g) != len(o) {
			return &c14Diff{"array", fmt.Sprintf("%s: want array of %d got %d: %s", path, len(o), len(g), short(got))}
		}
		for i := range o {
			if d := c14EqAt(fmt.Sprintf("%s[%d]", path, i), o[i], g[i]); d != nil {
				return d
			}
		}
	case map[string]any:
		g, ok := got.(map[string]any)
		if !ok {
			return &c14Diff{"object", fmt.Sprintf("%s: want object got %s", path, short(got))}
		}
		keys := make([]string, 0, len(o))
		for k := range o {
			keys = append(keys, k)
		}
		sort.Strings(keys)
		for _, k := range keys {
			gv, ok := g[k]
			if !ok {
				return &c14Diff{"key", fmt.Sprintf("%s: key %q missing (got keys of %s)", path, k, short(got))}
			}
			if d := c14EqAt(path+"."+k, o[k], gv); d != nil {
				return d
			}
		}
		if len(g) != len(o) {
			for k := range g {
				if _, ok := o[k]; !ok {
					return &c14Diff{"key", fmt.Sprintf("%s: extra key %q", path, k)}
				}
			}
		}
	default:
		return &c14Diff{"type", fmt.Sprintf("%s: unexpected original type %T", path, orig)}
	}
	return nil
}

// c14Fields picks the elements of an array result.
func c14Fields(o c14Out, n int) ([]any, bool) {
	a, ok := o.v.([]any)
	if !o.ok || !ok || len(a) != n {
		return nil, false
	}
	return a, true
}

// expectation helpers -------------------------------------------------------

// c14MustErr is the oracle of a malformed input: an error, never a value.
func c14MustErr(sig string) func(t *c14T, o c14Out) {
	return func(t *c14T, o c14Out) {
		if o.ok {
			t.fail(sig, "malformed input accepted; result %s", c14Trunc(c14JSON(o.v), 200))
		}
	}
}

type c14Family struct {
	name    string
	quick   int // batches
	thor    int
	perCase int // sub-cases per batch
	gen     func(w *c14Worker, r *gen.Rand, b *c14Batch, n int)
}

type c14Worker struct {
	run *ev.Run
	s   *fqx.Session
	py  *c14Py
}

type c14Job struct {
	fam *c14Family
	id  int
}

func c14Main(args []string) {
	run := ev.NewRun("C14")
	run.Rule = "per function pair a seeded generator builds sub-cases (input class × size), ~200 sub-cases go through one jq program on a live fq interpreter (try/catch per sub-case), every result is compared in Go with the standard library / a spec-level model and the inverse law is checked on the documented canonical form; malformed inputs must give an error. non-trivial = every sub-case that reached the oracle; distinct = (pair, input class, log2 size bucket)"
	run.Assumptions = []string{
		"binary-to-text functions see a non-byte-aligned binary zero-padded on the right to whole bytes (documented for bits_format; IOReader rule of C01)",
		"base64 input containing CR/LF and non-zero trailing bits (RFC 4648 §3.3/§3.5 leave both to the decoder) may be accepted, but then the value must be the canonical decoding",
		"from_radix/to_radix: non-negative integers only; floats and negative numbers are outside the domain",
		"YAML/TOML/XML/CSV decoders require an array/object root; from_toml rejects an empty document and from_jsonl an empty input by explicit decoder checks: {} | to_toml | from_toml and [] | to_jsonl | from_jsonl are only checked to be errors",
		"TOML: no null, integers within int64, finite floats; CSV: rows with at least one field, a row of one empty field excluded, no bare CR; XML: names without namespaces except one declared-prefix class, text/comment without leading or trailing white space, only characters legal in XML 1.0",
		"quick tier hashes are compared with Go crypto (same libraries fq links): checks fq's bit-reader → hash plumbing only; thorough adds Python hashlib (and a pure-Python MD4)",
		"URL: hierarchical URLs only (scheme://userinfo@host/path?query#fragment and relative references); opaque URLs (mailto:) are outside the documented domain",
	}
	if len(args) >= 2 && args[0] == "--replay" {
		fmt.Println("replay: each replay file holds the jq input and filter of the sub-case; run `fq -n '<input> | <filter>'`:", args[1])
		run.Finish()
		return
	}
	fams := c14Families()
	if only := os.Getenv("C14_ONLY"); only != "" {
		var keep []*c14Family
		for _, f := range fams {
			if strings.Contains(","+only+",", ","+f.name+",") {
				keep = append(keep, f)
			}
		}
		fams = keep
	}
	var jobs []c14Job
	for _, f := range fams {
		n := run.Pick(f.quick, f.thor)
		if sc, err := strconv.Atoi(os.Getenv("C14_SCALE")); err == nil && sc > 0 { // percent, for trying out a tier
			n = max(1, n*sc/100)
			run.Assumptions = append(run.Assumptions, "C14_SCALE="+os.Getenv("C14_SCALE")+"% of the tier's batches (trial run)")
		}
		for i := 0; i < n; i++ {
			jobs = append(jobs, c14Job{f, i})
		}
	}
	// interleave families so that slow ones do not pile up at the end
	sort.SliceStable(jobs, func(i, j int) bool { return jobs[i].id < jobs[j].id })
	ch := make(chan c14Job, 64)
	var wg sync.WaitGroup
	for w := 0; w < runtime.NumCPU(); w++ {
		wg.Add(1)
		go func() {
			defer wg.Done()
			wk := &c14Worker{run: run, s: fqx.NewSession()}
			defer wk.s.Close()
			if run.Thorough() {
				wk.py = c14StartPy(run)
				defer wk.py.close()
			}
			for j := range ch {
				r := gen.New(run.Seed).Fork(c14Hash(j.fam.name)).Fork(uint64(j.id))
				b := &c14Batch{}
				j.fam.gen(wk, r, b, j.fam.perCase)
				b.exec(wk.s, run)
				run.Count("batches:"+j.fam.name, 1)
			}
		}()
	}
	for _, j := range jobs {
		ch <- j
	}
	close(ch)
	wg.Wait()
	c14SampleMu.Lock()
	run.Extra["sample_per_pair"] = c14Samples
	for i, k := range c14Keys(c14Samples) {
		if i%4 == 0 { // ev keeps 8 samples; the full list is in sample_per_pair
			run.Sample(map[string]any{"pair": k, "case": c14Samples[k]})
		}
	}
	c14SampleMu.Unlock()
	run.Finish()
}

func c14Hash(s string) uint64 {
	h := uint64(14695981039346656037)
	for i := 0; i < len(s); i++ {
		h ^= uint64(s[i])
		h *= 1099511628211
	}
	return h
}

func c14Families() []*c14Family {
	return []*c14Family{
		{name: "hexb64", quick: 40, thor: 2200, perCase: 220, gen: c14GenHexB64},
		{name: "strenc", quick: 30, thor: 1500, perCase: 220, gen: c14GenStrEnc},
		{name: "hash", quick: 10, thor: 400, perCase: 100, gen: c14GenHash},
		{name: "url", quick: 30, thor: 1500, perCase: 220, gen: c14GenURL},
		{name: "radix", quick: 30, thor: 1500, perCase: 220, gen: c14GenRadix},
		{name: "json", quick: 30, thor: 1500, perCase: 160, gen: c14GenJSON},
		{name: "yaml", quick: 25, thor: 1200, perCase: 120, gen: c14GenYAML},
		{name: "toml", quick: 25, thor: 1200, perCase: 120, gen: c14GenTOML},
		{name: "xml", quick: 25, thor: 1200, perCase: 120, gen: c14GenXML},
		{name: "csv", quick: 25, thor: 1200, perCase: 150, gen: c14GenCSV},
	}
}
