package main

// C08 — a decode value is indistinguishable from its JSON value in read-only jq.
// For sampled values v of corpus trees and every query q of a read-only family:
//   [v | q] | tovalue   must equal   [v | tovalue | q]
// compared IN GO (not with jq's ==, which goes through the methods under test), under the documented
// normalisations attached per query. Second oracle straight from the Go tree: tovalue of a scalar equals
// sym ?? actual read from scalar.Scalarable.

import (
	"encoding/json"
	"fmt"
	"math"
	"math/big"
	"sort"
	"strconv"
	"strings"
	"unicode/utf8"

	"github.com/wader/fq/pkg/bitio"
	"github.com/wader/fq/pkg/decode"
	"github.com/wader/fq/pkg/scalar"

	"verif/ev"
	"verif/gen"
)

func init() { register("C08", c08Main) }

type c08Query struct {
	Name string
	Q    string
	// normalisations (documented differences)
	SortOutputs bool // outputs derive from key iteration order: compare as multisets
	SortInner   bool // the single output is a list in key iteration order: sort its elements
	ParseJSON   bool // output is JSON text of a compound: compare parsed
	OnlyObject  bool // string-key lookup: on a non-object a decode value yields null (documented)
	StringFn    bool // string function: only when the value is a string with valid UTF-8 content
	KeyQuery    bool // uses the value's own first/last key: needs an object or a non-empty array
}

var c08Queries = []c08Query{
	{Name: "type", Q: `type`},
	{Name: "length", Q: `length`, StringFn: false},
	{Name: "utf8bytelength", Q: `utf8bytelength`, StringFn: true},
	{Name: "keys", Q: `keys`, SortInner: true},
	{Name: "has-first-key", KeyQuery: true, Q: `has($k0)`},
	{Name: "has-absent-key", Q: `has("absent_key_zz")`},
	{Name: "has-index-0", Q: `has(0)`},
	{Name: "has-index-len", Q: `has($n)`},
	{Name: "has-index-neg", Q: `has(-1)`},
	{Name: "index-first-key", KeyQuery: true, Q: `.[$k0]`},
	{Name: "index-last-key", KeyQuery: true, Q: `.[$kl]`},
	{Name: "index-absent-key", Q: `.["absent_key_zz"]`, OnlyObject: true},
	{Name: "index-0", Q: `.[0]`},
	{Name: "index-neg1", Q: `.[-1]`},
	{Name: "index-out-of-range", Q: `.[1000]`},
	{Name: "index-len", Q: `.[$n]`},
	{Name: "slice-1-3", Q: `.[1:3]`},
	{Name: "slice-to-neg1", Q: `.[:-1]`},
	{Name: "slice-neg2", Q: `.[-2:]`},
	{Name: "slice-out-of-range", Q: `.[5:1000]`},
	{Name: "iterate-opt", Q: `.[]?`, SortOutputs: true},
	{Name: "iterate", Q: `.[]`, SortOutputs: true},
	{Name: "map-type", Q: `map(type)`, SortInner: true},
	{Name: "to_entries", Q: `to_entries`, SortInner: true},
	{Name: "paths", Q: `[paths]`, SortInner: true},
	{Name: "leaf_paths", Q: `[paths(scalars)]`, SortInner: true},
	{Name: "recurse-count", Q: `[..] | length`},
	{Name: "getpath-first-key", KeyQuery: true, Q: `getpath([$k0])`},
	{Name: "index-every-key", Q: `[keys[] as $k | .[$k]]`, SortInner: true, OnlyObject: true},
	{Name: "getpath-0", Q: `getpath([0])`},
	{Name: "getpath-absent", Q: `getpath(["absent_key_zz"])`, OnlyObject: true},
	{Name: "tojson", Q: `tojson`, ParseJSON: true},
	{Name: "tostring", Q: `tostring`, ParseJSON: true},
	{Name: "tonumber", Q: `tonumber`},
	{Name: "at-json", Q: `@json`, ParseJSON: true},
	{Name: "at-text", Q: `@text`, ParseJSON: true},
	{Name: "at-base64", Q: `@base64`, StringFn: true},
	{Name: "ascii_downcase", Q: `ascii_downcase`, StringFn: true},
	{Name: "explode", Q: `explode`, StringFn: true},
	{Name: "test", Q: `test("a")`, StringFn: true},
	{Name: "startswith", Q: `startswith("a")`, StringFn: true},
	{Name: "ltrimstr", Q: `ltrimstr("a")`, StringFn: true},
	{Name: "split", Q: `split(",")`, StringFn: true},
	{Name: "index-str", Q: `index("a")`, StringFn: true},
	{Name: "indices", Q: `indices("a")`, StringFn: true},
	{Name: "contains-self", Q: `contains($j)`},
	{Name: "inside-self", Q: `inside($j)`},
	{Name: "eq-self", Q: `. == $j`},
	{Name: "lt-self", Q: `. < $j`},
	{Name: "le-1", Q: `. <= 1`},
	{Name: "gt-str", Q: `. > "m"`},
	{Name: "sort", Q: `sort`},
	{Name: "sort_by", Q: `sort_by(.)`},
	{Name: "group_by", Q: `group_by(.)`},
	{Name: "unique", Q: `unique`},
	{Name: "min", Q: `min`},
	{Name: "max", Q: `max`},
	{Name: "add", Q: `add`, SortOutputs: false},
	{Name: "any", Q: `any`},
	{Name: "all", Q: `all`},
	{Name: "plus-1", Q: `. + 1`},
	{Name: "times-2", Q: `. * 2`},
	{Name: "minus-1", Q: `. - 1`},
	{Name: "div-2", Q: `. / 2`},
	{Name: "mod-3", Q: `. % 3`},
	{Name: "negate", Q: `-(.)`},
	{Name: "floor", Q: `floor`},
	{Name: "sqrt", Q: `sqrt`},
	{Name: "plus-str", Q: `. + "x"`, StringFn: true},
	{Name: "array-concat", Q: `[.] + [1]`},
	{Name: "object-wrap", Q: `{a: .}`},
	{Name: "pair", Q: `[., .]`},
	{Name: "destructure-array", Q: `. as [$a] | $a`},
	{Name: "destructure-object", Q: `. as {$a} | $a`, OnlyObject: true},
	{Name: "numbers", Q: `[.. | numbers] | length`},
	{Name: "strings", Q: `[.. | strings] | length`},
	{Name: "not", Q: `not`},
	{Name: "alternative", Q: `. // "alt"`},
	{Name: "if", Q: `if . then 1 else 2 end`},
	{Name: "isvalid-index", Q: `try .[0] catch "err"`},
	{Name: "tostring-num", Q: `[.] | tojson`, ParseJSON: true},
}

func c08Program() string {
	var pairs []string
	for _, q := range c08Queries {
		pairs = append(pairs, fmt.Sprintf(`[(try ([$v | %s] | tovalue) catch {e: 1}), (try [$j | %s] catch {e: 1})]`, q.Q, q.Q))
	}
	return `. as {$r, $paths} | $paths[] as $p | ($r | getpath($p)) as $v | ($v | tovalue) as $j
| ($j | if type == "object" then keys elif type == "array" then [range(length)] else [] end) as $ks
| ($ks[0] // "k") as $k0 | ($ks[-1] // "k") as $kl | ($j | if type == "array" or type == "object" or type == "string" then length else 0 end) as $n
| [$j, [` + strings.Join(pairs, ",\n") + `]]`
}

// canon: canonical text of a jq value (numbers by exact value, maps with sorted keys)
func canon(v any) string {
	var sb strings.Builder
	canonW(&sb, v)
	return sb.String()
}

func canonW(sb *strings.Builder, v any) {
	switch x := v.(type) {
	case nil:
		sb.WriteString("null")
	case bool:
		sb.WriteString(strconv.FormatBool(x))
	case int:
		sb.WriteString(strconv.Itoa(x))
	case *big.Int:
		sb.WriteString(x.String())
	case float64:
		if x == math.Trunc(x) && math.Abs(x) < 1e18 {
			sb.WriteString(strconv.FormatInt(int64(x), 10))
		} else {
			sb.WriteString(strconv.FormatFloat(x, 'g', -1, 64))
		}
	case string:
		sb.WriteString(strconv.Quote(x))
	case []any:
		sb.WriteByte('[')
		for i, e := range x {
			if i > 0 {
				sb.WriteByte(',')
			}
			canonW(sb, e)
		}
		sb.WriteByte(']')
	case map[string]any:
		keys := make([]string, 0, len(x))
		for k := range x {
			keys = append(keys, k)
		}
		sort.Strings(keys)
		sb.WriteByte('{')
		for i, k := range keys {
			if i > 0 {
				sb.WriteByte(',')
			}
			sb.WriteString(strconv.Quote(k))
			sb.WriteByte(':')
			canonW(sb, x[k])
		}
		sb.WriteByte('}')
	default:
		fmt.Fprintf(sb, "<%T %v>", v, v)
	}
}

func sortedCanon(list []any) string {
	ss := make([]string, len(list))
	for i, e := range list {
		ss[i] = canon(e)
	}
	sort.Strings(ss)
	return "[" + strings.Join(ss, ",") + "]"
}

func c08Kind(v *decode.Value) string {
	switch x := v.V.(type) {
	case *decode.Compound:
		if x.IsArray {
			return "array"
		}
		return "struct"
	case scalar.Scalarable:
		k := strings.TrimPrefix(fmt.Sprintf("%T", x), "*scalar.")
		if x.ScalarSym() != nil {
			k += "+sym:" + fmt.Sprintf("%T", x.ScalarSym())
		}
		return k
	}
	return fmt.Sprintf("%T", v.V)
}

// goScalarValue: sym ?? actual straight from the Go tree (second, independent oracle for tovalue)
func goScalarValue(v *decode.Value) (any, bool) {
	s, ok := v.V.(scalar.Scalarable)
	if !ok {
		return nil, false
	}
	val := s.ScalarSym()
	if val == nil {
		val = s.ScalarActual()
	}
	switch x := val.(type) {
	case uint64:
		return new(big.Int).SetUint64(x), true
	case int64:
		return big.NewInt(x), true
	case int:
		return big.NewInt(int64(x)), true
	case *big.Int, float64, string, bool, nil:
		return x, true
	case bitio.ReaderAtSeeker:
		return nil, false // raw bits: rendered by bits_format (C05's subject)
	}
	return nil, false
}

func canonNum(v any) string {
	if b, ok := v.(*big.Int); ok {
		return b.String()
	}
	return canon(v)
}

func c08Tree(run *ev.Run, j treeJob, k int) {
	s := treeSession()
	data := j.Data()
	rng := gen.New(run.Seed).Fork(0xC08000 + uint64(k))
	dv, err, pi := jqDecode(s, data, j.Format, j.Force)
	run.Eval(1)
	if pi != nil || err != nil || dv == nil {
		run.Count("decode:no-tree", 1)
		return
	}
	root := dv.DecodeValue()
	// prefer variety of scalar kinds: bucket by kind, take a few of each
	all := pickValues(root, rng, 3000)
	byKind := map[string][]pickedValue{}
	for _, p := range all {
		if isSynthetic(p.V) && rng.Intn(4) != 0 {
			continue
		}
		kd := c08Kind(p.V)
		if c, ok := p.V.V.(*decode.Compound); ok && len(c.Children) > 60 {
			continue // keep evaluations small
		}
		byKind[kd] = append(byKind[kd], p)
	}
	var picked []pickedValue
	kinds := make([]string, 0, len(byKind))
	for kd := range byKind {
		kinds = append(kinds, kd)
	}
	sort.Strings(kinds)
	for _, kd := range kinds {
		ps := byKind[kd]
		gen.Shuffle(rng, ps)
		if len(ps) > 3 {
			ps = ps[:3]
		}
		picked = append(picked, ps...)
	}
	if len(picked) > 36 {
		gen.Shuffle(rng, picked)
		picked = picked[:36]
	}
	if len(picked) == 0 {
		return
	}
	var outs []any
	pi = guardStack(func() {
		outs, err = s.Eval(map[string]any{"r": dv, "paths": pathsOf(picked)}, c08Program())
	})
	if pi != nil {
		run.Violation("panic:"+panicSig(pi), fmt.Sprintf("%s: panic %v\n%s", j.Label, pi.Value, trunc(pi.Stack, 1500)), map[string]any{"case": j.Label})
		return
	}
	if err != nil || len(outs) != len(picked) {
		run.Violation("eval-failed", fmt.Sprintf("%s: query program over %d values gave %d outputs, err %v", j.Label, len(picked), len(outs), err), map[string]any{"case": j.Label})
		return
	}
	for i, p := range picked {
		row, _ := outs[i].([]any)
		if len(row) != 2 {
			continue
		}
		jv := row[0]
		pairs, _ := row[1].([]any)
		kd := c08Kind(p.V)
		run.Count("values:kind:"+kd, 1)
		// second oracle: tovalue of a scalar == sym ?? actual from the Go tree
		if want, ok := goScalarValue(p.V); ok {
			if canonNum(jv) != canonNum(want) {
				run.Violation("tovalue-vs-go-scalar:"+strings.SplitN(kd, "+", 2)[0], fmt.Sprintf("%s: %s: tovalue = %s but the scalar's sym ?? actual is %s", j.Label, jqPathExpr(p.Path), canon(jv), canonNum(want)), map[string]any{"case": j.Label, "path": jqPathExpr(p.Path)})
			} else {
				run.Count("compared:tovalue-vs-go-scalar", 1)
			}
		}
		_, isObj := jv.(map[string]any)
		ja, isArr := jv.([]any)
		_, isStr := jv.(string)
		hasOwnKeys := isObj && len(jv.(map[string]any)) > 0 || isArr && len(ja) > 0
		rawNonUTF8 := containsNonUTF8(jv)
		for qi, q := range c08Queries {
			if qi >= len(pairs) {
				break
			}
			pr, _ := pairs[qi].([]any)
			if len(pr) != 2 {
				continue
			}
			if q.OnlyObject && !isObj {
				run.Count("skipped:string-key-on-non-object (documented)", 1)
				continue
			}
			if q.KeyQuery && !hasOwnKeys {
				run.Count("skipped:string-key-on-non-object (documented)", 1)
				continue
			}
			if rawNonUTF8 {
				run.Count("skipped:non-utf8-raw-string (documented)", 1)
				continue
			}
			if q.StringFn && !isStr {
				// applying a string function to a non-string must fail the same way on both sides: still compared
			}
			a, b := pr[0], pr[1]
			ca, cb := canon(a), canon(b)
			if ca != cb {
				la, aok := a.([]any)
				lb, bok := b.([]any)
				switch {
				case q.SortOutputs && aok && bok:
					ca, cb = sortedCanon(la), sortedCanon(lb)
				case q.SortInner && aok && bok && len(la) == 1 && len(lb) == 1:
					ia, iaok := la[0].([]any)
					ib, ibok := lb[0].([]any)
					if iaok && ibok {
						ca, cb = sortedCanon(ia), sortedCanon(ib)
					}
				case q.ParseJSON && aok && bok && len(la) == 1 && len(lb) == 1:
					sa, saok := la[0].(string)
					sb2, sbok := lb[0].(string)
					if saok && sbok {
						if va, e1 := parseJSONValue(sa); e1 == nil {
							if vb, e2 := parseJSONValue(sb2); e2 == nil {
								ca, cb = canon(va), canon(vb)
							}
						}
					}
				}
			}
			run.Count("compared:queries", 1)
			if ca != cb {
				jt := jqType(jv)
				if canon(jv) == "-9223372036854775808" {
					jt += ":minint64" // the one value whose negation overflows the engine's native int
				}
				run.Violation("query:"+q.Name+":"+strings.SplitN(kd, "+", 2)[0]+":"+jt, fmt.Sprintf("%s: value %s (%s, JSON value %s): `%s` on the decode value gives %s, on its JSON value %s", j.Label, jqPathExpr(p.Path), kd, trunc(canon(jv), 120), q.Q, trunc(canon(a), 300), trunc(canon(b), 300)), map[string]any{"case": j.Label, "path": jqPathExpr(p.Path), "query": q.Q})
			}
		}
		run.Distinct(labelKey(j.Label) + "|" + kd)
	}
}

func jqType(v any) string {
	switch v.(type) {
	case nil:
		return "null"
	case bool:
		return "boolean"
	case int, float64, *big.Int:
		return "number"
	case string:
		return "string"
	case []any:
		return "array"
	case map[string]any:
		return "object"
	}
	return "other"
}

func parseJSONValue(s string) (any, error) {
	q, err := gojqParseJSON(s)
	return q, err
}

func c08Main(args []string) {
	run := ev.NewRun("C08")
	run.Rule = fmt.Sprintf("corpus decodes through the jq layer; per tree up to 36 values chosen to cover every scalar kind present (uint/sint/bigint/float/str/bool/null/raw bits, with and without symbolic mapping, structs, arrays); %d read-only queries each evaluated as [v|q]|tovalue and [v|tovalue|q] and compared in Go with per-query documented normalisations (key order, string-key on non-object, non-UTF-8 raw bits); plus tovalue of scalars vs sym ?? actual read from the Go tree. non-trivial = every (value kind, query) comparison; distinct = (file, format, value kind)", len(c08Queries))
	run.Assumptions = []string{
		"documented differences are normalised per query, never globally: struct key order (keys/to_entries/paths/iteration/tojson), string-key lookup on non-objects, underscore keys never used as constants, raw-bit fields with non-UTF-8 content skipped",
		"update operators are outside the read-only family",
	}
	jobs := treeJobs(run.Seed, run.Thorough(), 0)
	var keep []treeJob
	for i, j := range jobs {
		if j.Force || len(j.Seed) > 48*1024 {
			continue
		}
		// (the generated boundary-number documents are in every run: negative big integers, int64 min, -0.0 …
		// must not depend on which corpus files the slice happens to hold — seed C08-A was lost that way once)
		if run.Thorough() || i%5 == int(run.Seed%5) || strings.HasPrefix(j.Label, "generated/") {
			keep = append(keep, j)
		}
	}
	jobs = keep
	isoRun(run, isoSpec{
		NJobs: len(jobs),
		Do:    func(run *ev.Run, k int) { c08Tree(run, jobs[k], k) },
		OnDeath: func(run *ev.Run, k int, kind string, tail string) {
			run.Count("worker-died:"+kind, 1)
		},
	})
	run.Sample(map[string]any{"jobs": len(jobs), "queries": len(c08Queries), "example": c08Queries[3].Q})
	run.Finish()
}

// gojqParseJSON parses JSON text into jq-style values with exact integers.
func gojqParseJSON(s string) (any, error) {
	dec := json.NewDecoder(strings.NewReader(s))
	dec.UseNumber()
	var v any
	if err := dec.Decode(&v); err != nil {
		return nil, err
	}
	var conv func(v any) any
	conv = func(v any) any {
		switch x := v.(type) {
		case json.Number:
			if b, ok := new(big.Int).SetString(string(x), 10); ok {
				if b.IsInt64() {
					return int(b.Int64())
				}
				return b
			}
			f, _ := x.Float64()
			return f
		case []any:
			for i := range x {
				x[i] = conv(x[i])
			}
			return x
		case map[string]any:
			for k := range x {
				x[k] = conv(x[k])
			}
			return x
		}
		return v
	}
	return conv(v), nil
}

// containsNonUTF8: the value (deeply) holds a string that is not valid UTF-8 (raw-bit fields keep such bytes:
// documented difference)
func containsNonUTF8(v any) bool {
	switch x := v.(type) {
	case string:
		return !utf8.ValidString(x)
	case []any:
		for _, e := range x {
			if containsNonUTF8(e) {
				return true
			}
		}
	case map[string]any:
		for k, e := range x {
			if !utf8.ValidString(k) || containsNonUTF8(e) {
				return true
			}
		}
	}
	return false
}
