package main

// C07 helpers: value normalisation, comparison "as values", JSON text for inputs and for display.

import (
	"encoding/json"
	"fmt"
	"math"
	"math/big"
	"sort"
	"strconv"
	"strings"
	"unicode/utf8"

	"github.com/wader/gojq"
)

// c07Plain turns whatever fq hands back (fq decode values / binaries implement gojq.JQValue)
// into plain gojq values, exactly as fq's own JSON output path does (JQValueToGoJQ).
func c07Plain(v any) any {
	for i := 0; i < 4; i++ {
		jv, ok := v.(gojq.JQValue)
		if !ok {
			break
		}
		v = jv.JQValueToGoJQ()
	}
	switch v := v.(type) {
	case []any:
		out := make([]any, len(v))
		for i, e := range v {
			out[i] = c07Plain(e)
		}
		return out
	case map[string]any:
		out := make(map[string]any, len(v))
		for k, e := range v {
			out[k] = c07Plain(e)
		}
		return out
	}
	return v
}

func c07Copy(v any) any {
	switch v := v.(type) {
	case []any:
		out := make([]any, len(v))
		for i, e := range v {
			out[i] = c07Copy(e)
		}
		return out
	case map[string]any:
		out := make(map[string]any, len(v))
		for k, e := range v {
			out[k] = c07Copy(e)
		}
		return out
	case *big.Int:
		return new(big.Int).Set(v)
	}
	return v
}

// c07ExactInt returns the exact integer value of a number if it is integral.
func c07ExactInt(v any) (*big.Int, bool) {
	switch v := v.(type) {
	case int:
		return big.NewInt(int64(v)), true
	case *big.Int:
		return v, true
	case float64:
		if math.IsInf(v, 0) || math.IsNaN(v) || v != math.Trunc(v) {
			return nil, false
		}
		bi, _ := new(big.Float).SetFloat64(v).Int(nil)
		return bi, true
	}
	return nil, false
}

func c07IsNum(v any) bool {
	switch v.(type) {
	case int, float64, *big.Int:
		return true
	}
	return false
}

// c07Equal: values as values. Numbers are compared by exact numeric value whatever the Go
// representation (gojq itself makes 1 == 1.0 true and prints both as 1, so the representation is
// not observable; exactness is kept so that a big integer degraded to a float IS seen),
// NaN equals NaN (by class), strings bytewise, containers recursively.
func c07Equal(a, b any) bool {
	if c07IsNum(a) || c07IsNum(b) {
		if !c07IsNum(a) || !c07IsNum(b) {
			return false
		}
		fa, aIsF := a.(float64)
		fb, bIsF := b.(float64)
		if aIsF && math.IsNaN(fa) || bIsF && math.IsNaN(fb) {
			return aIsF && bIsF && math.IsNaN(fa) && math.IsNaN(fb)
		}
		if aIsF && bIsF {
			return fa == fb
		}
		ia, okA := c07ExactInt(a)
		ib, okB := c07ExactInt(b)
		if !okA || !okB {
			return false
		}
		return ia.Cmp(ib) == 0
	}
	switch a := a.(type) {
	case nil:
		return b == nil
	case bool:
		bb, ok := b.(bool)
		return ok && a == bb
	case string:
		bb, ok := b.(string)
		return ok && a == bb
	case []any:
		bb, ok := b.([]any)
		if !ok || len(a) != len(bb) {
			return false
		}
		for i := range a {
			if !c07Equal(a[i], bb[i]) {
				return false
			}
		}
		return true
	case map[string]any:
		bb, ok := b.(map[string]any)
		if !ok || len(a) != len(bb) {
			return false
		}
		for k, v := range a {
			w, ok := bb[k]
			if !ok || !c07Equal(v, w) {
				return false
			}
		}
		return true
	}
	return false
}

// c07ValidUTF8 is what gojq's own JSON encoder does to a string on output: every invalid byte
// becomes U+FFFD. Used only on the CLI boundary where values are seen through JSON text.
func c07ValidUTF8(s string) string {
	if utf8.ValidString(s) {
		return s
	}
	var sb strings.Builder
	for i := 0; i < len(s); {
		r, n := utf8.DecodeRuneInString(s[i:])
		if r == utf8.RuneError && n == 1 {
			sb.WriteRune(utf8.RuneError)
		} else {
			sb.WriteString(s[i : i+n])
		}
		i += n
	}
	return sb.String()
}

// c07EqualCLI compares a reference value with a value decoded from fq's stdout (json.Number kept).
// What the reference's own CLI would print decides: NaN -> null, ±Inf -> ±MaxFloat64,
// invalid UTF-8 -> U+FFFD. A reference big integer must come out as an exact integer literal.
func c07EqualCLI(ref, got any) bool {
	switch r := ref.(type) {
	case nil:
		return got == nil
	case bool:
		g, ok := got.(bool)
		return ok && g == r
	case string:
		g, ok := got.(string)
		return ok && g == c07ValidUTF8(r)
	case int, *big.Int:
		g, ok := got.(json.Number)
		if !ok {
			return false
		}
		want, _ := c07ExactInt(r)
		if _, isBig := r.(*big.Int); isBig && strings.ContainsAny(g.String(), ".eE") {
			return false
		}
		rat, ok := new(big.Rat).SetString(g.String())
		return ok && rat.IsInt() && rat.Num().Cmp(want) == 0
	case float64:
		if math.IsNaN(r) {
			return got == nil
		}
		g, ok := got.(json.Number)
		if !ok {
			return false
		}
		if math.IsInf(r, 0) {
			r = math.Copysign(math.MaxFloat64, r)
		}
		f, err := strconv.ParseFloat(g.String(), 64)
		return err == nil && f == r
	case []any:
		g, ok := got.([]any)
		if !ok || len(g) != len(r) {
			return false
		}
		for i := range r {
			if !c07EqualCLI(r[i], g[i]) {
				return false
			}
		}
		return true
	case map[string]any:
		g, ok := got.(map[string]any)
		if !ok {
			return false
		}
		n := 0
		seen := map[string]bool{}
		for k, v := range r {
			vk := c07ValidUTF8(k)
			if seen[vk] {
				continue // two keys that collapse on output: last one wins in an unspecified order, not compared
			}
			seen[vk] = true
			n++
			w, ok := g[vk]
			if !ok || !c07EqualCLI(v, w) {
				return false
			}
		}
		return n == len(g)
	}
	return false
}

// c07Quote renders a Go string as a jq/JSON string literal (ASCII-safe for control characters,
// raw UTF-8 otherwise). Invalid UTF-8 never reaches here (inputs are valid).
func c07Quote(s string) string {
	var sb strings.Builder
	sb.WriteByte('"')
	for _, r := range s {
		switch {
		case r == '"':
			sb.WriteString(`\"`)
		case r == '\\':
			sb.WriteString(`\\`)
		case r == '\n':
			sb.WriteString(`\n`)
		case r == '\t':
			sb.WriteString(`\t`)
		case r == '\r':
			sb.WriteString(`\r`)
		case r < 0x20 || r == 0x7f:
			fmt.Fprintf(&sb, `\u%04x`, r)
		default:
			sb.WriteRune(r)
		}
	}
	sb.WriteByte('"')
	return sb.String()
}

func c07FloatText(f float64) string {
	if f == 0 && math.Signbit(f) {
		return "-0.0"
	}
	s := strconv.FormatFloat(f, 'g', -1, 64)
	if !strings.ContainsAny(s, ".eE") {
		s += ".0"
	}
	return s
}

// c07JSON: JSON text of an input value (also valid as a jq literal). Floats keep a '.'/'e' so that
// they are read back as floats by either engine; keys sorted for reproducibility.
func c07JSON(v any) string {
	var sb strings.Builder
	c07json(&sb, v)
	return sb.String()
}

func c07json(sb *strings.Builder, v any) {
	switch v := v.(type) {
	case nil:
		sb.WriteString("null")
	case bool:
		if v {
			sb.WriteString("true")
		} else {
			sb.WriteString("false")
		}
	case int:
		sb.WriteString(strconv.Itoa(v))
	case *big.Int:
		sb.WriteString(v.String())
	case float64:
		switch {
		case math.IsNaN(v):
			sb.WriteString("null")
		case math.IsInf(v, 1):
			sb.WriteString("1.7976931348623157e+308")
		case math.IsInf(v, -1):
			sb.WriteString("-1.7976931348623157e+308")
		default:
			sb.WriteString(c07FloatText(v))
		}
	case json.Number:
		sb.WriteString(v.String())
	case string:
		sb.WriteString(c07Quote(c07ValidUTF8(v)))
	case []any:
		sb.WriteByte('[')
		for i, e := range v {
			if i > 0 {
				sb.WriteByte(',')
			}
			c07json(sb, e)
		}
		sb.WriteByte(']')
	case map[string]any:
		keys := make([]string, 0, len(v))
		for k := range v {
			keys = append(keys, k)
		}
		sort.Strings(keys)
		sb.WriteByte('{')
		for i, k := range keys {
			if i > 0 {
				sb.WriteByte(',')
			}
			sb.WriteString(c07Quote(c07ValidUTF8(k)))
			sb.WriteByte(':')
			c07json(sb, v[k])
		}
		sb.WriteByte('}')
	default:
		fmt.Fprintf(sb, "<%T %v>", v, v)
	}
}

// c07Show: bounded human rendering for descriptions (NaN/Infinity spelled out).
func c07Show(v any) string {
	var s string
	switch f := v.(type) {
	case float64:
		switch {
		case math.IsNaN(f):
			s = "NaN"
		case math.IsInf(f, 1):
			s = "Infinity"
		case math.IsInf(f, -1):
			s = "-Infinity"
		default:
			s = c07FloatText(f) + "(float)"
		}
	case *big.Int:
		s = f.String() + "(big)"
	default:
		s = c07JSON(v)
	}
	if len(s) > 300 {
		s = s[:300] + "…"
	}
	return s
}

func c07TypeName(v any) string {
	switch v := v.(type) {
	case nil:
		return "null"
	case bool:
		return "boolean"
	case int:
		return "int"
	case *big.Int:
		return "bigint"
	case float64:
		return "float"
	case json.Number:
		if strings.ContainsAny(v.String(), ".eE") {
			return "float"
		}
		if _, err := strconv.ParseInt(v.String(), 10, 64); err != nil {
			return "bigint"
		}
		return "int"
	case string:
		return "string"
	case []any:
		return "array"
	case map[string]any:
		return "object"
	}
	return fmt.Sprintf("%T", v)
}

// c07DecodeJSON decodes JSON text keeping numbers as json.Number (what gojq's and fq's own
// readers do before gojq.NormalizeNumbers).
func c07DecodeJSON(s string) (any, error) {
	dec := json.NewDecoder(strings.NewReader(s))
	dec.UseNumber()
	var v any
	if err := dec.Decode(&v); err != nil {
		return nil, err
	}
	return v, nil
}

func c07DecodeStream(b []byte) ([]any, error) {
	dec := json.NewDecoder(strings.NewReader(string(b)))
	dec.UseNumber()
	var out []any
	for {
		var v any
		if err := dec.Decode(&v); err != nil {
			if err.Error() == "EOF" {
				return out, nil
			}
			return out, err
		}
		out = append(out, v)
	}
}

// c07Normalize: json.Number -> int / *big.Int / float64 the way gojq does (gojq.NormalizeNumbers)
func c07Normalize(v any) any { return gojq.NormalizeNumbers(v) }

func c07AllJSON(vs []any) bool {
	for _, v := range vs {
		if !c07IsJSON(v) {
			return false
		}
	}
	return true
}

func c07IsJSON(v any) bool {
	switch v := v.(type) {
	case nil, bool, int, float64, *big.Int, string:
		return true
	case []any:
		return c07AllJSON(v)
	case map[string]any:
		for _, e := range v {
			if !c07IsJSON(e) {
				return false
			}
		}
		return true
	}
	return false
}
