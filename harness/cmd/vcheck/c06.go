package main

// C06 — no input makes a decoder crash fq.
// A finite, enumerable mutation family around the sample corpus x all registered formats + probe x force,
// run in isolated worker processes. Events: a Go panic escaping decode.Decode / interp.Main, or the death
// of the worker through a Go fatal error. Returned errors and partial trees are fine; watchdog expiry and
// out-of-memory kills are inconclusive (listed per format), never verdicts.

import (
	"context"
	"fmt"
	"os"
	"sort"
	"strconv"
	"strings"
	"sync"
	"time"

	"verif/ev"
	"verif/fqx"
	"verif/gen"
	"verif/vos"
)

func init() { register("C06", c06Main) }

type c06Seeds struct {
	byFormat map[string][]corpusItem // <= 6 smallest samples per format
	pool     []corpusItem            // all seeds (deduplicated)
	formats  []string                // all registered formats + "probe"
}

var (
	c06Once sync.Once
	c06S    *c06Seeds
)

func c06SeedsGet() *c06Seeds {
	c06Once.Do(func() {
		s := &c06Seeds{byFormat: map[string][]corpusItem{}}
		for _, it := range corpus() {
			if len(it.Data) == 0 || len(it.Data) > 64*1024 {
				continue
			}
			for _, f := range it.Formats {
				s.byFormat[f] = append(s.byFormat[f], it)
			}
		}
		seen := map[string]bool{}
		for f, its := range s.byFormat {
			sort.Slice(its, func(i, j int) bool {
				if len(its[i].Data) != len(its[j].Data) {
					return len(its[i].Data) < len(its[j].Data)
				}
				return its[i].Path < its[j].Path
			})
			if len(its) > 6 {
				// the 3 smallest (often hand-made special cases) plus 3 spread over the rest <= 16 KiB (full-featured
				// samples: an mp4 with stsd/trun boxes, a flac with frames, ...)
				var rest []corpusItem
				for _, x := range its[3:] {
					if len(x.Data) <= 16*1024 {
						rest = append(rest, x)
					}
				}
				pick := its[:3:3]
				for q := 0; q < 3 && len(rest) > 0; q++ {
					pick = append(pick, rest[(len(rest)-1)*q/2])
				}
				seenP := map[string]bool{}
				var uniq []corpusItem
				for _, x := range pick {
					if !seenP[x.Path] {
						seenP[x.Path] = true
						uniq = append(uniq, x)
					}
				}
				its = uniq
			}
			s.byFormat[f] = its
			for _, it := range its {
				if !seen[it.Path] {
					seen[it.Path] = true
					s.pool = append(s.pool, it)
				}
			}
		}
		if only := os.Getenv("C06_ONLY_FORMAT"); only != "" {
			// development / seeded-change aid: restrict the seed pool to the samples of one format
			var keep []corpusItem
			for _, it := range s.pool {
				for _, f := range it.Formats {
					if f == only {
						keep = append(keep, it)
						break
					}
				}
			}
			s.pool = keep
		}
		sort.Slice(s.pool, func(i, j int) bool { return s.pool[i].Path < s.pool[j].Path })
		s.formats = append(append([]string{}, allFormats()...), "probe")
		c06S = s
	})
	return c06S
}

type c06Case struct {
	Seed   corpusItem
	Mut    mutation
	Format string
	Force  bool
	CLI    bool
}

func (c c06Case) Label() string {
	l := fmt.Sprintf("%s|%s|%s", c.Seed.Path, c.Format, c.Mut)
	if c.Force {
		l += "|force"
	}
	if c.CLI {
		l += "|cli"
	}
	return l
}

// quick: case k is drawn by the PRNG so that every format (and the probe) gets the same share.
func c06QuickCase(seed uint64, k int) c06Case {
	s := c06SeedsGet()
	rng := gen.New(seed).Fork(0xC06000000 + uint64(k))
	f := s.formats[k%len(s.formats)]
	var it corpusItem
	own := s.byFormat[f]
	if len(own) > 0 && rng.Intn(10) < 7 {
		it = own[rng.Intn(len(own))]
	} else {
		it = s.pool[rng.Intn(len(s.pool))]
	}
	fam := mutationFamily(len(it.Data))
	m := fam[rng.Intn(len(fam))]
	return c06Case{Seed: it, Mut: m, Format: f, Force: rng.Intn(4) == 0 && f != "probe", CLI: rng.Intn(200) == 0}
}

// thorough: the whole family, enumerated: every seed x every mutation x {own formats, probe} x force,
// plus every seed and truncation x all formats.
type c06Enum struct {
	starts []int // cumulative job counts per seed
	total  int
}

func c06EnumBuild() *c06Enum {
	s := c06SeedsGet()
	e := &c06Enum{}
	for _, it := range s.pool {
		e.starts = append(e.starts, e.total)
		nm := len(mutationFamily(len(it.Data)))
		nOwn := len(it.Formats) + 1  // + probe
		e.total += nm * (2*nOwn - 1) // probe has no force variant
		e.total += c06NTrunc(len(it.Data)) * len(allFormats())
	}
	return e
}

func c06NTrunc(n int) int {
	c := 1 // the unmutated seed
	for _, m := range mutationFamily(n) {
		if m.Kind == "trunc" {
			c++
		}
	}
	return c
}

func (e *c06Enum) Case(k int) c06Case {
	s := c06SeedsGet()
	i := sort.Search(len(e.starts), func(i int) bool { return e.starts[i] > k }) - 1
	it := s.pool[i]
	k -= e.starts[i]
	fam := mutationFamily(len(it.Data))
	fs := append(append([]string{}, it.Formats...), "probe")
	variants := 2*len(fs) - 1
	if k < len(fam)*variants {
		m := fam[k/variants]
		v := k % variants
		if v < len(fs) {
			return c06Case{Seed: it, Mut: m, Format: fs[v], CLI: k%997 == 0}
		}
		// (forced decoding used to be limited to every 7th mutation: caff, bplist and protobuf looped or
		// allocated without bound under force and each such case cost a worker restart; repaired in /repo)
		return c06Case{Seed: it, Mut: m, Format: fs[v-len(fs)], Force: true}
	}
	k -= len(fam) * variants
	af := allFormats()
	ti := k / len(af)
	f := af[k%len(af)]
	if ti == 0 {
		return c06Case{Seed: it, Mut: mutation{Kind: "none"}, Format: f}
	}
	ti--
	for _, m := range fam {
		if m.Kind == "trunc" {
			if ti == 0 {
				return c06Case{Seed: it, Mut: m, Format: f}
			}
			ti--
		}
	}
	return c06Case{Seed: it, Mut: mutation{Kind: "none"}, Format: f}
}

func c06Run(run *ev.Run, c c06Case) {
	data := applyMutation(c.Seed.Data, c.Mut)
	run.Eval(1)
	run.Count("cases:format:"+c.Format, 1)
	run.Count("cases:mutation:"+c.Mut.Kind, 1)
	if c.Force {
		run.Count("cases:force", 1)
	}
	if c.CLI {
		args := []string{"-d", c.Format}
		if c.Force {
			args = append(args, "-o", "force=true")
		}
		args = append(args, "dv", "input")
		o := vos.New(args...)
		o.Files["input"] = data
		var res vos.Result
		pi := guardStack(func() { res = o.RunMain(context.Background(), fqx.Registry()) })
		run.Count("cli:runs", 1)
		if pi != nil {
			run.Violation("panic:"+c.Format+":"+panicSig(pi), fmt.Sprintf("%s: fq %v panicked: %v\n%s", c.Label(), args, pi.Value, trunc(pi.Stack, 2500)), map[string]any{"case": c.Label(), "input_hex": hexHead(data)})
			return
		}
		run.Count(fmt.Sprintf("cli:exit:%d", res.Exit), 1)
		switch res.Exit {
		case 0:
		case 4:
			if len(res.Stderr) == 0 {
				run.Violation("cli:exit4-without-message", fmt.Sprintf("%s: exit 4 but nothing on stderr", c.Label()), map[string]any{"case": c.Label()})
			}
		default:
			run.Violation(fmt.Sprintf("cli:undocumented-exit:%d", res.Exit), fmt.Sprintf("%s: fq %v exited %d; stderr %s", c.Label(), args, res.Exit, trunc(string(res.Stderr), 400)), map[string]any{"case": c.Label(), "input_hex": hexHead(data)})
		}
		return
	}
	t0 := time.Now()
	res := decodeDirect(data, c.Format, c.Force)
	if d := time.Since(t0); d > 50*time.Millisecond && os.Getenv("VERIF_SLOWLOG") != "" {
		fmt.Fprintf(os.Stderr, "SLOW %v %s (%d bytes)\n", d, c.Label(), len(data))
	}
	switch {
	case res.Panic != nil:
		sig := "panic:" + c.Format + ":" + panicSig(res.Panic)
		if c.Format == "probe" {
			sig = "panic:" + panicSig(res.Panic) // the faulting decoder is in the frame, not the group
		}
		run.Violation(sig, fmt.Sprintf("%s: decode panicked: %v\n%s", c.Label(), res.Panic.Value, trunc(res.Panic.Stack, 2500)), map[string]any{"case": c.Label(), "format": c.Format, "force": c.Force, "input_hex": hexHead(data)})
	case res.V == nil:
		run.Count("outcome:error-no-tree", 1)
	case res.Err != nil:
		run.Count("outcome:partial-tree", 1)
		run.Distinct("partial|" + c.Format + "|" + c.Mut.Kind + "|" + c.Seed.Path)
	default:
		run.Count("outcome:tree", 1)
		if c.Mut.Kind != "none" {
			run.Distinct("tree|" + c.Format + "|" + c.Mut.Kind + "|" + c.Seed.Path)
		}
	}
}

func hexHead(b []byte) string {
	if len(b) > 4096 {
		return fmt.Sprintf("%x…(%d bytes)", b[:4096], len(b))
	}
	return fmt.Sprintf("%x", b)
}

func c06Main(args []string) {
	run := ev.NewRun("C06")
	run.Rule = "mutation family (every truncation <768 then every 61st + last 64; every bit flip in the first 192 bytes; byte overwrite {00,7f,80,ff} at every offset <384, then ff at every offset and {00,7f,80} every 31st; 1/2/4/8-byte length saturation patterns in the first 256 bytes; block dup/remove of 1/4/16/64 bytes every 16) around <=6 corpus samples per format (3 smallest + 3 spread up to 16 KiB), x all registered formats + probe x force; quick = PRNG slice of 250000 with an equal share per format (1/4 forced), thorough = every third case of the enumerated family, residue = VERIF_SEED mod 3 (every mutation also forced); both tiers add the field-start cases: the first byte of every leaf field of every own sample set to ff / 00, decoded under the sample's own format. Event = Go panic escaping decode.Decode / interp.Main or worker death by a Go fatal error. non-trivial = mutated input that still produced a (partial) tree; distinct = (outcome, format, mutation kind, seed)"
	run.Assumptions = []string{
		"out-of-memory kills and watchdog expiry (decoder loops / length-field bombs under force) are inconclusive, listed per format, never a verdict",
		"a panic is identified by (format, top-most fq frame, panic class)",
	}
	var n int
	var get func(k int) c06Case
	if run.Thorough() {
		// the whole family is ~19 million cases (~2 h on 16 idle cores): one run enumerates every third case,
		// the residue chosen by VERIF_SEED, so that seeds 0,1,2 (or 1,2,3) together cover all of it
		e := c06EnumBuild()
		phase := int(run.Seed % 3)
		n = (e.total - phase + 2) / 3
		get = func(k int) c06Case { return e.Case(k*3 + phase) }
		run.Count("family:cases-in-whole-family", int64(e.total))
	} else {
		n = 250000
		get = func(k int) c06Case { return c06QuickCase(run.Seed, k) }
	}
	{
		// part b: field-start cases, all of them, in both tiers (see c06FieldCasesGet)
		fc := c06FieldCasesGet()
		base, inner := n, get
		n += len(fc)
		get = func(k int) c06Case {
			if k < base {
				return inner(k)
			}
			return fc[k-base]
		}
		run.Count("family:field-start-cases", int64(len(fc)))
	}
	if os.Getenv("C06_SCAN_FORCE") != "" {
		// development aid: a forced-decoding-only slice (to list the formats that loop / allocate under force)
		n, _ = strconv.Atoi(os.Getenv("C06_SCAN_FORCE"))
		get = func(k int) c06Case {
			c := c06QuickCase(run.Seed, k)
			c.Force = c.Format != "probe"
			return c
		}
	}
	run.Count("family:cases", int64(n))
	// A decoder that dies the same way on hundreds of cases (runaway recursion: each death costs ~10 s and a
	// worker restart) has made its point after three: later worker generations skip the remaining cases of that
	// (format, forced?, sample) class, counted as skipped. The verdict is already a violation by then.
	var fatalMu sync.Mutex
	fatalCount := map[string]int{}
	inconclCount := map[string]int{}
	skipEnv := func() []string {
		fatalMu.Lock()
		defer fatalMu.Unlock()
		var sk []string
		for cls, c := range fatalCount {
			if c >= 3 {
				sk = append(sk, cls)
			}
		}
		sort.Strings(sk)
		return []string{"VERIF_C06_SKIP=," + strings.Join(sk, ",") + ","}
	}
	skipList := os.Getenv("VERIF_C06_SKIP")
	classOf := func(c c06Case) string { return fmt.Sprintf("%s|force=%v|%s", c.Format, c.Force, c.Seed.Path) }
	isoRun(run, isoSpec{
		NJobs:       n,
		WatchdogSec: 10,
		MaxRSS:      1 << 30,
		ExtraEnv:    skipEnv,
		Do: func(run *ev.Run, k int) {
			c := get(k)
			if skipList != "" && strings.Contains(skipList, ","+classOf(c)+",") {
				run.Count("cases:skipped-after-repeated-deaths (3 fatal or 40 inconclusive):"+classOf(c), 1)
				return
			}
			c06Run(run, c)
		},
		OnDeath: func(run *ev.Run, k int, kind string, tail string) {
			c := get(k)
			fatalMu.Lock()
			if kind != "oom" && kind != "watchdog" && kind != "killed" {
				fatalCount[classOf(c)]++
			} else {
				// inconclusive deaths cost 10 s each too: after 40 of one class the rest of it is skipped as well
				inconclCount[classOf(c)]++
				if inconclCount[classOf(c)] >= 40 && fatalCount[classOf(c)] < 3 {
					fatalCount[classOf(c)] = 3
				}
			}
			fatalMu.Unlock()
			switch {
			case kind == "oom" || kind == "watchdog" || kind == "killed":
				run.Inconclusive(kind + ":" + c.Format)
				run.Count("inconclusive-case:"+kind+":"+c.Label(), 1)
			default:
				k2 := kind
				if i := strings.IndexByte(k2, ':'); i > 0 && len(k2) > i+40 {
					k2 = k2[:i+40]
				}
				run.Violation("fatal:"+c.Format+":"+k2, fmt.Sprintf("%s: the process died: %s\n%s", c.Label(), kind, tail), map[string]any{"case": c.Label(), "input_hex": hexHead(applyMutation(c.Seed.Data, c.Mut))})
			}
		},
	})
	c0 := get(0)
	run.Sample(map[string]any{"case0": c0.Label(), "seeds": len(c06SeedsGet().pool), "formats": len(c06SeedsGet().formats)})
	run.Finish()
}

// ---- field-start cases (quick tier, part b) ----
// Three independent authors of seeded changes picked the same kind of needle: one byte that starts a field (the
// length prefix inside a fixed-size string) set to a large value. The PRNG slice reaches a given (sample, offset,
// value) with probability ~10^-7 per case. Field-start cases go where decoders take decisions: every own sample of
// every format is decoded once, the byte at the start of every leaf field (in the top-level buffer, byte-aligned
// starts, de-duplicated) is overwritten with ff and with 00, and each result is decoded under the sample's own format,
// plain and forced.
var (
	c06FieldOnce  sync.Once
	c06FieldCases []c06Case
)

func c06FieldCasesGet() []c06Case {
	c06FieldOnce.Do(func() {
		s := c06SeedsGet()
		var fs []string
		for f := range s.byFormat {
			fs = append(fs, f)
		}
		sort.Strings(fs)
		for _, f := range fs {
			for _, it := range s.byFormat[f] {
				if len(it.Data) > 16*1024 || strings.HasSuffix(it.Path, "bigzero-zip.zip") { // (a decompression bomb by design: 30 s per decode)
					continue
				}
				t0 := time.Now()
				res := decodeDirect(it.Data, f, false)
				if os.Getenv("C06_FIELDS_TIMING") != "" && time.Since(t0) > 200*time.Millisecond {
					fmt.Fprintf(os.Stderr, "slow seed decode %v %s %s\n", time.Since(t0), it.Path, f)
				}
				if res.V == nil || res.Panic != nil {
					continue
				}
				seen := map[int64]bool{}
				n := 0
				for _, lf := range leavesOf(res.V) {
					if lf.Range.Start%8 != 0 || lf.Range.Len <= 0 || seen[lf.Range.Start] || isSynthetic(lf) {
						continue
					}
					seen[lf.Range.Start] = true
					off := int(lf.Range.Start / 8)
					if off >= len(it.Data) {
						continue
					}
					n++
					for _, b := range []int{0xff, 0x00} {
						c06FieldCases = append(c06FieldCases, c06Case{Seed: it, Mut: mutation{Kind: "byte", A: off, B: b}, Format: f})
						c06FieldCases = append(c06FieldCases, c06Case{Seed: it, Mut: mutation{Kind: "byte", A: off, B: b}, Format: f, Force: true})
					}
				}
			}
		}
	})
	return c06FieldCases
}
