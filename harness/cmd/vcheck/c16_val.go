package main

// C16 value model: the JSON-like source values, their generator, their expected representation
// after fq's torepr/tovalue, and the exact comparator.

import (
	"fmt"
	"math"
	"math/big"
	"sort"
	"strconv"
	"strings"
	"unicode/utf8"

	"verif/gen"
)

type c16Kind uint8

const (
	c16KNull c16Kind = iota
	c16KBool
	c16KInt
	c16KFloat
	c16KStr
	c16KBytes
	c16KArr
	c16KMap
	c16KExt // msgpack extension (type, data); torepr shows the data bytes as a string
	c16KOID // asn1 object identifier; torepr shows the arcs as an array of numbers
)

var c16KindNames = []string{"null", "bool", "int", "float", "str", "bytes", "arr", "map", "ext", "oid"}

type c16V struct {
	K    c16Kind
	B    bool
	I    *big.Int
	F    float64
	S    string
	By   []byte
	Ext  int8
	OID  []uint64
	A    []*c16V  // array elements or map values
	Keys []string // map keys (duplicate free), same order as A
}

// c16Dom is the value domain of one format (what the format can express at all).
type c16Dom struct {
	null, boolean, float, nanInf, str, bytes, arr, maps, ext, oid bool
	intMin, intMax                                                *big.Int
	keyNoNUL                                                      bool
	top                                                           int // 0 any, 1 array or map, 2 non-empty map, 3 non-empty array, 4 map
	noNULStr                                                      bool
}

func c16Big(s string) *big.Int {
	b, ok := new(big.Int).SetString(s, 10)
	if !ok {
		panic(s)
	}
	return b
}

var (
	c16MinInt64  = c16Big("-9223372036854775808")
	c16MaxInt64  = c16Big("9223372036854775807")
	c16MaxUint64 = c16Big("18446744073709551615")
	c16MinCBOR   = c16Big("-18446744073709551616")
)

// ---- expected representation ----

// repr is the gojq-style value torepr/tovalue is expected to give. The representation map is the
// same for all binary formats (read from format/*/*.jq): byte strings and msgpack ext data appear as
// strings (`.value | tostring` / `tovalue` on raw bits), OIDs as arrays of numbers, everything else is
// the JSON value itself. Strings made from bytes are compared after mapping every invalid UTF-8 byte to
// U+FFFD on both sides (jq strings cannot hold them): that part of the representation is lossy.
func (v *c16V) repr() any {
	switch v.K {
	case c16KNull:
		return nil
	case c16KBool:
		return v.B
	case c16KInt:
		if v.I.IsInt64() {
			return int(v.I.Int64())
		}
		return new(big.Int).Set(v.I)
	case c16KFloat:
		return v.F
	case c16KStr:
		return v.S
	case c16KBytes, c16KExt:
		return string(v.By)
	case c16KOID:
		a := make([]any, len(v.OID))
		for i, x := range v.OID {
			if x <= math.MaxInt64 {
				a[i] = int(x)
			} else {
				a[i] = new(big.Int).SetUint64(x)
			}
		}
		return a
	case c16KArr:
		a := make([]any, len(v.A))
		for i, x := range v.A {
			a[i] = x.repr()
		}
		return a
	case c16KMap:
		m := make(map[string]any, len(v.A))
		for i, x := range v.A {
			m[v.Keys[i]] = x.repr()
		}
		return m
	}
	panic("kind")
}

// shape is the structural skeleton (kinds only), cut at depth 4, for the distinct key.
func (v *c16V) shape(depth int) string {
	switch v.K {
	case c16KArr, c16KMap:
		if depth <= 0 {
			return c16KindNames[v.K] + "…"
		}
		var sb strings.Builder
		sb.WriteString(c16KindNames[v.K])
		sb.WriteByte('(')
		for i, x := range v.A {
			if i >= 8 {
				sb.WriteString("…")
				break
			}
			if i > 0 {
				sb.WriteByte(',')
			}
			sb.WriteString(x.shape(depth - 1))
		}
		sb.WriteByte(')')
		return sb.String()
	}
	return c16KindNames[v.K]
}

func (v *c16V) depth() int {
	d := 0
	for _, x := range v.A {
		if xd := x.depth() + 1; xd > d {
			d = xd
		}
	}
	return d
}

// valueClass names the special classes that get their own signature component.
func (v *c16V) valueClass() string {
	switch v.K {
	case c16KInt:
		if v.I.Cmp(c16MaxInt64) > 0 {
			return "above-int64"
		}
		if v.I.Cmp(c16MinInt64) < 0 {
			return "below-int64"
		}
	case c16KFloat:
		switch {
		case math.IsNaN(v.F):
			return "nan"
		case v.F == 0 && math.Signbit(v.F):
			return "negzero"
		case v.F != 0 && math.Abs(v.F) < 1e-300:
			return "tiny"
		case !math.IsInf(v.F, 0) && math.Abs(v.F) > 1e300:
			return "huge"
		}
	case c16KStr:
		var cls []string
		if strings.IndexByte(v.S, 0) >= 0 {
			cls = append(cls, "nul")
		}
		switch {
		case strings.HasPrefix(v.S, "\ufeff"):
			cls = append(cls, "leading-bom")
		case strings.Contains(v.S, "\ufeff"):
			cls = append(cls, "contains-bom") // matters when a segment / chunk boundary falls right before it
		case v.S == "":
			cls = append(cls, "empty")
		}
		return strings.Join(cls, "+")
	case c16KBytes:
		switch {
		case len(v.By) == 0:
			return "empty"
		case strings.HasPrefix(string(v.By), "\ufeff"):
			return "leading-bom"
		}
	case c16KArr, c16KMap:
		if len(v.A) == 0 {
			return "empty"
		}
		for _, k := range v.Keys {
			if strings.HasPrefix(k, "\ufeff") {
				return "key-leading-bom"
			}
		}
	case c16KOID:
		if len(v.OID) >= 2 && v.OID[0] == 2 && v.OID[1] >= 40 {
			return "joint-arc-ge-40"
		}
	}
	return ""
}

// child returns the i-th child and its path component (the index: keys may contain any character).
func (v *c16V) child(i int) (*c16V, string) { return v.A[i], strconv.Itoa(i) }

// at follows an index path like "/0/2".
func (v *c16V) at(path string) *c16V {
	cur := v
	for _, c := range strings.Split(path, "/") {
		if c == "" {
			continue
		}
		i, err := strconv.Atoi(c)
		if err != nil || i < 0 || i >= len(cur.A) {
			return cur
		}
		cur = cur.A[i]
	}
	return cur
}

// c16DiffV compares the source value with what fq returned; the path of the first difference is an index path.
func c16DiffV(v *c16V, got any, strictZero bool, path string) (string, string, bool) {
	switch v.K {
	case c16KArr:
		g, ok := got.([]any)
		if !ok {
			return path, fmt.Sprintf("at %q: want an array of %d, got %s", path, len(v.A), c16Show(got)), false
		}
		for i, c := range v.A {
			if i >= len(g) {
				return path, fmt.Sprintf("at %q: array has %d elements, want %d", path, len(g), len(v.A)), false
			}
			if p, d, ok := c16DiffV(c, g[i], strictZero, path+"/"+strconv.Itoa(i)); !ok {
				return p, d, false
			}
		}
		if len(g) != len(v.A) {
			return path, fmt.Sprintf("at %q: array has %d elements, want %d", path, len(g), len(v.A)), false
		}
		return "", "", true
	case c16KMap:
		g, ok := got.(map[string]any)
		if !ok {
			return path, fmt.Sprintf("at %q: want an object of %d keys, got %s", path, len(v.A), c16Show(got)), false
		}
		gn := make(map[string]any, len(g))
		for k, x := range g {
			gn[c16NormStr(k)] = x
		}
		for i, c := range v.A {
			gv, ok := gn[c16NormStr(v.Keys[i])]
			if !ok {
				return path, fmt.Sprintf("at %q: key %q missing (got %d keys, want %d)", path, v.Keys[i], len(g), len(v.A)), false
			}
			if p, d, ok := c16DiffV(c, gv, strictZero, path+"/"+strconv.Itoa(i)); !ok {
				return p, d, false
			}
		}
		if len(gn) != len(v.A) {
			return path, fmt.Sprintf("at %q: object has %d keys, want %d", path, len(gn), len(v.A)), false
		}
		return "", "", true
	}
	return c16Diff(v.repr(), got, strictZero, path)
}

// ---- comparator ----

// c16NormStr: the string representation of bytes that are not valid UTF-8 is lossy and decoder specific (Go's
// conversion gives one U+FFFD per byte, x/text's UTF-8 decoder one per maximal invalid subpart): every run of
// invalid bytes / replacement characters is compared as a single U+FFFD. (Oracle correction: the first version
// compared per byte and flagged bencode/asn1 strings that fq had decoded correctly.)
func c16NormStr(s string) string {
	if utf8.ValidString(s) && !strings.Contains(s, "\ufffd") {
		return s
	}
	var sb strings.Builder
	prev := false
	for _, r := range s {
		if r == utf8.RuneError {
			if !prev {
				sb.WriteRune(r)
			}
			prev = true
			continue
		}
		prev = false
		sb.WriteRune(r)
	}
	return sb.String()
}

func c16IsNum(v any) bool {
	switch v.(type) {
	case int, float64, *big.Int:
		return true
	}
	return false
}

// c16NumEq is exact mathematical equality (NaN equals NaN). strictZero additionally wants the sign of a
// floating point zero to survive (binary IEEE formats).
func c16NumEq(exp, got any, strictZero bool) bool {
	ef, eIsF := exp.(float64)
	gf, gIsF := got.(float64)
	if eIsF && gIsF {
		if math.IsNaN(ef) || math.IsNaN(gf) {
			return math.IsNaN(ef) && math.IsNaN(gf)
		}
		if ef == 0 && gf == 0 && strictZero {
			return math.Signbit(ef) == math.Signbit(gf)
		}
		return ef == gf
	}
	toBig := func(v any) (*big.Int, bool) {
		switch x := v.(type) {
		case int:
			return big.NewInt(int64(x)), true
		case *big.Int:
			return x, true
		case float64:
			if math.IsNaN(x) || math.IsInf(x, 0) || x != math.Trunc(x) {
				return nil, false
			}
			bi, _ := new(big.Float).SetFloat64(x).Int(nil)
			return bi, true
		}
		return nil, false
	}
	if eIsF && ef == 0 && math.Signbit(ef) && strictZero {
		return false // expected -0.0, got an integer zero
	}
	eb, ok1 := toBig(exp)
	gb, ok2 := toBig(got)
	if !ok1 || !ok2 {
		return false
	}
	return eb.Cmp(gb) == 0
}

// c16Diff returns the path (list of child indexes into the expected value) of the first difference.
func c16Diff(exp, got any, strictZero bool, path string) (string, string, bool) {
	bad := func(what string) (string, string, bool) {
		return path, fmt.Sprintf("at %q: %s: want %s got %s", path, what, c16Show(exp), c16Show(got)), false
	}
	switch e := exp.(type) {
	case nil:
		if got != nil {
			return bad("not null")
		}
	case bool:
		if g, ok := got.(bool); !ok || g != e {
			return bad("bool")
		}
	case int, float64, *big.Int:
		if !c16IsNum(got) || !c16NumEq(exp, got, strictZero) {
			return bad("number")
		}
	case string:
		g, ok := got.(string)
		if !ok || c16NormStr(g) != c16NormStr(e) {
			return bad("string")
		}
	case []any:
		g, ok := got.([]any)
		if !ok {
			return bad("not an array")
		}
		for i := range e {
			if i >= len(g) {
				return path + "/" + fmt.Sprint(i), fmt.Sprintf("at %q: array has %d elements, want %d", path, len(g), len(e)), false
			}
			if p, d, ok := c16Diff(e[i], g[i], strictZero, path+"/"+fmt.Sprint(i)); !ok {
				return p, d, false
			}
		}
		if len(g) != len(e) {
			return path, fmt.Sprintf("at %q: array has %d elements, want %d", path, len(g), len(e)), false
		}
	case map[string]any:
		g, ok := got.(map[string]any)
		if !ok {
			return bad("not an object")
		}
		gn := make(map[string]any, len(g))
		for k, v := range g {
			gn[c16NormStr(k)] = v
		}
		keys := make([]string, 0, len(e))
		for k := range e {
			keys = append(keys, k)
		}
		sort.Strings(keys)
		for _, k := range keys {
			gv, ok := gn[c16NormStr(k)]
			if !ok {
				return path + "/" + k, fmt.Sprintf("at %q: key %q missing (got %d keys, want %d)", path, k, len(g), len(e)), false
			}
			if p, d, ok := c16Diff(e[k], gv, strictZero, path+"/"+k); !ok {
				return p, d, false
			}
		}
		if len(gn) != len(e) {
			return path, fmt.Sprintf("at %q: object has %d keys, want %d", path, len(gn), len(e)), false
		}
	default:
		panic(fmt.Sprintf("c16Diff: unexpected expected type %T", exp))
	}
	return "", "", true
}

func c16Show(v any) string {
	var sb strings.Builder
	c16ShowTo(&sb, v, 0)
	s := sb.String()
	if len(s) > 300 {
		s = s[:300] + "…"
	}
	return s
}

func c16ShowTo(sb *strings.Builder, v any, depth int) {
	if sb.Len() > 400 {
		return
	}
	switch x := v.(type) {
	case nil:
		sb.WriteString("null")
	case bool:
		fmt.Fprint(sb, x)
	case int:
		fmt.Fprint(sb, x)
	case *big.Int:
		sb.WriteString(x.String())
	case float64:
		if x == 0 && math.Signbit(x) {
			sb.WriteString("-0.0")
		} else {
			fmt.Fprintf(sb, "%v(f)", x)
		}
	case string:
		if len(x) > 80 {
			fmt.Fprintf(sb, "%q…(%d bytes)", x[:80], len(x))
		} else {
			fmt.Fprintf(sb, "%q", x)
		}
	case []any:
		sb.WriteByte('[')
		for i, e := range x {
			if i > 0 {
				sb.WriteByte(',')
			}
			if i > 40 {
				fmt.Fprintf(sb, "…(%d)", len(x))
				break
			}
			c16ShowTo(sb, e, depth+1)
		}
		sb.WriteByte(']')
	case map[string]any:
		keys := make([]string, 0, len(x))
		for k := range x {
			keys = append(keys, k)
		}
		sort.Strings(keys)
		sb.WriteByte('{')
		for i, k := range keys {
			if i > 0 {
				sb.WriteByte(',')
			}
			if i > 40 {
				fmt.Fprintf(sb, "…(%d)", len(x))
				break
			}
			fmt.Fprintf(sb, "%q:", k)
			c16ShowTo(sb, x[k], depth+1)
		}
		sb.WriteByte('}')
	default:
		fmt.Fprintf(sb, "<%T %v>", v, v)
	}
}

// ---- generator ----

var c16IntEdges = []string{
	"0", "1", "-1", "2", "7", "10", "23", "24", "25", "-24", "-25", "-26", "31", "32", "-31", "-32", "-33",
	"100", "127", "128", "129", "-127", "-128", "-129", "255", "256", "-255", "-256", "-257",
	"32767", "32768", "-32768", "-32769", "65535", "65536", "-65535", "-65536", "-65537",
	"8388607", "8388608", "-8388608", "-8388609", "16777215", "16777216",
	"2147483647", "2147483648", "-2147483648", "-2147483649", "4294967295", "4294967296", "-4294967296", "-4294967297",
	"1099511627775", "1099511627776", "281474976710655", "-140737488355329",
	"9007199254740991", "9007199254740992", "9007199254740993", "-9007199254740993",
	"72057594037927935", "72057594037927936", "-36028797018963969",
	"9223372036854775807", "9223372036854775808", "-9223372036854775808", "-9223372036854775809",
	"18446744073709551615", "-18446744073709551615", "-18446744073709551616",
	"18446744073709551616", "-18446744073709551617", "1208925819614629174706175", "-604462909807314587353088",
}

var c16FloatEdges = []float64{
	0, math.Copysign(0, -1), 0.5, -0.5, 1, -1, 1.5, 2, 100, -1000, 0.1, 1.0 / 3, math.Pi, 1e21, 1e-7, 123456789.125,
	65504, -65504, 65505, 65520, 5.960464477539063e-08, -5.960464477539063e-08, 6.103515625e-05, 6.097555160522461e-05, 2.9802322387695312e-08,
	0.333251953125, 1.0009765625, 2048, 2049,
	math.MaxFloat32, -math.MaxFloat32, math.SmallestNonzeroFloat32, -math.SmallestNonzeroFloat32, 1.1754943508222875e-38, 1.1754942106924411e-38,
	16777216, 16777217, 3.4028235677973366e+38,
	math.MaxFloat64, -math.MaxFloat64, math.SmallestNonzeroFloat64, -math.SmallestNonzeroFloat64, 2.2250738585072014e-308, 2.225073858507201e-308,
	1e308, -1e308, 9007199254740992, 9007199254740993, 1.7976931348623157e308, 4.9406564584124654e-324,
}

var c16StrEdges = []string{
	"", "a", "abc", "A b", "ä", "日本語", "😀", "é", "a\x00b", "\x00", "\"q\"", "back\\slash", "line\nbreak", "cr\rlf\r\n", "tab\t",
	"null", "true", "false", "1", "-1", "1.5", "1e3", "-", "~", "a,b", "a.b", "a b", "$x", "_u", "0x10", "0o7", "yes", "no", "on", "off", "y", "n",
	" lead", "trail ", "<tag>&amp;", "]]>", "'single'", "#hash", "key: value", "- dash", "[x]", "{x}", "a=b", "\u00a0nbsp", "\ufeffbom", "\u2028ls", "\x7f", "\x01\x1f",
	"\U0010ffff", "\ufffd", "\ud7ff", "İı", "ǅ", "1_000", "+1", ".5", "1.", "inf", "nan", ".inf", ".NaN", "2001-01-01", "12:30:45", "12 34", "007", "<<", "=", "?", "|", ">", "%", "@", "`", "!tag", "&a", "*a",
}

func c16GenInt(r *gen.Rand, d *c16Dom) *big.Int {
	for tries := 0; ; tries++ {
		var x *big.Int
		switch r.Intn(10) {
		case 0, 1, 2, 3:
			x = c16Big(gen.Pick(r, c16IntEdges))
		case 4:
			x = big.NewInt(int64(r.Intn(300) - 150))
		default:
			bits := uint(r.Intn(66))
			x = new(big.Int).SetUint64(r.U64())
			if bits < 64 {
				x.And(x, new(big.Int).Sub(new(big.Int).Lsh(big.NewInt(1), bits), big.NewInt(1)))
			} else if bits == 65 {
				x.Lsh(x, uint(r.Intn(20)))
			}
			if r.Bool() {
				x.Neg(x)
			}
		}
		if x.Cmp(d.intMin) >= 0 && x.Cmp(d.intMax) <= 0 {
			return x
		}
		if tries > 50 {
			return big.NewInt(int64(r.Intn(100)))
		}
	}
}

func c16GenFloat(r *gen.Rand, d *c16Dom) float64 {
	for {
		var f float64
		switch r.Intn(12) {
		case 0, 1, 2, 3:
			f = gen.Pick(r, c16FloatEdges)
		case 4:
			if d.nanInf {
				f = gen.Pick(r, []float64{math.Inf(1), math.Inf(-1), math.NaN()})
			} else {
				f = 0.25
			}
		case 5, 6:
			f = float64(math.Float32frombits(uint32(r.U64())))
		case 7:
			f = c16HalfToFloat(uint16(r.U64()))
		case 8:
			f = float64(int64(r.U64())>>uint(r.Intn(64))) / float64(int64(1)<<uint(r.Intn(20)))
		default:
			f = math.Float64frombits(r.U64())
		}
		if !d.nanInf && (math.IsNaN(f) || math.IsInf(f, 0)) {
			continue
		}
		return f
	}
}

// c16HalfToFloat is IEEE 754 binary16 -> float64, written from the format definition.
func c16HalfToFloat(h uint16) float64 {
	sign := 1.0
	if h&0x8000 != 0 {
		sign = -1
	}
	exp := int(h>>10) & 0x1f
	frac := float64(h & 0x3ff)
	switch exp {
	case 0:
		return sign * math.Ldexp(frac, -24)
	case 31:
		if frac == 0 {
			return math.Inf(int(sign))
		}
		return math.NaN()
	}
	return sign * math.Ldexp(1+frac/1024, exp-15)
}

// c16HalfBits returns the binary16 encoding of f when f is exactly representable.
func c16HalfBits(f float64) (uint16, bool) {
	if math.IsNaN(f) {
		return 0x7e00, true
	}
	var sign uint16
	if math.Signbit(f) {
		sign = 0x8000
		f = -f
	}
	if math.IsInf(f, 0) {
		return sign | 0x7c00, true
	}
	if f == 0 {
		return sign, true
	}
	if f < math.Ldexp(1, -14) {
		k := math.Ldexp(f, 24)
		if k != math.Trunc(k) || k < 1 || k > 1023 {
			return 0, false
		}
		return sign | uint16(k), true
	}
	m, e := math.Frexp(f) // f = m * 2^e, m in [0.5,1)
	E := e - 1
	if E > 15 {
		return 0, false
	}
	frac := (m*2 - 1) * 1024
	if frac != math.Trunc(frac) {
		return 0, false
	}
	return sign | uint16(E+15)<<10 | uint16(frac), true
}

func c16GenStrLen(r *gen.Rand, big bool) int {
	switch k := r.Intn(100); {
	case k < 70:
		return r.Intn(12)
	case k < 88:
		return 20 + r.Intn(16) // crosses 23/24 (cbor) and 31/32 (msgpack fixstr)
	case k < 96:
		return 250 + r.Intn(12) // crosses 255/256
	case k < 99 || !big:
		return 120 + r.Intn(20) // crosses 127/128 (BER short/long length)
	default:
		return 65530 + r.Intn(12) // crosses 65535/65536
	}
}

func c16GenStr(r *gen.Rand, d *c16Dom, big bool) string {
	var s string
	switch r.Intn(4) {
	case 0:
		s = gen.Pick(r, c16StrEdges)
	case 1:
		s = r.String(false)
	default:
		n := c16GenStrLen(r, big)
		var sb strings.Builder
		for sb.Len() < n {
			switch k := r.Intn(20); {
			case k < 12:
				sb.WriteByte(byte(0x20 + r.Intn(0x5f)))
			case k < 14:
				sb.WriteRune(rune(0xa0 + r.Intn(0x500)))
			case k < 16:
				sb.WriteRune(rune(0x4e00 + r.Intn(0x1000)))
			case k < 17:
				sb.WriteRune(rune(0x1f600 + r.Intn(0x40)))
			case k < 18:
				sb.WriteRune(rune(r.Intn(0x20)))
			default:
				sb.WriteString(gen.Pick(r, c16StrEdges))
			}
		}
		s = sb.String()
	}
	if d.noNULStr {
		s = strings.ReplaceAll(s, "\x00", "0")
	}
	return s
}

func c16GenBytes(r *gen.Rand, d *c16Dom, big bool) []byte {
	switch r.Intn(3) {
	case 0:
		return []byte(c16GenStr(r, &c16Dom{}, big)) // valid UTF-8: the string representation is exact
	case 1:
		return r.Bytes(r.Intn(10))
	}
	return r.Bytes(c16GenStrLen(r, big))
}

func c16GenWidth(r *gen.Rand, depth int) int {
	switch k := r.Intn(100); {
	case k < 10:
		return 0
	case k < 80:
		return 1 + r.Intn(5)
	case k < 91:
		return 6 + r.Intn(6)
	case k < 95:
		return 14 + r.Intn(5) // crosses 15/16 (msgpack fix containers)
	case k < 97:
		return 22 + r.Intn(5) // crosses 23/24 (cbor immediate lengths)
	default:
		return 30 + r.Intn(5) // crosses 31/32
	}
}

// c16Gen generates one value of the domain. depth is the remaining nesting budget.
func c16Gen(r *gen.Rand, d *c16Dom, depth int, top bool) *c16V {
	kinds := make([]c16Kind, 0, 16)
	add := func(ok bool, k c16Kind, w int) {
		if ok {
			for i := 0; i < w; i++ {
				kinds = append(kinds, k)
			}
		}
	}
	switch {
	case top && (d.top == 2 || d.top == 4):
		add(true, c16KMap, 1)
	case top && d.top == 3:
		add(true, c16KArr, 1)
	case top && d.top == 1:
		add(d.arr, c16KArr, 1)
		add(d.maps, c16KMap, 1)
	default:
		add(d.null, c16KNull, 1)
		add(d.boolean, c16KBool, 1)
		add(true, c16KInt, 4)
		add(d.float, c16KFloat, 3)
		add(d.str, c16KStr, 3)
		add(d.bytes, c16KBytes, 2)
		add(d.ext, c16KExt, 1)
		add(d.oid, c16KOID, 1)
		if depth > 0 {
			w := 3
			if top {
				w = 8
			}
			add(d.arr, c16KArr, w)
			add(d.maps, c16KMap, w)
		}
	}
	k := gen.Pick(r, kinds)
	v := &c16V{K: k}
	switch k {
	case c16KBool:
		v.B = r.Bool()
	case c16KInt:
		v.I = c16GenInt(r, d)
	case c16KFloat:
		v.F = c16GenFloat(r, d)
	case c16KStr:
		v.S = c16GenStr(r, d, top || depth >= 3)
	case c16KBytes:
		v.By = c16GenBytes(r, d, top || depth >= 3)
	case c16KExt:
		v.Ext = int8(r.U64())
		n := gen.Pick(r, []int{0, 1, 2, 3, 4, 5, 8, 12, 16, 17, 255, 256, 300})
		if top && r.Intn(20) == 0 {
			n = 65536 + r.Intn(4)
		}
		v.By = r.Bytes(n)
	case c16KOID:
		n := 2 + r.Intn(6)
		v.OID = make([]uint64, n)
		v.OID[0] = uint64(r.Intn(3))
		if v.OID[0] < 2 || r.Intn(3) > 0 {
			v.OID[1] = uint64(r.Intn(40))
		} else {
			v.OID[1] = uint64(gen.Pick(r, []int{40, 47, 48, 100, 999, 175, 176, 16303}))
		}
		for i := 2; i < n; i++ {
			v.OID[i] = r.U64() >> uint(2+r.Intn(62))
			if r.Intn(3) == 0 {
				v.OID[i] = uint64(gen.Pick(r, []int{0, 1, 127, 128, 16383, 16384, 840, 113549}))
			}
		}
	case c16KArr, c16KMap:
		n := c16GenWidth(r, depth)
		if top && (d.top == 2 || d.top == 3) && n == 0 {
			n = 1
		}
		cd, cdom := depth-1, d
		if n > 12 {
			// wide containers hold numbers, booleans and nulls only
			cd = 0
			nd := *d
			nd.str, nd.bytes, nd.ext, nd.oid = false, false, false, false
			cdom = &nd
		}
		seen := map[string]bool{}
		for i := 0; i < n; i++ {
			if k == c16KMap {
				var key string
				for tries := 0; ; tries++ {
					key = c16GenStr(r, d, false)
					if len(key) > 40 {
						key = strings.ToValidUTF8(key[:40], "")
					}
					if d.keyNoNUL {
						key = strings.ReplaceAll(key, "\x00", "0")
					}
					if tries > 20 {
						key = fmt.Sprintf("k%d_%d", i, r.Intn(1000000))
					}
					if !seen[key] {
						break
					}
				}
				seen[key] = true
				v.Keys = append(v.Keys, key)
			}
			v.A = append(v.A, c16Gen(r, cdom, cd, false))
		}
	}
	return v
}
