package main

// C18 — decoding is deterministic, isolated and race-free.
// Jobs = (input, CLI arguments) run through interp.Main with a private virtual OS each, all sharing the
// process-wide DefaultRegistry. A golden process runs every job once; other processes run them in other
// orders/histories (PRNG permutations with repeats, option set -> unset, failing decode between good ones)
// and concurrently on G goroutines with a start barrier (first use of the registry / lazily initialised
// tables races for real; repeated in fresh processes since first-use state is per process). Every output
// must be byte-identical to the golden; the race detector (binary built with -race) must stay silent.

import (
	"context"
	"crypto/sha256"
	"encoding/hex"
	"encoding/json"
	"fmt"
	"os"
	"os/exec"
	"path/filepath"
	"runtime"
	"sort"
	"strings"
	"sync"
	"sync/atomic"

	"github.com/wader/fq/pkg/bitio"
	"github.com/wader/fq/pkg/decode"
	"github.com/wader/fq/pkg/scalar"

	"verif/ev"
	"verif/fqx"
	"verif/gen"
	"verif/vos"
)

func init() { register("C18", c18Main) }

type c18Job struct {
	Name string
	Args []string
	Data []byte
	// PairOf: this job evaluates `A, B` in ONE evaluation; jobs[PairOf[0]] and jobs[PairOf[1]] evaluate A and B
	// alone. Isolation: stdout(pair) must be stdout(A) followed by stdout(B).
	PairOf [2]int
	IsPair bool
	// Good: a plain decode of a sample under its own format (the cold-start rounds use these);
	// Trunc: the same sample cut at 60% (a decode that fails inside nested values: the burst histories repeat these)
	Good  bool
	Trunc bool
}

// c18Jobs: a deterministic list from the corpus (independent of VERIF_SEED so that goldens are comparable)
func c18Jobs(max int) []c18Job {
	var jobs []c18Job
	add := func(name string, data []byte, args ...string) {
		jobs = append(jobs, c18Job{Name: name + " :: " + strings.Join(args, " "), Args: append(args, "input"), Data: data})
	}
	perFormat := map[string]int{}
	var wrong []corpusItem
	for _, it := range corpus() {
		if len(it.Data) == 0 || len(it.Data) > 6*1024 || strings.HasPrefix(it.Path, "wasm/") {
			continue
		}
		if len(it.Formats) == 0 {
			continue
		}
		f := it.Formats[0]
		if perFormat[f] >= 1 {
			continue
		}
		perFormat[f]++
		add(it.Path, it.Data, "-d", f, "dv")
		jobs[len(jobs)-1].Good = true
		if len(it.Data) >= 8 {
			add(it.Path+"[:60%]", it.Data[:len(it.Data)*6/10], "-d", f, "dv")
			jobs[len(jobs)-1].Trunc = true
		}
		switch len(jobs) % 4 {
		case 0:
			add(it.Path, it.Data, "-d", f, "-c", "tovalue")
		case 1:
			add(it.Path, it.Data, "dv") // probe
		case 2:
			add(it.Path, it.Data, "-d", f, "-r", "[.. | select(type != \"object\" and type != \"array\") | tobytes? | tohex] | join(\",\")")
		case 3:
			add(it.Path, it.Data, "-d", f, "-o", "line_bytes=8", "-o", "display_bytes=3", "dd")
		}
		if len(wrong) < 12 {
			wrong = append(wrong, it)
		}
	}
	// nested documents for serialization formats whose tests carry no binary sample (cbor, bencode) or only flat
	// ones: depth 9, cut at 60% they fail deep inside nested values
	nest := func(open, leaf, close []byte, depth int) []byte {
		var b []byte
		for i := 0; i < depth; i++ {
			b = append(b, open...)
		}
		b = append(b, leaf...)
		for i := 0; i < depth; i++ {
			b = append(b, close...)
		}
		return b
	}
	for _, g := range []struct {
		format string
		data   []byte
	}{
		{"cbor", nest([]byte{0x81}, []byte{0x83, 0x01, 0x61, 0x61, 0xa1, 0x61, 0x6b, 0x82, 0x02, 0x43, 1, 2, 3}, nil, 9)},
		{"msgpack", nest([]byte{0x91}, []byte{0x93, 0x01, 0xa1, 0x61, 0x81, 0xa1, 0x6b, 0x92, 0x02, 0xc4, 3, 1, 2, 3}, nil, 9)},
		{"bencode", nest([]byte("l"), []byte("i1e1:ad1:kli2e3:abcee"), []byte("e"), 9)},
		{"json", nest([]byte("["), []byte(`1,"a",{"k":[2,"abc"]}`), []byte("]"), 9)},
		{"xml", nest([]byte("<a>"), []byte(`<b x="1">t</b><c/>`), []byte("</a>"), 9)},
		{"yaml", []byte("a:\n  b:\n    c:\n      d:\n        e:\n          - 1\n          - k: [2, abc]\n")},
		{"toml", []byte("[a.b.c.d.e]\nf = [[[[[1, \"a\"]]]]]\ng = { k = [2, \"abc\"] }\n")},
	} {
		add("generated:"+g.format+"-nested", g.data, "-d", g.format, "dv")
		jobs[len(jobs)-1].Good = true
		add("generated:"+g.format+"-nested[:60%]", g.data[:len(g.data)*6/10], "-d", g.format, "dv")
		jobs[len(jobs)-1].Trunc = true
		add("generated:"+g.format+"-nested", g.data, "-d", g.format, "-c", "tovalue")
	}
	// two raw-IP captures whose IPv4 fragment trains share (source, destination, id): the first holds only the first
	// fragment (an unfinished train), the second the complete datagram with other bytes. Reassembly state must not
	// survive from one decode to the next (seed C18-G: a process-wide defragmenter).
	for _, g := range c18FragCaptures() {
		add("generated:"+g.name, g.data, "-d", "pcap", "dv")
		jobs[len(jobs)-1].Good = true
		add("generated:"+g.name, g.data, "-d", "pcap", "-c", "[.ipv4_reassembled[]? | tobytes | tohex]")
	}
	// failing decodes: a sample under a foreign format
	foreign := []string{"mp3", "png", "zip", "msgpack", "json", "elf", "mp4", "gzip", "tar", "flac", "pcap", "wav"}
	for i, it := range wrong {
		add(it.Path, it.Data, "-d", foreign[i%len(foreign)], "dv")
	}
	// option-carrying jobs: the same input with the option set, then (another job) unset
	for _, it := range corpus() {
		// (bigzero-zip.zip is a decompression bomb by design: gigabytes when inflated, tens of gigabytes under the
		// race detector — the first thorough run had its golden process killed by the kernel's OOM killer)
		if len(it.Data) > 40*1024 || strings.Contains(it.Path, "bigzero") {
			continue
		}
		for _, f := range it.Formats {
			switch f {
			case "mp4":
				add(it.Path, it.Data, "-d", "mp4", "-o", "decode_samples=false", "dv")
				add(it.Path, it.Data, "-d", "mp4", "dv")
			case "zip":
				add(it.Path, it.Data, "-d", "zip", "-o", "uncompress=false", "dv")
				add(it.Path, it.Data, "-d", "zip", "dv")
			case "mp3":
				add(it.Path, it.Data, "-d", "mp3", "-o", "max_sync_seek=1", "-o", "max_unknown=0", "dv")
				add(it.Path, it.Data, "-d", "mp3", "dv")
			case "matroska":
				add(it.Path, it.Data, "-d", "matroska", "-o", "decode_samples=false", "dv")
			case "xml":
				add(it.Path, it.Data, "-d", "xml", "-o", "seq=true", "-c", "tovalue")
				add(it.Path, it.Data, "-d", "xml", "-c", "tovalue")
			}
		}
		if len(jobs) > max+60 {
			break
		}
	}
	// two decodes with DIFFERENT per-call options inside one evaluation must not influence each other
	addPair := func(name string, data []byte, a, b string) {
		ia := len(jobs)
		add(name, data, "-d", "bytes", "-c", a)
		add(name, data, "-d", "bytes", "-c", b)
		add(name, data, "-d", "bytes", "-c", "("+a+"), ("+b+")")
		jobs[len(jobs)-1].IsPair = true
		jobs[len(jobs)-1].PairOf = [2]int{ia, ia + 1}
		add(name, data, "-d", "bytes", "-c", "("+b+"), ("+a+")")
		jobs[len(jobs)-1].IsPair = true
		jobs[len(jobs)-1].PairOf = [2]int{ia + 1, ia}
	}
	addPair("pair.csv", []byte("a;b,c\n1;2,3\n"), `tobytes | from_csv({comma:";"})`, `tobytes | from_csv`)
	addPair("pair.xml", []byte(`<a x="1"><b>t</b><c/><b>u</b></a>`), `tobytes | from_xml({seq:true})`, `tobytes | from_xml`)
	addPair("pair2.xml", []byte(`<a x="1"><b>t</b><c/><b>u</b></a>`), `tobytes | from_xml({array:true})`, `tobytes | from_xml({attribute_prefix:"_"})`)
	for _, it := range corpus() {
		if len(it.Data) > 30*1024 || strings.Contains(it.Path, "bigzero") {
			continue
		}
		done := false
		for _, f := range it.Formats {
			switch f {
			case "mp4":
				addPair(it.Path, it.Data, `tobytes | mp4({decode_samples:false}) | [.. | select(type=="number")] | length`, `tobytes | mp4 | [.. | select(type=="number")] | length`)
				done = true
			case "zip":
				addPair(it.Path, it.Data, `tobytes | zip({uncompress:false}) | [..] | length`, `tobytes | zip | [..] | length`)
				done = true
			}
		}
		if done && len(jobs) > max+80 {
			break
		}
	}
	// JSON-decoded objects: iteration order must not depend on Go map order (was nondeterministic: gojqx.Object)
	jsonDoc := []byte(`{"b":1,"a":2,"z":[1,{"q":1,"p":2}],"c":{"y":1,"x":2,"w":{"n":1,"m":2}},"k1":1,"k2":2,"k3":3,"k4":4,"k5":5}`)
	add("object.json", jsonDoc, "-c", "[.[]], (to_entries | map(.key)), [paths], [..] ")
	add("object.json", jsonDoc, "-d", "json", "-c", ".c | [.[]], keys, [.. | scalars]")
	add("object.json", jsonDoc, "-c", "tojson | fromjson | [.[]], [paths]")
	// standard-jq evaluations through the include cache / init modules
	add("null", nil, "-n", "-c", "[range(5) | . * 2] | map(tostring) | join(\"-\") | test(\"2-4\")")
	add("null", nil, "-n", "-r", "\"aGVsbG8=\" | from_base64 | tostring, (\"ff\" | from_hex | to_hex), ([1,2,3] | tojson)")
	sort.SliceStable(jobs, func(i, j int) bool { return false })
	if len(jobs) > max {
		// keep a spread of the plain jobs (every k-th) and ALL pair groups (re-indexed)
		needed := map[int]bool{}
		for i, j := range jobs {
			if j.IsPair {
				needed[i], needed[j.PairOf[0]], needed[j.PairOf[1]] = true, true, true
			}
			if j.Good || j.Trunc {
				needed[i] = true
			}
		}
		var plain []int
		for i := range jobs {
			if !needed[i] {
				plain = append(plain, i)
			}
		}
		want := max - len(needed)
		if want < 20 {
			want = 20
		}
		keepIdx := map[int]bool{}
		step := float64(len(plain)) / float64(want)
		for i := 0; i < want && int(float64(i)*step) < len(plain); i++ {
			keepIdx[plain[int(float64(i)*step)]] = true
		}
		for i := range needed {
			keepIdx[i] = true
		}
		remap := map[int]int{}
		var keep []c18Job
		for i, j := range jobs {
			if keepIdx[i] {
				remap[i] = len(keep)
				keep = append(keep, j)
			}
		}
		for i := range keep {
			if keep[i].IsPair {
				keep[i].PairOf = [2]int{remap[keep[i].PairOf[0]], remap[keep[i].PairOf[1]]}
			}
		}
		jobs = keep
	}
	return jobs
}

type c18Capture struct {
	name string
	data []byte
}

// c18FragCaptures writes the two captures by hand (pcap little-endian, link type 101 = raw IP, protocol 253).
func c18FragCaptures() []c18Capture {
	be16 := func(v int) []byte { return []byte{byte(v >> 8), byte(v)} }
	le32 := func(v int) []byte { return []byte{byte(v), byte(v >> 8), byte(v >> 16), byte(v >> 24)} }
	frag := func(fill byte, offUnits int, more bool, n int) []byte {
		h := []byte{0x45, 0}
		h = append(h, be16(20+n)...)
		h = append(h, be16(0x4242)...)
		ff := offUnits
		if more {
			ff |= 0x2000
		}
		h = append(h, be16(ff)...)
		h = append(h, 64, 253, 0, 0, 10, 0, 0, 1, 10, 0, 0, 2)
		sum := 0
		for i := 0; i < 20; i += 2 {
			sum += int(h[i])<<8 | int(h[i+1])
		}
		for sum>>16 != 0 {
			sum = sum&0xffff + sum>>16
		}
		c := ^sum & 0xffff
		h[10], h[11] = byte(c>>8), byte(c)
		for i := 0; i < n; i++ {
			h = append(h, fill)
		}
		return h
	}
	file := func(pkts ...[]byte) []byte {
		b := []byte{0xd4, 0xc3, 0xb2, 0xa1, 2, 0, 4, 0, 0, 0, 0, 0, 0, 0, 0, 0}
		b = append(b, le32(65535)...)
		b = append(b, le32(101)...)
		for i, p := range pkts {
			b = append(b, le32(1000+i)...)
			b = append(b, le32(0)...)
			b = append(b, le32(len(p))...)
			b = append(b, le32(len(p))...)
			b = append(b, p...)
		}
		return b
	}
	return []c18Capture{
		{"frag-unfinished.pcap", file(frag('A', 0, true, 16))},
		{"frag-complete.pcap", file(frag('B', 0, true, 16), frag('B', 2, false, 8))},
	}
}

// c18TreeDigest: names, ranges, value kinds, actual and symbolic values and errors of a whole decode tree
func c18TreeDigest(res decodeResult) string {
	h := sha256.New()
	if res.Panic != nil {
		fmt.Fprintf(h, "PANIC %v\n", res.Panic.Value)
	}
	if res.Err != nil {
		fmt.Fprintf(h, "ERR %v\n", res.Err)
	}
	n := 0
	if res.V != nil {
		_ = res.V.WalkPreOrder(func(v *decode.Value, _ *decode.Value, depth int, _ int) error {
			n++
			fmt.Fprintf(h, "%d|%s|%d|%d|%T|%v|", depth, v.Name, v.Range.Start, v.Range.Len, v.V, v.Err != nil)
			if sc, ok := v.V.(scalar.Scalarable); ok {
				for _, x := range []any{sc.ScalarActual(), sc.ScalarSym()} {
					switch xx := x.(type) {
					case nil, bool, int, int64, uint64, float64, float32, string, []byte:
						fmt.Fprintf(h, "%v|", xx)
					case fmt.Stringer: // *big.Int, big.Float ...
						if _, isBuf := x.(bitio.ReaderAtSeeker); isBuf {
							fmt.Fprintf(h, "%T|", x)
						} else {
							fmt.Fprintf(h, "%s|", xx.String())
						}
					default: // readers and other reference types: the type only (their text shows addresses)
						fmt.Fprintf(h, "%T|", x)
					}
				}
			}
			h.Write([]byte{'\n'})
			return nil
		})
	}
	return fmt.Sprintf("%x/%d", h.Sum(nil)[:8], n)
}

func c18RunJob(j c18Job) string {
	o := vos.New(j.Args...)
	o.Files["input"] = j.Data
	var res vos.Result
	pi := guardStack(func() { res = o.RunMain(context.Background(), fqx.Registry()) })
	if pi != nil {
		return "PANIC: " + fmt.Sprint(pi.Value) + "\n" + pi.Stack
	}
	return fmt.Sprintf("exit=%d\n--stdout--\n%s\n--stderr--\n%s", res.Exit, res.Stdout, res.Stderr)
}

type c18Out struct {
	Mode    string            `json:"mode"`
	Outputs map[string]string `json:"outputs"` // job index (+ "#n" for repeats) -> output
	// Digests: cold-start rounds at the decode API: job index -> digests of the trees decoded by the G goroutines
	// at the same moment, followed by the digest of one more (warm, sequential) decode in the same process
	Digests map[string][]string `json:"digests,omitempty"`
	Pairs   int64               `json:"overlapping_pairs"`
	Runs    int64             `json:"runs"`
}

// child modes: "seq:<seed>" (seed 0 = golden, natural order) and "conc:<G>:<procs>:<seed>"
func c18Child(mode string, outPath string, nJobs int) {
	// the job list comes from a file written by the parent: building it here would resolve the process-wide
	// registry (corpus index) before the start barrier, hiding first-use races
	var jobs []c18Job
	if b, err := os.ReadFile(os.Getenv("VERIF_C18_JOBS")); err == nil {
		_ = json.Unmarshal(b, &jobs)
	}
	if len(jobs) == 0 {
		fmt.Fprintln(os.Stderr, "no jobs file")
		os.Exit(2)
	}
	out := c18Out{Mode: mode, Outputs: map[string]string{}}
	parts := strings.Split(mode, ":")
	var seed uint64
	fmt.Sscan(parts[len(parts)-1], &seed)
	rng := gen.New(seed).Fork(0xC18)
	switch parts[0] {
	case "seq":
		order := make([]int, len(jobs))
		for i := range order {
			order[i] = i
		}
		if seed != 0 {
			gen.Shuffle(rng, order)
			// history: repeats (same job 3x in a row, and again later)
			for r := 0; r < len(jobs)/4; r++ {
				k := rng.Intn(len(jobs))
				pos := rng.Intn(len(order))
				order = append(order[:pos], append([]int{k, k, k}, order[pos:]...)...)
			}
		}
		seen := map[int]int{}
		for _, k := range order {
			o := c18RunJob(jobs[k])
			key := fmt.Sprintf("%d#%d", k, seen[k])
			seen[k]++
			out.Outputs[key] = o
			out.Runs++
		}
	case "burst":
		// every failing (truncated) decode 12 times in a row, then every good and truncated job once: state that a failed decode
		// leaves behind (a counter not restored on the panic path, a cache entry of a partial result) accumulates
		// and shows in the later good decodes (seed C18-C)
		seen := map[int]int{}
		runOne := func(k int) {
			o := c18RunJob(jobs[k])
			out.Outputs[fmt.Sprintf("%d#%d", k, seen[k])] = o
			seen[k]++
			out.Runs++
		}
		nt := 0
		for k, j := range jobs {
			if j.Trunc {
				if nt++; nt%3 != int(seed)%3 {
					continue // three burst processes share the truncated jobs
				}
				for r := 0; r < 12; r++ {
					runOne(k)
				}
			}
		}
		for k, j := range jobs {
			if j.Good || j.Trunc {
				runOne(k)
			}
		}
	case "cold":
		// cold-start rounds: all G goroutines run the SAME good job at the same moment, for 12 jobs of the list
		// (offset = last field). Lazily initialised process-wide state of that format (tables built on first use,
		// a registry resolved on first lookup) is then reached by several goroutines at once; a later use by
		// another goroutine is usually ordered after the first by some unrelated lock and shows no race (seed C18-D)
		var G, procs int
		fmt.Sscan(parts[1], &G)
		fmt.Sscan(parts[2], &procs)
		runtime.GOMAXPROCS(procs)
		var good []int
		for k, j := range jobs {
			if j.Good {
				good = append(good, k)
			}
		}
		var mu sync.Mutex
		out.Digests = map[string][]string{}
		for r := 0; r < 12; r++ {
			idx := int(seed)*12 + r
			if idx >= len(good) {
				break
			}
			k := good[idx]
			format := jobs[k].Args[1]
			var wg sync.WaitGroup
			start := make(chan struct{})
			digs := make([]string, G)
			for g := 0; g < G; g++ {
				wg.Add(1)
				go func(g int) {
					defer wg.Done()
					data := append([]byte(nil), jobs[k].Data...)
					<-start
					// straight into decode.Decode (group lookup included): microseconds after the barrier every
					// goroutine is inside the decoder, where interp.Main would spread them over ~100 ms of jq set-up
					digs[g] = c18TreeDigest(decodeDirect(data, format, false))
					atomic.AddInt64(&out.Runs, 1)
				}(g)
			}
			close(start)
			wg.Wait()
			digs = append(digs, c18TreeDigest(decodeDirect(append([]byte(nil), jobs[k].Data...), format, false)))
			mu.Lock()
			out.Digests[fmt.Sprint(k)] = digs
			mu.Unlock()
			out.Pairs += int64(G * (G - 1) / 2)
		}
	case "conc":
		var G, procs int
		fmt.Sscan(parts[1], &G)
		fmt.Sscan(parts[2], &procs)
		runtime.GOMAXPROCS(procs)
		var mu sync.Mutex
		var wg sync.WaitGroup
		start := make(chan struct{})
		var active sync.Map
		pairs := map[[2]int]bool{}
		perG := 6
		for g := 0; g < G; g++ {
			wg.Add(1)
			seq := make([]int, perG)
			for i := range seq {
				seq[i] = rng.Intn(len(jobs))
			}
			if g%4 == 1 {
				for i := range seq {
					seq[i] = seq[0] // same job many times, concurrently with others
				}
			}
			go func(g int, seq []int) {
				defer wg.Done()
				<-start // barrier: first use of registry / lazily compiled tables races for real
				for n, k := range seq {
					active.Range(func(key, value any) bool {
						a, b := k, value.(int)
						if a > b {
							a, b = b, a
						}
						mu.Lock()
						pairs[[2]int{a, b}] = true
						mu.Unlock()
						return true
					})
					active.Store(g, k)
					o := c18RunJob(jobs[k])
					active.Delete(g)
					mu.Lock()
					out.Outputs[fmt.Sprintf("%d#g%d.%d", k, g, n)] = o
					mu.Unlock()
					atomic.AddInt64(&out.Runs, 1)
				}
			}(g, seq)
		}
		close(start)
		wg.Wait()
		out.Pairs = int64(len(pairs))
	}
	b, _ := json.Marshal(out)
	if err := os.WriteFile(outPath, b, 0o644); err != nil {
		fmt.Fprintln(os.Stderr, err)
		os.Exit(2)
	}
}

func c18Main(args []string) {
	nJobs := 70
	if ev.Tier() == "thorough" {
		nJobs = 400
	}
	if mode := os.Getenv("VERIF_C18_CHILD"); mode != "" {
		c18Child(mode, os.Getenv("VERIF_C18_OUT"), nJobs)
		os.Exit(0)
	}
	run := ev.NewRun("C18")
	run.Rule = "jobs = (corpus sample or failing foreign-format decode or option-carrying decode, CLI arguments dv / tovalue / tobytes|tohex / dd with options) run through interp.Main on the shared DefaultRegistry; golden process = every job once in natural order; history processes = PRNG permutations with triple repeats, and a burst history (every truncated decode 12x in a row, then every job once); cold-start processes = for each good job G goroutines enter decode.Decode for it at the same moment in a fresh process (12 jobs per process), trees compared by digest with a later sequential decode; concurrency processes = G goroutines x 6 jobs with a start barrier, GOMAXPROCS in {1,2,16}, each in a fresh process; every output compared byte for byte with the golden; race detector reports are violations. non-trivial = a run of a job whose predecessor/neighbour differs from the golden order; distinct = (job, mode, position)"
	run.Assumptions = []string{"binary built with -race", "goldens come from the same binary in a fresh process (job list is independent of VERIF_SEED)"}
	jobs := c18Jobs(nJobs)
	dir, err := os.MkdirTemp("", "verif-c18-")
	if err != nil {
		panic(err)
	}
	defer os.RemoveAll(dir)
	ev.AtExit(func() { os.RemoveAll(dir) })
	jobsFile := filepath.Join(dir, "jobs.json")
	if b, err := json.Marshal(jobs); err != nil || os.WriteFile(jobsFile, b, 0o644) != nil {
		panic("cannot write jobs file")
	}
	type child struct {
		mode string
		out  string
		race string
		err  error
	}
	var modes []string
	modes = append(modes, "seq:0")
	nHist := run.Pick(2, 12)
	for i := 1; i <= nHist; i++ {
		modes = append(modes, fmt.Sprintf("seq:%d", run.Seed*100+uint64(i)))
	}
	type cc struct{ g, p int }
	concs := []cc{{2, 1}, {4, 2}, {16, 16}, {64, 16}, {16, 2}, {8, 16}}
	reps := run.Pick(2, 12)
	for r := 0; r < reps; r++ {
		for i, c := range concs {
			if !run.Thorough() && (i+r)%2 == 1 {
				continue
			}
			modes = append(modes, fmt.Sprintf("conc:%d:%d:%d", c.g, c.p, run.Seed*1000+uint64(r*10+i)))
		}
	}
	modes = append(modes, "burst:0", "burst:1", "burst:2")
	nGood := 0
	for _, j := range jobs {
		if j.Good {
			nGood++
		}
	}
	for off := 0; off*12 < nGood; off++ {
		modes = append(modes, fmt.Sprintf("cold:%d:%d:%d", []int{4, 8, 3}[off%3], []int{16, 4, 2}[off%3], off))
	}
	children := make([]*child, len(modes))
	sem := make(chan struct{}, 8)
	var wg sync.WaitGroup
	for i, m := range modes {
		children[i] = &child{mode: m, out: filepath.Join(dir, fmt.Sprintf("out-%d.json", i)), race: filepath.Join(dir, fmt.Sprintf("race-%d", i))}
		wg.Add(1)
		go func(c *child) {
			defer wg.Done()
			sem <- struct{}{}
			defer func() { <-sem }()
			cmd := exec.Command(os.Args[0], "C18")
			cmd.Env = append(os.Environ(), "VERIF_C18_CHILD="+c.mode, "VERIF_C18_OUT="+c.out, "VERIF_C18_JOBS="+jobsFile, "GORACE=halt_on_error=0 exitcode=0 log_path="+c.race)
			b, err := cmd.CombinedOutput()
			if err != nil {
				c.err = fmt.Errorf("%v: %s", err, trunc(string(b), 3000))
			}
		}(children[i])
	}
	wg.Wait()
	load := func(c *child) *c18Out {
		b, err := os.ReadFile(c.out)
		if err != nil {
			return nil
		}
		var o c18Out
		if json.Unmarshal(b, &o) != nil {
			return nil
		}
		return &o
	}
	golden := load(children[0])
	if children[0].err != nil || golden == nil {
		run.Violation("golden-process-died", fmt.Sprintf("the golden process failed: %v", children[0].err), nil)
		run.Finish()
	}
	gold := map[int]string{}
	for k, v := range golden.Outputs {
		var idx int
		fmt.Sscanf(k, "%d#", &idx)
		gold[idx] = v
		if strings.HasPrefix(v, "PANIC") {
			run.Violation("panic:golden", fmt.Sprintf("job %s panicked: %s", jobs[idx].Name, trunc(v, 1500)), nil)
		}
	}
	stdoutOf := func(o string) (string, bool) {
		i := strings.Index(o, "\n--stdout--\n")
		k := strings.LastIndex(o, "\n--stderr--\n")
		if i < 0 || k < i || !strings.HasPrefix(o, "exit=0\n") {
			return "", false
		}
		return o[i+len("\n--stdout--\n") : k], true
	}
	for i, j := range jobs {
		if !j.IsPair {
			continue
		}
		p, ok1 := stdoutOf(gold[i])
		a, ok2 := stdoutOf(gold[j.PairOf[0]])
		b, ok3 := stdoutOf(gold[j.PairOf[1]])
		run.Eval(1)
		run.Count("pair-isolation-comparisons", 1)
		if !ok1 || !ok2 || !ok3 {
			run.Count("pair-isolation:skipped-nonzero-exit", 1)
			continue
		}
		if p != a+b {
			run.Violation("isolation:two-decodes-in-one-evaluation:"+c18Ext(j.Name), fmt.Sprintf("job [%s]: evaluating A then B in one evaluation gives\n%s\nbut A alone gives\n%s\nand B alone gives\n%s", j.Name, trunc(p, 400), trunc(a, 300), trunc(b, 300)), map[string]any{"job": j.Name})
		}
		run.Distinct("pair|" + j.Name)
	}
	run.Count("jobs", int64(len(jobs)))
	run.Count("processes", int64(len(children)))
	for _, c := range children[1:] {
		kind := strings.SplitN(c.mode, ":", 2)[0]
		if c.err != nil {
			run.Violation("process-died:"+kind, fmt.Sprintf("process %s died: %v", c.mode, c.err), map[string]any{"mode": c.mode})
			continue
		}
		o := load(c)
		if o == nil {
			run.Inconclusive("no-output:" + kind)
			continue
		}
		run.Count("runs:"+kind, o.Runs)
		for k, digs := range o.Digests {
			var idx int
			fmt.Sscan(k, &idx)
			run.Eval(int64(len(digs)))
			run.Count("cold-start:trees-compared", int64(len(digs)))
			run.Distinct(c.mode + "|cold|" + k)
			for g, dg := range digs {
				if dg != digs[len(digs)-1] {
					run.Violation("output-differs:cold-start:"+c18ArgClass(jobs[idx]), fmt.Sprintf("job [%s] in process %s: the tree decoded by goroutine %d of a cold concurrent start (digest %s) differs from a later sequential decode in the same process (digest %s)", jobs[idx].Name, c.mode, g, dg, digs[len(digs)-1]), map[string]any{"mode": c.mode, "job": jobs[idx].Name})
					break
				}
			}
		}
		run.Count("overlapping-job-pairs", o.Pairs)
		for k, v := range o.Outputs {
			var idx int
			fmt.Sscanf(k, "%d#", &idx)
			run.Eval(1)
			run.Distinct(c.mode + "|" + k)
			if v != gold[idx] {
				h := sha256.Sum256([]byte(v))
				run.Violation("output-differs:"+kind+":"+c18ArgClass(jobs[idx]), fmt.Sprintf("job [%s] in process %s (run %s) differs from its golden (sha %s):\n%s", jobs[idx].Name, c.mode, k, hex.EncodeToString(h[:4]), firstDiff(gold[idx], v)), map[string]any{"mode": c.mode, "job": jobs[idx].Name})
			}
		}
	}
	// race reports of every process
	nReports := 0
	seen := map[string]bool{}
	files, _ := filepath.Glob(filepath.Join(dir, "race-*"))
	for _, f := range files {
		b, err := os.ReadFile(f)
		if err != nil {
			continue
		}
		for _, rep := range c20RaceRe.FindAllString(string(b), -1) {
			nReports++
			sig := raceSig(rep)
			if seen[sig] {
				continue
			}
			seen[sig] = true
			run.Violation("race:"+sig, "data race reported by the Go race detector:\n"+trunc(rep, 3000), map[string]any{"report": rep})
		}
	}
	run.Count("race:reports", int64(nReports))
	run.Sample(map[string]any{"job0": jobs[0].Name, "job1": jobs[1].Name, "modes": modes[:min(len(modes), 6)]})
	run.Finish()
}

func c18ArgClass(j c18Job) string {
	for _, a := range j.Args {
		switch a {
		case "dv", "dd", "tovalue":
			return a
		}
	}
	return "other"
}

func firstDiff(a, b string) string {
	al, bl := strings.Split(a, "\n"), strings.Split(b, "\n")
	for i := 0; i < len(al) || i < len(bl); i++ {
		var x, y string
		if i < len(al) {
			x = al[i]
		}
		if i < len(bl) {
			y = bl[i]
		}
		if x != y {
			return fmt.Sprintf("  line %d:\n  golden: %s\n  got:    %s", i+1, trunc(x, 300), trunc(y, 300))
		}
	}
	return "  (no line differs?)"
}

func c18Ext(name string) string {
	n := strings.SplitN(name, " ::", 2)[0]
	if i := strings.LastIndexByte(n, '.'); i >= 0 {
		return n[i+1:]
	}
	return "other"
}
