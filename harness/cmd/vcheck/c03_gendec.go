package main

import "verif/ev"

// placeholder until the generated-decoder engine is written
func c03Gendec(run *ev.Run) {}
