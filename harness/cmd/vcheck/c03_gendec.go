package main

// C03 — generated decoder programs: a PRNG-built program in a small combinator language that maps 1:1 onto
// the public decode API is executed twice: interpreter A drives the REAL API inside decode.Decode,
// interpreter B is a reference that computes the expected tree (names, kinds, exact ranges = the bits
// each field read, buffer identity, child order after the documented start-position sort, indices, the
// partial tree of a failing program). The two trees must be equal. Gap fields are ignored here (their
// content and coverage are C04's subject); for a gap-filled scope the compound range must be its window.

import (
	"context"
	"fmt"
	"sort"
	"strings"

	"github.com/wader/fq/pkg/bitio"
	"github.com/wader/fq/pkg/decode"
	"github.com/wader/fq/pkg/scalar"

	"verif/ev"
	"verif/gen"
)

type gNode struct {
	Op   string // U S Raw Struct Array SeekAbs SeekRel SeekAbsFn Framed Limited Range FormatLen FormatRange FormatBitBuf RootBitBuf ValueUint Fatal
	Name string
	N    int64 // bits (leaf, window) / bytes (derived buffer)
	Pos  int64 // seek target / first bit / delta
	Arr  bool  // sub-format root is an array
	Xor  byte
	Body []*gNode
}

func (n *gNode) String() string {
	var sb strings.Builder
	switch n.Op {
	case "U", "S", "Raw":
		fmt.Fprintf(&sb, "%s(%s,%d)", n.Op, n.Name, n.N)
	case "Struct", "Array":
		fmt.Fprintf(&sb, "%s(%s){%s}", n.Op, n.Name, gBody(n.Body))
	case "SeekAbs", "SeekRel":
		fmt.Fprintf(&sb, "%s(%d)", n.Op, n.Pos)
	case "SeekAbsFn":
		fmt.Fprintf(&sb, "SeekAbsFn(%d){%s}", n.Pos, gBody(n.Body))
	case "Framed", "Limited":
		fmt.Fprintf(&sb, "%s(%d){%s}", n.Op, n.N, gBody(n.Body))
	case "Range":
		fmt.Fprintf(&sb, "Range(%d,%d){%s}", n.Pos, n.N, gBody(n.Body))
	case "Format":
		fmt.Fprintf(&sb, "Format(%s,arr=%v){%s}", n.Name, n.Arr, gBody(n.Body))
	case "FormatLen":
		fmt.Fprintf(&sb, "FormatLen(%s,%d,arr=%v){%s}", n.Name, n.N, n.Arr, gBody(n.Body))
	case "FormatRange":
		fmt.Fprintf(&sb, "FormatRange(%s,%d,%d,arr=%v){%s}", n.Name, n.Pos, n.N, n.Arr, gBody(n.Body))
	case "FormatBitBuf":
		fmt.Fprintf(&sb, "FormatBitBuf(%s,%dB^%02x,arr=%v){%s}", n.Name, n.N, n.Xor, n.Arr, gBody(n.Body))
	case "RootBitBuf":
		fmt.Fprintf(&sb, "RootBitBuf(%s,%dB^%02x)", n.Name, n.N, n.Xor)
	case "ValueUint":
		fmt.Fprintf(&sb, "ValueUint(%s)", n.Name)
	case "Fatal":
		sb.WriteString("Fatal")
	}
	return sb.String()
}

func gBody(b []*gNode) string {
	var ss []string
	for _, n := range b {
		ss = append(ss, n.String())
	}
	return strings.Join(ss, " ")
}

// ---- expected tree ----

type eVal struct {
	Name     string
	Kind     string // struct array uint sint raw synthetic
	Start    int64
	Len      int64
	IsRoot   bool
	GapScope bool  // produced by decode() with gap filling: range must be the window
	Win      int64 // window length of a gap scope
	FmtSub   bool  // produced by FieldFormat: a sub-decode to the end of the buffer WITHOUT gap filling
	Adv      int64 // FmtSub: how far the parent's position advanced (extent of what the sub-decode touched)
	Uval     uint64
	Sval     int64
	Children []*eVal
}

type gFail struct{}

// reference interpreter
type gRef struct {
	buf   bstr
	pos   int64
	limit int64
	cur   *eVal
	ops   map[string]int
}

func (r *gRef) add(v *eVal) { r.cur.Children = append(r.cur.Children, v) }

func (r *gRef) run(body []*gNode) {
	for _, n := range body {
		r.exec(n)
	}
}

func (r *gRef) exec(n *gNode) {
	r.ops[n.Op]++
	switch n.Op {
	case "U", "S", "Raw":
		if r.pos+n.N > r.limit {
			panic(gFail{})
		}
		if r.cur.Kind == "struct" {
			for _, c := range r.cur.Children {
				if c.Name == n.Name {
					panic(gFail{}) // "already exist in struct": stops the decode, forced or not
				}
			}
		}
		v := &eVal{Name: n.Name, Start: r.pos, Len: n.N}
		u := c02U(r.buf, r.pos, n.N)
		switch n.Op {
		case "U":
			v.Kind, v.Uval = "uint", u.Uint64()
		case "S":
			v.Kind, v.Sval = "sint", c02Signed(u, n.N).Int64()
		default:
			v.Kind = "raw"
		}
		r.add(v)
		r.pos += n.N
	case "Struct", "Array":
		c := &eVal{Name: n.Name, Kind: strings.ToLower(n.Op), Start: r.pos}
		r.add(c)
		saved := r.cur
		r.cur = c
		r.run(n.Body)
		r.cur = saved
	case "SeekAbs":
		if n.Pos < 0 || n.Pos > r.limit {
			panic(gFail{})
		}
		r.pos = n.Pos
	case "SeekRel":
		if r.pos+n.Pos < 0 || r.pos+n.Pos > r.limit {
			panic(gFail{})
		}
		r.pos += n.Pos
	case "SeekAbsFn":
		if n.Pos < 0 || n.Pos > r.limit {
			panic(gFail{})
		}
		old := r.pos
		r.pos = n.Pos
		r.run(n.Body)
		r.pos = old
	case "Framed", "Limited", "Range":
		first := r.pos
		if n.Op == "Range" {
			first = n.Pos
		}
		if first < 0 || first+n.N > r.limit {
			panic(gFail{})
		}
		oldPos, oldLimit := r.pos, r.limit
		r.pos, r.limit = first, first+n.N
		r.run(n.Body)
		end := r.pos
		r.limit = oldLimit
		switch n.Op {
		case "Framed":
			r.pos = oldPos + n.N
		case "Limited":
			r.pos = end
		default:
			r.pos = oldPos
		}
	case "FormatLen", "FormatRange":
		first := r.pos
		if n.Op == "FormatRange" {
			first = n.Pos
		}
		if first < 0 || first+n.N > r.limit {
			panic(gFail{})
		}
		kind := "struct"
		if n.Arr {
			kind = "array"
		}
		sub := &eVal{Name: n.Name, Kind: kind, Start: first, GapScope: true, Win: n.N}
		sr := &gRef{buf: r.buf.slice(first, n.N), limit: n.N, cur: sub, ops: r.ops}
		ok := sr.try(n.Body)
		if !ok {
			panic(gFail{}) // a failed sub-decode is not added and fails the parent
		}
		gShift(sub, first)
		sub.Start = first
		r.add(sub)
		if n.Op == "FormatLen" {
			r.pos += n.N
		}
	case "Format":
		// FieldFormat: decode() over [pos, end of the current buffer) with FillGaps off; on success the parent's
		// position advances by the extent of the sub-decode: the maximum over its values (not descending into
		// nested roots) of: stop of a leaf, creation position of a struct/array (compound ranges are only
		// computed at the very end), start+window of a gap-filled sub-decode, start+advance of a nested FieldFormat
		first := r.pos
		kind := "struct"
		if n.Arr {
			kind = "array"
		}
		sub := &eVal{Name: n.Name, Kind: kind, Start: 0, FmtSub: true}
		sr := &gRef{buf: r.buf.slice(first, r.limit-first), limit: r.limit - first, cur: sub, ops: r.ops}
		if !sr.try(n.Body) {
			panic(gFail{}) // a failed sub-decode is not added and fails the parent
		}
		sub.Adv = gExtent(sub)
		gShift(sub, first)
		sub.Start = first
		r.add(sub)
		r.pos += sub.Adv
	case "FormatBitBuf", "RootBitBuf":
		if r.pos%8 != 0 && false {
			panic(gFail{})
		}
		nb := n.N * 8
		if r.pos+nb > r.limit {
			panic(gFail{})
		}
		src := r.buf.slice(r.pos, nb)
		der := make([]byte, n.N)
		for i := range der {
			der[i] = src.bytesPadded()[i] ^ n.Xor
		}
		if n.Op == "RootBitBuf" {
			r.add(&eVal{Name: n.Name, Kind: "raw", Start: r.pos, Len: nb, IsRoot: true})
			return
		}
		kind := "struct"
		if n.Arr {
			kind = "array"
		}
		sub := &eVal{Name: n.Name, Kind: kind, Start: r.pos, IsRoot: true, GapScope: true, Win: nb}
		sr := &gRef{buf: bstrFromBytes(der, -1), limit: nb, cur: sub, ops: r.ops}
		if !sr.try(n.Body) {
			panic(gFail{})
		}
		r.add(sub)
	case "ValueUint":
		r.add(&eVal{Name: n.Name, Kind: "synthetic", Start: r.pos, Len: 0, Uval: 42})
	case "Fatal":
		panic(gFail{})
	}
}

// gExtent: see "Format" above; positions relative to the sub-decode's window (called before gShift/gFinish)
func gExtent(sub *eVal) int64 {
	var ext int64
	var walk func(v *eVal)
	walk = func(v *eVal) {
		for _, c := range v.Children {
			if c.IsRoot {
				continue
			}
			stop := c.Start + c.Len
			switch {
			case c.GapScope:
				stop = c.Start + c.Win
			case c.FmtSub:
				stop = c.Start + c.Adv
			case c.Kind == "struct" || c.Kind == "array":
				stop = c.Start
			}
			ext = max(ext, stop)
			walk(c)
		}
	}
	walk(sub)
	return ext
}

// try runs body; false if it failed
func (r *gRef) try(body []*gNode) (ok bool) {
	defer func() {
		if x := recover(); x != nil {
			if _, is := x.(gFail); !is {
				panic(x)
			}
			ok = false
		}
	}()
	r.run(body)
	return true
}

func gShift(v *eVal, d int64) {
	for _, c := range v.Children {
		if c.IsRoot {
			c.Start += d // position in the parent buffer
			continue
		}
		c.Start += d
		gShift(c, d)
	}
}

// gFinish: compound ranges (post-order), struct sort, as decode.go documents
func gFinish(v *eVal) {
	if v.Kind != "struct" && v.Kind != "array" {
		return
	}
	for _, c := range v.Children {
		gFinish(c)
	}
	posAtCreation := v.Start
	first := true
	var lo, hi int64
	for _, c := range v.Children {
		if c.IsRoot || c.Kind == "synthetic" {
			continue
		}
		if first {
			lo, hi, first = c.Start, c.Start+c.Len, false
		} else {
			lo, hi = min(lo, c.Start), max(hi, c.Start+c.Len)
		}
	}
	switch {
	case v.GapScope && v.Win > 0:
		// gap filling makes leaves + gaps cover the whole window
		if v.IsRoot {
			v.Len = v.Win // Start stays the position in the parent buffer
		} else {
			v.Len = v.Win
		}
	case first:
		v.Start, v.Len = posAtCreation, 0
	default:
		if !v.IsRoot {
			v.Start = lo
		}
		v.Len = hi - lo
	}
	if v.Kind == "struct" {
		sort.SliceStable(v.Children, func(i, j int) bool { return v.Children[i].Start < v.Children[j].Start })
	}
}

// ---- real interpreter ----

type gReal struct {
	seq int
}

func (g *gReal) subGroup(n *gNode) *decode.Group {
	g.seq++
	f := &decode.Format{Name: fmt.Sprintf("gsub%d", g.seq), RootArray: n.Arr, DecodeFn: func(d *decode.D) any {
		g.run(d, n.Body)
		return nil
	}}
	return &decode.Group{Name: f.Name, Formats: []*decode.Format{f}}
}

func (g *gReal) run(d *decode.D, body []*gNode) {
	for _, n := range body {
		g.exec(d, n)
	}
}

func (g *gReal) derive(d *decode.D, n *gNode) bitio.ReaderAtSeeker {
	bs := d.BytesRange(d.Pos(), int(n.N))
	der := make([]byte, len(bs))
	for i := range bs {
		der[i] = bs[i] ^ n.Xor
	}
	return bitio.NewBitReader(der, -1)
}

func (g *gReal) exec(d *decode.D, n *gNode) {
	switch n.Op {
	case "U":
		d.FieldU(n.Name, int(n.N))
	case "S":
		d.FieldS(n.Name, int(n.N))
	case "Raw":
		d.FieldRawLen(n.Name, n.N)
	case "Struct":
		d.FieldStruct(n.Name, func(d *decode.D) { g.run(d, n.Body) })
	case "Array":
		d.FieldArray(n.Name, func(d *decode.D) { g.run(d, n.Body) })
	case "SeekAbs":
		d.SeekAbs(n.Pos)
	case "SeekRel":
		d.SeekRel(n.Pos)
	case "SeekAbsFn":
		d.SeekAbs(n.Pos, func(d *decode.D) { g.run(d, n.Body) })
	case "Framed":
		d.FramedFn(n.N, func(d *decode.D) { g.run(d, n.Body) })
	case "Limited":
		d.LimitedFn(n.N, func(d *decode.D) { g.run(d, n.Body) })
	case "Range":
		d.RangeFn(n.Pos, n.N, func(d *decode.D) { g.run(d, n.Body) })
	case "Format":
		d.FieldFormat(n.Name, g.subGroup(n), nil)
	case "FormatLen":
		d.FieldFormatLen(n.Name, n.N, g.subGroup(n), nil)
	case "FormatRange":
		d.FieldFormatRange(n.Name, n.Pos, n.N, g.subGroup(n), nil)
	case "FormatBitBuf":
		d.FieldFormatBitBuf(n.Name, g.derive(d, n), g.subGroup(n), nil)
	case "RootBitBuf":
		d.FieldRootBitBuf(n.Name, g.derive(d, n))
	case "ValueUint":
		d.FieldValueUint(n.Name, 42)
	case "Fatal":
		d.Fatalf("generated failure")
	}
}

// ---- generator ----

type gGen struct {
	rng   *gen.Rand
	names int
	nodes int
	max   int
}

func (g *gGen) name() string {
	g.names++
	return fmt.Sprintf("f%d", g.names)
}

// body generates a sequence for a window of `avail` bits starting at relative position 0 (positions are
// tracked approximately: programs that run out of bits are wanted, they produce partial trees)
func (g *gGen) body(depth int, avail int64, inWindowBase int64) []*gNode {
	var out []*gNode
	n := 1 + g.rng.Intn(5)
	pos := inWindowBase
	for i := 0; i < n && g.nodes < g.max; i++ {
		g.nodes++
		k := g.rng.Intn(20)
		if depth <= 0 && k >= 8 && k != 18 {
			k = g.rng.Intn(8)
		}
		switch {
		case k < 4:
			w := int64(1 + g.rng.Intn(24))
			if g.rng.Intn(6) == 0 {
				w = int64(1 + g.rng.Intn(64))
			}
			nm := g.name()
			if g.rng.Intn(30) == 0 {
				// a repeated field name (data-driven names in real decoders): in a struct the decode must stop there
				for _, prev := range out {
					if prev.Name != "" {
						nm = prev.Name
						break
					}
				}
			}
			out = append(out, &gNode{Op: gen.Pick(g.rng, []string{"U", "U", "S"}), Name: nm, N: w})
			pos += w
		case k < 6:
			w := int64(g.rng.Intn(40))
			out = append(out, &gNode{Op: "Raw", Name: g.name(), N: w})
			pos += w
		case k == 6:
			out = append(out, &gNode{Op: "ValueUint", Name: g.name()})
		case k == 7:
			d := int64(g.rng.Intn(17)) - 4
			out = append(out, &gNode{Op: "SeekRel", Pos: d})
			pos += d
		case k < 10:
			out = append(out, &gNode{Op: gen.Pick(g.rng, []string{"Struct", "Struct", "Array"}), Name: g.name(), Body: g.body(depth-1, avail, pos)})
		case k == 10:
			t := int64(g.rng.Intn(int(max(avail, 1)) + 8))
			out = append(out, &gNode{Op: "SeekAbs", Pos: t})
			pos = t
		case k == 11:
			t := int64(g.rng.Intn(int(max(avail, 1)) + 1))
			out = append(out, &gNode{Op: "SeekAbsFn", Pos: t, Body: g.body(depth-1, avail, t)})
		case k < 14:
			w := int64(g.rng.Intn(72))
			out = append(out, &gNode{Op: gen.Pick(g.rng, []string{"Framed", "Limited"}), N: w, Body: g.body(depth-1, avail, pos)})
			pos += w
		case k == 14:
			t := int64(g.rng.Intn(int(max(avail, 1)) + 1))
			out = append(out, &gNode{Op: "Range", Pos: t, N: int64(g.rng.Intn(64)), Body: g.body(depth-1, avail, t)})
		case k == 15:
			// (a zero Range means "whole buffer" in decode.Options: windows are >= 1 bit)
			w := int64(1 + g.rng.Intn(80))
			out = append(out, &gNode{Op: "FormatLen", Name: g.name(), N: w, Arr: g.rng.Intn(3) == 0, Body: g.body(depth-1, w, 0)})
			pos += w
		case k == 16:
			t := int64(g.rng.Intn(int(max(avail, 1)) + 1))
			w := int64(1 + g.rng.Intn(64))
			out = append(out, &gNode{Op: "FormatRange", Name: g.name(), Pos: t, N: w, Arr: g.rng.Intn(3) == 0, Body: g.body(depth-1, w, 0)})
		case k == 17:
			nb := int64(g.rng.Intn(9))
			op := "FormatBitBuf"
			if g.rng.Intn(3) == 0 {
				op = "RootBitBuf"
			}
			nd := &gNode{Op: op, Name: g.name(), N: nb, Xor: byte(g.rng.Intn(256)), Arr: g.rng.Intn(3) == 0}
			if op == "FormatBitBuf" {
				nd.Body = g.body(depth-1, nb*8, 0)
			}
			out = append(out, nd)
		case k == 18:
			if g.rng.Intn(4) == 0 {
				out = append(out, &gNode{Op: "Fatal"})
			}
		default:
			if depth > 0 {
				// FieldFormat: the body starts with a plain field so that the sub-decode has a real child
				body := append([]*gNode{{Op: "U", Name: g.name(), N: int64(1 + g.rng.Intn(16))}}, g.body(depth-1, max(avail-pos, 0), 0)...)
				out = append(out, &gNode{Op: "Format", Name: g.name(), Arr: g.rng.Intn(4) == 0, Body: body})
				pos += 16 // approximately
				break
			}
			w := int64(8 * (1 + g.rng.Intn(4)))
			out = append(out, &gNode{Op: "U", Name: g.name(), N: w})
			pos += w
		}
	}
	return out
}

// ---- comparison ----

func gCompare(path string, e *eVal, v *decode.Value, issues *[]string, base int64) {
	add := func(format string, a ...any) {
		if len(*issues) < 6 {
			*issues = append(*issues, path+": "+fmt.Sprintf(format, a...))
		}
	}
	if v.Name != e.Name {
		add("name %q, expected %q", v.Name, e.Name)
		return
	}
	if v.IsRoot != e.IsRoot {
		add("IsRoot %v, expected %v", v.IsRoot, e.IsRoot)
	}
	if v.Range.Start != e.Start || v.Range.Len != e.Len {
		if e.IsRoot && base != 0 && v.Range.Len == e.Len && v.Range.Start == e.Start-base {
			// the one listed defect: a nested root created inside a *Len/*Range sub-decode keeps a start that is
			// relative to the sub-decode window (decode() rebases with WalkRootPreOrder, which skips nested roots)
			add("[nested-root-start-relative-to-subdecode-window] range %d:%d, expected %d:%d", v.Range.Start, v.Range.Len, e.Start, e.Len)
		} else {
			add("range %d:%d, expected %d:%d (%s)", v.Range.Start, v.Range.Len, e.Start, e.Len, e.Kind)
		}
	}
	switch e.Kind {
	case "struct", "array":
		c, ok := v.V.(*decode.Compound)
		if !ok || c.IsArray != (e.Kind == "array") {
			add("kind %T, expected %s", v.V, e.Kind)
			return
		}
		var real []*decode.Value
		for _, ch := range c.Children {
			if isGap(ch) {
				continue // C04's subject
			}
			real = append(real, ch)
		}
		if len(real) != len(e.Children) {
			var rn, en []string
			for _, x := range real {
				rn = append(rn, x.Name)
			}
			for _, x := range e.Children {
				en = append(en, x.Name)
			}
			add("children %v, expected %v", rn, en)
			return
		}
		cbase := base
		if e.IsRoot {
			cbase = 0 // children live in the root's own buffer
		} else if e.GapScope || e.FmtSub {
			cbase = e.Start // a sub-decode window starting at e.Start of the enclosing buffer
		}
		// the listed defect also shows as ORDER: inside a *Len/*Range sub-decode window a nested root sorts by its
		// un-rebased start. If only the order differs and a nested root is among the children, compare by name and
		// tag the issue with the listed signature.
		if cbase != 0 && e.Kind == "struct" {
			hasRoot, orderDiffers := false, false
			byName := map[string]*decode.Value{}
			for i, ec := range e.Children {
				if ec.IsRoot {
					hasRoot = true
				}
				if real[i].Name != ec.Name {
					orderDiffers = true
				}
				byName[real[i].Name] = real[i]
			}
			if hasRoot && orderDiffers && len(byName) == len(e.Children) {
				ok := true
				for _, ec := range e.Children {
					if byName[ec.Name] == nil {
						ok = false
					}
				}
				if ok {
					add("[nested-root-start-relative-to-subdecode-window] field order differs")
					for _, ec := range e.Children {
						gCompare(path+"."+ec.Name, ec, byName[ec.Name], issues, cbase)
					}
					return
				}
			}
		}
		for i, ec := range e.Children {
			gCompare(path+"."+ec.Name, ec, real[i], issues, cbase)
		}
		// indices (with gaps counted, as the real tree has them)
		for i, ch := range c.Children {
			want := -1
			if c.IsArray {
				want = i
			}
			if ch.Index != want {
				add("child %q has Index %d, expected %d", ch.Name, ch.Index, want)
				break
			}
		}
	case "uint":
		if s, ok := v.V.(*scalar.Uint); !ok || s.Actual != e.Uval {
			add("value %v, expected uint %d", v.V, e.Uval)
		}
	case "sint":
		if s, ok := v.V.(*scalar.Sint); !ok || s.Actual != e.Sval {
			add("value %v, expected sint %d", v.V, e.Sval)
		}
	case "raw":
		if _, ok := v.V.(*scalar.BitBuf); !ok {
			add("value %T, expected raw bits", v.V)
		}
	case "synthetic":
		if !isSynthetic(v) {
			add("expected a synthetic value")
		}
	}
}

func c03Gendec(run *ev.Run) {
	n := run.Pick(4000, 300000)
	depth := run.Pick(3, 5)
	for id := 0; id < n; id++ {
		rng := gen.New(run.Seed).Fork(0xC03D0000 + uint64(id))
		nbytes := rng.Intn(24)
		data := rng.Bytes(nbytes)
		L := int64(nbytes) * 8
		gg := &gGen{rng: rng, max: run.Pick(30, 60)}
		prog := gg.body(depth, L, 0)
		rootArr := rng.Intn(4) == 0
		force := rng.Intn(3) == 0 // forced decoding only changes d.Errorf; the combinators fail through IO errors / Fatalf
		if force {
			run.Count("gendec:programs-forced", 1)
		}
		// reference
		kind := "struct"
		if rootArr {
			kind = "array"
		}
		exp := &eVal{Name: "", Kind: kind, IsRoot: true, GapScope: true, Win: L}
		ref := &gRef{buf: bstrFromBytes(data, -1), limit: L, cur: exp, ops: map[string]int{}}
		okRef := ref.try(prog)
		gFinish(exp)
		// real
		real := &gReal{}
		f := &decode.Format{Name: "groot", RootArray: rootArr, DecodeFn: func(d *decode.D) any { real.run(d, prog); return nil }}
		grp := &decode.Group{Name: "groot", Formats: []*decode.Format{f}}
		var v *decode.Value
		var derr error
		pi := guardStack(func() {
			v, _, derr = decode.Decode(context.Background(), bitio.NewBitReader(append([]byte(nil), data...), -1), grp, decode.Options{IsRoot: true, FillGaps: true, Force: force})
		})
		run.Eval(1)
		run.Count("gendec:programs", 1)
		for op, c := range ref.ops {
			run.Count("gendec:op:"+op, int64(c))
		}
		progStr := gBody(prog)
		replay := map[string]any{"program": progStr, "data_hex": fmt.Sprintf("%x", data), "root_array": rootArr}
		if pi != nil {
			run.Violation("gendec:panic:"+panicSig(pi), fmt.Sprintf("program {%s} on %x panicked: %v\n%s", progStr, data, pi.Value, trunc(pi.Stack, 1500)), replay)
			continue
		}
		if v == nil {
			run.Violation("gendec:no-tree", fmt.Sprintf("program {%s} on %x returned no tree (err %v)", progStr, data, derr), replay)
			continue
		}
		if okRef != (derr == nil) {
			run.Violation("gendec:failure-disagreement", fmt.Sprintf("program {%s} on %x: reference says fails=%v, decode error: %v", progStr, data, !okRef, derr), replay)
			continue
		}
		if !okRef {
			run.Count("gendec:programs-failing-midway (partial trees)", 1)
		}
		var issues []string
		gCompare("", exp, v, &issues, 0)
		var st treeStats
		for _, is := range checkTree(v, &st) {
			issues = append(issues, "walker "+is.Sig+": "+is.Desc)
		}
		if len(issues) > 0 {
			// signature: the combinators involved in the first differing path are not known; use the op set
			var ops []string
			for op := range ref.ops {
				if op != "U" && op != "S" && op != "Raw" {
					ops = append(ops, op)
				}
			}
			sort.Strings(ops)
			what := "tree-differs"
			allListed := true
			for _, is := range issues {
				if !strings.Contains(is, "[nested-root-start-relative-to-subdecode-window]") {
					allListed = false
				}
			}
			if allListed {
				run.Violation("gendec:nested-root-start-relative-to-subdecode-window", fmt.Sprintf("program {%s} on %x (root array=%v):\n  %s", progStr, data, rootArr, strings.Join(issues, "\n  ")), replay)
				continue
			}
			if strings.HasPrefix(issues[0], "walker") || strings.Contains(strings.Join(issues, " "), "walker") && len(issues) == 1 {
				what = "walker"
			}
			partial := ""
			if !okRef {
				partial = ":partial"
			}
			run.Violation("gendec:"+what+partial+":"+strings.Join(ops, "+"), fmt.Sprintf("program {%s} on %x (root array=%v):\n  %s", progStr, data, rootArr, strings.Join(issues, "\n  ")), replay)
			continue
		}
		run.Count("gendec:values-compared", int64(st.Values))
		if st.Compounds > 1 {
			run.Distinct("gendec:" + progStr)
		}
		if id < 3 {
			run.Sample(map[string]any{"program": progStr, "data_hex": fmt.Sprintf("%x", data), "fails": !okRef})
		}
	}
}
