package main

// C09 reference model: a binary is (source bit string, range, unit, front padding).
// Written from doc/usage.md ("Binary", "Binary array", "Binary values", tobits/tobytes/
// tobitsrange/tobytesrange) and the option names in pkg/interp/binary.jq; never calls fq.
//
// Documented behaviour the model encodes (doc/usage.md unless noted):
//   * "Binaries are raw bits with a unit size, 1 (bits) or 8 (bytes), that can have a non-byte
//     aligned size. Will act as byte padded strings in standard jq expressions."  -> tostring /
//     to_hex see the range bits RIGHT padded to a byte.
//   * "tobytes will, if needed zero pad most significant bits to be byte aligned" -> FRONT padding.
//   * "tobits: ... don't preserve source range", "tobitsrange: ... preserve source range".
//   * "1234 | tobits produces a binary with the unsigned big-endian integer 1234 with enough bits to
//     represent the number ... This is different to how numbers work inside binary arrays where they
//     are limited to 0-255."   (0 needs one bit: binary.fqtest `0 | tobits`.)
//   * ".[index] access bit or byte at index. Index is in units", ".[start:end] ... in units",
//     "support negative indices to index from end", "Slice binary from start to end preserve source
//     range", "explode output an array with all byte or bits as integers".
//   * Binary array: "Number is a byte with value be 0-255 / String it's UTF8 codepoint bytes / Binary
//     as is / Binary array used recursively".
//   * tobits($n)/tobytes($n) (binary.jq pad_to_units; binary.fqtest `1 | tobytes(range(5))`):
//     front pad to a multiple of n units, n=0 behaves as n=1.
//   NB doc/usage.md says "[0x12, 0x34, 0x56] | tobytes[1] is 0x35": a typo in the docs, byte 1 of
//   that binary is 0x34 (the neighbouring slice examples of the same document say so too).

import (
	"encoding/hex"
	"fmt"
	"math/big"
	"strings"
)

// ---- bit strings (same construction as c01's bstr, own prefix) ----

type c09Bits struct {
	b []byte // packed, MSB first
	n int64
}

func (s c09Bits) bit(i int64) byte { return (s.b[i>>3] >> (7 - uint(i&7))) & 1 }

type c09Builder struct {
	b []byte
	n int64
}

func (w *c09Builder) add(bit byte) {
	if w.n&7 == 0 {
		w.b = append(w.b, 0)
	}
	if bit != 0 {
		w.b[w.n>>3] |= 1 << (7 - uint(w.n&7))
	}
	w.n++
}
func (w *c09Builder) addBits(s c09Bits, off, n int64) {
	if w.n&7 == 0 && off&7 == 0 {
		for n >= 8 {
			w.b = append(w.b, s.b[off>>3])
			w.n += 8
			off += 8
			n -= 8
		}
	}
	for i := int64(0); i < n; i++ {
		w.add(s.bit(off + i))
	}
}
func (w *c09Builder) bits() c09Bits { return c09Bits{b: w.b, n: w.n} }

func c09BitsFromBytes(b []byte) c09Bits { return c09Bits{b: b, n: int64(len(b)) * 8} }

func (s c09Bits) slice(off, n int64) c09Bits {
	var w c09Builder
	w.addBits(s, off, n)
	return w.bits()
}
func c09Concat(ss ...c09Bits) c09Bits {
	var w c09Builder
	for _, s := range ss {
		w.addBits(s, 0, s.n)
	}
	return w.bits()
}
func c09Zeros(n int64) c09Bits { return c09Bits{b: make([]byte, (n+7)/8), n: n} }

// rightPadded is the "byte padded string" view: a trailing partial byte is filled with zero bits.
func (s c09Bits) rightPadded() []byte {
	nb := (s.n + 7) / 8
	out := make([]byte, nb)
	copy(out, s.b[:nb])
	if s.n&7 != 0 {
		out[nb-1] &= 0xff << (8 - uint(s.n&7))
	}
	return out
}

// uint reads the whole bit string as one unsigned big-endian integer (via a front padded copy).
func (s c09Bits) uint() *big.Int {
	pad := (8 - s.n%8) % 8
	return new(big.Int).SetBytes(c09Concat(c09Zeros(pad), s).b)
}

// c09BitsFromUint: minimal big-endian representation, 0 is the single bit 0.
func c09BitsFromUint(v *big.Int) c09Bits {
	var w c09Builder
	if v.Sign() == 0 {
		w.add(0)
		return w.bits()
	}
	for i := v.BitLen() - 1; i >= 0; i-- {
		w.add(byte(v.Bit(i)))
	}
	return w.bits()
}

func (s c09Bits) equal(o c09Bits) bool {
	if s.n != o.n {
		return false
	}
	for i := int64(0); i < s.n; i++ {
		if s.bit(i) != o.bit(i) {
			return false
		}
	}
	return true
}

func (s c09Bits) String() string {
	var sb strings.Builder
	for i := int64(0); i < s.n && i < 160; i++ {
		sb.WriteByte('0' + s.bit(i))
	}
	if s.n > 160 {
		fmt.Fprintf(&sb, "…(%d bits)", s.n)
	}
	return sb.String()
}

// ---- values ----

type c09Kind int

const (
	c09KBin c09Kind = iota
	c09KStr
	c09KNum
	c09KList
	c09KNull
	c09KBad // boolean or object: never convertible
	c09KErr
)

const (
	c09Plain  = 0 // a binary value
	c09Decode = 1 // a decode value: only its bit range is modelled (tobits/tobytes/arrays/to_hex)
	c09Open   = 2 // value returned by open: the whole file as a bytes binary
)

type c09Val struct {
	k c09Kind
	// binary
	src    c09Bits
	start  int64
	n      int64
	unit   int
	pad    int64
	flavor int
	// others
	s    string
	num  *big.Int
	list []*c09Val
	why  string // error reason (signature fragment) / kind of bad value
}

func c09ErrVal(why string) *c09Val { return &c09Val{k: c09KErr, why: why} }
func c09NumVal(v *big.Int) *c09Val { return &c09Val{k: c09KNum, num: v} }
func c09IntVal(v int64) *c09Val    { return &c09Val{k: c09KNum, num: big.NewInt(v)} }

func (v *c09Val) rangeBits() c09Bits { return v.src.slice(v.start, v.n) }
func (v *c09Val) units() int64       { return v.n / int64(v.unit) }

func (v *c09Val) kindName() string {
	switch v.k {
	case c09KBin:
		switch v.flavor {
		case c09Decode:
			return "decode-value"
		case c09Open:
			return "open-value"
		}
		if v.unit == 1 {
			return "bits-unit"
		}
		return "bytes-unit"
	case c09KStr:
		return "string"
	case c09KNum:
		if v.num.Sign() < 0 {
			return "negative"
		}
		if v.num.BitLen() > 64 {
			return "bignumber"
		}
		if v.num.Cmp(big.NewInt(255)) > 0 {
			return "number>255"
		}
		return "number"
	case c09KList:
		return "array"
	case c09KNull:
		return "null"
	case c09KBad:
		return v.why
	}
	return "error"
}

func (v *c09Val) resultKind() string {
	switch v.k {
	case c09KBin:
		return "bits"
	case c09KStr:
		return "string"
	case c09KNum:
		return "number"
	case c09KList:
		return "list"
	case c09KNull:
		return "null"
	case c09KErr:
		return "error"
	}
	return "bad"
}

func (v *c09Val) String() string {
	switch v.k {
	case c09KBin:
		return fmt.Sprintf("binary{start=%d len=%d unit=%d pad=%d srclen=%d bits=%s}", v.start, v.n, v.unit, v.pad, v.src.n, v.rangeBits())
	case c09KStr:
		return fmt.Sprintf("%q", v.s)
	case c09KNum:
		return v.num.String()
	case c09KList:
		var ss []string
		for i, e := range v.list {
			if i >= 40 {
				ss = append(ss, "…")
				break
			}
			ss = append(ss, e.String())
		}
		return "[" + strings.Join(ss, ", ") + "]"
	case c09KNull:
		return "null"
	case c09KBad:
		return v.why
	}
	return "error(" + v.why + ")"
}

// hasOpaque: contains a decode value / open value / bad value that is not a comparable result.
func (v *c09Val) hasOpaque() bool {
	switch v.k {
	case c09KBin:
		return v.flavor != c09Plain
	case c09KBad:
		return true
	case c09KList:
		for _, e := range v.list {
			if e.hasOpaque() {
				return true
			}
		}
	}
	return false
}

// ---- conversion to bits (binary array rules) ----

// c09Flatten returns the bits a value contributes; why != "" means the conversion must fail.
func c09Flatten(v *c09Val, inArray bool) (c09Bits, string) {
	switch v.k {
	case c09KBin:
		// "Binary as is": the range bits, any bit length, no padding
		return v.rangeBits(), ""
	case c09KStr:
		return c09BitsFromBytes([]byte(v.s)), ""
	case c09KNum:
		if inArray {
			// "Number is a byte with value be 0-255"
			if v.num.Sign() < 0 {
				return c09Bits{}, "member-negative"
			}
			if v.num.Cmp(big.NewInt(255)) > 0 {
				if v.num.Cmp(big.NewInt(256)) == 0 {
					return c09Bits{}, "member-256"
				}
				if v.num.BitLen() > 64 {
					return c09Bits{}, "member-big"
				}
				return c09Bits{}, "member-gt255"
			}
			return c09BitsFromBytes([]byte{byte(v.num.Int64())}), ""
		}
		if v.num.Sign() < 0 {
			return c09Bits{}, "outside-domain"
		}
		return c09BitsFromUint(v.num), ""
	case c09KList:
		var w c09Builder
		for _, e := range v.list {
			b, why := c09Flatten(e, true)
			if why != "" {
				return c09Bits{}, why
			}
			w.addBits(b, 0, b.n)
		}
		return w.bits(), ""
	case c09KNull:
		if inArray {
			return c09Bits{}, "member-null"
		}
		return c09Bits{}, "input-null"
	case c09KBad:
		if inArray {
			return c09Bits{}, "member-" + v.why
		}
		return c09Bits{}, "input-" + v.why
	}
	return c09Bits{}, v.why
}

// c09To implements tobits/tobytes/tobits(n)/tobytes(n)/tobitsrange/tobytesrange.
func c09To(v *c09Val, unit int, keep bool, padUnits int) *c09Val {
	if v.k == c09KErr {
		return v
	}
	var src c09Bits
	var start, n int64
	if v.k == c09KBin {
		src, start, n = v.src, v.start, v.n
	} else {
		b, why := c09Flatten(v, false)
		if why != "" {
			return c09ErrVal(why)
		}
		src, start, n = b, 0, b.n
	}
	padTo := int64(unit * padUnits)
	if padTo == 0 {
		padTo = int64(unit)
	}
	pad := (padTo - n%padTo) % padTo
	if keep {
		// source range preserved; the front padding only exists when the value is output
		return &c09Val{k: c09KBin, src: src, start: start, n: n, unit: unit, pad: pad}
	}
	m := c09Concat(c09Zeros(pad), src.slice(start, n))
	return &c09Val{k: c09KBin, src: m, start: 0, n: m.n, unit: unit}
}

func c09Index(v *c09Val, i int64) *c09Val {
	l := v.units()
	if i < 0 {
		i += l
	}
	if i < 0 || i >= l {
		return &c09Val{k: c09KNull}
	}
	u := int64(v.unit)
	return c09NumVal(v.src.slice(v.start+i*u, u).uint())
}

func c09Clamp(i, lo, hi int64) int64 {
	if i < 0 {
		i += hi
	}
	if i < lo {
		return lo
	}
	if i > hi {
		return hi
	}
	return i
}

// c09Slice: normal jq slice semantics on units (a or b nil = open ended); keeps the source.
func c09Slice(v *c09Val, a, b *int64) *c09Val {
	l := v.units()
	s, e := int64(0), l
	if a != nil {
		s = c09Clamp(*a, 0, l)
	}
	if b != nil {
		e = c09Clamp(*b, s, l)
	}
	if e < s {
		e = s
	}
	u := int64(v.unit)
	return &c09Val{k: c09KBin, src: v.src, start: v.start + s*u, n: (e - s) * u, unit: v.unit}
}

func c09Key(v *c09Val, name string) *c09Val {
	u := int64(v.unit)
	switch name {
	case "bits", "bytes":
		nu := 1
		if name == "bytes" {
			nu = 8
		}
		pad := int64(0)
		if nu == v.unit {
			pad = v.pad
		}
		return &c09Val{k: c09KBin, src: v.src, start: v.start, n: v.n, unit: nu, pad: pad}
	case "size":
		return c09IntVal(v.n / u)
	case "start":
		return c09IntVal(v.start / u)
	case "stop":
		return c09IntVal((v.start + v.n + u - 1) / u)
	case "unit":
		return c09IntVal(u)
	}
	panic("c09Key " + name)
}

func c09Length(v *c09Val) *c09Val   { return c09IntVal(v.units()) }
func c09ToNumber(v *c09Val) *c09Val { return c09NumVal(v.rangeBits().uint()) }
func c09ToString(v *c09Val) *c09Val {
	return &c09Val{k: c09KStr, s: string(v.rangeBits().rightPadded())}
}
func c09Explode(v *c09Val) *c09Val {
	l := v.units()
	out := &c09Val{k: c09KList, list: make([]*c09Val, 0, l)}
	for i := int64(0); i < l; i++ {
		out.list = append(out.list, c09Index(v, i))
	}
	return out
}

// c09ToHex: "Encode binary into hex string" of anything convertible, byte padded at the end.
func c09ToHex(v *c09Val) *c09Val {
	b, why := c09Flatten(v, false)
	if why != "" {
		return c09ErrVal(why)
	}
	return &c09Val{k: c09KStr, s: hex.EncodeToString(b.rightPadded())}
}

func c09ListVal(vs []*c09Val) *c09Val {
	for _, e := range vs {
		if e.k == c09KErr {
			return e
		}
	}
	return &c09Val{k: c09KList, list: vs}
}
