package main

// C09 program generator: every node of an expression tree carries its jq text and the value the
// reference model predicts, so generation is value directed (operators are chosen by the kind of
// the value they receive) and every sub-expression can be re-evaluated alone for minimisation.

import (
	"encoding/hex"
	"encoding/json"
	"fmt"
	"math/big"
	"strings"

	"verif/gen"
)

type c09Node struct {
	op      string // operator class (counting, signatures)
	detail  string // variant (signatures), e.g. negative-start
	rel     string // jq text of the pipeline this node ends, relative to the pipeline's root
	ctx     *c09Node
	in      *c09Node   // input node (nil for leaves and for ".")
	members []*c09Node // array nodes: last node of each member pipeline
	v       *c09Val
	shape   string // expression shape, constants stripped
	h       int    // height: operators applied along the deepest path
	risky   bool   // a direct operator on an open value is inside (evaluated alone)
	law     string // law checked on the observed list (law nodes only)
	lawArg  []int64
}

// closed is the self-contained jq expression of the node.
func (n *c09Node) closed() string {
	if n.ctx == nil {
		return n.rel
	}
	return "(" + n.ctx.closed() + ") | (" + n.rel + ")"
}

func (n *c09Node) kids() []*c09Node {
	var ks []*c09Node
	if n.in != nil {
		ks = append(ks, n.in)
	}
	return append(ks, n.members...)
}

func (n *c09Node) walk(fn func(*c09Node)) {
	if n.in != nil {
		n.in.walk(fn)
	}
	for _, m := range n.members {
		m.walk(fn)
	}
	fn(n)
}

type c09Gen struct {
	r      *gen.Rand
	files  map[string][]byte
	prefix string
	nfile  int
	maxH   int
	// directOnOpen allows slice/index/length/... straight on the value returned by open
	directOnOpen bool
}

func c09NewGen(r *gen.Rand, prefix string, maxH int) *c09Gen {
	return &c09Gen{r: r, files: map[string][]byte{}, prefix: prefix, maxH: maxH}
}

func c09Quote(s string) string {
	b, err := json.Marshal(s)
	if err != nil {
		panic(err)
	}
	return string(b)
}

// ---- leaves ----

var c09StrPieces = []string{"a", "bc", "fq", "é", "日本", "😀", "\u0000", "\n", " ", "ÿ", "~", "ß", "0", "\u007f", "\u0080", "€", "Z"}

// IPv4 header layout (RFC 791): name, first bit, bit length. payload follows the 20 byte header.
var c09IPv4Fields = []struct {
	name       string
	start, len int64
}{
	{"version", 0, 4}, {"ihl", 4, 4}, {"dscp", 8, 6}, {"ecn", 14, 2}, {"total_length", 16, 16},
	{"identification", 32, 16}, {"reserved", 48, 1}, {"dont_fragment", 49, 1}, {"more_fragments", 50, 1},
	{"fragment_offset", 51, 13}, {"ttl", 64, 8}, {"protocol", 72, 8}, {"header_checksum", 80, 16},
	{"source_ip", 96, 32}, {"destination_ip", 128, 32}, {"payload", 160, -1},
}

// c09BigSizes straddle the chunk sizes of the byte-copy paths (512 B string/number reads, 4 KiB, 32 KiB copy
// buffer, 64 KiB compaction thresholds): an unaligned member followed by a member of such a size is what a
// wrong fast path in the bit->byte adapters needs (seed C09-C).
var c09BigSizes = []int{511, 512, 513, 1023, 1024, 1025, 4095, 4096, 4097, 32767, 32768, 32769, 40000, 65535, 65536, 65537, 70001}

func (g *c09Gen) randBytesBig(maxSize int) []byte {
	r := g.r
	if r.Intn(16) == 0 {
		n := gen.Pick(r, c09BigSizes)
		if n <= maxSize {
			return r.Bytes(n)
		}
	}
	return g.randBytes()
}

func (g *c09Gen) randBytes() []byte {
	r := g.r
	switch r.Intn(10) {
	case 0:
		return []byte{}
	case 1:
		return r.Bytes(1)
	case 2:
		return r.Bytes(13 + r.Intn(28))
	case 3:
		b := r.Bytes(1 + r.Intn(6))
		for i := range b {
			b[i] = gen.Pick(r, []byte{0, 0xff, 0x80, 0x01})
		}
		return b
	}
	return r.Bytes(1 + r.Intn(12))
}

func (g *c09Gen) newFile(b []byte) string {
	name := fmt.Sprintf("%s%d.bin", g.prefix, g.nfile)
	g.nfile++
	g.files[name] = b
	return name
}

func (g *c09Gen) leafNode(kind, text string, v *c09Val) *c09Node {
	return &c09Node{op: "leaf:" + kind, rel: text, v: v, shape: kind}
}

func (g *c09Gen) leafStr() *c09Node {
	r := g.r
	var sb strings.Builder
	kind := "string-ascii"
	switch r.Intn(8) {
	case 0:
		kind = "string-empty"
	case 1, 2, 3:
		for i, n := 0, 1+r.Intn(8); i < n; i++ {
			sb.WriteByte(byte(0x20 + r.Intn(0x5f)))
		}
	default:
		kind = "string-nonascii"
		for i, n := 0, 1+r.Intn(5); i < n; i++ {
			sb.WriteString(gen.Pick(r, c09StrPieces))
		}
		ascii := true
		for _, c := range []byte(sb.String()) {
			if c >= 0x80 {
				ascii = false
			}
		}
		if ascii {
			sb.WriteString("é")
		}
	}
	s := sb.String()
	return g.leafNode(kind, c09Quote(s), &c09Val{k: c09KStr, s: s})
}

func (g *c09Gen) leafHex() *c09Node {
	b := g.randBytesBig(4097)
	return g.leafNode("hex", c09Quote(hex.EncodeToString(b))+" | from_hex",
		&c09Val{k: c09KBin, src: c09BitsFromBytes(b), n: int64(len(b)) * 8, unit: 8})
}

func (g *c09Gen) leafOpen() *c09Node {
	b := g.randBytesBig(1 << 20)
	name := g.newFile(b)
	kind := "open"
	if len(b) == 0 {
		kind = "open-empty"
	}
	return g.leafNode(kind, c09Quote(name)+" | open",
		&c09Val{k: c09KBin, src: c09BitsFromBytes(b), n: int64(len(b)) * 8, unit: 8, flavor: c09Open})
}

func (g *c09Gen) leafDecode() *c09Node {
	r := g.r
	plen := 1 + r.Intn(8)
	pkt := r.Bytes(20 + plen)
	pkt[0] = 0x45
	pkt[2], pkt[3] = 0, byte(20+plen)
	pkt[6] |= 0x20 // more_fragments: the payload is a raw field, not a nested format
	f := c09IPv4Fields[r.Intn(len(c09IPv4Fields))]
	if r.Intn(3) == 0 {
		f = c09IPv4Fields[len(c09IPv4Fields)-1]
	}
	flen := f.len
	if flen < 0 {
		flen = int64(plen) * 8
	}
	var text, kind string
	if r.Bool() {
		text = c09Quote(hex.EncodeToString(pkt)) + " | from_hex"
		kind = "decode-hex"
	} else {
		text = c09Quote(g.newFile(pkt)) + " | open"
		kind = "decode-file"
	}
	if f.name == "payload" {
		kind += "-raw"
	}
	text += ` | decode("ipv4_packet") | .` + f.name
	return g.leafNode(kind, text, &c09Val{k: c09KBin, src: c09BitsFromBytes(pkt), start: f.start, n: flen, unit: 8, flavor: c09Decode})
}

func (g *c09Gen) leafNum() *c09Node {
	r := g.r
	var v *big.Int
	kind := "int-byte"
	switch r.Intn(10) {
	case 0, 1, 2, 3:
		v = big.NewInt(int64(gen.Pick(r, []int{0, 1, 2, 5, 127, 128, 255, r.Intn(256), r.Intn(256)})))
	case 4, 5, 6:
		kind = "int-larger"
		switch r.Intn(5) {
		case 0:
			v = big.NewInt(256)
		case 1:
			v = big.NewInt(int64(256 + r.Intn(70000)))
		case 2:
			v = new(big.Int).SetUint64(r.U64() >> uint(r.Intn(55)))
			if v.Cmp(big.NewInt(256)) < 0 {
				v = big.NewInt(65535)
			}
		case 3:
			v = new(big.Int).Lsh(big.NewInt(1), uint(8+r.Intn(55)))
		default:
			v = new(big.Int).SetUint64(1<<63 - 1 - uint64(r.Intn(2)))
		}
	default:
		kind = "int-big"
		switch r.Intn(4) {
		case 0:
			v = new(big.Int).Lsh(big.NewInt(1), 64)
		case 1:
			v = new(big.Int).Add(new(big.Int).Lsh(big.NewInt(1), 64), big.NewInt(1))
		case 2:
			v = new(big.Int).Lsh(big.NewInt(1), uint(65+r.Intn(80)))
			v.Sub(v, big.NewInt(int64(r.Intn(3))))
		default:
			v = new(big.Int).SetBytes(append([]byte{byte(1 + r.Intn(255))}, r.Bytes(8+r.Intn(10))...))
		}
	}
	return g.leafNode(kind, g.numText(v), c09NumVal(v))
}

// numText: the literal, or (1 in 3) a subtraction of two 24-digit literals that evaluates to the same number as a
// big integer — the representation that numbers taken from binaries and decode values have (.size, .start,
// tonumber); fast paths that look at the Go type see a different type for the same value (seed C09-F)
func (g *c09Gen) numText(v *big.Int) string {
	if g.r.Intn(3) != 0 {
		return v.String()
	}
	base, _ := new(big.Int).SetString("100000000000000000000000", 10)
	if v.CmpAbs(base) >= 0 {
		return v.String()
	}
	return "(" + base.String() + " - " + new(big.Int).Sub(base, v).String() + ")"
}

func (g *c09Gen) leafBad() *c09Node {
	switch g.r.Intn(5) {
	case 0:
		return g.leafNode("null", "null", &c09Val{k: c09KNull})
	case 1:
		return g.leafNode("bool", "true", &c09Val{k: c09KBad, why: "bool"})
	case 2:
		return g.leafNode("bool", "false", &c09Val{k: c09KBad, why: "bool"})
	case 3:
		return g.leafNode("object", "{}", &c09Val{k: c09KBad, why: "object"})
	}
	return g.leafNode("object", `{"a":1}`, &c09Val{k: c09KBad, why: "object"})
}

func (g *c09Gen) leaf(member bool) *c09Node {
	r := g.r
	k := r.Intn(100)
	switch {
	case k < 23:
		return g.leafStr()
	case k < 40:
		return g.leafNum()
	case k < 63:
		return g.leafHex()
	case k < 77:
		return g.leafOpen()
	case k < 95:
		return g.leafDecode()
	case k < 97:
		return g.leafBad()
	}
	if member {
		// only legal position of a negative number: an array member that must be rejected
		v := int64(-1 - r.Intn(300))
		return g.leafNode("int-negative", g.numText(big.NewInt(v)), c09IntVal(v))
	}
	return g.leafHex()
}

// ---- operators ----

func c09IsDirectOp(op string) bool {
	switch op {
	case "index", "slice", ".bits", ".bytes", "tonumber", "tostring", "explode", "length", ".size", ".start", ".stop", ".unit":
		return true
	}
	return false
}

func (g *c09Gen) mk(in *c09Node, op, detail, text, tok string, v *c09Val) *c09Node {
	if in.v.k == c09KErr {
		v = in.v
	}
	risky := in.risky
	if in.v.k == c09KBin && in.v.flavor == c09Open && c09IsDirectOp(op) {
		risky = true
	}
	return &c09Node{op: op, detail: detail, rel: in.rel + " | " + text, ctx: in.ctx, in: in, v: v,
		shape: in.shape + "|" + tok, h: in.h + 1, risky: risky}
}

func c09AlignDetail(v *c09Val) string {
	if v.k != c09KBin {
		return ""
	}
	if v.start%8 != 0 || v.n%8 != 0 {
		return "unaligned"
	}
	return "aligned"
}

func (g *c09Gen) opTo(in *c09Node, unit int, keep bool, padUnits int) *c09Node {
	name := "tobits"
	if unit == 8 {
		name = "tobytes"
	}
	op, text := name, name
	if keep {
		op, text = name+"range", name+"range"
	} else if padUnits >= 0 {
		op, text = name+"(n)", fmt.Sprintf("%s(%d)", name, padUnits)
	}
	if padUnits < 0 {
		padUnits = 0
	}
	return g.mk(in, op, c09AlignDetail(in.v), text, op, c09To(in.v, unit, keep, padUnits))
}

func (g *c09Gen) opIndex(in *c09Node, i int64) *c09Node {
	l := in.v.units()
	detail := "plain"
	switch {
	case i < -l || i >= l:
		detail = "beyond-end"
	case i < 0:
		detail = "negative"
	}
	if in.v.n%int64(in.v.unit) != 0 {
		detail += "-partial-unit"
	}
	return g.mk(in, "index", detail, fmt.Sprintf(".[%d]", i), "index("+detail+")", c09Index(in.v, i))
}

func (g *c09Gen) opSlice(in *c09Node, a, b *int64) *c09Node {
	l := in.v.units()
	detail := "plain"
	norm := func(p *int64, def int64) int64 {
		if p == nil {
			return def
		}
		if *p < 0 {
			return *p + l
		}
		return *p
	}
	na, nb := norm(a, 0), norm(b, l)
	switch {
	case na > nb:
		detail = "reversed"
	case a != nil && *a < 0:
		detail = "negative-start"
	case b != nil && *b < 0:
		detail = "negative-end"
	case na > l || nb > l || na < 0 || nb < 0:
		detail = "out-of-range"
	case a == nil || b == nil:
		detail = "open-ended"
	}
	sa, sb := "", ""
	if a != nil {
		sa = fmt.Sprint(*a)
	}
	if b != nil {
		sb = fmt.Sprint(*b)
	}
	if a == nil && b == nil {
		panic("c09: .[:] is not jq")
	}
	return g.mk(in, "slice", detail, ".["+sa+":"+sb+"]", "slice("+detail+")", c09Slice(in.v, a, b))
}

func (g *c09Gen) opSimple(in *c09Node, op string) *c09Node {
	var v *c09Val
	text := op
	switch op {
	case ".bits", ".bytes", ".size", ".start", ".stop", ".unit":
		v = c09Key(in.v, op[1:])
	case "tonumber":
		v = c09ToNumber(in.v)
	case "tostring":
		v = c09ToString(in.v)
	case "explode":
		v = c09Explode(in.v)
	case "length":
		v = c09Length(in.v)
	case "to_hex", "tohex":
		v = c09ToHex(in.v)
	default:
		panic("c09 op " + op)
	}
	detail := ""
	if op == "to_hex" || op == "tohex" || op == "tostring" || op == "tonumber" {
		detail = c09AlignDetail(in.v)
	}
	return g.mk(in, op, detail, text, op, v)
}

func (g *c09Gen) ident(ctx *c09Node) *c09Node {
	return &c09Node{op: ".", rel: ".", ctx: ctx, v: ctx.v, shape: ".", h: ctx.h, risky: false}
}

func (g *c09Gen) opArray(in *c09Node, members []*c09Node) *c09Node {
	h := in.h
	var texts, shapes []string
	var vals []*c09Val
	risky := in.risky
	for _, m := range members {
		if m.h > h {
			h = m.h
		}
		texts = append(texts, "("+m.rel+")")
		shapes = append(shapes, m.shape)
		vals = append(vals, m.v)
		risky = risky || m.risky
	}
	v := c09ListVal(vals)
	if in.v.k == c09KErr {
		v = in.v
	}
	return &c09Node{op: "array", rel: in.rel + " | [" + strings.Join(texts, ", ") + "]", ctx: in.ctx, in: in, members: members,
		v: v, shape: in.shape + "|[" + strings.Join(shapes, ",") + "]", h: h + 1, risky: risky}
}

func (g *c09Gen) pickBound(l int64) *int64 {
	r := g.r
	var v int64
	switch r.Intn(12) {
	case 0:
		return nil
	case 1:
		v = 0
	case 2:
		v = l
	case 3, 4:
		v = -1 - r.Int63n(l+3)
	case 5:
		v = l + 1 + r.Int63n(6)
	case 6:
		v = gen.Pick(r, []int64{1000000, -1000000, 1 << 31, -(1 << 31), 1 << 40})
	default:
		v = r.Int63n(l + 1)
	}
	return &v
}

func (g *c09Gen) randSlice(in *c09Node) *c09Node {
	l := in.v.units()
	if l > 0 && g.r.Intn(100) < 45 {
		// a non-empty in-range slice keeps the downstream operators meaningful
		s := g.r.Int63n(l)
		e := s + 1 + g.r.Int63n(l-s)
		if g.r.Intn(4) == 0 {
			return g.opSlice(in, c09P(s-l), c09P(e))
		}
		return g.opSlice(in, c09P(s), c09P(e))
	}
	a, b := g.pickBound(l), g.pickBound(l)
	if a == nil && b == nil {
		a = c09P(g.r.Int63n(l + 1))
	}
	return g.opSlice(in, a, b)
}

func (g *c09Gen) randTo(in *c09Node) *c09Node {
	r := g.r
	unit := 1
	if r.Bool() {
		unit = 8
	}
	switch r.Intn(6) {
	case 0, 1:
		return g.opTo(in, unit, false, -1)
	case 2, 3:
		return g.opTo(in, unit, true, -1)
	}
	return g.opTo(in, unit, false, gen.Pick(r, []int{0, 1, 2, 3, 3, 4, 5, 7, 8, 16}))
}

func (g *c09Gen) randArray(in *c09Node, maxH int) *c09Node {
	r := g.r
	n := 1 + r.Intn(4)
	if r.Intn(25) == 0 {
		n = 0
	}
	var ms []*c09Node
	for i := 0; i < n; i++ {
		if r.Intn(100) < 55 {
			ms = append(ms, g.pipe(g.ident(in), maxH-2, true))
		} else {
			ms = append(ms, g.pipe(g.leaf(true), maxH-2, true))
		}
	}
	return g.opArray(in, ms)
}

// step applies one random operator suited to the value; nil = nothing applicable.
func (g *c09Gen) step(n *c09Node, maxH int, mustConvert bool) *c09Node {
	r := g.r
	v := n.v
	canArray := n.h <= maxH-2 && !mustConvert
	switch v.k {
	case c09KErr:
		return nil
	case c09KBin:
		direct := v.flavor == c09Plain
		if v.flavor == c09Open && !mustConvert && g.directOnOpen && r.Intn(25) == 0 {
			direct = true // known defect area: operators straight on the open value
		}
		if mustConvert {
			direct = false
		}
		k := r.Intn(100)
		if !direct {
			switch {
			case k < 70 || !canArray:
				if k%9 == 0 {
					return g.opSimple(n, gen.Pick(r, []string{"to_hex", "tohex"}))
				}
				return g.randTo(n)
			default:
				return g.randArray(n, maxH)
			}
		}
		l := v.units()
		switch {
		case k < 20:
			return g.randSlice(n)
		case k < 30:
			var i int64
			switch r.Intn(6) {
			case 0:
				i = -1 - r.Int63n(l+2)
			case 1:
				i = l + r.Int63n(3)
			default:
				i = r.Int63n(l + 1)
			}
			return g.opIndex(n, i)
		case k < 55:
			return g.randTo(n)
		case k < 63:
			return g.opSimple(n, gen.Pick(r, []string{".bits", ".bytes"}))
		case k < 67:
			return g.opSimple(n, "tonumber")
		case k < 71:
			return g.opSimple(n, "tostring")
		case k < 74:
			if l <= 300 {
				return g.opSimple(n, "explode")
			}
			return g.opSimple(n, "length")
		case k < 78:
			return g.opSimple(n, gen.Pick(r, []string{"to_hex", "to_hex", "tohex"}))
		case k < 88:
			return g.opSimple(n, gen.Pick(r, []string{"length", ".size", ".start", ".stop", ".unit"}))
		default:
			if canArray {
				return g.randArray(n, maxH)
			}
			return g.randSlice(n)
		}
	case c09KNum:
		if v.num.Sign() < 0 {
			return nil
		}
		fallthrough
	default: // string, number, list, null, bad
		k := r.Intn(100)
		switch {
		case k < 60 || !canArray:
			if k%8 == 0 {
				return g.opSimple(n, gen.Pick(r, []string{"to_hex", "tohex"}))
			}
			return g.randTo(n)
		default:
			return g.randArray(n, maxH)
		}
	}
}

// pipe extends a pipeline up to height maxH. Member pipelines may end in a value that is only
// meaningful inside an array; top level ones must end in something comparable.
func (g *c09Gen) pipe(n *c09Node, maxH int, member bool) *c09Node {
	r := g.r
	for n.h < maxH && n.v.k != c09KErr {
		opaque := n.v.hasOpaque() || (n.v.k == c09KNum && n.v.num.Sign() < 0)
		must := !member && opaque && n.h >= maxH-1
		if !must {
			stop := 12
			if member {
				stop = 30
			}
			if n.v.k == c09KStr || n.v.k == c09KNum || n.v.k == c09KNull {
				stop += 25
			}
			if (member || !opaque) && r.Intn(100) < stop {
				break
			}
		}
		nx := g.step(n, maxH, must)
		if nx == nil {
			break
		}
		n = nx
	}
	return n
}

func (g *c09Gen) expr() *c09Node {
	for {
		n := g.pipe(g.leaf(false), g.maxH, false)
		if n.h == 0 || n.v.hasOpaque() {
			continue // bare leaf or not convertible within the height budget
		}
		return n
	}
}

// plainBin: an expression of height <= maxH that yields a plain binary.
func (g *c09Gen) plainBin(maxH int) *c09Node {
	for try := 0; try < 20; try++ {
		n := g.pipe(g.leaf(false), maxH, false)
		if n.v.k == c09KBin && n.v.flavor == c09Plain && n.h >= 1 && n.v.units() <= 64 {
			return n
		}
	}
	n := g.leafHex()
	n = g.opTo(n, gen.Pick(g.r, []int{1, 8}), false, -1)
	return n
}

func c09P(v int64) *int64 { return &v }

// law builds one law case: an array of derived expressions over the same binary; the observed
// members must satisfy the law among themselves (and equal the reference as any other case).
func (g *c09Gen) law() *c09Node {
	r := g.r
	x := g.plainBin(max(g.maxH-3, 1))
	// reslice the subject so that ranges do not start at 0 and are not unit aligned
	if r.Bool() {
		b := g.opSimple(x, ".bits")
		l := b.v.units()
		a := r.Int63n(l + 1)
		x = g.opSlice(b, c09P(a), c09P(a+r.Int63n(l-a+1)))
		if r.Bool() {
			x = g.opSimple(x, ".bytes")
		}
	}
	l := x.v.units()
	var ms []*c09Node
	var n *c09Node
	switch r.Intn(3) {
	case 0: // [b[:k], b[k:]] | tobits == b[0:] | tobits, for every k
		ms = append(ms, g.opTo(g.opSlice(g.ident(x), c09P(0), nil), 1, false, -1))
		for k := int64(0); k <= l && k <= 24; k++ {
			id := g.ident(x)
			arr := g.opArray(id, []*c09Node{g.opSlice(g.ident(id), nil, c09P(k)), g.opSlice(g.ident(id), c09P(k), nil)})
			ms = append(ms, g.opTo(arr, 1, false, -1))
		}
		n = g.opArray(x, ms)
		n.law = "split-concat"
	case 1: // tobytes|tobits adds exactly the front padding; tobits(n)/tobytes(n) pad to n units
		k := int64(gen.Pick(r, []int{2, 3, 4, 5, 7}))
		ms = append(ms, g.opTo(g.ident(x), 1, false, -1))
		ms = append(ms, g.opTo(g.opTo(g.ident(x), 8, false, -1), 1, false, -1))
		ms = append(ms, g.opTo(g.opTo(g.ident(x), 8, false, int(k)), 1, false, -1))
		ms = append(ms, g.opTo(g.ident(x), 1, false, int(k)))
		n = g.opArray(x, ms)
		n.law = "front-pad"
		n.lawArg = []int64{k}
	default: // indices are unit relative after reslicing
		a := r.Int63n(l + 1)
		b := a + r.Int63n(l-a+1)
		for j := 0; j < 4; j++ {
			i := r.Int63n(b - a + 1)
			if i < b-a {
				ms = append(ms, g.opIndex(g.opSlice(g.ident(x), c09P(a), c09P(b)), i), g.opIndex(g.ident(x), a+i))
			}
			c := r.Int63n(b - a + 1)
			d := c + r.Int63n(b-a-c+1)
			ms = append(ms, g.opSlice(g.opSlice(g.ident(x), c09P(a), c09P(b)), c09P(c), c09P(d)), g.opSlice(g.ident(x), c09P(a+c), c09P(a+d)))
		}
		n = g.opArray(x, ms)
		n.law = "reslice"
	}
	return n
}
