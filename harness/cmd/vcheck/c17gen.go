package main

// C17 generator: PRNG-composed command lines over the documented flag table (all spellings), with injected
// argument errors, 0..4 inputs of every kind, and programs of every kind. A spec can be re-rendered with a
// subset of its inputs (for the independence relation) without changing anything else.

import (
	"bytes"
	"compress/gzip"
	"image"
	"image/color"
	"image/png"
	"path"
	"sort"
	"strconv"
	"strings"

	"verif/gen"
)

type c17In struct {
	name string
	kind byte // J decodable JSON, B decodable binary, U undecodable, M missing, D directory, T text (only with -R)
	data []byte
}

type c17Opt struct {
	toks []string
	slot int // 0 before the program, 1 after it, 2 after the first file, 3 after the last file
}

type c17Spec struct {
	opts     []c17Opt
	tail     []string // injected tokens that must end the command line
	dd       bool     // "--" before the positionals
	prog     string
	hasProg  bool // program is a positional
	ins      []c17In
	files    map[string][]byte
	dirs     map[string]bool
	stdin    []byte
	stdinK   byte
	progKind string
	inject   string
	traits   []string
}

func (s *c17Spec) argv(ins []c17In) []string {
	var out []string
	put := func(slot int) {
		for _, o := range s.opts {
			sl := o.slot
			if s.dd {
				sl = 0
			}
			if !s.hasProg && sl == 1 {
				sl = 0
			}
			if sl == 2 && len(ins) == 0 {
				sl = 3
			}
			if sl == slot {
				out = append(out, o.toks...)
			}
		}
	}
	put(0)
	if s.dd {
		out = append(out, "--")
	}
	if s.hasProg {
		out = append(out, s.prog)
	}
	put(1)
	for i, in := range ins {
		out = append(out, in.name)
		if i == 0 {
			put(2)
		}
	}
	put(3)
	out = append(out, s.tail...)
	return out
}

func (s *c17Spec) fs(ins []c17In) *c17FS {
	fs := &c17FS{files: map[string][]byte{}, dirs: map[string]bool{}, stdin: s.stdin}
	for k, v := range s.files {
		fs.files[k] = v
	}
	for k := range s.dirs {
		fs.dirs[k] = true
	}
	for _, in := range ins {
		switch in.kind {
		case 'M':
		case 'D':
			fs.dirs[in.name] = true
		default:
			fs.files[path.Clean(in.name)] = in.data
		}
	}
	return fs
}

func (s *c17Spec) kinds() string {
	if len(s.ins) == 0 {
		return "stdin:" + string(s.stdinK)
	}
	var sb strings.Builder
	for _, in := range s.ins {
		sb.WriteByte(in.kind)
	}
	return sb.String()
}

func (s *c17Spec) hasTrait(t string) bool {
	for _, x := range s.traits {
		if x == t {
			return true
		}
	}
	return false
}

func (s *c17Spec) trait(t string) {
	for _, x := range s.traits {
		if x == t {
			return
		}
	}
	s.traits = append(s.traits, t)
}

// ---- content ----

var c17Strings = []string{"", "a", "x y", "c17boom", "pre c17boom post", "ä", "日本語", "😀", "q\"uote", "back\\slash", "line\nbreak", "tab\t", "nul\x00byte", "<&>", "\u007f", " ", "-1", "null"}
var c17Keys = []string{"a", "b", "m", "k y", "ä", "z"}

func c17GenScalar(r *gen.Rand) any {
	switch r.Intn(9) {
	case 0:
		return nil
	case 1:
		return r.Bool()
	case 2, 3:
		return r.Intn(2001) - 1000
	case 4:
		return gen.Pick(r, []any{0, -1, 1 << 31, 1<<53 - 1, -(1 << 53), 0.5, -1.5, 2.25, 100.125})
	default:
		return gen.Pick(r, c17Strings)
	}
}

func c17GenValue(r *gen.Rand, depth int) any {
	k := r.Intn(10)
	if depth <= 0 {
		k = 0
	}
	switch {
	case k < 4:
		return c17GenScalar(r)
	case k < 7:
		n := r.Intn(4)
		a := make([]any, n)
		for i := range a {
			a[i] = c17GenValue(r, depth-1)
		}
		return a
	default:
		n := r.Intn(4)
		m := map[string]any{}
		for i := 0; i < n; i++ {
			m[gen.Pick(r, c17Keys)] = c17GenValue(r, depth-1)
		}
		return m
	}
}

// top-level value of a JSON input: mostly objects, with .a truthy/falsy/absent and sometimes the marker
func c17GenTop(r *gen.Rand) any {
	switch r.Intn(10) {
	case 0, 1:
		return c17GenScalar(r)
	case 2, 3:
		return c17GenValue(r, 2)
	}
	m := map[string]any{}
	switch r.Intn(4) {
	case 0:
		m["a"] = true
	case 1:
		m["a"] = gen.Pick(r, []any{false, nil, 0, "x", 1})
	}
	if r.Chance(1, 3) {
		m["m"] = "c17boom"
	}
	for i := r.Intn(3); i > 0; i-- {
		m[gen.Pick(r, c17Keys[1:])] = c17GenValue(r, 2)
	}
	return m
}

func c17JSONText(r *gen.Rand, v any) []byte {
	var sb strings.Builder
	if r.Chance(1, 6) {
		sb.WriteString(gen.Pick(r, []string{" ", "\n", "\t\n "}))
	}
	c17Enc(&sb, v, r.Bool(), 0)
	if r.Bool() {
		sb.WriteString(gen.Pick(r, []string{"\n", " ", "\n\n", "\r\n"}))
	}
	return []byte(sb.String())
}

func c17Gzip(payload []byte) []byte {
	var b bytes.Buffer
	w := gzip.NewWriter(&b)
	_, _ = w.Write(payload)
	_ = w.Close()
	return b.Bytes()
}

func c17PNG(w, h int) []byte {
	img := image.NewGray(image.Rect(0, 0, w, h))
	img.SetGray(0, 0, color.Gray{Y: 200})
	var b bytes.Buffer
	_ = png.Encode(&b, img)
	return b.Bytes()
}

// undecodable under probe (checked by c17Preflight before the run starts)
var c17Undecodable = [][]byte{
	[]byte(`{"a":`),
	[]byte(`[1,2`),
	[]byte("\x01\x02\x03 not anything"),
	[]byte(`{"a":1}}`),
	[]byte("l1\nl2\n"),
	[]byte(""),
	[]byte("c17boom is not json"),
}

func c17GenText(r *gen.Rand) []byte {
	switch r.Intn(14) {
	case 0:
		return []byte{}
	case 1:
		return []byte("\n")
	}
	n := 1 + r.Intn(4)
	ls := make([]string, n)
	for i := range ls {
		ls[i] = gen.Pick(r, []string{"", "l1", "c17boom", "ä ö", "tab\there", " spaced ", "a\rb", `{"a":1}`, "-"})
	}
	s := strings.Join(ls, "\n")
	if r.Bool() {
		s += "\n"
	}
	return []byte(s)
}

func c17GenInput(r *gen.Rand, i int, rawIn, allowBinary bool) c17In {
	k := r.Intn(100)
	idx := strconv.Itoa(i)
	switch {
	case k < 50:
		name := "f" + idx + ".json"
		if r.Chance(1, 25) {
			name = "-" + idx + ".json" // numeric-looking: must not be taken as a flag
		} else if r.Chance(1, 12) {
			name = "./f" + idx + ".json"
		}
		return c17In{name, 'J', c17JSONText(r, c17GenTop(r))}
	case k < 62:
		if !allowBinary {
			return c17In{"f" + idx + ".json", 'J', c17JSONText(r, c17GenTop(r))}
		}
		if r.Chance(1, 3) {
			return c17In{"f" + idx + ".png", 'B', c17PNG(1+r.Intn(2), 1)}
		}
		return c17In{"f" + idx + ".gz", 'B', c17Gzip([]byte(gen.Pick(r, []string{"hello", "c17boom", "\x00\x01\x02", "abc abc abc abc abc abc"})))}
	case k < 78:
		if rawIn {
			return c17In{"f" + idx + ".txt", 'T', c17GenText(r)}
		}
		return c17In{"f" + idx + ".bin", 'U', gen.Pick(r, c17Undecodable)}
	case k < 91:
		return c17In{"nope" + idx, 'M', nil}
	default:
		return c17In{"d" + idx, 'D', nil}
	}
}

// ---- flags ----

func c17Spell(r *gen.Rand, key string) string {
	f := c17FlagByKey(key)
	var c []string
	if f.short != "" {
		c = append(c, f.short, f.short) // short forms are what people type
	}
	c = append(c, f.long)
	for _, a := range f.aliases {
		if a != "--rawfile" { // jq's spelling is a separate, rare, choice
			c = append(c, a)
		}
	}
	return gen.Pick(r, c)
}

func c17FlagByKey(key string) *c17Flag {
	for i := range c17Flags {
		if c17Flags[i].key == key {
			return &c17Flags[i]
		}
	}
	panic("c17: no flag " + key)
}

// value flag in one of its forms: "-d v", "--decode v", "--decode=v", "-d=v"
func c17ValueFlag(r *gen.Rand, key, v string) []string {
	sp := c17Spell(r, key)
	if r.Chance(1, 3) {
		return []string{sp + "=" + v}
	}
	return []string{sp, v}
}

// Inputs reach the program as fq decode values, whose indexing is more lenient than jq's (.a on a JSON string
// gives null, .[] on a JSON object has no fixed order, and fromjson yields such values too): not a command line
// matter, so the programs only use whole-value operations (tojson, type, string functions on tojson).
var c17OkProgs = []string{".", ".", ".", "[.]", "type", "tojson", "., 1", "[tojson, type]", `[., (try input catch "none")]`, `"s:" + tojson`, "-1", "-(1)", "[., input]", "tojson | length", "", `tojson | test("c17boom")`, `tojson | ascii_downcase, ascii_upcase`}
var c17NullProgs = []string{".", "[inputs]", "input", "[inputs | tojson]", "first(inputs)", `"a", "b"`, "[inputs] | length", "1, [2], \"x\"", "[., input]", "input, input", `[limit(2; inputs)]`}
var c17BadProgs = []string{"(", "nofunc17", ".a |", "$undef17", "1 +", "if . then 1", "}"}

func c17Gen(r *gen.Rand) *c17Spec {
	s := &c17Spec{files: map[string][]byte{}, dirs: map[string]bool{}}
	scen := r.Intn(100)
	// ---- mode
	var bools []string
	nullIn, slurp, rawIn := false, false, false
	switch m := r.Intn(100); {
	case m < 42:
	case m < 57:
		slurp = true
	case m < 69:
		rawIn = true
	case m < 77:
		rawIn, slurp = true, true
	default:
		nullIn = true
		switch r.Intn(6) {
		case 0:
			slurp = true
		case 1:
			rawIn = true
		}
	}
	if nullIn {
		bools = append(bools, "null_input")
	}
	if slurp {
		bools = append(bools, "slurp")
	}
	if rawIn {
		bools = append(bools, "string_input")
	}
	// ---- output flags
	if r.Chance(1, 2) {
		bools = append(bools, "compact")
	}
	switch r.Intn(8) {
	case 0, 1:
		bools = append(bools, "raw_string")
	case 2:
		bools = append(bools, "join_output")
	case 3:
		bools = append(bools, "null_output")
	case 4:
		bools = append(bools, "raw_string", "join_output")
	}
	for _, k := range []string{"monochrome_output", "unicode_output", "value_output"} {
		if r.Chance(1, 8) {
			bools = append(bools, k)
		}
	}
	if r.Chance(1, 30) {
		bools = append(bools, "color_output")
	}
	// ---- decode spec
	spec := ""
	if !rawIn {
		switch d := r.Intn(100); {
		case d < 58:
		case d < 66:
			spec = "probe"
		case d < 80:
			spec = "json"
		case d < 84:
			spec = "gzip"
		case d < 92:
			spec = "image"
		case d < 94:
			spec = "png"
		default:
			spec = gen.Pick(r, []string{"nosuchformat17", "jsno"})
		}
	}
	forced := spec == "json" || spec == "gzip" || spec == "png"
	// ---- inputs
	n := r.Intn(5)
	allowBinary := !nullIn
	for i := 0; i < n; i++ {
		s.ins = append(s.ins, c17GenInput(r, i, rawIn, allowBinary))
	}
	if n == 0 {
		switch {
		case rawIn:
			s.stdin, s.stdinK = c17GenText(r), 'T'
		case r.Chance(2, 3):
			s.stdin, s.stdinK = c17JSONText(r, c17GenTop(r)), 'J'
		default:
			s.stdin, s.stdinK = gen.Pick(r, c17Undecodable), 'U'
		}
	}
	// ---- named arguments
	var named []string
	addNamed := func(name string) {
		var toks []string
		switch k := r.Intn(12); {
		case k < 4:
			toks = []string{"--arg", name, gen.Pick(r, []string{"1", "", "v w", "-c", "--", "c17boom", "é"})}
		case k < 8:
			toks = []string{"--argjson", name, gen.Pick(r, []string{"1", `{"k":[1,2]}`, `"s"`, "null", "[]", " 2 "})}
		case k < 10:
			sp := gen.Pick(r, []string{"--raw-file", "--raw-file", "--raw-file", "--rawfile"})
			if sp == "--rawfile" {
				s.trait("rawfile-jq-spelling")
			}
			s.files["raw.txt"] = []byte("raw\ntext c17boom\n")
			toks = []string{sp, name, "raw.txt"}
		default:
			if nullIn || forced || spec == "image" || strings.HasPrefix(spec, "n") || strings.HasPrefix(spec, "js") && spec != "json" {
				toks = []string{"--arg", name, "plain"}
			} else {
				s.files["dec.json"] = []byte(`{"dec":[1,"c17boom"]}`)
				toks = []string{c17Spell(r, "argdecode"), name, "dec.json"}
			}
		}
		s.opts = append(s.opts, c17Opt{toks, r.Intn(4)})
		named = append(named, name)
	}
	if r.Chance(1, 4) {
		addNamed("x")
		if r.Chance(1, 3) {
			addNamed("y")
		}
	}
	// ---- program
	s.hasProg = true
	switch {
	case scen < 7:
		s.prog, s.progKind = gen.Pick(r, c17BadProgs), "nocompile"
	case scen < 11:
		s.prog, s.progKind = "empty", "empty"
	case nullIn:
		s.prog, s.progKind = gen.Pick(r, c17NullProgs), "ok"
		if r.Chance(1, 6) {
			s.prog, s.progKind = `[inputs] | if (tojson | test("c17boom")) then error("c17rt") else . end`, "rtfail"
		}
	case scen < 36:
		s.progKind = "rtfail"
		s.prog = gen.Pick(r, []string{
			`if (tojson | test("c17boom")) then error("c17rt") else . end`,
			`if (tojson | test("c17boom")) then error("c17rt") else . end`,
			`if (tojson | test("c17boom")) then error("c17rt") else . end`,
			`tojson | if length > 12 then error("c17rt") else . end`,
			`1, error("c17rt"), 2`,
			`tojson | error("c17rt " + .)`,
		})
		if r.Chance(1, 6) {
			// jq: a non-string error value is reported ("(not a string)") and the next input is processed
			s.prog, s.progKind = `if (tojson | test("c17boom")) then error({c17rt: 1}) else . end`, "rtfail-object"
			// error values that are falsy: the failure must still be remembered (exit 5)
			switch r.Intn(3) {
			case 0:
				s.prog = `if (tojson | test("c17boom")) then error(null) else . end`
			case 1:
				s.prog = `if (tojson | test("c17boom")) then error(false) else . end`
			}
		}
	default:
		s.prog, s.progKind = gen.Pick(r, c17OkProgs), "ok"
		if !nullIn && !forced && !rawIn && r.Chance(1, 10) {
			s.prog, s.progKind = gen.Pick(r, []string{"format", "tobytes | tohex"}), "ok-fq"
			if r.Chance(1, 3) {
				s.prog, s.progKind = "[format, input_filename]", "ok-fq-input_filename"
			}
		}
	}
	if len(named) > 0 && (s.progKind == "ok" || s.progKind == "rtfail") && r.Chance(2, 3) {
		vars := "$" + strings.Join(named, ", $")
		s.prog = "[" + vars + "] as $c17v | (" + c17Or(s.prog, ".") + "), $c17v"
		if r.Chance(1, 15) {
			s.prog = "$ARGS.named"
			s.progKind = "ok"
			s.trait("ARGS-named")
		}
	}
	if s.progKind == "ok" && r.Chance(1, 40) {
		s.prog = "$c17undefined"
		s.progKind = "nocompile"
	}
	// program placement: positional, -f file, or left out
	switch {
	case r.Chance(1, 7):
		s.files["prog.jq"] = []byte(s.prog)
		if r.Bool() {
			s.files["prog.jq"] = []byte(s.prog + "\n")
		}
		s.hasProg = false
		s.opts = append(s.opts, c17Opt{c17ValueFlag(r, "expr_file", "prog.jq"), gen.Pick(r, []int{0, 0, 2, 3})})
	case s.prog == "." && len(s.ins) == 0 && r.Bool():
		s.hasProg = false
	}
	if strings.HasPrefix(s.prog, "-") && s.hasProg && !(s.prog[1] >= '0' && s.prog[1] <= '9') {
		s.dd = true
	}
	// ---- remaining flags
	if spec != "" {
		s.opts = append(s.opts, c17Opt{c17ValueFlag(r, "decode_group", spec), r.Intn(4)})
	}
	if r.Chance(1, 12) {
		s.dirs["inc"] = true
		s.opts = append(s.opts, c17Opt{c17ValueFlag(r, "include_path", gen.Pick(r, []string{"inc", "nosuchdir"})), r.Intn(4)})
	}
	if r.Chance(1, 8) {
		kv := gen.Pick(r, []string{"compact=true", "compact=false", "c17nosuch=1", "c17other=@bf.txt", "bits_format=@bf.txt"})
		s.files["bf.txt"] = []byte("string")
		s.opts = append(s.opts, c17Opt{c17ValueFlag(r, "option", kv), r.Intn(4)})
	}
	// boolean flags: some combined into short groups
	var group []string
	for _, k := range bools {
		f := c17FlagByKey(k)
		if f.short != "" && r.Chance(1, 2) {
			group = append(group, f.short[1:])
			continue
		}
		s.opts = append(s.opts, c17Opt{[]string{c17Spell(r, k)}, r.Intn(4)})
	}
	if len(group) > 0 {
		gen.Shuffle(r, group)
		s.opts = append(s.opts, c17Opt{[]string{"-" + strings.Join(group, "")}, r.Intn(4)})
	}
	gen.Shuffle(r, s.opts)
	if !s.dd && r.Chance(1, 7) {
		s.dd = true
	}
	// ---- help / version
	if scen >= 97 {
		s.progKind = "help-version"
		s.opts = append(s.opts, c17Opt{[]string{gen.Pick(r, []string{"-h", "--help", "-v", "--version", "--help=formats", "-h"})}, 3})
		if r.Bool() {
			s.opts[len(s.opts)-1].slot = 0
		}
		return s
	}
	// ---- injected argument errors
	if scen >= 78 && scen < 97 {
		c17Inject(r, s)
	}
	return s
}

func c17Or(a, b string) string {
	if a == "" {
		return b
	}
	return a
}

func c17Inject(r *gen.Rand, s *c17Spec) {
	mid := func(toks ...string) { s.opts = append(s.opts, c17Opt{toks, r.Intn(4)}) }
	switch r.Intn(17) {
	case 0:
		s.inject = "unknown-short"
		mid(gen.Pick(r, []string{"-X", "-Z", "-é", "-e", "-S", "-a", "-.", "-x=1"}))
	case 1:
		s.inject = "unknown-long"
		mid(gen.Pick(r, []string{"--nope", "--nope=1", "--seq", "--tab", "--args", "--jsonargs", "--sort-keys", "--Slurp", "--compact"}))
	case 2:
		s.inject = "unknown-in-group"
		mid(gen.Pick(r, []string{"-cX", "-Xc", "-nrZ", "-rqj"}))
	case 3:
		s.inject = "missing-value-single"
		s.dd = false
		s.tail = []string{c17Spell(r, gen.Pick(r, []string{"decode_group", "expr_file", "option", "include_path"}))}
	case 4:
		s.inject = "missing-value-pair"
		s.dd = false
		s.tail = []string{gen.Pick(r, []string{"--arg", "--argjson", "--raw-file", "--argdecode", "--decode-file"})}
		if r.Bool() {
			s.tail = append(s.tail, "x")
		}
	case 5:
		s.inject = "bool-with-value"
		mid(c17Spell(r, gen.Pick(r, []string{"compact", "slurp", "null_input", "raw_string", "join_output", "string_input", "null_output", "monochrome_output"})) + gen.Pick(r, []string{"=1", "=true", "=", "=false"}))
	case 6:
		s.inject = "bool-with-value-in-group"
		mid(gen.Pick(r, []string{"-nc=1", "-rs=true"}))
	case 7:
		s.inject = "pairs-with-eq-form"
		s.trait("pairs-with-eq-form")
		mid(gen.Pick(r, []string{"--arg=q", "--argjson=q", "--arg=q=1"}), "w", "3")
	case 8:
		s.inject = "bad-argjson"
		mid("--argjson", "q", gen.Pick(r, []string{"{", "", "nul", "1 2", "'x'", "[1,]"}))
	case 9:
		s.inject = "from-file-missing"
		s.toFromFile(r, "nosuch.jq")
	case 10:
		s.inject = "from-file-directory"
		s.dirs["progdir"] = true
		s.toFromFile(r, "progdir")
	case 11:
		s.inject = "rawfile-missing"
		mid("--raw-file", "q", "nosuch.txt")
	case 12:
		s.inject = "rawfile-directory"
		s.dirs["rawdir"] = true
		mid("--raw-file", "q", "rawdir")
	case 13:
		s.inject = "argdecode-missing"
		mid(c17Spell(r, "argdecode"), "q", "nosuch.bin")
	case 14:
		s.inject = "argdecode-undecodable"
		s.files["und.bin"] = []byte("\x01\x02\x03 not anything")
		// with an explicit single format the file would decode (to a tree with an error): drop -d
		var keep []c17Opt
		for _, o := range s.opts {
			if c17Lookup(strings.SplitN(o.toks[0], "=", 2)[0]) != nil && c17Lookup(strings.SplitN(o.toks[0], "=", 2)[0]).key == "decode_group" {
				continue
			}
			keep = append(keep, o)
		}
		s.opts = keep
		mid("--argdecode", "q", "und.bin")
	case 15:
		s.inject = "option-not-key-value"
		mid(c17Spell(r, "option"), gen.Pick(r, []string{"compact", "x", ""}))
	case 16:
		s.inject = "option-file-missing"
		mid(c17ValueFlag(r, "option", "bits_format=@nosuch.txt")...)
	}
	s.progKind += "+argerr"
}

// toFromFile turns the program into -f PATH (PATH unreadable): every positional becomes an input.
func (s *c17Spec) toFromFile(r *gen.Rand, path string) {
	var keep []c17Opt
	for _, o := range s.opts {
		f := c17Lookup(strings.SplitN(o.toks[0], "=", 2)[0])
		if f != nil && f.key == "expr_file" {
			continue
		}
		keep = append(keep, o)
	}
	s.opts = append(keep, c17Opt{c17ValueFlag(r, "expr_file", path), 0})
	s.hasProg = false
}

func c17SortedFlags(p *c17Parsed) string {
	m := map[string]bool{}
	for _, f := range p.flagsUsed {
		m[f] = true
	}
	var fl []string
	for f := range m {
		fl = append(fl, f)
	}
	sort.Strings(fl)
	return strings.Join(fl, " ")
}
