package main

// Shared by C03/C04/C05/C06/C08/C12: corpus index, systematic mutation family, direct decode
// with panic capture, and the decode-tree invariant walker.

import (
	"bytes"
	"encoding/hex"
	"context"
	"fmt"
	"io"
	"os"
	"path/filepath"
	"regexp"
	"runtime/debug"
	"sort"
	"strings"
	"sync"

	"github.com/wader/fq/pkg/bitio"
	"github.com/wader/fq/pkg/decode"
	"github.com/wader/fq/pkg/ranges"
	"github.com/wader/fq/pkg/scalar"

	"verif/fqx"
	"verif/gen"
)

type corpusItem struct {
	Path    string // relative to /repo/format
	Data    []byte
	Formats []string // formats the repository's own tests decode it with (may be empty)
}

var (
	corpusOnce  sync.Once
	corpusItems []corpusItem
)

var fqCmdRe = regexp.MustCompile(`(?m)^\$ fq (.*)$`)
var fqRootLineRe = regexp.MustCompile(`(?m)\|\.(?:\{\}|\[\d+:\d+\]): (\S+) \((\w+)\)`)

const repoFormatDir = "/repo/format"

// corpus: every sample file under /repo/format/*/testdata (<= maxSize), with the formats named by
// `$ fq -d FORMAT … file` lines of the .fqtest files in the same directory.
func corpus() []corpusItem {
	corpusOnce.Do(func() {
		reg := fqx.Registry()
		byDir := map[string][]string{}
		_ = filepath.Walk(repoFormatDir, func(p string, info os.FileInfo, err error) error {
			if err != nil || info.IsDir() {
				return nil
			}
			if !strings.Contains(p, "/testdata/") {
				return nil
			}
			byDir[filepath.Dir(p)] = append(byDir[filepath.Dir(p)], p)
			return nil
		})
		dirs := make([]string, 0, len(byDir))
		for d := range byDir {
			dirs = append(dirs, d)
		}
		sort.Strings(dirs)
		for _, d := range dirs {
			files := byDir[d]
			sort.Strings(files)
			fmts := map[string]map[string]bool{} // file base -> formats
			for _, f := range files {
				if !strings.HasSuffix(f, ".fqtest") {
					continue
				}
				b, err := os.ReadFile(f)
				if err != nil {
					continue
				}
				// `$ fq dv file` (probe): the root line of the expected dump names the format, `|.{}: file (format) ...`
				for _, m := range fqRootLineRe.FindAllStringSubmatch(string(b), -1) {
					if _, err := reg.Group(m[2]); err != nil {
						continue
					}
					if fmts[m[1]] == nil {
						fmts[m[1]] = map[string]bool{}
					}
					fmts[m[1]][m[2]] = true
				}
				for _, m := range fqCmdRe.FindAllStringSubmatch(string(b), -1) {
					args := strings.Fields(m[1])
					format := ""
					for i := 0; i+1 < len(args); i++ {
						if args[i] == "-d" {
							format = args[i+1]
						}
					}
					if format == "" {
						continue
					}
					if _, err := reg.Group(format); err != nil {
						continue
					}
					for _, a := range args {
						a = strings.Trim(a, `'"`)
						if fmts[a] == nil {
							fmts[a] = map[string]bool{}
						}
						fmts[a][format] = true
					}
				}
			}
			// the directory's own format name (format/<name>/testdata)
			rel, _ := filepath.Rel(repoFormatDir, d)
			dirFormat := strings.SplitN(rel, "/", 2)[0]
			for _, f := range files {
				if strings.HasSuffix(f, ".fqtest") || strings.HasSuffix(f, ".md") || strings.HasSuffix(f, ".sh") || strings.HasSuffix(f, ".go") || strings.HasSuffix(f, ".jq") {
					continue
				}
				info, err := os.Stat(f)
				if err != nil || info.Size() > 512*1024 {
					continue
				}
				b, err := os.ReadFile(f)
				if err != nil {
					continue
				}
				relp, _ := filepath.Rel(repoFormatDir, f)
				it := corpusItem{Path: relp, Data: b}
				for k := range fmts[filepath.Base(f)] {
					it.Formats = append(it.Formats, k)
				}
				if len(it.Formats) == 0 {
					if _, err := reg.Group(dirFormat); err == nil {
						it.Formats = append(it.Formats, dirFormat)
					}
				}
				sort.Strings(it.Formats)
				corpusItems = append(corpusItems, it)
			}
		}
		corpusItems = append(corpusItems, generatedCorpus()...)
	})
	return corpusItems
}

// generatedCorpus: documents for serialization formats whose tests carry no binary sample (cbor, bencode) or none
// with boundary numbers: every number kind at its limits (uint64 max, int64 min, -2^64, bignums of 70 bits with
// both signs, -0.0, denormal, 1e300), strings, bytes, bool, null, nested containers. Written by hand from the
// specs (bytes computed once with Python's struct); the same for every seed.
func generatedCorpus() []corpusItem {
	h := func(s string) []byte {
		b, err := hex.DecodeString(s)
		if err != nil {
			panic(err)
		}
		return b
	}
	nest := func(open, leaf, close string, depth int) []byte {
		return []byte(strings.Repeat(open, depth) + leaf + strings.Repeat(close, depth))
	}
	return []corpusItem{
		{Path: "generated/numbers.cbor", Formats: []string{"cbor"}, Data: h("98131bffffffffffffffff3b7fffffffffffffff3bffffffffffffffffc349400000000000000000c2494000000000000000052038ff00f98000fabfc00000fb7e37e43c8800759cfb8000000000000001f4f5f6636162636043010203a261613b7fffffffffffffff61628220c34105")},
		{Path: "generated/numbers.msgpack", Formats: []string{"msgpack"}, Data: h("dc0010d38000000000000000cfffffffffffffffffd3ffffffffffffffffd080ff00cb8000000000000000cabfc00000cb7e37e43c8800759cc0c2c3a3616263a0c40301020382a161d38000000000000000a16292ffd18000")},
		{Path: "generated/numbers.ber", Formats: []string{"asn1_ber"}, Data: h("303a020aff000000000000000000020a01000000000000000000020880000000000000000201ff0201000201800101ff05000c036162630403010203")},
		{Path: "generated/numbers.bson", Formats: []string{"bson"}, Data: h("65000000126d696e000000000000000080126e656700fbffffffffffffff106933320000000080016400000000000000008001626967009c7500883ce4377e087400010a6e000273000400000061626300036f001000000012780000000000000000800000")},
		{Path: "generated/nested.cbor", Formats: []string{"cbor"}, Data: append(bytes.Repeat([]byte{0x81}, 9), h("83016161a1616b820243010203")...)},
		{Path: "generated/nested.bencode", Formats: []string{"bencode"}, Data: nest("l", "i1e1:ad1:kli-9223372036854775808e3:abcee", "e", 9)},
		// an avro object container file whose record fields are named _id, _len, name: field names that come from the
		// input may start with an underscore, where decode values keep their own _-prefixed keys (seed C08-G)
		{Path: "generated/underscore.avro", Formats: []string{"avro_ocf"}, Data: h("4f626a0104166176726f2e736368656d61a8027b2274797065223a20227265636f7264222c20226e616d65223a2022726f77222c20226669656c6473223a205b7b226e616d65223a20225f6964222c202274797065223a20226c6f6e67227d2c207b226e616d65223a20225f6c656e222c202274797065223a20226c6f6e67227d2c207b226e616d65223a20226e616d65222c202274797065223a2022737472696e67227d5d7d146176726f2e636f646563086e756c6c00000102030405060708090a0b0c0d0e0f041c540e0a616c696365561206626f62000102030405060708090a0b0c0d0e0f")},
		{Path: "generated/numbers.json", Formats: []string{"json"}, Data: []byte(`[18446744073709551615,-9223372036854775808,-18446744073709551616,-1180591620717411303424,1e300,-0.0,5e-324,"abc","",true,null,{"a":-9223372036854775808,"b":[-1,1.5]}]`)},
	}
}

// corpusSample: all non-wasm items plus a PRNG subset of the 1.5k wasm spec files; capped by size.
func corpusSample(rng *gen.Rand, maxSize int, wasmKeep int) []corpusItem {
	var out []corpusItem
	var wasm []corpusItem
	for _, it := range corpus() {
		if len(it.Data) > maxSize {
			continue
		}
		if strings.HasPrefix(it.Path, "wasm/") {
			wasm = append(wasm, it)
			continue
		}
		out = append(out, it)
	}
	gen.Shuffle(rng, wasm)
	if len(wasm) > wasmKeep {
		wasm = wasm[:wasmKeep]
	}
	return append(out, wasm...)
}

var (
	allFormatsOnce sync.Once
	allFormatsV    []string
)

func allFormats() []string {
	allFormatsOnce.Do(func() {
		seen := map[string]bool{}
		for _, g := range fqx.Registry().Groups() {
			for _, f := range g.Formats {
				if !seen[f.Name] {
					seen[f.Name] = true
					allFormatsV = append(allFormatsV, f.Name)
				}
			}
		}
		sort.Strings(allFormatsV)
	})
	return allFormatsV
}

type decodeResult struct {
	V     *decode.Value
	Err   error
	Panic *fqx.PanicInfo
}

// decodeDirect: exactly what interp's _decode does for a file, minus the jq layer.
func decodeDirect(data []byte, format string, force bool) decodeResult {
	var res decodeResult
	g, err := fqx.Registry().Group(format)
	if err != nil {
		res.Err = err
		return res
	}
	res.Panic = guardStack(func() {
		res.V, _, res.Err = decode.Decode(context.Background(), bitio.NewBitReader(data, -1), g, decode.Options{
			IsRoot: true, FillGaps: true, Force: force, Description: "verif",
		})
	})
	return res
}

func guardStack(fn func()) (pi *fqx.PanicInfo) {
	defer func() {
		if r := recover(); r != nil {
			pi = &fqx.PanicInfo{Value: r, Stack: string(debug.Stack())}
		}
	}()
	fn()
	return nil
}

var frameRe = regexp.MustCompile(`(?m)^(github\.com/wader/fq/[^\s(]+(?:\([^)]*\))?[^\s(]*)\(`)

// panicSig: (top-most frame inside fq, panic class) — narrow and stable across inputs.
func panicSig(pi *fqx.PanicInfo) string {
	fn := "unknown"
	for _, m := range frameRe.FindAllStringSubmatch(pi.Stack, -1) {
		f := m[1]
		if strings.Contains(f, "recoverfn") || strings.Contains(f, "/verif") {
			continue
		}
		fn = strings.TrimPrefix(f, "github.com/wader/fq/")
		break
	}
	return fn + ":" + panicClass(pi.Value)
}

func panicClass(v any) string {
	s := fmt.Sprint(v)
	switch {
	case strings.Contains(s, "index out of range"):
		return "index-out-of-range"
	case strings.Contains(s, "slice bounds out of range"):
		return "slice-bounds"
	case strings.Contains(s, "nil pointer dereference"):
		return "nil-dereference"
	case strings.Contains(s, "makeslice"):
		return "makeslice"
	case strings.Contains(s, "divide by zero"):
		return "divide-by-zero"
	case strings.Contains(s, "interface conversion"):
		return "type-assertion"
	case strings.Contains(s, "negative shift"):
		return "negative-shift"
	case strings.Contains(s, "negative Repeat count"), strings.Contains(s, "Repeat"):
		return "negative-repeat"
	case strings.Contains(s, "out of memory"), strings.Contains(s, "too large"):
		return "alloc"
	}
	if len(s) > 40 {
		s = s[:40]
	}
	return "other:" + strings.Map(func(r rune) rune {
		if r >= '0' && r <= '9' {
			return -1
		}
		return r
	}, s)
}

// ---- mutation family (C06 §W; also feeds C03/C04/C05/C12 with partial trees) ----

type mutation struct {
	Kind string
	A, B int
}

func (m mutation) String() string { return fmt.Sprintf("%s(%d,%d)", m.Kind, m.A, m.B) }

func applyMutation(s []byte, m mutation) []byte {
	n := len(s)
	switch m.Kind {
	case "none":
		return s
	case "trunc":
		if m.A < n {
			return s[:m.A]
		}
		return s
	case "bitflip":
		if m.A/8 >= n {
			return s
		}
		o := append([]byte(nil), s...)
		o[m.A/8] ^= 1 << (7 - uint(m.A%8))
		return o
	case "byte":
		if m.A >= n {
			return s
		}
		o := append([]byte(nil), s...)
		o[m.A] = byte(m.B)
		return o
	case "sat": // length-field saturation: window of B>>4 bytes at A with pattern B&15
		w := m.B >> 4
		if m.A+w > n {
			return s
		}
		o := append([]byte(nil), s...)
		for i := 0; i < w; i++ {
			switch m.B & 15 {
			case 0:
				o[m.A+i] = 0xff
			case 1:
				o[m.A+i] = 0xff
				if i == 0 {
					o[m.A+i] = 0x7f
				}
			case 2:
				o[m.A+i] = 0
				if i == 0 {
					o[m.A+i] = 0x80
				}
			case 3:
				o[m.A+i] = 0
				if i == w-1 {
					o[m.A+i] = 1
				}
			case 4: // little-endian variants
				o[m.A+i] = 0xff
				if i == w-1 {
					o[m.A+i] = 0x7f
				}
			}
		}
		return o
	case "dup":
		if m.A+m.B > n {
			return s
		}
		o := append([]byte(nil), s[:m.A+m.B]...)
		o = append(o, s[m.A:m.A+m.B]...)
		return append(o, s[m.A+m.B:]...)
	case "del":
		if m.A+m.B > n {
			return s
		}
		o := append([]byte(nil), s[:m.A]...)
		return append(o, s[m.A+m.B:]...)
	}
	return s
}

var (
	mutFamMu    sync.Mutex
	mutFamCache = map[int][]mutation{}
)

// mutationFamily enumerates the whole family for a seed of length n (deterministic order; cached per length).
func mutationFamily(n int) []mutation {
	mutFamMu.Lock()
	defer mutFamMu.Unlock()
	if ms, ok := mutFamCache[n]; ok {
		return ms
	}
	ms := mutationFamilyBuild(n)
	mutFamCache[n] = ms
	return ms
}

func mutationFamilyBuild(n int) []mutation {
	var ms []mutation
	for l := 0; l < n; l++ {
		if l < 768 || l%61 == 0 || l >= n-64 {
			ms = append(ms, mutation{"trunc", l, 0})
		}
	}
	for b := 0; b < n*8 && b < 192*8; b++ {
		ms = append(ms, mutation{"bitflip", b, 0})
	}
	for o := 0; o < n; o++ {
		if o < 384 || o%31 == 0 {
			for _, v := range []int{0x00, 0x7f, 0x80, 0xff} {
				ms = append(ms, mutation{"byte", o, v})
			}
		} else {
			// every offset gets at least the saturating value (length prefixes / counts anywhere in the file)
			ms = append(ms, mutation{"byte", o, 0xff})
		}
	}
	for o := 0; o < n && o < 256; o++ {
		for _, w := range []int{1, 2, 4, 8} {
			for p := 0; p < 5; p++ {
				ms = append(ms, mutation{"sat", o, w<<4 | p})
			}
		}
	}
	for _, bs := range []int{1, 4, 16, 64} {
		for o := 0; o+bs <= n; o += 16 {
			ms = append(ms, mutation{"dup", o, bs}, mutation{"del", o, bs})
		}
	}
	return ms
}

// ---- tree invariants (C03) ----

type treeIssue struct {
	Sig  string
	Desc string
}

type treeStats struct {
	Values, Compounds, NestedRoots, Errors, Unaligned, Gaps, Synthetic, ViewReaders int
}

func bitLen(r bitio.ReaderAtSeeker) (int64, error) {
	c, err := r.SeekBits(0, io.SeekCurrent)
	if err != nil {
		return 0, err
	}
	e, err := r.SeekBits(0, io.SeekEnd)
	if err != nil {
		return 0, err
	}
	_, err = r.SeekBits(c, io.SeekStart)
	return e, err
}

func valuePathStr(v *decode.Value) string {
	var parts []string
	for p := v; p != nil && p.Parent != nil; p = p.Parent {
		if c, ok := p.Parent.V.(*decode.Compound); ok && c.IsArray {
			parts = append(parts, fmt.Sprintf("[%d]", p.Index))
		} else {
			parts = append(parts, "."+p.Name)
		}
	}
	var sb strings.Builder
	for i := len(parts) - 1; i >= 0; i-- {
		sb.WriteString(parts[i])
	}
	if sb.Len() == 0 {
		return "."
	}
	return sb.String()
}

func isSynthetic(v *decode.Value) bool {
	if s, ok := v.V.(scalar.Scalarable); ok {
		return s.ScalarFlags().IsSynthetic()
	}
	return false
}
func isGap(v *decode.Value) bool {
	if s, ok := v.V.(scalar.Scalarable); ok {
		return s.ScalarFlags().IsGap()
	}
	return false
}

// checkTree walks the whole tree (descending into nested roots) and returns invariant violations.
func checkTree(root *decode.Value, st *treeStats) []treeIssue {
	var issues []treeIssue
	var cur *decode.Value
	add := func(sig, format string, a ...any) {
		if len(issues) < 20 {
			// context: the enclosing format and the field name (never data-dependent values)
			ctx := ""
			if cur != nil {
				for a := cur; a != nil; a = a.Parent {
					if a.Format != nil {
						ctx = "@" + a.Format.Name + ":" + cur.Name
						break
					}
				}
			}
			issues = append(issues, treeIssue{Sig: sig + ctx, Desc: fmt.Sprintf(format, a...)})
		}
	}
	if root.Parent != nil {
		add("I6:root-has-parent", "root value has a parent")
	}
	lenCache := map[bitio.ReaderAtSeeker]int64{}
	rlen := func(r bitio.ReaderAtSeeker) int64 {
		if r == nil {
			return -1
		}
		if l, ok := lenCache[r]; ok {
			return l
		}
		l, err := bitLen(r)
		if err != nil {
			l = -1
		}
		lenCache[r] = l
		return l
	}
	var walk func(v *decode.Value, bufRoot *decode.Value, depth int)
	walk = func(v *decode.Value, bufRoot *decode.Value, depth int) {
		cur = v
		st.Values++
		if v.Err != nil {
			st.Errors++
		}
		p := func() string { return valuePathStr(v) }
		// I1: range inside its buffer
		if v.Range.Len < 0 || v.Range.Start < 0 {
			add("I1:negative-range", "%s: range %s negative", p(), v.Range)
		}
		rl := rlen(v.RootReader)
		if rl < 0 {
			add("I1:no-root-reader", "%s: RootReader nil or not measurable", p())
		} else if v.IsRoot {
			if v.Range.Len > rl {
				add("I1:root-inner-range-outside-buffer", "%s: root inner range 0:%d outside its buffer of %d bits", p(), v.Range.Len, rl)
			}
		} else {
			if v.Range.Stop() > rl {
				add("I1:range-outside-buffer", "%s: range %s (stop %d) outside its buffer of %d bits", p(), v.Range, v.Range.Stop(), rl)
			}
			if bufRoot != nil && v.RootReader != bufRoot.RootReader {
				// Values decoded inside FramedFn/LimitedFn/RangeFn of a nested root keep the range *view* of
				// that root's buffer as RootReader (a view from bit 0, so coordinates agree). What the
				// property asks is that the range addresses the same bits in the buffer the value was decoded
				// from: compare content through both readers (identity was demanded first: false alarm, DESIGN 8.4).
				st.ViewReaders++
				if _, isC := v.V.(*decode.Compound); !isC && v.Range.Len > 0 && v.Range.Stop() <= rl {
					n := v.Range.Len
					if n > 1<<19 {
						n = 1 << 19
					}
					a, errA := readBitsOf(v.RootReader, v.Range.Start, n)
					b, errB := readBitsOf(bufRoot.RootReader, v.Range.Start, n)
					if errA != nil || errB != nil || !bytes.Equal(a, b) {
						add("I1:root-reader-differs-from-buffer-root", "%s: range %s read through the value's RootReader differs from the same range of its buffer root %s (errs %v, %v)", p(), v.Range, valuePathStr(bufRoot), errA, errB)
					}
				}
			}
		}
		if v.Range.Start%8 != 0 || v.Range.Len%8 != 0 {
			st.Unaligned++
		}
		if isGap(v) {
			st.Gaps++
		}
		if isSynthetic(v) {
			st.Synthetic++
		}
		c, ok := v.V.(*decode.Compound)
		if !ok {
			return
		}
		st.Compounds++
		inner := v.Range
		if v.IsRoot {
			// children of a root are in the root's own buffer coordinates
			inner = ranges.Range{Start: 0, Len: rl}
		}
		names := map[string]bool{}
		prevStart := int64(-1 << 62)
		for i, ch := range c.Children {
			cur = v
			if ch.Parent != v {
				add("I6:parent-link", "%s: child %d (%q) has a different Parent", p(), i, ch.Name)
			}
			if c.IsArray {
				if ch.Index != i {
					add("I5:array-index", "%s: array child at position %d has Index %d", p(), i, ch.Index)
				}
			} else {
				if ch.Index != -1 {
					add("I5:struct-child-index", "%s: struct child %q has Index %d (want -1)", p(), ch.Name, ch.Index)
				}
				if names[ch.Name] {
					add("I3:duplicate-name", "%s: duplicate field name %q", p(), ch.Name)
				}
				names[ch.Name] = true
				if c.ByName == nil || c.ByName[ch.Name] != ch {
					add("I3:byname-mismatch", "%s: ByName[%q] is not the child", p(), ch.Name)
				}
				if ch.Range.Start < prevStart {
					add("I4:struct-order", "%s: field %q starts at %d before the previous field's start %d", p(), ch.Name, ch.Range.Start, prevStart)
				}
				prevStart = ch.Range.Start
			}
			// I2: same-buffer, non-synthetic children inside the compound's range
			if !ch.IsRoot && !isSynthetic(ch) {
				if ch.Range.Start < inner.Start || ch.Range.Stop() > inner.Stop() {
					add("I2:child-outside-parent", "%s: child %q range %s outside parent range %s", p(), ch.Name, ch.Range, inner)
				}
			}
			nb := bufRoot
			if ch.IsRoot {
				st.NestedRoots++
				nb = ch
			}
			walk(ch, nb, depth+1)
		}
		if !c.IsArray && len(c.ByName) != len(c.Children) && len(c.Children) > 0 {
			add("I3:byname-size", "%s: ByName has %d entries for %d children", p(), len(c.ByName), len(c.Children))
		}
	}
	walk(root, root, 0)
	return issues
}

// ---- coverage (C04 part 2) ----

type covIssue struct {
	Sig  string
	Desc string
}

// leavesOf: non-compound, non-root values under bufRoot without descending into nested roots
// (exactly the set D.FillGaps uses).
func leavesOf(bufRoot *decode.Value) []*decode.Value {
	var out []*decode.Value
	var walk func(v *decode.Value)
	walk = func(v *decode.Value) {
		if c, ok := v.V.(*decode.Compound); ok {
			for _, ch := range c.Children {
				if ch.IsRoot {
					continue
				}
				walk(ch)
			}
			return
		}
		out = append(out, v)
	}
	walk(bufRoot)
	return out
}

// gapFilledScopes: every value produced by decode() with gap filling: the top-level value, nested
// buffer roots (IsRoot) and *Len/*Range sub-decodes (not IsRoot); all have Format != nil and are compounds.
func gapFilledScopes(root *decode.Value) []*decode.Value {
	var out []*decode.Value
	var walk func(v *decode.Value)
	walk = func(v *decode.Value) {
		c, ok := v.V.(*decode.Compound)
		if !ok {
			return
		}
		if v.Format != nil {
			out = append(out, v)
		}
		for _, ch := range c.Children {
			walk(ch)
		}
	}
	walk(root)
	return out
}

func readBitsOf(r bitio.ReaderAt, off, n int64) ([]byte, error) {
	buf := make([]byte, (n+7)/8)
	_, err := bitio.ReadAtFull(r, buf, n, off)
	return buf, err
}
