package main

// C07: table of standard built-ins (input type, argument kinds, result type). `over` marks the ones fq
// redefines in its init modules (binary.jq, internal.jq, init.jq, json.jq) or that the property lists
// explicitly; they get most of the weight.

import (
	"strconv"
	"strings"

	"github.com/wader/gojq"
)

type c07Arg int

const (
	c07aStr     c07Arg = iota // string expression (mostly literal)
	c07aSep                   // split/1 separator
	c07aRe                    // regular expression
	c07aReNamed               // regular expression with named groups
	c07aReArr                 // [re, flags]
	c07aFlags                 // regex flags or null
	c07aNum                   // number expression
	c07aSmall                 // small integer literal
	c07aAny                   // any expression evaluated on `.`
	c07aSame                  // expression of the same type as the input
	c07aFElem                 // filter applied to the elements of the input
	c07aFSelf                 // filter applied to `.`-like values
	c07aFEntry                // filter applied to {key,value}
	c07aFCap                  // filter applied to a capture object, yields replacement string(s)
	c07aCond                  // boolean filter
	c07aPathArr               // constant path array
	c07aKey                   // key of the input (object key or array index)
	c07aFmt                   // format name
	c07aTimeFmt               // strftime format
	c07aStream                // bounded generator
)

type c07InKind int

const (
	c07inPlain c07InKind = iota
	c07inCodepoints
	c07inJSONText
	c07inEntries
	c07inDateNum
	c07inDateStr
	c07inStrArr
	c07inArrArr
	c07inSorted
	c07inBroken // broken down time
	c07inNumStr
	c07inSmallNum
	c07inKeyOf // "a" | in({...})
)

type c07Builtin struct {
	name string
	in   c07T
	out  c07T
	w    int
	over bool
	args []c07Arg
	ik   c07InKind
}

func (b c07Builtin) id() string { return b.name + "/" + strconv.Itoa(len(b.args)) }

func c07Table() []c07Builtin {
	const (
		N = c07Null
		B = c07Bool
		M = c07Num
		S = c07Str
		A = c07Arr
		O = c07Obj
		Y = c07Any
	)
	e := func(name string, in, out c07T, w int, over bool, args ...c07Arg) c07Builtin {
		return c07Builtin{name: name, in: in, out: out, w: w, over: over, args: args}
	}
	k := func(b c07Builtin, ik c07InKind) c07Builtin { b.ik = ik; return b }
	t := []c07Builtin{
		// redefined by fq / listed by the property
		e("split", S, A, 12, true, c07aSep),
		e("split", S, A, 8, true, c07aRe, c07aFlags),
		e("splits", S, S, 8, true, c07aRe),
		e("splits", S, S, 6, true, c07aRe, c07aFlags),
		e("test", S, B, 8, true, c07aRe),
		e("test", S, B, 6, true, c07aRe, c07aFlags),
		e("test", S, B, 2, true, c07aReArr),
		e("match", S, O, 8, true, c07aRe),
		e("match", S, O, 6, true, c07aRe, c07aFlags),
		e("match", S, O, 2, true, c07aReArr),
		e("capture", S, O, 8, true, c07aReNamed),
		e("capture", S, O, 5, true, c07aReNamed, c07aFlags),
		e("scan", S, Y, 8, true, c07aRe),
		e("scan", S, Y, 5, true, c07aRe, c07aFlags),
		e("sub", S, S, 6, true, c07aRe, c07aFCap),
		e("sub", S, S, 4, true, c07aRe, c07aFCap, c07aFlags),
		e("gsub", S, S, 6, true, c07aRe, c07aFCap),
		e("gsub", S, S, 4, true, c07aRe, c07aFCap, c07aFlags),
		e("explode", S, A, 10, true),
		k(e("implode", A, S, 7, true), c07inCodepoints),
		e("tojson", Y, S, 12, true),
		k(e("fromjson", S, Y, 10, true), c07inJSONText),
		e("tostring", Y, S, 6, true),
		k(e("ascii", M, S, 3, true), c07inSmallNum),
		e("ltrimstr", S, S, 4, true, c07aStr),
		e("rtrimstr", S, S, 3, true, c07aStr),
		e("debug", Y, Y, 5, true),
		e("debug", Y, Y, 4, true, c07aAny),
		e("stderr", Y, Y, 4, true),
		e("input_filename", Y, N, 3, true),
		e("group_by", A, A, 5, true, c07aFElem),
		e("unique_by", A, A, 5, true, c07aFElem),
		e("sort_by", A, A, 3, false, c07aFElem),
		e("min_by", A, Y, 2, false, c07aFElem),
		e("max_by", A, Y, 2, false, c07aFElem),
		e("paths", Y, A, 5, true),
		e("paths", Y, A, 3, true, c07aCond),
		e("getpath", Y, Y, 5, true, c07aPathArr),
		e("to_entries", O, A, 5, true),
		k(e("from_entries", A, O, 4, true), c07inEntries),
		e("with_entries", O, O, 5, true, c07aFEntry),
		// other standard built-ins
		e("ascii_downcase", S, S, 2, false), e("ascii_upcase", S, S, 2, false),
		e("trim", S, S, 1, false), e("ltrim", S, S, 1, false), e("rtrim", S, S, 1, false),
		e("startswith", S, B, 2, false, c07aStr), e("endswith", S, B, 2, false, c07aStr),
		k(e("tonumber", S, M, 3, false), c07inNumStr),
		e("utf8bytelength", S, M, 1, false),
		e("index", S, M, 2, false, c07aStr), e("rindex", S, M, 1, false, c07aStr), e("indices", S, A, 2, false, c07aStr),
		e("indices", A, A, 1, false, c07aSame), e("index", A, M, 1, false, c07aAny),
		e("length", Y, M, 3, false), e("not", Y, B, 1, false), e("type", Y, S, 2, false),
		e("keys", O, A, 2, false), e("keys_unsorted", O, A, 1, false), e("keys", A, A, 1, false),
		e("has", O, B, 2, false, c07aKey), e("has", A, B, 1, false, c07aKey),
		k(e("in", S, B, 1, false, c07aAny), c07inKeyOf),
		e("contains", Y, B, 2, false, c07aSame), e("inside", Y, B, 1, false, c07aSame),
		e("add", A, Y, 2, false), e("add", O, Y, 1, false),
		e("any", A, B, 1, false), e("all", A, B, 1, false), e("any", A, B, 1, false, c07aCond), e("all", A, B, 1, false, c07aCond),
		e("flatten", A, A, 2, false), e("flatten", A, A, 1, false, c07aSmall),
		e("min", A, Y, 1, false), e("max", A, Y, 1, false), e("sort", A, A, 2, false), e("unique", A, A, 2, false), e("reverse", Y, Y, 2, false),
		k(e("join", A, S, 3, false, c07aStr), c07inStrArr),
		k(e("transpose", A, A, 1, false), c07inArrArr),
		e("first", A, Y, 1, false), e("last", A, Y, 1, false), e("nth", A, Y, 1, false, c07aSmall),
		e("map", A, A, 3, false, c07aFElem), e("map", O, A, 1, false, c07aFElem), e("map_values", Y, Y, 2, false, c07aFElem),
		e("select", Y, Y, 3, false, c07aCond), e("recurse", Y, Y, 1, false), e("walk", Y, Y, 2, false, c07aFSelf),
		e("tostream", Y, A, 1, false), e("toarray", Y, A, 1, false),
		e("arrays", Y, A, 1, false), e("objects", Y, O, 1, false), e("iterables", Y, Y, 1, false), e("booleans", Y, B, 1, false), e("numbers", Y, M, 1, false),
		e("normals", Y, M, 1, false), e("finites", Y, M, 1, false), e("strings", Y, S, 1, false), e("nulls", Y, N, 1, false), e("values", Y, Y, 1, false), e("scalars", Y, Y, 1, false),
		k(e("bsearch", A, M, 1, false, c07aAny), c07inSorted),
		e("format", Y, S, 2, false, c07aFmt),
		e("splits", Y, S, 1, true, c07aRe), // on any input: must fail the same way
		e("test", Y, B, 1, true, c07aRe), e("explode", Y, A, 2, true), e("split", Y, A, 2, true, c07aSep), e("fromjson", Y, Y, 2, true), e("implode", Y, S, 2, true),
		e("ltrimstr", Y, Y, 1, true, c07aAny), e("match", Y, O, 1, true, c07aAny), e("capture", Y, O, 1, true, c07aAny), e("scan", Y, Y, 1, true, c07aAny),
		e("sub", Y, S, 1, true, c07aAny, c07aAny), e("ascii", Y, S, 1, true), e("from_entries", Y, O, 1, true), e("to_entries", Y, A, 1, true), e("with_entries", Y, O, 1, true, c07aFEntry),
		e("tojson", M, S, 6, true), e("tostring", M, S, 2, true),
		e("abs", M, M, 1, false), e("floor", M, M, 2, false), e("sqrt", M, M, 1, false), e("fabs", M, M, 1, false), e("round", M, M, 1, false), e("ceil", M, M, 1, false),
		e("trunc", M, M, 1, false), e("exp", M, M, 1, false), e("log", M, M, 1, false), e("log2", M, M, 1, false), e("exp2", M, M, 1, false), e("exp10", M, M, 1, false),
		e("log10", M, M, 1, false), e("significand", M, M, 1, false), e("logb", M, M, 1, false), e("gamma", M, M, 1, false), e("lgamma", M, M, 1, false), e("frexp", M, A, 1, false),
		e("modf", M, A, 1, false), e("nearbyint", M, M, 1, false), e("cbrt", M, M, 1, false), e("sin", M, M, 1, false),
		e("pow", Y, M, 2, false, c07aNum, c07aNum), e("atan2", Y, M, 1, false, c07aNum, c07aNum), e("ldexp", Y, M, 1, false, c07aNum, c07aSmall), e("fma", Y, M, 1, false, c07aNum, c07aNum, c07aNum),
		e("fmin", Y, M, 1, false, c07aNum, c07aNum), e("fmod", Y, M, 1, false, c07aNum, c07aNum),
		e("isnan", M, B, 1, false), e("isinfinite", M, B, 1, false), e("isnormal", M, B, 1, false), e("isfinite", M, B, 1, false), e("infinite", Y, M, 1, false), e("nan", Y, M, 1, false),
		k(e("todate", M, S, 2, false), c07inDateNum), k(e("gmtime", M, A, 2, false), c07inDateNum), k(e("mktime", A, M, 2, false), c07inBroken),
		k(e("strftime", M, S, 2, false, c07aTimeFmt), c07inDateNum), k(e("strftime", A, S, 1, false, c07aTimeFmt), c07inBroken),
		k(e("fromdate", S, M, 2, false), c07inDateStr), k(e("strptime", S, A, 2, false, c07aTimeFmt), c07inDateStr),
		k(e("todateiso8601", M, S, 1, false), c07inDateNum), k(e("fromdateiso8601", S, M, 1, false), c07inDateStr),
		e("error", Y, Y, 1, false), e("empty", Y, Y, 1, false),
		e("getpath", Y, Y, 1, true, c07aAny),
		e("have_literal_numbers", Y, B, 1, false), e("have_decnum", Y, B, 1, false),
		e("trimstr", S, S, 1, false, c07aStr), e("ltrimstr", M, M, 1, true, c07aStr), e("splits", S, S, 1, true, c07aSep),
		e("ascii", S, S, 1, false),
		e("getpath", O, Y, 2, true, c07aPathArr), e("paths", A, A, 1, true), e("tojson", S, S, 4, true), e("tojson", A, S, 3, true), e("tojson", O, S, 3, true),
		e("limit", Y, Y, 1, false, c07aSmall, c07aStream), e("first", Y, Y, 1, false, c07aStream), e("isempty", Y, B, 1, false, c07aStream),
		e("abs", Y, Y, 1, false), e("toarray", A, A, 1, false),
	}
	var out []c07Builtin
	for _, b := range t {
		if b.w > 0 && b.name[0] != '@' {
			out = append(out, b)
		}
	}
	return out
}

// c07ValidateTable keeps only the built-ins the REFERENCE engine knows with that arity; what is dropped is
// reported in the evidence (extra.builtins_not_in_reference).
func c07ValidateTable(tbl []c07Builtin, opts []gojq.CompilerOption) (ok []c07Builtin, missing []string) {
	seen := map[string]bool{}
	for _, b := range tbl {
		prog := b.name
		if len(b.args) > 0 {
			prog += "(" + strings.TrimSuffix(strings.Repeat(".;", len(b.args)), ";") + ")"
		}
		q, err := gojq.Parse(prog)
		if err == nil {
			_, err = gojq.Compile(q, opts...)
		}
		if err != nil {
			if !seen[b.id()] {
				seen[b.id()] = true
				missing = append(missing, b.id())
			}
			continue
		}
		ok = append(ok, b)
	}
	return ok, missing
}

func (g *c07Gen) pickBuiltin(pred func(c07Builtin) bool) (c07Builtin, bool) {
	total := 0
	for _, b := range g.tbl {
		if pred(b) {
			total += b.w
		}
	}
	if total == 0 {
		return c07Builtin{}, false
	}
	x := g.r.Intn(total)
	for _, b := range g.tbl {
		if pred(b) {
			if x < b.w {
				return b, true
			}
			x -= b.w
		}
	}
	return c07Builtin{}, false
}

// callAny: a built-in call; most of the time one whose input type is the type of `.`
func (g *c07Gen) callAny(d int, in c07Shape) (*c07Node, c07Shape) {
	if g.ch(2, 3) && in.t != c07Any {
		if b, ok := g.pickBuiltin(func(b c07Builtin) bool { return b.in == in.t || (b.in == c07Any && b.over) }); ok {
			return g.call(d, in, b)
		}
	}
	b, _ := g.pickBuiltin(func(c07Builtin) bool { return true })
	return g.call(d, in, b)
}

// callOver: a call of a built-in that fq redefines
func (g *c07Gen) callOver(d int, in c07Shape) (*c07Node, c07Shape) {
	b, _ := g.pickBuiltin(func(b c07Builtin) bool { return b.over })
	return g.call(d, in, b)
}

func (g *c07Gen) lit(s string) *c07Node { return c07Leaf("literal", s) }

// source expression feeding a built-in that needs input type b.in; nil means `.` is used directly
func (g *c07Gen) source(d int, in c07Shape, b c07Builtin) (*c07Node, c07Shape) {
	switch b.ik {
	case c07inCodepoints:
		if g.ch(1, 2) {
			return g.lit(g.ps([]string{"[65,66,67]", "[128512]", "[97,769]", "[0]", "[]", "[55296]", "[1114112]", "[-1]", "[65.5]", "[\"a\"]", "[null]", "[1114111,65]", "[56320,55357]", "[4294967296]", "[10000000000000000000000]"})), c07S(c07Arr)
		}
		s, _ := g.typed(d-1, in, c07Str)
		return c07N("pipe", false, c07P(s), " | ", c07Call0("explode")), c07S(c07Arr)
	case c07inJSONText:
		switch g.r.Intn(4) {
		case 0, 1:
			return g.lit(c07Quote(g.ps(c07JSONTextPool))), c07S(c07Str)
		case 2:
			a, _ := g.expr(d-1, in)
			return c07N("pipe", false, c07P(a), " | ", c07Call0("tojson")), c07S(c07Str)
		}
	case c07inEntries:
		if g.ch(2, 3) {
			return g.lit(g.ps([]string{`[{"key":"a","value":1}]`, `[{"k":"a","v":1},{"name":"b","Value":2}]`, `[{"Key":"A","Value":null},{"Name":"n"}]`, `[{"key":1,"value":2}]`, `[{"key":null,"value":3}]`,
				`[{"key":false}]`, `[{"key":true,"value":1}]`, `[{"value":1}]`, `[["a",1]]`, `[]`, `[{"key":"a","value":1},{"key":"a","value":2}]`, `[{"K":"x","V":1}]`, `[{"key":{"a":1}}]`, `[{"key":1.5,"value":1}]`, `[{"name":"n","value":false}]`, `[null]`})), c07S(c07Arr)
		}
	case c07inDateNum:
		if g.ch(3, 4) {
			return g.lit(g.ps([]string{"1425599621", "0", "-1", "1425599621.678", "1e10", "253402300800", "-62135596800", "1e18", "0.5"})), c07S(c07Num)
		}
	case c07inDateStr:
		if g.ch(3, 4) {
			return g.lit(c07Quote(g.ps([]string{"2015-03-05T23:51:47Z", "1970-01-01T00:00:00Z", "2015-03-05T23:51:47+01:00", "2015-03-05", "", "x", "9999-12-31T23:59:59Z", "2016-02-29T12:00:00Z", "2015-13-05T23:51:47Z"}))), c07S(c07Str)
		}
	case c07inStrArr:
		if g.ch(1, 2) {
			return g.lit(g.ps([]string{`["a","b","c"]`, `[]`, `["a"]`, `["a",1,null,true]`, `["a",[1]]`, `[null]`, `["😀","é"]`, `[1.5,10000000000000000000000]`, `["a",{"b":1}]`})), c07S(c07Arr)
		}
	case c07inArrArr:
		if g.ch(1, 2) {
			return g.lit(g.ps([]string{`[[1,2],[3,4]]`, `[[1],[2,3]]`, `[]`, `[[]]`, `[[1,2,3],[],[4]]`, `[1]`, `[[null]]`})), c07S(c07Arr)
		}
	case c07inSorted:
		if g.ch(1, 2) {
			return g.lit(g.ps([]string{`[1,2,3]`, `[]`, `[1]`, `["a","b","c"]`, `[0,1.5,2,10000000000000000000000]`, `[3,1,2]`, `[null,false,true,0,"a",[],{}]`})), c07S(c07Arr)
		}
	case c07inBroken:
		if g.ch(3, 4) {
			return g.lit(g.ps([]string{"[2015,2,5,23,51,47,4,63]", "[1970,0,1,0,0,0,4,0]", "[2015,2,5,23,51,47.5,4,63]", "[2015,2,5]", "[2015,14,35,25,61,61,0,0]", "[\"a\"]", "[]", "[2015,2,5,23,51,47,4,63,9]", "[1e10,0,1,0,0,0,0,0]"})), c07S(c07Arr)
		}
	case c07inNumStr:
		if g.ch(3, 4) {
			return g.lit(c07Quote(g.ps([]string{"12", "-1.5e3", "1e1000", "0x10", "nan", "-0", "007", " 1", "1 ", "", "10000000000000000000000", "0.1", "1e-400", ".5", "5.", "+1", "1_0", "Infinity", "-nan", "1e", "0b1", "１"}))), c07S(c07Str)
		}
	case c07inSmallNum:
		if g.ch(3, 4) {
			return g.lit(g.ps([]string{"65", "97", "48", "0", "127", "128", "-1", "65.5", "1114112", "128512"})), c07S(c07Num)
		}
	case c07inKeyOf:
		return g.lit(c07Quote(g.ps(c07KeyPool))), c07S(c07Str)
	}
	if b.in == c07Any || b.in == in.t {
		return nil, in
	}
	return g.typed(d-1, in, b.in)
}

func (g *c07Gen) elemShape(in c07Shape) c07Shape {
	switch ex := in.ex.(type) {
	case []any:
		if len(ex) > 0 {
			return c07ShapeOf(ex[g.r.Intn(len(ex))])
		}
	case map[string]any:
		if ks := c07Keys(ex); len(ks) > 0 {
			return c07ShapeOf(ex[ks[g.r.Intn(len(ks))]])
		}
	}
	return c07S(c07Any)
}

func (g *c07Gen) arg(d int, kind c07Arg, in c07Shape, b c07Builtin) *c07Node {
	strOr := func(pool []string, p int) *c07Node {
		if g.ch(p, 100) {
			return g.lit(c07Quote(g.ps(pool)))
		}
		if g.ch(1, 3) {
			// a piece of the input itself (so that it matches)
			if s, ok := in.ex.(string); ok && len(s) > 0 {
				rs := []rune(s)
				i := g.r.Intn(len(rs))
				j := i + 1 + g.r.Intn(min(3, len(rs)-i))
				return g.lit(c07Quote(string(rs[i:j])))
			}
		}
		n, _ := g.typed(d-1, in, c07Str)
		return n
	}
	switch kind {
	case c07aStr:
		return strOr(c07StrPool, 50)
	case c07aSep:
		return strOr(c07SepPool, 70)
	case c07aRe:
		if g.ch(1, 12) {
			return g.lit(g.ps([]string{"null", "1", "[\"a\"]", "{}", "true"}))
		}
		return strOr(c07RePool, 80)
	case c07aReNamed:
		if g.ch(1, 5) {
			return strOr(c07RePool, 100)
		}
		return strOr(c07ReNamedPool, 100)
	case c07aReArr:
		return g.lit(g.ps([]string{`["a"]`, `["A","i"]`, `["[a-c]","g"]`, `["a","g","x"]`, `[]`, `["a",null]`, `[1]`, `["(?<x>b)","gi"]`}))
	case c07aFlags:
		if g.ch(1, 4) {
			return g.lit("null")
		}
		if g.ch(1, 12) {
			return g.lit(g.ps([]string{"1", "[]", "{}", "true"}))
		}
		return g.lit(c07Quote(g.ps(c07FlagPool)))
	case c07aNum:
		if g.ch(2, 3) {
			n, _ := g.literal(c07Num)
			return n
		}
		n, _ := g.typed(d-1, in, c07Num)
		return n
	case c07aSmall:
		return g.lit(g.ps([]string{"0", "1", "2", "3", "-1", "1.5"}))
	case c07aAny:
		n, _ := g.expr(d-1, in)
		return n
	case c07aSame:
		if in.has && g.ch(1, 2) {
			// a sub-value of the example (contains/inside/indices make sense)
			switch ex := in.ex.(type) {
			case string:
				if len(ex) > 0 {
					rs := []rune(ex)
					i := g.r.Intn(len(rs))
					return g.lit(c07Quote(string(rs[i : i+1+g.r.Intn(len(rs)-i)])))
				}
			case []any:
				if len(ex) > 0 {
					i := g.r.Intn(len(ex))
					return g.lit(c07JSON(ex[i : i+1]))
				}
			case map[string]any:
				if ks := c07Keys(ex); len(ks) > 0 {
					k := ks[g.r.Intn(len(ks))]
					return g.lit(c07JSON(map[string]any{k: ex[k]}))
				}
			}
		}
		n, _ := g.typed(d-1, in, in.t)
		return n
	case c07aFElem:
		es := g.elemShape(in)
		if g.ch(1, 3) {
			return g.lit(g.ps([]string{".", ".a", ".b", ".[0]", "length", "type", "tostring", "tojson", "(.a, .b)", "-.", ".a?", "[.b, .a]", "not", "empty", ". % 2", "ascii_downcase", "test(\"a\")", "explode"}))
		}
		n, _ := g.expr(d-1, es)
		return n
	case c07aFSelf:
		if g.ch(1, 2) {
			return g.lit(g.ps([]string{".", "if type == \"number\" then . + 1 else . end", "if type == \"string\" then explode else . end", "if type == \"array\" then sort else . end", "tojson", "if type == \"object\" then del(.a) else . end", "if type == \"string\" then split(\",\") else . end", "[.]", "select(. != null)", "(., 1)"}))
		}
		n, _ := g.expr(d-1, c07S(c07Any))
		return n
	case c07aFEntry:
		if g.ch(2, 3) {
			return g.lit(g.ps([]string{".", ".value |= tojson", ".key |= ascii_upcase", "select(.key | test(\"a\"))", ".key += \"_x\"", "{key: .value | tostring, value: .key}", "select(.value != null)", ".value |= tostring", "empty", "{key: .key}", ".key |= explode", "(., .)", ".key = 1", ".key = null", "{k: .key, v: .value}", "{name: .key, value}", ".value = (.key | split(\"\"))"}))
		}
		n, _ := g.expr(d-1, c07ShapeOf(map[string]any{"key": "a", "value": 1}))
		return n
	case c07aFCap:
		if b.name == "gsub" || len(b.args) == 3 {
			// with "g" every output of the replacement multiplies the results per match: single-output only
			return g.lit(g.ps([]string{`"x"`, `""`, `"<\(.x)>"`, `.x`, `"\(.n // "none")"`, `.x + "!"`, `"[\(.a)|\(.b)]"`, `tojson`, `"\\0"`, `"$1"`, `(.w + "-" + .v)`, `"😀"`, `.x | ascii_upcase`, `1`, `null`, `"\(keys)"`, `error("in-sub")`, `.first // "z"`, `empty`}))
		}
		if g.ch(4, 5) {
			return g.lit(g.ps([]string{`"x"`, `""`, `"<\(.x)>"`, `.x`, `"\(.n // "none")"`, `(.x, "y")`, `.x + "!"`, `"[\(.a)|\(.b)]"`, `tojson`, `"\\0"`, `"$1"`, `(.w + "-" + .v)`, `"😀"`, `ascii_upcase?`, `.x | ascii_upcase`, `empty`, `1`, `null`, `("a", "b", "c")`, `"\(keys)"`, `error("in-sub")`, `.first // "z"`}))
		}
		n, _ := g.typed(d-1, c07S(c07Obj), c07Str)
		return n
	case c07aCond:
		if g.ch(1, 2) {
			return g.lit(g.ps([]string{"type == \"number\"", "type == \"string\"", ". == null", "length > 1", ". != null", "true", "false", "null", ". > 1", "type == \"array\"", "(true, false)", "empty", "scalars", "test(\"a\")?", "has(\"a\")?", "startswith(\"a\")?", "isnan?"}))
		}
		n, _ := g.typed(d-1, g.elemShape(in), c07Bool)
		return n
	case c07aPathArr:
		return g.pathArr(in)
	case c07aKey:
		switch ex := in.ex.(type) {
		case map[string]any:
			if ks := c07Keys(ex); len(ks) > 0 && g.ch(2, 3) {
				return g.lit(c07Quote(ks[g.r.Intn(len(ks))]))
			}
		case []any:
			return g.lit(strconv.Itoa(g.r.Intn(len(ex) + 2)))
		}
		if b.in == c07Arr {
			return g.lit(g.ps([]string{"0", "1", "5", "-1", "\"a\"", "1.5", "null"}))
		}
		return g.lit(g.ps([]string{`"a"`, `"b"`, `"key"`, `""`, `0`, `null`, `"a b"`}))
	case c07aFmt:
		return g.lit(c07Quote(g.ps([]string{"text", "json", "csv", "tsv", "html", "uri", "sh", "base64", "base64d", "base32", "base32d", "@json", "nope", ""})))
	case c07aTimeFmt:
		return g.lit(c07Quote(g.ps([]string{"%Y-%m-%dT%H:%M:%SZ", "%A, %B %d, %Y", "%s", "%j %U %w", "%e %b %y %I:%M %p", "%Z %z", "%%", "", "%Y", "%H:%M:%S", "%c", "%D %T", "%G-W%V-%u", "%q"})))
	case c07aStream:
		n, _ := g.stream(d, in)
		return n
	}
	return g.lit("null")
}

func (g *c07Gen) call(d int, in c07Shape, b c07Builtin) (*c07Node, c07Shape) {
	src, ssh := g.source(d, in, b)
	parts := []any{b.name}
	if len(b.args) > 0 {
		parts = append(parts, "(")
		for i, a := range b.args {
			if i > 0 {
				parts = append(parts, "; ")
			}
			parts = append(parts, g.arg(d, a, ssh, b))
		}
		parts = append(parts, ")")
	}
	c := c07N("call", true, parts...)
	c.fn = b.id()
	out := c07S(b.out)
	if b.name == "debug" || b.name == "stderr" || b.name == "select" || b.name == "values" {
		out = ssh
	}
	if src == nil {
		return c, out
	}
	return c07N("pipe", false, c07P(src), " | ", c), out
}
