package main

// C15: client of pyref/c15_helper.py (one helper process per worker goroutine, thorough tier only).

import (
	"bufio"
	"encoding/base64"
	"encoding/json"
	"fmt"
	"io"
	"os"
	"os/exec"
	"path/filepath"

	"verif/ev"
)

type c15Py struct {
	cmd *exec.Cmd
	in  io.WriteCloser
	out *bufio.Reader
}

func c15PyPath() string {
	if p := os.Getenv("C15_PYREF"); p != "" {
		return p
	}
	cands := []string{
		filepath.Join(ev.VerifDir(), "harness", "pyref", "c15_helper.py"),
		"/verif/harness/pyref/c15_helper.py",
	}
	for _, p := range cands {
		if _, err := os.Stat(p); err == nil {
			return p
		}
	}
	return cands[0]
}

func c15StartPy() (*c15Py, error) {
	cmd := exec.Command("python3", "-u", c15PyPath())
	in, err := cmd.StdinPipe()
	if err != nil {
		return nil, err
	}
	out, err := cmd.StdoutPipe()
	if err != nil {
		return nil, err
	}
	cmd.Stderr = os.Stderr
	if err := cmd.Start(); err != nil {
		return nil, err
	}
	p := &c15Py{cmd: cmd, in: in, out: bufio.NewReaderSize(out, 1<<20)}
	if _, err := p.call(map[string]any{"op": "ping"}); err != nil {
		p.close()
		return nil, err
	}
	return p, nil
}

func (p *c15Py) close() {
	p.in.Close()
	_ = p.cmd.Wait()
}

func (p *c15Py) call(req map[string]any) (map[string]any, error) {
	b, err := json.Marshal(req)
	if err != nil {
		return nil, err
	}
	if _, err := p.in.Write(append(b, '\n')); err != nil {
		return nil, err
	}
	line, err := p.out.ReadBytes('\n')
	if err != nil {
		return nil, err
	}
	var resp map[string]any
	if err := json.Unmarshal(line, &resp); err != nil {
		return nil, err
	}
	if f, ok := resp["fatal"]; ok {
		return nil, fmt.Errorf("python helper: %v", f)
	}
	return resp, nil
}

// write asks Python to write a container; returns the file bytes and writer-side info.
func (p *c15Py) write(format string, spec map[string]any) ([]byte, map[string]any, error) {
	resp, err := p.call(map[string]any{"op": "write", "format": format, "spec": spec})
	if err != nil {
		return nil, nil, err
	}
	s, _ := resp["data"].(string)
	data, err := base64.StdEncoding.DecodeString(s)
	if err != nil {
		return nil, nil, err
	}
	info, _ := resp["info"].(map[string]any)
	return data, info, nil
}

// check gives each file to the Python reader; "" = accepted.
func (p *c15Py) check(f *c15File, datas [][]byte) ([]string, error) {
	files := make([]string, len(datas))
	for i, d := range datas {
		files[i] = base64.StdEncoding.EncodeToString(d)
	}
	resp, err := p.call(map[string]any{"op": "check", "format": f.format, "files": files})
	if err != nil {
		return nil, err
	}
	errs, _ := resp["err"].([]any)
	vals, _ := resp["val"].([]any)
	if len(errs) != len(datas) {
		return nil, fmt.Errorf("python helper: %d answers for %d files", len(errs), len(datas))
	}
	out := make([]string, len(datas))
	for i, e := range errs {
		if s, ok := e.(string); ok {
			out[i] = s
			if out[i] == "" {
				out[i] = "rejected"
			}
			continue
		}
		// tarfile ends silently at a bad header that is not the first one: compare the member count
		if f.format == "tar" && i < len(vals) {
			if n, ok := vals[i].(float64); ok {
				if te, ok := f.exp.(*c15TarExp); ok && int(n) != len(te.members) {
					out[i] = fmt.Sprintf("tarfile stopped after %d of %d members", int(n), len(te.members))
				}
			}
		}
	}
	return out, nil
}

func c15B64(b []byte) string { return base64.StdEncoding.EncodeToString(b) }
