package main

// C15: content generators shared by all formats (everything derives from the case PRNG).

import (
	"strings"

	"verif/gen"
)

// c15Payload returns member contents and their class.
func c15Payload(r *gen.Rand, small bool) ([]byte, string) {
	if small {
		switch r.Intn(5) {
		case 0:
			return nil, "empty"
		case 1:
			return r.Bytes(1 + r.Intn(8)), "tiny"
		case 2:
			return c15Text(r, 10+r.Intn(80)), "compressible"
		default:
			return r.Bytes(8 + r.Intn(56)), "incompressible"
		}
	}
	switch r.Intn(14) {
	case 0:
		return nil, "empty"
	case 1:
		return r.Bytes(1 + r.Intn(16)), "tiny"
	case 2, 3, 4:
		return r.Bytes(17 + r.Intn(3000)), "incompressible"
	case 5, 6, 7:
		return c15Text(r, 17+r.Intn(6000)), "compressible"
	case 8:
		n := 100 + r.Intn(20000)
		b := make([]byte, n) // one repeated byte: maximal compression, long matches
		v := byte(r.Intn(256))
		for i := range b {
			b[i] = v
		}
		return b, "compressible"
	case 9:
		// > 64 KiB: crosses the 16-bit length of a stored deflate block and the 32 KiB window
		n := 65537 + r.Intn(6000)
		if r.Bool() {
			return r.Bytes(n), "big-incompressible"
		}
		return c15Text(r, n), "big-compressible"
	case 10:
		// mixed: compressible run, random run, compressible run
		b := append(c15Text(r, 500+r.Intn(2000)), r.Bytes(200+r.Intn(2000))...)
		return append(b, c15Text(r, 100+r.Intn(500))...), "mixed"
	default:
		return r.Bytes(r.Intn(600)), "incompressible"
	}
}

var c15Words = []string{"alpha", "beta", "gamma", "delta", "lorem", "ipsum", "dolor", "sit", "amet", "0123456789", "\n", " ", "the", "quick", "brown", "fox"}

func c15Text(r *gen.Rand, n int) []byte {
	var sb strings.Builder
	for sb.Len() < n {
		sb.WriteString(gen.Pick(r, c15Words))
		if r.Intn(3) == 0 {
			sb.WriteByte(' ')
		}
	}
	return []byte(sb.String()[:n])
}

const c15NameChars = "abcdefghijklmnopqrstuvwxyzABCDEFGHIJKLMNOPQRSTUVWXYZ0123456789._-"

var c15Uni = []string{"é", "ü", "ß", "ж", "日本", "語", "😀", "ñ", "Ω", "한"}

func c15ASCII(r *gen.Rand, n int) string {
	var sb strings.Builder
	for i := 0; i < n; i++ {
		sb.WriteByte(c15NameChars[r.Intn(len(c15NameChars))])
	}
	return sb.String()
}

// c15Name: a member name; kind is "ascii", "unicode" or "long" (> 100 bytes, with directories).
func c15Name(r *gen.Rand, i int, allowUnicode, allowLong bool) (string, string) {
	k := r.Intn(8)
	switch {
	case k == 0 && allowLong:
		// long path with several directories (tar: needs prefix split, pax path or GNU long name)
		var parts []string
		total := 0
		want := 101 + r.Intn(150)
		for total < want {
			p := c15ASCII(r, 5+r.Intn(40))
			parts = append(parts, p)
			total += len(p) + 1
		}
		return strings.Join(parts, "/") + "-" + string(rune('a'+i%26)), "long"
	case k == 1 && allowUnicode:
		return c15ASCII(r, 1+r.Intn(6)) + gen.Pick(r, c15Uni) + gen.Pick(r, c15Uni) + c15ASCII(r, r.Intn(5)) + ".txt", "unicode"
	case k == 2:
		return "dir" + c15ASCII(r, 1+r.Intn(5)) + "/sub/" + c15ASCII(r, 1+r.Intn(12)), "ascii"
	default:
		return c15ASCII(r, 1+r.Intn(20)), "ascii"
	}
}

func c15Members(r *gen.Rand, small bool, minN int) int {
	if small {
		return max(minN, 1+r.Intn(2))
	}
	switch r.Intn(6) {
	case 0:
		return minN
	case 1:
		return 1
	case 2:
		return 6 + r.Intn(7) // 6..12
	default:
		return max(minN, 1+r.Intn(5))
	}
}
