package main

import (
	"fmt"

	"verif/fqx"
)

func c19SimpleSpec(s0, s1 int, cuts0, cuts1 []int) c19ConnSpec {
	return c19ConnSpec{
		cl: c19EP{ip: [4]byte{10, 0, 0, 1}, port: 40000}, sv: c19EP{ip: [4]byte{10, 0, 0, 2}, port: 8000},
		isn: [2]uint32{1000, 5000}, size: [2]int{s0, s1}, cuts: [2][]int{cuts0, cuts1}, close: "fin",
	}
}

type c19Scenario struct {
	name string
	spec c19ConnSpec
	link string
	vari string
	edit func(c *c19Conn)
}

func c19Remove(c *c19Conn, i int)  { c.pkts = append(c.pkts[:i:i], c.pkts[i+1:]...) }
func c19Swap(c *c19Conn, i, j int) { c.pkts[i], c.pkts[j] = c.pkts[j], c.pkts[i] }
func c19Insert(c *c19Conn, i int, p *c19Seg) {
	c.pkts = append(c.pkts[:i:i], append([]*c19Seg{p}, c.pkts[i:]...)...)
}
func c19Clone(p *c19Seg, dup string) *c19Seg { q := *p; q.dup = dup; return &q }

func c19LinkByName(n string) c19Link {
	for _, l := range c19Links {
		if l.name == n {
			return l
		}
	}
	return c19Links[0]
}
func c19VariantByName(n string) c19Variant {
	for _, v := range c19Variants {
		if v.name == n {
			return v
		}
	}
	return c19Variants[0]
}

func c19Calib() {
	// base: > syn < synack > ack | >d[0+10] >d[10+10] >d[20+10] <d[0+8] <d[8+12] | >fin <ack <fin >ack
	// idx:     0        1     2        3         4         5         6       7        8    9   10   11
	base := func() c19ConnSpec { return c19SimpleSpec(30, 20, []int{10, 20}, []int{8}) }
	sc := []c19Scenario{
		{name: "plain", spec: base()},
		{name: "plain-pcapng-be-sll2", spec: base(), link: "sll2", vari: "pcapng-be"},
		{name: "midstream-cut-handshake", spec: base(), edit: func(c *c19Conn) { c.pkts = c.pkts[3:] }},
		{name: "midstream-cut-syn-only", spec: base(), edit: func(c *c19Conn) { c.pkts = c.pkts[1:] }},
		{name: "midstream-cut-4", spec: base(), edit: func(c *c19Conn) { c.pkts = c.pkts[4:] }},
		{name: "midstream-server-first", spec: base(), edit: func(c *c19Conn) { c.pkts = c.pkts[6:] }},
		{name: "dup-data", spec: base(), edit: func(c *c19Conn) { c19Insert(c, 5, c19Clone(c.pkts[3], "dup")) }},
		{name: "swap-data", spec: base(), edit: func(c *c19Conn) { c19Swap(c, 3, 4) }},
		{name: "swap-data-queued-dup", spec: base(), edit: func(c *c19Conn) { c19Swap(c, 3, 4); c19Insert(c, 1+3, c19Clone(c.pkts[3], "dup")) }},
		{name: "swap-lastdata-fin-closer", spec: func() c19ConnSpec { s := base(); s.halfClose = true; return s }()},
		{name: "omit-mid", spec: base(), edit: func(c *c19Conn) { c19Remove(c, 4) }},
		{name: "omit-last-then-fin(D11)", spec: base(), edit: func(c *c19Conn) { c19Remove(c, 5) }},
		{name: "omit-last-server-then-fin", spec: base(), edit: func(c *c19Conn) { c19Remove(c, 7) }},
		{name: "omit-first", spec: base(), edit: func(c *c19Conn) { c19Remove(c, 3) }},
		{name: "wrap-isn", spec: func() c19ConnSpec { s := base(); s.isn = [2]uint32{0xfffffff0, 0xffffffff}; return s }()},
		{name: "wrap-isn-exact", spec: func() c19ConnSpec { s := base(); s.isn = [2]uint32{0xfffffffe, 0xfffffff6}; return s }()},
		{name: "dup-syn", spec: base(), edit: func(c *c19Conn) { c19Insert(c, 1, c19Clone(c.pkts[0], "dup")) }},
		{name: "dup-syn-late", spec: base(), edit: func(c *c19Conn) { c19Insert(c, 5, c19Clone(c.pkts[0], "dup")) }},
		{name: "fin-on-data", spec: func() c19ConnSpec { s := base(); s.finOnData = true; return s }()},
		{name: "rst-close", spec: func() c19ConnSpec { s := base(); s.close = "rst"; return s }()},
		{name: "no-close", spec: func() c19ConnSpec { s := base(); s.close = "none"; return s }()},
		{name: "server-closes", spec: func() c19ConnSpec { s := base(); s.closer = 1; return s }()},
		{name: "frag-inorder", spec: base(), edit: func(c *c19Conn) { c.pkts[4].cuts = []int{8, 24}; c.pkts[4].forder = []int{0, 1, 2} }},
		{name: "frag-swapped", spec: base(), edit: func(c *c19Conn) { c.pkts[4].cuts = []int{8, 24}; c.pkts[4].forder = []int{1, 0, 2} }},
		{name: "frag-reversed", spec: base(), edit: func(c *c19Conn) { c.pkts[4].cuts = []int{8, 24}; c.pkts[4].forder = []int{2, 1, 0} }},
	}
	s := fqx.NewSession()
	ck := &c19Checker{}
	_ = ck
	for _, x := range sc {
		c := c19BuildConn(0, x.spec)
		if x.name == "swap-lastdata-fin-closer" {
			// > data[20+10] and >fin swapped
			for i, p := range c.pkts {
				if p.kind == "fin" && p.dir == 0 {
					c19Swap(c, i-1, i)
					// the ack of the fin follows; keep
					break
				}
			}
		}
		if x.edit != nil {
			x.edit(c)
		}
		cp := &c19Capture{class: "calib", link: c19LinkByName(x.link), variant: c19VariantByName(x.vari), conns: []*c19Conn{c}, order: c.pkts}
		cp.assemble(0x1000)
		got := c19Decode(s, []*c19Capture{cp})[0]
		fmt.Printf("== %s\n  %s\n", x.name, cp.describe())
		if got.err != "" {
			fmt.Printf("  ERROR %s\n", got.err)
			continue
		}
		for _, g := range got.conns {
			for d := 0; d < 2; d++ {
				fmt.Printf("  fq %s %s:%d skipped=%d start=%v end=%v stream(%d)=%x\n", []string{"client", "server"}[d], g.d[d].ip, g.d[d].port, g.d[d].skipped, g.d[d].hasStart, g.d[d].hasEnd, len(g.d[d].stream), g.d[d].stream)
			}
		}
		for d := 0; d < 2; d++ {
			w := c19Oracle(c, d)
			fmt.Printf("  want dir%d start=%d len=%d hole=%q@%d syn=%v\n", d, w.start, len(w.stream), w.holeKind, w.holeAt, w.hasSyn)
		}
		for _, b := range got.ip4 {
			fmt.Printf("  ip4 reassembled %x\n", b)
		}
	}
}
